#!/bin/bash
# Offline setup after a fresh restore: regenerate Gen/*.lean from /repo and build the Lean modules of all registered checks.
cd "$(dirname "$0")"
mkdir -p evidence replays
/venv/bin/python tools/setup_build.py 2> >(grep -v conda.cli.condarc >&2)
