#!/bin/bash
# Offline setup after a fresh restore: regenerate Gen/*.lean from /repo and build the whole Lean library.
set -e
cd "$(dirname "$0")"
mkdir -p evidence replays
/venv/bin/python -c "
import sys, os
sys.path.insert(0, 'tools')
from lib import framework
print('extract problems:', framework.extract_all())
" 2>&1 | grep -v conda.cli.condarc
cd lean
lake build 2>&1 | grep -v conda.cli.condarc | tail -n 15
test "${PIPESTATUS[0]}" -eq 0
