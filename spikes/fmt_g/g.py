from fractions import Fraction as F
import random, math, struct
def ilog10(x):  # floor(log10(x)) exact for positive Fraction
    n,d=x.numerator,x.denominator
    e=len(str(n))-len(str(d))
    # adjust
    while F(10)**e > x: e-=1
    while F(10)**(e+1) <= x: e+=1
    return e
def round_half_even(q):
    fl=q.numerator//q.denominator
    r=q-fl
    if r>F(1,2) or (r==F(1,2) and fl%2==1): fl+=1
    return fl
def fmt_g(p, xf):
    x=F(xf)
    if x==0: return '0'
    sign='-' if x<0 else ''
    x=abs(x)
    if p==0: p=1
    e=ilog10(x)
    m=round_half_even(x/F(10)**(e-p+1))
    if m==10**p: m//=10; e+=1
    digits=str(m)  # p digits
    if -4<=e<p:
        # fixed with p-1-e decimals
        nd=p-1-e
        if nd==0: s=digits
        else:
            if e>=0: s=digits[:e+1]+'.'+digits[e+1:]
            else: s='0.'+'0'*(-e-1)+digits
            s=s.rstrip('0').rstrip('.')
    else:
        mant=digits[0]+('.'+digits[1:] if p>1 else '')
        if '.' in mant: mant=mant.rstrip('0').rstrip('.')
        s=mant+'e'+('-' if e<0 else '+')+('%02d'%abs(e))
    return sign+s
random.seed(1)
bad=0
for i in range(200000):
    if i%3==0:
        x=struct.unpack('d',struct.pack('Q',random.getrandbits(64)))[0]
        if not math.isfinite(x) or x==0 or abs(x)<1e-300 or abs(x)>1e300: continue
    elif i%3==1:
        x=round(random.uniform(1,10),random.randint(0,6))*10.0**random.randint(-20,20)
    else:
        x=float(random.choice([1,5,9.5,9.9995,99999.5,0.00012345,2.5,0.5,1e5,123456,999999.5]))*10.0**random.randint(-8,8)
    for p in (1,2,3,5,7,10):
        a=('%%.%dg'%p)%x; b=fmt_g(p,x)
        if a!=b:
            bad+=1
            if bad<10: print(p,repr(x),a,b)
print('bad',bad)
