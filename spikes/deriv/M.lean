-- import-free model
class HasExp (α : Type) where
  exp : α → α

section
variable {α : Type} [Add α] [Sub α] [Mul α] [Div α] [Neg α] [NatCast α] [HasExp α]

def pseudoIrrev (t kf prod major minor : α) : α :=
  prod + minor * (((1:Nat):α) - HasExp.exp (-major * kf * t))

def pseudoRev (t kf kb prod major minor : α) : α :=
  (-kb * prod + kf * major * minor + (kb * prod - kf * major * minor) * HasExp.exp (-t * (kb + kf * major))) / (kb + kf * major)
end

instance : HasExp Float := ⟨Float.exp⟩
instance : NatCast Float := ⟨Float.ofNat⟩
#eval pseudoIrrev (1.0:Float) 2.0 0.5 3.0 0.25
