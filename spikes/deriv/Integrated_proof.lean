import ChemModel.Model.Integrated
import Mathlib.Analysis.SpecialFunctions.ExpDeriv
import Mathlib.Tactic.Ring
open Real
noncomputable instance : HasExp ℝ := ⟨Real.exp⟩

theorem pseudoIrrev_ode (kf prod major minor t : ℝ) :
    HasDerivAt (fun t => pseudoIrrev t kf prod major minor)
      (kf * major * (minor + prod - pseudoIrrev t kf prod major minor)) t := by
  unfold pseudoIrrev
  have h1 : HasDerivAt (fun t : ℝ => -major * kf * t) (-major * kf) t := by
    simpa using (hasDerivAt_id t).const_mul (-major * kf)
  have h4 := (((h1.exp).const_sub 1).const_mul minor).const_add prod
  simp only [HasExp.exp, Nat.cast_one]
  exact h4.congr_deriv (by ring)
