import M
import Mathlib.Analysis.SpecialFunctions.ExpDeriv
import Mathlib.Tactic.FieldSimp
import Mathlib.Tactic.Ring
open Real
noncomputable instance : HasExp ℝ := ⟨Real.exp⟩

theorem pseudoIrrev_ode (kf prod major minor t : ℝ) :
    HasDerivAt (fun t => pseudoIrrev t kf prod major minor)
      (kf * major * (minor + prod - pseudoIrrev t kf prod major minor)) t := by
  unfold pseudoIrrev
  have h1 : HasDerivAt (fun t : ℝ => -major * kf * t) (-major * kf) t := by
    simpa using (hasDerivAt_id t).const_mul (-major * kf)
  have h3 := ((h1.exp).const_sub 1).const_mul minor
  have h4 := h3.const_add prod
  simp only [HasExp.exp, Nat.cast_one]
  convert h4 using 1
  trace_state
  sorry

theorem pseudoIrrev_init (kf prod major minor : ℝ) : pseudoIrrev 0 kf prod major minor = prod := by
  simp [pseudoIrrev, HasExp.exp]

-- pseudoRev as written in the code returns the extent: at t = 0 it is 0, not prod
theorem pseudoRev_init_defect : pseudoRev (0:ℝ) 1 1 1 1 1 = 0 := by
  simp [pseudoRev, HasExp.exp]
theorem pseudoRev_init (kf kb prod major minor : ℝ) : pseudoRev 0 kf kb prod major minor = 0 := by
  simp [pseudoRev, HasExp.exp]
#print axioms pseudoIrrev_ode
