import sys, random, subprocess
sys.path.insert(0,'/repo')
from fractions import Fraction as F
from chempy.util.parsing import _parse_stoich
from chempy.util.periodic import symbols
import chempy; assert chempy.__file__.startswith('/repo')
rnd=random.Random(7)
def cnt():
    r=rnd.random()
    if r<0.45: return ''
    if r<0.8: return str(rnd.randint(1,30))
    if r<0.9: return '%d.%d'%(rnd.randint(0,9),rnd.randint(0,999))
    return rnd.choice(['0','1','01','10','2.50','0.5'])
def term(d):
    if d<=0 or rnd.random()<0.7:
        return rnd.choice(symbols)+cnt()
    o,c=rnd.choice(['()','[]','{}'])
    return o+''.join(term(d-1) for _ in range(rnd.randint(1,3)))+c+cnt()
def formula(): return ''.join(term(3) for _ in range(rnd.randint(1,4)))
def mutate(s):
    ops=rnd.randint(1,2)
    for _ in range(ops):
        i=rnd.randrange(len(s)+1)
        r=rnd.random()
        if r<0.3 and s: s=s[:i]+s[i+1:]
        elif r<0.7: s=s[:i]+rnd.choice('()[]{}xXqQJj.9aB')+s[i:]
        elif s: j=rnd.randrange(len(s)); l=list(s); l[i%len(s)],l[j]=l[j],l[i%len(s)]; s=''.join(l)
    return s
cases=[]
for a in symbols[:118]:
    for b in rnd.sample(symbols,12): cases.append(a+b)
for _ in range(3000): cases.append(formula())
for _ in range(3000):
    m=mutate(formula())
    if m and all(ord(ch)<128 and ch not in ' \t*\'@+-' for ch in m): cases.append(m)
def real(s):
    try: d=_parse_stoich(s)
    except Exception as e: return 'ERR'
    return ' '.join('%d:%d/%d'%(k,F(repr(v) if isinstance(v,float) else v).numerator,F(repr(v) if isinstance(v,float) else v).denominator) for k,v in sorted(d.items()))
open('cases.txt','w').write('\n'.join(cases)+'\n')
out=subprocess.run(['lean','--run','Drv.lean'],input=open('cases.txt').read(),capture_output=True,text=True,env={'LEAN_PATH':'.','PATH':'/usr/bin:/bin:'+__import__('os').environ['PATH']})
lean=out.stdout.split('\n')[:-1]
print(len(cases),len(lean),out.stderr[:300])
bad=0; nerr=0
for s,l in zip(cases,lean):
    r=real(s)
    if r=='ERR': nerr+=1
    if r!=l:
        # tolerate float rounding: compare numerically
        try:
            ok = r!='ERR' and l!='ERR' and all(abs(F(a.split(':')[1])-F(b.split(':')[1]))<=F(1,10**9)*abs(F(b.split(':')[1])) and a.split(':')[0]==b.split(':')[0] for a,b in zip(r.split(),l.split())) and len(r.split())==len(l.split())
        except Exception: ok=False
        if not ok:
            bad+=1
            if bad<15: print(repr(s),'| real:',r,'| lean:',l)
print('bad',bad,'errs',nerr)
