import P
/-! Spike: AST, renderer, denotation and the unbounded round-trip theorem. -/

inductive Br | paren | square | curly
deriving DecidableEq, Repr
def Br.op : Br → Char | .paren => '(' | .square => '[' | .curly => '{'
def Br.cl : Br → Char | .paren => ')' | .square => ']' | .curly => '}'

/-- a written count: omitted, integer digits, or digits '.' digits -/
inductive Cnt
  | omitted
  | int (ip : List Char)
  | dec (ip fp : List Char)

def Cnt.render : Cnt → List Char
  | .omitted => []
  | .int ip => ip
  | .dec ip fp => ip ++ '.' :: fp
def Cnt.val : Cnt → Rat
  | .omitted => 1
  | .int ip => (digitsVal ip : Nat)
  | .dec ip fp => (digitsVal ip : Nat) + (digitsVal fp : Nat) / ((10 ^ fp.length : Nat) : Rat)
def allDigits (l : List Char) : Prop := l ≠ [] ∧ ∀ c ∈ l, c.isDigit = true
def Cnt.WF : Cnt → Prop
  | .omitted => True
  | .int ip => allDigits ip
  | .dec ip fp => allDigits ip ∧ allDigits fp

mutual
inductive Term
  | elem (i : Nat) (n : Cnt)            -- index into `symbols`
  | group (b : Br) (body : Terms) (n : Cnt)
inductive Terms
  | nil
  | cons (t : Term) (ts : Terms)
end

def symChars (i : Nat) : List Char := (symbols.getD i "").toList

mutual
def Term.render : Term → List Char
  | .elem i n => symChars i ++ n.render
  | .group b body n => b.op :: (body.render ++ b.cl :: n.render)
def Terms.render : Terms → List Char
  | .nil => []
  | .cons t ts => t.render ++ ts.render
end

mutual
def Term.denote : Term → Comp
  | .elem i n => [(i+1, n.val)]
  | .group _ body n => scale n.val body.denote
def Terms.denote : Terms → Comp
  | .nil => []
  | .cons t ts => t.denote ++ ts.denote
end

mutual
def Term.size : Term → Nat
  | .elem _ _ => 1
  | .group _ body _ => body.size + 2
def Terms.size : Terms → Nat
  | .nil => 1
  | .cons t ts => t.size + ts.size + 1
end

mutual
def Term.WF : Term → Prop
  | .elem i n => i < 118 ∧ n.WF
  | .group _ body n => body.WF ∧ body ≠ .nil ∧ n.WF
def Terms.WF : Terms → Prop
  | .nil => True
  | .cons t ts => t.WF ∧ ts.WF
end

/-! ### lexical lemmas -/

/-- what may follow a count / an element symbol -/
def Follow (r : List Char) : Prop :=
  ∀ c, r.head? = some c → c.isDigit = false ∧ c ≠ '.' ∧ c.isLower = false

theorem takeDigits_append (ds r : List Char) (h : ∀ c ∈ ds, c.isDigit = true)
    (hr : ∀ c, r.head? = some c → c.isDigit = false) :
    takeDigits (ds ++ r) = (ds, r) := by
  induction ds with
  | nil =>
    cases r with
    | nil => simp [takeDigits]
    | cons c cs => simp [takeDigits, hr c (by simp)]
  | cons d ds ih =>
    have hd : d.isDigit = true := h d (by simp)
    have := ih (fun c hc => h c (by simp [hc]))
    simp [takeDigits, hd, this]

theorem parseCount_render (n : Cnt) (hn : n.WF) (r : List Char) (hr : Follow r) :
    parseCount (n.render ++ r) = (n.val, r) := by
  have hr' : ∀ c, r.head? = some c → c.isDigit = false := fun c hc => (hr c hc).1
  cases n with
  | omitted =>
    have h0 : takeDigits r = ([], r) := by simpa using takeDigits_append [] r (by simp) hr'
    simp [Cnt.render, Cnt.val, parseCount, h0]
  | int ip =>
    obtain ⟨hne, hd⟩ := hn
    have h1 : takeDigits (ip ++ r) = (ip, r) := takeDigits_append ip r hd hr'
    simp only [Cnt.render, Cnt.val, parseCount, h1, if_neg hne]
    cases r with
    | nil => rfl
    | cons c cs =>
      have hc : c ≠ '.' := (hr c (by simp)).2.1
      split
      · rename_i r2 heq
        simp at heq; exact absurd heq.1 hc
      · rfl
  | dec ip fp =>
    obtain ⟨⟨hne, hd⟩, ⟨hne2, hd2⟩⟩ := hn
    have h1 : takeDigits (ip ++ '.' :: (fp ++ r)) = (ip, '.' :: (fp ++ r)) :=
      takeDigits_append ip _ hd (by intro c hc; simp at hc; subst hc; decide)
    have h2 : takeDigits (fp ++ r) = (fp, r) := takeDigits_append fp r hd2 hr'
    simp only [Cnt.render, Cnt.val, parseCount, List.append_assoc, List.cons_append, h1, h2,
      if_neg hne, if_neg hne2]

/-! ### element table lemmas (finite facts by `decide +kernel`, lifted) -/

def NotLower (r : List Char) : Prop := ∀ c, r.head? = some c → c.isLower = false

theorem matchBranch_two (b : Char × List Char × Bool) (a c : Char) (r : List Char) :
    matchBranch b (a :: c :: r) = (matchBranch b [a, c]).map (fun p => (p.1, p.2 ++ r)) := by
  simp only [matchBranch]
  split <;> (try split) <;> (try split) <;> simp

theorem matchElemAux_two (bs : List (Char × List Char × Bool)) (a c : Char) (r : List Char) :
    matchElemAux bs (a :: c :: r) = (matchElemAux bs [a, c]).map (fun p => (p.1, p.2 ++ r)) := by
  induction bs with
  | nil => simp [matchElemAux]
  | cons b bs ih =>
    simp only [matchElemAux, matchBranch_two b a c r]
    cases h : matchBranch b [a, c] <;> simp [ih]

theorem matchBranch_one (b : Char × List Char × Bool) (a c : Char) (r : List Char)
    (hc : b.2.1.contains c = false) :
    matchBranch b (a :: c :: r) = (matchBranch b [a]).map (fun p => (p.1, p.2 ++ c :: r)) := by
  simp only [matchBranch, hc]
  by_cases h1 : a = b.1 <;> by_cases h2 : b.2.2 = true <;> simp [h1, h2]

theorem matchElemAux_one (bs : List (Char × List Char × Bool)) (a c : Char) (r : List Char)
    (hc : ∀ b ∈ bs, b.2.1.contains c = false) :
    matchElemAux bs (a :: c :: r) = (matchElemAux bs [a]).map (fun p => (p.1, p.2 ++ c :: r)) := by
  induction bs with
  | nil => simp [matchElemAux]
  | cons b bs ih =>
    have hb := hc b (by simp)
    have ih' := ih (fun b' hb' => hc b' (by simp [hb']))
    simp only [matchElemAux, matchBranch_one b a c r hb]
    cases h : matchBranch b [a] <;> simp [ih']

theorem matchElemAux_head_ne (bs : List (Char × List Char × Bool)) (c : Char) (r : List Char)
    (hc : ∀ b ∈ bs, b.1 ≠ c) : matchElemAux bs (c :: r) = none := by
  induction bs with
  | nil => simp [matchElemAux]
  | cons b bs ih =>
    have hb : ¬ c = b.1 := fun h => hc b (by simp) h.symm
    have ih' := ih (fun b' hb' => hc b' (by simp [hb']))
    have : matchBranch b (c :: r) = none := by
      cases r with
      | nil => simp [matchBranch, hb]
      | cons d ds => simp [matchBranch, hb]
    simp [matchElemAux, this, ih']

/-- the finite facts about the generated table -/
def symFacts (i : Nat) : Bool :=
  let s := symChars i
  (s.length == 1 || s.length == 2) &&
  matchElemAux elemBranches s == some (s, []) &&
  symIndex s == some (i+1) &&
  s.all (fun c => !c.isDigit && c != '.') && (s.head?.map (fun c => !c.isLower)) == some true

theorem table_syms : ∀ i < 118, symFacts i = true := by decide +kernel
theorem table_sets_lower : elemBranches.all (fun b => b.2.1.all Char.isLower) = true := by decide +kernel
theorem table_first_upper : elemBranches.all (fun b => b.1.isUpper) = true := by decide +kernel

theorem symFacts_of_lt {i : Nat} (hi : i < 118) : symFacts i = true := by
  exact table_syms i hi

theorem contains_false_of_notLower (c : Char) (hc : c.isLower = false) :
    ∀ b ∈ elemBranches, b.2.1.contains c = false := by
  intro b hb
  have h := List.all_eq_true.mp table_sets_lower b hb
  rw [List.all_eq_true] at h
  cases hcon : b.2.1.contains c with
  | false => rfl
  | true =>
    have hmem : c ∈ b.2.1 := by simpa using hcon
    have := h c hmem
    rw [hc] at this; exact absurd this (by decide)

theorem matchElem_sym (i : Nat) (hi : i < 118) (r : List Char) (hr : NotLower r) :
    matchElem (symChars i ++ r) = some (i+1, r) := by
  have hf := symFacts_of_lt hi
  simp only [symFacts, Bool.and_eq_true, Bool.or_eq_true, beq_iff_eq] at hf
  obtain ⟨⟨⟨⟨hlen, hm⟩, hidx⟩, _⟩, _⟩ := hf
  generalize symChars i = s at *
  cases s with
  | nil => simp at hlen
  | cons a s1 =>
    cases s1 with
    | nil =>
      cases r with
      | nil => simp [matchElem, hm, hidx]
      | cons c cs =>
        have hc : c.isLower = false := hr c (by simp)
        have := matchElemAux_one elemBranches a c cs (contains_false_of_notLower c hc)
        simp [matchElem, this, hm, hidx]
    | cons b s2 =>
      cases s2 with
      | nil =>
        have := matchElemAux_two elemBranches a b r
        simp [matchElem, this, hm, hidx]
      | cons _ _ => simp at hlen

/-! ### the grammar-level lemmas and the round trip -/

def isCloser (c : Char) : Prop := c = ')' ∨ c = ']' ∨ c = '}'
def Stop (r : List Char) : Prop := ∀ c, r.head? = some c → isCloser c

theorem matchElem_none_of_not_upper (c : Char) (r : List Char) (hc : c.isUpper = false) :
    matchElem (c :: r) = none := by
  have : matchElemAux elemBranches (c :: r) = none := by
    apply matchElemAux_head_ne
    intro b hb hbc
    have h := List.all_eq_true.mp table_first_upper b hb
    rw [hbc, hc] at h; exact absurd h (by decide)
  simp [matchElem, this]

theorem matchElemAux_nil (bs : List (Char × List Char × Bool)) : matchElemAux bs [] = none := by
  induction bs with
  | nil => rfl
  | cons b bs ih => simp [matchElemAux, matchBranch, ih]

theorem parseTerm_stop (fuel : Nat) (r : List Char) (hs : Stop r) : parseTerm fuel r = none := by
  cases fuel with
  | zero => simp [parseTerm]
  | succ f =>
    cases r with
    | nil => simp [parseTerm, matchElem, matchElemAux_nil]
    | cons c cs =>
      have hc := hs c (by simp)
      have hu : c.isUpper = false := by rcases hc with h | h | h <;> subst h <;> decide
      have hcl : closer c = none := by rcases hc with h | h | h <;> subst h <;> rfl
      simp [parseTerm, matchElem_none_of_not_upper c cs hu, hcl]

theorem isDigit_notLower (c : Char) (h : c.isDigit = true) : c.isLower = false := by
  simp only [Char.isDigit, Char.isLower, Bool.and_eq_true, decide_eq_true_eq] at *
  have h2 : c.val ≤ 57 := h.2
  simp only [Bool.and_eq_false_iff, decide_eq_false_iff_not]
  left
  intro h3
  have h3' : (97 : UInt32) ≤ c.val := h3
  have := UInt32.le_trans h3' h2
  exact absurd this (by decide)

theorem follow_notLower {r : List Char} (h : Follow r) : NotLower r := fun c hc => (h c hc).2.2

theorem notLower_cnt (n : Cnt) (hn : n.WF) (r : List Char) (hr : Follow r) :
    NotLower (n.render ++ r) := by
  cases n with
  | omitted => simpa [Cnt.render] using follow_notLower hr
  | int ip =>
    obtain ⟨hne, hd⟩ := hn
    cases ip with
    | nil => exact absurd rfl hne
    | cons a as =>
      intro c hc; simp [Cnt.render] at hc; subst hc
      exact isDigit_notLower _ (hd _ (by simp))
  | dec ip fp =>
    obtain ⟨⟨hne, hd⟩, _⟩ := hn
    cases ip with
    | nil => exact absurd rfl hne
    | cons a as =>
      intro c hc; simp [Cnt.render] at hc; subst hc
      exact isDigit_notLower _ (hd _ (by simp))

theorem stop_follow {r : List Char} (h : Stop r) : Follow r := by
  intro c hc
  rcases h c hc with h | h | h <;> subst h <;> decide

mutual
theorem Term.denote_ne_nil : ∀ (t : Term), t.WF → t.denote ≠ []
  | .elem i n, _ => by simp [Term.denote]
  | .group b body n, h => by
    obtain ⟨hb, hne, _⟩ := h
    have := Terms.denote_ne_nil body hb hne
    simp [Term.denote, scale, this]
theorem Terms.denote_ne_nil : ∀ (ts : Terms), ts.WF → ts ≠ .nil → ts.denote ≠ []
  | .nil, _, h => absurd rfl h
  | .cons t ts, h, _ => by
    have := Term.denote_ne_nil t h.1
    simp [Terms.denote, this]
end

/-- first character of a rendered well-formed term is an uppercase letter or an opening bracket -/
theorem Term.render_follow (t : Term) (ht : t.WF) (r : List Char) : Follow (t.render ++ r) := by
  cases t with
  | elem i n =>
    have hf := symFacts_of_lt ht.1
    simp only [symFacts, Bool.and_eq_true, Bool.or_eq_true, beq_iff_eq] at hf
    obtain ⟨⟨⟨⟨hlen, _⟩, _⟩, hall⟩, hhead⟩ := hf
    intro c hc
    simp only [Term.render, List.append_assoc] at hc
    generalize symChars i = s at *
    cases s with
    | nil => simp at hlen
    | cons a s1 =>
      simp at hc; subst hc
      simp at hhead hall
      exact ⟨hall.1.1, hall.1.2, hhead⟩
  | group b body n =>
    intro c hc
    simp [Term.render] at hc; subst hc
    cases b <;> decide

theorem Terms.render_follow (ts : Terms) (hts : ts.WF) (r : List Char) (hs : Stop r) :
    Follow (ts.render ++ r) := by
  cases ts with
  | nil => simpa [Terms.render] using stop_follow hs
  | cons t ts' =>
    simp only [Terms.render, List.append_assoc]
    exact Term.render_follow t hts.1 _

theorem closer_op (b : Br) : closer b.op = some b.cl := by cases b <;> rfl
theorem op_not_upper (b : Br) : b.op.isUpper = false := by cases b <;> decide
theorem cl_isCloser (b : Br) : isCloser b.cl := by cases b <;> simp [isCloser, Br.cl]

mutual
theorem parseTerm_render : ∀ (t : Term), t.WF → ∀ (r : List Char), Follow r →
    ∀ fuel, t.size ≤ fuel → parseTerm fuel (t.render ++ r) = some (t.denote, r)
  | .elem i n, ht, r, hr, fuel, hf => by
    cases fuel with
    | zero => simp [Term.size] at hf
    | succ f =>
      have h1 := matchElem_sym i ht.1 (n.render ++ r) (notLower_cnt n ht.2 r hr)
      have h2 := parseCount_render n ht.2 r hr
      simp [parseTerm, Term.render, Term.denote, List.append_assoc, h1, h2]
  | .group b body n, ht, r, hr, fuel, hf => by
    obtain ⟨hb, hne, hn⟩ := ht
    cases fuel with
    | zero => simp [Term.size] at hf
    | succ f =>
      have hf' : body.size ≤ f := by simp [Term.size] at hf; omega
      have hstop : Stop (b.cl :: (n.render ++ r)) := by
        intro c hc; simp at hc; subst hc; exact cl_isCloser b
      have ih := parseTerms_render body hb (b.cl :: (n.render ++ r)) hstop f hf'
      have h2 := parseCount_render n hn r hr
      have hd := Terms.denote_ne_nil body hb hne
      simp [parseTerm, Term.render, Term.denote, List.append_assoc,
        matchElem_none_of_not_upper _ _ (op_not_upper b), closer_op, ih, h2, hd]
theorem parseTerms_render : ∀ (ts : Terms), ts.WF → ∀ (r : List Char), Stop r →
    ∀ fuel, ts.size ≤ fuel → parseTerms fuel (ts.render ++ r) = some (ts.denote, r)
  | .nil, _, r, hs, fuel, hf => by
    cases fuel with
    | zero => simp [Terms.size] at hf
    | succ f => simp [parseTerms, Terms.render, Terms.denote, parseTerm_stop f r hs]
  | .cons t ts, hts, r, hs, fuel, hf => by
    cases fuel with
    | zero => simp [Terms.size] at hf
    | succ f =>
      have hft : t.size ≤ f := by simp [Terms.size] at hf; omega
      have hfts : ts.size ≤ f := by simp [Terms.size] at hf; omega
      have h1 := parseTerm_render t hts.1 (ts.render ++ r) (Terms.render_follow ts hts.2 r hs) f hft
      have h2 := parseTerms_render ts hts.2 r hs f hfts
      simp [parseTerms, Terms.render, Terms.denote, List.append_assoc, h1, h2]
end

theorem symChars_length_pos {i : Nat} (hi : i < 118) : 1 ≤ (symChars i).length := by
  have hf := symFacts_of_lt hi
  simp only [symFacts, Bool.and_eq_true, Bool.or_eq_true, beq_iff_eq] at hf
  obtain ⟨⟨⟨⟨hlen, _⟩, _⟩, _⟩, _⟩ := hf
  omega

mutual
theorem Term.size_le : ∀ (t : Term), t.WF → t.size + 1 ≤ 3 * t.render.length
  | .elem i n, h => by
    have := symChars_length_pos h.1
    simp [Term.size, Term.render]; omega
  | .group b body n, h => by
    have := Terms.size_le body h.1
    simp [Term.size, Term.render] at *; omega
theorem Terms.size_le : ∀ (ts : Terms), ts.WF → ts.size ≤ 3 * ts.render.length + 2
  | .nil, _ => by simp [Terms.size]
  | .cons t ts, h => by
    have h1 := Term.size_le t h.1
    have h2 := Terms.size_le ts h.2
    have h3 : 1 ≤ t.render.length := by
      cases t with
      | elem i n => have := symChars_length_pos h.1.1; simp [Term.render]; omega
      | group b body n => simp [Term.render]
    simp [Terms.size, Terms.render] at *; omega
end

/-- every well-formed (arbitrarily nested, arbitrarily long) stoichiometric part parses to its denotation -/
theorem parseStoich_render (ts : Terms) (hts : ts.WF) (hne : ts ≠ .nil) :
    parseStoich ts.render = some ts.denote := by
  have h := parseTerms_render ts hts [] (by intro c hc; simp at hc) (3 * ts.render.length + 3) (Nat.le_succ_of_le (Terms.size_le ts hts))
  simp only [List.append_nil] at h
  simp [parseStoich, h, Terms.denote_ne_nil ts hts hne]

#print axioms parseTerm_render
