import P
def merge (c : Comp) : List (Nat × Rat) :=
  let keys := c.map (·.1) |>.eraseDups
  let m := keys.map fun k => (k, (c.filter (·.1 == k)).foldl (fun a p => a + p.2) 0)
  m.toArray.qsort (fun a b => a.1 < b.1) |>.toList
partial def loop (h : IO.FS.Stream) : IO Unit := do
  let line ← h.getLine
  if line.isEmpty then return ()
  let s := line.toList.filter (· != (Char.ofNat 10))
  match parseStoich s with
  | none => IO.println "ERR"
  | some c => IO.println (" ".intercalate ((merge c).map fun (k, v) => s!"{k}:{v.num}/{v.den}"))
  loop h
def main : IO Unit := do loop (← IO.getStdin)
