import G
/-! Spike: char-level recursive-descent model of the pyparsing formula grammar
    (elements, three bracket kinds, integer/decimal counts), no Mathlib. -/

def matchBranch (b : Char × List Char × Bool) : List Char → Option (List Char × List Char)
  | c1 :: c2 :: rest =>
    if c1 = b.1 then
      if b.2.1.contains c2 then some ([c1, c2], rest)
      else if b.2.2 then some ([c1], c2 :: rest) else none
    else none
  | [c1] => if c1 = b.1 ∧ b.2.2 then some ([c1], []) else none
  | [] => none

def matchElemAux : List (Char × List Char × Bool) → List Char → Option (List Char × List Char)
  | [], _ => none
  | b :: bs, s => match matchBranch b s with
    | some r => some r
    | none => matchElemAux bs s

def symIndex (tok : List Char) : Option Nat :=
  let i := symbols.findIdx (fun t => t.toList = tok)
  if i < symbols.length then some (i+1) else none

/-- element token: atomic number and rest -/
def matchElem (s : List Char) : Option (Nat × List Char) :=
  match matchElemAux elemBranches s with
  | some (tok, rest) => (symIndex tok).map (·, rest)
  | none => none

def takeDigits : List Char → List Char × List Char
  | c :: cs => if c.isDigit then let (d, r) := takeDigits cs; (c :: d, r) else ([], c :: cs)
  | [] => ([], [])

def digitsVal (ds : List Char) : Nat := ds.foldl (fun a c => 10 * a + (c.toNat - 48)) 0

/-- `(\\d+\\.\\d+|\\d*)` with parse action `1 if "" else float` -/
def parseCount (s : List Char) : Rat × List Char :=
  let ip := (takeDigits s).1
  let r := (takeDigits s).2
  if ip = [] then (1, s)
  else match r with
    | '.' :: r2 =>
      let fp := (takeDigits r2).1
      if fp = [] then ((digitsVal ip : Nat), r)
      else ((digitsVal ip : Nat) + (digitsVal fp : Nat) / ((10 ^ fp.length : Nat) : Rat), (takeDigits r2).2)
    | _ => ((digitsVal ip : Nat), r)

def closer : Char → Option Char
  | '(' => some ')' | '[' => some ']' | '{' => some '}' | _ => none

abbrev Comp := List (Nat × Rat)
def scale (m : Rat) (c : Comp) : Comp := c.map fun (k, v) => (k, v * m)

mutual
def parseTerm : Nat → List Char → Option (Comp × List Char)
  | 0, _ => none
  | fuel+1, s =>
    match matchElem s with
    | some (z, rest) => let (n, r) := parseCount rest; some ([(z, n)], r)
    | none =>
      match s with
      | c :: cs =>
        match closer c with
        | some cl =>
          match parseTerms fuel cs with
          | some (body, cl' :: r) =>
            if cl' = cl ∧ body ≠ [] then let (n, r') := parseCount r; some (scale n body, r') else none
          | _ => none
        | none => none
      | [] => none
/-- zero or more terms (greedy) -/
def parseTerms : Nat → List Char → Option (Comp × List Char)
  | 0, _ => none
  | fuel+1, s =>
    match parseTerm fuel s with
    | some (c, r) => match parseTerms fuel r with
      | some (c', r') => some (c ++ c', r')
      | none => some (c, r)
    | none => some ([], s)
end

def parseStoich (s : List Char) : Option Comp :=
  match parseTerms (3 * s.length + 3) s with
  | some (c, []) => if c = [] then none else some c
  | _ => none

#eval parseStoich "Fe(CN)6".toList
#eval parseStoich "[Fe(H2O)6]".toList
#eval parseStoich "Ca2.832Fe0.6285Mg5.395(CO3)6".toList
#eval parseStoich "Hx".toList
#eval parseStoich "(H2O".toList
