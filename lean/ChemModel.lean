-- Root of the library; `lake build` (default target) builds everything listed here.
import ChemModel.Basic.Proto
