/-
C13: the three concrete formats satisfy the generic specifications of `Proofs/FormulaFormat.lean`
(`FmtSpec`: the callbacks / tables of `formula_to_latex/_unicode/_html` agree with the presentation;
 `UnSpec`: the token scanners `unLatex / unUnicode / unHtml` undo each piece of it).
All facts are computed from the generated tables (`Gen/Render.lean`).
-/
import ChemModel.Proofs.FormulaFormat

set_option linter.constructorNameAsVariable false

namespace ChemModel.FormulaFormat
open ChemModel.Formula ChemModel.Gen

/-! ### `FmtSpec` -/

theorem latexFmtSpec : FmtSpec latexFmt latexPres (fun b => b != .curly) where
  keys := by decide
  sub := ⟨fun n _ => by cases n <;> rfl, fun b hb => by cases b <;> simp_all [latexPres, Br.op, Br.cl]⟩
  sup := fun _ _ _ _ => rfl
  infx := rfl
  pre := by decide

theorem htmlFmtSpec : FmtSpec htmlFmt htmlPres (fun _ => true) where
  keys := by decide
  sub := ⟨fun n _ => by cases n <;> rfl, fun b _ => ⟨rfl, rfl⟩⟩
  sup := fun _ _ _ _ => rfl
  infx := rfl
  pre := by decide

theorem charMap_map (tbl : List (Char × Char)) (x : Str) (h : ∀ c ∈ x, (tbl.lookup c).isSome = true) :
    charMap tbl x = some (x.map (lookupD tbl)) := by
  induction x with
  | nil => rfl
  | cons c x ih =>
    have hc := h c (by simp)
    have ih' := ih (fun d hd => h d (by simp [hd]))
    cases hl : tbl.lookup c with
    | none => rw [hl] at hc; exact absurd hc (by decide)
    | some d => simp [charMap, hl, ih', lookupD]

theorem unicodeSub_digits : ∀ d ∈ digitChars, (Render.unicodeSub.lookup d).isSome = true := by decide
theorem unicodeSup_digits : ∀ d ∈ digitChars, (Render.unicodeSup.lookup d).isSome = true := by decide

theorem unicodeSub_cnt (c : Char) (h : cntB c = true) : (Render.unicodeSub.lookup c).isSome = true := by
  simp only [cntB, Bool.or_eq_true, beq_iff_eq] at h
  rcases h with h | h
  · exact unicodeSub_digits c (isDigit_mem c h)
  · subst h; decide

theorem unicodeFmtSpec : FmtSpec unicodeFmt unicodePres (fun _ => true) where
  keys := by decide
  sub := ⟨fun n hn => by
      cases n with
      | omitted => rfl
      | int ip => exact charMap_map _ _ (fun c hc => unicodeSub_cnt c (cnt_chars_wf _ hn c hc))
      | dec ip fp => exact charMap_map _ _ (fun c hc => unicodeSub_cnt c (cnt_chars_wf _ hn c hc)),
    fun b _ => ⟨rfl, rfl⟩⟩
  sup := fun ds sg hds hsg => by
    apply charMap_map
    intro c hc
    rcases List.mem_append.mp hc with h | h
    · exact unicodeSup_digits c (isDigit_mem c (hds c h))
    · simp at h; subst h; rcases hsg with e | e <;> subst e <;> decide
  infx := rfl
  pre := by decide

/-! ### `UnSpec`: generic pieces -/

section pieces
variable (toks : List Tok)

/-- inside a superscript: digits are collected -/
theorem scan_sup_digits (hdig : ∀ d ∈ digitChars, ∀ r, findTok toks 2 (d :: r) = some ⟨2, [d], .acc d⟩)
    (ds : Str) (hds : ∀ c ∈ ds, c.isDigit = true) (acc r : Str) :
    scan toks 0 2 acc (ds ++ r) = scan toks 0 2 (acc ++ ds) r := by
  induction ds generalizing acc with
  | nil => simp
  | cons d ds ih =>
    have h1 := hdig d (isDigit_mem d (hds d (by simp))) (ds ++ r)
    have := scan_acc toks (acc := acc) (x := []) (by simpa using h1)
    simp only [List.nil_append] at this
    rw [List.cons_append, this, ih (fun c hc => hds c (by simp [hc]))]
    simp

/-- a delimited subscript: `pre x post` ↦ `x` -/
theorem scan_sub_tmpl (c1 : Char) (x1 : Str) (c2 : Char) (x2 : Str)
    (hopen : ∀ r, findTok toks 0 (c1 :: (x1 ++ r)) = some ⟨0, c1 :: x1, .mode 1⟩)
    (hin : headsOK toks 1 cntB = true)
    (hclose : ∀ r, findTok toks 1 (c2 :: (x2 ++ r)) = some ⟨1, c2 :: x2, .mode 0⟩)
    (x r : Str) (hx : ∀ c ∈ x, cntB c = true) :
    scan toks 0 0 [] ((c1 :: x1) ++ (x ++ (c2 :: x2)) ++ r) = x ++ scan toks 0 0 [] r := by
  have e : (c1 :: x1) ++ (x ++ (c2 :: x2)) ++ r = c1 :: (x1 ++ (x ++ (c2 :: (x2 ++ r)))) := by simp
  rw [e, scan_mode toks (hopen _), scan_copy toks hin x _ [] hx, scan_mode toks (hclose _)]

/-- a delimited superscript: `pre ds sg post` ↦ `sg ds` -/
theorem scan_sup_tmpl (c1 : Char) (x1 : Str) (c2 : Char) (x2 : Str)
    (hopen : ∀ r, findTok toks 0 (c1 :: (x1 ++ r)) = some ⟨0, c1 :: x1, .mode 2⟩)
    (hdig : ∀ d ∈ digitChars, ∀ r, findTok toks 2 (d :: r) = some ⟨2, [d], .acc d⟩)
    (hplus : ∀ r, findTok toks 2 ('+' :: r) = some ⟨2, ['+'], .flush '+'⟩)
    (hminus : ∀ r, findTok toks 2 ('-' :: r) = some ⟨2, ['-'], .flush '-'⟩)
    (hclose : ∀ r, findTok toks 2 (c2 :: (x2 ++ r)) = some ⟨2, c2 :: x2, .mode 0⟩)
    (ds : Str) (sg : Char) (r : Str) (hds : ∀ c ∈ ds, c.isDigit = true) (hsg : sg = '+' ∨ sg = '-') :
    scan toks 0 0 [] ((c1 :: x1) ++ ((ds ++ [sg]) ++ (c2 :: x2)) ++ r) = sg :: (ds ++ scan toks 0 0 [] r) := by
  have e : (c1 :: x1) ++ ((ds ++ [sg]) ++ (c2 :: x2)) ++ r = c1 :: (x1 ++ (ds ++ (sg :: (c2 :: (x2 ++ r))))) := by simp
  rw [e, scan_mode toks (hopen _), scan_sup_digits toks hdig ds hds]
  have hfl : scan toks 0 2 ([] ++ ds) (sg :: (c2 :: (x2 ++ r))) = sg :: (([] ++ ds) ++ scan toks 0 2 [] (c2 :: (x2 ++ r))) := by
    rcases hsg with h | h <;> subst h
    · have := scan_flush toks (acc := [] ++ ds) (x := []) (r := c2 :: (x2 ++ r)) (by simpa using hplus _)
      simpa using this
    · have := scan_flush toks (acc := [] ++ ds) (x := []) (r := c2 :: (x2 ++ r)) (by simpa using hminus _)
      simpa using this
  rw [hfl, scan_mode toks (hclose _)]
  simp

end pieces

/-- every digit, by cases -/
macro "digit_cases" : tactic => `(tactic|
  (intro d hd r
   simp only [digitChars, List.mem_cons, List.not_mem_nil, or_false] at hd
   rcases hd with h | h | h | h | h | h | h | h | h | h <;> (subst h; rfl)))

def valsHeadB (vals : List Str) : Bool :=
  vals.all (fun v => match v with | [] => false | h :: _ => !h.isUpper && h != '@')

theorem vals_head_of {vals : List Str} (h : valsHeadB vals = true) :
    ∀ v ∈ vals, ∃ a t, v = a :: t ∧ a.isUpper = false ∧ a ≠ '@' := by
  intro v hv
  have := List.all_eq_true.mp h v hv
  cases v with
  | nil => simp at this
  | cons a t => exact ⟨a, t, rfl, by simpa using this⟩

/-! ### LaTeX -/

theorem latexInfix_eq : subs Render.infixSource Render.latexInfixMap = ['\\', 'c', 'd', 'o', 't', ' '] := by decide

theorem latexUnSpec : UnSpec Render.latexMap latexToks latexPres where
  plain := by decide
  sub := fun x r hx _ =>
    scan_sub_tmpl latexToks '_' ['{'] '}' [] (fun _ => rfl) (by decide) (fun _ => rfl) x r hx
  sup := fun ds sg r hds hsg =>
    scan_sup_tmpl latexToks '^' ['{'] '}' [] (fun _ => rfl) (by digit_cases) (fun _ => rfl) (fun _ => rfl) (fun _ => rfl)
      ds sg r hds hsg
  infx := fun r => by
    show scan latexToks 0 0 [] (subs Render.infixSource Render.latexInfixMap ++ r) = _
    rw [latexInfix_eq]
    exact scan_emit latexToks (m := 0) (c := '\\') (x := ['c', 'd', 'o', 't', ' ']) (s := Render.infixSource) (r := r) rfl
  op := fun b r => by
    cases b
    · exact scan_none latexToks rfl
    · exact scan_none latexToks rfl
    · exact scan_emit latexToks (x := ['{']) (s := ['{']) rfl
  cl := fun b r => by
    cases b
    · exact scan_none latexToks rfl
    · exact scan_none latexToks rfl
    · exact scan_emit latexToks (x := ['}']) (s := ['}']) rfl
  vals_incomp := by decide +kernel
  vals_eq := by decide
  key_val := by decide
  vals_head := vals_head_of (by decide)
  vals_br := by intro v hv b; cases b <;> (revert v; decide)

/-! ### HTML -/

theorem htmlInfix_eq : subs Render.infixSource Render.htmlInfixMap = ['&', 's', 'd', 'o', 't', ';'] := by decide

theorem htmlUnSpec : UnSpec Render.htmlMap htmlToks htmlPres where
  plain := by decide
  sub := fun x r hx _ =>
    scan_sub_tmpl htmlToks '<' ['s', 'u', 'b', '>'] '<' ['/', 's', 'u', 'b', '>'] (fun _ => rfl) (by decide) (fun _ => rfl) x r hx
  sup := fun ds sg r hds hsg =>
    scan_sup_tmpl htmlToks '<' ['s', 'u', 'p', '>'] '<' ['/', 's', 'u', 'p', '>'] (fun _ => rfl) (by digit_cases)
      (fun _ => rfl) (fun _ => rfl) (fun _ => rfl) ds sg r hds hsg
  infx := fun r => by
    show scan htmlToks 0 0 [] (subs Render.infixSource Render.htmlInfixMap ++ r) = _
    rw [htmlInfix_eq]
    exact scan_emit htmlToks (m := 0) (c := '&') (x := ['s', 'd', 'o', 't', ';']) (s := Render.infixSource) (r := r) rfl
  op := fun b r => by cases b <;> exact scan_none htmlToks rfl
  cl := fun b r => by cases b <;> exact scan_none htmlToks rfl
  vals_incomp := by decide +kernel
  vals_eq := by decide
  key_val := by decide
  vals_head := vals_head_of (by decide)
  vals_br := by intro v hv b; cases b <;> (revert v; decide)

/-! ### Unicode -/

theorem scan_emit1 (toks : List Tok) {m : Nat} {acc : Str} {c d : Char} {r : Str}
    (h : findTok toks m (c :: r) = some ⟨m, [c], .emit [d]⟩) :
    scan toks 0 m acc (c :: r) = d :: scan toks 0 m acc r := by
  have := scan_emit toks (acc := acc) (x := []) (r := r) (by simpa using h)
  simpa using this

theorem scan_acc1 (toks : List Tok) {m : Nat} {acc : Str} {c d : Char} {r : Str}
    (h : findTok toks m (c :: r) = some ⟨m, [c], .acc d⟩) :
    scan toks 0 m acc (c :: r) = scan toks 0 m (acc ++ [d]) r := by
  have := scan_acc toks (acc := acc) (x := []) (r := r) (by simpa using h)
  simpa using this

theorem scan_flush1 (toks : List Tok) {m : Nat} {acc : Str} {c sg : Char} {r : Str}
    (h : findTok toks m (c :: r) = some ⟨m, [c], .flush sg⟩) :
    scan toks 0 m acc (c :: r) = sg :: (acc ++ scan toks 0 m [] r) := by
  have := scan_flush toks (acc := acc) (x := []) (r := r) (by simpa using h)
  simpa using this

theorem unicodeInfix_eq : subs Render.infixSource Render.unicodeInfixMap = ['·'] := by decide

theorem unicode_sub_char (c : Char) (hc : cntB c = true) (r : Str) :
    scan unicodeToks 0 0 [] (lookupD Render.unicodeSub c :: r) = c :: scan unicodeToks 0 0 [] r := by
  simp only [cntB, Bool.or_eq_true, beq_iff_eq] at hc
  rcases hc with h | h
  · have hd := isDigit_mem c h
    simp only [digitChars, List.mem_cons, List.not_mem_nil, or_false] at hd
    rcases hd with e | e | e | e | e | e | e | e | e | e <;>
      (subst e; exact scan_emit1 unicodeToks (by rfl))
  · subst h; exact scan_none unicodeToks rfl

theorem unicode_sup_digit (d : Char) (hd : d.isDigit = true) (acc r : Str) :
    scan unicodeToks 0 0 acc (lookupD Render.unicodeSup d :: r) = scan unicodeToks 0 0 (acc ++ [d]) r := by
  have hd := isDigit_mem d hd
  simp only [digitChars, List.mem_cons, List.not_mem_nil, or_false] at hd
  rcases hd with e | e | e | e | e | e | e | e | e | e <;>
    (subst e; exact scan_acc1 unicodeToks (by rfl))

theorem unicode_sup_digits (ds : Str) (hds : ∀ c ∈ ds, c.isDigit = true) (acc r : Str) :
    scan unicodeToks 0 0 acc (ds.map (lookupD Render.unicodeSup) ++ r) = scan unicodeToks 0 0 (acc ++ ds) r := by
  induction ds generalizing acc with
  | nil => simp
  | cons d ds ih =>
    simp only [List.map_cons, List.cons_append]
    rw [unicode_sup_digit d (hds d (by simp)), ih (fun c hc => hds c (by simp [hc]))]
    simp

theorem unicode_sub_str (x r : Str) (hx : ∀ c ∈ x, cntB c = true) :
    scan unicodeToks 0 0 [] (x.map (lookupD Render.unicodeSub) ++ r) = x ++ scan unicodeToks 0 0 [] r := by
  induction x with
  | nil => simp
  | cons c x ih =>
    simp only [List.map_cons, List.cons_append]
    rw [unicode_sub_char c (hx c (by simp)), ih (fun d hd => hx d (by simp [hd]))]

theorem unicodeUnSpec : UnSpec Render.unicodeMap unicodeToks unicodePres where
  plain := by decide
  sub := fun x r hx _ => unicode_sub_str x r hx
  sup := fun ds sg r hds hsg => by
    show scan unicodeToks 0 0 [] ((ds ++ [sg]).map (lookupD Render.unicodeSup) ++ r) = _
    simp only [List.map_append, List.map_cons, List.map_nil, List.append_assoc, List.cons_append, List.nil_append]
    rw [unicode_sup_digits ds hds]
    rcases hsg with e | e <;> subst e
    · rw [scan_flush1 unicodeToks (by rfl)]; simp
    · rw [scan_flush1 unicodeToks (by rfl)]; simp
  infx := fun r => by
    show scan unicodeToks 0 0 [] (subs Render.infixSource Render.unicodeInfixMap ++ r) = _
    rw [unicodeInfix_eq]
    exact scan_emit unicodeToks (m := 0) (c := '·') (x := []) (s := Render.infixSource) (r := r) (by rfl)
  op := fun b r => by cases b <;> exact scan_none unicodeToks rfl
  cl := fun b r => by cases b <;> exact scan_none unicodeToks rfl
  vals_incomp := by decide +kernel
  vals_eq := by decide
  key_val := by decide
  vals_head := vals_head_of (by decide)
  vals_br := by intro v hv b; cases b <;> (revert v; decide)

/-! ### brackets: nothing to check for Unicode / HTML -/

mutual
theorem termBrAll_true : ∀ t : Term, termBrAll (fun _ => true) t = true
  | .elem _ _ _ _ => rfl
  | .group _ body _ _ _ => by simp [termBrAll, termsBrAll_true body]
  | .cage body => by simp [termBrAll, termsBrAll_true body]
theorem termsBrAll_true : ∀ ts : Terms, termsBrAll (fun _ => true) ts = true
  | .nil => rfl
  | .cons t ts => by simp [termsBrAll, termBrAll_true t, termsBrAll_true ts]
end

/-! ### which default suffix a rendered formula ends with -/

theorem suffixes_distinct_incomp : ∀ a ∈ suffixesL, ∀ b ∈ suffixesL, a ≠ b → ¬ a <:+ b := by decide

def tailsOf : Str → List Str
  | [] => [[]]
  | a :: l => (a :: l) :: tailsOf l

theorem mem_tailsOf {t q : Str} (h : t <:+ q) : t ∈ tailsOf q := by
  induction q with
  | nil => simp [tailsOf, List.suffix_nil.mp h]
  | cons a l ih =>
    rcases List.suffix_cons_iff.mp h with e | h2
    · simp [tailsOf, e]
    · simp [tailsOf, ih h2]

def tailOK : Str → Bool
  | c :: _ => !startCb c
  | [] => true

theorem suffix_tails : ∀ q ∈ suffixesL, ∀ t ∈ tailsOf q, (t = q ∨ tailOK t = true) := by decide

/-- a well-formed written formula ends with the default suffix `q` iff `q` is its suffix -/
theorem suffix_of_render_iff (f : Formula) (hd : f.WFd) (q : Str) (hq : q ∈ suffixesL) :
    q <:+ f.render ↔ f.suffix = some q := by
  have hno := noSuffixEnd_of_wf f hd
  have hr : f.render = f.prefixes.flatten ++ (f.renderStoich ++ renderCharge f.charge) ++ renderSuffix f.suffix := by
    simp [Formula.render, List.append_assoc]
  constructor
  · intro hs
    rw [hr] at hs
    cases hsx : f.suffix with
    | none =>
      exfalso
      simp only [hsx, renderSuffix, List.append_nil] at hs
      rcases List.suffix_or_suffix_of_suffix hs (List.suffix_append f.prefixes.flatten _) with h1 | h1
      · exact hno q hq h1
      · obtain ⟨c, rest, he, hc⟩ := renderStoich_head f hd (renderCharge f.charge)
        rcases suffix_tails q hq _ (mem_tailsOf h1) with h2 | h2
        · exact hno q hq (by rw [h2]; exact List.suffix_refl _)
        · rw [he] at h2
          simp only [tailOK, (startCb_iff c).mpr hc] at h2
          exact absurd h2 (by decide)
    | some sx =>
      simp only [hsx, renderSuffix] at hs
      by_cases e : q = sx
      · rw [e]
      · exfalso
        have hsxm := hd.suffix sx hsx
        rcases List.suffix_or_suffix_of_suffix hs (List.suffix_append _ sx) with h1 | h1
        · exact suffixes_distinct_incomp q hq sx hsxm e h1
        · exact suffixes_distinct_incomp sx hsxm q hq (fun e' => e e'.symm) h1
  · intro hs
    rw [hr, hs]
    exact List.suffix_append _ _

end ChemModel.FormulaFormat

