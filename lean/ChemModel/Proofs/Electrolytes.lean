/-
Helper lemmas for C18 (ionic strength, Debye–Hückel constants, activity coefficients) at ℝ.
-/
import ChemModel.Model.Electrolytes
import ChemModel.Proofs.NumReal
import Mathlib.Algebra.BigOperators.Group.List.Basic
import Mathlib.Analysis.SpecialFunctions.Sqrt
import Mathlib.Analysis.Real.Pi.Bounds
import Mathlib.Tactic.Linarith
import Mathlib.Tactic.NormNum
import Mathlib.Tactic.Positivity

namespace ChemModel.Electrolytes
open ChemModel ChemModel.Gen.Electrolytes

/-! ### ionic strength -/

/-- Σ bᵢ·zᵢ² -/
noncomputable def sumTot (ps : List (ℝ × ℝ)) : ℝ := (ps.map fun p => p.1 * p.2 ^ 2).sum
/-- Σ bᵢ·zᵢ -/
noncomputable def sumNet (ps : List (ℝ × ℝ)) : ℝ := (ps.map fun p => p.1 * p.2).sum

theorem termTot_eq (b z : ℝ) : isTermTot b z = b * z ^ 2 := by
  simp only [isTermTot, NumReal.npow_eq_pow]

theorem termNet_eq (b z : ℝ) : isTermNet b z = b * z := by
  simp only [isTermNet]

theorem isResult_eq (tot : ℝ) : isResult tot = tot / 2 := by
  simp only [isResult, Nat.cast_ofNat]

theorem foldl_add_eq (f : ℝ → ℝ → ℝ) (r : List (ℝ × ℝ)) (init : ℝ) :
    r.foldl (fun t q => t + f q.1 q.2) init = init + (r.map fun p => f p.1 p.2).sum := by
  induction r generalizing init with
  | nil => simp
  | cons p r ih => simp only [List.foldl_cons, ih, List.map_cons, List.sum_cons]; ring

theorem loopSum_eq (f : ℝ → ℝ → ℝ) (p : ℝ × ℝ) (r : List (ℝ × ℝ)) :
    loopSum f (p :: r) = some (((p :: r).map fun p => f p.1 p.2).sum) := by
  simp only [loopSum, foldl_add_eq, List.map_cons, List.sum_cons]

theorem loopSum_tot (p : ℝ × ℝ) (r : List (ℝ × ℝ)) : loopSum isTermTot (p :: r) = some (sumTot (p :: r)) := by
  rw [loopSum_eq]; simp only [sumTot, termTot_eq]

theorem loopSum_net (p : ℝ × ℝ) (r : List (ℝ × ℝ)) : loopSum isTermNet (p :: r) = some (sumNet (p :: r)) := by
  rw [loopSum_eq]; simp only [sumNet, termNet_eq]

theorem pabs_eq (x : ℝ) : HasPyAbs.pabs x = |x| := by
  show (if x < ((0 : Nat) : ℝ) then -x else x) = |x|
  simp only [Nat.cast_zero]
  split
  · rw [abs_of_neg ‹_›]
  · rw [abs_of_nonneg (not_lt.mp ‹_›)]

theorem neutralityAtol_eq : (neutralityAtol : ℝ) = 1 / 10 ^ 14 := by
  simp only [neutralityAtol, NumReal.dec_eq]; norm_num

theorem allcloseRtol_eq : (allcloseRtol : ℝ) = 1 / 10 ^ 8 := by
  simp only [allcloseRtol, NumReal.dec_eq]; norm_num

/-- the coded neutrality test over ℝ -/
theorem notNeutral_iff (net tot : ℝ) :
    notNeutral net tot = true ↔ |net| * (1 / 10 ^ 8) + tot * (1 / 10 ^ 14) < |net| := by
  unfold notNeutral allclose allcloseD allcloseLim isNeutralRef isNeutralAtol
  simp only [pabs_eq, Nat.cast_zero, mul_zero, sub_zero, allcloseRtol_eq, NumReal.dec_eq, Bool.not_eq_true', decide_eq_false_iff_not, not_le]
  norm_num

/-- the list form on zipped pairs -/
noncomputable def isPairs (ps : List (ℝ × ℝ)) (warn : Bool) : Except Err (ℝ × Bool) :=
  ionicStrength (ps.map Prod.fst) (ps.map Prod.snd) warn

theorem zip_map_fst_snd {β γ : Type} (ps : List (β × γ)) : (ps.map Prod.fst).zip (ps.map Prod.snd) = ps := by
  induction ps with
  | nil => rfl
  | cons p r ih => simp [ih]

theorem isPairs_cons (p : ℝ × ℝ) (r : List (ℝ × ℝ)) (warn : Bool) :
    isPairs (p :: r) warn =
      .ok (sumTot (p :: r) / 2, warn && notNeutral (sumNet (p :: r)) (sumTot (p :: r))) := by
  unfold isPairs ionicStrength
  simp only [List.length_map, ne_eq, not_true_eq_false, ↓reduceIte, zip_map_fst_snd, loopSum_tot, loopSum_net, isResult_eq]

theorem isPairs_nil (warn : Bool) : isPairs [] warn = .error .typeError := by
  simp [isPairs, ionicStrength, loopSum]

/-- general shape of the list form -/
theorem ionicStrength_eq_isPairs (bs zs : List ℝ) (h : bs.length = zs.length) (warn : Bool) :
    ionicStrength bs zs warn = isPairs (bs.zip zs) warn := by
  unfold isPairs
  rw [← List.unzip_fst, ← List.unzip_snd]
  have := List.unzip_zip h
  rw [this]

theorem sumTot_zip (bs zs : List ℝ) : sumTot (bs.zip zs) = (List.zipWith (fun b z => b * z ^ 2) bs zs).sum := by
  unfold sumTot
  induction bs generalizing zs with
  | nil => simp
  | cons b bs ih => cases zs with
    | nil => simp
    | cons z zs => simp only [List.zip_cons_cons, List.map_cons, List.sum_cons, List.zipWith_cons_cons, ih]

theorem sumTot_perm {ps qs : List (ℝ × ℝ)} (h : ps.Perm qs) : sumTot ps = sumTot qs :=
  (h.map _).sum_eq

theorem sumNet_perm {ps qs : List (ℝ × ℝ)} (h : ps.Perm qs) : sumNet ps = sumNet qs :=
  (h.map _).sum_eq

theorem sumTot_scale (c : ℝ) (ps : List (ℝ × ℝ)) : sumTot (ps.map fun p => (c * p.1, p.2)) = c * sumTot ps := by
  unfold sumTot
  induction ps with
  | nil => simp
  | cons p r ih => simp only [List.map_cons, List.sum_cons, ih]; ring

theorem sumNet_scale (c : ℝ) (ps : List (ℝ × ℝ)) : sumNet (ps.map fun p => (c * p.1, p.2)) = c * sumNet ps := by
  unfold sumNet
  induction ps with
  | nil => simp
  | cons p r ih => simp only [List.map_cons, List.sum_cons, ih]; ring

theorem notNeutral_scale {c : ℝ} (hc : 0 < c) (net tot : ℝ) :
    notNeutral (c * net) (c * tot) = notNeutral net tot := by
  rw [Bool.eq_iff_iff, notNeutral_iff, notNeutral_iff, abs_mul, abs_of_pos hc]
  constructor
  · intro h
    have : c * (|net| * (1 / 10 ^ 8) + tot * (1 / 10 ^ 14)) < c * |net| := by linarith
    exact lt_of_mul_lt_mul_left this hc.le
  · intro h
    have := mul_lt_mul_of_pos_left h hc
    linarith

theorem isPairs_scale_cons (c : ℝ) (p : ℝ × ℝ) (r : List (ℝ × ℝ)) (warn : Bool) :
    isPairs ((p :: r).map fun p => (c * p.1, p.2)) warn
      = .ok (c * sumTot (p :: r) / 2, warn && notNeutral (c * sumNet (p :: r)) (c * sumTot (p :: r))) := by
  have h1 := sumTot_scale c (p :: r)
  have h2 := sumNet_scale c (p :: r)
  simp only [List.map_cons] at h1 h2 ⊢
  rw [isPairs_cons, h1, h2]

theorem sumTot_nonneg {ps : List (ℝ × ℝ)} (h : ∀ p ∈ ps, 0 ≤ p.1) : 0 ≤ sumTot ps := by
  unfold sumTot
  apply List.sum_nonneg
  intro x hx
  obtain ⟨p, hp, rfl⟩ := List.mem_map.mp hx
  exact mul_nonneg (h p hp) (sq_nonneg _)


/-! ### Debye–Hückel constants A and B -/

/-- dependence of `A` on (ε_r, T, ρ, b₀): ρ^{1/2} · b₀^{1/2} · (ε_r T)^{-3/2} -/
noncomputable def formA (eps T rho b0 : ℝ) : ℝ :=
  rho ^ (1 / 2 : ℝ) * b0 ^ (1 / 2 : ℝ) * (eps * T) ^ (-(3 / 2) : ℝ)

/-- dependence of `B` on (ε_r, T, ρ, b₀): ρ^{1/2} · b₀^{1/2} · (ε_r T)^{-1/2} -/
noncomputable def formB (eps T rho b0 : ℝ) : ℝ :=
  rho ^ (1 / 2 : ℝ) * b0 ^ (1 / 2 : ℝ) * (eps * T) ^ (-(1 / 2) : ℝ)

/-- the constant in front of `formA` on the path through the physical constants:
    F³/(4π N_A) · (2 (ε₀ k_B N_A)³)^{-1/2}   ( = e³ N_A^{1/2} / (4π √2 (ε₀ k_B)^{3/2}) ) -/
noncomputable def constA (F NA eps0 kB pi : ℝ) : ℝ :=
  F ^ 3 / (4 * pi * NA) * (2 * (eps0 * kB * NA) ^ 3) ^ (-(1 / 2) : ℝ)

/-- the constant in front of `formB` on the path through the physical constants: F · (2/(ε₀ R))^{1/2} -/
noncomputable def constB (F eps0 R : ℝ) : ℝ := F * (2 / (eps0 * R)) ^ (1 / 2 : ℝ)

theorem cube_rpow_half {x : ℝ} (hx : 0 ≤ x) : (x ^ 3) ^ (1 / 2 : ℝ) = x ^ (3 / 2 : ℝ) := by
  rw [← Real.rpow_natCast, ← Real.rpow_mul hx]; norm_num

theorem rpow_half_sq {x : ℝ} (hx : 0 ≤ x) : (x ^ (1 / 2 : ℝ)) ^ 2 = x := by
  rw [← Real.rpow_natCast, ← Real.rpow_mul hx]; norm_num

theorem rpow_neg_half_sq {x : ℝ} (hx : 0 ≤ x) : (x ^ (-(1 / 2) : ℝ)) ^ 2 = x⁻¹ := by
  rw [← Real.rpow_natCast, ← Real.rpow_mul hx]; norm_num [Real.rpow_neg_one]

theorem half_lit : ((5 : ℤ) : ℝ) / 10 ^ 1 = 1 / 2 := by norm_num

/-- the argument shape common to both paths of `A` -/
theorem argA_rpow {eps T rho b0 : ℝ} (he : 0 < eps) (hT : 0 < T) (hr : 0 < rho) (hb : 0 < b0) :
    (rho * b0 / (eps * T) ^ 3) ^ (1 / 2 : ℝ) = formA eps T rho b0 := by
  have hx : 0 < eps * T := mul_pos he hT
  unfold formA
  rw [Real.div_rpow (mul_pos hr hb).le (pow_pos hx 3).le, Real.mul_rpow hr.le hb.le, cube_rpow_half hx.le,
    Real.rpow_neg hx.le, div_eq_mul_inv]

theorem argB_rpow {eps T rho b0 : ℝ} (he : 0 < eps) (hT : 0 < T) (hr : 0 < rho) (hb : 0 < b0) :
    (rho * b0 / (eps * T)) ^ (1 / 2 : ℝ) = formB eps T rho b0 := by
  have hx : 0 < eps * T := mul_pos he hT
  unfold formB
  rw [Real.div_rpow (mul_pos hr hb).le hx.le, Real.mul_rpow hr.le hb.le, Real.rpow_neg hx.le, div_eq_mul_inv]

theorem aNum_form {eps T rho b0 : ℝ} (he : 0 < eps) (hT : 0 < T) (hr : 0 < rho) (hb : 0 < b0) :
    aNum eps T rho b0 = combinedA * formA eps T rho b0 := by
  rw [← argA_rpow he hT hr hb]
  simp only [aNum, combinedA, NumReal.rpow_def, NumReal.npow_eq_pow, NumReal.dec_eq, Nat.cast_one, half_lit]
  congr 2
  field_simp

theorem aConst_form {eps T rho b0 F NA eps0 kB pi : ℝ} (he : 0 < eps) (hT : 0 < T) (hr : 0 < rho) (hb : 0 < b0)
    (hNA : 0 < NA) (h0 : 0 < eps0) (hk : 0 < kB) :
    aConst eps T rho b0 F NA eps0 kB pi = constA F NA eps0 kB pi * formA eps T rho b0 := by
  rw [← argA_rpow he hT hr hb]
  simp only [aConst, aConst_raw, constA, NumReal.rpow_def, NumReal.npow_eq_pow, Nat.cast_one, Nat.cast_ofNat]
  have hc : 0 < eps0 * kB * NA := mul_pos (mul_pos h0 hk) hNA
  have hx : 0 < eps * T := mul_pos he hT
  have h2 : (0 : ℝ) < 2 * (eps0 * kB * NA) ^ 3 := by positivity
  have e1 : rho * b0 / (2 * (eps0 * eps * kB * NA * T) ^ 3)
      = (2 * (eps0 * kB * NA) ^ 3)⁻¹ * (rho * b0 / (eps * T) ^ 3) := by
    field_simp
  rw [e1, Real.mul_rpow (inv_pos.mpr h2).le (div_pos (mul_pos hr hb) (pow_pos hx 3)).le,
    Real.inv_rpow h2.le, ← Real.rpow_neg h2.le]
  ring

theorem bNum_form {eps T rho b0 : ℝ} (he : 0 < eps) (hT : 0 < T) (hr : 0 < rho) (hb : 0 < b0) :
    bNum eps T rho b0 = combinedB * formB eps T rho b0 := by
  rw [← argB_rpow he hT hr hb]
  simp only [bNum, combinedB, NumReal.rpow_def, NumReal.dec_eq, half_lit]
  congr 2
  ring

theorem bConst_form {eps T rho b0 F eps0 R : ℝ} (he : 0 < eps) (hT : 0 < T) (hr : 0 < rho) (hb : 0 < b0)
    (h0 : 0 < eps0) (hR : 0 < R) :
    bConst eps T rho b0 F eps0 R = constB F eps0 R * formB eps T rho b0 := by
  rw [← argB_rpow he hT hr hb]
  simp only [bConst, bConst_raw, constB, NumReal.rpow_def, Nat.cast_one, Nat.cast_ofNat]
  have hx : 0 < eps * T := mul_pos he hT
  have h2 : (0 : ℝ) < 2 / (eps0 * R) := by positivity
  have e1 : 2 * rho * b0 / (eps * eps0 * R * T) = 2 / (eps0 * R) * (rho * b0 / (eps * T)) := by
    field_simp
  rw [e1, Real.mul_rpow h2.le (div_pos (mul_pos hr hb) hx).le]
  ring

theorem formA_pos {eps T rho b0 : ℝ} (he : 0 < eps) (hT : 0 < T) (hr : 0 < rho) (hb : 0 < b0) :
    0 < formA eps T rho b0 := by
  unfold formA
  have hx : 0 < eps * T := mul_pos he hT
  positivity

theorem formB_pos {eps T rho b0 : ℝ} (he : 0 < eps) (hT : 0 < T) (hr : 0 < rho) (hb : 0 < b0) :
    0 < formB eps T rho b0 := by
  unfold formB
  have hx : 0 < eps * T := mul_pos he hT
  positivity

/-- from bounds on the square to bounds on the ratio -/
theorem ratio_close_of_sq {C c d : ℝ} (hC : 0 < C) (hc : 0 < c) (hd0 : 0 < d)
    (hlo : ((1 - d) * c) ^ 2 < C ^ 2) (hhi : C ^ 2 < ((1 + d) * c) ^ 2) : |C / c - 1| < d := by
  have h1 : (1 - d) * c < C := lt_of_pow_lt_pow_left₀ 2 hC.le hlo
  have h2 : C < (1 + d) * c := lt_of_pow_lt_pow_left₀ 2 (by positivity) hhi
  rw [abs_lt]
  constructor
  · rw [lt_sub_iff_add_lt, lt_div_iff₀ hc]; linarith
  · rw [sub_lt_iff_lt_add, div_lt_iff₀ hc]; linarith

theorem constA_sq {F NA eps0 kB pi : ℝ} (hNA : 0 < NA) (h0 : 0 < eps0) (hk : 0 < kB) :
    constA F NA eps0 kB pi ^ 2 = F ^ 6 / (16 * pi ^ 2 * NA ^ 2 * (2 * (eps0 * kB * NA) ^ 3)) := by
  unfold constA
  have h2 : (0 : ℝ) < 2 * (eps0 * kB * NA) ^ 3 := by positivity
  rw [mul_pow, rpow_neg_half_sq h2.le]
  by_cases hp : pi = 0
  · subst hp; simp
  · field_simp
    ring

theorem constB_sq {F eps0 R : ℝ} (h0 : 0 < eps0) (hR : 0 < R) :
    constB F eps0 R ^ 2 = F ^ 2 * (2 / (eps0 * R)) := by
  unfold constB
  have h2 : (0 : ℝ) < 2 / (eps0 * R) := by positivity
  rw [mul_pow, rpow_half_sq h2.le]


/-! ### the two constants: extracted values -/

theorem constFaraday_pos : (0 : ℝ) < constFaraday := by simp only [constFaraday, NumReal.frac_eq]; norm_num
theorem constAvogadro_pos : (0 : ℝ) < constAvogadro := by simp only [constAvogadro, NumReal.frac_eq]; norm_num
theorem constVacuumPermittivity_pos : (0 : ℝ) < constVacuumPermittivity := by
  simp only [constVacuumPermittivity, NumReal.frac_eq]; norm_num
theorem constBoltzmann_pos : (0 : ℝ) < constBoltzmann := by simp only [constBoltzmann, NumReal.frac_eq]; norm_num
theorem constMolarGas_pos : (0 : ℝ) < constMolarGas := by simp only [constMolarGas, NumReal.frac_eq]; norm_num
theorem combinedA_pos : (0 : ℝ) < combinedA := by simp only [combinedA, NumReal.dec_eq]; norm_num
theorem combinedB_pos : (0 : ℝ) < combinedB := by simp only [combinedB, NumReal.dec_eq]; norm_num

theorem constA_pos {F NA eps0 kB pi : ℝ} (hF : 0 < F) (hNA : 0 < NA) (h0 : 0 < eps0) (hk : 0 < kB) (hp : 0 < pi) :
    0 < constA F NA eps0 kB pi := by
  unfold constA; positivity

theorem constB_pos {F eps0 R : ℝ} (hF : 0 < F) (h0 : 0 < eps0) (hR : 0 < R) : 0 < constB F eps0 R := by
  unfold constB; positivity

/-- ratio of the constant of the physical-constants path to the hard-coded factor of `A`, for any value of π in
    (3.14159265358979, 3.14159265358980) — this covers the double `constants.pi` and the real number π -/
theorem constA_ratio {pi : ℝ} (hlo : 3.14159265358979 < pi) (hhi : pi < 3.14159265358980) :
    |constA constFaraday constAvogadro constVacuumPermittivity constBoltzmann pi / combinedA - 1| < 1 / 10 ^ 14 := by
  have hp : 0 < pi := by linarith [show (0 : ℝ) < 3.14159265358979 by norm_num]
  have hC := constA_pos constFaraday_pos constAvogadro_pos constVacuumPermittivity_pos constBoltzmann_pos hp
  have hlo2 : (3.14159265358979 : ℝ) ^ 2 < pi ^ 2 := pow_lt_pow_left₀ hlo (by norm_num) (by norm_num)
  have hhi2 : pi ^ 2 < (3.14159265358980 : ℝ) ^ 2 := pow_lt_pow_left₀ hhi hp.le (by norm_num)
  have hpp : 0 < pi ^ 2 := by positivity
  refine ratio_close_of_sq hC combinedA_pos (by norm_num) ?_ ?_
  · rw [constA_sq constAvogadro_pos constVacuumPermittivity_pos constBoltzmann_pos]
    have e : constFaraday ^ 6 / (16 * pi ^ 2 * constAvogadro ^ 2 * (2 * (constVacuumPermittivity * constBoltzmann * constAvogadro) ^ 3))
        = constFaraday ^ 6 / (16 * constAvogadro ^ 2 * (2 * (constVacuumPermittivity * constBoltzmann * constAvogadro) ^ 3)) / pi ^ 2 := by
      field_simp
    rw [e, lt_div_iff₀ hpp]
    have hcoef : (0 : ℝ) < ((1 - 1 / 10 ^ 14) * combinedA) ^ 2 := by
      have := combinedA_pos; positivity
    calc ((1 - 1 / 10 ^ 14) * combinedA) ^ 2 * pi ^ 2
        < ((1 - 1 / 10 ^ 14) * combinedA) ^ 2 * (3.14159265358980 : ℝ) ^ 2 := mul_lt_mul_of_pos_left hhi2 hcoef
      _ < _ := by
        simp only [combinedA, constFaraday, constAvogadro, constVacuumPermittivity, constBoltzmann, NumReal.frac_eq, NumReal.dec_eq]
        norm_num
  · rw [constA_sq constAvogadro_pos constVacuumPermittivity_pos constBoltzmann_pos]
    have e : constFaraday ^ 6 / (16 * pi ^ 2 * constAvogadro ^ 2 * (2 * (constVacuumPermittivity * constBoltzmann * constAvogadro) ^ 3))
        = constFaraday ^ 6 / (16 * constAvogadro ^ 2 * (2 * (constVacuumPermittivity * constBoltzmann * constAvogadro) ^ 3)) / pi ^ 2 := by
      field_simp
    rw [e, div_lt_iff₀ hpp]
    have hcoef : (0 : ℝ) < ((1 + 1 / 10 ^ 14) * combinedA) ^ 2 := by
      have := combinedA_pos; positivity
    calc _ < ((1 + 1 / 10 ^ 14) * combinedA) ^ 2 * (3.14159265358979 : ℝ) ^ 2 := by
          simp only [combinedA, constFaraday, constAvogadro, constVacuumPermittivity, constBoltzmann, NumReal.frac_eq, NumReal.dec_eq]
          norm_num
      _ < ((1 + 1 / 10 ^ 14) * combinedA) ^ 2 * pi ^ 2 := mul_lt_mul_of_pos_left hlo2 hcoef

theorem constPi_bounds : (3.14159265358979 : ℝ) < constPi ∧ (constPi : ℝ) < 3.14159265358980 := by
  simp only [constPi, NumReal.frac_eq]; constructor <;> norm_num

theorem realPi_bounds : (3.14159265358979 : ℝ) < Real.pi ∧ Real.pi < 3.14159265358980 := by
  constructor
  · exact lt_trans (by norm_num) Real.pi_gt_d20
  · exact lt_trans Real.pi_lt_d20 (by norm_num)

/-- ratio of the constant of the physical-constants path to the hard-coded factor of `B` -/
theorem constB_ratio :
    |constB constFaraday constVacuumPermittivity constMolarGas / combinedB - 1| < 1 / 10 ^ 14 := by
  have hC := constB_pos constFaraday_pos constVacuumPermittivity_pos constMolarGas_pos
  refine ratio_close_of_sq hC combinedB_pos (by norm_num) ?_ ?_
  · rw [constB_sq constVacuumPermittivity_pos constMolarGas_pos]
    simp only [combinedB, constFaraday, constVacuumPermittivity, constMolarGas, NumReal.frac_eq, NumReal.dec_eq]
    norm_num
  · rw [constB_sq constVacuumPermittivity_pos constMolarGas_pos]
    simp only [combinedB, constFaraday, constVacuumPermittivity, constMolarGas, NumReal.frac_eq, NumReal.dec_eq]
    norm_num


/-! ### change of the unit system -/

theorem eq_of_sq_eq {a b : ℝ} (ha : 0 < a) (hb : 0 < b) (h : a ^ 2 = b ^ 2) : a = b :=
  (pow_left_inj₀ ha.le hb.le two_ne_zero).mp h

theorem rpow_three_halves_sq {x : ℝ} (hx : 0 ≤ x) : (x ^ (3 / 2 : ℝ)) ^ 2 = x ^ 3 := by
  rw [← Real.rpow_natCast, ← Real.rpow_mul hx, ← Real.rpow_natCast]; norm_num

theorem aNum_sq {eps T rho b0 : ℝ} (he : 0 < eps) (hT : 0 < T) (hr : 0 < rho) (hb : 0 < b0) :
    aNum eps T rho b0 ^ 2 = combinedA ^ 2 * (rho * b0 / (eps * T) ^ 3) := by
  rw [aNum_form he hT hr hb, ← argA_rpow he hT hr hb, mul_pow, rpow_half_sq]
  have hx : 0 < eps * T := mul_pos he hT
  positivity

theorem bNum_sq {eps T rho b0 : ℝ} (he : 0 < eps) (hT : 0 < T) (hr : 0 < rho) (hb : 0 < b0) :
    bNum eps T rho b0 ^ 2 = combinedB ^ 2 * (rho * b0 / (eps * T)) := by
  rw [bNum_form he hT hr hb, ← argB_rpow he hT hr hb, mul_pow, rpow_half_sq]
  have hx : 0 < eps * T := mul_pos he hT
  positivity

theorem aNum_pos {eps T rho b0 : ℝ} (he : 0 < eps) (hT : 0 < T) (hr : 0 < rho) (hb : 0 < b0) :
    0 < aNum eps T rho b0 := by
  rw [aNum_form he hT hr hb]; exact mul_pos combinedA_pos (formA_pos he hT hr hb)

theorem bNum_pos {eps T rho b0 : ℝ} (he : 0 < eps) (hT : 0 < T) (hr : 0 < rho) (hb : 0 < b0) :
    0 < bNum eps T rho b0 := by
  rw [bNum_form he hT hr hb]; exact mul_pos combinedB_pos (formB_pos he hT hr hb)

/-- `A(..., units=u)` (constants=None): the unit factor `(m·K)^{3/2}/mol^{1/2}` times the numeric path -/
theorem aNumUnits_eq (eps T rho b0 m K mol : ℝ) :
    aNumUnits eps T rho b0 m K mol
      = (m * K) ^ (3 / 2 : ℝ) / mol ^ (1 / 2 : ℝ) * aNum eps T rho b0 := by
  simp only [aNumUnits, aNumUnits_raw, aNum, NumReal.rpow_def, NumReal.npow_eq_pow, NumReal.dec_eq, Nat.cast_one, Nat.cast_ofNat, half_lit]
  norm_num
  ring

theorem bNumUnits_eq (eps T rho b0 m K mol : ℝ) :
    bNumUnits eps T rho b0 m K mol = (m * K / mol) ^ (1 / 2 : ℝ) * bNum eps T rho b0 := by
  simp only [bNumUnits, bNumUnits_raw, bNum, NumReal.rpow_def, NumReal.dec_eq, Nat.cast_one, Nat.cast_ofNat, half_lit]
  ring

theorem aNumUnitsB0_eq (eps T rho molal m K mol : ℝ) :
    aNumUnitsB0 eps T rho molal m K mol = aNumUnits eps T rho (1 * molal) m K mol := by
  simp only [aNumUnitsB0, aNumUnitsB0_raw, aNumUnits, aNumUnits_raw, Nat.cast_one]

theorem bNumUnitsB0_eq (eps T rho molal m K mol : ℝ) :
    bNumUnitsB0 eps T rho molal m K mol = bNumUnits eps T rho (1 * molal) m K mol := by
  simp only [bNumUnitsB0, bNumUnitsB0_raw, bNumUnits, bNumUnits_raw, Nat.cast_one]

theorem aConstUnitsB0_eq (eps T rho molal F NA eps0 kB pi : ℝ) :
    aConstUnitsB0 eps T rho molal F NA eps0 kB pi = aConst eps T rho (1 * molal) F NA eps0 kB pi := by
  simp only [aConstUnitsB0, aConstUnitsB0_raw, aConst, aConst_raw, Nat.cast_one]

theorem bConstUnitsB0_eq (eps T rho molal F eps0 R : ℝ) :
    bConstUnitsB0 eps T rho molal F eps0 R = bConst eps T rho (1 * molal) F eps0 R := by
  simp only [bConstUnitsB0, bConstUnitsB0_raw, bConst, bConst_raw, Nat.cast_one]

/-- numeric path with units: magnitudes expressed in a unit system in which 1 metre = m, 1 kelvin = K, 1 mole = mol,
    1 kilogram = kg give the SI number (A is dimensionless) -/
theorem aNumUnits_invariant {eps T rho b0 m K mol kg : ℝ} (he : 0 < eps) (hT : 0 < T) (hr : 0 < rho) (hb : 0 < b0)
    (hm : 0 < m) (hK : 0 < K) (hmol : 0 < mol) (hkg : 0 < kg) :
    aNumUnits eps (T * K) (rho * (kg / m ^ 3)) (b0 * (mol / kg)) m K mol = aNum eps T rho b0 := by
  rw [aNumUnits_eq]
  have hT' : 0 < T * K := mul_pos hT hK
  have hr' : 0 < rho * (kg / m ^ 3) := by positivity
  have hb' : 0 < b0 * (mol / kg) := by positivity
  have hmK : 0 < m * K := mul_pos hm hK
  apply eq_of_sq_eq
  · exact mul_pos (by positivity) (aNum_pos he hT' hr' hb')
  · exact aNum_pos he hT hr hb
  · rw [mul_pow, div_pow, rpow_three_halves_sq hmK.le, rpow_half_sq hmol.le, aNum_sq he hT' hr' hb', aNum_sq he hT hr hb]
    field_simp

/-- the same for `B`, which is an inverse length: the magnitude in the other system is the SI number divided by m -/
theorem bNumUnits_scaling {eps T rho b0 m K mol kg : ℝ} (he : 0 < eps) (hT : 0 < T) (hr : 0 < rho) (hb : 0 < b0)
    (hm : 0 < m) (hK : 0 < K) (hmol : 0 < mol) (hkg : 0 < kg) :
    bNumUnits eps (T * K) (rho * (kg / m ^ 3)) (b0 * (mol / kg)) m K mol = bNum eps T rho b0 / m := by
  rw [bNumUnits_eq]
  have hT' : 0 < T * K := mul_pos hT hK
  have hr' : 0 < rho * (kg / m ^ 3) := by positivity
  have hb' : 0 < b0 * (mol / kg) := by positivity
  have hq : 0 < m * K / mol := by positivity
  apply eq_of_sq_eq
  · exact mul_pos (by positivity) (bNum_pos he hT' hr' hb')
  · exact div_pos (bNum_pos he hT hr hb) hm
  · rw [mul_pow, div_pow, rpow_half_sq hq.le, bNum_sq he hT' hr' hb', bNum_sq he hT hr hb]
    field_simp

theorem aConst_sq {eps T rho b0 F NA eps0 kB pi : ℝ} (he : 0 < eps) (hT : 0 < T) (hr : 0 < rho) (hb : 0 < b0)
    (hNA : 0 < NA) (h0 : 0 < eps0) (hk : 0 < kB) :
    aConst eps T rho b0 F NA eps0 kB pi ^ 2
      = F ^ 6 / (16 * pi ^ 2 * NA ^ 2 * (2 * (eps0 * kB * NA) ^ 3)) * (rho * b0 / (eps * T) ^ 3) := by
  rw [aConst_form he hT hr hb hNA h0 hk, ← argA_rpow he hT hr hb, mul_pow, rpow_half_sq, constA_sq hNA h0 hk]
  have hx : 0 < eps * T := mul_pos he hT
  positivity

theorem aConst_pos {eps T rho b0 F NA eps0 kB pi : ℝ} (he : 0 < eps) (hT : 0 < T) (hr : 0 < rho) (hb : 0 < b0)
    (hF : 0 < F) (hNA : 0 < NA) (h0 : 0 < eps0) (hk : 0 < kB) (hp : 0 < pi) :
    0 < aConst eps T rho b0 F NA eps0 kB pi := by
  rw [aConst_form he hT hr hb hNA h0 hk]
  exact mul_pos (constA_pos hF hNA h0 hk hp) (formA_pos he hT hr hb)

theorem bConst_sq {eps T rho b0 F eps0 R : ℝ} (he : 0 < eps) (hT : 0 < T) (hr : 0 < rho) (hb : 0 < b0)
    (h0 : 0 < eps0) (hR : 0 < R) :
    bConst eps T rho b0 F eps0 R ^ 2 = F ^ 2 * (2 / (eps0 * R)) * (rho * b0 / (eps * T)) := by
  rw [bConst_form he hT hr hb h0 hR, ← argB_rpow he hT hr hb, mul_pow, rpow_half_sq, constB_sq h0 hR]
  have hx : 0 < eps * T := mul_pos he hT
  positivity

theorem bConst_pos {eps T rho b0 F eps0 R : ℝ} (he : 0 < eps) (hT : 0 < T) (hr : 0 < rho) (hb : 0 < b0)
    (hF : 0 < F) (h0 : 0 < eps0) (hR : 0 < R) : 0 < bConst eps T rho b0 F eps0 R := by
  rw [bConst_form he hT hr hb h0 hR]
  exact mul_pos (constB_pos hF h0 hR) (formB_pos he hT hr hb)


/-! ### activity coefficients -/

theorem limitingLogGamma_eq (IS z A I0 : ℝ) :
    limitingLogGamma IS z A I0 = -A * z ^ 2 * Real.sqrt (IS / I0) := by
  simp only [limitingLogGamma, NumReal.rpow_def, NumReal.npow_eq_pow, Nat.cast_one, Nat.cast_ofNat, Real.sqrt_eq_rpow]
  try ring

theorem extendedLogGamma_eq (IS z a A B C I0 : ℝ) :
    extendedLogGamma IS z a A B C I0
      = -A * z ^ 2 * Real.sqrt (IS / I0) / (1 + B * a * Real.sqrt (IS / I0)) + C * (IS / I0) := by
  simp only [extendedLogGamma, NumReal.rpow_def, NumReal.npow_eq_pow, Nat.cast_one, Nat.cast_ofNat, Real.sqrt_eq_rpow]
  try ring

theorem daviesLogGamma_eq (IS z A C I0 : ℝ) :
    daviesLogGamma IS z A C I0
      = -A * z ^ 2 * (Real.sqrt (IS / I0) / (1 + Real.sqrt (IS / I0)) + C * (IS / I0)) := by
  simp only [daviesLogGamma, NumReal.rpow_def, NumReal.npow_eq_pow, Nat.cast_one, Nat.cast_ofNat, Real.sqrt_eq_rpow]
  try ring

theorem limitingLogGammaD_eq (IS z A : ℝ) : limitingLogGammaD IS z A = limitingLogGamma IS z A 1 := by
  simp only [limitingLogGammaD, limitingLogGamma, Nat.cast_one]
  try ring

theorem extendedLogGammaDC_eq (IS z a A B C : ℝ) : extendedLogGammaDC IS z a A B C = extendedLogGamma IS z a A B C 1 := by
  simp only [extendedLogGammaDC, extendedLogGamma, Nat.cast_one]
  try ring

theorem extendedLogGammaD_eq (IS z a A B : ℝ) : extendedLogGammaD IS z a A B = extendedLogGamma IS z a A B 0 1 := by
  simp only [extendedLogGammaD, extendedLogGamma, Nat.cast_one, Nat.cast_zero]
  try ring

theorem daviesLogGammaDC_eq (IS z A C : ℝ) : daviesLogGammaDC IS z A C = daviesLogGamma IS z A C 1 := by
  simp only [daviesLogGammaDC, daviesLogGamma, Nat.cast_one]
  try ring

theorem daviesLogGammaD_eq (IS z A : ℝ) : daviesLogGammaD IS z A = daviesLogGamma IS z A (-(3 / 10)) 1 := by
  simp only [daviesLogGammaD, daviesLogGamma, Nat.cast_one, NumReal.dec_eq]
  norm_num

/-! ### activity products -/

theorem apTot_ok (lg : ℝ → ℝ) (s z : List ℝ) (tot : ℝ) (h : s.length ≤ z.length) :
    apTot lg s z tot = .ok (tot + (List.zipWith (fun nr zi => nr * lg zi) s z).sum) := by
  induction s generalizing z tot with
  | nil => simp [apTot]
  | cons nr s ih =>
    cases z with
    | nil => simp at h
    | cons zi zs =>
      simp only [List.length_cons, Nat.add_le_add_iff_right] at h
      simp only [apTot, ih zs _ h, List.zipWith_cons_cons, List.sum_cons]
      congr 1; ring

theorem apTot_short (lg : ℝ → ℝ) (s z : List ℝ) (tot : ℝ) (h : z.length < s.length) :
    apTot lg s z tot = .error .indexError := by
  induction s generalizing z tot with
  | nil => simp at h
  | cons nr s ih =>
    cases z with
    | nil => simp [apTot]
    | cons zi zs =>
      simp only [List.length_cons, Nat.add_lt_add_iff_right] at h
      simp only [apTot, ih zs _ h]

theorem apTot2_ok (lg : ℝ → ℝ → ℝ) (s z a : List ℝ) (tot : ℝ) (h : s.length ≤ z.length) (h' : s.length ≤ a.length) :
    apTot2 lg s z a tot = .ok (tot + (List.zipWith3 (fun nr zi ai => nr * lg zi ai) s z a).sum) := by
  induction s generalizing z a tot with
  | nil => simp [apTot2, List.zipWith3]
  | cons nr s ih =>
    cases z with
    | nil => simp at h
    | cons zi zs =>
      cases a with
      | nil => simp at h'
      | cons ai as =>
        simp only [List.length_cons, Nat.add_le_add_iff_right] at h h'
        simp only [apTot2, ih zs as _ h h', List.zipWith3, List.sum_cons]
        congr 1; ring

theorem apTot2_short (lg : ℝ → ℝ → ℝ) (s z a : List ℝ) (tot : ℝ) (h : z.length < s.length ∨ a.length < s.length) :
    apTot2 lg s z a tot = .error .indexError := by
  induction s generalizing z a tot with
  | nil => simp at h
  | cons nr s ih =>
    cases z with
    | nil => simp [apTot2]
    | cons zi zs =>
      cases a with
      | nil => simp [apTot2]
      | cons ai as =>
        simp only [List.length_cons, Nat.add_lt_add_iff_right] at h
        simp only [apTot2, ih zs as _ h]

/-! ### dict form -/

theorem pySplitAux_nil {cur : List Char} (h : cur ≠ []) : pySplitAux [] cur = [cur.reverse] := by
  simp [pySplitAux, h]

theorem pySplitAux_word (k rest cur : List Char) (hk : ∀ c ∈ k, isPyWs c = false) :
    pySplitAux (k ++ rest) cur = pySplitAux rest (k.reverse ++ cur) := by
  induction k generalizing cur with
  | nil => simp
  | cons c k ih =>
    have hc : isPyWs c = false := hk c (by simp)
    simp only [List.cons_append, pySplitAux, hc, Bool.false_eq_true, ↓reduceIte]
    rw [ih _ (fun c' h' => hk c' (by simp [h']))]
    simp

/-- keys that are non-empty and free of white space survive `" ".join(keys).split()` -/
theorem pySplit_joinSp (keys : List (List Char)) (h : ∀ k ∈ keys, k ≠ [] ∧ ∀ c ∈ k, isPyWs c = false) :
    pySplit (joinSp keys) = keys := by
  unfold pySplit
  induction keys with
  | nil => simp [joinSp, pySplitAux]
  | cons k r ih =>
    obtain ⟨hk0, hkw⟩ := h k (by simp)
    cases r with
    | nil =>
      have := pySplitAux_word k [] [] hkw
      simp only [List.append_nil] at this
      simp only [joinSp, this]
      rw [pySplitAux_nil (by simpa using hk0)]
      simp
    | cons k' r' =>
      have ih' := ih (fun x hx => h x (by simp [hx]))
      simp only [joinSp]
      rw [pySplitAux_word k _ [] hkw]
      have hne : (k.reverse ++ ([] : List Char)).isEmpty = false := by
        simp [hk0]
      have hws : isPyWs ' ' = true := by decide
      simp only [pySplitAux, hws, ↓reduceIte, hne, Bool.false_eq_true]
      rw [ih']
      simp

theorem chargeTableWith_ok (factory : List Char → Except Err Int) (zf : List Char → Int) (keys : List (List Char))
    (h : ∀ k ∈ keys, factory k = .ok (zf k)) :
    chargeTableWith factory keys = .ok (keys.map fun k => (k, zf k)) := by
  induction keys with
  | nil => rfl
  | cons k r ih =>
    simp only [chargeTableWith, h k (by simp), ih (fun x hx => h x (by simp [hx])), List.map_cons]

theorem lookupCharge_ok (zf : List Char → Int) (keys : List (List Char)) (k : List Char) (hk : k ∈ keys) :
    lookupCharge (keys.map fun k => (k, zf k)) k = .ok (zf k) := by
  unfold lookupCharge
  induction keys with
  | nil => simp at hk
  | cons k' r ih =>
    simp only [List.map_cons, List.find?_cons]
    by_cases e : k' = k
    · subst e; simp
    · have : (k' == k) = false := by simpa using e
      simp only [this]
      exact ih (by simpa [Ne.symm e] using hk)

theorem dictPairs_of_lookup (t : List (List Char × Int)) (zf : List Char → Int) (m : List (List Char × ℝ))
    (h : ∀ kv ∈ m, lookupCharge t kv.1 = .ok (zf kv.1)) :
    dictPairs t m = .ok (m.map fun kv => (kv.2, ((zf kv.1 : Int) : ℝ))) := by
  induction m with
  | nil => rfl
  | cons kv r ih =>
    obtain ⟨k, v⟩ := kv
    simp only [dictPairs, h (k, v) (by simp), ih (fun x hx => h x (by simp [hx])), List.map_cons, NumReal.ofInt_eq]

/-- explicit mapping: every entry gets the charge stored under ITS KEY, whatever the order / size of the mapping -/
theorem ionicStrengthDictG_mapping (factory : List Char → Except Err Int) (t : List (List Char × Int)) (zf : List Char → Int)
    (m : List (List Char × ℝ)) (warn : Bool) (hne : m ≠ [])
    (h : ∀ kv ∈ m, lookupCharge t kv.1 = .ok (zf kv.1)) :
    ionicStrengthDictG factory (.mapping t) m warn
      = ionicStrength (m.map Prod.snd) (m.map fun kv => ((zf kv.1 : Int) : ℝ)) warn := by
  unfold ionicStrengthDictG
  simp only [dictPairs_of_lookup t zf m h]
  cases m with
  | nil => exact absurd rfl hne
  | cons kv r => simp [Function.comp_def]

/-- a string of names: as the mapping built by the factory from its white-space separated pieces -/
theorem ionicStrengthDictG_names (factory : List Char → Except Err Int) (s : List Char) (zf : List Char → Int)
    (m : List (List Char × ℝ)) (warn : Bool) (hne : m ≠ [])
    (hf : ∀ k ∈ pySplit s, factory k = .ok (zf k)) (hk : ∀ kv ∈ m, kv.1 ∈ pySplit s) :
    ionicStrengthDictG factory (.names s) m warn
      = ionicStrength (m.map Prod.snd) (m.map fun kv => ((zf kv.1 : Int) : ℝ)) warn := by
  rw [← ionicStrengthDictG_mapping factory ((pySplit s).map fun k => (k, zf k)) zf m warn hne
    (fun kv hkv => lookupCharge_ok zf (pySplit s) kv.1 (hk kv hkv))]
  unfold ionicStrengthDictG
  simp only [chargeTableWith_ok factory zf (pySplit s) hf]

/-- default `substances`: the keys themselves -/
theorem ionicStrengthDictG_default (factory : List Char → Except Err Int) (zf : List Char → Int)
    (m : List (List Char × ℝ)) (warn : Bool) (hne : m ≠ [])
    (hk : ∀ kv ∈ m, kv.1 ≠ [] ∧ (∀ c ∈ kv.1, isPyWs c = false) ∧ factory kv.1 = .ok (zf kv.1)) :
    ionicStrengthDictG factory .default m warn
      = ionicStrength (m.map Prod.snd) (m.map fun kv => ((zf kv.1 : Int) : ℝ)) warn := by
  have h1 : pySplit (joinSp (m.map Prod.fst)) = m.map Prod.fst := by
    apply pySplit_joinSp
    intro k hk'
    obtain ⟨kv, hkv, rfl⟩ := List.mem_map.mp hk'
    exact ⟨(hk kv hkv).1, (hk kv hkv).2.1⟩
  have h2 := ionicStrengthDictG_names factory (joinSp (m.map Prod.fst)) zf m warn hne
    (by rw [h1]; intro k hk'; obtain ⟨kv, hkv, rfl⟩ := List.mem_map.mp hk'; exact (hk kv hkv).2.2)
    (by rw [h1]; intro kv hkv; exact List.mem_map.mpr ⟨kv, hkv, rfl⟩)
  rw [← h2]
  rfl

/-- dict form = list form on the values and the charges read from the keys -/
theorem ionicStrengthDict_eq (zf : List Char → Int) (m : List (List Char × ℝ)) (warn : Bool) (hne : m ≠ [])
    (hk : ∀ kv ∈ m, kv.1 ≠ [] ∧ (∀ c ∈ kv.1, isPyWs c = false) ∧ formulaCharge kv.1 = .ok (zf kv.1)) :
    ionicStrengthDict m warn
      = ionicStrength (m.map Prod.snd) (m.map fun kv => ((zf kv.1 : Int) : ℝ)) warn :=
  ionicStrengthDictG_default formulaCharge zf m warn hne hk


/-! ### vectorised molalities and the array path of `allclose` -/

/-- sample `j` of the (array of molalities, charge) pairs -/
noncomputable def col (j : ℕ) (ps : List (List ℝ × ℝ)) : List (ℝ × ℝ) := ps.map fun p => (p.1.getD j 0, p.2)

theorem getD_zipWith_add (x y : List ℝ) (j : ℕ) (hx : j < x.length) (hy : j < y.length) :
    (List.zipWith (· + ·) x y).getD j 0 = x.getD j 0 + y.getD j 0 := by
  simp only [List.getD_eq_getElem?_getD, List.getElem?_zipWith, List.getElem?_eq_getElem hx, List.getElem?_eq_getElem hy,
    Option.getD_some]

theorem getD_map_of_lt (g : ℝ → ℝ) (x : List ℝ) (j : ℕ) (hx : j < x.length) :
    (x.map g).getD j 0 = g (x.getD j 0) := by
  simp only [List.getD_eq_getElem?_getD, List.getElem?_map, List.getElem?_eq_getElem hx, Option.map_some, Option.getD_some]

theorem foldl_vec (f : ℝ → ℝ → ℝ) (m : ℕ) (rest : List (List ℝ × ℝ)) (init : List ℝ) (hi : init.length = m)
    (hr : ∀ q ∈ rest, q.1.length = m) :
    (rest.foldl (fun t q => vecAdd t (q.1.map fun b => f b q.2)) init).length = m ∧
    ∀ j < m, (rest.foldl (fun t q => vecAdd t (q.1.map fun b => f b q.2)) init).getD j 0
      = init.getD j 0 + ((col j rest).map fun p => f p.1 p.2).sum := by
  induction rest generalizing init with
  | nil => exact ⟨hi, fun j _ => by simp [col]⟩
  | cons q r ih =>
    have hq : q.1.length = m := hr q (by simp)
    have hlen : (vecAdd init (q.1.map fun b => f b q.2)).length = m := by simp [vecAdd, hi, hq]
    obtain ⟨h1, h2⟩ := ih (vecAdd init (q.1.map fun b => f b q.2)) hlen (fun x hx => hr x (by simp [hx]))
    refine ⟨by simpa using h1, fun j hj => ?_⟩
    rw [List.foldl_cons, h2 j hj]
    unfold vecAdd
    rw [getD_zipWith_add _ _ j (by omega) (by simp; omega), getD_map_of_lt _ _ j (by omega)]
    simp only [col, List.map_cons, List.sum_cons, List.map_map]
    ring_nf

theorem loopSumVec_spec (f : ℝ → ℝ → ℝ) (m : ℕ) (p : List ℝ × ℝ) (r : List (List ℝ × ℝ))
    (h : ∀ q ∈ p :: r, q.1.length = m) :
    ∃ v, loopSumVec f (p :: r) = some v ∧ v.length = m ∧
      ∀ j < m, v.getD j 0 = ((col j (p :: r)).map fun p => f p.1 p.2).sum := by
  have hp : p.1.length = m := h p (by simp)
  obtain ⟨h1, h2⟩ := foldl_vec f m r (p.1.map fun b => f b p.2) (by simp [hp]) (fun q hq => h q (by simp [hq]))
  refine ⟨_, rfl, h1, fun j hj => ?_⟩
  rw [h2 j hj, getD_map_of_lt _ _ j (by omega)]
  simp only [col, List.map_cons, List.sum_cons]

theorem allcloseArr_iff (m : ℕ) (a b atol : List ℝ) (rtol : ℝ) (ha : a.length = m) (hb : b.length = m) (ht : atol.length = m) :
    allcloseArr a b rtol atol = true ↔ ∀ j < m, allclose (a.getD j 0) (b.getD j 0) rtol (atol.getD j 0) = true := by
  induction m generalizing a b atol with
  | zero =>
    have : a = [] := List.length_eq_zero_iff.mp ha
    subst this
    simp [allcloseArr]
  | succ n ih =>
    obtain ⟨x, a', rfl⟩ := List.exists_cons_of_length_eq_add_one ha
    obtain ⟨y, b', rfl⟩ := List.exists_cons_of_length_eq_add_one hb
    obtain ⟨t, atol', rfl⟩ := List.exists_cons_of_length_eq_add_one ht
    have ih' := ih a' b' atol' (by simpa using ha) (by simpa using hb) (by simpa using ht)
    unfold allcloseArr at ih' ⊢
    simp only [List.zip_cons_cons, List.zipWith_cons_cons, List.all_cons, id, Bool.and_eq_true, ih']
    constructor
    · rintro ⟨h0, hs⟩ j hj
      cases j with
      | zero => simpa using h0
      | succ k => simpa using hs k (by omega)
    · intro h
      exact ⟨by simpa using h 0 (by omega), fun k hk => by simpa using h (k + 1) (by omega)⟩

/-- general shape of the vectorised list form -/
theorem ionicStrengthVec_spec (m : ℕ) (p : List ℝ × ℝ) (r : List (List ℝ × ℝ)) (warn : Bool)
    (h : ∀ q ∈ p :: r, q.1.length = m) :
    ∃ vals w, ionicStrengthVec ((p :: r).map Prod.fst) ((p :: r).map Prod.snd) warn = .ok (vals, w) ∧ vals.length = m ∧
      (∀ j < m, vals.getD j 0 = sumTot (col j (p :: r)) / 2) ∧
      (w = true ↔ warn = true ∧ ∃ j < m, notNeutral (sumNet (col j (p :: r))) (sumTot (col j (p :: r))) = true) := by
  obtain ⟨tot, ht, htl, htj⟩ := loopSumVec_spec isTermTot m p r h
  obtain ⟨net, hn, hnl, hnj⟩ := loopSumVec_spec isTermNet m p r h
  refine ⟨tot.map isResult, warn && !(allcloseArr net (tot.map isNeutralRef) allcloseRtol (tot.map isNeutralAtol)), ?_, by simp [htl],
    fun j hj => ?_, ?_⟩
  · unfold ionicStrengthVec
    simp only [List.length_map, ne_eq, not_true_eq_false, ↓reduceIte, zip_map_fst_snd, ht, hn]
  · rw [getD_map_of_lt _ _ j (by omega), htj j hj, isResult_eq]
    simp only [sumTot, termTot_eq]
  · have hiff := allcloseArr_iff m net (tot.map isNeutralRef) (tot.map isNeutralAtol) allcloseRtol hnl (by simp [htl]) (by simp [htl])
    have key : ∀ j < m, allclose (net.getD j 0) ((tot.map isNeutralRef).getD j 0) allcloseRtol ((tot.map isNeutralAtol).getD j 0)
        = !(notNeutral (sumNet (col j (p :: r))) (sumTot (col j (p :: r)))) := by
      intro j hj
      rw [getD_map_of_lt _ _ j (by omega), getD_map_of_lt _ _ j (by omega), htj j hj, hnj j hj]
      simp only [notNeutral, Bool.not_not, sumTot, sumNet, termTot_eq, termNet_eq]
    simp only [Bool.and_eq_true, Bool.not_eq_true']
    constructor
    · rintro ⟨hw, hf⟩
      refine ⟨hw, ?_⟩
      by_contra hcon
      push Not at hcon
      have : allcloseArr net (tot.map isNeutralRef) allcloseRtol (tot.map isNeutralAtol) = true := by
        rw [hiff]; intro j hj
        rw [key j hj]
        have := hcon j hj
        simpa using this
      rw [this] at hf; exact Bool.noConfusion hf
    · rintro ⟨hw, j, hj, hnn⟩
      refine ⟨hw, ?_⟩
      by_contra hcon
      have hall : allcloseArr net (tot.map isNeutralRef) allcloseRtol (tot.map isNeutralAtol) = true := by simpa using hcon
      have := (hiff.mp hall) j hj
      rw [key j hj, hnn] at this
      exact Bool.noConfusion this


/-! ### floating-point evaluation in the standard model (every operation exact up to a relative error `u`) -/

/-- `y` is `x` rounded: `y = x(1+δ)` with `|δ| ≤ u` -/
def Rnd (u x y : ℝ) : Prop := ∃ δ : ℝ, |δ| ≤ u ∧ y = x * (1 + δ)

/-- `s` is a left-to-right floating-point sum of the terms: the first term as it is, every addition rounded
    (`tot = first; tot += next` of electrolytes.py) -/
inductive FlSum (u : ℝ) : List ℝ → ℝ → Prop
  | single (p : ℝ) : FlSum u [p] p
  | snoc (ps : List ℝ) (p s s' : ℝ) : FlSum u ps s → Rnd u (s + p) s' → FlSum u (ps ++ [p]) s'

/-- Σ |pᵢ| -/
noncomputable def absSum (ps : List ℝ) : ℝ := (ps.map fun x => |x|).sum

theorem absSum_nonneg (ps : List ℝ) : 0 ≤ absSum ps := by
  unfold absSum
  apply List.sum_nonneg
  intro x hx
  obtain ⟨y, _, rfl⟩ := List.mem_map.mp hx
  exact abs_nonneg y

theorem abs_sum_le_absSum (ps : List ℝ) : |ps.sum| ≤ absSum ps := by
  unfold absSum
  induction ps with
  | nil => simp
  | cons x r ih =>
    simp only [List.sum_cons, List.map_cons]
    exact (abs_add_le _ _).trans (by linarith)

theorem absSum_append_singleton (ps : List ℝ) (p : ℝ) : absSum (ps ++ [p]) = absSum ps + |p| := by
  simp [absSum]

theorem FlSum.length_pos {u : ℝ} {ps : List ℝ} {s : ℝ} (h : FlSum u ps s) : 0 < ps.length := by
  cases h <;> simp

/-- classical forward error bound of recursive summation: `|s − Σ pᵢ| ≤ ((1+u)^(n−1) − 1) · Σ|pᵢ|` -/
theorem flSum_error {u : ℝ} (hu : 0 ≤ u) {ps : List ℝ} {s : ℝ} (h : FlSum u ps s) :
    |s - ps.sum| ≤ ((1 + u) ^ (ps.length - 1) - 1) * absSum ps := by
  induction h with
  | single p => simp
  | snoc ps p s s' hs hr ih =>
    obtain ⟨δ, hδ, hs'⟩ := hr
    have hn := hs.length_pos
    have hlen : (ps ++ [p]).length - 1 = (ps.length - 1) + 1 := by simp; omega
    rw [hlen, pow_succ, List.sum_append, List.sum_singleton, absSum_append_singleton]
    set g := (1 + u) ^ (ps.length - 1) with hg
    have hg1 : 1 ≤ g := one_le_pow₀ (by linarith)
    have hA := absSum_nonneg ps
    have hp := abs_nonneg p
    have e : s' - (ps.sum + p) = (s - ps.sum) * (1 + δ) + (ps.sum + p) * δ := by rw [hs']; ring
    have b1 : |1 + δ| ≤ 1 + u := (abs_add_le _ _).trans (by rw [abs_one]; linarith)
    have b2 : |ps.sum + p| ≤ absSum ps + |p| := (abs_add_le _ _).trans (by linarith [abs_sum_le_absSum ps])
    have b3 : |s' - (ps.sum + p)| ≤ |s - ps.sum| * (1 + u) + (absSum ps + |p|) * u := by
      rw [e]
      refine (abs_add_le _ _).trans ?_
      rw [abs_mul, abs_mul]
      have t1 : |s - ps.sum| * |1 + δ| ≤ |s - ps.sum| * (1 + u) := mul_le_mul_of_nonneg_left b1 (abs_nonneg _)
      have t2 : |ps.sum + p| * |δ| ≤ (absSum ps + |p|) * u :=
        mul_le_mul b2 hδ (abs_nonneg _) (by linarith)
      linarith
    have b4 : |s - ps.sum| * (1 + u) ≤ (g - 1) * absSum ps * (1 + u) :=
      mul_le_mul_of_nonneg_right ih (by linarith)
    have b5 : 0 ≤ (g - 1) * |p| * (1 + u) := by
      have : 0 ≤ g - 1 := by linarith
      positivity
    nlinarith [b3, b4, b5]

/-- `b * z` evaluated from the decimal molality: `float(b)` and the product are both rounded -/
def RndTerm (u : ℝ) (q : ℝ × ℝ) (p : ℝ) : Prop := ∃ δ ε : ℝ, |δ| ≤ u ∧ |ε| ≤ u ∧ p = q.1 * (1 + δ) * q.2 * (1 + ε)

theorem rndTerms_bounds {u : ℝ} (hu : 0 ≤ u) {l : List (ℝ × ℝ)} {ps : List ℝ} (h : List.Forall₂ (RndTerm u) l ps) :
    absSum ps ≤ (1 + u) ^ 2 * absSum (l.map fun q => q.1 * q.2) ∧
    |ps.sum - (l.map fun q => q.1 * q.2).sum| ≤ ((1 + u) ^ 2 - 1) * absSum (l.map fun q => q.1 * q.2) := by
  induction h with
  | nil => simp [absSum]
  | @cons q p l' ps' hq _ ih =>
    obtain ⟨δ, ε, hδ, hε, rfl⟩ := hq
    obtain ⟨i1, i2⟩ := ih
    have hx := abs_nonneg (q.1 * q.2)
    have d1 : |1 + δ| ≤ 1 + u := (abs_add_le _ _).trans (by rw [abs_one]; linarith)
    have d2 : |1 + ε| ≤ 1 + u := (abs_add_le _ _).trans (by rw [abs_one]; linarith)
    have e1 : q.1 * (1 + δ) * q.2 * (1 + ε) = (q.1 * q.2) * ((1 + δ) * (1 + ε)) := by ring
    have m1 : |(1 + δ) * (1 + ε)| ≤ (1 + u) ^ 2 := by
      rw [abs_mul, sq]; exact mul_le_mul d1 d2 (abs_nonneg _) (by linarith)
    have m2 : |(1 + δ) * (1 + ε) - 1| ≤ (1 + u) ^ 2 - 1 := by
      have : (1 + δ) * (1 + ε) - 1 = δ + ε + δ * ε := by ring
      rw [this]
      have h3 : |δ * ε| ≤ u * u := by rw [abs_mul]; exact mul_le_mul hδ hε (abs_nonneg _) hu
      have := abs_add_le (δ + ε) (δ * ε)
      have := abs_add_le δ ε
      nlinarith
    constructor
    · simp only [absSum, List.map_cons, List.sum_cons] at i1 ⊢
      rw [e1, abs_mul]
      have : |q.1 * q.2| * |(1 + δ) * (1 + ε)| ≤ |q.1 * q.2| * (1 + u) ^ 2 := mul_le_mul_of_nonneg_left m1 hx
      nlinarith
    · simp only [absSum, List.map_cons, List.sum_cons] at i2 ⊢
      have e2 : q.1 * (1 + δ) * q.2 * (1 + ε) + ps'.sum - (q.1 * q.2 + (l'.map fun q => q.1 * q.2).sum)
          = (q.1 * q.2) * ((1 + δ) * (1 + ε) - 1) + (ps'.sum - (l'.map fun q => q.1 * q.2).sum) := by ring
      rw [e2]
      refine (abs_add_le _ _).trans ?_
      rw [abs_mul]
      have : |q.1 * q.2| * |(1 + δ) * (1 + ε) - 1| ≤ |q.1 * q.2| * ((1 + u) ^ 2 - 1) := mul_le_mul_of_nonneg_left m2 hx
      nlinarith

/-- Σ b|z| ≤ Σ b z² for non-negative molalities and charges that are 0 or of magnitude ≥ 1 -/
theorem sum_abs_le_sumTot (l : List (ℝ × ℝ)) (h1 : ∀ q ∈ l, 0 ≤ q.1) (h2 : ∀ q ∈ l, q.2 = 0 ∨ 1 ≤ |q.2|) :
    (l.map fun q => q.1 * |q.2|).sum ≤ sumTot l := by
  induction l with
  | nil => simp [sumTot]
  | cons q l ih =>
    have ih' := ih (fun x hx => h1 x (by simp [hx])) (fun x hx => h2 x (by simp [hx]))
    have hq : q.1 * |q.2| ≤ q.1 * q.2 ^ 2 := by
      apply mul_le_mul_of_nonneg_left _ (h1 q (by simp))
      rcases h2 q (by simp) with h0 | h1'
      · rw [h0]; simp
      · calc |q.2| ≤ |q.2| * |q.2| := le_mul_of_one_le_right (abs_nonneg _) h1'
          _ = q.2 ^ 2 := by rw [← abs_mul_abs_self, sq]; simp [abs_mul_abs_self]
    simp only [sumTot, List.map_cons, List.sum_cons] at ih' ⊢
    linarith

theorem absSum_products (l : List (ℝ × ℝ)) (h1 : ∀ q ∈ l, 0 ≤ q.1) :
    absSum (l.map fun q => q.1 * q.2) = (l.map fun q => q.1 * |q.2|).sum := by
  unfold absSum
  induction l with
  | nil => simp
  | cons q l ih =>
    simp only [List.map_cons, List.sum_cons, List.map_map] at ih ⊢
    rw [ih (fun x hx => h1 x (by simp [hx])), abs_mul, abs_of_nonneg (h1 q (by simp))]

/-! ### bounds for a rounded evaluation of a paper-neutral composition, and the neutrality test in floating point -/

theorem rounded_net_le (u : ℝ) (hu0 : 0 ≤ u) (hu : u ≤ 1 / 2 ^ 53)
    (l : List (ℝ × ℝ)) (hb : ∀ q ∈ l, 0 ≤ q.1) (hz : ∀ q ∈ l, q.2 = 0 ∨ 1 ≤ |q.2|) (hk : l.length ≤ 8)
    (hneutral : sumNet l = 0)
    (ps : List ℝ) (hps : List.Forall₂ (RndTerm u) l ps) (net : ℝ) (hnet : FlSum u ps net) :
    |net| ≤ 2 / 10 ^ 15 * sumTot l := by
  have hlen : ps.length = l.length := hps.length_eq.symm
  have hS : absSum (l.map fun q => q.1 * q.2) ≤ sumTot l := by
    rw [absSum_products l hb]; exact sum_abs_le_sumTot l hb hz
  have hS0 := absSum_nonneg (l.map fun q => q.1 * q.2)
  obtain ⟨r1, r2⟩ := rndTerms_bounds hu0 hps
  have hzero : (l.map fun q => q.1 * q.2).sum = 0 := hneutral
  rw [hzero, sub_zero] at r2
  have e1 := flSum_error hu0 hnet
  have h1u : (1 : ℝ) ≤ 1 + u := by linarith
  have hub : 1 + u ≤ 1 + 1 / 2 ^ 53 := by linarith
  have p7 : (1 + u) ^ (ps.length - 1) ≤ 1 + 8 / 10 ^ 16 := by
    calc (1 + u) ^ (ps.length - 1) ≤ (1 + u) ^ 7 := pow_le_pow_right₀ h1u (by omega)
      _ ≤ (1 + 1 / 2 ^ 53) ^ 7 := pow_le_pow_left₀ (by linarith) hub 7
      _ ≤ 1 + 8 / 10 ^ 16 := by norm_num
  have p2 : (1 + u) ^ 2 ≤ 1 + 3 / 10 ^ 16 := by
    calc (1 + u) ^ 2 ≤ (1 + 1 / 2 ^ 53) ^ 2 := pow_le_pow_left₀ (by linarith) hub 2
      _ ≤ 1 + 3 / 10 ^ 16 := by norm_num
  have hA := absSum_nonneg ps
  have t1 : |net| ≤ |net - ps.sum| + |ps.sum| := by
    have := abs_add_le (net - ps.sum) ps.sum
    simpa using this
  have t2 : |net - ps.sum| ≤ 8 / 10 ^ 16 * absSum ps := by
    refine e1.trans (mul_le_mul_of_nonneg_right (by linarith) hA)
  have t3 : absSum ps ≤ (1 + 3 / 10 ^ 16) * absSum (l.map fun q => q.1 * q.2) :=
    r1.trans (mul_le_mul_of_nonneg_right p2 hS0)
  have t4 : |ps.sum| ≤ 3 / 10 ^ 16 * absSum (l.map fun q => q.1 * q.2) :=
    r2.trans (mul_le_mul_of_nonneg_right (by linarith) hS0)
  nlinarith

theorem rounded_tot_bounds (u : ℝ) (hu0 : 0 ≤ u) (hu : u ≤ 1 / 2 ^ 53)
    (l : List (ℝ × ℝ)) (hb : ∀ q ∈ l, 0 ≤ q.1) (hk : l.length ≤ 8)
    (pt : List ℝ) (hpt : List.Forall₂ (RndTerm u) (l.map fun q => (q.1, q.2 ^ 2)) pt) (tot : ℝ) (htot : FlSum u pt tot) :
    |tot - sumTot l| ≤ 2 / 10 ^ 15 * sumTot l := by
  have hlen : pt.length = l.length := by rw [← hpt.length_eq]; simp
  obtain ⟨r1, r2⟩ := rndTerms_bounds hu0 hpt
  have hsum : ((l.map fun q => (q.1, q.2 ^ 2)).map fun q => q.1 * q.2).sum = sumTot l := by
    simp only [sumTot, List.map_map, Function.comp_def]
  have habs : absSum ((l.map fun q => (q.1, q.2 ^ 2)).map fun q => q.1 * q.2) = sumTot l := by
    unfold absSum sumTot
    simp only [List.map_map, Function.comp_def]
    congr 1
    apply List.map_congr_left
    intro q hq
    exact abs_of_nonneg (mul_nonneg (hb q hq) (sq_nonneg _))
  rw [hsum, habs] at r2
  rw [habs] at r1
  have e1 := flSum_error hu0 htot
  have h1u : (1 : ℝ) ≤ 1 + u := by linarith
  have hub : 1 + u ≤ 1 + 1 / 2 ^ 53 := by linarith
  have p7 : (1 + u) ^ (pt.length - 1) ≤ 1 + 8 / 10 ^ 16 := by
    calc (1 + u) ^ (pt.length - 1) ≤ (1 + u) ^ 7 := pow_le_pow_right₀ h1u (by omega)
      _ ≤ (1 + 1 / 2 ^ 53) ^ 7 := pow_le_pow_left₀ (by linarith) hub 7
      _ ≤ 1 + 8 / 10 ^ 16 := by norm_num
  have p2 : (1 + u) ^ 2 ≤ 1 + 3 / 10 ^ 16 := by
    calc (1 + u) ^ 2 ≤ (1 + 1 / 2 ^ 53) ^ 2 := pow_le_pow_left₀ (by linarith) hub 2
      _ ≤ 1 + 3 / 10 ^ 16 := by norm_num
  have hT : 0 ≤ sumTot l := sumTot_nonneg hb
  have hA := absSum_nonneg pt
  have t2 : |tot - pt.sum| ≤ 8 / 10 ^ 16 * absSum pt := e1.trans (mul_le_mul_of_nonneg_right (by linarith) hA)
  have t3 : absSum pt ≤ (1 + 3 / 10 ^ 16) * sumTot l := r1.trans (mul_le_mul_of_nonneg_right p2 hT)
  have t4 : |pt.sum - sumTot l| ≤ 3 / 10 ^ 16 * sumTot l := r2.trans (mul_le_mul_of_nonneg_right (by linarith) hT)
  have t5 : |tot - sumTot l| ≤ |tot - pt.sum| + |pt.sum - sumTot l| := by
    have := abs_add_le (tot - pt.sum) (pt.sum - sumTot l)
    simpa using this
  nlinarith

/-- the neutrality test `not allclose(net, tot*0, atol=tot*1e-14)` evaluated in floating point: the literals `1e-8`, `1e-14` are the
    nearest doubles, and `abs(net)*rtol`, `tot*1e-14`, their sum and `abs(net - tot*0)` are each rounded -/
def NotNeutralFl (u net tot : ℝ) (res : Bool) : Prop :=
  ∃ rt at' x1 x2 lim d : ℝ, Rnd u (1 / 10 ^ 8) rt ∧ Rnd u (1 / 10 ^ 14) at' ∧ Rnd u (|net| * rt) x1 ∧ Rnd u (tot * at') x2 ∧
    Rnd u (x1 + x2) lim ∧ Rnd u |net - tot * 0| d ∧ res = !decide (d ≤ lim)

theorem rnd_bounds {u x y : ℝ} (_hu0 : 0 ≤ u) (hx : 0 ≤ x) (h : Rnd u x y) : x * (1 - u) ≤ y ∧ y ≤ x * (1 + u) := by
  obtain ⟨δ, hδ, rfl⟩ := h
  have := abs_le.mp hδ
  constructor <;> nlinarith

theorem notNeutralFl_false (u : ℝ) (hu0 : 0 ≤ u) (hu : u ≤ 1 / 2 ^ 53) (net tot T : ℝ) (hT : 0 ≤ T)
    (hnet : |net| ≤ 2 / 10 ^ 15 * T) (htot : |tot - T| ≤ 2 / 10 ^ 15 * T) (res : Bool) (h : NotNeutralFl u net tot res) :
    res = false := by
  obtain ⟨rt, at', x1, x2, lim, d, h1, h2, h3, h4, h5, h6, rfl⟩ := h
  have hu1 : u ≤ 1 / 10 ^ 15 := hu.trans (by norm_num)
  have hn := abs_nonneg net
  have ht := abs_le.mp htot
  have htot0 : 0 ≤ tot := by nlinarith
  obtain ⟨a1, a2⟩ := rnd_bounds hu0 (by positivity) h1
  obtain ⟨b1, b2⟩ := rnd_bounds hu0 (by positivity) h2
  have hrt : 0 ≤ rt := by nlinarith
  have hat : 0 ≤ at' := by nlinarith
  obtain ⟨c1, c2⟩ := rnd_bounds hu0 (mul_nonneg hn hrt) h3
  obtain ⟨d1, d2⟩ := rnd_bounds hu0 (mul_nonneg htot0 hat) h4
  have hx1 : 0 ≤ x1 := by nlinarith [mul_nonneg hn hrt]
  have hx2 : 0 ≤ x2 := by nlinarith [mul_nonneg htot0 hat]
  obtain ⟨e1, e2⟩ := rnd_bounds hu0 (add_nonneg hx1 hx2) h5
  have hd0 : |net - tot * 0| = |net| := by simp
  rw [hd0] at h6
  obtain ⟨f1, f2⟩ := rnd_bounds hu0 hn h6
  simp only [Bool.not_eq_eq_eq_not, Bool.not_false, decide_eq_true_eq]
  -- d ≤ |net|(1+u) ≤ 2.1e-15 T;  lim ≥ x2 (1-u) ≥ tot at'(1-u)^2 ≥ 0.99 T · 0.99e-14
  have k1 : d ≤ 21 / 10 ^ 16 * T := by nlinarith
  have k2 : 99 / 100 * T ≤ tot := by nlinarith
  have k3 : 99 / 100 * (1 / 10 ^ 14) ≤ at' := by nlinarith
  have k4 : 98 / 100 * (1 / 10 ^ 14) * T ≤ tot * at' := by
    have := mul_le_mul k2 k3 (by norm_num) htot0
    nlinarith
  have k5 : 97 / 100 * (1 / 10 ^ 14) * T ≤ x2 := by nlinarith
  have k6 : 96 / 100 * (1 / 10 ^ 14) * T ≤ lim := by nlinarith
  nlinarith

end ChemModel.Electrolytes
