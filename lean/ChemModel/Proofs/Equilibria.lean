/-
Helper lemmas for C11 (arithmetic on equilibria).  Theorems of the property are in Props/C11.lean.
-/
import Mathlib.Tactic.Ring
import Mathlib.Tactic.Linarith
import Mathlib.Tactic.FieldSimp
import Mathlib.Algebra.Field.Basic
import Mathlib.Algebra.BigOperators.Group.List.Basic
import Mathlib.Data.Nat.Factorization.Basic
import ChemModel.Model.Equilibria

namespace ChemModel.Equilibria
set_option linter.unusedSectionVars false

/-! ### association lists -/

theorem get_nil (k : String) : get [] k = 0 := rfl

theorem get_cons (a : String) (b : Nat) (t : Stoich) (k : String) :
    get ((a, b) :: t) k = if k = a then b else get t k := by
  unfold get
  rw [List.lookup_cons]
  by_cases h : k = a
  · subst h; simp
  · have : (k == a) = false := by simpa using h
    simp [this, h]

theorem get_eq_zero_of_not_mem (l : Stoich) (k : String) (h : k ∉ keysOf l) : get l k = 0 := by
  induction l with
  | nil => rfl
  | cons x t ih =>
    obtain ⟨a, b⟩ := x
    simp only [keysOf, List.map_cons, List.mem_cons, not_or] at h
    rw [get_cons, if_neg h.1]
    exact ih h.2

theorem get_pos_mem (l : Stoich) (k : String) (h : get l k ≠ 0) : k ∈ keysOf l := by
  by_contra hn
  exact h (get_eq_zero_of_not_mem l k hn)

theorem get_insertSorted (x : String × Nat) (l : Stoich) (k : String) :
    get (insertSorted x l) k = get (x :: l) k := by
  induction l with
  | nil => rfl
  | cons y t ih =>
    obtain ⟨a, b⟩ := x
    obtain ⟨c, d⟩ := y
    unfold insertSorted
    by_cases hlt : c < a
    · simp only [hlt, if_true]
      rw [get_cons, ih, get_cons, get_cons, get_cons]
      by_cases h1 : k = c
      · have h2 : k ≠ a := by
          intro h2; rw [h1] at h2; rw [h2] at hlt; exact String.lt_irrefl _ hlt
        rw [if_pos h1, if_neg h2, if_pos h1]
      · rw [if_neg h1, if_neg h1]
    · simp only [hlt, if_false]

theorem get_sortByKey (l : Stoich) (k : String) : get (sortByKey l) k = get l k := by
  induction l with
  | nil => rfl
  | cons x t ih =>
    show get (insertSorted x (sortByKey t)) k = _
    rw [get_insertSorted]
    obtain ⟨a, b⟩ := x
    rw [get_cons, get_cons, ih]

theorem get_initStoich (d : Bool) (l : Stoich) (k : String) : get (initStoich d l) k = get l k := by
  unfold initStoich; split
  · exact get_sortByKey l k
  · rfl

theorem get_scale (m : Nat) (l : Stoich) (k : String) : get (scale m l) k = get l k * m := by
  induction l with
  | nil => simp [scale, get_nil]
  | cons x t ih =>
    obtain ⟨a, b⟩ := x
    have : scale m ((a, b) :: t) = (a, b * m) :: scale m t := rfl
    rw [this, get_cons, get_cons, ih]
    split <;> rfl

theorem mem_insertSorted (x y : String × Nat) (l : Stoich) :
    y ∈ insertSorted x l ↔ y = x ∨ y ∈ l := by
  induction l with
  | nil => simp [insertSorted]
  | cons z t ih =>
    unfold insertSorted
    split
    · simp only [List.mem_cons, ih]
      constructor
      · rintro (h | h | h)
        · exact Or.inr (Or.inl h)
        · exact Or.inl h
        · exact Or.inr (Or.inr h)
      · rintro (h | h | h)
        · exact Or.inr (Or.inl h)
        · exact Or.inl h
        · exact Or.inr (Or.inr h)
    · simp

theorem mem_sortByKey (y : String × Nat) (l : Stoich) : y ∈ sortByKey l ↔ y ∈ l := by
  induction l with
  | nil => simp [sortByKey]
  | cons x t ih =>
    show y ∈ insertSorted x (sortByKey t) ↔ _
    rw [mem_insertSorted, ih]; simp

theorem mem_initStoich (d : Bool) (y : String × Nat) (l : Stoich) : y ∈ initStoich d l ↔ y ∈ l := by
  unfold initStoich; split
  · exact mem_sortByKey y l
  · rfl

theorem mem_keysOf {k : String} {l : Stoich} : k ∈ keysOf l ↔ ∃ v, (k, v) ∈ l := by
  unfold keysOf
  simp only [List.mem_map]
  constructor
  · rintro ⟨⟨a, b⟩, h, rfl⟩; exact ⟨b, h⟩
  · rintro ⟨v, h⟩; exact ⟨(k, v), h, rfl⟩

theorem mem_keysOf_initStoich (d : Bool) (k : String) (l : Stoich) :
    k ∈ keysOf (initStoich d l) ↔ k ∈ keysOf l := by
  simp only [mem_keysOf, mem_initStoich]

/-- keys with pairwise different names stay pairwise different under sorting -/
theorem nodup_keys_insertSorted (x : String × Nat) (l : Stoich)
    (h : (keysOf l).Nodup) (hx : x.1 ∉ keysOf l) : (keysOf (insertSorted x l)).Nodup := by
  induction l with
  | nil => simp [insertSorted, keysOf]
  | cons y t ih =>
    unfold insertSorted
    simp only [keysOf, List.map_cons, List.nodup_cons, List.mem_cons, not_or] at h hx
    split
    · simp only [keysOf, List.map_cons, List.nodup_cons]
      refine ⟨?_, ih h.2 hx.2⟩
      intro hm
      have := (mem_keysOf (k := y.1) (l := insertSorted x t)).1 hm
      obtain ⟨v, hv⟩ := this
      rw [mem_insertSorted] at hv
      rcases hv with hv | hv
      · exact hx.1 (by rw [← hv])
      · exact h.1 (mem_keysOf.2 ⟨v, hv⟩)
    · simp only [keysOf, List.map_cons, List.nodup_cons, List.mem_cons, not_or]
      exact ⟨⟨hx.1, hx.2⟩, h.1, h.2⟩

theorem nodup_keys_sortByKey (l : Stoich) (h : (keysOf l).Nodup) : (keysOf (sortByKey l)).Nodup := by
  induction l with
  | nil => simp [sortByKey, keysOf]
  | cons x t ih =>
    simp only [keysOf, List.map_cons, List.nodup_cons] at h
    show (keysOf (insertSorted x (sortByKey t))).Nodup
    apply nodup_keys_insertSorted _ _ (ih h.2)
    intro hm
    obtain ⟨v, hv⟩ := mem_keysOf.1 hm
    rw [mem_sortByKey] at hv
    exact h.1 (mem_keysOf.2 ⟨v, hv⟩)

/-! ### dedup -/

theorem mem_dedup (k : String) (l : List String) : k ∈ dedup l ↔ k ∈ l := by
  induction l with
  | nil => simp [dedup]
  | cons a t ih =>
    unfold dedup
    split
    · rename_i hc
      rw [ih]
      have : a ∈ t := by simpa using hc
      constructor
      · intro h; exact List.mem_cons_of_mem _ h
      · intro h
        rcases List.mem_cons.1 h with h | h
        · rw [h]; exact this
        · exact h
    · simp [ih]

theorem nodup_dedup (l : List String) : (dedup l).Nodup := by
  induction l with
  | nil => simp [dedup]
  | cons a t ih =>
    unfold dedup
    split
    · exact ih
    · rename_i hc
      have : a ∉ t := by simpa using hc
      exact List.nodup_cons.2 ⟨fun h => this ((mem_dedup a t).1 h), ih⟩

variable {α : Type}

theorem construct_ok {d : Bool} {reac prod ir ip : Stoich} {K : Option α} {r : Equil α}
    (h : construct d reac prod K ir ip = .ok r) :
    r = ⟨initStoich d reac, initStoich d prod, initStoich d ir, initStoich d ip, K⟩ ∧ r.anyEffect = true := by
  unfold construct at h
  simp only at h
  split at h
  · rename_i he
    injection h with h
    subst h
    exact ⟨rfl, he⟩
  · cases h

section
variable [Mul α] [Inv α] [NatCast α] [DecidableEq α]

theorem rmul_ok {n : Int} {e r : Equil α} (h : rmul n e = .ok r) :
    ∃ param, rmulParam n e.K = .ok param ∧
      r = (if n < 0 then
            ⟨sortByKey (scale n.natAbs e.prod), sortByKey (scale n.natAbs e.reac),
             sortByKey (scale n.natAbs e.inactProd), sortByKey (scale n.natAbs e.inactReac), param⟩
          else
            ⟨sortByKey (scale n.natAbs e.reac), sortByKey (scale n.natAbs e.prod),
             sortByKey (scale n.natAbs e.inactReac), sortByKey (scale n.natAbs e.inactProd), param⟩) ∧
      r.anyEffect = true := by
  unfold rmul at h
  simp only [bind, Except.bind] at h
  split at h
  · cases h
  · rename_i param hp
    refine ⟨param, hp, ?_⟩
    split at h
    · rename_i hn
      have := construct_ok h
      simp only [hn, if_true]
      exact this
    · rename_i hn
      have := construct_ok h
      simp only [hn, if_false]
      exact this

theorem net_rmul' {n : Int} {e r : Equil α} (h : rmul n e = .ok r) (k : String) :
    r.net k = n * e.net k := by
  obtain ⟨param, _, hr, _⟩ := rmul_ok h
  by_cases hn : n < 0
  · rw [if_pos hn] at hr
    subst hr
    simp only [Equil.net, get_sortByKey, get_scale]
    have hm : ((n.natAbs : Nat) : Int) = -n := by omega
    simp only [Nat.cast_mul, hm]; ring
  · rw [if_neg hn] at hr
    subst hr
    simp only [Equil.net, get_sortByKey, get_scale]
    have hm : ((n.natAbs : Nat) : Int) = n := by omega
    simp only [Nat.cast_mul, hm]; ring

theorem activeNet_rmul {n : Int} {e r : Equil α} (h : rmul n e = .ok r) (k : String) :
    r.activeNet k = n * e.activeNet k := by
  obtain ⟨param, _, hr, _⟩ := rmul_ok h
  by_cases hn : n < 0
  · rw [if_pos hn] at hr
    subst hr
    simp only [Equil.activeNet, get_sortByKey, get_scale]
    have hm : ((n.natAbs : Nat) : Int) = -n := by omega
    simp only [Nat.cast_mul, hm]; ring
  · rw [if_neg hn] at hr
    subst hr
    simp only [Equil.activeNet, get_sortByKey, get_scale]
    have hm : ((n.natAbs : Nat) : Int) = n := by omega
    simp only [Nat.cast_mul, hm]; ring

/-- `0 * eq` never yields an equilibrium: every coefficient becomes 0 and `check_any_effect` raises -/
theorem rmul_zero' (e : Equil α) : rmul 0 e = .error "ValueError" := by
  cases hres : rmul 0 e with
  | ok r =>
    exfalso
    obtain ⟨_, _, _, hany⟩ := rmul_ok hres
    unfold Equil.anyEffect at hany
    rw [List.any_eq_true] at hany
    obtain ⟨k, _, hk⟩ := hany
    have := net_rmul' hres k
    simp [this] at hk
  | error s =>
    unfold rmul at hres
    simp only [bind, Except.bind] at hres
    split at hres
    · rename_i s' hp
      exfalso
      cases hK : e.K with
      | none => rw [hK] at hp; cases hp
      | some kk =>
        rw [hK] at hp
        simp only [rmulParam, powInt, bind, Except.bind] at hp
        cases hp
    · simp only [Int.lt_irrefl, if_false] at hres
      unfold construct at hres
      simp only at hres
      split at hres
      · cases hres
      · injection hres with hres; rw [hres]
end


theorem net_eq_activeNet {e : Equil α} (h : e.NoInact) (k : String) : e.net k = e.activeNet k := by
  unfold Equil.net Equil.activeNet
  rw [h.1, h.2]; simp [get_nil]

theorem mem_scale {m : Nat} {l : Stoich} {kv : String × Nat} :
    kv ∈ scale m l ↔ ∃ kv' ∈ l, kv = (kv'.1, kv'.2 * m) := by
  unfold scale
  simp only [List.mem_map]
  constructor
  · rintro ⟨x, hx, rfl⟩; exact ⟨x, hx, rfl⟩
  · rintro ⟨x, hx, rfl⟩; exact ⟨x, hx, rfl⟩

theorem get_filterMap (ks : List String) (c : String → Bool) (v : String → Nat) (k : String) :
    get (ks.filterMap (fun k => if c k then some (k, v k) else none)) k
      = if k ∈ ks ∧ c k = true then v k else 0 := by
  induction ks with
  | nil => simp [get_nil]
  | cons a t ih =>
    rw [List.filterMap_cons]
    by_cases hc : c a = true
    · simp only [hc, if_true]
      rw [get_cons]
      by_cases hk : k = a
      · subst hk; simp [hc]
      · rw [if_neg hk, ih]
        simp [hk]
    · have hc' : c a = false := by simpa using hc
      simp only [hc', Bool.false_eq_true, if_false]
      rw [ih]
      by_cases hk : k = a
      · subst hk; simp [hc']
      · simp [hk]

theorem mem_filterMap_key (ks : List String) (c : String → Bool) (v : String → Nat) (kv : String × Nat) :
    kv ∈ ks.filterMap (fun k => if c k then some (k, v k) else none)
      ↔ kv.1 ∈ ks ∧ c kv.1 = true ∧ kv.2 = v kv.1 := by
  simp only [List.mem_filterMap]
  constructor
  · rintro ⟨k, hk, h⟩
    by_cases hc : c k = true
    · simp only [hc, if_true, Option.some.injEq] at h
      subst h; exact ⟨hk, hc, rfl⟩
    · have hc' : c k = false := by simpa using hc
      simp [hc'] at h
  · rintro ⟨h1, h2, h3⟩
    refine ⟨kv.1, h1, ?_⟩
    simp only [h2, if_true, Option.some.injEq]
    rw [← h3]

theorem get_addReac (a b : Equil α) (k : String) :
    get (addReac a b) k = if addN a b k < 0 then (-(addN a b k)).toNat else 0 := by
  have := get_filterMap (addKeys a b) (fun k => decide (addN a b k < 0)) (fun k => (-(addN a b k)).toNat) k
  simp only [decide_eq_true_eq] at this
  unfold addReac
  rw [this]
  by_cases hk : k ∈ addKeys a b
  · simp [hk]
  · have hz : addN a b k = 0 := by
      unfold addKeys at hk
      rw [mem_dedup] at hk
      simp only [List.mem_append, not_or] at hk
      unfold addN Equil.activeNet
      rw [get_eq_zero_of_not_mem _ _ hk.1.1.1, get_eq_zero_of_not_mem _ _ hk.1.1.2,
          get_eq_zero_of_not_mem _ _ hk.1.2, get_eq_zero_of_not_mem _ _ hk.2]
      simp
    simp [hk, hz]

theorem get_addProd (a b : Equil α) (k : String) :
    get (addProd a b) k = if 0 < addN a b k then (addN a b k).toNat else 0 := by
  have := get_filterMap (addKeys a b) (fun k => decide (0 < addN a b k)) (fun k => (addN a b k).toNat) k
  simp only [decide_eq_true_eq] at this
  unfold addProd
  rw [this]
  by_cases hk : k ∈ addKeys a b
  · simp [hk]
  · have hz : addN a b k = 0 := by
      unfold addKeys at hk
      rw [mem_dedup] at hk
      simp only [List.mem_append, not_or] at hk
      unfold addN Equil.activeNet
      rw [get_eq_zero_of_not_mem _ _ hk.1.1.1, get_eq_zero_of_not_mem _ _ hk.1.1.2,
          get_eq_zero_of_not_mem _ _ hk.1.2, get_eq_zero_of_not_mem _ _ hk.2]
      simp
    simp [hk, hz]


section
variable [Mul α]
theorem add_ok {a b r : Equil α} (h : add a b = .ok r) :
    ∃ param, addParam a.K b.K = .ok param ∧
      r = ⟨sortByKey (addReac a b), sortByKey (addProd a b), [], [], param⟩ ∧ r.anyEffect = true := by
  unfold add at h
  simp only [bind, Except.bind] at h
  split at h
  · cases h
  · rename_i param hp
    exact ⟨param, hp, construct_ok h⟩

end

section
variable [Mul α] [Inv α] [NatCast α] [DecidableEq α]

theorem rmul_ne_zero {n : Int} {e r : Equil α} (h : rmul n e = .ok r) : n ≠ 0 := by
  intro h0; subst h0; rw [rmul_zero'] at h; cases h

theorem rmul_positive {n : Int} {e r : Equil α} (h : rmul n e = .ok r) (hp : e.Positive) : r.Positive := by
  have hn0 := rmul_ne_zero h
  have hm : 0 < n.natAbs := by omega
  obtain ⟨param, _, hr, _⟩ := rmul_ok h
  have key : ∀ l : Stoich, (∀ kv ∈ l, 0 < kv.2) → ∀ kv ∈ sortByKey (scale n.natAbs l), 0 < kv.2 := by
    intro l hl kv hkv
    rw [mem_sortByKey, mem_scale] at hkv
    obtain ⟨kv', h1, rfl⟩ := hkv
    exact Nat.mul_pos (hl kv' h1) hm
  unfold Equil.Positive at hp ⊢
  simp only [List.mem_append] at hp ⊢
  by_cases hn : n < 0
  · rw [if_pos hn] at hr; subst hr
    rintro kv (((h1 | h1) | h1) | h1)
    · exact key _ (fun x hx => hp x (Or.inl (Or.inl (Or.inr hx)))) kv h1
    · exact key _ (fun x hx => hp x (Or.inl (Or.inl (Or.inl hx)))) kv h1
    · exact key _ (fun x hx => hp x (Or.inr hx)) kv h1
    · exact key _ (fun x hx => hp x (Or.inl (Or.inr hx))) kv h1
  · rw [if_neg hn] at hr; subst hr
    rintro kv (((h1 | h1) | h1) | h1)
    · exact key _ (fun x hx => hp x (Or.inl (Or.inl (Or.inl hx)))) kv h1
    · exact key _ (fun x hx => hp x (Or.inl (Or.inl (Or.inr hx)))) kv h1
    · exact key _ (fun x hx => hp x (Or.inl (Or.inr hx))) kv h1
    · exact key _ (fun x hx => hp x (Or.inr hx)) kv h1

theorem rmul_noInact {n : Int} {e r : Equil α} (h : rmul n e = .ok r) (hp : e.NoInact) : r.NoInact := by
  obtain ⟨param, _, hr, _⟩ := rmul_ok h
  unfold Equil.NoInact at *
  by_cases hn : n < 0
  · rw [if_pos hn] at hr; subst hr; simp [hp.1, hp.2, scale, sortByKey]
  · rw [if_neg hn] at hr; subst hr; simp [hp.1, hp.2, scale, sortByKey]

omit [Inv α] [NatCast α] [DecidableEq α] in
theorem net_add' {a b r : Equil α} (h : add a b = .ok r) (k : String) :
    r.net k = a.activeNet k + b.activeNet k := by
  obtain ⟨param, _, hr, _⟩ := add_ok h
  subst hr
  simp only [Equil.net, get_sortByKey, get_addReac, get_addProd, get_nil]
  show _ = addN a b k
  generalize addN a b k = N
  split <;> split <;> omega

omit [Inv α] [NatCast α] [DecidableEq α] in
theorem add_noInact {a b r : Equil α} (h : add a b = .ok r) : r.NoInact := by
  obtain ⟨param, _, hr, _⟩ := add_ok h
  subst hr; exact ⟨rfl, rfl⟩

end

theorem keysOf_filterMap_nodup (ks : List String) (c : String → Bool) (v : String → Nat)
    (h : ks.Nodup) : (keysOf (ks.filterMap (fun k => if c k then some (k, v k) else none))).Nodup := by
  induction ks with
  | nil => simp [keysOf]
  | cons a t ih =>
    rw [List.nodup_cons] at h
    rw [List.filterMap_cons]
    by_cases hc : c a = true
    · simp only [hc, if_true, keysOf, List.map_cons, List.nodup_cons]
      refine ⟨?_, ih h.2⟩
      intro hm
      have := (mem_keysOf (k := a)).1 hm
      obtain ⟨w, hw⟩ := this
      rw [mem_filterMap_key] at hw
      exact h.1 hw.1
    · have hc' : c a = false := by simpa using hc
      simp only [hc', Bool.false_eq_true, if_false]
      exact ih h.2

section
variable [Mul α]

theorem mem_addReac (a b : Equil α) (kv : String × Nat) :
    kv ∈ addReac a b ↔ kv.1 ∈ addKeys a b ∧ addN a b kv.1 < 0 ∧ kv.2 = (-(addN a b kv.1)).toNat := by
  have := mem_filterMap_key (addKeys a b) (fun k => decide (addN a b k < 0)) (fun k => (-(addN a b k)).toNat) kv
  simp only [decide_eq_true_eq] at this
  exact this

theorem mem_addProd (a b : Equil α) (kv : String × Nat) :
    kv ∈ addProd a b ↔ kv.1 ∈ addKeys a b ∧ 0 < addN a b kv.1 ∧ kv.2 = (addN a b kv.1).toNat := by
  have := mem_filterMap_key (addKeys a b) (fun k => decide (0 < addN a b k)) (fun k => (addN a b k).toNat) kv
  simp only [decide_eq_true_eq] at this
  exact this

theorem nodup_keys_addReac (a b : Equil α) : (keysOf (addReac a b)).Nodup := by
  have := keysOf_filterMap_nodup (addKeys a b) (fun k => decide (addN a b k < 0)) (fun k => (-(addN a b k)).toNat) (nodup_dedup _)
  simp only [decide_eq_true_eq] at this
  exact this

theorem nodup_keys_addProd (a b : Equil α) : (keysOf (addProd a b)).Nodup := by
  have := keysOf_filterMap_nodup (addKeys a b) (fun k => decide (0 < addN a b k)) (fun k => (addN a b k).toNat) (nodup_dedup _)
  simp only [decide_eq_true_eq] at this
  exact this

theorem mem_keys_addReac (a b : Equil α) (k : String) : k ∈ keysOf (addReac a b) ↔ addN a b k < 0 := by
  constructor
  · intro h
    obtain ⟨v, hv⟩ := mem_keysOf.1 h
    exact ((mem_addReac a b (k, v)).1 hv).2.1
  · intro h
    apply get_pos_mem
    rw [get_addReac, if_pos h]
    omega

theorem mem_keys_addProd (a b : Equil α) (k : String) : k ∈ keysOf (addProd a b) ↔ 0 < addN a b k := by
  constructor
  · intro h
    obtain ⟨v, hv⟩ := mem_keysOf.1 h
    exact ((mem_addProd a b (k, v)).1 hv).2.1
  · intro h
    apply get_pos_mem
    rw [get_addProd, if_pos h]
    omega

theorem mem_keysOf_sortByKey (k : String) (l : Stoich) : k ∈ keysOf (sortByKey l) ↔ k ∈ keysOf l :=
  mem_keysOf_initStoich true k l

theorem netted_add {a b r : Equil α} (h : add a b = .ok r) : NettedSum a b r := by
  obtain ⟨param, _, hr, _⟩ := add_ok h
  subst hr
  refine ⟨?_, ?_, ?_, ?_, ?_, ⟨rfl, rfl⟩⟩
  · intro kv hkv
    simp only [List.append_nil, List.mem_append, mem_sortByKey] at hkv
    rcases hkv with hkv | hkv
    · have := (mem_addReac a b kv).1 hkv
      have h1 := this.2.1
      rw [this.2.2]; omega
    · have := (mem_addProd a b kv).1 hkv
      have h1 := this.2.1
      rw [this.2.2]; omega
  · intro k
    simp only [mem_keysOf_sortByKey, mem_keys_addReac, mem_keys_addProd]
    omega
  · intro k hk
    simp only [mem_keysOf_sortByKey, mem_keys_addReac, mem_keys_addProd]
    show ¬ addN a b k < 0 ∧ ¬ 0 < addN a b k
    unfold addN; omega
  · intro k
    simp only [mem_keysOf_sortByKey, mem_keys_addReac, mem_keys_addProd]
    exact ⟨Iff.rfl, Iff.rfl⟩
  · exact ⟨nodup_keys_sortByKey _ (nodup_keys_addReac a b), nodup_keys_sortByKey _ (nodup_keys_addProd a b)⟩
end

section
variable [Mul α] [Inv α] [NatCast α] [DecidableEq α]

theorem sub_ok {a b r : Equil α} (h : sub a b = .ok r) : ∃ nb, rmul (-1) b = .ok nb ∧ add a nb = .ok r := by
  unfold sub at h
  simp only [bind, Except.bind] at h
  split at h
  · cases h
  · rename_i nb hnb
    exact ⟨nb, hnb, h⟩

theorem net_sub' {a b r : Equil α} (h : sub a b = .ok r) (k : String) :
    r.net k = a.activeNet k - b.activeNet k := by
  obtain ⟨nb, h1, h2⟩ := sub_ok h
  rw [net_add' h2, activeNet_rmul h1]; ring

end

theorem bind_ok {β γ : Type} {x : Except String β} {f : β → Except String γ} {r : γ}
    (h : (x >>= f) = .ok r) : ∃ a, x = .ok a ∧ f a = .ok r := by
  cases x with
  | error e => cases h
  | ok a => exact ⟨a, rfl, h⟩

/-- the integer combination of the operands' net stoichiometries -/
def netSum (l : List (Equil α × Int)) (k : String) : Int := (l.map (fun p => p.2 * p.1.net k)).sum

theorem netSum_append (l₁ l₂ : List (Equil α × Int)) (k : String) :
    netSum (l₁ ++ l₂) k = netSum l₁ k + netSum l₂ k := by
  simp [netSum]

theorem netSum_scale (n : Int) (l : List (Equil α × Int)) (k : String) :
    netSum (l.map (fun p => (p.1, n * p.2))) k = n * netSum l k := by
  induction l with
  | nil => simp [netSum]
  | cons x t ih =>
    simp only [netSum, List.map_cons, List.sum_cons] at ih ⊢
    rw [ih]; ring

section field
variable [Field α] [DecidableEq α]

theorem npow_eq (x : α) (m : Nat) : npow x m = x ^ m := by
  induction m with
  | zero => simp [npow]
  | succ m ih => simp [npow, ih, pow_succ]

theorem powInt_ok {x p : α} {n : Int} (h : powInt x n = .ok p) : p = x ^ n ∧ (n < 0 → x ≠ 0) := by
  unfold powInt at h
  split at h
  · rename_i hn
    split at h
    · cases h
    · rename_i hx
      injection h with h
      refine ⟨?_, fun _ => by simpa using hx⟩
      rw [← h, npow_eq]
      have : n = -((n.natAbs : Nat) : Int) := by omega
      conv_rhs => rw [this]
      rw [zpow_neg, zpow_natCast]
  · rename_i hn
    injection h with h
    refine ⟨?_, fun h' => absurd h' hn⟩
    rw [← h, npow_eq]
    have : n = ((n.toNat : Nat) : Int) := by omega
    conv_rhs => rw [this]
    rw [zpow_natCast]

theorem K_rmul' {n : Int} {e r : Equil α} (h : rmul n e = .ok r) :
    r.K = e.K.map (fun k => k ^ n) ∧ (∀ k, e.K = some k → n < 0 → k ≠ 0) := by
  obtain ⟨param, hp, hr, _⟩ := rmul_ok h
  have hK : r.K = param := by
    rw [hr]; split <;> rfl
  rw [hK]
  cases hk : e.K with
  | none =>
    rw [hk] at hp
    simp only [rmulParam, pure, Except.pure] at hp
    injection hp with hp
    exact ⟨by simp [← hp], fun _ h' => by cases h'⟩
  | some k =>
    rw [hk] at hp
    simp only [rmulParam] at hp
    obtain ⟨p, h1, h2⟩ := bind_ok hp
    simp only [pure, Except.pure] at h2
    injection h2 with h2
    obtain ⟨h3, h4⟩ := powInt_ok h1
    refine ⟨by simp [← h2, h3], ?_⟩
    intro k' hk' hn
    injection hk' with hk'
    subst hk'
    exact h4 hn

theorem K_add' {a b r : Equil α} (h : add a b = .ok r) :
    (a.K = none ∧ b.K = none ∧ r.K = none) ∨ (∃ x y, a.K = some x ∧ b.K = some y ∧ r.K = some (x * y)) := by
  obtain ⟨param, hp, hr, _⟩ := add_ok h
  have hK : r.K = param := by rw [hr]
  rw [hK]
  unfold addParam at hp
  split at hp
  · rename_i h1 h2
    simp only [pure, Except.pure] at hp
    injection hp with hp
    exact Or.inl ⟨h1, h2, hp.symm⟩
  · rename_i x y h1 h2
    simp only [pure, Except.pure] at hp
    injection hp with hp
    exact Or.inr ⟨x, y, h1, h2, hp.symm⟩
  · cases hp

/-- the constant of an operand, for operands that have one -/
def Kof (e : Equil α) : α := match e.K with | some k => k | none => 1

/-- `∏ Kᵢ ^ nᵢ` over the operands of an expression -/
def Kprod (l : List (Equil α × Int)) : α := (l.map (fun p => Kof p.1 ^ p.2)).prod

theorem Kprod_append (l₁ l₂ : List (Equil α × Int)) : Kprod (l₁ ++ l₂) = Kprod l₁ * Kprod l₂ := by
  simp [Kprod]

theorem Kprod_scale (n : Int) (l : List (Equil α × Int)) :
    Kprod (l.map (fun p => (p.1, n * p.2))) = Kprod l ^ n := by
  induction l with
  | nil => simp [Kprod]
  | cons x t ih =>
    simp only [Kprod, List.map_cons, List.prod_cons] at ih ⊢
    rw [ih, mul_zpow, ← zpow_mul, mul_comm n]

/-- all operands have a constant / none has -/
def AllSome (l : List (Equil α × Int)) : Prop := ∀ p ∈ l, p.1.K ≠ none
def AllNone (l : List (Equil α × Int)) : Prop := ∀ p ∈ l, p.1.K = none

/-- what `combo_spec` says about a result `r` of an expression with operand list `l` -/
structure ComboSpec (l : List (Equil α × Int)) (r : Equil α) : Prop where
  net : ∀ k, r.net k = netSum l k
  noInact : r.NoInact
  const : (AllNone l ∧ r.K = none) ∨ (AllSome l ∧ r.K = some (Kprod l))

theorem combo_scale {n : Int} {l : List (Equil α × Int)} {x r : Equil α}
    (hx : ComboSpec l x) (h : rmul n x = .ok r) : ComboSpec (l.map (fun p => (p.1, n * p.2))) r := by
  refine ⟨?_, rmul_noInact h hx.noInact, ?_⟩
  · intro k; rw [net_rmul' h, hx.net, netSum_scale]
  · obtain ⟨hK, _⟩ := K_rmul' h
    rcases hx.const with ⟨h1, h2⟩ | ⟨h1, h2⟩
    · left
      refine ⟨?_, by rw [hK, h2]; rfl⟩
      intro p hp
      obtain ⟨q, hq, rfl⟩ := List.mem_map.1 hp
      exact h1 q hq
    · right
      refine ⟨?_, by rw [hK, h2, Kprod_scale]; rfl⟩
      intro p hp
      obtain ⟨q, hq, rfl⟩ := List.mem_map.1 hp
      exact h1 q hq

theorem combo_add {l₁ l₂ : List (Equil α × Int)} {x y r : Equil α}
    (hx : ComboSpec l₁ x) (hy : ComboSpec l₂ y) (h : add x y = .ok r) : ComboSpec (l₁ ++ l₂) r := by
  refine ⟨?_, add_noInact h, ?_⟩
  · intro k
    rw [net_add' h, ← net_eq_activeNet hx.noInact, ← net_eq_activeNet hy.noInact, hx.net, hy.net, netSum_append]
  · rcases K_add' h with ⟨h1, h2, h3⟩ | ⟨a, b, h1, h2, h3⟩
    · left
      rcases hx.const with ⟨hx1, _⟩ | ⟨_, hx2⟩
      · rcases hy.const with ⟨hy1, _⟩ | ⟨_, hy2⟩
        · refine ⟨?_, h3⟩
          intro p hp
          rcases List.mem_append.1 hp with hp | hp
          · exact hx1 p hp
          · exact hy1 p hp
        · rw [h2] at hy2; cases hy2
      · rw [h1] at hx2; cases hx2
    · right
      rcases hx.const with ⟨_, hx2⟩ | ⟨hx1, hx2⟩
      · rw [h1] at hx2; cases hx2
      · rcases hy.const with ⟨_, hy2⟩ | ⟨hy1, hy2⟩
        · rw [h2] at hy2; cases hy2
        · refine ⟨?_, ?_⟩
          · intro p hp
            rcases List.mem_append.1 hp with hp | hp
            · exact hx1 p hp
            · exact hy1 p hp
          · rw [h3, Kprod_append]
            rw [h1] at hx2; rw [h2] at hy2
            injection hx2 with hx2; injection hy2 with hy2
            rw [hx2, hy2]

theorem combo_eval (t : EqExpr α) : ∀ r, t.eval = .ok r → (∀ p ∈ t.terms, p.1.NoInact) → ComboSpec t.terms r := by
  induction t with
  | leaf e =>
    intro r h hl
    simp only [EqExpr.eval] at h
    injection h with h
    subst h
    refine ⟨?_, hl (e, 1) (by simp [EqExpr.terms]), ?_⟩
    · intro k; simp [EqExpr.terms, netSum]
    · cases hk : e.K with
      | none => left; exact ⟨by intro p hp; simp [EqExpr.terms] at hp; rw [hp]; exact hk, rfl⟩
      | some k =>
        right
        refine ⟨by intro p hp; simp [EqExpr.terms] at hp; rw [hp]; simp [hk], ?_⟩
        simp [EqExpr.terms, Kprod, Kof, hk]
  | scale n t ih =>
    intro r h hl
    simp only [EqExpr.eval] at h
    obtain ⟨x, hx, hr⟩ := bind_ok h
    have hl' : ∀ p ∈ t.terms, p.1.NoInact := by
      intro p hp
      exact hl (p.1, n * p.2) (List.mem_map.2 ⟨p, hp, rfl⟩)
    exact combo_scale (ih x hx hl') hr
  | neg t ih =>
    intro r h hl
    simp only [EqExpr.eval] at h
    obtain ⟨x, hx, hr⟩ := bind_ok h
    have hl' : ∀ p ∈ t.terms, p.1.NoInact := by
      intro p hp
      exact hl (p.1, -1 * p.2) (List.mem_map.2 ⟨p, hp, rfl⟩)
    exact combo_scale (ih x hx hl') hr
  | add a b iha ihb =>
    intro r h hl
    simp only [EqExpr.eval] at h
    obtain ⟨x, hx, h⟩ := bind_ok h
    obtain ⟨y, hy, hr⟩ := bind_ok h
    simp only [EqExpr.terms, List.mem_append] at hl
    exact combo_add (iha x hx (fun p hp => hl p (Or.inl hp))) (ihb y hy (fun p hp => hl p (Or.inr hp))) hr
  | sub a b iha ihb =>
    intro r h hl
    simp only [EqExpr.eval] at h
    obtain ⟨x, hx, h⟩ := bind_ok h
    obtain ⟨y, hy, hr⟩ := bind_ok h
    obtain ⟨ny, hny, hr⟩ := sub_ok hr
    simp only [EqExpr.terms, List.mem_append] at hl
    have hb : ∀ p ∈ b.terms, p.1.NoInact := by
      intro p hp
      exact hl (p.1, -1 * p.2) (Or.inr (List.mem_map.2 ⟨p, hp, rfl⟩))
    exact combo_add (iha x hx (fun p hp => hl p (Or.inl hp))) (combo_scale (ihb y hy hb) hny) hr

theorem positive_eval (t : EqExpr α) : ∀ r, t.eval = .ok r → (∀ p ∈ t.terms, p.1.Positive) → r.Positive := by
  induction t with
  | leaf e =>
    intro r h hl
    simp only [EqExpr.eval] at h
    injection h with h
    subst h
    exact hl (e, 1) (by simp [EqExpr.terms])
  | scale n t ih =>
    intro r h hl
    simp only [EqExpr.eval] at h
    obtain ⟨x, hx, hr⟩ := bind_ok h
    exact rmul_positive hr (ih x hx (fun p hp => hl (p.1, n * p.2) (List.mem_map.2 ⟨p, hp, rfl⟩)))
  | neg t ih =>
    intro r h hl
    simp only [EqExpr.eval] at h
    obtain ⟨x, hx, hr⟩ := bind_ok h
    exact rmul_positive hr (ih x hx (fun p hp => hl (p.1, -1 * p.2) (List.mem_map.2 ⟨p, hp, rfl⟩)))
  | add a b _ _ =>
    intro r h _
    simp only [EqExpr.eval] at h
    obtain ⟨x, _, h⟩ := bind_ok h
    obtain ⟨y, _, hr⟩ := bind_ok h
    exact (netted_add hr).positive
  | sub a b _ _ =>
    intro r h _
    simp only [EqExpr.eval] at h
    obtain ⟨x, _, h⟩ := bind_ok h
    obtain ⟨y, _, hr⟩ := bind_ok h
    obtain ⟨ny, _, hr⟩ := sub_ok hr
    exact (netted_add hr).positive

end field

/-! ### eliminate -/

theorem isPrime_iff (p : Nat) : isPrime p = true ↔ p.Prime := by
  unfold isPrime
  rw [Nat.prime_def_lt']
  simp only [Bool.and_eq_true, decide_eq_true_eq, List.all_eq_true, List.mem_range, Bool.or_eq_true,
    bne_iff_ne, ne_eq]
  constructor
  · rintro ⟨h2, h⟩
    refine ⟨h2, fun m hm2 hm hd => ?_⟩
    rcases h m hm with h' | h'
    · omega
    · exact h' (Nat.mod_eq_zero_of_dvd hd)
  · rintro ⟨h2, h⟩
    refine ⟨h2, fun d hd => ?_⟩
    by_cases hd2 : d < 2
    · exact Or.inl hd2
    · right
      intro hmod
      exact h d (by omega) hd (Nat.dvd_of_mod_eq_zero hmod)

/-- `primeFactors n` is exactly the set of primes dividing `n` (nothing for `n = 0`) -/
theorem mem_primeFactors (n p : Nat) : p ∈ primeFactors n ↔ p.Prime ∧ p ∣ n ∧ n ≠ 0 := by
  unfold primeFactors
  simp only [List.mem_filter, List.mem_range, Bool.and_eq_true, isPrime_iff, beq_iff_eq]
  constructor
  · rintro ⟨hlt, hp, hmod⟩
    refine ⟨hp, Nat.dvd_of_mod_eq_zero hmod, ?_⟩
    intro h0; subst h0
    have := hp.two_le; omega
  · rintro ⟨hp, hd, h0⟩
    refine ⟨?_, hp, Nat.mod_eq_zero_of_dvd hd⟩
    have := Nat.le_of_dvd (Nat.pos_of_ne_zero h0) hd
    omega

/-- the dict `d` has an entry for `f` with exponent at least `e` -/
def Has (d : List (Nat × Nat)) (f e : Nat) : Prop := ∃ x, (f, x) ∈ d ∧ e ≤ x

theorem updMax_has_self (d : List (Nat × Nat)) (f e : Nat) : Has (updMax d f e) f e := by
  induction d with
  | nil => exact ⟨max 0 e, by simp [updMax], by omega⟩
  | cons y t ih =>
    obtain ⟨g, x⟩ := y
    unfold updMax
    split
    · rename_i hg
      subst hg
      exact ⟨max x e, by simp, by omega⟩
    · obtain ⟨x', h1, h2⟩ := ih
      exact ⟨x', List.mem_cons_of_mem _ h1, h2⟩

theorem updMax_mono (d : List (Nat × Nat)) (f e g x : Nat) (h : Has d g x) : Has (updMax d f e) g x := by
  induction d with
  | nil => obtain ⟨_, h1, _⟩ := h; cases h1
  | cons y t ih =>
    obtain ⟨g', x'⟩ := y
    obtain ⟨x₀, h1, h2⟩ := h
    unfold updMax
    split
    · rename_i hg
      subst hg
      rcases List.mem_cons.1 h1 with h1 | h1
      · injection h1 with h3 h4
        subst h3; subst h4
        exact ⟨max x₀ e, by simp, by omega⟩
      · exact ⟨x₀, List.mem_cons_of_mem _ h1, h2⟩
    · rcases List.mem_cons.1 h1 with h1 | h1
      · exact ⟨x₀, by rw [h1]; simp, h2⟩
      · obtain ⟨x₁, h3, h4⟩ := ih ⟨x₀, h1, h2⟩
        exact ⟨x₁, List.mem_cons_of_mem _ h3, h4⟩

theorem updMax_keys (d : List (Nat × Nat)) (f e : Nat) (kv : Nat × Nat) (h : kv ∈ updMax d f e) :
    kv.1 = f ∨ ∃ kv' ∈ d, kv'.1 = kv.1 := by
  induction d with
  | nil => simp [updMax] at h; left; rw [h]
  | cons y t ih =>
    obtain ⟨g, x⟩ := y
    unfold updMax at h
    split at h
    · rcases List.mem_cons.1 h with h | h
      · right; exact ⟨(g, x), by simp, by rw [h]⟩
      · right; exact ⟨kv, List.mem_cons_of_mem _ h, rfl⟩
    · rcases List.mem_cons.1 h with h | h
      · right; exact ⟨(g, x), by simp, by rw [h]⟩
      · rcases ih h with h' | ⟨kv', h1, h2⟩
        · exact Or.inl h'
        · exact Or.inr ⟨kv', List.mem_cons_of_mem _ h1, h2⟩

/-- the inner loop of `eliminate` for one `v` -/
def stepFactors (d : List (Nat × Nat)) (v : Int) : List (Nat × Nat) :=
  (primeFactors v.natAbs).foldl (fun d f => updMax d f (Int.fdiv v (f : Int)).natAbs) d

theorem factorsOf_eq (viol : List Int) : factorsOf viol = viol.foldl stepFactors [] := rfl

theorem foldl_updMax_mono (E : Nat → Nat) (fs : List Nat) : ∀ (d : List (Nat × Nat)) (g x : Nat), Has d g x →
    Has (fs.foldl (fun d f => updMax d f (E f)) d) g x := by
  induction fs with
  | nil => intro d g x h; exact h
  | cons f t ih => intro d g x h; exact ih _ g x (updMax_mono d f (E f) g x h)

theorem foldl_updMax_has (E : Nat → Nat) (fs : List Nat) : ∀ (d : List (Nat × Nat)) (f : Nat), f ∈ fs →
    Has (fs.foldl (fun d f => updMax d f (E f)) d) f (E f) := by
  induction fs with
  | nil => intro d f h; cases h
  | cons f₀ t ih =>
    intro d f h
    rcases List.mem_cons.1 h with h | h
    · subst h
      exact foldl_updMax_mono E t _ _ _ (updMax_has_self d f (E f))
    · exact ih _ f h

theorem foldl_updMax_keys (E : Nat → Nat) (fs : List Nat) : ∀ (d : List (Nat × Nat)) (kv : Nat × Nat),
    kv ∈ fs.foldl (fun d f => updMax d f (E f)) d → kv.1 ∈ fs ∨ ∃ kv' ∈ d, kv'.1 = kv.1 := by
  induction fs with
  | nil => intro d kv h; exact Or.inr ⟨kv, h, rfl⟩
  | cons f₀ t ih =>
    intro d kv h
    rcases ih _ kv h with h' | ⟨kv', h1, h2⟩
    · exact Or.inl (List.mem_cons_of_mem _ h')
    · rcases updMax_keys d f₀ (E f₀) kv' h1 with h3 | ⟨kv'', h3, h4⟩
      · left; rw [← h2, h3]; simp
      · exact Or.inr ⟨kv'', h3, by rw [h4, h2]⟩

theorem stepFactors_mono (d : List (Nat × Nat)) (v : Int) (g x : Nat) (h : Has d g x) : Has (stepFactors d v) g x :=
  foldl_updMax_mono (fun f => (Int.fdiv v (f : Int)).natAbs) _ d g x h

theorem stepFactors_has (d : List (Nat × Nat)) (v : Int) (f : Nat) (h : f ∈ primeFactors v.natAbs) :
    Has (stepFactors d v) f (Int.fdiv v (f : Int)).natAbs :=
  foldl_updMax_has (fun f => (Int.fdiv v (f : Int)).natAbs) _ d f h

theorem foldl_stepFactors_mono (vs : List Int) : ∀ (d : List (Nat × Nat)) (g x : Nat), Has d g x →
    Has (vs.foldl stepFactors d) g x := by
  induction vs with
  | nil => intro d g x h; exact h
  | cons v t ih => intro d g x h; exact ih _ g x (stepFactors_mono d v g x h)

theorem factorsOf_has (viol : List Int) (v : Int) (hv : v ∈ viol) (f : Nat) (hf : f ∈ primeFactors v.natAbs) :
    Has (factorsOf viol) f (Int.fdiv v (f : Int)).natAbs := by
  rw [factorsOf_eq]
  suffices h : ∀ (vs : List Int) (d : List (Nat × Nat)), v ∈ vs →
      Has (vs.foldl stepFactors d) f (Int.fdiv v (f : Int)).natAbs from h viol [] hv
  intro vs
  induction vs with
  | nil => intro d h; cases h
  | cons w t ih =>
    intro d h
    rcases List.mem_cons.1 h with h | h
    · subst h
      exact foldl_stepFactors_mono t _ _ _ (stepFactors_has d v f hf)
    · exact ih _ h

theorem factorsOf_keys_pos (viol : List Int) : ∀ kv ∈ factorsOf viol, 0 < kv.1 := by
  rw [factorsOf_eq]
  suffices h : ∀ (vs : List Int) (d : List (Nat × Nat)), (∀ kv ∈ d, 0 < kv.1) →
      ∀ kv ∈ vs.foldl stepFactors d, 0 < kv.1 from h viol [] (by intro kv h; cases h)
  intro vs
  induction vs with
  | nil => intro d h; exact h
  | cons w t ih =>
    intro d h
    apply ih
    intro kv hkv
    rcases foldl_updMax_keys _ _ d kv hkv with h' | ⟨kv', h1, h2⟩
    · exact ((mem_primeFactors _ _).1 h').1.pos
    · rw [← h2]; exact h kv' h1

theorem rcdOf_eq (d : List (Nat × Nat)) : rcdOf d = (d.map (fun kv => kv.1 ^ kv.2)).prod := by
  unfold rcdOf
  suffices h : ∀ acc, d.foldl (fun acc kv => acc * kv.1 ^ kv.2) acc = acc * (d.map (fun kv => kv.1 ^ kv.2)).prod by
    rw [h]; simp
  induction d with
  | nil => intro acc; simp
  | cons x t ih => intro acc; simp only [List.foldl_cons, List.map_cons, List.prod_cons]; rw [ih]; ring

theorem rcdOf_pos (d : List (Nat × Nat)) (h : ∀ kv ∈ d, 0 < kv.1) : 0 < rcdOf d := by
  rw [rcdOf_eq]
  induction d with
  | nil => simp
  | cons x t ih =>
    simp only [List.map_cons, List.prod_cons]
    exact Nat.mul_pos (Nat.pow_pos (h x (by simp))) (ih (fun kv hkv => h kv (List.mem_cons_of_mem _ hkv)))

theorem dvd_rcdOf (d : List (Nat × Nat)) (f x : Nat) (h : (f, x) ∈ d) : f ^ x ∣ rcdOf d := by
  rw [rcdOf_eq]
  exact List.dvd_prod (List.mem_map.2 ⟨(f, x), h, rfl⟩)

/-- the common multiple of `eliminate` is a multiple of every non-zero `|v|` -/
theorem natAbs_dvd_rcd (viol : List Int) (v : Int) (hv : v ∈ viol) (h0 : v ≠ 0) :
    v.natAbs ∣ rcdOf (factorsOf viol) := by
  rw [Nat.dvd_iff_prime_pow_dvd_dvd]
  intro p k hp hpk
  rcases Nat.eq_zero_or_pos k with hk | hk
  · subst hk; simp
  have hn0 : v.natAbs ≠ 0 := by omega
  have hpd : p ∣ v.natAbs := dvd_trans (dvd_pow_self p (by omega)) hpk
  have hmem : p ∈ primeFactors v.natAbs := (mem_primeFactors _ _).2 ⟨hp, hpd, hn0⟩
  obtain ⟨x, hx1, hx2⟩ := factorsOf_has viol v hv p hmem
  have hdiv : (Int.fdiv v (p : Int)).natAbs = v.natAbs / p := by
    have hpv : (p : Int) ∣ v := by
      rw [← Int.natAbs_dvd_natAbs]; simpa using hpd
    rw [Int.fdiv_eq_ediv_of_dvd hpv, Int.natAbs_ediv_of_dvd hpv]; simp
  rw [hdiv] at hx2
  have hk1 : k ≤ v.natAbs / p := by
    obtain ⟨c, hc⟩ := hpk
    have hc0 : 0 < c := by
      rcases Nat.eq_zero_or_pos c with h | h
      · subst h; simp at hc; omega
      · exact h
    have h1 : v.natAbs / p = p ^ (k - 1) * c := by
      have : p ^ k = p * p ^ (k - 1) := by
        conv_lhs => rw [show k = (k - 1) + 1 by omega]
        rw [pow_succ]; ring
      rw [hc, this, Nat.mul_assoc, Nat.mul_div_cancel_left _ hp.pos]
    rw [h1]
    have h2 : k - 1 < 2 ^ (k - 1) := Nat.lt_two_pow_self
    have h3 : 2 ^ (k - 1) ≤ p ^ (k - 1) := Nat.pow_le_pow_left hp.two_le _
    calc k ≤ 2 ^ (k - 1) := by omega
      _ ≤ p ^ (k - 1) := h3
      _ ≤ p ^ (k - 1) * c := Nat.le_mul_of_pos_right _ hc0
  exact dvd_trans (pow_dvd_pow p (le_trans hk1 hx2)) (dvd_rcdOf _ p x hx1)


/-- `intdiv` is truncated division (rounds toward zero) -/
theorem intdiv_eq_tdiv (p q : Int) (hq : q ≠ 0) : intdiv p q = Int.tdiv p q := by
  unfold intdiv
  simp only
  rw [Int.fdiv_eq_ediv, Int.tdiv_eq_ediv]
  have h1 := Int.mul_ediv_add_emod p q
  have h2 := Int.emod_nonneg p hq
  have h3 := Int.emod_lt p hq
  by_cases hd : q ∣ p
  · have h0 : p % q = 0 := Int.emod_eq_zero_of_dvd hd
    simp only [hd, or_true, if_true, Int.sub_zero, Int.add_zero]
    have : q * (p / q) = p := by omega
    simp [this]
  · have h0 : p % q ≠ 0 := fun h => hd (Int.dvd_of_emod_eq_zero h)
    generalize p / q = d at *
    generalize p % q = m at *
    rcases Int.lt_or_gt_of_ne hq with hneg | hpos
    · have hs : Int.sign q = -1 := Int.sign_eq_neg_one_of_neg hneg
      have hq0 : ¬ (0 ≤ q) := by omega
      have hX1 : 1 ≤ d → q * d ≤ q := fun h => by nlinarith
      have hX2 : d ≤ 0 → 0 ≤ q * d := fun h => by nlinarith
      have hmul : q * (d - 1) = q * d - q := by ring
      simp only [hd, or_false, hs, hq0, if_false, hmul]
      by_cases hp : 0 ≤ p
      · simp only [hp, if_true]
        have hd0 : d ≤ 0 := by
          by_contra hc
          have := hX1 (by omega)
          omega
        rw [if_pos ⟨by omega, by omega⟩]; omega
      · simp only [hp, if_false]
        have hd1 : 1 ≤ d := by
          by_contra hc
          have := hX2 (by omega)
          omega
        rw [if_neg (by omega)]; omega
    · have hs : Int.sign q = 1 := Int.sign_eq_one_of_pos hpos
      have hq0 : 0 ≤ q := by omega
      have hX1 : 0 ≤ d → 0 ≤ q * d := fun h => by nlinarith
      have hX2 : d ≤ -1 → q * d ≤ -q := fun h => by nlinarith
      simp only [hd, or_false, hs, hq0, if_true, Int.sub_zero]
      by_cases hp : 0 ≤ p
      · simp only [hp, if_true]
        have hd0 : 0 ≤ d := by
          by_contra hc
          have := hX2 (by omega)
          omega
        rw [if_neg (by omega)]; omega
      · simp only [hp, if_false]
        have hd1 : d < 0 := by
          by_contra hc
          have := hX1 (by omega)
          omega
        rw [if_pos ⟨hd1, by omega⟩]


theorem int_dvd_rcd (viol : List Int) (v : Int) (hv : v ∈ viol) (h0 : v ≠ 0) :
    v ∣ ((rcdOf (factorsOf viol) : Nat) : Int) := by
  have := natAbs_dvd_rcd viol v hv h0
  rw [← Int.natAbs_dvd]
  exact Int.natCast_dvd_natCast.2 this

theorem eliminate_pair (e1 e2 : Equil α) (wrt : String) (h1 : e1.net wrt ≠ 0) (h2 : e2.net wrt ≠ 0) :
    ∃ m1 m2 : Int, eliminate [e1, e2] wrt = .ok [m1, m2] ∧ m1 ≠ 0 ∧ m2 ≠ 0 ∧
      m1 * e1.net wrt + m2 * e2.net wrt = 0 := by
  generalize hv1 : e1.net wrt = v1 at *
  generalize hv2 : e2.net wrt = v2 at *
  have hR0 : 0 < rcdOf (factorsOf [v1, v2]) := rcdOf_pos _ (factorsOf_keys_pos _)
  have hd1 : v1 ∣ ((rcdOf (factorsOf [v1, v2]) : Nat) : Int) := int_dvd_rcd _ v1 (by simp) h1
  have hd2 : v2 ∣ ((rcdOf (factorsOf [v1, v2]) : Nat) : Int) := int_dvd_rcd _ v2 (by simp) h2
  generalize hR : ((rcdOf (factorsOf [v1, v2]) : Nat) : Int) = R at *
  have hRpos : 0 < R := by rw [← hR]; exact_mod_cast hR0
  have hn1 : v1 * -1 ≠ 0 := by omega
  have hd1' : (v1 * -1) ∣ R := by
    obtain ⟨c, hc⟩ := hd1
    exact ⟨-c, by rw [hc]; ring⟩
  refine ⟨Int.fdiv R (v1 * -1), Int.fdiv R v2, ?_, ?_, ?_, ?_⟩
  · unfold eliminate
    simp only [List.map, hv1, hv2, hR]
    simp only [divAll, hn1, h2, if_false, bind, Except.bind, pure, Except.pure]
  · intro h
    have := Int.fdiv_mul_cancel hd1'
    rw [h] at this; omega
  · intro h
    have := Int.fdiv_mul_cancel hd2
    rw [h] at this; omega
  · have e1' := Int.fdiv_mul_cancel hd1'
    have e2' := Int.fdiv_mul_cancel hd2
    have e3 : Int.fdiv R (v1 * -1) * v1 = -R := by
      have : Int.fdiv R (v1 * -1) * (v1 * -1) = -(Int.fdiv R (v1 * -1) * v1) := by ring
      omega
    omega

/-- combining with the multipliers removes the species: it is on neither side of the sum -/
theorem eliminate_combination [Mul α] [Inv α] [NatCast α] [DecidableEq α]
    {e1 e2 r1 r2 r : Equil α} {wrt : String} {m1 m2 : Int}
    (hz : m1 * e1.net wrt + m2 * e2.net wrt = 0) (hn1 : e1.NoInact) (hn2 : e2.NoInact)
    (hr1 : rmul m1 e1 = .ok r1) (hr2 : rmul m2 e2 = .ok r2) (hr : add r1 r2 = .ok r) :
    r.net wrt = 0 ∧ wrt ∉ keysOf r.reac ∧ wrt ∉ keysOf r.prod ∧ wrt ∉ r.keys := by
  have hsum : r1.activeNet wrt + r2.activeNet wrt = 0 := by
    rw [activeNet_rmul hr1, activeNet_rmul hr2, ← net_eq_activeNet hn1, ← net_eq_activeNet hn2]
    exact hz
  have hN := netted_add hr
  obtain ⟨c1, c2⟩ := hN.cancelled wrt hsum
  refine ⟨by rw [net_add' hr]; exact hsum, c1, c2, ?_⟩
  unfold Equil.keys
  rw [hN.noInact.1, hN.noInact.2]
  simp [keysOf] at c1 c2 ⊢
  exact ⟨c1, c2⟩

section field
variable [Field α] [DecidableEq α]

/-- `as_reactions`: the two reactions are the two directions and `kf = kb · K · c0^(nb − nf)` -/
theorem asReactions_ok {e : Equil α} {kf kb : Option α} {c0 : α} {f b : Rxn α}
    (h : asReactions e kf kb c0 = .ok (f, b)) :
    (f.reac = e.reac ∧ f.prod = e.prod ∧ f.inactReac = e.inactReac ∧ f.inactProd = e.inactProd) ∧
    (b.reac = e.prod ∧ b.prod = e.reac ∧ b.inactReac = e.inactProd ∧ b.inactProd = e.inactReac) ∧
    ∃ K, e.K = some K ∧
      f.k = b.k * (K * c0 ^ (((sumVals e.prod : Nat) : Int) - ((sumVals e.reac : Nat) : Int))) ∧
      ((kf = some f.k ∧ kb = none ∧ K * c0 ^ (((sumVals e.prod : Nat) : Int) - ((sumVals e.reac : Nat) : Int)) ≠ 0)
        ∨ (kf = none ∧ kb = some b.k)) := by
  unfold asReactions at h
  simp only at h
  obtain ⟨⟨kf', kb'⟩, hk, h⟩ := bind_ok h
  split at h
  · simp only [pure, Except.pure] at h
    injection h with h
    injection h with hf hb
    subst hf; subst hb
    refine ⟨⟨rfl, rfl, rfl, rfl⟩, ⟨rfl, rfl, rfl, rfl⟩, ?_⟩
    simp only
    split at hk
    · cases hk
    · rename_i bb
      split at hk
      · cases hk
      · rename_i K hK
        obtain ⟨c, hc, hk⟩ := bind_ok hk
        simp only [pure, Except.pure] at hk
        injection hk with hk
        injection hk with hk1 hk2
        obtain ⟨hc', _⟩ := powInt_ok hc
        refine ⟨K, hK, ?_, Or.inr ⟨rfl, by rw [hk2]⟩⟩
        rw [← hk1, ← hk2, hc']; ring
    · rename_i ff
      obtain ⟨c, hc, hk⟩ := bind_ok hk
      obtain ⟨hc', _⟩ := powInt_ok hc
      split at hk
      · cases hk
      · rename_i K hK
        split at hk
        · cases hk
        · rename_i hne
          simp only [pure, Except.pure] at hk
          injection hk with hk
          injection hk with hk1 hk2
          have hne' : K * c ≠ 0 := by simpa using hne
          refine ⟨K, hK, ?_, Or.inl ⟨by rw [hk1], rfl, by rw [← hc']; exact hne'⟩⟩
          rw [← hk1, ← hk2, ← hc']
          rw [div_mul_cancel₀ _ hne']
    · cases hk
  · cases h

end field

/-! ### cancel -/

/-- one iteration of the loop of `cancel` -/
def cancelStep (self rxn : Equil α) (cand : Option Int) (k : String) : Except String (Option Int) :=
  match intdivPy (-(self.net k)) (rxn.net k) with
  | .error s => .error s
  | .ok r =>
    match cand with
    | none => .ok (some r)
    | some c => if r.natAbs < c.natAbs then .ok (some r) else .ok (some c)

theorem cancelWith_eq (self rxn : Equil α) (ks : List String) :
    cancelWith self rxn ks = ks.foldlM (cancelStep self rxn) none := rfl

/-- the candidate multiplier of one key -/
def cancelCand (self rxn : Equil α) (k : String) : Int := intdiv (-(self.net k)) (rxn.net k)

theorem cancelStep_ok {self rxn : Equil α} {cand c : Option Int} {k : String}
    (h : cancelStep self rxn cand k = .ok c) :
    rxn.net k ≠ 0 ∧
    ((cand = none ∧ c = some (cancelCand self rxn k)) ∨
     (∃ x, cand = some x ∧ (cancelCand self rxn k).natAbs < x.natAbs ∧ c = some (cancelCand self rxn k)) ∨
     (∃ x, cand = some x ∧ x.natAbs ≤ (cancelCand self rxn k).natAbs ∧ c = some x)) := by
  unfold cancelStep intdivPy at h
  by_cases h0 : rxn.net k = 0
  · simp [h0] at h
  · refine ⟨h0, ?_⟩
    simp only [h0, if_false] at h
    cases cand with
    | none =>
      simp only at h
      injection h with h
      exact Or.inl ⟨rfl, h.symm⟩
    | some x =>
      simp only at h
      split at h
      · rename_i hlt
        injection h with h
        exact Or.inr (Or.inl ⟨x, rfl, hlt, h.symm⟩)
      · rename_i hlt
        injection h with h
        exact Or.inr (Or.inr ⟨x, rfl, by unfold cancelCand; omega, h.symm⟩)

theorem foldlM_cancel (self rxn : Equil α) (ks : List String) : ∀ (cand c : Option Int),
    ks.foldlM (cancelStep self rxn) cand = .ok c →
    (∀ k ∈ ks, rxn.net k ≠ 0) ∧
    (c = none → cand = none ∧ ks = []) ∧
    (∀ r, c = some r →
      (cand = some r ∨ ∃ k ∈ ks, r = cancelCand self rxn k) ∧
      (∀ x, cand = some x → r.natAbs ≤ x.natAbs) ∧
      (∀ k ∈ ks, r.natAbs ≤ (cancelCand self rxn k).natAbs)) := by
  induction ks with
  | nil =>
    intro cand c h
    simp only [List.foldlM_nil, pure, Except.pure] at h
    injection h with h
    subst h
    refine ⟨by simp, fun h => ⟨h, rfl⟩, fun r hr => ⟨Or.inl hr, ?_, by simp⟩⟩
    intro x hx; rw [hr] at hx; injection hx with hx; rw [hx]
  | cons k t ih =>
    intro cand c h
    rw [List.foldlM_cons] at h
    obtain ⟨c1, h1, h2⟩ := bind_ok h
    obtain ⟨hk0, hstep⟩ := cancelStep_ok h1
    obtain ⟨ih1, ih2, ih3⟩ := ih c1 c h2
    refine ⟨?_, ?_, ?_⟩
    · intro k' hk'
      rcases List.mem_cons.1 hk' with hk' | hk'
      · rw [hk']; exact hk0
      · exact ih1 k' hk'
    · intro hc
      obtain ⟨hc1, _⟩ := ih2 hc
      rcases hstep with ⟨_, h'⟩ | ⟨_, _, _, h'⟩ | ⟨_, _, _, h'⟩ <;> rw [hc1] at h' <;> cases h'
    · intro r hr
      obtain ⟨i1, i2, i3⟩ := ih3 r hr
      rcases hstep with ⟨hc0, hc1⟩ | ⟨x, hc0, hlt, hc1⟩ | ⟨x, hc0, hle, hc1⟩
      · -- cand = none, c1 = some cand_k
        have hrk := i2 _ hc1
        refine ⟨?_, (by intro x hx; rw [hc0] at hx; cases hx), ?_⟩
        · rcases i1 with i1 | ⟨k', hk', e⟩
          · right; rw [hc1] at i1; injection i1 with i1
            exact ⟨k, by simp, i1.symm⟩
          · right; exact ⟨k', List.mem_cons_of_mem _ hk', e⟩
        · intro k' hk'
          rcases List.mem_cons.1 hk' with hk' | hk'
          · rw [hk']; exact hrk
          · exact i3 k' hk'
      · have hrk := i2 _ hc1
        refine ⟨?_, ?_, ?_⟩
        · rcases i1 with i1 | ⟨k', hk', e⟩
          · right; rw [hc1] at i1; injection i1 with i1
            exact ⟨k, by simp, i1.symm⟩
          · right; exact ⟨k', List.mem_cons_of_mem _ hk', e⟩
        · intro x' hx'; rw [hc0] at hx'; injection hx' with hx'; subst hx'; omega
        · intro k' hk'
          rcases List.mem_cons.1 hk' with hk' | hk'
          · rw [hk']; exact hrk
          · exact i3 k' hk'
      · have hrx := i2 _ hc1
        refine ⟨?_, ?_, ?_⟩
        · rcases i1 with i1 | ⟨k', hk', e⟩
          · left; rw [hc0, ← hc1]; exact i1
          · right; exact ⟨k', List.mem_cons_of_mem _ hk', e⟩
        · intro x' hx'; rw [hc0] at hx'; injection hx' with hx'; subst hx'; exact hrx
        · intro k' hk'
          rcases List.mem_cons.1 hk' with hk' | hk'
          · rw [hk']; omega
          · exact i3 k' hk'

/-- `cancel`: the result is the candidate `intdiv(-ν_self, ν_rxn)` of one key of `rxn` of least absolute value
    (`inf` exactly for an empty key set); every key of `rxn` has a non-zero net coefficient, else `ZeroDivisionError`. -/
theorem cancelWith_ok {self rxn : Equil α} {ks : List String} {c : Option Int}
    (h : cancelWith self rxn ks = .ok c) :
    (∀ k ∈ ks, rxn.net k ≠ 0) ∧ (c = none ↔ ks = []) ∧
    (∀ r, c = some r → (∃ k ∈ ks, r = cancelCand self rxn k) ∧ ∀ k ∈ ks, r.natAbs ≤ (cancelCand self rxn k).natAbs) := by
  rw [cancelWith_eq] at h
  obtain ⟨h1, h2, h3⟩ := foldlM_cancel self rxn ks none c h
  refine ⟨h1, ⟨fun hc => (h2 hc).2, ?_⟩, ?_⟩
  · intro hks; subst hks
    simp only [List.foldlM_nil, pure, Except.pure] at h
    injection h with h; exact h.symm
  · intro r hr
    obtain ⟨i1, _, i3⟩ := h3 r hr
    rcases i1 with i1 | i1
    · cases i1
    · exact ⟨i1, i3⟩


/-! ### stored order -/

/-- keys in non-decreasing code-point order -/
def SortedKeys (l : Stoich) : Prop := l.Pairwise (fun x y => x.1 ≤ y.1)

theorem sorted_insertSorted (x : String × Nat) (l : Stoich) (h : SortedKeys l) : SortedKeys (insertSorted x l) := by
  induction l with
  | nil => simp [insertSorted, SortedKeys]
  | cons y t ih =>
    unfold SortedKeys at h ih ⊢
    rw [List.pairwise_cons] at h
    unfold insertSorted
    split
    · rename_i hlt
      rw [List.pairwise_cons]
      refine ⟨?_, ih h.2⟩
      intro z hz
      rcases (mem_insertSorted x z t).1 hz with hz | hz
      · rw [hz]; exact String.not_lt.1 (String.lt_asymm hlt)
      · exact h.1 z hz
    · rename_i hnlt
      have hxy : x.1 ≤ y.1 := String.not_lt.1 hnlt
      rw [List.pairwise_cons, List.pairwise_cons]
      refine ⟨?_, h.1, h.2⟩
      intro z hz
      rcases List.mem_cons.1 hz with hz | hz
      · rw [hz]; exact hxy
      · exact String.le_trans hxy (h.1 z hz)

/-- the constructor stores plain dicts sorted by key -/
theorem sorted_sortByKey (l : Stoich) : SortedKeys (sortByKey l) := by
  induction l with
  | nil => simp [sortByKey, SortedKeys]
  | cons x t ih => exact sorted_insertSorted x _ ih


/-! ### when do the operations succeed -/

theorem anyEffect_iff (e : Equil α) : e.anyEffect = true ↔ ∃ k, e.net k ≠ 0 := by
  unfold Equil.anyEffect
  rw [List.any_eq_true]
  constructor
  · rintro ⟨k, _, hk⟩; exact ⟨k, by simpa using hk⟩
  · rintro ⟨k, hk⟩
    refine ⟨k, ?_, by simpa using hk⟩
    by_contra hn
    unfold Equil.keys at hn
    simp only [List.mem_append, not_or] at hn
    apply hk
    unfold Equil.net
    rw [get_eq_zero_of_not_mem _ _ hn.1.1.1, get_eq_zero_of_not_mem _ _ hn.1.1.2,
        get_eq_zero_of_not_mem _ _ hn.1.2, get_eq_zero_of_not_mem _ _ hn.2]
    simp

theorem construct_eq (d : Bool) (reac prod ir ip : Stoich) (K : Option α) :
    construct d reac prod K ir ip =
      if (⟨initStoich d reac, initStoich d prod, initStoich d ir, initStoich d ip, K⟩ : Equil α).anyEffect
      then .ok ⟨initStoich d reac, initStoich d prod, initStoich d ir, initStoich d ip, K⟩
      else .error "ValueError" := rfl

/-- the object `__rmul__` hands to the constructor -/
def rmulResult (n : Int) (e : Equil α) (param : Option α) : Equil α :=
  if n < 0 then
    ⟨sortByKey (scale n.natAbs e.prod), sortByKey (scale n.natAbs e.reac),
     sortByKey (scale n.natAbs e.inactProd), sortByKey (scale n.natAbs e.inactReac), param⟩
  else
    ⟨sortByKey (scale n.natAbs e.reac), sortByKey (scale n.natAbs e.prod),
     sortByKey (scale n.natAbs e.inactReac), sortByKey (scale n.natAbs e.inactProd), param⟩

theorem net_rmulResult (n : Int) (e : Equil α) (param : Option α) (k : String) :
    (rmulResult n e param).net k = n * e.net k := by
  unfold rmulResult
  by_cases hn : n < 0
  · rw [if_pos hn]
    simp only [Equil.net, get_sortByKey, get_scale]
    have hm : ((n.natAbs : Nat) : Int) = -n := by omega
    simp only [Nat.cast_mul, hm]; ring
  · rw [if_neg hn]
    simp only [Equil.net, get_sortByKey, get_scale]
    have hm : ((n.natAbs : Nat) : Int) = n := by omega
    simp only [Nat.cast_mul, hm]; ring

/-- the object `__add__` hands to the constructor -/
def addResult (a b : Equil α) (param : Option α) : Equil α :=
  ⟨sortByKey (addReac a b), sortByKey (addProd a b), [], [], param⟩

theorem net_addResult (a b : Equil α) (param : Option α) (k : String) :
    (addResult a b param).net k = a.activeNet k + b.activeNet k := by
  simp only [addResult, Equil.net, get_sortByKey, get_addReac, get_addProd, get_nil]
  show _ = addN a b k
  generalize addN a b k = N
  split <;> split <;> omega

section
variable [Mul α] [Inv α] [NatCast α] [DecidableEq α]

theorem rmul_eq (n : Int) (e : Equil α) :
    rmul n e = (rmulParam n e.K >>= fun param =>
      if (rmulResult n e param).anyEffect then .ok (rmulResult n e param) else .error "ValueError") := by
  unfold rmul rmulResult
  simp only [construct_eq, initStoich, if_true]
  congr 1
  funext param
  by_cases hn : n < 0 <;> simp [hn]

theorem add_eq (a b : Equil α) :
    add a b = (addParam a.K b.K >>= fun param =>
      if (addResult a b param).anyEffect then .ok (addResult a b param) else .error "ValueError") := by
  unfold add addResult
  simp only [construct_eq, initStoich, if_true]
  rfl
end

section field
variable [Field α] [DecidableEq α]

theorem powInt_isOk (x : α) (n : Int) : (∃ p, powInt x n = .ok p) ↔ (n < 0 → x ≠ 0) := by
  unfold powInt
  by_cases hn : n < 0
  · by_cases hx : x = 0
    · simp [hn, hx]
    · simp [hn, hx]
  · simp [hn]

theorem rmulParam_isOk (n : Int) (K : Option α) :
    (∃ p, rmulParam n K = .ok p) ↔ (n < 0 → K ≠ some 0) := by
  cases K with
  | none => simp [rmulParam, pure, Except.pure]
  | some k =>
    simp only [rmulParam, ne_eq, Option.some.injEq]
    rw [← powInt_isOk k n]
    constructor
    · rintro ⟨p, hp⟩
      obtain ⟨q, hq, _⟩ := bind_ok hp
      exact ⟨q, hq⟩
    · rintro ⟨q, hq⟩
      exact ⟨some q, by rw [hq]; rfl⟩

/-- `n * e` returns an equilibrium exactly when `n ≠ 0`, `e` has a net effect, and no `0 ** negative` occurs -/
theorem rmul_isOk (n : Int) (e : Equil α) :
    (∃ r, rmul n e = .ok r) ↔ n ≠ 0 ∧ (∃ k, e.net k ≠ 0) ∧ (n < 0 → e.K ≠ some 0) := by
  constructor
  · rintro ⟨r, h⟩
    refine ⟨rmul_ne_zero h, ?_, ?_⟩
    · obtain ⟨_, _, _, hany⟩ := rmul_ok h
      obtain ⟨k, hk⟩ := (anyEffect_iff r).1 hany
      rw [net_rmul' h] at hk
      exact ⟨k, fun h0 => hk (by rw [h0]; ring)⟩
    · intro hn hK
      exact (K_rmul' h).2 0 hK hn rfl
  · rintro ⟨hn, ⟨k, hk⟩, hK⟩
    obtain ⟨p, hp⟩ := (rmulParam_isOk n e.K).2 hK
    refine ⟨rmulResult n e p, ?_⟩
    rw [rmul_eq, hp]
    show (if _ then _ else _) = _
    rw [if_pos]
    rw [anyEffect_iff]
    exact ⟨k, by rw [net_rmulResult]; exact mul_ne_zero (by exact_mod_cast hn) hk⟩

/-- `a + b` returns an equilibrium exactly when both or neither operand has a constant and the sum has a net effect -/
theorem add_isOk (a b : Equil α) :
    (∃ r, add a b = .ok r) ↔ (a.K = none ↔ b.K = none) ∧ ∃ k, a.activeNet k + b.activeNet k ≠ 0 := by
  constructor
  · rintro ⟨r, h⟩
    refine ⟨?_, ?_⟩
    · rcases K_add' h with ⟨h1, h2, _⟩ | ⟨x, y, h1, h2, _⟩
      · simp [h1, h2]
      · simp [h1, h2]
    · obtain ⟨_, _, _, hany⟩ := add_ok h
      obtain ⟨k, hk⟩ := (anyEffect_iff r).1 hany
      rw [net_add' h] at hk
      exact ⟨k, hk⟩
  · rintro ⟨hK, k, hk⟩
    have hp : ∃ p, addParam a.K b.K = .ok p := by
      cases ha : a.K with
      | none =>
        have hb := hK.1 ha
        rw [hb]; exact ⟨none, rfl⟩
      | some x =>
        cases hb : b.K with
        | none => rw [hK.2 hb] at ha; cases ha
        | some y => exact ⟨some (x * y), rfl⟩
    obtain ⟨p, hp⟩ := hp
    refine ⟨addResult a b p, ?_⟩
    rw [add_eq, hp]
    show (if _ then _ else _) = _
    rw [if_pos]
    rw [anyEffect_iff]
    exact ⟨k, by rw [net_addResult]; exact hk⟩

/-- `a - b` returns an equilibrium exactly when `-1 * b` does and the sum with it does -/
theorem sub_isOk (a b : Equil α) :
    (∃ r, sub a b = .ok r) ↔
      (∃ k, b.net k ≠ 0) ∧ b.K ≠ some 0 ∧ (a.K = none ↔ b.K = none) ∧ ∃ k, a.activeNet k - b.activeNet k ≠ 0 := by
  have key : ∀ nb, rmul (-1) b = .ok nb →
      (((a.K = none ↔ nb.K = none) ∧ ∃ k, a.activeNet k + nb.activeNet k ≠ 0) ↔
       ((a.K = none ↔ b.K = none) ∧ ∃ k, a.activeNet k - b.activeNet k ≠ 0)) := by
    intro nb h
    have hK := (K_rmul' h).1
    have hn : nb.K = none ↔ b.K = none := by rw [hK]; cases b.K <;> simp
    rw [hn]
    have : ∀ k, a.activeNet k + nb.activeNet k = a.activeNet k - b.activeNet k := by
      intro k; rw [activeNet_rmul h]; ring
    simp only [this]
  constructor
  · rintro ⟨r, h⟩
    obtain ⟨nb, h1, h2⟩ := sub_ok h
    obtain ⟨_, he, hK⟩ := (rmul_isOk (-1) b).1 ⟨nb, h1⟩
    obtain ⟨h3, h4⟩ := (key nb h1).1 ((add_isOk a nb).1 ⟨r, h2⟩)
    exact ⟨he, hK (by omega), h3, h4⟩
  · rintro ⟨he, hK, h3, h4⟩
    obtain ⟨nb, h1⟩ := (rmul_isOk (-1) b).2 ⟨by omega, he, fun _ => hK⟩
    obtain ⟨r, h2⟩ := (add_isOk a nb).2 ((key nb h1).2 ⟨h3, h4⟩)
    refine ⟨r, ?_⟩
    unfold sub
    rw [h1]; exact h2

end field

theorem terms_ne_nil (t : EqExpr α) : t.terms ≠ [] := by
  induction t with
  | leaf e => simp [EqExpr.terms]
  | scale n t ih => simpa [EqExpr.terms] using ih
  | neg t ih => simpa [EqExpr.terms] using ih
  | add a b iha _ => simp [EqExpr.terms, iha]
  | sub a b iha _ => simp [EqExpr.terms, iha]

section field
variable [Field α] [DecidableEq α]

/-- Closed-form success condition of an expression in terms of its operands only: at every scaling node the multiplier
    is non-zero, the integer combination below it is not identically zero and no operand constant is 0 under a negative
    multiplier; at every sum/difference either no operand has a constant or all have, and the combination does not
    cancel completely (for a difference also the subtrahend itself must be scalable by −1). -/
def EqExpr.Okay : EqExpr α → Prop
  | .leaf _ => True
  | .scale n t => t.Okay ∧ n ≠ 0 ∧ (∃ k, netSum t.terms k ≠ 0) ∧ (n < 0 → ∀ p ∈ t.terms, p.1.K ≠ some 0)
  | .neg t => t.Okay ∧ (∃ k, netSum t.terms k ≠ 0) ∧ (∀ p ∈ t.terms, p.1.K ≠ some 0)
  | .add a b => a.Okay ∧ b.Okay ∧ ((AllNone a.terms ∧ AllNone b.terms) ∨ (AllSome a.terms ∧ AllSome b.terms)) ∧
      ∃ k, netSum a.terms k + netSum b.terms k ≠ 0
  | .sub a b => a.Okay ∧ b.Okay ∧ (∃ k, netSum b.terms k ≠ 0) ∧ (∀ p ∈ b.terms, p.1.K ≠ some 0) ∧
      ((AllNone a.terms ∧ AllNone b.terms) ∨ (AllSome a.terms ∧ AllSome b.terms)) ∧
      ∃ k, netSum a.terms k - netSum b.terms k ≠ 0

theorem okay_exp_ne_zero (t : EqExpr α) (h : t.Okay) : ∀ p ∈ t.terms, p.2 ≠ 0 := by
  induction t with
  | leaf e => intro p hp; simp [EqExpr.terms] at hp; rw [hp]; simp
  | scale n t ih =>
    intro p hp
    obtain ⟨q, hq, rfl⟩ := List.mem_map.1 hp
    exact mul_ne_zero h.2.1 (ih h.1 q hq)
  | neg t ih =>
    intro p hp
    obtain ⟨q, hq, rfl⟩ := List.mem_map.1 hp
    exact mul_ne_zero (by omega) (ih h.1 q hq)
  | add a b iha ihb =>
    intro p hp
    rcases List.mem_append.1 hp with hp | hp
    · exact iha h.1 p hp
    · exact ihb h.2.1 p hp
  | sub a b iha ihb =>
    intro p hp
    rcases List.mem_append.1 hp with hp | hp
    · exact iha h.1 p hp
    · obtain ⟨q, hq, rfl⟩ := List.mem_map.1 hp
      exact mul_ne_zero (by omega) (ihb h.2.1 q hq)

theorem Kprod_ne_zero (l : List (Equil α × Int)) (hexp : ∀ p ∈ l, p.2 ≠ 0) :
    Kprod l ≠ 0 ↔ ∀ p ∈ l, Kof p.1 ≠ 0 := by
  induction l with
  | nil => simp [Kprod]
  | cons x t ih =>
    have ih' := ih (fun p hp => hexp p (List.mem_cons_of_mem _ hp))
    simp only [Kprod, List.map_cons, List.prod_cons] at ih' ⊢
    rw [mul_ne_zero_iff, ih', List.forall_mem_cons]
    have : Kof x.1 ^ x.2 ≠ 0 ↔ Kof x.1 ≠ 0 := by
      rw [ne_eq, ne_eq, zpow_eq_zero_iff (hexp x (by simp))]
    rw [this]

/-- the constant of a result is not 0 iff no operand constant is 0 -/
theorem combo_K_ne_zero {l : List (Equil α × Int)} {x : Equil α} (hx : ComboSpec l x)
    (hexp : ∀ p ∈ l, p.2 ≠ 0) : x.K ≠ some 0 ↔ ∀ p ∈ l, p.1.K ≠ some 0 := by
  rcases hx.const with ⟨h1, h2⟩ | ⟨h1, h2⟩
  · rw [h2]
    constructor
    · intro _ p hp; rw [h1 p hp]; simp
    · intro _; simp
  · rw [h2]
    have : (some (Kprod l) ≠ some (0 : α)) ↔ Kprod l ≠ 0 := by simp
    rw [this, Kprod_ne_zero l hexp]
    constructor
    · intro h p hp hK
      apply h p hp
      simp [Kof, hK]
    · intro h p hp hK
      have hs := h1 p hp
      cases hk : p.1.K with
      | none => exact hs hk
      | some k =>
        simp only [Kof, hk] at hK
        exact h p hp (by rw [hk, hK])

theorem combo_K_none {l : List (Equil α × Int)} {x : Equil α} (hx : ComboSpec l x) (hl : l ≠ []) :
    (x.K = none ↔ AllNone l) ∧ (x.K ≠ none ↔ AllSome l) := by
  obtain ⟨p, hp⟩ := List.exists_mem_of_ne_nil l hl
  rcases hx.const with ⟨h1, h2⟩ | ⟨h1, h2⟩
  · refine ⟨⟨fun _ => h1, fun _ => h2⟩, ⟨fun h => absurd h2 h, fun h => absurd (h1 p hp) (h p hp)⟩⟩
  · refine ⟨⟨fun h => (by rw [h2] at h; cases h), fun h => absurd (h p hp) (h1 p hp)⟩, ⟨fun _ => h1, fun _ => by rw [h2]; simp⟩⟩

theorem kagree_iff {l₁ l₂ : List (Equil α × Int)} {x y : Equil α} (hx : ComboSpec l₁ x) (hy : ComboSpec l₂ y)
    (h1 : l₁ ≠ []) (h2 : l₂ ≠ []) :
    (x.K = none ↔ y.K = none) ↔ ((AllNone l₁ ∧ AllNone l₂) ∨ (AllSome l₁ ∧ AllSome l₂)) := by
  have a := combo_K_none hx h1
  have b := combo_K_none hy h2
  constructor
  · intro h
    by_cases hxn : x.K = none
    · exact Or.inl ⟨a.1.1 hxn, b.1.1 (h.1 hxn)⟩
    · exact Or.inr ⟨a.2.1 hxn, b.2.1 (fun hy' => hxn (h.2 hy'))⟩
  · rintro (⟨p, q⟩ | ⟨p, q⟩)
    · exact ⟨fun _ => b.1.2 q, fun _ => a.1.2 p⟩
    · exact ⟨fun h => absurd h (a.2.2 p), fun h => absurd h (b.2.2 q)⟩

theorem AllNone_scale {l : List (Equil α × Int)} (n : Int) :
    AllNone (l.map (fun p => (p.1, n * p.2))) ↔ AllNone l := by
  unfold AllNone
  constructor
  · intro h p hp; exact h (p.1, n * p.2) (List.mem_map.2 ⟨p, hp, rfl⟩)
  · intro h p hp; obtain ⟨q, hq, rfl⟩ := List.mem_map.1 hp; exact h q hq

theorem AllSome_scale {l : List (Equil α × Int)} (n : Int) :
    AllSome (l.map (fun p => (p.1, n * p.2))) ↔ AllSome l := by
  unfold AllSome
  constructor
  · intro h p hp; exact h (p.1, n * p.2) (List.mem_map.2 ⟨p, hp, rfl⟩)
  · intro h p hp; obtain ⟨q, hq, rfl⟩ := List.mem_map.1 hp; exact h q hq

/-- evaluation of an expression over operands without inactive parts succeeds exactly under the closed-form condition -/
theorem eval_isOk (t : EqExpr α) : (∀ p ∈ t.terms, p.1.NoInact) → ((∃ r, t.eval = .ok r) ↔ t.Okay) := by
  induction t with
  | leaf e => intro _; simp [EqExpr.eval, EqExpr.Okay]
  | scale n t ih =>
    intro hl
    have hl' : ∀ p ∈ t.terms, p.1.NoInact := fun p hp => hl (p.1, n * p.2) (List.mem_map.2 ⟨p, hp, rfl⟩)
    constructor
    · rintro ⟨r, h⟩
      simp only [EqExpr.eval] at h
      obtain ⟨x, hx, hr⟩ := bind_ok h
      have hok := (ih hl').1 ⟨x, hx⟩
      have hc := combo_eval t x hx hl'
      obtain ⟨hn, ⟨k, hk⟩, hK⟩ := (rmul_isOk n x).1 ⟨r, hr⟩
      refine ⟨hok, hn, ⟨k, by rw [← hc.net]; exact hk⟩, fun hneg => (combo_K_ne_zero hc (okay_exp_ne_zero t hok)).1 (hK hneg)⟩
    · rintro ⟨hok, hn, ⟨k, hk⟩, hK⟩
      obtain ⟨x, hx⟩ := (ih hl').2 hok
      have hc := combo_eval t x hx hl'
      obtain ⟨r, hr⟩ := (rmul_isOk n x).2 ⟨hn, ⟨k, by rw [hc.net]; exact hk⟩,
        fun hneg => (combo_K_ne_zero hc (okay_exp_ne_zero t hok)).2 (hK hneg)⟩
      exact ⟨r, by simp only [EqExpr.eval]; rw [hx]; exact hr⟩
  | neg t ih =>
    intro hl
    have hl' : ∀ p ∈ t.terms, p.1.NoInact := fun p hp => hl (p.1, -1 * p.2) (List.mem_map.2 ⟨p, hp, rfl⟩)
    constructor
    · rintro ⟨r, h⟩
      simp only [EqExpr.eval] at h
      obtain ⟨x, hx, hr⟩ := bind_ok h
      have hok := (ih hl').1 ⟨x, hx⟩
      have hc := combo_eval t x hx hl'
      obtain ⟨_, ⟨k, hk⟩, hK⟩ := (rmul_isOk (-1) x).1 ⟨r, hr⟩
      exact ⟨hok, ⟨k, by rw [← hc.net]; exact hk⟩, (combo_K_ne_zero hc (okay_exp_ne_zero t hok)).1 (hK (by omega))⟩
    · rintro ⟨hok, ⟨k, hk⟩, hK⟩
      obtain ⟨x, hx⟩ := (ih hl').2 hok
      have hc := combo_eval t x hx hl'
      obtain ⟨r, hr⟩ := (rmul_isOk (-1) x).2 ⟨by omega, ⟨k, by rw [hc.net]; exact hk⟩,
        fun _ => (combo_K_ne_zero hc (okay_exp_ne_zero t hok)).2 hK⟩
      exact ⟨r, by simp only [EqExpr.eval]; rw [hx]; exact hr⟩
  | add a b iha ihb =>
    intro hl
    simp only [EqExpr.terms, List.mem_append] at hl
    have hla : ∀ p ∈ a.terms, p.1.NoInact := fun p hp => hl p (Or.inl hp)
    have hlb : ∀ p ∈ b.terms, p.1.NoInact := fun p hp => hl p (Or.inr hp)
    constructor
    · rintro ⟨r, h⟩
      simp only [EqExpr.eval] at h
      obtain ⟨x, hx, h⟩ := bind_ok h
      obtain ⟨y, hy, hr⟩ := bind_ok h
      have hca := combo_eval a x hx hla
      have hcb := combo_eval b y hy hlb
      obtain ⟨hK, k, hk⟩ := (add_isOk x y).1 ⟨r, hr⟩
      refine ⟨(iha hla).1 ⟨x, hx⟩, (ihb hlb).1 ⟨y, hy⟩,
        (kagree_iff hca hcb (terms_ne_nil a) (terms_ne_nil b)).1 hK, k, ?_⟩
      rw [← hca.net, ← hcb.net, net_eq_activeNet hca.noInact, net_eq_activeNet hcb.noInact]; exact hk
    · rintro ⟨hoa, hob, hK, k, hk⟩
      obtain ⟨x, hx⟩ := (iha hla).2 hoa
      obtain ⟨y, hy⟩ := (ihb hlb).2 hob
      have hca := combo_eval a x hx hla
      have hcb := combo_eval b y hy hlb
      obtain ⟨r, hr⟩ := (add_isOk x y).2 ⟨(kagree_iff hca hcb (terms_ne_nil a) (terms_ne_nil b)).2 hK, k, by
        rw [← net_eq_activeNet hca.noInact, ← net_eq_activeNet hcb.noInact, hca.net, hcb.net]; exact hk⟩
      exact ⟨r, by simp only [EqExpr.eval]; rw [hx, hy]; exact hr⟩
  | sub a b iha ihb =>
    intro hl
    simp only [EqExpr.terms, List.mem_append] at hl
    have hla : ∀ p ∈ a.terms, p.1.NoInact := fun p hp => hl p (Or.inl hp)
    have hlb : ∀ p ∈ b.terms, p.1.NoInact := fun p hp => hl (p.1, -1 * p.2) (Or.inr (List.mem_map.2 ⟨p, hp, rfl⟩))
    constructor
    · rintro ⟨r, h⟩
      simp only [EqExpr.eval] at h
      obtain ⟨x, hx, h⟩ := bind_ok h
      obtain ⟨y, hy, hr⟩ := bind_ok h
      have hca := combo_eval a x hx hla
      have hcb := combo_eval b y hy hlb
      have hob := (ihb hlb).1 ⟨y, hy⟩
      obtain ⟨⟨k₁, hk₁⟩, hK0, hK, k, hk⟩ := (sub_isOk x y).1 ⟨r, hr⟩
      refine ⟨(iha hla).1 ⟨x, hx⟩, hob, ⟨k₁, by rw [← hcb.net]; exact hk₁⟩,
        (combo_K_ne_zero hcb (okay_exp_ne_zero b hob)).1 hK0,
        (kagree_iff hca hcb (terms_ne_nil a) (terms_ne_nil b)).1 hK, k, ?_⟩
      rw [← hca.net, ← hcb.net, net_eq_activeNet hca.noInact, net_eq_activeNet hcb.noInact]; exact hk
    · rintro ⟨hoa, hob, ⟨k₁, hk₁⟩, hK0, hK, k, hk⟩
      obtain ⟨x, hx⟩ := (iha hla).2 hoa
      obtain ⟨y, hy⟩ := (ihb hlb).2 hob
      have hca := combo_eval a x hx hla
      have hcb := combo_eval b y hy hlb
      obtain ⟨r, hr⟩ := (sub_isOk x y).2 ⟨⟨k₁, by rw [hcb.net]; exact hk₁⟩,
        (combo_K_ne_zero hcb (okay_exp_ne_zero b hob)).2 hK0,
        (kagree_iff hca hcb (terms_ne_nil a) (terms_ne_nil b)).2 hK, k, by
        rw [← net_eq_activeNet hca.noInact, ← net_eq_activeNet hcb.noInact, hca.net, hcb.net]; exact hk⟩
      exact ⟨r, by simp only [EqExpr.eval]; rw [hx, hy]; exact hr⟩

end field

/-! ### positivity in the presence of zero coefficients -/

/-- the operand an expression consists of when it only scales/negates it (`none` once a sum or difference occurs) -/
def EqExpr.core : EqExpr α → Option (Equil α)
  | .leaf e => some e
  | .scale _ t => t.core
  | .neg t => t.core
  | .add _ _ => none
  | .sub _ _ => none

section
variable [Mul α] [Inv α] [NatCast α] [DecidableEq α]

/-- scaling neither creates nor removes zero coefficients -/
theorem rmul_positive_iff {n : Int} {e r : Equil α} (h : rmul n e = .ok r) : r.Positive ↔ e.Positive := by
  refine ⟨?_, rmul_positive h⟩
  intro hp
  have hm : 0 < n.natAbs := by have := rmul_ne_zero h; omega
  obtain ⟨param, _, hr, _⟩ := rmul_ok h
  have key : ∀ l : Stoich, (∀ kv ∈ sortByKey (scale n.natAbs l), 0 < kv.2) → ∀ kv ∈ l, 0 < kv.2 := by
    intro l hl kv hkv
    have := hl (kv.1, kv.2 * n.natAbs) ((mem_sortByKey _ _).2 (mem_scale.2 ⟨kv, hkv, rfl⟩))
    exact Nat.pos_of_mul_pos_right this
  unfold Equil.Positive at hp ⊢
  simp only [List.mem_append] at hp ⊢
  by_cases hn : n < 0
  · rw [if_pos hn] at hr; subst hr
    rintro kv (((h1 | h1) | h1) | h1)
    · exact key _ (fun x hx => hp x (Or.inl (Or.inl (Or.inr hx)))) kv h1
    · exact key _ (fun x hx => hp x (Or.inl (Or.inl (Or.inl hx)))) kv h1
    · exact key _ (fun x hx => hp x (Or.inr hx)) kv h1
    · exact key _ (fun x hx => hp x (Or.inl (Or.inr hx))) kv h1
  · rw [if_neg hn] at hr; subst hr
    rintro kv (((h1 | h1) | h1) | h1)
    · exact key _ (fun x hx => hp x (Or.inl (Or.inl (Or.inl hx)))) kv h1
    · exact key _ (fun x hx => hp x (Or.inl (Or.inl (Or.inr hx)))) kv h1
    · exact key _ (fun x hx => hp x (Or.inl (Or.inr hx))) kv h1
    · exact key _ (fun x hx => hp x (Or.inr hx)) kv h1

/-- a listed zero coefficient of the operand is still listed (with 0) after scaling, on the side the operand's side became -/
theorem rmul_keeps_zero {n : Int} {e r : Equil α} (h : rmul n e = .ok r) (k : String) :
    ((k, 0) ∈ e.reac → (k, 0) ∈ (if n < 0 then r.prod else r.reac)) ∧
    ((k, 0) ∈ e.prod → (k, 0) ∈ (if n < 0 then r.reac else r.prod)) := by
  obtain ⟨param, _, hr, _⟩ := rmul_ok h
  have key : ∀ l : Stoich, (k, 0) ∈ l → (k, 0) ∈ sortByKey (scale n.natAbs l) := by
    intro l hl
    exact (mem_sortByKey _ _).2 (mem_scale.2 ⟨(k, 0), hl, by simp⟩)
  by_cases hn : n < 0
  · rw [if_pos hn] at hr; subst hr; simp only [hn, if_true]; exact ⟨key _, key _⟩
  · rw [if_neg hn] at hr; subst hr; simp only [hn, if_false]; exact ⟨key _, key _⟩

/-- positivity of the result of ANY expression: unconditional as soon as a sum or difference occurs in it
    (the last sum nets, later scalings keep positivity); otherwise the expression is a scaled operand and the result is
    positive exactly when that operand is (zero coefficients, which the constructor accepts, stay listed). -/
theorem positive_eval_iff (t : EqExpr α) : ∀ r, t.eval = .ok r →
    (r.Positive ↔ match t.core with | none => True | some e => e.Positive) := by
  induction t with
  | leaf e =>
    intro r h
    simp only [EqExpr.eval] at h
    injection h with h; subst h
    simp [EqExpr.core]
  | scale n t ih =>
    intro r h
    simp only [EqExpr.eval] at h
    obtain ⟨x, hx, hr⟩ := bind_ok h
    rw [rmul_positive_iff hr]
    exact ih x hx
  | neg t ih =>
    intro r h
    simp only [EqExpr.eval] at h
    obtain ⟨x, hx, hr⟩ := bind_ok h
    rw [rmul_positive_iff hr]
    exact ih x hx
  | add a b _ _ =>
    intro r h
    simp only [EqExpr.eval] at h
    obtain ⟨x, _, h⟩ := bind_ok h
    obtain ⟨y, _, hr⟩ := bind_ok h
    simp only [EqExpr.core, iff_true]
    exact (netted_add hr).positive
  | sub a b _ _ =>
    intro r h
    simp only [EqExpr.eval] at h
    obtain ⟨x, _, h⟩ := bind_ok h
    obtain ⟨y, _, hr⟩ := bind_ok h
    obtain ⟨ny, _, hr⟩ := sub_ok hr
    simp only [EqExpr.core, iff_true]
    exact (netted_add hr).positive

/-! ### histories that re-use objects are expression trees -/

theorem refAt_map (exprs : List (EqExpr α)) (i : Nat) (a : EqExpr α) (h : exprs[i]? = some a) :
    refAt (exprs.map EqExpr.eval) i = a.eval := by
  unfold refAt
  rw [List.getElem?_map, h]
  rfl

theorem runStep_unfold (exprs : List (EqExpr α)) (s : Step) (t : EqExpr α) (h : unfoldStep exprs s = some t) :
    runStep (exprs.map EqExpr.eval) s = t.eval := by
  cases s with
  | scale n i =>
    simp only [unfoldStep, Option.map_eq_some_iff] at h
    obtain ⟨a, ha, rfl⟩ := h
    simp only [runStep, EqExpr.eval, refAt_map exprs i a ha]
  | neg i =>
    simp only [unfoldStep, Option.map_eq_some_iff] at h
    obtain ⟨a, ha, rfl⟩ := h
    simp only [runStep, EqExpr.eval, refAt_map exprs i a ha]
  | add i j =>
    simp only [unfoldStep] at h
    split at h
    · rename_i a b ha hb
      injection h with h; subst h
      simp only [runStep, EqExpr.eval, refAt_map exprs i a ha, refAt_map exprs j b hb]
    · cases h
  | sub i j =>
    simp only [unfoldStep] at h
    split at h
    · rename_i a b ha hb
      injection h with h; subst h
      simp only [runStep, EqExpr.eval, refAt_map exprs i a ha, refAt_map exprs j b hb]
    · cases h

/-- running a history over shared objects gives, for every statement, exactly the value of the expression tree the
    statement denotes: in the model an object never changes, however often it is used. -/
theorem runHistory_unfold (steps : List Step) : ∀ (exprs ts : List (EqExpr α)),
    unfoldHistory exprs steps = some ts → runHistory (exprs.map EqExpr.eval) steps = ts.map EqExpr.eval := by
  induction steps with
  | nil =>
    intro exprs ts h
    simp only [unfoldHistory] at h
    injection h with h; subst h
    rfl
  | cons s rest ih =>
    intro exprs ts h
    simp only [unfoldHistory] at h
    split at h
    · rename_i e he
      have := ih (exprs ++ [e]) ts h
      simp only [runHistory]
      rw [runStep_unfold exprs s e he]
      simpa using this
    · cases h

end

/-- grouping occurrences of one operand: `K^n * K^m = K^(n+m)` holds for `K ≠ 0` (Mathlib's `zpow_add₀`; it fails for
    `K = 0`, `n = -m ≠ 0`) — the only place where an operand constant has to be non-zero -/
theorem Kpow_group {α : Type} [Field α] (K : α) (hK : K ≠ 0) (n m : Int) : K ^ n * K ^ m = K ^ (n + m) :=
  (zpow_add₀ hK n m).symm

/-! ### the constructor -/

theorem getI_cons (a : String) (b : Int) (t : List (String × Int)) (k : String) :
    getI ((a, b) :: t) k = if k = a then b else getI t k := by
  unfold getI
  rw [List.lookup_cons]
  by_cases h : k = a
  · subst h; simp
  · have : (k == a) = false := by simpa using h
    simp [this, h]

/-- the stored naturals are the given coefficients when none is negative -/
theorem get_nat (l : List (String × Int)) (k : String) (h : ∀ kv ∈ l, 0 ≤ kv.2) :
    ((get (l.map (fun kv => (kv.1, kv.2.toNat))) k : Nat) : Int) = getI l k := by
  induction l with
  | nil => rfl
  | cons x t ih =>
    obtain ⟨a, b⟩ := x
    have hb : 0 ≤ b := h (a, b) (by simp)
    have ih' := ih (fun kv hkv => h kv (List.mem_cons_of_mem _ hkv))
    simp only [List.map_cons]
    rw [get_cons, getI_cons]
    by_cases hk : k = a
    · simp only [hk, if_true]; omega
    · simp only [hk, if_false]; exact ih'

theorem rawAllPositive_iff (r p ir ip : List (String × Int)) :
    rawAllPositive r p ir ip = true ↔ ∀ kv ∈ r ++ p ++ ir ++ ip, 0 ≤ kv.2 := by
  unfold rawAllPositive
  simp only [List.all_eq_true, decide_eq_true_eq]

/-- `Equilibrium(reac, prod, K, inact_reac, inact_prod)` with the default checks returns an object **iff** no coefficient
    is negative and some species has a non-zero net coefficient; the object then lists exactly the given coefficients. -/
theorem mkEqChecks_default (d : Bool) (r p ir ip : List (String × Int)) (K : Option α) :
    (∃ e, mkEqChecks d r p ir ip K none none = .ok e) ↔
      (∀ kv ∈ r ++ p ++ ir ++ ip, 0 ≤ kv.2) ∧ ∃ k, getI p k - getI r k + getI ip k - getI ir k ≠ 0 := by
  have hnames : symmDiff defaultChecks [] = defaultChecks := by decide
  unfold mkEqChecks
  simp only [Option.isSome_none, Bool.and_self, Bool.false_eq_true, if_false, hnames]
  have h1 : (defaultChecks.any fun c => !defaultChecks.contains c) = false := by decide
  have h2 : defaultChecks.contains "all_positive" = true := by decide
  have h3 : defaultChecks.contains "any_effect" = true := by decide
  simp only [h1, h2, h3, Bool.true_and, Bool.false_eq_true, if_false]
  by_cases hpos : rawAllPositive r p ir ip = true
  · have hall := (rawAllPositive_iff r p ir ip).1 hpos
    simp only [hpos, Bool.not_true, Bool.false_eq_true, if_false]
    have hr : ∀ kv ∈ r, 0 ≤ kv.2 := fun kv h => hall kv (by simp [h])
    have hp : ∀ kv ∈ p, 0 ≤ kv.2 := fun kv h => hall kv (by simp [h])
    have hir : ∀ kv ∈ ir, 0 ≤ kv.2 := fun kv h => hall kv (by simp [h])
    have hip : ∀ kv ∈ ip, 0 ≤ kv.2 := fun kv h => hall kv (by simp [h])
    have hnet : ∀ k, (⟨initStoich d (r.map fun kv => (kv.1, kv.2.toNat)), initStoich d (p.map fun kv => (kv.1, kv.2.toNat)),
        initStoich d (ir.map fun kv => (kv.1, kv.2.toNat)), initStoich d (ip.map fun kv => (kv.1, kv.2.toNat)), K⟩ : Equil α).net k
        = getI p k - getI r k + getI ip k - getI ir k := by
      intro k
      simp only [Equil.net, get_initStoich, get_nat _ k hr, get_nat _ k hp, get_nat _ k hir, get_nat _ k hip]
    constructor
    · rintro ⟨e, he⟩
      refine ⟨hall, ?_⟩
      split at he
      · cases he
      · rename_i hany
        have hany' := (anyEffect_iff _).1 (by simpa using hany)
        obtain ⟨k, hk⟩ := hany'
        exact ⟨k, by rw [← hnet k]; exact hk⟩
    · rintro ⟨_, k, hk⟩
      have : (⟨initStoich d (r.map fun kv => (kv.1, kv.2.toNat)), initStoich d (p.map fun kv => (kv.1, kv.2.toNat)),
        initStoich d (ir.map fun kv => (kv.1, kv.2.toNat)), initStoich d (ip.map fun kv => (kv.1, kv.2.toNat)), K⟩ : Equil α).anyEffect = true :=
        (anyEffect_iff _).2 ⟨k, by rw [hnet k]; exact hk⟩
      simp only [this, Bool.not_true, Bool.false_eq_true, if_false]
      exact ⟨_, rfl⟩
  · have hneg : rawAllPositive r p ir ip = false := by simpa using hpos
    simp only [hneg, Bool.not_false, if_true]
    constructor
    · rintro ⟨e, he⟩; cases he
    · rintro ⟨hall, _⟩
      exact absurd ((rawAllPositive_iff r p ir ip).2 hall) hpos

section field
variable [Field α] [DecidableEq α]

/-- scaling as Python dispatches it returns an equilibrium **iff** the multiplier is an integer `n ≠ 0`, the operand has a net
    effect and no `0 ** negative` is needed; every multiplier that is not an integer is refused (`TypeError`) -/
theorem rmulPy_isOk (m : Option Int) (e : Equil α) :
    (∃ r, rmulPy m e = .ok r) ↔ ∃ n, m = some n ∧ n ≠ 0 ∧ (∃ k, e.net k ≠ 0) ∧ (n < 0 → e.K ≠ some 0) := by
  cases m with
  | none => simp [rmulPy]
  | some n =>
    simp only [rmulPy, Option.some.injEq, exists_eq_left']
    exact rmul_isOk n e

end field

/-! ### eliminate for any number of equilibria; success of eliminate and cancel -/

theorem divAll_eq (R : Int) (vs : List Int) (h : ∀ v ∈ vs, v ≠ 0) : divAll R vs = .ok (vs.map (Int.fdiv R)) := by
  induction vs with
  | nil => rfl
  | cons v t ih =>
    have hv : v ≠ 0 := h v (by simp)
    simp only [divAll, hv, if_false, ih (fun x hx => h x (List.mem_cons_of_mem _ hx)), List.map_cons]
    rfl

theorem divAll_isOk (R : Int) (vs : List Int) : (∃ ms, divAll R vs = .ok ms) ↔ ∀ v ∈ vs, v ≠ 0 := by
  constructor
  · induction vs with
    | nil => intro _ v hv; cases hv
    | cons v t ih =>
      rintro ⟨ms, h⟩ x hx
      simp only [divAll] at h
      split at h
      · cases h
      · rename_i hv
        obtain ⟨r, hr, _⟩ := bind_ok h
        rcases List.mem_cons.1 hx with hx | hx
        · rw [hx]; exact hv
        · exact ih ⟨r, hr⟩ x hx
  · intro h; exact ⟨_, divAll_eq R vs h⟩

/-- `eliminate` returns multipliers **iff** it is given at least one equilibrium and every one has a non-zero net
    coefficient of the species (else `IndexError` / `ZeroDivisionError`) -/
theorem eliminate_isOk (rs : List (Equil α)) (wrt : String) :
    (∃ ms, eliminate rs wrt = .ok ms) ↔ rs ≠ [] ∧ ∀ e ∈ rs, e.net wrt ≠ 0 := by
  cases rs with
  | nil => simp [eliminate]
  | cons e0 es =>
    simp only [eliminate, List.map_cons, ne_eq, reduceCtorEq, not_false_eq_true, true_and]
    rw [divAll_isOk]
    simp only [List.mem_cons, List.mem_map, forall_eq_or_imp]
    constructor
    · rintro ⟨h0, h⟩
      refine ⟨by omega, fun e he => h _ ⟨e, he, rfl⟩⟩
    · rintro ⟨h0, h⟩
      refine ⟨by omega, ?_⟩
      rintro v ⟨e, he, rfl⟩
      exact h e he

/-- For ANY number of equilibria with non-zero net coefficients `νᵢ` of `wrt`: `eliminate` returns one non-zero integer per
    equilibrium, and the first one combined with any other removes the species: `m₀·ν₀ + mᵢ·νᵢ = 0`. -/
theorem eliminate_many (e0 : Equil α) (es : List (Equil α)) (wrt : String)
    (h0 : e0.net wrt ≠ 0) (h : ∀ e ∈ es, e.net wrt ≠ 0) :
    ∃ (m0 : Int) (ms : List Int), eliminate (e0 :: es) wrt = .ok (m0 :: ms) ∧ m0 ≠ 0 ∧
      List.Forall₂ (fun m e => m ≠ 0 ∧ m0 * e0.net wrt + m * e.net wrt = 0) ms es := by
  have hR0 : 0 < rcdOf (factorsOf (e0.net wrt :: es.map (fun r => r.net wrt))) := rcdOf_pos _ (factorsOf_keys_pos _)
  have hd0 : e0.net wrt ∣ ((rcdOf (factorsOf (e0.net wrt :: es.map (fun r => r.net wrt))) : Nat) : Int) :=
    int_dvd_rcd _ _ (by simp) h0
  have hd : ∀ e ∈ es, e.net wrt ∣ ((rcdOf (factorsOf (e0.net wrt :: es.map (fun r => r.net wrt))) : Nat) : Int) := by
    intro e he
    exact int_dvd_rcd _ _ (List.mem_cons_of_mem _ (List.mem_map.2 ⟨e, he, rfl⟩)) (h e he)
  generalize hR : ((rcdOf (factorsOf (e0.net wrt :: es.map (fun r => r.net wrt))) : Nat) : Int) = R at *
  have hRpos : 0 < R := by rw [← hR]; exact_mod_cast hR0
  have hn0 : e0.net wrt * -1 ≠ 0 := by omega
  have hd0' : (e0.net wrt * -1) ∣ R := by
    obtain ⟨c, hc⟩ := hd0
    exact ⟨-c, by rw [hc]; ring⟩
  have e0' := Int.fdiv_mul_cancel hd0'
  have e3 : Int.fdiv R (e0.net wrt * -1) * e0.net wrt = -R := by
    have : Int.fdiv R (e0.net wrt * -1) * (e0.net wrt * -1) = -(Int.fdiv R (e0.net wrt * -1) * e0.net wrt) := by ring
    omega
  refine ⟨Int.fdiv R (e0.net wrt * -1), es.map (fun e => Int.fdiv R (e.net wrt)), ?_, ?_, ?_⟩
  · have hall : ∀ v ∈ (e0.net wrt * -1) :: es.map (fun r => r.net wrt), v ≠ 0 := by
      intro v hv
      rcases List.mem_cons.1 hv with hv | hv
      · rw [hv]; exact hn0
      · obtain ⟨e, he, rfl⟩ := List.mem_map.1 hv; exact h e he
    unfold eliminate
    simp only [List.map_cons, hR]
    rw [divAll_eq R _ hall]
    simp [List.map_map, Function.comp_def]
  · intro hz; rw [hz] at e0'; omega
  · clear hR hR0
    induction es with
    | nil => exact List.Forall₂.nil
    | cons e t ih =>
      simp only [List.map_cons]
      refine List.Forall₂.cons ?_ (ih (fun x hx => h x (List.mem_cons_of_mem _ hx)) (fun x hx => hd x (List.mem_cons_of_mem _ hx)))
      have he := Int.fdiv_mul_cancel (hd e (by simp))
      refine ⟨?_, by omega⟩
      intro hz; rw [hz] at he; omega

/-- `cancel` returns a value **iff** every species of `rxn` has a non-zero net coefficient in `rxn` (else `ZeroDivisionError`) -/
theorem cancelWith_isOk (self rxn : Equil α) (ks : List String) :
    (∃ c, cancelWith self rxn ks = .ok c) ↔ ∀ k ∈ ks, rxn.net k ≠ 0 := by
  constructor
  · rintro ⟨c, h⟩; exact (cancelWith_ok h).1
  · intro h
    rw [cancelWith_eq]
    suffices hs : ∀ (ks : List String) (cand : Option Int), (∀ k ∈ ks, rxn.net k ≠ 0) →
        ∃ c, ks.foldlM (cancelStep self rxn) cand = .ok c from hs ks none h
    intro ks
    induction ks with
    | nil => intro cand _; exact ⟨cand, rfl⟩
    | cons k t ih =>
      intro cand hk
      have hk0 : rxn.net k ≠ 0 := hk k (by simp)
      have hstep : ∃ c1, cancelStep self rxn cand k = .ok c1 := by
        unfold cancelStep intdivPy
        simp only [hk0, if_false]
        cases cand with
        | none => exact ⟨_, rfl⟩
        | some x =>
          simp only
          split <;> exact ⟨_, rfl⟩
      obtain ⟨c1, hc1⟩ := hstep
      obtain ⟨c, hc⟩ := ih c1 (fun x hx => hk x (List.mem_cons_of_mem _ hx))
      exact ⟨c, by rw [List.foldlM_cons, hc1]; exact hc⟩


/-! ### success of as_reactions -/

section field
variable [Field α] [DecidableEq α]

/-- `nb − nf` of `as_reactions` -/
def deltaN (e : Equil α) : Int := ((sumVals e.prod : Nat) : Int) - ((sumVals e.reac : Nat) : Int)

theorem powInt_cases (x : α) (n : Int) :
    ((n < 0 → x ≠ 0) ∧ powInt x n = .ok (x ^ n)) ∨ (¬ (n < 0 → x ≠ 0) ∧ powInt x n = .error "ZeroDivisionError") := by
  by_cases h : n < 0 → x ≠ 0
  · left
    obtain ⟨p, hp⟩ := (powInt_isOk x n).2 h
    exact ⟨h, by rw [hp, (powInt_ok hp).1]⟩
  · right
    refine ⟨h, ?_⟩
    have hn : n < 0 := by by_contra hc; exact h (fun h' => absurd h' hc)
    have hx : x = 0 := by by_contra hc; exact h (fun _ => hc)
    unfold powInt
    simp [hn, hx]

/-- `as_reactions` returns the pair **iff** exactly one of `kf`, `kb` is given, the equilibrium has a constant `K`,
    `c0 ** (nb − nf)` is defined (`c0 ≠ 0` for a negative exponent), the divisor `K · c0^(nb−nf)` is non-zero when `kf` is the
    given one, and the equilibrium has a net effect (the two `Reaction` constructors' check). -/
theorem asReactions_isOk (e : Equil α) (kf kb : Option α) (c0 : α) :
    (∃ p, asReactions e kf kb c0 = .ok p) ↔
      (kf.isSome = !kb.isSome) ∧
      (∃ K, e.K = some K ∧ (deltaN e < 0 → c0 ≠ 0) ∧ (kf.isSome = true → K * c0 ^ deltaN e ≠ 0)) ∧
      ∃ k, e.net k ≠ 0 := by
  have hany : e.anyEffect = true ↔ ∃ k, e.net k ≠ 0 := anyEffect_iff e
  unfold asReactions deltaN
  simp only []
  generalize ((sumVals e.prod : Nat) : Int) - ((sumVals e.reac : Nat) : Int) = d
  cases kf with
  | none =>
    cases kb with
    | none => simp [bind, Except.bind]
    | some b =>
      cases hK : e.K with
      | none => simp [bind, Except.bind]
      | some K =>
        rcases powInt_cases c0 d with ⟨h1, h2⟩ | ⟨h1, h2⟩
        · simp only [h2, bind, Except.bind, pure, Except.pure]
          by_cases ha : e.anyEffect = true
          · simp only [ha, if_true]
            constructor
            · intro _; exact ⟨by simp, ⟨K, rfl, h1, by simp⟩, hany.1 ha⟩
            · intro _; exact ⟨_, rfl⟩
          · simp only [ha]
            constructor
            · rintro ⟨p, hp⟩; cases hp
            · rintro ⟨_, _, h3⟩; exact absurd (hany.2 h3) ha
        · simp only [h2, bind, Except.bind]
          constructor
          · rintro ⟨p, hp⟩; cases hp
          · rintro ⟨_, ⟨K', hK', h3, _⟩, _⟩; exact absurd h3 h1
  | some f =>
    cases kb with
    | some b => simp [bind, Except.bind]
    | none =>
      rcases powInt_cases c0 d with ⟨h1, h2⟩ | ⟨h1, h2⟩
      · cases hK : e.K with
        | none => simp [h2, bind, Except.bind]
        | some K =>
          simp only [h2, bind, Except.bind, pure, Except.pure, Nat.cast_zero]
          by_cases hz : K * c0 ^ d = 0
          · simp only [hz, if_true]
            constructor
            · rintro ⟨p, hp⟩; cases hp
            · rintro ⟨_, ⟨K', hK', _, h4⟩, _⟩
              injection hK' with hK'
              subst hK'
              exact absurd hz (h4 rfl)
          · simp only [hz, if_false]
            by_cases ha : e.anyEffect = true
            · simp only [ha, if_true]
              constructor
              · intro _; exact ⟨by simp, ⟨K, rfl, h1, fun _ => hz⟩, hany.1 ha⟩
              · intro _; exact ⟨_, rfl⟩
            · simp only [ha]
              constructor
              · rintro ⟨p, hp⟩; cases hp
              · rintro ⟨_, _, h3⟩; exact absurd (hany.2 h3) ha
      · simp only [h2, bind, Except.bind]
        constructor
        · rintro ⟨p, hp⟩; cases hp
        · rintro ⟨_, ⟨K', _, h3, _⟩, _⟩; exact absurd h3 h1

end field

/-! ### the constructor with arbitrary checks -/

set_option linter.unusedSimpArgs false

/-- the names of the checks the constructor runs: `checks`, or `default_checks ^ (dont_check or set())` -/
def checkNames (checks dontCheck : Option (List String)) : List String :=
  match checks with
  | some c => c
  | none => symmDiff defaultChecks (match dontCheck with | some d => d | none => [])

/-- the object the constructor stores for non-negative coefficients -/
def storedEquil (d : Bool) (r p ir ip : List (String × Int)) (K : Option α) : Equil α :=
  ⟨initStoich d (r.map fun kv => (kv.1, kv.2.toNat)), initStoich d (p.map fun kv => (kv.1, kv.2.toNat)),
   initStoich d (ir.map fun kv => (kv.1, kv.2.toNat)), initStoich d (ip.map fun kv => (kv.1, kv.2.toNat)), K⟩

theorem net_storedEquil (d : Bool) (r p ir ip : List (String × Int)) (K : Option α)
    (hall : ∀ kv ∈ r ++ p ++ ir ++ ip, 0 ≤ kv.2) (k : String) :
    (storedEquil d r p ir ip K).net k = getI p k - getI r k + getI ip k - getI ir k := by
  have hr : ∀ kv ∈ r, 0 ≤ kv.2 := fun kv h => hall kv (by simp [h])
  have hp : ∀ kv ∈ p, 0 ≤ kv.2 := fun kv h => hall kv (by simp [h])
  have hir : ∀ kv ∈ ir, 0 ≤ kv.2 := fun kv h => hall kv (by simp [h])
  have hip : ∀ kv ∈ ip, 0 ≤ kv.2 := fun kv h => hall kv (by simp [h])
  simp only [storedEquil, Equil.net, get_initStoich, get_nat _ k hr, get_nat _ k hp, get_nat _ k hir, get_nat _ k hip]

theorem mkEqChecks_eq (d : Bool) (r p ir ip : List (String × Int)) (K : Option α) (cs dc : Option (List String)) :
    mkEqChecks d r p ir ip K cs dc =
      if cs.isSome && dc.isSome then .error "ValueError"
      else if (checkNames cs dc).any (fun c => !defaultChecks.contains c) then .error "AttributeError"
      else if (checkNames cs dc).contains "all_positive" && !rawAllPositive r p ir ip then .error "ValueError"
      else if !rawAllPositive r p ir ip then .error "!negative-unchecked"
      else if (checkNames cs dc).contains "any_effect" && !(storedEquil d r p ir ip K).anyEffect then .error "ValueError"
      else .ok (storedEquil d r p ir ip K) := rfl

/-- The constructor with ANY `checks` / `dont_check` arguments, for coefficients none of which is negative: it returns an
    object **iff** not both arguments are given, every requested check exists, and — if `any_effect` is among the checks —
    some species has a non-zero net coefficient. The object then stores exactly the given coefficients. -/
theorem mkEqChecks_isOk (d : Bool) (r p ir ip : List (String × Int)) (K : Option α) (cs dc : Option (List String))
    (hall : ∀ kv ∈ r ++ p ++ ir ++ ip, 0 ≤ kv.2) :
    (∃ e, mkEqChecks d r p ir ip K cs dc = .ok e) ↔
      ¬ (cs.isSome = true ∧ dc.isSome = true) ∧ (∀ c ∈ checkNames cs dc, c ∈ defaultChecks) ∧
      ("any_effect" ∈ checkNames cs dc → ∃ k, getI p k - getI r k + getI ip k - getI ir k ≠ 0) := by
  have hpos : rawAllPositive r p ir ip = true := (rawAllPositive_iff r p ir ip).2 hall
  rw [mkEqChecks_eq]
  simp only [hpos, Bool.not_true, Bool.and_false, Bool.false_eq_true, if_false]
  by_cases hboth : (cs.isSome && dc.isSome) = true
  · simp only [hboth, if_true]
    constructor
    · rintro ⟨e, he⟩; cases he
    · rintro ⟨h1, _⟩; exact absurd (by simpa using hboth) h1
  · have hboth' : ¬ (cs.isSome = true ∧ dc.isSome = true) := by simpa using hboth
    simp only [hboth, if_false]
    by_cases hbad : (checkNames cs dc).any (fun c => !defaultChecks.contains c) = true
    · simp only [hbad, if_true]
      constructor
      · rintro ⟨e, he⟩; cases he
      · rintro ⟨_, h2, _⟩
        rw [List.any_eq_true] at hbad
        obtain ⟨c, hc, hc'⟩ := hbad
        have := h2 c hc
        simp [List.contains_iff_mem, this] at hc'
    · simp only [hbad, if_false]
      have hsub : ∀ c ∈ checkNames cs dc, c ∈ defaultChecks := by
        intro c hc
        by_contra hn
        apply hbad
        rw [List.any_eq_true]
        exact ⟨c, hc, by simp [List.contains_iff_mem, hn]⟩
      have hnet := net_storedEquil d r p ir ip K hall
      by_cases hae : (checkNames cs dc).contains "any_effect" = true
      · have hmem : "any_effect" ∈ checkNames cs dc := by simpa [List.contains_iff_mem] using hae
        by_cases hany : (storedEquil d r p ir ip K).anyEffect = true
        · simp only [hae, hany, Bool.not_true, Bool.and_false, Bool.false_eq_true, if_false]
          obtain ⟨k, hk⟩ := (anyEffect_iff _).1 hany
          exact ⟨fun _ => ⟨hboth', hsub, fun _ => ⟨k, by rw [← hnet k]; exact hk⟩⟩, fun _ => ⟨_, rfl⟩⟩
        · have hany' : (storedEquil d r p ir ip K).anyEffect = false := by simpa using hany
          simp only [hae, hany', Bool.not_false, Bool.and_self, if_true]
          constructor
          · rintro ⟨e, he⟩; cases he
          · rintro ⟨_, _, h3⟩
            obtain ⟨k, hk⟩ := h3 hmem
            exact absurd ((anyEffect_iff _).2 ⟨k, by rw [hnet k]; exact hk⟩) hany
      · have hae' : (checkNames cs dc).contains "any_effect" = false := by simpa using hae
        have hnmem : "any_effect" ∉ checkNames cs dc := by
          intro h; apply hae; simpa [List.contains_iff_mem] using h
        simp only [hae', Bool.false_and, Bool.false_eq_true, if_false]
        exact ⟨fun _ => ⟨hboth', hsub, fun h => absurd h hnmem⟩, fun _ => ⟨_, rfl⟩⟩

/-- the region the model cannot represent (outcome `!negative-unchecked`, Python stores the negative number there) is exactly:
    arguments otherwise accepted, `all_positive` not among the checks, and some coefficient negative -/
theorem negative_unchecked_iff (d : Bool) (r p ir ip : List (String × Int)) (K : Option α) (cs dc : Option (List String)) :
    mkEqChecks d r p ir ip K cs dc = .error "!negative-unchecked" ↔
      ¬ (cs.isSome = true ∧ dc.isSome = true) ∧ (∀ c ∈ checkNames cs dc, c ∈ defaultChecks) ∧
      "all_positive" ∉ checkNames cs dc ∧ ∃ kv ∈ r ++ p ++ ir ++ ip, kv.2 < 0 := by
  rw [mkEqChecks_eq]
  have hneg : (∃ kv ∈ r ++ p ++ ir ++ ip, kv.2 < 0) ↔ rawAllPositive r p ir ip = false := by
    rw [← Bool.not_eq_true, rawAllPositive_iff]
    constructor
    · rintro ⟨kv, h1, h2⟩ h; have := h kv h1; omega
    · intro h
      by_contra hc
      apply h
      intro kv hkv
      by_contra hlt
      exact hc ⟨kv, hkv, by omega⟩
  rw [hneg]
  by_cases hboth : (cs.isSome && dc.isSome) = true
  · have : cs.isSome = true ∧ dc.isSome = true := by simpa using hboth
    simp [hboth, this]
  · have hboth' : ¬ (cs.isSome = true ∧ dc.isSome = true) := by simpa using hboth
    simp only [hboth, if_false]
    by_cases hbad : (checkNames cs dc).any (fun c => !defaultChecks.contains c) = true
    · simp only [hbad, if_true]
      constructor
      · intro h; injection h with h; exact absurd h (by decide)
      · rintro ⟨_, h2, _⟩
        rw [List.any_eq_true] at hbad
        obtain ⟨c, hc, hc'⟩ := hbad
        have := h2 c hc
        simp [List.contains_iff_mem, this] at hc'
    · have hsub : ∀ c ∈ checkNames cs dc, c ∈ defaultChecks := by
        intro c hc
        by_contra hn
        apply hbad
        rw [List.any_eq_true]
        exact ⟨c, hc, by simp [List.contains_iff_mem, hn]⟩
      simp only [hbad, if_false]
      by_cases hpos : rawAllPositive r p ir ip = true
      · simp only [hpos, Bool.not_true, Bool.and_false, Bool.false_eq_true, if_false]
        constructor
        · intro h; split at h <;> first | cases h | (injection h with h'; exact absurd h' (by decide))
        · rintro ⟨_, _, _, h4⟩; cases h4
      · have hpos' : rawAllPositive r p ir ip = false := by simpa using hpos
        simp only [hpos', Bool.not_false, Bool.and_true, if_true]
        by_cases hap : (checkNames cs dc).contains "all_positive" = true
        · have hmem : "all_positive" ∈ checkNames cs dc := by simpa [List.contains_iff_mem] using hap
          simp only [hap, if_true]
          constructor
          · intro h; injection h with h; exact absurd h (by decide)
          · rintro ⟨_, _, h3, _⟩; exact absurd hmem h3
        · have hnmem : "all_positive" ∉ checkNames cs dc := by
            intro h; apply hap; simpa [List.contains_iff_mem] using h
          simp only [hap, if_false]
          exact ⟨fun _ => ⟨hboth', hsub, hnmem, trivial⟩, fun _ => rfl⟩


/-! ### success of the two-term combination -/

section field
variable [Field α] [DecidableEq α]

/-- when does the two-term combination `m₁*e₁ + m₂*e₂` evaluate (both multipliers non-zero, both operands with a net effect)? -/
theorem combination_isOk (e1 e2 : Equil α) (m1 m2 : Int) (hm1 : m1 ≠ 0) (hm2 : m2 ≠ 0)
    (he1 : ∃ k, e1.net k ≠ 0) (he2 : ∃ k, e2.net k ≠ 0) :
    (∃ r1 r2 r, rmul m1 e1 = .ok r1 ∧ rmul m2 e2 = .ok r2 ∧ add r1 r2 = .ok r) ↔
      (m1 < 0 → e1.K ≠ some 0) ∧ (m2 < 0 → e2.K ≠ some 0) ∧ (e1.K = none ↔ e2.K = none) ∧
      ∃ k, m1 * e1.activeNet k + m2 * e2.activeNet k ≠ 0 := by
  have knone : ∀ {n : Int} {e r : Equil α}, rmul n e = .ok r → (r.K = none ↔ e.K = none) := by
    intro n e r h
    rw [(K_rmul' h).1]; cases e.K <;> simp
  constructor
  · rintro ⟨r1, r2, r, h1, h2, h3⟩
    obtain ⟨_, _, hK1⟩ := (rmul_isOk m1 e1).1 ⟨r1, h1⟩
    obtain ⟨_, _, hK2⟩ := (rmul_isOk m2 e2).1 ⟨r2, h2⟩
    obtain ⟨hKK, k, hk⟩ := (add_isOk r1 r2).1 ⟨r, h3⟩
    refine ⟨hK1, hK2, ?_, k, ?_⟩
    · rw [← knone h1, ← knone h2]; exact hKK
    · rw [← activeNet_rmul h1, ← activeNet_rmul h2]; exact hk
  · rintro ⟨hK1, hK2, hKK, k, hk⟩
    obtain ⟨r1, h1⟩ := (rmul_isOk m1 e1).2 ⟨hm1, he1, hK1⟩
    obtain ⟨r2, h2⟩ := (rmul_isOk m2 e2).2 ⟨hm2, he2, hK2⟩
    obtain ⟨r, h3⟩ := (add_isOk r1 r2).2 ⟨by rw [knone h1, knone h2]; exact hKK, k, by
      rw [activeNet_rmul h1, activeNet_rmul h2]; exact hk⟩
    exact ⟨r1, r2, r, h1, h2, h3⟩

end field

/-! ### order facts -/

/-- `primeFactors n` is strictly ascending (hence without repetition), as `sympy.primefactors` returns it -/
theorem primeFactors_sorted (n : Nat) : (primeFactors n).Pairwise (· < ·) := by
  unfold primeFactors
  exact List.Pairwise.filter _ List.pairwise_lt_range

/-- the magnitude of what `cancel` returns does not depend on the iteration order of the set `rxn.keys()`
    (only the sign can, on ties) -/
theorem cancelWith_natAbs_perm {self rxn : Equil α} {ks ks' : List String} (hp : ks.Perm ks')
    {c c' : Option Int} (h : cancelWith self rxn ks = .ok c) (h' : cancelWith self rxn ks' = .ok c') :
    c.map Int.natAbs = c'.map Int.natAbs := by
  obtain ⟨_, hn, hs⟩ := cancelWith_ok h
  obtain ⟨_, hn', hs'⟩ := cancelWith_ok h'
  cases c with
  | none =>
    have : ks = [] := hn.1 rfl
    subst this
    have : ks' = [] := List.Perm.eq_nil (hp.symm)
    rw [hn'.2 this]
  | some r =>
    cases c' with
    | none =>
      have : ks' = [] := hn'.1 rfl
      subst this
      have : ks = [] := List.Perm.eq_nil hp
      have := hn.2 this
      cases this
    | some r' =>
      obtain ⟨⟨k, hk, hrk⟩, hmin⟩ := hs r rfl
      obtain ⟨⟨k', hk', hrk'⟩, hmin'⟩ := hs' r' rfl
      have h1 : r.natAbs ≤ r'.natAbs := by rw [hrk']; exact hmin k' (hp.mem_iff.2 hk')
      have h2 : r'.natAbs ≤ r.natAbs := by rw [hrk]; exact hmin' k (hp.mem_iff.1 hk)
      simp only [Option.map_some, Option.some.injEq]
      omega

/-- and success does not depend on the order either -/
theorem cancelWith_isOk_perm (self rxn : Equil α) {ks ks' : List String} (hp : ks.Perm ks') :
    (∃ c, cancelWith self rxn ks = .ok c) ↔ ∃ c, cancelWith self rxn ks' = .ok c := by
  rw [cancelWith_isOk, cancelWith_isOk]
  exact ⟨fun h k hk => h k (hp.mem_iff.2 hk), fun h k hk => h k (hp.mem_iff.1 hk)⟩


/-! ### multipliers as arbitrary Python objects -/

section field
variable [Field α] [DecidableEq α]

/-- for multipliers whose `is_integer` tells the truth the artificial outcome is never taken -/
theorem rmulMul_sound (m : PyMul) (e : Equil α) (hs : m.Sound) :
    rmulMul m e = if m.accepted then rmul m.val.num e else .error "TypeError" := by
  unfold rmulMul
  by_cases ha : m.accepted = true
  · simp only [ha, if_true, hs ha]
  · have ha' : m.accepted = false := by simpa using ha
    simp [ha']

/-- `m * e` for an arbitrary Python object `m` (with a truthful `is_integer`) returns an equilibrium **iff** the code's
    `other_is_int` test accepts it, its integer value is not 0, `e` has a net effect and no `0 ** negative` is needed -/
theorem rmulMul_isOk (m : PyMul) (e : Equil α) (hs : m.Sound) :
    (∃ r, rmulMul m e = .ok r) ↔
      m.accepted = true ∧ m.val.num ≠ 0 ∧ (∃ k, e.net k ≠ 0) ∧ (m.val.num < 0 → e.K ≠ some 0) := by
  rw [rmulMul_sound m e hs]
  by_cases ha : m.accepted = true
  · simp only [ha, if_true, true_and]
    exact rmul_isOk m.val.num e
  · have ha' : m.accepted = false := by simpa using ha
    simp [ha']

/-- and the result is the `n`-fold equilibrium for `n` = the multiplier's integer value: stoichiometry and constant use the
    SAME integer (what the `2.5 * e` defect violated) -/
theorem rmulMul_result (m : PyMul) (e r : Equil α) (hs : m.Sound) (h : rmulMul m e = .ok r) :
    (m.val : Rat) = (m.val.num : Rat) ∧ (∀ k, r.net k = m.val.num * e.net k) ∧ r.K = e.K.map (fun K => K ^ m.val.num) := by
  rw [rmulMul_sound m e hs] at h
  by_cases ha : m.accepted = true
  · simp only [ha, if_true] at h
    refine ⟨?_, fun k => net_rmul' h k, (K_rmul' h).1⟩
    have hd := hs ha
    conv_lhs => rw [← Rat.num_div_den m.val]
    rw [hd]; simp
  · have ha' : m.accepted = false := by simpa using ha
    simp [ha'] at h

end field

end ChemModel.Equilibria
