/-
C13: formulas written with an ARBITRARY suffix (e.g. `(cr)`, `(xyz)`) and ARBITRARY suffix tuples / `phases` — the AST-level presentation,
composition and phase index outside the default vocabulary `(s) (l) (g) (aq)`.  The formula is `f` with `f.suffix = some w`; only `noSuffix f`
has to be well-formed in C01's sense; the tuple must `SfxFits`: contain `w`, have pairwise non-ending entries, and no entry may end the text
before the suffix.
-/
import ChemModel.Proofs.FormulaFormatSuffix

set_option linter.constructorNameAsVariable false

namespace ChemModel.FormulaFormat
open ChemModel.Formula ChemModel.Gen

/-- the formula without its written suffix -/
def noSuffix (f : Formula) : Formula := { f with suffix := none }

/-- a suffix tuple that fits the formula `f` written with the (arbitrary, possibly non-vocabulary) suffix `w`: `w` is in the tuple, distinct
    entries do not end one another, and the text before the suffix does not itself end in an entry -/
structure SfxFits (sfx : List Str) (f : Formula) (w : Str) : Prop where
  mem : w ∈ sfx
  inc : ∀ a ∈ sfx, ∀ b ∈ sfx, a ≠ b → ¬ a <:+ b
  noend : ∀ s ∈ sfx, ¬ s <:+ f.renderStoich ++ renderCharge f.charge

theorem formulaToParts_custom (f : Formula) (w : Str) (hs : f.suffix = some w) (h0 : (noSuffix f).WFd)
    (sfxs : List Str) (hok : SfxFits sfxs f w) :
    formulaToParts prefixesL sfxs f.render
      = .ok ⟨f.renderStoich, f.charge.map Charge.render, f.prefixes, [w]⟩ := by
  let body := f.renderStoich ++ renderCharge f.charge
  have hrender : f.render = f.prefixes.flatten ++ (body ++ w) := by
    simp [Formula.render, body, hs, renderSuffix, List.append_assoc]
  obtain ⟨c, rest, he, hc⟩ := renderStoich_head (noSuffix f) h0 (renderCharge f.charge ++ w)
  have he' : body ++ w = c :: rest := by simpa [body, List.append_assoc, noSuffix, Formula.renderStoich] using he
  have hstrip := stripPrefixes_sublist prefixesL prefixes_incomparable f.prefixes h0.prefixes (body ++ w)
    (fun p hp => by rw [he']; exact prefix_not_start p hp c rest hc)
  have hsuff : stripSuffixes sfxs (body ++ w) = ([w], body) :=
    stripSuffixes_one'' sfxs hok.inc body w hok.mem hok.noend
  have hcf : ChargeFree f.renderStoich := renderParts_chargeFree f.sep f.parts h0.parts
  have := charge_cascade f.renderStoich hcf f.charge h0.charge f.prefixes [w]
  simp only [formulaToParts, hrender, hstrip, hsuff, List.reverse_cons, List.reverse_nil, List.nil_append]
  exact this

theorem formulaToFormat_custom {F : Fmt} {P : Pres} {ok : Br → Bool} (hF : FmtSpec F P ok) (f : Formula) (w : Str)
    (hs : f.suffix = some w) (h0 : (noSuffix f).WF)
    (hb : ∀ q ∈ f.parts, termsBrAll ok q.terms = true) (sfxs : List Str) (hok : SfxFits sfxs f w) :
    formulaToFormat F sfxs f.render = .ok (present P f) := by
  have hd := Formula.wfd (noSuffix f) h0
  obtain ⟨p, ps, hp, hn⟩ := hd.first
  have hp : f.parts = p :: ps := hp
  have hparts : ∀ q ∈ f.parts, q.wf = true := hd.parts
  have hsplit := split_stoich f.sep p ps (fun q hq => hparts q (by rw [hp]; exact hq))
  have hpw := hparts p (by simp [hp])
  obtain ⟨_, ht, _⟩ := Part.wf_iff p hpw
  have hpr : p.render = p.terms.render := by simp [Part.render, hn]
  have hstoich : f.renderStoich = renderParts f.sep (p :: ps) := by simp [Formula.renderStoich, hp]
  have hfirst := subRuns_terms F.sub hF.sub p.terms ht (hb p (by simp [hp]))
  have hrest := fmtRest_spec hF ps (fun q hq => hparts q (by simp [hp, hq])) (fun q hq => hb q (by simp [hp, hq]))
  have hpre := mapPrefixes_spec hF f.prefixes (fun q hq => hd.prefixes.subset hq)
  unfold formulaToFormat
  rw [hF.keys, formulaToParts_custom f w hs hd sfxs hok]
  simp only [hstoich, hsplit, hpr, hfirst, hrest, andThen_some_some]
  have hchg : fmtCharge F (presTerms P p.terms ++ presRest P ps) (f.charge.map Charge.render)
      = .ok ((presTerms P p.terms ++ presRest P ps) ++ presCharge P f.charge) := by
    cases hc : f.charge with
    | none => simp [fmtCharge, presCharge]
    | some c =>
      have hcw : c.wf = true := hd.charge c hc
      obtain ⟨ds, sg, e, hds, hsg⟩ := chargeTok_shape c
      by_cases hz : c.val = 0
      · simp [fmtCharge, getCharge_render c hcw, hz, presCharge]
      · simp only [Option.map_some, fmtCharge, getCharge_render c hcw, chargeToken_val c hz, presCharge, hz, if_false]
        rw [e, hF.sup ds sg hds hsg]
  rw [hchg]
  simp only [hpre]
  simp [present, presParts, hp, hs, renderSuffix, List.append_assoc]

/-- the composition does not depend on the suffix tuple either -/
theorem compositionWith_custom (f : Formula) (w : Str) (hs : f.suffix = some w) (h0 : (noSuffix f).WF)
    (sfxs : List Str) (hok : SfxFits sfxs f w) :
    formulaToCompositionWith prefixesL sfxs f.render = formulaToCompositionL (noSuffix f).render := by
  have hd := Formula.wfd (noSuffix f) h0
  unfold formulaToCompositionL formulaToCompositionWith
  rw [formulaToParts_custom f w hs hd sfxs hok, formulaToParts_render' (noSuffix f) hd suffixesL (sfxOK_default _ hd)]
  rfl

local notation "E" => escapeBraces

theorem formulaToParts_customE (f : Formula) (w : Str) (hs : f.suffix = some w) (hd : (noSuffix f).WFd)
    (sfxs : List Str) (hok : SfxFits sfxs f w) (hsp : ∀ s ∈ sfxs, ∀ c ∈ s, spB c = true) :
    formulaToParts prefixesL sfxs (E f.render)
      = .ok ⟨E f.renderStoich, f.charge.map Charge.render, f.prefixes, [w]⟩ := by
  have hwnb : NoBrace w := fun c hc => by
    have := hsp w hok.mem c hc
    simp only [spB, Bool.and_eq_true] at this; exact this.1
  have hchg : NoBrace (renderCharge f.charge) := noBrace_charge (noSuffix f) hd
  have hpf : NoBrace f.prefixes.flatten := noBrace_prefixes (noSuffix f) hd
  let body := E f.renderStoich ++ renderCharge f.charge
  have hbody : body = E (f.renderStoich ++ renderCharge f.charge) := by
    simp [body, E_append, escapeBraces_noBrace hchg]
  have hrender : E f.render = f.prefixes.flatten ++ (body ++ w) := by
    simp [Formula.render, hs, renderSuffix, E_append, body, escapeBraces_noBrace hpf,
      escapeBraces_noBrace hchg, escapeBraces_noBrace hwnb, List.append_assoc]
  obtain ⟨c, rest, he, hc⟩ := renderStoich_head (noSuffix f) hd []
  have he : f.renderStoich = c :: rest := by simpa [noSuffix, Formula.renderStoich] using he
  have hstart : ∀ p ∈ prefixesL, ¬ p <+: body ++ w := by
    intro p hp
    simp only [body, he, List.append_assoc]
    rcases nb_or_brace c with hcb | hcb
    · rw [E_cons_nb hcb]; exact prefix_not_start p hp c _ hc
    · rw [E_cons_brace hcb]; exact prefixes_no_backslash p hp _
  have hstrip := stripPrefixes_sublist prefixesL prefixes_incomparable f.prefixes hd.prefixes (body ++ w) hstart
  have hno : ∀ s ∈ sfxs, ¬ s <:+ body := by
    intro s hs' hsuf
    rw [hbody] at hsuf
    exact hok.noend s hs' (suffix_E (hsp s hs') _ hsuf)
  have hsuff : stripSuffixes sfxs (body ++ w) = ([w], body) := stripSuffixes_one'' sfxs hok.inc body w hok.mem hno
  have hcf : ChargeFree (E f.renderStoich) := chargeFree_E (renderParts_chargeFree f.sep f.parts hd.parts)
  have := charge_cascade (E f.renderStoich) hcf f.charge hd.charge f.prefixes [w]
  simp only [formulaToParts, hrender, hstrip, hsuff, List.reverse_cons, List.reverse_nil, List.nil_append]
  exact this

theorem toLatex_custom (f : Formula) (w : Str) (hs : f.suffix = some w) (h0 : (noSuffix f).WF)
    (sfxs : List Str) (hok : SfxFits sfxs f w) (hsp : ∀ s ∈ sfxs, ∀ c ∈ s, spB c = true) :
    toLatex sfxs f.render = .ok (present latexPres f) := by
  have hd := Formula.wfd (noSuffix f) h0
  obtain ⟨p, ps, hp, hn⟩ := hd.first
  have hp : f.parts = p :: ps := hp
  have hparts : ∀ q ∈ f.parts, q.wf = true := hd.parts
  have hsplit := split_stoichE f.sep p ps (fun q hq => hparts q (by rw [hp]; exact hq))
  have hpw := hparts p (by simp [hp])
  obtain ⟨_, ht, _⟩ := Part.wf_iff p hpw
  have hpr : p.render = p.terms.render := by simp [Part.render, hn]
  have hstoich : f.renderStoich = renderParts f.sep (p :: ps) := by simp [Formula.renderStoich, hp]
  have hfirst := subRuns_termsE latexFmt.sub latexFmtSpec.sub p.terms ht
  have hrest := fmtRest_specE ps (fun q hq => hparts q (by simp [hp, hq]))
  have hpre := mapPrefixes_spec latexFmtSpec f.prefixes (fun q hq => hd.prefixes.subset hq)
  unfold toLatex formulaToFormat
  rw [latexFmtSpec.keys, formulaToParts_customE f w hs hd sfxs hok hsp]
  simp only [hstoich, hsplit, hpr, hfirst, hrest, andThen_some_some]
  have hchg : fmtCharge latexFmt (presTerms latexPres p.terms ++ presRest latexPres ps) (f.charge.map Charge.render)
      = .ok ((presTerms latexPres p.terms ++ presRest latexPres ps) ++ presCharge latexPres f.charge) := by
    cases hc : f.charge with
    | none => simp [fmtCharge, presCharge]
    | some c =>
      have hcw : c.wf = true := hd.charge c hc
      obtain ⟨ds, sg, e, hds, hsg⟩ := chargeTok_shape c
      by_cases hz : c.val = 0
      · simp [fmtCharge, getCharge_render c hcw, hz, presCharge]
      · simp only [Option.map_some, fmtCharge, getCharge_render c hcw, chargeToken_val c hz, presCharge, hz, if_false]
        rw [e, latexFmtSpec.sup ds sg hds hsg]
  rw [hchg]
  simp only [hpre]
  simp [present, presParts, hp, hs, renderSuffix, List.append_assoc]

/-! ### substances / species with a custom written suffix and custom phases -/

theorem mkSubstance_custom (f : Formula) (w : Str) (hs : f.suffix = some w) (h0 : (noSuffix f).WF)
    (sfxs : List Str) (hok : SfxFits sfxs f w) (hsp : ∀ s ∈ sfxs, ∀ c ∈ s, spB c = true) (idx : Option Int) (c : Comp)
    (hc : formulaToCompositionL (noSuffix f).render = .ok c) :
    mkSubstance sfxs idx f.render
      = .ok ⟨f.render, present latexPres f, present unicodePres f, present htmlPres f, c, idx⟩ := by
  have hu : toUnicode sfxs f.render = .ok (present unicodePres f) :=
    formulaToFormat_custom unicodeFmtSpec f w hs h0 (fun q _ => termsBrAll_true q.terms) sfxs hok
  have hh : toHtml sfxs f.render = .ok (present htmlPres f) :=
    formulaToFormat_custom htmlFmtSpec f w hs h0 (fun q _ => termsBrAll_true q.terms) sfxs hok
  simp [mkSubstance, toLatex_custom f w hs h0 sfxs hok hsp, hu, hh, compositionWith_custom f w hs h0 sfxs hok, hc]

/-- with pairwise non-ending entries, an entry ends the text iff it is the written suffix -/
theorem isSuffixOf_custom (f : Formula) (w : Str) (hs : f.suffix = some w) (sfxs : List Str)
    (hinc : ∀ a ∈ sfxs, ∀ b ∈ sfxs, a ≠ b → ¬ a <:+ b) (hw : w ∈ sfxs) (k : Str) (hk : k ∈ sfxs) :
    k.isSuffixOf f.render = decide (some w = some k) := by
  have hwsuf : w <:+ f.render := by
    have : f.render = (f.prefixes.flatten ++ (f.renderStoich ++ renderCharge f.charge)) ++ w := by
      simp [Formula.render, hs, renderSuffix, List.append_assoc]
    rw [this]; exact List.suffix_append _ _
  by_cases e : k = w
  · subst e; simp [List.isSuffixOf_iff_suffix.mpr hwsuf]
  · have : ¬ k <:+ f.render := by
      intro h
      rcases List.suffix_or_suffix_of_suffix h hwsuf with h1 | h1
      · exact hinc k hk w hw e h1
      · exact hinc w hw k hk (fun e' => e e'.symm) h1
    have e' : ¬ (some w = some k) := fun h => e (Option.some.inj h).symm
    simp [isSuffixOf_false this, e']

theorem findPhaseSeq_custom (f : Formula) (w : Str) (hs : f.suffix = some w) (sfxs : List Str)
    (hinc : ∀ a ∈ sfxs, ∀ b ∈ sfxs, a ≠ b → ¬ a <:+ b) (hw : w ∈ sfxs) (l : List Str) (hl : ∀ s ∈ l, s ∈ sfxs) (i : Nat) :
    findPhaseSeq l i f.render = selSeq l i (some w) := by
  induction l generalizing i with
  | nil => rfl
  | cons p ps ih =>
    simp only [findPhaseSeq, selSeq, isSuffixOf_custom f w hs sfxs hinc hw p (hl p (by simp)), decide_eq_true_eq]
    rw [ih (fun s hs' => hl s (by simp [hs']))]

theorem findPhaseDict_custom (f : Formula) (w : Str) (hs : f.suffix = some w) (sfxs : List Str)
    (hinc : ∀ a ∈ sfxs, ∀ b ∈ sfxs, a ≠ b → ¬ a <:+ b) (hw : w ∈ sfxs) (l : List (Str × Int))
    (hl : ∀ s ∈ l.map Prod.fst, s ∈ sfxs) :
    findPhaseDict l f.render = selDict l (some w) := by
  induction l with
  | nil => rfl
  | cons kv ps ih =>
    obtain ⟨k, v⟩ := kv
    simp only [findPhaseDict, selDict, isSuffixOf_custom f w hs sfxs hinc hw k (hl k (by simp)), decide_eq_true_eq]
    rw [ih (fun s hs' => hl s (by simp at hs' ⊢; exact Or.inr hs'))]

theorem speciesFromFormula_custom (f : Formula) (w : Str) (hs : f.suffix = some w) (h0 : (noSuffix f).WF)
    (phases : Phases) (dflt : Option Int)
    (hok : SfxFits (phases.keys ++ speciesExtraSuffixes) f w)
    (hsp : ∀ s ∈ phases.keys ++ speciesExtraSuffixes, ∀ c ∈ s, spB c = true)
    (c : Comp) (hc : formulaToCompositionL (noSuffix f).render = .ok c) :
    speciesFromFormula phases dflt f.render =
      (match (match selectIdx phases (some w) with | some i => some i | none => dflt) with
       | none => .error "ValueError"
       | some i => .ok ⟨f.render, present latexPres f, present unicodePres f, present htmlPres f, c, some i⟩) := by
  have hkeys : ∀ s ∈ phases.keys, s ∈ phases.keys ++ speciesExtraSuffixes := fun s h => List.mem_append.mpr (Or.inl h)
  have hidx : phaseIdx phases dflt f.render = (match selectIdx phases (some w) with | some i => some i | none => dflt) := by
    cases phases with
    | seq l => simp only [phaseIdx, selectIdx, findPhaseSeq_custom f w hs _ hok.inc hok.mem l hkeys 0]; rfl
    | dict l => simp only [phaseIdx, selectIdx, findPhaseDict_custom f w hs _ hok.inc hok.mem l hkeys]; rfl
  unfold speciesFromFormula
  rw [hidx]
  cases (match selectIdx phases (some w) with | some i => some i | none => dflt) with
  | none => rfl
  | some i => exact mkSubstance_custom f w hs h0 _ hok hsp (some i) c hc

end ChemModel.FormulaFormat
