/-
C01: the string-level denotation `Den` agrees with the AST specification on rendered text
(so `accepted_value_sound` extends `parse_render` rather than talking about a different notion of value).
-/
import ChemModel.Proofs.FormulaValue

set_option linter.constructorNameAsVariable false

namespace ChemModel.Formula
open ChemModel.Gen

theorem silent_stText (st : Option St) : Silent (stText st) := by
  cases st with
  | none => exact Silent.nil
  | some x => simpa [stText] using Silent.state x [] Silent.nil

theorem tailOf_render (n : Cnt) (hn : n.wf = true) (st : Option St) (marks : List Char) (hm : ∀ c ∈ marks, isMark c = true) :
    TailOf (n.render ++ (stText st ++ marks)) n.val :=
  ⟨[], n, stText st ++ marks, by simp, hn, rfl, (silent_stText st).append (silent_marks hm), rfl⟩

theorem tailOf_nil : TailOf [] 1 := ⟨[], .omitted, [], by simp, rfl, rfl, Silent.nil, rfl⟩

mutual
theorem Term.den_render : ∀ (t : Term), t.wf = true → ∃ occ, DenPre t.render occ ∧ Equiv occ (t.occ 1)
  | .elem z n st marks, h => by
    obtain ⟨h1, h2, hn, hm⟩ := Term.wf_elem h
    refine ⟨[(z, n.val)], ?_, ?_⟩
    · intro r occ' hr
      have := Den.elem z _ _ r occ' h1 h2 (tailOf_render n hn st marks hm) hr
      simpa [Term.render, List.append_assoc] using this
    · intro k
      refine ⟨?_, by simp [Term.occ, Comp.keys]⟩
      simp only [Term.occ, total_cons, total_nil]; split <;> grind
  | .group b body n st marks, h => by
    obtain ⟨hb, hne, hn, hm⟩ := Term.wf_group h
    obtain ⟨occu, hp, he⟩ := Terms.den_render body hb
    have hnn : occu ≠ [] := by
      have hf := Terms.flat_ne_nil body hb hne
      cases hfl : body.flat with
      | nil => exact absurd hfl hf
      | cons p ps =>
        have hk : p.1 ∈ Comp.keys body.flat := by rw [hfl]; simp [Comp.keys]
        have := (he p.1).2.mpr ((Terms.mem_keys_flat body p.1).mp hk)
        intro e; rw [e] at this; simp [Comp.keys] at this
    refine ⟨scale n.val occu, ?_, ?_⟩
    · intro r occ' hr
      have := Den.group b body.render occu _ _ r occ' hp.den hnn (tailOf_render n hn st marks hm) hr
      simpa [Term.render, List.append_assoc] using this
    · intro k
      refine ⟨?_, ?_⟩
      · simp only [Term.occ]
        rw [total_scale, (he k).1, Terms.total_occ body (1 * n.val)]; grind
      · simp only [Term.occ]
        rw [keys_scale, Terms.keys_occ body (1 * n.val)]; exact (he k).2
  | .cage body, h => by
    obtain ⟨hb, hne⟩ := Term.wf_cage h
    obtain ⟨occu, hp, he⟩ := Terms.den_render body hb
    have hnn : occu ≠ [] := by
      have hf := Terms.flat_ne_nil body hb hne
      cases hfl : body.flat with
      | nil => exact absurd hfl hf
      | cons p ps =>
        have hk : p.1 ∈ Comp.keys body.flat := by rw [hfl]; simp [Comp.keys]
        have := (he p.1).2.mpr ((Terms.mem_keys_flat body p.1).mp hk)
        intro e; rw [e] at this; simp [Comp.keys] at this
    refine ⟨scale 1 occu, ?_, ?_⟩
    · intro r occ' hr
      have := Den.cage body.render occu [] 1 r occ' hp.den hnn tailOf_nil hr
      simpa [Term.render, List.append_assoc] using this
    · intro k
      refine ⟨?_, ?_⟩
      · simp only [Term.occ]; rw [total_scale, (he k).1]; grind
      · simp only [Term.occ]; rw [keys_scale]; exact (he k).2
theorem Terms.den_render : ∀ (ts : Terms), ts.wf = true → ∃ occ, DenPre ts.render occ ∧ Equiv occ (ts.occ 1)
  | .nil, _ => ⟨[], by simpa [Terms.render] using DenPre.nil, by simpa [Terms.occ] using Equiv.refl []⟩
  | .cons t ts, h => by
    obtain ⟨o1, hp1, he1⟩ := Term.den_render t (Terms.wf_cons h).1
    obtain ⟨o2, hp2, he2⟩ := Terms.den_render ts (Terms.wf_cons h).2.1
    exact ⟨o1 ++ o2, by simpa [Terms.render] using hp1.append hp2, by simpa [Terms.occ] using he1.append he2⟩
end

/-- on rendered well-formed term lists the string-level denotation is the AST's occurrence list (same totals, same keys) -/
theorem den_render (ts : Terms) (h : ts.wf = true) : ∃ occ, Den ts.render occ ∧ Equiv occ (ts.occ 1) := by
  obtain ⟨occ, hp, he⟩ := Terms.den_render ts h
  exact ⟨occ, hp.den, he⟩

end ChemModel.Formula
