/-
C01 helper lemmas: what the lexer / parser can consume at all (soundness direction), used by the
rejection theorems.
-/
import ChemModel.Proofs.FormulaAssemble

set_option linter.constructorNameAsVariable false

namespace ChemModel.Formula
open ChemModel.Gen

theorem matchBranch_sound (b : Char × List Char × Bool) (s tok rest : List Char)
    (h : matchBranch b s = some (tok, rest)) : s = tok ++ rest := by
  cases s with
  | nil => simp [matchBranch] at h
  | cons c1 s1 =>
    cases s1 with
    | nil =>
      simp only [matchBranch] at h
      split at h
      · simp at h; obtain ⟨h1, h2⟩ := h; subst h1; subst h2; rfl
      · simp at h
    | cons c2 s2 =>
      simp only [matchBranch] at h
      split at h
      · split at h
        · simp at h; obtain ⟨h1, h2⟩ := h; subst h1; subst h2; rfl
        · split at h
          · simp at h; obtain ⟨h1, h2⟩ := h; subst h1; subst h2; rfl
          · simp at h
      · simp at h

theorem matchElemAux_sound (bs : List (Char × List Char × Bool)) (s tok rest : List Char)
    (h : matchElemAux bs s = some (tok, rest)) : s = tok ++ rest := by
  induction bs with
  | nil => simp [matchElemAux] at h
  | cons b bs ih =>
    simp only [matchElemAux] at h
    cases hb : matchBranch b s with
    | none => rw [hb] at h; exact ih h
    | some r =>
      rw [hb] at h
      simp at h; subst h
      exact matchBranch_sound b s tok rest hb

theorem symbols_length : symbols.length = 118 := by decide

theorem symIndex_sound (tok : List Char) (z : Nat) (h : symIndex tok = some z) :
    1 ≤ z ∧ z ≤ 118 ∧ symChars z = tok := by
  simp only [symIndex] at h
  split at h
  · rename_i hlt
    simp at h; subst h
    have hp := List.findIdx_getElem (w := hlt)
    refine ⟨by omega, by have := symbols_length; omega, ?_⟩
    simp only [symChars, Nat.add_sub_cancel, List.getD_eq_getElem?_getD, List.getElem?_eq_getElem hlt, Option.getD_some]
    simpa using hp
  · simp at h

/-- whatever the element lexer accepts is one of the 118 symbols, read completely -/
theorem matchElem_sound (s : List Char) (z : Nat) (r : List Char) (h : matchElem s = some (z, r)) :
    1 ≤ z ∧ z ≤ 118 ∧ s = symChars z ++ r := by
  simp only [matchElem] at h
  cases hm : matchElemAux elemBranches s with
  | none => rw [hm] at h; simp at h
  | some p =>
    obtain ⟨tok, rest⟩ := p
    rw [hm] at h
    simp only [Option.map_eq_some_iff] at h
    obtain ⟨z', hz, he⟩ := h
    simp at he
    obtain ⟨rfl, rfl⟩ := he
    obtain ⟨h1, h2, h3⟩ := symIndex_sound tok z' hz
    exact ⟨h1, h2, by rw [h3]; exact matchElemAux_sound _ _ _ _ hm⟩

end ChemModel.Formula
