/-
C01 helper lemmas, rejection direction (top level): contradictory / repeated charge marks are rejected by
`formula_to_composition` whatever else the string contains.
-/
import ChemModel.Proofs.FormulaReject2

set_option linter.constructorNameAsVariable false

namespace ChemModel.Formula
open ChemModel.Gen

/-- decidable equality of model results (for the concrete `example`s), kept in this namespace -/
instance instDecEqResult : DecidableEq (Except ErrKind Comp) := fun a b =>
  match a, b with
  | .ok x, .ok y => if h : x = y then isTrue (by rw [h]) else isFalse (by intro e; cases e; exact h rfl)
  | .error x, .error y => if h : x = y then isTrue (by rw [h]) else isFalse (by intro e; cases e; exact h rfl)
  | .ok _, .error _ => isFalse (by intro e; cases e)
  | .error _, .ok _ => isFalse (by intro e; cases e)

theorem splitAtChar_spec (c : Char) (s : List Char) (h : c ∈ s) :
    s = (splitAtChar c s).1 ++ c :: (splitAtChar c s).2 := by
  induction s with
  | nil => simp at h
  | cons x r ih =>
    by_cases e : x = c
    · subst e; simp [splitAtChar]
    · have : c ∈ r := by rcases List.mem_cons.mp h with h | h; exact absurd h.symm e; exact h
      simp only [splitAtChar, if_neg e]
      rw [List.cons_append, ← ih this]

theorem splitChar_mem (sep x : Char) (s : List Char) (hx : x ∈ s) (hne : x ≠ sep) :
    x ∈ (splitChar sep s).1 ∨ ∃ p ∈ (splitChar sep s).2, x ∈ p := by
  induction s with
  | nil => simp at hx
  | cons y r ih =>
    simp only [splitChar]
    rcases List.mem_cons.mp hx with e | e
    · subst e
      simp [hne]
    · rcases ih e with h | ⟨p, hp, hxp⟩
      · by_cases hy : y = sep
        · right; simp only [hy, if_true]; exact ⟨_, by simp, h⟩
        · left; simp [hy, h]
      · right
        by_cases hy : y = sep
        · simp only [hy, if_true]; exact ⟨p, by simp [hp], hxp⟩
        · simp only [hy, if_false]; exact ⟨p, hp, hxp⟩

theorem splitDD_mem (x : Char) (hne : x ≠ '.') : ∀ (n : Nat) (s : List Char), s.length ≤ n → x ∈ s →
    x ∈ (splitDD s).1 ∨ ∃ p ∈ (splitDD s).2, x ∈ p := by
  intro n
  induction n with
  | zero => intro s hl hx; cases s <;> simp_all
  | succ n ih =>
    intro s hl hx
    cases s with
    | nil => simp at hx
    | cons c r =>
      by_cases hdd : c = '.' ∧ ∃ r', r = '.' :: r'
      · obtain ⟨hc, r', hr⟩ := hdd
        subst hc; subst hr
        rw [splitDD_dd]
        have hx' : x ∈ r' := by
          simp only [List.mem_cons] at hx
          rcases hx with h | h | h
          · exact absurd h hne
          · exact absurd h hne
          · exact h
        rcases ih r' (by simp at hl; omega) hx' with h | ⟨p, hp, hxp⟩
        · right; exact ⟨_, by simp, h⟩
        · right; exact ⟨p, by simp [hp], hxp⟩
      · have hstep : splitDD (c :: r) = (c :: (splitDD r).1, (splitDD r).2) := by
          rw [splitDD.eq_3 c r (fun r1 h1 h2 => hdd ⟨h1, r1, h2⟩)]
        rw [hstep]
        rcases List.mem_cons.mp hx with e | e
        · left; simp [e]
        · rcases ih r (by simp at hl; omega) e with h | h
          · left; simp [h]
          · right; exact h

theorem restLoop_ok_all (ps : List (List Char)) (tot c : Comp) (h : restLoop tot ps = .ok c) :
    ∀ p ∈ ps, ∃ c', parseStoich (getLeadingInteger p).2 = .ok c' := by
  induction ps generalizing tot with
  | nil => intro p hp; simp at hp
  | cons q qs ih =>
    intro p hp
    simp only [restLoop] at h
    cases hq : parseStoich (getLeadingInteger q).2 with
    | error e => rw [hq] at h; simp at h
    | ok c1 =>
      rw [hq] at h
      rcases List.mem_cons.mp hp with e | e
      · subst e; exact ⟨c1, hq⟩
      · exact ih _ h p e

theorem mem_leadingInteger_rest (x : Char) (p : List Char) (hx : x ∈ p) (hd : x.isDigit = false) :
    x ∈ (getLeadingInteger p).2 := by
  obtain ⟨h1, h2⟩ := takeDigits_spec p
  simp only [getLeadingInteger]
  split
  · exact hx
  · rw [h1] at hx
    rcases List.mem_append.mp hx with h | h
    · have := h2 x h; rw [hd] at this; exact absurd this (by decide)
    · exact h

/-- a sign character or a slash anywhere in the stoichiometry token makes the part loop fail -/
theorem stoichToComp_reject_sign (a : List Char) (x : Char) (hx : x ∈ a) (hs : x = '+' ∨ x = '-' ∨ x = '/') :
    ∃ e, stoichToComp a = .error e := by
  have hnd : x ≠ '.' := by rcases hs with h | h | h <;> subst h <;> decide
  have hnc : x ≠ '·' := by rcases hs with h | h | h <;> subst h <;> decide
  have hdig : x.isDigit = false := by rcases hs with h | h | h <;> subst h <;> decide
  have hne : x ≠ 'e' := by rcases hs with h | h | h <;> subst h <;> decide
  have bad : ∀ p : List Char, x ∈ p → ∀ c, parseStoich p ≠ .ok c := by
    intro p hp c hc
    rcases parseStoich_sound p c hc with e | acc
    · subst e; simp at hp; exact hne hp
    · have := acc.signFree_all x hp
      rcases hs with h | h | h
      · exact this.plus h
      · exact this.minus h
      · exact this.slash h
  have hmem : x ∈ (if a.contains '·' then splitChar '·' a else splitDD a).1 ∨
      ∃ p ∈ (if a.contains '·' then splitChar '·' a else splitDD a).2, x ∈ p := by
    split
    · exact splitChar_mem '·' x a hx hnc
    · exact splitDD_mem x hnd a.length a (Nat.le_refl _) hx
  simp only [stoichToComp]
  generalize (if a.contains '·' then splitChar '·' a else splitDD a) = sp at hmem
  obtain ⟨p0, ps⟩ := sp
  simp only at hmem ⊢
  cases h0 : parseStoich p0 with
  | error e => exact ⟨e, rfl⟩
  | ok c0 =>
    simp only
    rcases hmem with h | ⟨p, hp, hxp⟩
    · exact absurd h0 (bad p0 h c0)
    · cases hr : restLoop (addScaled 1 [] c0) ps with
      | error e => exact ⟨e, rfl⟩
      | ok c =>
        obtain ⟨c', hc'⟩ := restLoop_ok_all ps _ c hr p hp
        exact absurd hc' (bad _ (mem_leadingInteger_rest x p hxp hdig) c')

theorem getCharge_both (s : List Char) (hp : '+' ∈ s) (hm : '-' ∈ s) : getCharge s = .error .charge := by
  have h1 : s ≠ ['+'] := by intro e; subst e; simp at hm
  have h2 : s ≠ ['-'] := by intro e; subst e; simp at hp
  simp [getCharge, h1, h2, chargeStep, hp, hm]

/-- the text searched for the charge token: the input without the stripped prefixes and suffixes -/
def coreOf (s : List Char) : List Char := (stripSuffixes suffixesL (stripPrefixes prefixesL s).2).2

theorem contradictory_rejected (s : List Char)
    (h : ('+' ∈ coreOf s ∧ '-' ∈ coreOf s) ∨ (coreOf s).count '+' > 1 ∨ (coreOf s).count '-' > 1) :
    ∃ e, formulaToCompositionL s = .error e := by
  simp only [formulaToCompositionL, formulaToCompositionWith, formulaToParts]
  cases hsp : stripPrefixes prefixesL s with
  | mk dp s1 =>
    cases hss : stripSuffixes suffixesL s1 with
    | mk ds s2 =>
      have hcore : coreOf s = s2 := by simp [coreOf, hsp, hss]
      rw [hcore] at h
      simp only
      by_cases hsl : s2.contains '/' = true
      · simp only [hsl, if_true]; exact ⟨_, rfl⟩
      · simp only [hsl, Bool.false_eq_true, if_false]
        by_cases hpl : '+' ∈ s2
        · have hpl' : s2.contains '+' = true := by simpa using hpl
          simp only [hpl', if_true]
          by_cases hcnt : s2.count '+' > 1
          · simp only [hcnt, if_true]; exact ⟨_, rfl⟩
          · simp only [hcnt, if_false]
            have hmin : '-' ∈ s2 := by
              rcases h with h | h | h
              · exact h.2
              · exact absurd h hcnt
              · exact List.count_pos_iff.mp (by omega)
            have hspec := splitAtChar_spec '+' s2 hpl
            cases hsa : splitAtChar '+' s2 with
            | mk a b =>
              rw [hsa] at hspec
              simp only at hspec ⊢
              have : '-' ∈ a ∨ '-' ∈ b := by
                rw [hspec] at hmin
                rcases List.mem_append.mp hmin with h' | h'
                · exact Or.inl h'
                · rcases List.mem_cons.mp h' with h'' | h''
                  · exact absurd h'' (by decide)
                  · exact Or.inr h''
              rcases this with ha | hb
              · obtain ⟨e, he⟩ := stoichToComp_reject_sign a '-' ha (Or.inr (Or.inl rfl))
                exact ⟨e, by simp [he]⟩
              · cases hst : stoichToComp a with
                | error e => exact ⟨e, rfl⟩
                | ok tot =>
                  have := getCharge_both ('+' :: b) (by simp) (by simp [hb])
                  exact ⟨.charge, by simp [this]⟩
        · have hpl' : s2.contains '+' = false := by simpa using hpl
          simp only [hpl', Bool.false_eq_true, if_false]
          have hcnt : s2.count '-' > 1 := by
            rcases h with h | h | h
            · exact absurd h.1 hpl
            · exact absurd (List.count_pos_iff.mp (by omega)) hpl
            · exact h
          have hmin : s2.contains '-' = true := by
            have : '-' ∈ s2 := List.count_pos_iff.mp (by omega)
            simpa using this
          simp only [hmin, if_true, hcnt]; exact ⟨_, rfl⟩

end ChemModel.Formula
