/-
C01 helper lemmas, value soundness for EVERY accepted text (not only rendered ASTs):
a string-level denotation `Den u occ` ("the text `u` is a sequence of terms whose element occurrences, each with the
product of its enclosing multipliers, are `occ`") that tolerates whitespace, states, marks and counted cages, and the
theorem that whatever the grammar accepts is read with exactly that value.
-/
import ChemModel.Proofs.FormulaReject4

set_option linter.constructorNameAsVariable false

namespace ChemModel.Formula
open ChemModel.Gen

theorem Silent.append {a b : List Char} (ha : Silent a) (hb : Silent b) : Silent (a ++ b) := by
  induction ha with
  | nil => simpa using hb
  | ws c r hc _ ih => exact Silent.ws c _ hc ih
  | state st r _ ih => rw [List.append_assoc]; exact Silent.state st _ ih
  | mark c r hc _ ih => exact Silent.mark c _ hc ih

theorem silent_ws {w : List Char} (h : ∀ c ∈ w, isWs c = true) : Silent w := by
  induction w with
  | nil => exact Silent.nil
  | cons c r ih => exact Silent.ws c r (h c (by simp)) (ih (fun d hd => h d (by simp [hd])))

theorem silent_marks {w : List Char} (h : ∀ c ∈ w, isMark c = true) : Silent w := by
  induction w with
  | nil => exact Silent.nil
  | cons c r ih => exact Silent.mark c r (h c (by simp)) (ih (fun d hd => h d (by simp [hd])))

theorem Den.append {a b : List Char} {oa ob : Comp} (ha : Den a oa) (hb : Den b ob) : Den (a ++ b) (oa ++ ob) := by
  induction ha with
  | nil => simpa using hb
  | ws c r occ hc _ ih => exact Den.ws c _ _ hc ih
  | elem z tl n r occ h1 h2 ht _ ih =>
    have : symChars z ++ (tl ++ r) ++ b = symChars z ++ (tl ++ (r ++ b)) := by simp
    rw [this]; exact Den.elem z tl n _ _ h1 h2 ht ih
  | group br u occu tl n r occ hu hne ht _ _ ih2 =>
    have e1 : br.op :: (u ++ br.cl :: (tl ++ r)) ++ b = br.op :: (u ++ br.cl :: (tl ++ (r ++ b))) := by simp
    have e2 : scale n occu ++ occ ++ ob = scale n occu ++ (occ ++ ob) := by simp
    rw [e1, e2]; exact Den.group br u occu tl n _ _ hu hne ht ih2
  | cage u occu tl n r occ hu hne ht _ _ ih2 =>
    have e1 : '@' :: (u ++ (tl ++ r)) ++ b = '@' :: (u ++ (tl ++ (r ++ b))) := by simp
    have e2 : scale n occu ++ occ ++ ob = scale n occu ++ (occ ++ ob) := by simp
    rw [e1, e2]; exact Den.cage u occu tl n _ _ hu hne ht ih2

theorem den_ws {w : List Char} (h : ∀ c ∈ w, isWs c = true) : Den w [] := by
  induction w with
  | nil => exact Den.nil
  | cons c r ih => exact Den.ws c r [] (h c (by simp)) (ih (fun d hd => h d (by simp [hd])))

/-- every occurrence key of a denotation is an atomic number 1..118 -/
theorem Den.keys_pos {u : List Char} {occ : Comp} (h : Den u occ) : ∀ k ∈ Comp.keys occ, 1 ≤ k ∧ k ≤ 118 := by
  induction h with
  | nil => intro k hk; simp [Comp.keys] at hk
  | ws c r occ _ _ ih => exact ih
  | elem z tl n r occ h1 h2 _ _ ih =>
    intro k hk; simp only [keys_cons, List.mem_cons] at hk
    rcases hk with e | e
    · subst e; exact ⟨h1, h2⟩
    · exact ih k e
  | group br u occu tl n r occ _ _ _ _ ih1 ih2 =>
    intro k hk; rw [keys_append, keys_scale, List.mem_append] at hk
    rcases hk with e | e
    · exact ih1 k e
    · exact ih2 k e
  | cage u occu tl n r occ _ _ _ _ ih1 ih2 =>
    intro k hk; rw [keys_append, keys_scale, List.mem_append] at hk
    rcases hk with e | e
    · exact ih1 k e
    · exact ih2 k e

/-! ### same totals, same keys -/

theorem Equiv.refl (c : Comp) : Equiv c c := fun _ => ⟨rfl, Iff.rfl⟩

theorem Equiv.append {a b oa ob : Comp} (h1 : Equiv a oa) (h2 : Equiv b ob) : Equiv (a ++ b) (oa ++ ob) := by
  intro k
  refine ⟨by rw [total_append, total_append, (h1 k).1, (h2 k).1], ?_⟩
  rw [keys_append, keys_append, List.mem_append, List.mem_append, (h1 k).2, (h2 k).2]

theorem Equiv.scale {a oa : Comp} (n : Rat) (h : Equiv a oa) : Equiv (scale n a) (scale n oa) := by
  intro k
  refine ⟨by rw [total_scale, total_scale, (h k).1], ?_⟩
  rw [keys_scale, keys_scale]; exact (h k).2

theorem Equiv.merge {a oa : Comp} (h : Equiv a oa) : Equiv (mergeComp a) oa := by
  intro k
  refine ⟨by rw [total_mergeComp]; exact (h k).1, ?_⟩
  rw [mem_keys_mergeComp]; exact (h k).2

theorem Equiv.ne_nil {a oa : Comp} (h : Equiv a oa) (hne : a ≠ []) : oa ≠ [] := by
  cases a with
  | nil => exact absurd rfl hne
  | cons p ps =>
    intro e; subst e
    have := (h p.1).2.mp (by simp [Comp.keys])
    simp [Comp.keys] at this

/-! ### values of the lexical functions -/

theorem parseCount_val (s : List Char) :
    ∃ cnt : Cnt, cnt.wf = true ∧ s = cnt.render ++ (parseCount s).2 ∧ (parseCount s).1 = cnt.val := by
  obtain ⟨h1, hd1⟩ := takeDigits_spec s
  simp only [parseCount]
  split
  · exact ⟨.omitted, rfl, rfl, rfl⟩
  · rename_i hne
    have wf1 : isDigits (takeDigits s).1 = true := (isDigits_iff _).mpr ⟨hne, hd1⟩
    split
    · rename_i r2 heq
      obtain ⟨h2, hd2⟩ := takeDigits_spec r2
      split
      · exact ⟨.int (takeDigits s).1, wf1, h1, rfl⟩
      · rename_i hne2
        refine ⟨.dec (takeDigits s).1 (takeDigits r2).1, ?_, ?_, rfl⟩
        · simp [Cnt.wf, wf1, (isDigits_iff _).mpr ⟨hne2, hd2⟩]
        · simp only [Cnt.render, List.append_assoc, List.cons_append]
          rw [← h2, ← heq]; exact h1
    · exact ⟨.int (takeDigits s).1, wf1, h1, rfl⟩

theorem optTok_silent (f : List Char → Option (List Char)) (hf : ∀ s r, f s = some r → ∃ u, s = u ++ r ∧ Silent u)
    (s : List Char) : ∃ u, s = u ++ optTok f s ∧ Silent u := by
  unfold optTok
  obtain ⟨w, hw, hall⟩ := skipWs_spec s
  cases h : f (skipWs s) with
  | none => exact ⟨[], rfl, Silent.nil⟩
  | some r =>
    obtain ⟨u, hu, hp⟩ := hf _ _ h
    exact ⟨w ++ u, by rw [List.append_assoc, ← hu]; exact hw, (silent_ws hall).append hp⟩

theorem matchPrimes_silent (s r : List Char) (h : matchPrimes s = some r) : ∃ u, s = u ++ r ∧ Silent u := by
  cases s with
  | nil => simp [matchPrimes] at h
  | cons c t =>
    simp only [matchPrimes] at h
    split at h
    · rename_i hc
      simp at h; subst h
      obtain ⟨m, hm, hall⟩ := dropMarks_spec t
      exact ⟨c :: m, by simp [← hm], Silent.mark c m hc (silent_marks hall)⟩
    · simp at h

theorem parseTail_val (s : List Char) : ∃ tl, s = tl ++ (parseTail s).2 ∧ TailOf tl (parseTail s).1 := by
  obtain ⟨w, hw, hall⟩ := skipWs_spec s
  obtain ⟨cnt, hwf, h1, hv⟩ := parseCount_val (skipWs s)
  obtain ⟨u2, h2, p2⟩ := optTok_silent matchState
    (fun s r h => by obtain ⟨st, e⟩ := matchState_sound s r h; exact ⟨st.text, e, by simpa using Silent.state st [] Silent.nil⟩)
    (parseCount (skipWs s)).2
  obtain ⟨u3, h3, p3⟩ := optTok_silent matchPrimes matchPrimes_silent (optTok matchState (parseCount (skipWs s)).2)
  refine ⟨w ++ (cnt.render ++ (u2 ++ u3)), ?_, w, cnt, u2 ++ u3, hall, hwf, ?_, p2.append p3, rfl⟩
  · simp only [parseTail]
    rw [List.append_assoc, List.append_assoc, List.append_assoc, ← h3, ← h2, ← h1]
    exact hw
  · simp only [parseTail]; exact hv

/-! ### the grammar reads every accepted text with its denotation -/

/-- `u` can be put in front of any denoted text, contributing the occurrences `occ` -/
def DenPre (u : List Char) (occ : Comp) : Prop := ∀ r occ', Den r occ' → Den (u ++ r) (occ ++ occ')

theorem DenPre.nil : DenPre [] [] := fun _ _ h => h
theorem DenPre.append {a b : List Char} {oa ob : Comp} (ha : DenPre a oa) (hb : DenPre b ob) : DenPre (a ++ b) (oa ++ ob) := by
  intro r occ' hr
  rw [List.append_assoc, List.append_assoc]
  exact ha _ _ (hb r occ' hr)
theorem DenPre.den {u : List Char} {occ : Comp} (h : DenPre u occ) : Den u occ := by simpa using h [] [] Den.nil
theorem denPre_ws {w : List Char} (h : ∀ c ∈ w, isWs c = true) : DenPre w [] :=
  fun r occ' hr => by simpa using (den_ws h).append hr

theorem parse_value_sound : ∀ fuel : Nat,
    (∀ s c r, parseTerm fuel s = some (c, r) → ∃ u occ, s = u ++ r ∧ DenPre u occ ∧ Equiv c occ) ∧
    (∀ s c r, parseTerms fuel s = some (c, r) → ∃ u occ, s = u ++ r ∧ DenPre u occ ∧ Equiv c occ) := by
  intro fuel
  induction fuel with
  | zero => exact ⟨fun s c r h => by simp [parseTerm] at h, fun s c r h => by simp [parseTerms] at h⟩
  | succ f ih =>
    have hbody : ∀ cs body r1, asFormula (parseTerms f cs) = some (body, r1) →
        ∃ u1 occ1, cs = u1 ++ r1 ∧ DenPre u1 occ1 ∧ Equiv body occ1 ∧ occ1 ≠ [] := by
      intro cs body r1 hb
      cases hx : parseTerms f cs with
      | none => rw [hx] at hb; simp [asFormula] at hb
      | some p =>
        obtain ⟨c', r'⟩ := p
        rw [hx] at hb
        simp only [asFormula] at hb
        split at hb
        · simp at hb
        · rename_i hne
          simp at hb
          obtain ⟨u1, occ1, hu1, hp1, he1⟩ := ih.2 _ _ _ hx
          refine ⟨u1, occ1, by rw [← hb.2]; exact hu1, hp1, by rw [← hb.1]; exact he1.merge, he1.ne_nil hne⟩
    have hterm : ∀ s c r, parseTerm (f + 1) s = some (c, r) → ∃ u occ, s = u ++ r ∧ DenPre u occ ∧ Equiv c occ := by
      intro s0 c r h
      obtain ⟨w, hw, hall⟩ := skipWs_spec s0
      simp only [parseTerm] at h
      cases hm : matchElem (skipWs s0) with
      | some p =>
        obtain ⟨z, rest⟩ := p
        rw [hm] at h
        simp at h
        obtain ⟨h1, h2, he⟩ := matchElem_sound _ _ _ hm
        obtain ⟨tl, htl, hT⟩ := parseTail_val rest
        refine ⟨w ++ (symChars z ++ tl), [] ++ [(z, (parseTail rest).1)], ?_, (denPre_ws hall).append ?_, ?_⟩
        · rw [← h.2, List.append_assoc, List.append_assoc, ← htl, ← he]; exact hw
        · intro x occ' hx
          have := Den.elem z tl _ x occ' h1 h2 hT hx
          simpa [List.append_assoc] using this
        · rw [← h.1]; exact Equiv.refl _
      | none =>
        rw [hm] at h
        simp only at h
        cases hs : skipWs s0 with
        | nil => rw [hs] at h; simp at h
        | cons ch cs =>
          rw [hs] at h
          simp only at h
          split at h
          · rename_i hat
            cases hb : asFormula (parseTerms f cs) with
            | none => rw [hb] at h; simp at h
            | some p =>
              obtain ⟨body, r1⟩ := p
              rw [hb] at h
              simp at h
              obtain ⟨u1, occ1, hu1, hp1, he1, hne1⟩ := hbody _ _ _ hb
              obtain ⟨tl, htl, hT⟩ := parseTail_val r1
              refine ⟨w ++ ('@' :: (u1 ++ tl)), [] ++ scale (parseTail r1).1 occ1, ?_, (denPre_ws hall).append ?_, ?_⟩
              · rw [← h.2, List.append_assoc, List.cons_append, List.append_assoc, ← htl, ← hu1, ← hat, ← hs]; exact hw
              · intro x occ' hx
                have := Den.cage u1 occ1 tl _ x occ' hp1.den hne1 hT hx
                simpa [List.append_assoc] using this
              · rw [← h.1]; simpa using he1.scale _
          · cases hcl : closer ch with
            | none => rw [hcl] at h; simp at h
            | some cl =>
              rw [hcl] at h
              simp only at h
              obtain ⟨b, hb1, hb2⟩ := closer_sound ch cl hcl
              cases hb : asFormula (parseTerms f cs) with
              | none => rw [hb] at h; simp at h
              | some p =>
                obtain ⟨body, r1⟩ := p
                rw [hb] at h
                simp only at h
                obtain ⟨u1, occ1, hu1, hp1, he1, hne1⟩ := hbody _ _ _ hb
                obtain ⟨w2, hw2, hall2⟩ := skipWs_spec r1
                cases hs2 : skipWs r1 with
                | nil => rw [hs2] at h; simp at h
                | cons cl' r2 =>
                  rw [hs2] at h
                  simp only at h
                  split at h
                  · rename_i hcl'
                    simp at h
                    obtain ⟨tl, htl, hT⟩ := parseTail_val r2
                    have hbodyDen : Den (u1 ++ w2) occ1 := by
                      have := (hp1.append (denPre_ws hall2)).den
                      simpa using this
                    refine ⟨w ++ (b.op :: ((u1 ++ w2) ++ b.cl :: tl)), [] ++ scale (parseTail r2).1 occ1, ?_,
                      (denPre_ws hall).append ?_, ?_⟩
                    · have hr2 : r2 = tl ++ r := by rw [← h.2]; exact htl
                      have e1 : r1 = w2 ++ cl' :: r2 := by rw [← hs2]; exact hw2
                      have : s0 = w ++ ch :: cs := by rw [← hs]; exact hw
                      rw [this, hu1, e1, hr2, hb1, hcl', hb2]
                      simp [List.append_assoc]
                    · intro x occ' hx
                      have := Den.group b (u1 ++ w2) occ1 tl _ x occ' hbodyDen hne1 hT hx
                      simpa [List.append_assoc] using this
                    · rw [← h.1]; simpa using he1.scale _
                  · simp at h
    refine ⟨hterm, ?_⟩
    intro s c r h
    simp only [parseTerms] at h
    cases ht : parseTerm f s with
    | none =>
      rw [ht] at h; simp at h
      obtain ⟨e1, e2⟩ := h
      subst e1; subst e2
      exact ⟨[], [], rfl, DenPre.nil, Equiv.refl _⟩
    | some p =>
      obtain ⟨c1, r1⟩ := p
      rw [ht] at h
      simp only at h
      obtain ⟨u1, o1, hu1, hp1, he1⟩ := ih.1 _ _ _ ht
      cases hts : parseTerms f r1 with
      | none => rw [hts] at h; simp at h; exact ⟨u1, o1, by rw [← h.2]; exact hu1, hp1, by rw [← h.1]; exact he1⟩
      | some q =>
        obtain ⟨c2, r2⟩ := q
        rw [hts] at h
        simp at h
        obtain ⟨u2, o2, hu2, hp2, he2⟩ := ih.2 _ _ _ hts
        exact ⟨u1 ++ u2, o1 ++ o2, by rw [← h.2, List.append_assoc, ← hu2]; exact hu1, hp1.append hp2,
          by rw [← h.1]; exact he1.append he2⟩

/-- **value soundness of the grammar**: whatever `parseStoich` accepts is the electron (empty composition) or a text with a
    denotation `occ`, and the returned dict has no duplicate keys, exactly the occurring keys, and per key the total of `occ` -/
theorem parseStoich_value_sound (s : List Char) (c : Comp) (h : parseStoich s = .ok c) :
    (s = ['e'] ∧ c = []) ∨ ∃ occ, Den s occ ∧ occ ≠ [] ∧ Equiv c occ ∧ (Comp.keys c).Nodup := by
  simp only [parseStoich] at h
  split at h
  · left; rename_i e; simp at h; exact ⟨e, h⟩
  · right
    cases hb : asFormula (parseTerms (3 * s.length + 3) s) with
    | none => rw [hb] at h; simp at h
    | some p =>
      obtain ⟨c1, r⟩ := p
      rw [hb] at h
      simp only at h
      split at h
      · rename_i hr
        simp at h; subst h
        cases hx : parseTerms (3 * s.length + 3) s with
        | none => rw [hx] at hb; simp [asFormula] at hb
        | some q =>
          obtain ⟨c', r'⟩ := q
          rw [hx] at hb
          simp only [asFormula] at hb
          split at hb
          · simp at hb
          · rename_i hne
            simp at hb
            obtain ⟨u, occ, hu, hp, he⟩ := (parse_value_sound _).2 _ _ _ hx
            obtain ⟨w, hw, hall⟩ := skipWs_spec r
            rw [hr, List.append_nil] at hw
            refine ⟨occ, ?_, he.ne_nil hne, by rw [← hb.1]; exact he.merge, by rw [← hb.1]; exact nodup_mergeComp _⟩
            have := (hp.append (denPre_ws hall)).den
            rw [hu, hb.2, hw]
            simpa using this
      · simp at h

end ChemModel.Formula

namespace ChemModel.Formula
open ChemModel.Gen

/-! ### value soundness of the whole `formula_to_composition` -/

theorem readOcc_cons (m : Rat) (occ : Comp) (rd : List (Rat × Comp)) : readOcc ((m, occ) :: rd) = scale m occ ++ readOcc rd := by
  simp [readOcc]

theorem PartReads.keys_pos {b : Bool} {p : List Char} {m : Rat} {occ : Comp} (h : PartReads b p m occ) :
    ∀ k ∈ Comp.keys occ, 1 ≤ k ∧ k ≤ 118 := by
  obtain ⟨ds, text, _, _, _, _, hd⟩ := h
  rcases hd with ⟨_, e⟩ | d
  · subst e; intro k hk; simp [Comp.keys] at hk
  · exact d.keys_pos

theorem PartsRead.keys_pos {b : Bool} {ps : List (List Char)} {rd : List (Rat × Comp)} (h : PartsRead b ps rd) :
    ∀ k ∈ Comp.keys (readOcc rd), 1 ≤ k ∧ k ≤ 118 := by
  induction h with
  | nil b => intro k hk; simp [readOcc, Comp.keys] at hk
  | cons b p ps m occ rd hp _ ih =>
    intro k hk
    rw [readOcc_cons, keys_append, keys_scale, List.mem_append] at hk
    rcases hk with e | e
    · exact hp.keys_pos k e
    · exact ih k e

theorem getLeadingInteger_val (p : List Char) :
    ∃ ds, p = ds ++ (getLeadingInteger p).2 ∧ (∀ c ∈ ds, c.isDigit = true) ∧
      (((getLeadingInteger p).1 : Nat) : Rat) = (if ds = [] then (1 : Rat) else ((digitsVal ds : Nat) : Rat)) := by
  obtain ⟨h1, h2⟩ := takeDigits_spec p
  simp only [getLeadingInteger]
  split
  · exact ⟨[], rfl, by simp, by simpa using natCast_one_rat⟩
  · rename_i hne
    exact ⟨(takeDigits p).1, h1, h2, by simp [hne]⟩

theorem parseStoich_reads (first : Bool) (ds text : List Char) (hd : ∀ c ∈ ds, c.isDigit = true) (hf : first = true → ds = [])
    (c1 : Comp) (h : parseStoich text = .ok c1) :
    ∃ occ, PartReads first (ds ++ text) (if ds = [] then 1 else ((digitsVal ds : Nat) : Rat)) occ ∧ Equiv c1 occ ∧ (Comp.keys c1).Nodup := by
  rcases parseStoich_value_sound text c1 h with ⟨e1, e2⟩ | ⟨occ, hden, _, heq, hnd⟩
  · subst e2
    exact ⟨[], ⟨ds, text, rfl, hd, hf, rfl, Or.inl ⟨e1, rfl⟩⟩, Equiv.refl _, by simp [Comp.keys]⟩
  · exact ⟨occ, ⟨ds, text, rfl, hd, hf, rfl, Or.inr hden⟩, heq, hnd⟩

/-- the accumulated dict `c` extends `tot` by the scaled occurrences of the remaining parts -/
structure Extends (tot c : Comp) (occ : Comp) : Prop where
  total : ∀ k, total c k = total tot k + total occ k
  keys : ∀ k, k ∈ Comp.keys c ↔ k ∈ Comp.keys tot ∨ k ∈ Comp.keys occ
  nodup : (Comp.keys tot).Nodup → (Comp.keys c).Nodup

theorem addScaled_extends (m : Rat) (tot c1 occ : Comp) (h : Equiv c1 occ) :
    Extends tot (addScaled m tot c1) (scale m occ) := by
  refine ⟨fun k => ?_, fun k => ?_, nodup_addScaled m tot c1⟩
  · rw [total_addScaled, total_scale, (h k).1]; grind
  · rw [mem_keys_addScaled, keys_scale, (h k).2]

theorem restLoop_value (ps : List (List Char)) : ∀ (tot c : Comp), restLoop tot ps = .ok c →
    ∃ rd, PartsRead false ps rd ∧ Extends tot c (readOcc rd) := by
  induction ps with
  | nil =>
    intro tot c h
    simp [restLoop] at h; subst h
    exact ⟨[], PartsRead.nil false, fun k => by simp only [readOcc, List.flatMap_nil, total]; grind,
      fun k => by simp [readOcc, Comp.keys], fun h => h⟩
  | cons p ps ih =>
    intro tot c h
    simp only [restLoop] at h
    cases hq : parseStoich (getLeadingInteger p).2 with
    | error e => rw [hq] at h; simp at h
    | ok c1 =>
      rw [hq] at h
      simp only at h
      obtain ⟨ds, hds, hd, hm⟩ := getLeadingInteger_val p
      obtain ⟨occ, hreads, heq, _⟩ := parseStoich_reads false ds _ hd (by simp) c1 hq
      obtain ⟨rd, hrd, hext⟩ := ih _ _ h
      rw [hm] at hext
      have hstep := addScaled_extends (if ds = [] then 1 else ((digitsVal ds : Nat) : Rat)) tot c1 occ heq
      refine ⟨(_, occ) :: rd, PartsRead.cons false p ps _ occ rd (by rw [hds]; exact hreads) hrd, ?_, ?_, ?_⟩
      · intro k; rw [hext.total, hstep.total, readOcc_cons, total_append]; grind
      · intro k; rw [hext.keys, hstep.keys, readOcc_cons, keys_append, List.mem_append]; grind
      · intro hn; exact hext.nodup (hstep.nodup hn)

/-- value soundness of the part loop -/
theorem stoichToComp_value (a : List Char) (tot : Comp) (h : stoichToComp a = .ok tot) :
    ∃ rd, PartsRead true ((splitStoich a).1 :: (splitStoich a).2) rd ∧ Equiv tot (readOcc rd) ∧ (Comp.keys tot).Nodup := by
  rw [stoichToComp_eq] at h
  cases h0 : parseStoich (splitStoich a).1 with
  | error e => rw [h0] at h; simp at h
  | ok c0 =>
    rw [h0] at h
    simp only at h
    obtain ⟨occ, hreads, heq, _⟩ := parseStoich_reads true [] _ (by simp) (by simp) c0 h0
    obtain ⟨rd, hrd, hext⟩ := restLoop_value _ _ _ h
    have hstep := addScaled_extends 1 [] c0 occ heq
    simp only [if_true, List.nil_append] at hreads
    refine ⟨(1, occ) :: rd, PartsRead.cons true _ _ 1 occ rd hreads hrd, fun k => ⟨?_, ?_⟩, ?_⟩
    · rw [hext.total, hstep.total, readOcc_cons, total_append]; simp only [total]; grind
    · rw [hext.keys, hstep.keys, readOcc_cons, keys_append, List.mem_append]; simp [Comp.keys]
    · exact hext.nodup (hstep.nodup (by simp [Comp.keys]))

/-- **Value soundness for EVERY accepted input.** If the model of `formula_to_composition` accepts `s` with result `c`, then
    (with `pts` the code's own split of `s` into stoichiometry and charge token, cf. `accepted_shape`)
    * every hydrate part is read as leading-integer multiplier × (electron | a text with a denotation `Den`),
    * `c` has no duplicate keys; its keys are the occurring elements plus 0 iff a charge token is present,
    * for every element `k`, `c[k]` is the sum over all occurrences of `k` of the product of the enclosing multipliers,
    * `c[0]` is the value of the charge token. -/
theorem formulaToCompositionL_value (s : List Char) (c : Comp) (h : formulaToCompositionL s = .ok c) :
    ∃ pts rd, formulaToParts prefixesL suffixesL s = .ok pts ∧
      PartsRead true ((splitStoich pts.stoich).1 :: (splitStoich pts.stoich).2) rd ∧
      (Comp.keys c).Nodup ∧
      (∀ k, k ∈ Comp.keys c ↔ (k ∈ Comp.keys (readOcc rd) ∨ (k = 0 ∧ pts.chg.isSome = true))) ∧
      (∀ k, k ≠ 0 → Comp.get? c k = if k ∈ Comp.keys (readOcc rd) then some (total (readOcc rd) k) else none) ∧
      (∀ chg, pts.chg = some chg → ∃ q, getCharge chg = .ok q ∧ Comp.get? c 0 = some (q : Rat)) := by
  simp only [formulaToCompositionL, formulaToCompositionWith] at h
  cases hp : formulaToParts prefixesL suffixesL s with
  | error e => rw [hp] at h; simp at h
  | ok pts =>
    rw [hp] at h
    simp only at h
    cases hs : stoichToComp pts.stoich with
    | error e => rw [hs] at h; simp at h
    | ok tot =>
      rw [hs] at h
      simp only at h
      obtain ⟨rd, hrd, heq, hnd⟩ := stoichToComp_value _ _ hs
      have h0 : 0 ∉ Comp.keys tot := by
        intro hc
        have := hrd.keys_pos 0 ((heq 0).2.mp hc)
        omega
      have hval : ∀ k, Comp.get? tot k = if k ∈ Comp.keys (readOcc rd) then some (total (readOcc rd) k) else none := by
        intro k
        by_cases hk : k ∈ Comp.keys tot
        · rw [get?_some tot k hnd hk, if_pos ((heq k).2.mp hk), (heq k).1]
        · rw [get?_none tot k hk, if_neg (fun h' => hk ((heq k).2.mpr h'))]
      refine ⟨pts, rd, rfl, hrd, ?_⟩
      cases hc : pts.chg with
      | none =>
        rw [hc] at h
        simp only [Except.ok.injEq] at h
        subst h
        exact ⟨hnd, fun k => by rw [(heq k).2]; simp, fun k _ => hval k, fun chg e => by simp at e⟩
      | some chg =>
        rw [hc] at h
        simp only at h
        cases hg : getCharge chg with
        | error e => rw [hg] at h; simp at h
        | ok q =>
          rw [hg] at h
          simp only [Except.ok.injEq] at h
          subst h
          rw [setKey_not_mem 0 _ _ h0]
          have hkeys : Comp.keys (tot ++ [(0, (q : Rat))]) = Comp.keys tot ++ [0] := by simp [Comp.keys]
          refine ⟨?_, ?_, ?_, ?_⟩
          · rw [hkeys]
            apply List.nodup_append.mpr
            refine ⟨hnd, by simp, ?_⟩
            intro a ha b hb; simp at hb; subst hb
            intro e; subst e; exact h0 ha
          · intro k; rw [hkeys, List.mem_append, (heq k).2]; simp
          · intro k hk
            by_cases hkt : k ∈ Comp.keys tot
            · rw [get?_append_mem _ _ k hkt]; exact hval k
            · rw [get?_append_not_mem _ _ k hkt, if_neg (fun h' => hkt ((heq k).2.mpr h'))]
              have hk' : ¬ 0 = k := fun e => hk e.symm
              simp [Comp.get?, hk']
          · intro chg' e
            simp at e; subst e
            exact ⟨q, hg, by rw [get?_append_not_mem _ _ 0 h0]; simp [Comp.get?]⟩

end ChemModel.Formula

namespace ChemModel.Formula
open ChemModel.Gen

/-! ### the electron with any charge token and suffix -/

/-- a default prefix beginning with `e` continues with a lowercase letter (so `e+`, `e-`, `e(aq)` are not mistaken for one) -/
theorem prefixes_e : prefixesL.all (fun p => match p with
    | 'e' :: c :: _ => c.isLower
    | ['e'] => false
    | _ => true) = true := by decide +kernel

theorem prefix_not_electron (p : List Char) (hp : p ∈ prefixesL) (rest : List Char) (hr : NotLower rest) :
    ¬ p <+: 'e' :: rest := by
  have h1 := List.all_eq_true.mp prefixes_e p hp
  have h2 := List.all_eq_true.mp prefixes_start p hp
  intro hpre
  cases p with
  | nil => simp at h2
  | cons c p' =>
    obtain ⟨hc, hp'⟩ := List.cons_prefix_cons.mp hpre
    subst hc
    cases p' with
    | nil => simp at h1
    | cons d p'' =>
      simp only at h1
      cases rest with
      | nil => simp at hp'
      | cons x xs =>
        have hd := (List.cons_prefix_cons.mp hp').1
        subst hd
        have := hr d rfl
        rw [h1] at this; exact absurd this (by decide)

theorem electron_text_notLower (ch : Option Charge) (sfx : Option (List Char)) (hs : ∀ x, sfx = some x → x ∈ suffixesL) :
    NotLower (renderCharge ch ++ renderSuffix sfx) := by
  intro d hd
  cases ch with
  | some c => simp [renderCharge, Charge.render_eq] at hd; subst hd; cases c.neg <;> decide
  | none =>
    cases sfx with
    | none => simp [renderCharge, renderSuffix] at hd
    | some x =>
      obtain ⟨w, e, _, _⟩ := suffix_shape_of_mem x (hs x rfl)
      subst e; simp [renderCharge, renderSuffix] at hd; subst hd; decide

/-- **The electron.** `e` followed by any well-formed charge token (`+`, `-`, `-1`, `+2`, … or none) and any default phase
    suffix (or none) parses to the bare charge: `{0: q}`, or `{}` without a charge token. -/
theorem electron_parse (ch : Option Charge) (hch : ∀ c, ch = some c → c.wf = true)
    (sfx : Option (List Char)) (hs : ∀ x, sfx = some x → x ∈ suffixesL) :
    formulaToCompositionL ('e' :: (renderCharge ch ++ renderSuffix sfx)) = .ok (finish ch []) := by
  have hstrip := stripPrefixes_sublist prefixesL prefixes_incomparable [] (List.nil_sublist _)
    ('e' :: (renderCharge ch ++ renderSuffix sfx))
    (fun p hp => prefix_not_electron p hp _ (electron_text_notLower ch sfx hs))
  simp only [List.flatten_nil, List.nil_append] at hstrip
  have hbody : ∀ σ ∈ suffixesL, ¬ σ <:+ ['e'] ++ renderCharge ch := by
    intro σ hσ
    cases ch with
    | none => simpa [renderCharge] using no_suffix_of_last σ hσ [] 'e' (by decide)
    | some c =>
      have hd := chargeDigits_digits c (hch c rfl)
      simp only [renderCharge, Charge.render_eq]
      by_cases hnil : chargeDigits c = []
      · rw [hnil]
        exact no_suffix_of_last σ hσ ['e'] _ (by cases c.neg <;> decide)
      · have e : ['e'] ++ (if c.neg = true then '-' else '+') :: chargeDigits c
            = (['e'] ++ (if c.neg = true then '-' else '+') :: (chargeDigits c).dropLast) ++ [(chargeDigits c).getLast hnil] := by
          simp [List.dropLast_concat_getLast hnil]
        rw [e]
        exact no_suffix_of_last σ hσ _ _ (isDigit_ne (hd _ (List.getLast_mem hnil)) (by decide))
  have hsuff : (stripSuffixes suffixesL ((['e'] ++ renderCharge ch) ++ renderSuffix sfx)).2 = ['e'] ++ renderCharge ch := by
    cases sfx with
    | none => simpa [renderSuffix] using stripSuffixes_none suffixesL _ hbody
    | some x => exact stripSuffixes_one suffixesL suffixes_incomparable _ x (hs x rfl) hbody
  have hcf : ChargeFree ['e'] := ⟨by decide, by decide, by decide⟩
  have hst : stoichToComp ['e'] = .ok [] := by decide +kernel
  have hrender : 'e' :: (renderCharge ch ++ renderSuffix sfx) = (['e'] ++ renderCharge ch) ++ renderSuffix sfx := by simp
  cases hss : stripSuffixes suffixesL ((['e'] ++ renderCharge ch) ++ renderSuffix sfx) with
  | mk ds s2 =>
    rw [hss] at hsuff
    simp only at hsuff
    subst hsuff
    have hcas := charge_cascade ['e'] hcf ch hch [] ds.reverse
    have hparts : formulaToParts prefixesL suffixesL ('e' :: (renderCharge ch ++ renderSuffix sfx))
        = .ok ⟨['e'], ch.map Charge.render, [], ds.reverse⟩ := by
      simp only [formulaToParts, hstrip]
      rw [hrender, hss]
      exact hcas
    simp only [formulaToCompositionL, formulaToCompositionWith, hparts, hst]
    cases ch with
    | none => simp [finish]
    | some c => simp [finish, getCharge_render c (hch c rfl)]

end ChemModel.Formula
