/-
C01 helper lemmas, outer layers of `formula_to_composition` on rendered text:
prefix / suffix peeling, charge token, hydrate split, leading integers, the accumulation loop.
-/
import ChemModel.Proofs.FormulaComp

set_option linter.constructorNameAsVariable false

namespace ChemModel.Formula
open ChemModel.Gen

/-! ### prefix stripping (generic in the prefix list) -/

/-- neither is an initial segment of the other -/
def PrefIncomp (a b : List Char) : Prop := ¬ a <+: b ∧ ¬ b <+: a

theorem stripPrefixes_sublist (ps : List (List Char)) (hpw : ps.Pairwise PrefIncomp) :
    ∀ (qs : List (List Char)), qs.Sublist ps → ∀ body : List Char, (∀ p ∈ ps, ¬ p <+: body) →
      stripPrefixes ps (qs.flatten ++ body) = (qs, body) := by
  induction ps with
  | nil =>
    intro qs hs body _
    have : qs = [] := by simpa using hs
    subst this; simp [stripPrefixes]
  | cons p ps ih =>
    intro qs hs body hb
    have hpw' := (List.pairwise_cons.mp hpw)
    have hb' : ∀ q ∈ ps, ¬ q <+: body := fun q hq => hb q (by simp [hq])
    cases hs with
    | cons _ hs' =>
      -- p is not written: it must not match
      have hno : ¬ p <+: (qs.flatten ++ body) := by
        intro hp
        cases qs with
        | nil => exact hb p (by simp) (by simpa using hp)
        | cons q qs' =>
          have hq : q ∈ ps := hs'.subset (by simp)
          have hq2 : q <+: (q :: qs').flatten ++ body := by simp [List.append_assoc]
          rcases List.prefix_or_prefix_of_prefix hp hq2 with h | h
          · exact (hpw'.1 q hq).1 h
          · exact (hpw'.1 q hq).2 h
      have hno' : p.isPrefixOf (qs.flatten ++ body) = false := by
        cases h : p.isPrefixOf (qs.flatten ++ body) with
        | false => rfl
        | true => exact absurd (List.isPrefixOf_iff_prefix.mp h) hno
      simp only [stripPrefixes, hno']
      exact ih hpw'.2 qs hs' body hb'
    | cons_cons _ hs' =>
      rename_i qs'
      have hyes : p.isPrefixOf ((p :: qs').flatten ++ body) = true := by
        apply List.isPrefixOf_iff_prefix.mpr; simp [List.append_assoc]
      have hdrop : ((p :: qs').flatten ++ body).drop p.length = qs'.flatten ++ body := by
        simp [List.append_assoc]
      simp only [stripPrefixes, hyes, hdrop, if_true]
      rw [ih hpw'.2 qs' hs' body hb']

/-! ### suffix stripping (generic in the suffix list) -/

def SuffIncomp (a b : List Char) : Prop := ¬ a <:+ b ∧ ¬ b <:+ a

theorem isSuffixOf_false {a b : List Char} (h : ¬ a <:+ b) : a.isSuffixOf b = false := by
  cases h' : a.isSuffixOf b with
  | false => rfl
  | true => exact absurd (List.isSuffixOf_iff_suffix.mp h') h

/-- nothing to strip -/
theorem stripSuffixes_none (ss : List (List Char)) (body : List Char) (hb : ∀ s ∈ ss, ¬ s <:+ body) :
    (stripSuffixes ss body).2 = body := by
  induction ss with
  | nil => rfl
  | cons s ss ih =>
    simp only [stripSuffixes, isSuffixOf_false (hb s (by simp))]
    exact ih (fun t ht => hb t (by simp [ht]))

/-- exactly the written suffix is stripped -/
theorem stripSuffixes_one (ss : List (List Char)) (hpw : ss.Pairwise SuffIncomp) (body sfx : List Char)
    (hmem : sfx ∈ ss) (hb : ∀ s ∈ ss, ¬ s <:+ body) :
    (stripSuffixes ss (body ++ sfx)).2 = body := by
  induction ss with
  | nil => simp at hmem
  | cons s ss ih =>
    have hpw' := List.pairwise_cons.mp hpw
    have hb' : ∀ t ∈ ss, ¬ t <:+ body := fun t ht => hb t (by simp [ht])
    have hne : sfx ≠ [] := by
      intro e; subst e; exact hb [] hmem (List.nil_suffix)
    rcases List.mem_cons.mp hmem with e | hin
    · subst e
      have hyes : sfx.isSuffixOf (body ++ sfx) = true := List.isSuffixOf_iff_suffix.mpr (List.suffix_append _ _)
      have hlen : sfx.length ≠ 0 := by simpa using hne
      have htake : (body ++ sfx).take ((body ++ sfx).length - sfx.length) = body := by
        rw [List.length_append, Nat.add_sub_cancel]; exact List.take_left' rfl
      simp only [stripSuffixes, hyes, if_true, if_neg hlen, htake]
      exact stripSuffixes_none ss body hb'
    · have hno : ¬ s <:+ body ++ sfx := by
        intro hs
        rcases List.suffix_or_suffix_of_suffix hs (List.suffix_append body sfx) with h | h
        · exact (hpw'.1 sfx hin).1 h
        · exact (hpw'.1 sfx hin).2 h
      simp only [stripSuffixes, isSuffixOf_false hno]
      exact ih hpw'.2 hin hb'

/-! ### characters of rendered text -/

/-- not one of the characters the outer layers search for -/
structure StoichC (c : Char) : Prop where
  slash : c ≠ '/'
  plus : c ≠ '+'
  minus : c ≠ '-'
  cdot : c ≠ '·'

theorem stoichC_alpha {c : Char} (h : c.isAlpha = true) : StoichC c := by
  have f := isUpper_alpha_facts c h
  exact ⟨f.2.2.2.2.2.1, f.2.2.2.2.2.2.1, f.2.2.2.2.2.2.2.1, f.2.2.2.2.2.2.2.2.1⟩

theorem stoichC_digit {c : Char} (h : c.isDigit = true) : StoichC c :=
  ⟨isDigit_ne h (by decide), isDigit_ne h (by decide), isDigit_ne h (by decide), isDigit_ne h (by decide)⟩

def AllC (P : Char → Prop) (s : List Char) : Prop := ∀ c ∈ s, P c

theorem AllC.append {P : Char → Prop} {a b : List Char} (ha : AllC P a) (hb : AllC P b) : AllC P (a ++ b) := by
  intro c hc
  rcases List.mem_append.mp hc with h | h
  · exact ha c h
  · exact hb c h

theorem AllC.cons {P : Char → Prop} {c : Char} {r : List Char} (hc : P c) (hr : AllC P r) : AllC P (c :: r) := by
  intro d hd
  rcases List.mem_cons.mp hd with h | h
  · subst h; exact hc
  · exact hr d h

theorem AllC.nil {P : Char → Prop} : AllC P [] := by intro c hc; simp at hc

/-- every '.' is immediately followed by a digit -/
def dotsOK : List Char → Bool
  | [] => true
  | c :: r => (c != '.' || (match r with | d :: _ => d.isDigit | [] => false)) && dotsOK r

theorem dotsOK_append {a b : List Char} (ha : dotsOK a = true) (hb : dotsOK b = true) : dotsOK (a ++ b) = true := by
  induction a with
  | nil => simpa using hb
  | cons c r ih =>
    simp only [dotsOK, Bool.and_eq_true, Bool.or_eq_true, bne_iff_ne] at ha
    simp only [List.cons_append, dotsOK, Bool.and_eq_true, Bool.or_eq_true, bne_iff_ne]
    refine ⟨?_, ih ha.2⟩
    rcases ha.1 with h | h
    · exact Or.inl h
    · cases r with
      | nil => simp at h
      | cons d r' => exact Or.inr (by simpa using h)

theorem dotsOK_noDot {s : List Char} (h : ∀ c ∈ s, c ≠ '.') : dotsOK s = true := by
  induction s with
  | nil => rfl
  | cons c r ih =>
    simp only [dotsOK, Bool.and_eq_true, Bool.or_eq_true, bne_iff_ne]
    exact ⟨Or.inl (h c (by simp)), ih (fun d hd => h d (by simp [hd]))⟩

theorem dotsOK_digits {s : List Char} (h : ∀ c ∈ s, c.isDigit = true) : dotsOK s = true :=
  dotsOK_noDot (fun c hc => isDigit_ne (h c hc) (by decide))

theorem stoichC_cnt (n : Cnt) (hn : n.wf = true) : AllC StoichC n.render ∧ dotsOK n.render = true := by
  cases n with
  | omitted => exact ⟨AllC.nil, rfl⟩
  | int ip =>
    have hd := ((isDigits_iff ip).mp hn).2
    exact ⟨fun c hc => stoichC_digit (hd c hc), dotsOK_digits hd⟩
  | dec ip fp =>
    simp only [Cnt.wf, Bool.and_eq_true] at hn
    have hd1 := ((isDigits_iff ip).mp hn.1).2
    obtain ⟨hne2, hd2⟩ := (isDigits_iff fp).mp hn.2
    refine ⟨AllC.append (fun c hc => stoichC_digit (hd1 c hc))
      (AllC.cons ⟨by decide, by decide, by decide, by decide⟩ (fun c hc => stoichC_digit (hd2 c hc))), ?_⟩
    simp only [Cnt.render]
    apply dotsOK_append (dotsOK_digits hd1)
    cases fp with
    | nil => exact absurd rfl hne2
    | cons d ds =>
      simp only [dotsOK, Bool.and_eq_true, Bool.or_eq_true, bne_iff_ne]
      have := dotsOK_digits hd2
      simp only [dotsOK, Bool.and_eq_true, Bool.or_eq_true, bne_iff_ne] at this
      exact ⟨Or.inr (hd2 d (by simp)), this⟩

theorem stoichC_st (st : Option St) : AllC StoichC (stText st) ∧ dotsOK (stText st) = true := by
  cases st with
  | none => exact ⟨AllC.nil, rfl⟩
  | some x =>
    have key : ∀ s : St, (∀ c ∈ s.text, c ≠ '/' ∧ c ≠ '+' ∧ c ≠ '-' ∧ c ≠ '·') ∧ dotsOK s.text = true := by
      intro s; cases s <;> decide
    exact ⟨fun c hc => ⟨((key x).1 c hc).1, ((key x).1 c hc).2.1, ((key x).1 c hc).2.2.1, ((key x).1 c hc).2.2.2⟩, (key x).2⟩

theorem stoichC_marks {l : List Char} (h : ∀ c ∈ l, isMark c = true) : AllC StoichC l ∧ dotsOK l = true := by
  refine ⟨fun c hc => ?_, dotsOK_noDot (fun c hc => ?_)⟩
  · rcases isMark_cases (h c hc) with e | e <;> subst e <;> exact ⟨by decide, by decide, by decide, by decide⟩
  · rcases isMark_cases (h c hc) with e | e <;> subst e <;> decide

theorem stoichC_sym {z : Nat} (h1 : 1 ≤ z) (h2 : z ≤ 118) : AllC StoichC (symChars z) ∧ dotsOK (symChars z) = true :=
  ⟨fun c hc => stoichC_alpha ((symOK h1 h2).alpha c hc),
   dotsOK_noDot (fun c hc => (isUpper_alpha_facts c ((symOK h1 h2).alpha c hc)).2.1)⟩

theorem stoichC_br (b : Br) : StoichC b.op ∧ StoichC b.cl ∧ b.op ≠ '.' ∧ b.cl ≠ '.' := by
  cases b <;> exact ⟨⟨by decide, by decide, by decide, by decide⟩, ⟨by decide, by decide, by decide, by decide⟩, by decide, by decide⟩

theorem dotsOK_cons_ne {c : Char} {r : List Char} (hc : c ≠ '.') (hr : dotsOK r = true) : dotsOK (c :: r) = true := by
  simp only [dotsOK, Bool.and_eq_true, Bool.or_eq_true, bne_iff_ne]
  exact ⟨Or.inl hc, hr⟩

mutual
theorem Term.render_chars : ∀ (t : Term), t.wf = true → AllC StoichC t.render ∧ dotsOK t.render = true
  | .elem z n st marks, h => by
    obtain ⟨h1, h2, hn, hm⟩ := Term.wf_elem h
    simp only [Term.render]
    exact ⟨(stoichC_sym h1 h2).1.append ((stoichC_cnt n hn).1.append ((stoichC_st st).1.append (stoichC_marks hm).1)),
      dotsOK_append (stoichC_sym h1 h2).2 (dotsOK_append (stoichC_cnt n hn).2 (dotsOK_append (stoichC_st st).2 (stoichC_marks hm).2))⟩
  | .group b body n st marks, h => by
    obtain ⟨hb, _, hn, hm⟩ := Term.wf_group h
    have ih := Terms.render_chars body hb
    have hbr := stoichC_br b
    simp only [Term.render]
    have htail : AllC StoichC (n.render ++ (stText st ++ marks)) ∧ dotsOK (n.render ++ (stText st ++ marks)) = true :=
      ⟨(stoichC_cnt n hn).1.append ((stoichC_st st).1.append (stoichC_marks hm).1),
       dotsOK_append (stoichC_cnt n hn).2 (dotsOK_append (stoichC_st st).2 (stoichC_marks hm).2)⟩
    exact ⟨AllC.cons hbr.1 (ih.1.append (AllC.cons hbr.2.1 htail.1)),
      dotsOK_cons_ne hbr.2.2.1 (dotsOK_append ih.2 (dotsOK_cons_ne hbr.2.2.2 htail.2))⟩
  | .cage body, h => by
    have ih := Terms.render_chars body (Term.wf_cage h).1
    simp only [Term.render]
    exact ⟨AllC.cons ⟨by decide, by decide, by decide, by decide⟩ ih.1, dotsOK_cons_ne (by decide) ih.2⟩
theorem Terms.render_chars : ∀ (ts : Terms), ts.wf = true → AllC StoichC ts.render ∧ dotsOK ts.render = true
  | .nil, _ => ⟨AllC.nil, rfl⟩
  | .cons t ts, h => by
    have h1 := Term.render_chars t (Terms.wf_cons h).1
    have h2 := Terms.render_chars ts (Terms.wf_cons h).2.1
    simp only [Terms.render]
    exact ⟨h1.1.append h2.1, dotsOK_append h1.2 h2.2⟩
end

end ChemModel.Formula
