/-
C01: integer-only formulas give integer amounts (the model-side counterpart of Python's `n == int(n)` narrowing and the
basis of the harness rule "integer-only formulas must agree exactly").
-/
import ChemModel.Proofs.FormulaInt

set_option linter.constructorNameAsVariable false

namespace ChemModel.Formula

/-- the rational is a natural number -/
def IsNat (q : Rat) : Prop := ∃ n : Nat, q = (n : Rat)

theorem IsNat.mul {a b : Rat} (ha : IsNat a) (hb : IsNat b) : IsNat (a * b) := by
  obtain ⟨m, rfl⟩ := ha; obtain ⟨n, rfl⟩ := hb
  exact ⟨m * n, (Rat.natCast_mul m n).symm⟩

theorem IsNat.add {a b : Rat} (ha : IsNat a) (hb : IsNat b) : IsNat (a + b) := by
  obtain ⟨m, rfl⟩ := ha; obtain ⟨n, rfl⟩ := hb
  exact ⟨m + n, (Rat.natCast_add m n).symm⟩

theorem isNat_one : IsNat 1 := ⟨1, natCast_one_rat.symm⟩
theorem isNat_zero : IsNat 0 := ⟨0, rfl⟩

theorem Cnt.val_isNat (n : Cnt) (h : n.isDec = false) : IsNat n.val := by
  cases n with
  | omitted => exact isNat_one
  | int ip => exact ⟨digitsVal ip, rfl⟩
  | dec ip fp => simp [Cnt.isDec] at h

/-- all amounts of an occurrence list are natural numbers -/
def AllNat (c : Comp) : Prop := ∀ p ∈ c, IsNat p.2

theorem AllNat.append {a b : Comp} (ha : AllNat a) (hb : AllNat b) : AllNat (a ++ b) := by
  intro p hp; rcases List.mem_append.mp hp with h | h
  · exact ha p h
  · exact hb p h

theorem total_isNat (c : Comp) (h : AllNat c) (k : Nat) : IsNat (total c k) := by
  induction c with
  | nil => exact isNat_zero
  | cons p ps ih =>
    rw [total_cons]
    refine IsNat.add ?_ (ih (fun q hq => h q (by simp [hq])))
    split
    · exact h p (by simp)
    · exact isNat_zero

mutual
theorem Term.occ_allNat : ∀ (t : Term) (m : Rat), IsNat m → t.noDec = true → AllNat (t.occ m)
  | .elem z n st marks, m, hm, h => by
    simp only [Term.noDec, Bool.not_eq_true'] at h
    intro p hp; simp [Term.occ] at hp; subst hp
    exact hm.mul (Cnt.val_isNat n h)
  | .group b body n st marks, m, hm, h => by
    simp only [Term.noDec, Bool.and_eq_true, Bool.not_eq_true'] at h
    simp only [Term.occ]
    exact Terms.occ_allNat body _ (hm.mul (Cnt.val_isNat n h.2)) h.1
  | .cage body, m, hm, h => by
    simp only [Term.noDec] at h
    simp only [Term.occ]
    exact Terms.occ_allNat body m hm h
theorem Terms.occ_allNat : ∀ (ts : Terms) (m : Rat), IsNat m → ts.noDec = true → AllNat (ts.occ m)
  | .nil, _, _, _ => by intro p hp; simp [Terms.occ] at hp
  | .cons t ts, m, hm, h => by
    simp only [Terms.noDec, Bool.and_eq_true] at h
    simp only [Terms.occ]
    exact (Term.occ_allNat t m hm h.1).append (Terms.occ_allNat ts m hm h.2)
end

theorem Part.mult_isNat (p : Part) : IsNat p.mult := by
  unfold Part.mult
  cases p.n with
  | none => exact isNat_one
  | some ds => exact ⟨digitsVal ds, rfl⟩

theorem occurrences_allNat (f : Formula) (h : f.noDecimal = true) : AllNat f.occurrences := by
  simp only [Formula.noDecimal, List.all_eq_true] at h
  unfold Formula.occurrences
  intro q hq
  obtain ⟨p, hp, hqp⟩ := List.mem_flatMap.mp hq
  exact Terms.occ_allNat p.terms p.mult (Part.mult_isNat p) (h p hp) q hqp

/-- for an integer-only formula every element amount of the denotation is a natural number -/
theorem denote_isNat (f : Formula) (h : f.noDecimal = true) (k : Nat) (hk : k ≠ 0) : IsNat (f.denote k) := by
  simp only [Formula.denote, if_neg hk]
  exact total_isNat _ (occurrences_allNat f h) k

end ChemModel.Formula
