/-
C01 helper lemmas, grammar layer: the recursive-descent parser reads a rendered well-formed term list
(any nesting, any length) back as the list of pairs `Terms.flat` — induction on the AST, generalised over the
remaining input (closing bracket / end).
-/
import ChemModel.Proofs.FormulaLex

set_option linter.constructorNameAsVariable false

namespace ChemModel.Formula
open ChemModel.Gen

mutual
/-- what the parser returns for a term: pairs of the term, groups summed per element and scaled -/
def Term.flat : Term → Comp
  | .elem z n _ _ => [(z, n.val)]
  | .group _ body n _ _ => scale n.val (mergeComp body.flat)
  | .cage body => scale 1 (mergeComp body.flat)
def Terms.flat : Terms → Comp
  | .nil => []
  | .cons t ts => t.flat ++ ts.flat
end

mutual
def Term.size : Term → Nat
  | .elem _ _ _ _ => 1
  | .group _ body _ _ _ => body.size + 2
  | .cage body => body.size + 1
def Terms.size : Terms → Nat
  | .nil => 1
  | .cons t ts => t.size + ts.size + 1
end

/-! ### small facts -/

theorem mergeInto_ne_nil (acc c : Comp) (h : acc ≠ [] ∨ c ≠ []) : mergeInto acc c ≠ [] := by
  induction c generalizing acc with
  | nil => simpa [mergeInto] using h
  | cons p ps ih =>
    simp only [mergeInto, List.foldl_cons]
    apply ih
    left
    cases acc with
    | nil => simp [addKey]
    | cons a as => simp only [addKey]; split <;> simp

theorem mergeComp_ne_nil (c : Comp) (h : c ≠ []) : mergeComp c ≠ [] :=
  mergeInto_ne_nil [] c (Or.inr h)

theorem scale_ne_nil (m : Rat) (c : Comp) (h : c ≠ []) : scale m c ≠ [] := by
  cases c <;> simp_all [scale]

theorem Terms.isNil_eq_false {ts : Terms} (h : ts.isNil = false) : ∃ t r, ts = .cons t r := by
  cases ts with
  | nil => simp [Terms.isNil] at h
  | cons t r => exact ⟨t, r, rfl⟩

theorem Terms.isNil_eq_true {ts : Terms} (h : ts.isNil = true) : ts = .nil := by
  cases ts with
  | nil => rfl
  | cons t r => simp [Terms.isNil] at h

theorem Term.wf_elem {z n st marks} (h : (Term.elem z n st marks).wf = true) :
    1 ≤ z ∧ z ≤ 118 ∧ n.wf = true ∧ ∀ c ∈ marks, isMark c = true := by
  simp only [Term.wf, Bool.and_eq_true, decide_eq_true_eq, List.all_eq_true] at h
  exact ⟨h.1.1.1, h.1.1.2, h.1.2, h.2⟩

theorem Term.wf_group {b body n st marks} (h : (Term.group b body n st marks).wf = true) :
    body.wf = true ∧ body.isNil = false ∧ n.wf = true ∧ ∀ c ∈ marks, isMark c = true := by
  simp only [Term.wf, Bool.and_eq_true, Bool.not_eq_true', List.all_eq_true] at h
  exact ⟨h.1.1.1, h.1.1.2, h.1.2, h.2⟩

theorem Term.wf_cage {body} (h : (Term.cage body).wf = true) : body.wf = true ∧ body.isNil = false := by
  simp only [Term.wf, Bool.and_eq_true, Bool.not_eq_true'] at h
  exact h

theorem Terms.wf_cons {t ts} (h : (Terms.cons t ts).wf = true) :
    t.wf = true ∧ ts.wf = true ∧ (t.isCage = true → ts = .nil) := by
  simp only [Terms.wf, Bool.and_eq_true, Bool.or_eq_true, Bool.not_eq_true'] at h
  refine ⟨h.1.1, h.1.2, fun hc => ?_⟩
  rcases h.2 with h2 | h2
  · rw [hc] at h2; exact absurd h2 (by decide)
  · exact Terms.isNil_eq_true h2

mutual
theorem Term.flat_ne_nil : ∀ (t : Term), t.wf = true → t.flat ≠ []
  | .elem z n st marks, _ => by simp [Term.flat]
  | .group b body n st marks, h => by
    obtain ⟨hb, hne, _, _⟩ := Term.wf_group h
    exact scale_ne_nil _ _ (mergeComp_ne_nil _ (Terms.flat_ne_nil body hb hne))
  | .cage body, h => by
    obtain ⟨hb, hne⟩ := Term.wf_cage h
    exact scale_ne_nil _ _ (mergeComp_ne_nil _ (Terms.flat_ne_nil body hb hne))
theorem Terms.flat_ne_nil : ∀ (ts : Terms), ts.wf = true → ts.isNil = false → ts.flat ≠ []
  | .nil, _, h => by simp [Terms.isNil] at h
  | .cons t ts, h, _ => by
    have := Term.flat_ne_nil t (Terms.wf_cons h).1
    simp [Terms.flat, this]
end

/-! ### shape of rendered text -/

theorem noWs_sym {z : Nat} (h1 : 1 ≤ z) (h2 : z ≤ 118) : NoWs (symChars z) :=
  fun c hc => (isUpper_alpha_facts c ((symOK h1 h2).alpha c hc)).2.2.1

theorem op_noWs (b : Br) : isWs b.op = false := by cases b <;> decide
theorem cl_noWs (b : Br) : isWs b.cl = false := by cases b <;> decide

mutual
theorem Term.render_noWs : ∀ (t : Term), t.wf = true → NoWs t.render
  | .elem z n st marks, h => by
    obtain ⟨h1, h2, hn, hm⟩ := Term.wf_elem h
    simp only [Term.render]
    exact (noWs_sym h1 h2).append ((noWs_cnt n hn).append ((noWs_stText st).append (noWs_marks hm)))
  | .group b body n st marks, h => by
    obtain ⟨hb, _, hn, hm⟩ := Term.wf_group h
    simp only [Term.render]
    exact NoWs.cons (op_noWs b) ((Terms.render_noWs body hb).append
      (NoWs.cons (cl_noWs b) ((noWs_cnt n hn).append ((noWs_stText st).append (noWs_marks hm)))))
  | .cage body, h => by
    simp only [Term.render]
    exact NoWs.cons (by decide) (Terms.render_noWs body (Term.wf_cage h).1)
theorem Terms.render_noWs : ∀ (ts : Terms), ts.wf = true → NoWs ts.render
  | .nil, _ => by intro c hc; simp [Terms.render] at hc
  | .cons t ts, h => by
    simp only [Terms.render]
    exact (Term.render_noWs t (Terms.wf_cons h).1).append (Terms.render_noWs ts (Terms.wf_cons h).2.1)
end

/-- first character of a rendered term: an uppercase letter, an opening bracket or '@' -/
def StartC (c : Char) : Prop := c.isUpper = true ∨ c = '(' ∨ c = '[' ∨ c = '{' ∨ c = '@'

theorem Term.render_head (t : Term) (ht : t.wf = true) (r : List Char) :
    ∃ c rest, t.render ++ r = c :: rest ∧ StartC c := by
  cases t with
  | elem z n st marks =>
    obtain ⟨h1, h2, _, _⟩ := Term.wf_elem ht
    have hs := symOK h1 h2
    simp only [Term.render]
    generalize symChars z = s at *
    cases s with
    | nil => have := hs.len; simp at this
    | cons a s1 => exact ⟨a, _, rfl, Or.inl (hs.upper a rfl)⟩
  | group b body n st marks =>
    refine ⟨b.op, _, rfl, ?_⟩
    cases b <;> simp [StartC, Br.op]
  | cage body => exact ⟨'@', _, rfl, by simp [StartC]⟩

theorem startC_followC {c : Char} (h : StartC c) : FollowC c := by
  rcases h with h | h | h | h | h
  · have ha : c.isAlpha = true := by simp [Char.isAlpha, h]
    have f := isUpper_alpha_facts c ha
    exact ⟨f.1, f.2.1, isUpper_notLower c h, f.2.2.2.1⟩
  all_goals (subst h; exact ⟨by decide, by decide, by decide, by decide⟩)

theorem startC_noState {c : Char} (h : StartC c) (r : List Char) (hr : ∀ d, r.head? = some d → d.isLower = false) :
    matchState (c :: r) = none := by
  by_cases hc : c = '('
  · subst hc
    cases r with
    | nil => rfl
    | cons d ds => exact matchState_paren_notLower d ds (hr d rfl)
  · exact matchState_head_ne c r hc

/-- a rendered term may follow a complete term -/
theorem Term.render_follow (t : Term) (ht : t.wf = true) (r : List Char) : Follow (t.render ++ r) := by
  obtain ⟨c, rest, he, hc⟩ := Term.render_head t ht r
  constructor
  · intro d hd
    rw [he] at hd; simp at hd; subst hd
    exact startC_followC hc
  · rw [he]
    by_cases hp : c = '('
    · subst hp
      -- a parenthesis group: its body starts with an uppercase letter / bracket / '@'
      cases t with
      | elem z n st marks =>
        obtain ⟨h1, h2, _, _⟩ := Term.wf_elem ht
        have hs := symOK h1 h2
        simp only [Term.render] at he
        generalize symChars z = s at *
        cases s with
        | nil => have := hs.len; simp at this
        | cons a s1 =>
          simp at he
          have := hs.upper a rfl
          rw [he.1] at this; exact absurd this (by decide)
      | group b body n st marks =>
        obtain ⟨hb, hne, _, _⟩ := Term.wf_group ht
        obtain ⟨t', ts', rfl⟩ := Terms.isNil_eq_false hne
        simp only [Term.render, Terms.render, List.cons_append, List.append_assoc] at he
        obtain ⟨d, rest', he', hd⟩ := Term.render_head t' (Terms.wf_cons hb).1
          (ts'.render ++ (b.cl :: (n.render ++ (stText st ++ marks)) ++ r))
        simp only [List.cons.injEq] at he
        rw [← he.2]
        simp only [List.append_assoc, List.cons_append] at he' ⊢
        rw [he']
        exact matchState_paren_notLower d rest' (startC_followC hd).notLower
      | cage body => simp [Term.render] at he
    · exact matchState_head_ne c rest hp

theorem Terms.render_follow (ts : Terms) (hts : ts.wf = true) (r : List Char) (hs : Stop r) :
    Follow (ts.render ++ r) := by
  cases ts with
  | nil => simpa [Terms.render] using stop_follow hs
  | cons t ts' =>
    simp only [Terms.render, List.append_assoc]
    exact Term.render_follow t (Terms.wf_cons hts).1 _

theorem closer_op (b : Br) : closer b.op = some b.cl := by cases b <;> rfl
theorem op_not_upper (b : Br) : b.op.isUpper = false := by cases b <;> decide
theorem op_ne_at (b : Br) : b.op ≠ '@' := by cases b <;> decide
theorem cl_isCloser (b : Br) : isCloser b.cl := by cases b <;> simp [isCloser, Br.cl]

theorem parseTerm_stop (fuel : Nat) (r : List Char) (hs : Stop r) (hws : NoWs r) : parseTerm fuel r = none := by
  cases fuel with
  | zero => simp [parseTerm]
  | succ f =>
    cases r with
    | nil => simp [parseTerm, skipWs, matchElem_nil]
    | cons c cs =>
      have hc := hs c (by simp)
      have hu : c.isUpper = false := by rcases hc with h | h | h <;> subst h <;> decide
      have hcl : closer c = none := by rcases hc with h | h | h <;> subst h <;> rfl
      have hat : c ≠ '@' := by rcases hc with h | h | h <;> subst h <;> decide
      simp [parseTerm, skipWs_noWs hws, matchElem_none_of_not_upper c cs hu, hcl, hat]

/-! ### the round trip at the grammar level -/

mutual
theorem parseTerm_render : ∀ (t : Term), t.wf = true → ∀ (r : List Char), Follow r → NoWs r →
    (t.isCage = true → Stop r) →
    ∀ fuel, t.size ≤ fuel → parseTerm fuel (t.render ++ r) = some (t.flat, r)
  | .elem z n st marks, ht, r, hr, hws, _, fuel, hf => by
    cases fuel with
    | zero => simp [Term.size] at hf
    | succ f =>
      obtain ⟨h1, h2, hn, hm⟩ := Term.wf_elem ht
      have hws' : NoWs ((Term.elem z n st marks).render ++ r) := (Term.render_noWs _ ht).append hws
      have hnl : NotLower (n.render ++ (stText st ++ (marks ++ r))) :=
        tail_head (fun c => c.isLower = false) n hn st marks r hm (fun c h => isDigit_notLower c h) (by decide)
          (fun c h => by rcases isMark_cases h with e | e <;> subst e <;> decide)
          (fun c h => (hr.head c h).notLower)
      have hm1 := matchElem_sym z h1 h2 _ hnl
      have hm2 := parseTail_render n hn st marks r hm hr hws
      simp only [Term.render, List.append_assoc] at hws' ⊢
      simp [parseTerm, skipWs_noWs hws', hm1, hm2, Term.flat]
  | .group b body n st marks, ht, r, hr, hws, _, fuel, hf => by
    obtain ⟨hb, hne, hn, hm⟩ := Term.wf_group ht
    cases fuel with
    | zero => simp [Term.size] at hf
    | succ f =>
      have hf' : body.size ≤ f := by simp [Term.size] at hf; omega
      have hws' : NoWs ((Term.group b body n st marks).render ++ r) := (Term.render_noWs _ ht).append hws
      simp only [Term.render, List.cons_append, List.append_assoc] at hws' ⊢
      have hwsc : NoWs (b.cl :: (n.render ++ (stText st ++ (marks ++ r)))) :=
        NoWs.of_append_right (a := body.render) (NoWs.of_cons hws')
      have hstop : Stop (b.cl :: (n.render ++ (stText st ++ (marks ++ r)))) := by
        intro c hc; simp at hc; subst hc; exact cl_isCloser b
      have ih := parseTerms_render body hb _ hstop hwsc f hf'
      have h2 := parseTail_render n hn st marks r hm hr hws
      have hd := Terms.flat_ne_nil body hb hne
      simp [parseTerm, skipWs_noWs hws', skipWs_noWs hwsc, matchElem_none_of_not_upper _ _ (op_not_upper b),
        op_ne_at b, closer_op, ih, asFormula, hd, h2, Term.flat]
  | .cage body, ht, r, hr, hws, hstop, fuel, hf => by
    obtain ⟨hb, hne⟩ := Term.wf_cage ht
    cases fuel with
    | zero => simp [Term.size] at hf
    | succ f =>
      have hf' : body.size ≤ f := by simp [Term.size] at hf; omega
      have hs := hstop rfl
      have hws' : NoWs ((Term.cage body).render ++ r) := (Term.render_noWs _ ht).append hws
      simp only [Term.render, List.cons_append] at hws' ⊢
      have ih := parseTerms_render body hb r hs hws f hf'
      have h2 := parseTail_stop r hs hws
      have hd := Terms.flat_ne_nil body hb hne
      have hat : matchElem ('@' :: (body.render ++ r)) = none := matchElem_none_of_not_upper _ _ (by decide)
      simp [parseTerm, skipWs_noWs hws', hat, ih, asFormula, hd, h2, Term.flat]
theorem parseTerms_render : ∀ (ts : Terms), ts.wf = true → ∀ (r : List Char), Stop r → NoWs r →
    ∀ fuel, ts.size ≤ fuel → parseTerms fuel (ts.render ++ r) = some (ts.flat, r)
  | .nil, _, r, hs, hws, fuel, hf => by
    cases fuel with
    | zero => simp [Terms.size] at hf
    | succ f => simp [parseTerms, Terms.render, Terms.flat, parseTerm_stop f r hs hws]
  | .cons t ts, hts, r, hs, hws, fuel, hf => by
    cases fuel with
    | zero => simp [Terms.size] at hf
    | succ f =>
      obtain ⟨ht, hts', hcage⟩ := Terms.wf_cons hts
      have hft : t.size ≤ f := by simp [Terms.size] at hf; omega
      have hfts : ts.size ≤ f := by simp [Terms.size] at hf; omega
      have hws2 : NoWs (ts.render ++ r) := (Terms.render_noWs ts hts').append hws
      have hstop' : t.isCage = true → Stop (ts.render ++ r) := by
        intro hc; rw [hcage hc]; simpa [Terms.render] using hs
      have h1 := parseTerm_render t ht (ts.render ++ r) (Terms.render_follow ts hts' r hs) hws2 hstop' f hft
      have h2 := parseTerms_render ts hts' r hs hws f hfts
      simp [parseTerms, Terms.render, Terms.flat, List.append_assoc, h1, h2]
end

/-! ### fuel suffices -/

theorem symChars_length_pos {z : Nat} (h1 : 1 ≤ z) (h2 : z ≤ 118) : 1 ≤ (symChars z).length := by
  rcases (symOK h1 h2).len with h | h <;> omega

mutual
theorem Term.size_le : ∀ (t : Term), t.wf = true → t.size + 1 ≤ 3 * t.render.length
  | .elem z n st marks, h => by
    obtain ⟨h1, h2, _, _⟩ := Term.wf_elem h
    have := symChars_length_pos h1 h2
    simp [Term.size, Term.render]; omega
  | .group b body n st marks, h => by
    have := Terms.size_le body (Term.wf_group h).1
    simp [Term.size, Term.render] at *; omega
  | .cage body, h => by
    obtain ⟨hb, hne⟩ := Term.wf_cage h
    have := Terms.size_le body hb
    have h3 : 1 ≤ body.render.length := by
      obtain ⟨t', ts', rfl⟩ := Terms.isNil_eq_false hne
      obtain ⟨c, rest, he, _⟩ := Term.render_head t' (Terms.wf_cons hb).1 ts'.render
      simp only [Terms.render, he]; simp
    simp [Term.size, Term.render] at *; omega
theorem Terms.size_le : ∀ (ts : Terms), ts.wf = true → ts.size ≤ 3 * ts.render.length + 1
  | .nil, _ => by simp [Terms.size]
  | .cons t ts, h => by
    have h1 := Term.size_le t (Terms.wf_cons h).1
    have h2 := Terms.size_le ts (Terms.wf_cons h).2.1
    simp [Terms.size, Terms.render] at *; omega
end

/-- every well-formed (arbitrarily nested, arbitrarily long) stoichiometric part parses to its pairs, summed per element -/
theorem parseStoich_render (ts : Terms) (hts : ts.wf = true) (hne : ts.isNil = false) :
    parseStoich ts.render = .ok (mergeComp ts.flat) := by
  have h := parseTerms_render ts hts [] stop_nil (by intro c hc; simp at hc) (3 * ts.render.length + 3)
    (by have := Terms.size_le ts hts; omega)
  simp only [List.append_nil] at h
  have he : ts.render ≠ ['e'] := by
    obtain ⟨t', ts', rfl⟩ := Terms.isNil_eq_false hne
    obtain ⟨c, rest, he, hc⟩ := Term.render_head t' (Terms.wf_cons hts).1 ts'.render
    simp only [Terms.render, he]
    intro hcon
    simp at hcon
    rcases hc with h | h | h | h | h <;> (rw [hcon.1] at h; revert h; decide)
  simp [parseStoich, he, h, asFormula, Terms.flat_ne_nil ts hts hne, skipWs]

end ChemModel.Formula
