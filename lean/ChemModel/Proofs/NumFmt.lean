/-
Helper lemmas for C20 (Model/NumFmt.lean).
-/
import ChemModel.Model.NumFmt
import Mathlib.Tactic.Ring
import Mathlib.Tactic.Linarith
import Mathlib.Tactic.Positivity
import Mathlib.Tactic.FieldSimp
import Mathlib.Tactic.NormNum
import Mathlib.Data.Rat.Floor

namespace ChemModel.NumFmt
open ChemModel.Gen.PrintingNumbers

/-! ### roman -/

/-- additive value of an emitted token list -/
def tokSum (l : List (List Char × Nat)) : Nat := (l.map Prod.snd).sum

theorem tokSum_append (a b : List (List Char × Nat)) : tokSum (a ++ b) = tokSum a + tokSum b := by
  simp [tokSum]

theorem tokSum_replicate (k : Nat) (t : List Char) (v : Nat) : tokSum (List.replicate k (t, v)) = k * v := by
  simp [tokSum]

/-- the loop invariant of `roman`: emitted value + remaining `num` = input, for every table -/
theorem romanLoop_sum (tv : List (List Char × Nat)) (n : Nat) :
    tokSum (romanLoop tv n).1 + (romanLoop tv n).2 = n := by
  induction tv generalizing n with
  | nil => simp [romanLoop, tokSum]
  | cons hd tl ih =>
    obtain ⟨t, v⟩ := hd
    simp only [romanLoop, tokSum_append, tokSum_replicate]
    have h1 := ih (n - v * (n / v))
    have h2 : v * (n / v) ≤ n := Nat.mul_div_le n v
    have h3 : n / v * v = v * (n / v) := Nat.mul_comm _ _
    omega

theorem romanLoop_zero (tv : List (List Char × Nat)) : (romanLoop tv 0).2 = 0 := by
  induction tv with
  | nil => simp [romanLoop]
  | cons hd tl ih =>
    obtain ⟨t, v⟩ := hd
    simp only [romanLoop, Nat.zero_div, Nat.mul_zero, Nat.sub_zero]
    exact ih

/-- a table that contains the value 1 leaves no remainder -/
theorem romanLoop_rem (tv : List (List Char × Nat)) (h : 1 ∈ tv.map Prod.snd) (n : Nat) :
    (romanLoop tv n).2 = 0 := by
  induction tv generalizing n with
  | nil => simp at h
  | cons hd tl ih =>
    obtain ⟨t, v⟩ := hd
    simp only [romanLoop]
    simp only [List.map_cons, List.mem_cons] at h
    rcases h with h | h
    · subst h
      simp only [Nat.div_one, Nat.one_mul, Nat.sub_self]
      exact romanLoop_zero tl
    · exact ih h _

/-- every emitted token is an entry of the table -/
theorem romanLoop_mem (tv : List (List Char × Nat)) (n : Nat) :
    ∀ tk ∈ (romanLoop tv n).1, tk ∈ tv := by
  induction tv generalizing n with
  | nil => simp [romanLoop]
  | cons hd tl ih =>
    obtain ⟨t, v⟩ := hd
    intro tk htk
    simp only [romanLoop, List.mem_append] at htk
    rcases htk with h | h
    · rw [List.mem_replicate] at h
      simp [h.2]
    · exact List.mem_cons_of_mem _ (ih _ tk h)

/-- emitted values are non-increasing when the table's are (canonical order) -/
theorem romanLoop_step (t : List Char) (v : Nat) (tl : List (List Char × Nat)) (n : Nat) :
    (romanLoop ((t, v) :: tl) n).1 = List.replicate (n / v) (t, v) ++ (romanLoop tl (n - v * (n / v))).1 := by
  simp [romanLoop]

/-! ### digits and integer texts -/

theorem digitVal_digitChar (d : Nat) : digitVal (digitChar d) = d % 10 := by
  have h : d % 10 < 10 := Nat.mod_lt _ (by decide)
  unfold digitChar
  generalize d % 10 = r at h
  have : r = 0 ∨ r = 1 ∨ r = 2 ∨ r = 3 ∨ r = 4 ∨ r = 5 ∨ r = 6 ∨ r = 7 ∨ r = 8 ∨ r = 9 := by omega
  rcases this with h | h | h | h | h | h | h | h | h | h <;> subst h <;> decide

theorem isDigit_digitChar (d : Nat) : isDigit (digitChar d) = true := by
  have h : d % 10 < 10 := Nat.mod_lt _ (by decide)
  unfold digitChar
  generalize d % 10 = r at h
  have : r = 0 ∨ r = 1 ∨ r = 2 ∨ r = 3 ∨ r = 4 ∨ r = 5 ∨ r = 6 ∨ r = 7 ∨ r = 8 ∨ r = 9 := by omega
  rcases this with h | h | h | h | h | h | h | h | h | h <;> subst h <;> decide

theorem readNat_append_singleton (l : List Char) (c : Char) :
    readNat (l ++ [c]) = 10 * readNat l + digitVal c := by
  simp [readNat, List.foldl_append]

/-- reading the `k` digits of `digitsW k m` gives `m mod 10^k` -/
theorem readNat_digitsW (k m : Nat) : readNat (digitsW k m) = m % 10 ^ k := by
  induction k generalizing m with
  | zero => simp [digitsW, readNat, Nat.mod_one]
  | succ k ih =>
    simp only [digitsW, readNat_append_singleton, ih, digitVal_digitChar]
    have h1 : m % 10 ^ (k + 1) = 10 * (m / 10 % 10 ^ k) + m % 10 := by
      rw [Nat.pow_succ, Nat.mul_comm (10 ^ k) 10, Nat.mod_mul]
      omega
    have h2 : m % 10 % 10 = m % 10 := by omega
    omega

theorem length_digitsW (k m : Nat) : (digitsW k m).length = k := by
  induction k generalizing m with
  | zero => simp [digitsW]
  | succ k ih => simp [digitsW, ih]

theorem all_isDigit_digitsW (k m : Nat) : ∀ c ∈ digitsW k m, isDigit c = true := by
  induction k generalizing m with
  | zero => simp [digitsW]
  | succ k ih =>
    intro c hc
    simp only [digitsW, List.mem_append, List.mem_singleton] at hc
    rcases hc with h | h
    · exact ih _ c h
    · subst h; exact isDigit_digitChar _

theorem readNat_natDigitsF (f n : Nat) (h : n < f) : readNat (natDigitsF f n) = n := by
  induction f generalizing n with
  | zero => omega
  | succ f ih =>
    unfold natDigitsF
    split
    · rename_i h10
      simp only [readNat, List.foldl_cons, List.foldl_nil, digitVal_digitChar]
      omega
    · rename_i h10
      rw [readNat_append_singleton, ih (n / 10) (by omega), digitVal_digitChar]
      omega

/-- `str(n)` reads back as `n` -/
theorem readNat_natStr (n : Nat) : readNat (natStr n) = n :=
  readNat_natDigitsF (n + 1) n (Nat.lt_succ_self n)

theorem all_isDigit_natDigitsF (f n : Nat) : ∀ c ∈ natDigitsF f n, isDigit c = true := by
  induction f generalizing n with
  | zero => simp [natDigitsF]
  | succ f ih =>
    intro c hc
    unfold natDigitsF at hc
    split at hc
    · simp only [List.mem_singleton] at hc; subst hc; exact isDigit_digitChar _
    · simp only [List.mem_append, List.mem_singleton] at hc
      rcases hc with h | h
      · exact ih _ c h
      · subst h; exact isDigit_digitChar _

theorem natDigitsF_ne_nil (f n : Nat) : natDigitsF (f + 1) n ≠ [] := by
  unfold natDigitsF
  split <;> simp

theorem natStr_ne_nil (n : Nat) : natStr n ≠ [] := natDigitsF_ne_nil n n

theorem all_isDigit_natStr (n : Nat) : (natStr n).all isDigit = true := by
  rw [List.all_eq_true]
  exact all_isDigit_natDigitsF _ _

theorem parseDigits_natStr (neg : Bool) (n : Nat) :
    parseDigits neg (natStr n) = some (if neg then -((n : Nat) : Int) else ((n : Nat) : Int)) := by
  have hne := natStr_ne_nil n
  have hall := all_isDigit_natStr n
  have : (natStr n).isEmpty = false := by
    cases hh : natStr n with
    | nil => exact absurd hh hne
    | cons a b => rfl
  simp only [parseDigits, this, hall, Bool.false_or, Bool.not_true, Bool.false_eq_true, if_false, readNat_natStr]

/-- `int(str(i)) == i`: the integer text reads back as the integer it is -/
theorem parseInt_intStr (i : Int) : parseInt (intStr i) = some i := by
  unfold intStr
  split
  · rename_i h
    show parseDigits true (natStr i.natAbs) = some i
    rw [parseDigits_natStr]
    simp only [if_true]
    congr 1
    omega
  · rename_i h
    have hne := natStr_ne_nil i.toNat
    have hd : ∀ c ∈ natStr i.toNat, isDigit c = true := all_isDigit_natDigitsF _ _
    have key : parseInt (natStr i.toNat) = parseDigits false (natStr i.toNat) := by
      cases hh : natStr i.toNat with
      | nil => exact absurd hh hne
      | cons a b =>
        have ha : isDigit a = true := hd a (by rw [hh]; simp)
        have hne1 : a ≠ '-' := by intro h'; subst h'; revert ha; decide
        have hne2 : a ≠ '+' := by intro h'; subst h'; revert ha; decide
        unfold parseInt
        split
        · rename_i heq; simp only [List.cons.injEq] at heq; exact absurd heq.1 hne1
        · rename_i heq; simp only [List.cons.injEq] at heq; exact absurd heq.1 hne2
        · rfl
    rw [key, parseDigits_natStr]
    simp only [Bool.false_eq_true, if_false]
    congr 1
    omega

/-! ### exact decimal arithmetic -/

theorem pow10_eq_zpow (e : Int) : pow10 e = (10 : ℚ) ^ e := by
  unfold pow10
  split
  · rename_i h
    obtain ⟨k, hk⟩ : ∃ k : ℕ, e = (k : ℤ) := ⟨e.toNat, by omega⟩
    subst hk
    simp
  · rename_i h
    obtain ⟨k, hk⟩ : ∃ k : ℕ, e = -(k : ℤ) := ⟨(-e).toNat, by omega⟩
    subst hk
    simp

theorem pow10_pos (e : Int) : 0 < pow10 e := by
  rw [pow10_eq_zpow]; exact zpow_pos (by norm_num) e

theorem natLog10F_spec (f n : Nat) (h1 : 1 ≤ n) (hf : n ≤ f) :
    10 ^ natLog10F f n ≤ n ∧ n < 10 ^ (natLog10F f n + 1) := by
  induction f generalizing n with
  | zero => omega
  | succ f ih =>
    unfold natLog10F
    split
    · rename_i h10
      exact ⟨by rw [Nat.pow_zero]; exact h1, by rw [Nat.zero_add, Nat.pow_one]; exact h10⟩
    · rename_i h10
      have := ih (n / 10) (by omega) (by omega)
      obtain ⟨a, b⟩ := this
      generalize natLog10F f (n / 10) = k at a b
      constructor
      · rw [Nat.pow_succ]; omega
      · rw [Nat.pow_succ] at b ⊢; rw [Nat.pow_succ]; omega

theorem natLog10_spec (n : Nat) (h1 : 1 ≤ n) : 10 ^ natLog10 n ≤ n ∧ n < 10 ^ (natLog10 n + 1) :=
  natLog10F_spec n n h1 (Nat.le_refl n)

theorem absR_eq_abs (x : ℚ) : absR x = |x| := by
  unfold absR
  split
  · rename_i h; rw [abs_of_neg h]
  · rename_i h; rw [abs_of_nonneg (not_lt.mp h)]

/-- `ilog10 a` is the decade of a positive rational: `10^e ≤ a < 10^(e+1)` -/
theorem ilog10_spec (a : ℚ) (ha : 0 < a) :
    (10 : ℚ) ^ (ilog10 a) ≤ a ∧ a < (10 : ℚ) ^ (ilog10 a + 1) := by
  unfold ilog10
  simp only [pow10_eq_zpow]
  have hnum : 0 < a.num := Rat.num_pos.mpr ha
  have hden : 0 < a.den := a.den_pos
  obtain ⟨n1, n2⟩ := natLog10_spec a.num.natAbs (by omega)
  obtain ⟨d1, d2⟩ := natLog10_spec a.den (by omega)
  have hN : ((a.num.natAbs : ℕ) : ℚ) = (a.num : ℚ) := by
    have : ((a.num.natAbs : ℕ) : ℤ) = a.num := Int.natAbs_of_nonneg hnum.le
    calc ((a.num.natAbs : ℕ) : ℚ) = (((a.num.natAbs : ℕ) : ℤ) : ℚ) := (Int.cast_natCast _).symm
      _ = (a.num : ℚ) := by rw [this]
  have ha' : a = (a.num.natAbs : ℚ) / (a.den : ℚ) := by
    rw [hN]; exact (Rat.num_div_den a).symm
  generalize a.num.natAbs = N at *
  generalize a.den = D at *
  have hDq : (0 : ℚ) < D := by exact_mod_cast hden
  have n1q : (10 : ℚ) ^ (natLog10 N) ≤ N := by exact_mod_cast n1
  have n2q : (N : ℚ) < (10 : ℚ) ^ (natLog10 N + 1) := by exact_mod_cast n2
  have d1q : (10 : ℚ) ^ (natLog10 D) ≤ D := by exact_mod_cast d1
  have d2q : (D : ℚ) < (10 : ℚ) ^ (natLog10 D + 1) := by exact_mod_cast d2
  generalize natLog10 N = kn at *
  generalize natLog10 D = kd at *
  have hkd : (0 : ℚ) < (10 : ℚ) ^ kd := by positivity
  have hkn : (0 : ℚ) < (10 : ℚ) ^ kn := by positivity
  -- a < 10^(kn - kd + 1)  and  10^(kn - kd - 1) < a
  have e1 : (10 : ℚ) ^ ((kn : ℤ) - (kd : ℤ) + 1) = (10 : ℚ) ^ (kn + 1) / (10 : ℚ) ^ kd := by
    rw [zpow_add₀ (by norm_num), zpow_sub₀ (by norm_num), zpow_natCast, zpow_natCast, zpow_one, pow_succ]
    ring
  have e2 : (10 : ℚ) ^ ((kn : ℤ) - (kd : ℤ) - 1 + 1) = (10 : ℚ) ^ kn / (10 : ℚ) ^ kd := by
    rw [sub_add_cancel, zpow_sub₀ (by norm_num), zpow_natCast, zpow_natCast]
  have e3 : (10 : ℚ) ^ ((kn : ℤ) - (kd : ℤ) - 1) = (10 : ℚ) ^ kn / (10 : ℚ) ^ (kd + 1) := by
    rw [zpow_sub₀ (by norm_num), zpow_sub₀ (by norm_num), zpow_natCast, zpow_natCast, zpow_one, pow_succ]
    field_simp
  have up : a < (10 : ℚ) ^ ((kn : ℤ) - (kd : ℤ) + 1) := by
    rw [e1, ha', div_lt_div_iff₀ hDq hkd]
    calc (N : ℚ) * 10 ^ kd ≤ N * D := by gcongr
      _ < 10 ^ (kn + 1) * D := by gcongr
  have lo : (10 : ℚ) ^ ((kn : ℤ) - (kd : ℤ) - 1) < a := by
    rw [e3, ha', div_lt_div_iff₀ (by positivity) hDq]
    calc (10 : ℚ) ^ kn * D < 10 ^ kn * 10 ^ (kd + 1) := by gcongr
      _ ≤ N * 10 ^ (kd + 1) := by gcongr
  split
  · rename_i h
    exact ⟨h, up⟩
  · rename_i h
    refine ⟨le_of_lt lo, ?_⟩
    rw [e2]
    rw [← zpow_natCast, ← zpow_natCast, ← zpow_sub₀ (by norm_num)]
    exact not_le.mp h

theorem floor_le' (q : ℚ) : (q.floor : ℚ) ≤ q := Rat.le_floor_iff.mp (le_refl _)

theorem lt_floor_add_one' (q : ℚ) : q < (q.floor : ℚ) + 1 := by
  by_contra h
  have h' : ((q.floor + 1 : ℤ) : ℚ) ≤ q := by push_cast; exact not_lt.mp h
  have := Rat.le_floor_iff.mpr h'
  omega

/-- rounding moves by at most one half -/
theorem roundHalfEven_spec (q : ℚ) : |((roundHalfEven q : ℤ) : ℚ) - q| ≤ 1 / 2 := by
  have h1 := floor_le' q
  have h2 := lt_floor_add_one' q
  unfold roundHalfEven
  simp only
  split
  · rename_i h
    push_cast
    rw [abs_le]
    rcases h with h | ⟨h, _⟩ <;> constructor <;> linarith
  · rename_i h
    rw [not_or] at h
    rw [abs_le]
    have := not_lt.mp h.1
    constructor <;> linarith

/-- ties go to the even neighbour -/
theorem roundHalfEven_tie (q : ℚ) (h : q - (q.floor : ℚ) = 1 / 2) : roundHalfEven q % 2 = 0 := by
  unfold roundHalfEven
  simp only [h, lt_self_iff_false, false_or, true_and]
  split <;> omega

/-- rounding stays inside integer bounds -/
theorem roundHalfEven_bounds (q : ℚ) (A B : ℤ) (hA : (A : ℚ) ≤ q) (hB : q ≤ (B : ℚ)) :
    A ≤ roundHalfEven q ∧ roundHalfEven q ≤ B := by
  have hfl : A ≤ q.floor := Rat.le_floor_iff.mpr hA
  have h1 := floor_le' q
  have hflB : q.floor ≤ B := by
    have : (q.floor : ℚ) ≤ (B : ℚ) := le_trans h1 hB
    exact_mod_cast this
  unfold roundHalfEven
  simp only
  split
  · rename_i h
    refine ⟨by omega, ?_⟩
    by_contra hc
    have hfB : q.floor = B := by omega
    have : q - (q.floor : ℚ) ≤ 0 := by rw [hfB]; linarith
    rcases h with h | ⟨h, _⟩ <;> linarith
  · exact ⟨hfl, hflB⟩

/-- the scaled value lies in `[10^(p-1), 10^p)`, hence its rounding in `[10^(p-1), 10^p]`, within half a unit -/
theorem roundSig_core (p : ℕ) (hp : 1 ≤ p) (a : ℚ) (ha : 0 < a) :
    ((10 ^ (p - 1) : ℕ) : ℤ) ≤ roundHalfEven (a / (10 : ℚ) ^ (ilog10 a - (p : ℤ) + 1)) ∧
    roundHalfEven (a / (10 : ℚ) ^ (ilog10 a - (p : ℤ) + 1)) ≤ ((10 ^ p : ℕ) : ℤ) ∧
    |((roundHalfEven (a / (10 : ℚ) ^ (ilog10 a - (p : ℤ) + 1)) : ℤ) : ℚ) * (10 : ℚ) ^ (ilog10 a - (p : ℤ) + 1) - a|
      ≤ (10 : ℚ) ^ (ilog10 a - (p : ℤ) + 1) / 2 := by
  obtain ⟨lo, hi⟩ := ilog10_spec a ha
  generalize ilog10 a = e at *
  have hs : (0 : ℚ) < (10 : ℚ) ^ (e - (p : ℤ) + 1) := zpow_pos (by norm_num) _
  have e1 : (10 : ℚ) ^ e = ((10 ^ (p - 1) : ℕ) : ℚ) * (10 : ℚ) ^ (e - (p : ℤ) + 1) := by
    rw [Nat.cast_pow, Nat.cast_ofNat, ← zpow_natCast, ← zpow_add₀ (by norm_num)]
    congr 1
    push_cast [Nat.cast_sub hp]
    ring
  have e2 : (10 : ℚ) ^ (e + 1) = ((10 ^ p : ℕ) : ℚ) * (10 : ℚ) ^ (e - (p : ℤ) + 1) := by
    rw [Nat.cast_pow, Nat.cast_ofNat, ← zpow_natCast, ← zpow_add₀ (by norm_num)]
    congr 1
    ring
  generalize (10 : ℚ) ^ (e - (p : ℤ) + 1) = s at *
  have hA : (((10 ^ (p - 1) : ℕ) : ℤ) : ℚ) ≤ a / s := by
    rw [le_div_iff₀ hs, Int.cast_natCast, ← e1]; exact lo
  have hB : a / s ≤ (((10 ^ p : ℕ) : ℤ) : ℚ) := by
    rw [div_le_iff₀ hs, Int.cast_natCast, ← e2]; exact hi.le
  obtain ⟨b1, b2⟩ := roundHalfEven_bounds (a / s) _ _ hA hB
  refine ⟨b1, b2, ?_⟩
  have h := roundHalfEven_spec (a / s)
  generalize ((roundHalfEven (a / s) : ℤ) : ℚ) = M at *
  have : M * s - a = (M - a / s) * s := by field_simp
  rw [this, abs_mul, abs_of_pos hs]
  calc |M - a / s| * s ≤ 1 / 2 * s := by gcongr
    _ = s / 2 := by ring

/-- `roundSig` yields a `p`-digit significand within half a unit in the last place of `|x|`,
    including the carry into a new decade -/
theorem roundSig_spec' (p : ℕ) (hp : 1 ≤ p) (x : ℚ) (hx : x ≠ 0) :
    10 ^ (p - 1) ≤ (roundSig p x).m ∧ (roundSig p x).m < 10 ^ p ∧
    (roundSig p x).neg = decide (x < 0) ∧
    |((roundSig p x).m : ℚ) * (10 : ℚ) ^ ((roundSig p x).e - (p : ℤ) + 1) - (|x|)|
      ≤ (10 : ℚ) ^ ((roundSig p x).e - (p : ℤ) + 1) / 2 := by
  have ha : 0 < |x| := abs_pos.mpr hx
  obtain ⟨b1, b2, b3⟩ := roundSig_core p hp |x| ha
  unfold roundSig
  simp only [absR_eq_abs, pow10_eq_zpow]
  generalize ilog10 |x| = e at *
  generalize hM : roundHalfEven (|x| / (10 : ℚ) ^ (e - (p : ℤ) + 1)) = M at *
  have hMpos : 0 ≤ M := le_trans (by positivity) b1
  have hcast : ((M.toNat : ℕ) : ℤ) = M := Int.toNat_of_nonneg hMpos
  have hcastq : ((M.toNat : ℕ) : ℚ) = (M : ℚ) := by
    calc ((M.toNat : ℕ) : ℚ) = (((M.toNat : ℕ) : ℤ) : ℚ) := (Int.cast_natCast _).symm
      _ = (M : ℚ) := by rw [hcast]
  have hlo : 10 ^ (p - 1) ≤ M.toNat := by
    have : ((10 ^ (p - 1) : ℕ) : ℤ) ≤ ((M.toNat : ℕ) : ℤ) := by rw [hcast]; exact b1
    exact_mod_cast this
  have hhi : M.toNat ≤ 10 ^ p := by
    have : ((M.toNat : ℕ) : ℤ) ≤ ((10 ^ p : ℕ) : ℤ) := by rw [hcast]; exact b2
    exact_mod_cast this
  split
  · rename_i hc
    have hdiv : M.toNat / 10 = 10 ^ (p - 1) := by
      rw [hc]
      obtain ⟨k, rfl⟩ : ∃ k, p = k + 1 := ⟨p - 1, by omega⟩
      simp [Nat.pow_succ]
    refine ⟨by simp only [hdiv]; exact le_refl _, ?_, rfl, ?_⟩
    · simp only [hdiv]
      exact Nat.pow_lt_pow_right (by norm_num) (by omega)
    · simp only [hdiv]
      have hs : (10 : ℚ) ^ (e + 1 - (p : ℤ) + 1) = 10 * (10 : ℚ) ^ (e - (p : ℤ) + 1) := by
        rw [show e + 1 - (p : ℤ) + 1 = 1 + (e - (p : ℤ) + 1) by ring, zpow_add₀ (by norm_num), zpow_one]
      have hm : ((10 ^ (p - 1) : ℕ) : ℚ) * 10 = (M : ℚ) := by
        rw [← hcastq, hc]
        obtain ⟨k, rfl⟩ : ∃ k, p = k + 1 := ⟨p - 1, by omega⟩
        simp [pow_succ]
      have hs0 : (0 : ℚ) < (10 : ℚ) ^ (e - (p : ℤ) + 1) := zpow_pos (by norm_num) _
      rw [hs, ← mul_assoc, hm]
      calc |(M : ℚ) * (10 : ℚ) ^ (e - (p : ℤ) + 1) - (|x|)| ≤ (10 : ℚ) ^ (e - (p : ℤ) + 1) / 2 := b3
        _ ≤ 10 * (10 : ℚ) ^ (e - (p : ℤ) + 1) / 2 := by linarith
  · rename_i hc
    refine ⟨hlo, lt_of_le_of_ne hhi hc, rfl, ?_⟩
    simp only [hcastq]
    exact b3

/-! ### layout -/

theorem mem_rstrip {c d : Char} {s : List Char} (h : c ∈ rstrip d s) : c ∈ s := by
  unfold rstrip at h
  rw [List.mem_reverse] at h
  have := (List.dropWhile_suffix (fun x => x == d) (l := s.reverse)).subset h
  exact List.mem_reverse.mp this

theorem mem_stripZeros {c : Char} {s : List Char} (h : c ∈ stripZeros s) : c ∈ s :=
  mem_rstrip (mem_rstrip h)

/-- the characters a `%g` body is made of -/
def numChar (c : Char) : Bool := isDigit c || c == '.'

theorem numChar_digitsW (k m : Nat) : ∀ c ∈ digitsW k m, numChar c = true := by
  intro c hc
  simp [numChar, all_isDigit_digitsW k m c hc]

theorem numChar_layoutFixed (p m : Nat) (e : Int) : ∀ c ∈ layoutFixed p m e, numChar c = true := by
  intro c hc
  unfold layoutFixed at hc
  simp only at hc
  split at hc
  · exact numChar_digitsW _ _ c hc
  · split at hc
    · have := mem_stripZeros hc
      simp only [List.mem_append, List.mem_cons] at this
      rcases this with h | h | h
      · exact numChar_digitsW _ _ c (List.mem_of_mem_take h)
      · subst h; decide
      · exact numChar_digitsW _ _ c (List.mem_of_mem_drop h)
    · have := mem_stripZeros hc
      simp only [List.mem_append, List.mem_cons, List.mem_replicate] at this
      rcases this with h | h | h | h
      · subst h; decide
      · subst h; decide
      · rw [h.2]; decide
      · exact numChar_digitsW _ _ c h

theorem numChar_layoutMant (p m : Nat) : ∀ c ∈ layoutMant p m, numChar c = true := by
  intro c hc
  unfold layoutMant at hc
  split at hc
  · simp at hc
  · rename_i d rest heq
    have hd : ∀ c ∈ d :: rest, numChar c = true := by rw [← heq]; exact numChar_digitsW _ _
    split at hc
    · have := mem_stripZeros hc
      simp only [List.mem_cons] at this
      rcases this with h | h | h
      · subst h; exact hd _ (by simp)
      · subst h; decide
      · exact hd _ (by simp [h])
    · simp only [List.mem_singleton] at hc
      subst hc; exact hd _ (by simp)

theorem numChar_ne_e {c : Char} (h : numChar c = true) : c ≠ 'e' := by
  intro hc; subst hc; revert h; decide

theorem numChar_ne_minus {c : Char} (h : numChar c = true) : c ≠ '-' := by
  intro hc; subst hc; revert h; decide

/-- `s.split(c)` of a text without `c` -/
theorem splitOn_not_mem (c : Char) (s : List Char) (h : c ∉ s) : splitOn c s = [s] := by
  induction s with
  | nil => rfl
  | cons x xs ih =>
    simp only [List.mem_cons, not_or] at h
    have hx : (x == c) = false := by
      rw [beq_eq_false_iff_ne]; exact fun hh => h.1 hh.symm
    simp [splitOn, ih h.2, hx]

/-- `s.split(c)` of a text with exactly one `c` -/
theorem splitOn_one (c : Char) (a b : List Char) (ha : c ∉ a) (hb : c ∉ b) :
    splitOn c (a ++ c :: b) = [a, b] := by
  induction a with
  | nil => simp [splitOn, splitOn_not_mem c b hb]
  | cons x xs ih =>
    simp only [List.mem_cons, not_or] at ha
    have hx : (x == c) = false := by
      rw [beq_eq_false_iff_ne]; exact fun hh => ha.1 hh.symm
    simp [splitOn, ih ha.2, hx]

theorem readNat_zero_cons (l : List Char) : readNat ('0' :: l) = readNat l := by
  simp [readNat, digitVal]

theorem parseDigits_pad2 (neg : Bool) (n : Nat) :
    parseDigits neg (pad2 n) = some (if neg then -((n : Nat) : Int) else ((n : Nat) : Int)) := by
  unfold pad2
  split
  · have hall := all_isDigit_natStr n
    have h0 : isDigit '0' = true := by decide
    simp only [parseDigits, List.isEmpty_cons, List.all_cons, h0, hall, Bool.and_self, Bool.false_or,
      Bool.not_true, Bool.false_eq_true, if_false, readNat_zero_cons, readNat_natStr]
  · exact parseDigits_natStr neg n

/-- the exponent field `[+-]dd` written by `%g` reads back (Python `int`) as the exponent -/
theorem parseInt_expField (e : Int) :
    parseInt ((if e < 0 then '-' else '+') :: pad2 e.natAbs) = some e := by
  split
  · show parseDigits true (pad2 e.natAbs) = some e
    rw [parseDigits_pad2]; simp only [if_true]; congr 1; omega
  · show parseDigits false (pad2 e.natAbs) = some e
    rw [parseDigits_pad2]; simp only [Bool.false_eq_true, if_false]; congr 1; omega

theorem pad2_no_e (n : Nat) : 'e' ∉ pad2 n := by
  intro h
  unfold pad2 at h
  have key : ∀ c ∈ natStr n, isDigit c = true := all_isDigit_natDigitsF _ _
  split at h
  · simp only [List.mem_cons] at h
    rcases h with h | h
    · revert h; decide
    · have := key _ h; revert this; decide
  · have := key _ h; revert this; decide

/-! ### `_number_to_X` assembled -/

/-- significand text of the exponent layout (with its sign) -/
def sigText (p : Nat) (r : Dec) : List Char :=
  if r.neg then '-' :: layoutMant p r.m else layoutMant p r.m

theorem fmtG_eq (p : ℕ) (hp : 1 ≤ p) (x : ℚ) (hx : x ≠ 0) : fmtG p x = layoutG p (roundSig p x) := by
  unfold fmtG
  have : p ≠ 0 := by omega
  simp [hx, this]

theorem layoutG_fixed_no_e (p : ℕ) (r : Dec) (h : useFixed p r.e = true) : 'e' ∉ layoutG p r := by
  unfold layoutG
  simp only [h, if_true]
  have key : 'e' ∉ layoutFixed p r.m r.e := fun hc => numChar_ne_e (numChar_layoutFixed _ _ _ _ hc) rfl
  split
  · simp only [List.mem_cons, not_or]; exact ⟨by decide, key⟩
  · exact key

theorem sigText_no_e (p : ℕ) (r : Dec) : 'e' ∉ sigText p r := by
  have key : 'e' ∉ layoutMant p r.m := fun hc => numChar_ne_e (numChar_layoutMant _ _ _ hc) rfl
  unfold sigText
  split
  · simp only [List.mem_cons, not_or]; exact ⟨by decide, key⟩
  · exact key

theorem layoutG_exp (p : ℕ) (r : Dec) (h : useFixed p r.e = false) :
    layoutG p r = sigText p r ++ 'e' :: ((if r.e < 0 then '-' else '+') :: pad2 r.e.natAbs) := by
  unfold layoutG sigText layoutExp
  simp only [h, Bool.false_eq_true, if_false]
  split <;> simp

theorem expField_no_e (e : Int) : 'e' ∉ ((if e < 0 then '-' else '+') :: pad2 e.natAbs) := by
  simp only [List.mem_cons, not_or]
  refine ⟨?_, pad2_no_e _⟩
  split <;> decide

theorem renderX_fixed (f : Fmt) (flt u : List Char) (h : 'e' ∉ flt) : renderX f flt u = .ok (flt ++ u) := by
  unfold renderX
  rw [splitOn_not_mem _ _ h]
  rfl

theorem renderX_exp (f : Fmt) (sig : List Char) (e : Int) (u : List Char) (h : 'e' ∉ sig) :
    renderX f (sig ++ 'e' :: ((if e < 0 then '-' else '+') :: pad2 e.natAbs)) u =
      (powTenE f sig e >>= fun b => pure (b ++ u)) := by
  unfold renderX
  rw [splitOn_one _ _ _ h (expField_no_e e)]
  simp only [powTen, parseInt_expField]

/-! ### uncertainty notation -/

theorem mul_pow10_neg (x : ℚ) (q : ℤ) : x * pow10 (-q) = x / (10 : ℚ) ^ q := by
  rw [pow10_eq_zpow, zpow_neg, div_eq_mul_inv]

/-- rounding at the decimal position `q` moves by at most half a unit of that position -/
theorem round_at (x : ℚ) (q : ℤ) :
    |((roundHalfEven (x * pow10 (-q)) : ℤ) : ℚ) * (10 : ℚ) ^ q - x| ≤ (10 : ℚ) ^ q / 2 := by
  rw [mul_pow10_neg]
  have hs : (0 : ℚ) < (10 : ℚ) ^ q := zpow_pos (by norm_num) _
  generalize (10 : ℚ) ^ q = s at *
  have h := roundHalfEven_spec (x / s)
  generalize ((roundHalfEven (x / s) : ℤ) : ℚ) = M at *
  have : M * s - x = (M - x / s) * s := by field_simp
  rw [this, abs_mul, abs_of_pos hs]
  calc |M - x / s| * s ≤ 1 / 2 * s := by gcongr
    _ = s / 2 := by ring

/-- an explicit reader of fixed-point text: (the digits read as one integer, number of decimals) -/
def readFixedBody (neg : Bool) (body : List Char) : Option (Int × Nat) :=
  match splitOn '.' body with
  | [a] => some (if neg then -((readNat a : Nat) : Int) else ((readNat a : Nat) : Int), 0)
  | [a, b] => some (if neg then -((readNat (a ++ b) : Nat) : Int) else ((readNat (a ++ b) : Nat) : Int), b.length)
  | _ => none

def readFixed : List Char → Option (Int × Nat)
  | '-' :: t => readFixedBody true t
  | t => readFixedBody false t

theorem readNat_replicate_zero_append (k : Nat) (l : List Char) :
    readNat (List.replicate k '0' ++ l) = readNat l := by
  induction k with
  | zero => simp
  | succ k ih => rw [List.replicate_succ, List.cons_append, readNat_zero_cons, ih]

theorem isDigit_ne_dot {c : Char} (h : isDigit c = true) : c ≠ '.' := by
  intro hc; subst hc; revert h; decide

theorem isDigit_ne_minus {c : Char} (h : isDigit c = true) : c ≠ '-' := by
  intro hc; subst hc; revert h; decide

theorem readFixed_of_digit_head (a : Char) (b : List Char) (ha : isDigit a = true) :
    readFixed (a :: b) = readFixedBody false (a :: b) := by
  unfold readFixed
  split
  · rename_i heq; simp only [List.cons.injEq] at heq; exact absurd heq.1 (isDigit_ne_minus ha)
  · rfl

/-- the fixed-point text produced for `'%.{w}f' % (n / 10^w)` reads back as the integer `n` with `w` decimals -/
theorem readFixed_fixedStr (n : Int) (w : Nat) : readFixed (fixedStr n w) = some (n, w) := by
  unfold fixedStr
  simp only
  generalize hds : List.replicate (w + 1 - (natStr n.natAbs).length) '0' ++ natStr n.natAbs = ds
  have hdig : ∀ c ∈ ds, isDigit c = true := by
    intro c hc
    rw [← hds] at hc
    simp only [List.mem_append, List.mem_replicate] at hc
    rcases hc with h | h
    · rw [h.2]; decide
    · exact all_isDigit_natDigitsF _ _ c h
  have hread : readNat ds = n.natAbs := by
    rw [← hds, readNat_replicate_zero_append, readNat_natStr]
  have hlen : w + 1 ≤ ds.length := by
    rw [← hds]; simp only [List.length_append, List.length_replicate]; omega
  have hdot : '.' ∉ ds := fun hc => isDigit_ne_dot (hdig _ hc) rfl
  -- the body
  have hbody : ∀ neg : Bool, readFixedBody neg
      (if w = 0 then ds else ds.take (ds.length - w) ++ '.' :: ds.drop (ds.length - w)) =
      some (if neg then -((n.natAbs : Nat) : Int) else ((n.natAbs : Nat) : Int), w) := by
    intro neg
    split
    · rename_i hw
      subst hw
      unfold readFixedBody
      rw [splitOn_not_mem _ _ hdot]
      simp only [hread]
    · rename_i hw
      unfold readFixedBody
      rw [splitOn_one _ _ _ (fun hc => hdot (List.mem_of_mem_take hc)) (fun hc => hdot (List.mem_of_mem_drop hc))]
      simp only [List.take_append_drop, hread, List.length_drop]
      congr 2
      omega
  split
  · rename_i hn
    show readFixedBody true _ = _
    rw [hbody true]
    simp only [if_true]
    congr 2
    omega
  · rename_i hn
    have hne : (if w = 0 then ds else ds.take (ds.length - w) ++ '.' :: ds.drop (ds.length - w)) ≠ [] := by
      split
      · intro h; rw [h] at hlen; simp at hlen
      · simp
    cases hb : (if w = 0 then ds else ds.take (ds.length - w) ++ '.' :: ds.drop (ds.length - w)) with
    | nil => exact absurd hb hne
    | cons a b =>
      have ha : isDigit a = true := by
        cases hd : ds with
        | nil => rw [hd] at hlen; simp at hlen
        | cons d0 dr =>
          have hd0 : isDigit d0 = true := hdig d0 (by rw [hd]; simp)
          split at hb
          · rw [hd] at hb; simp only [List.cons.injEq] at hb; rw [← hb.1]; exact hd0
          · rename_i hw
            have hk : ds.length - w = (ds.length - w - 1) + 1 := by omega
            rw [hk, hd, List.take_succ_cons] at hb
            simp only [List.cons_append, List.cons.injEq] at hb
            rw [← hb.1]; exact hd0
      rw [readFixed_of_digit_head a b ha, ← hb, hbody false]
      simp only [Bool.false_eq_true, if_false]
      congr 2
      omega

theorem shortest_cases (a b : List Char) : shortest a b = a ∨ shortest a b = b := by
  unfold shortest; split <;> simp

theorem shortest_length (a b : List Char) : (shortest a b).length = min a.length b.length := by
  unfold shortest; split <;> omega

/-! ### subtractive reader for roman numerals (independent of the table) -/

def romanCharVal : Char → Nat
  | 'I' => 1 | 'V' => 5 | 'X' => 10 | 'L' => 50 | 'C' => 100 | 'D' => 500 | 'M' => 1000 | _ => 0

/-- right-to-left subtractive reading: (value so far, value of the leftmost symbol read) -/
def readRomanAux : List Char → Int × Nat
  | [] => (0, 0)
  | c :: cs =>
    let r := readRomanAux cs
    let v := romanCharVal c
    (if v < r.2 then r.1 - (v : Int) else r.1 + (v : Int), v)

/-- a symbol smaller than its right neighbour is subtracted, otherwise added -/
def readRoman (s : List Char) : Int := (readRomanAux s).1

theorem romanCharVal_le (c : Char) : romanCharVal c ≤ 1000 := by
  unfold romanCharVal; split <;> decide

theorem readRomanAux_snd_le (s : List Char) : (readRomanAux s).2 ≤ 1000 := by
  cases s with
  | nil => simp [readRomanAux]
  | cons c cs => simp only [readRomanAux]; exact romanCharVal_le c

theorem readRoman_M_prefix (k : Nat) (s : List Char) :
    readRoman (List.replicate k 'M' ++ s) = 1000 * (k : Int) + readRoman s := by
  induction k with
  | zero => simp
  | succ k ih =>
    rw [List.replicate_succ, List.cons_append]
    unfold readRoman at ih ⊢
    simp only [readRomanAux]
    have h1 : romanCharVal 'M' = 1000 := by decide
    have h2 := readRomanAux_snd_le (List.replicate k 'M' ++ s)
    rw [h1]
    have : ¬ (1000 < (readRomanAux (List.replicate k 'M' ++ s)).2) := by omega
    simp only [this, if_false, ih]
    push_cast
    ring

theorem flatten_map_replicate (k : Nat) (t : List Char) (v : Nat) (rest : List (List Char × Nat)) :
    ((List.replicate k (t, v) ++ rest).map Prod.fst).flatten =
      (List.replicate k t).flatten ++ (rest.map Prod.fst).flatten := by
  simp [List.map_append, List.flatten_append]

theorem flatten_replicate_singleton (k : Nat) (c : Char) : (List.replicate k [c]).flatten = List.replicate k c := by
  induction k with
  | zero => simp
  | succ k ih => simp [List.replicate_succ, ih]

end ChemModel.NumFmt
