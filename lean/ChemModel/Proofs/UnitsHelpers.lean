/-
Second layer of lemmas for the units model: nested containers, dimensionality, registry consistency,
derived units, human-readable round trip, Backend, array helpers.
-/
import ChemModel.Proofs.Units

set_option linter.unusedSectionVars false
set_option linter.unusedSimpArgs false

namespace ChemModel.Units
open ChemModel

variable {α : Type} [Field α] [DecidableEq α]

/-! ### nested containers -/

theorem toUnitless_atom (u : PyVal α) (a : PyVal α) : toUnitless (.atom a) u = (toUnitlessScalar a u).map Res.num := by
  rw [toUnitless]; cases toUnitlessScalar a u <;> rfl

theorem toUnitless_str (u : PyVal α) : toUnitless (Val.str : Val α) u = .error .valueError := by
  rw [toUnitless]

theorem toUnitless_list (u : PyVal α) (l : List (Val α)) : toUnitless (.list l) u = (toUnitlessList l u).map Res.list := by
  rw [toUnitless]; cases toUnitlessList l u <;> rfl

theorem toUnitless_dict (u : PyVal α) (d : List (String × Val α)) :
    toUnitless (.dict d) u = (toUnitlessDict d u).map Res.dict := by
  rw [toUnitless]; cases toUnitlessDict d u <;> rfl

theorem toUnitlessList_ok_iff (u : PyVal α) (l : List (Val α)) (rs : List (Res α)) :
    toUnitlessList l u = .ok rs ↔ List.Forall₂ (fun v r => toUnitless v u = .ok r) l rs := by
  induction l generalizing rs with
  | nil => cases rs <;> simp [toUnitlessList]
  | cons v r ih =>
    rw [toUnitlessList]
    cases hv : toUnitless v u with
    | error e =>
      simp only [reduceCtorEq, false_iff]
      intro h; cases h with | cons h1 _ => simp [hv] at h1
    | ok x =>
      cases hr : toUnitlessList r u with
      | error e =>
        simp only [reduceCtorEq, false_iff]
        intro h; cases h with
        | cons h1 h2 => rw [← ih] at h2; simp [hr] at h2
      | ok ys =>
        constructor
        · intro h; simp at h; subst h
          exact List.Forall₂.cons hv ((ih ys).mp hr)
        · intro h; cases h with
          | cons h1 h2 =>
            rw [hv] at h1; simp at h1; subst h1
            rw [← ih, hr] at h2; simp at h2; subst h2; rfl

theorem toUnitlessDict_ok_iff (u : PyVal α) (d : List (String × Val α)) (rs : List (String × Res α)) :
    toUnitlessDict d u = .ok rs ↔
      List.Forall₂ (fun (p : String × Val α) (r : String × Res α) => p.1 = r.1 ∧ toUnitless p.2 u = .ok r.2) d rs := by
  induction d generalizing rs with
  | nil => cases rs <;> simp [toUnitlessDict]
  | cons p r ih =>
    obtain ⟨k, v⟩ := p
    rw [toUnitlessDict]
    cases hv : toUnitless v u with
    | error e =>
      simp only [reduceCtorEq, false_iff]
      intro h; cases h with | cons h1 _ => simp [hv] at h1
    | ok x =>
      cases hr : toUnitlessDict r u with
      | error e =>
        simp only [reduceCtorEq, false_iff]
        intro h; cases h with
        | cons h1 h2 => rw [← ih] at h2; simp [hr] at h2
      | ok ys =>
        constructor
        · intro h; simp at h; subst h
          exact List.Forall₂.cons ⟨rfl, hv⟩ ((ih ys).mp hr)
        · intro h
          cases rs with
          | nil => cases h
          | cons b bs =>
            obtain ⟨bk, bv⟩ := b
            cases h with
            | cons h1 h2 =>
              obtain ⟨h1a, h1b⟩ := h1
              rw [hv] at h1b
              simp only [Except.ok.injEq] at h1b
              simp only at h1a
              rw [← ih, hr] at h2
              simp only [Except.ok.injEq] at h2
              subst h1a; subst h1b; subst h2; rfl

/-! ### dimensionality and registries -/

theorem dimItems_zero : dimItems 0 Dims.zero = [] :=
  (dimItems_eq_nil_iff _ _).mpr fun e he => by simpa [Dims.zero] using (List.mem_replicate.mp he).2

theorem getPhysicalDimensionality_scalar (v : PyVal α) (hv : v.WF) :
    getPhysicalDimensionality (.scalar v) = .ok (dimItems 0 v.dims) ∧
    (dimItems 0 v.dims = [] ↔ v.dims = Dims.zero) ∧
    (isUnitless (.atom v) = true ↔ v.dims = Dims.zero) := by
  have hd := PyVal.dims_wf hv
  have hnil : dimItems 0 v.dims = [] ↔ v.dims = Dims.zero := by
    rw [dimItems_eq_nil_iff, Dims.eq_zero_iff hd]
  have hun : isUnitless (.atom v) = true ↔ v.dims = Dims.zero := by
    cases v <;> simp [isUnitless, isUnitlessScalar, PyVal.dims, PyVal.asQuantity, Unit.one]
  refine ⟨?_, hnil, hun⟩
  by_cases h : v.dims = Dims.zero
  · have h1 := hun.mpr h
    simp only [getPhysicalDimensionality, Flat.toVal, h1, if_true, hnil.mpr h]
  · have h1 : ¬ isUnitless (.atom v) = true := fun hh => h (hun.mp hh)
    simp only [getPhysicalDimensionality, Flat.toVal, h1, PyVal.dims]
    rfl

theorem registry_consistent_scalar (reg : Registry α) (hreg : RegistryWF reg) (q : PyVal α) (hq : q.WF) :
    ∃ U x, defaultUnitInRegistry (.scalar q) reg = .ok U ∧ U.WF ∧
      U.dims = q.dims ∧ U.si = regProd reg q.dims ∧ U.si ≠ 0 ∧
      unitlessInRegistry (.scalar q) reg = .ok (.num x) ∧ x = q.si / U.si ∧
      (timesUnit x U).si = q.si ∧ (timesUnit x U).dims = q.dims := by
  obtain ⟨hg, hnil, _⟩ := getPhysicalDimensionality_scalar q hq
  have hd := PyVal.dims_wf hq
  have key : ∃ U, defaultUnitInRegistry (.scalar q) reg = .ok U ∧ U.WF ∧ U.dims = q.dims ∧ U.si = regProd reg q.dims ∧ U.si ≠ 0 := by
    cases hit : dimItems 0 q.dims with
    | nil =>
      have hz := hnil.mp hit
      refine ⟨PyVal.one, by simp [defaultUnitInRegistry, hg, hit], by simp [PyVal.one, PyVal.WF], ?_, ?_, ?_⟩
      · simp [PyVal.one, hz]
      · rw [hz, regProd_zero]; simp [PyVal.one]
      · simp [PyVal.one]
    | cons d ds =>
      obtain ⟨U, h1, h2, h3, h4, h5⟩ := getUnitFromRegistry_spec reg hreg q.dims hd (by simp [hit])
      refine ⟨U, ?_, h2, h3, h4, h5⟩
      simp only [defaultUnitInRegistry, hg, hit]
      rw [← hit]; exact h1
  obtain ⟨U, h1, h2, h3, h4, h5⟩ := key
  have hx : toUnitlessScalar q U = .ok (q.si / U.si) :=
    (toUnitlessScalar_ok_iff hq h2 _).mpr ⟨h3.symm, rfl⟩
  refine ⟨U, q.si / U.si, h1, h2, h3, h4, h5, ?_, rfl, ?_, ?_⟩
  · simp [unitlessInRegistry, h1, Flat.toVal, toUnitless_atom, hx, Except.map]
  · rw [timesUnit_si]; field_simp
  · rw [timesUnit_dims, h3]

/-! ### derived units -/

theorem mem_of_lookup {β : Type} (l : List (String × β)) (k : String) (v : β) (h : l.lookup k = some v) : (k, v) ∈ l := by
  induction l with
  | nil => simp at h
  | cons p r ih =>
    obtain ⟨k', v'⟩ := p
    by_cases hk : k = k'
    · subst hk
      simp [List.lookup] at h; subst h; simp
    · have hk' : (k == k') = false := by simpa using hk
      simp only [List.lookup, hk'] at h
      simp [ih h]

theorem derivedTable_wf : ∀ p ∈ Gen.Units.derivedTable, Dims.WF p.2 := by
  unfold Dims.WF; decide +kernel

theorem getDerivedUnit_derived (reg : Registry α) (hreg : RegistryWF reg) (key : String) (e : Dims)
    (h : Gen.Units.derivedTable.lookup key = some e) :
    ∃ U, getDerivedUnit (some reg) key = .ok U ∧ U.WF ∧ U.dims = e ∧ U.si = regProd reg e ∧ U.si ≠ 0 := by
  obtain ⟨ds, hds, hspec⟩ := derivedAll_spec reg hreg Gen.Units.derivedTable derivedTable_wf
  obtain ⟨hsome, hU⟩ := hspec key
  rw [h] at hsome
  obtain ⟨U, hUl⟩ := Option.isSome_iff_exists.mp hsome
  obtain ⟨e', he', hw, hd, hs, hn⟩ := hU U hUl
  rw [h] at he'; cases he'
  exact ⟨U, by simp [getDerivedUnit, hds, hUl], hw, hd, hs, hn⟩

theorem getDerivedUnit_base (reg : Registry α) (hreg : RegistryWF reg) (key : String) (i : ℕ)
    (hk : Gen.Units.derivedTable.lookup key = none) (hi : keyIndex? key = some i) :
    ∃ h : i < reg.length, getDerivedUnit (some reg) key = .ok reg[i] ∧ reg[i].dims = Dims.basis i := by
  obtain ⟨ds, hds, hspec⟩ := derivedAll_spec reg hreg Gen.Units.derivedTable derivedTable_wf
  have hnone : ds.lookup key = none := by
    have := (hspec key).1
    rw [hk] at this
    simpa using this
  have hlt : i < reg.length := by
    rw [hreg.len]
    simp only [keyIndex?] at hi
    split at hi
    · rename_i hlt
      simp at hi; subst hi
      have : Gen.Units.registryKeys.length = nDims := by decide
      omega
    · simp at hi
  exact ⟨hlt, by simp [getDerivedUnit, hds, hnone, hi, List.getElem?_eq_getElem hlt], (hreg.entry i hlt).2.1⟩

/-! ### human readable -/

/-- what is required of a registry entry for the round trip: the int `1`, or `factor ×` a single unit object whose plain
    symbol the unit-string parser resolves to a unit object of the same value (usually the very same object; chempy's own
    `micromole` comes back as quantities' `umol`) -/
def HRok (lookup : String → Option (List (SymUnit α × Int))) (e : RegEntry α) : Prop :=
  e = .num 1 ∨ ∃ mag u u', e = .q mag [(u, 1)] ∧ lookup u.symbol = some [(u', 1)] ∧ u'.unit = u.unit

theorem human_roundtrip (lookup : String → Option (List (SymUnit α × Int))) (reg : List (RegEntry α))
    (h : ∀ e ∈ reg, HRok lookup e) :
    ∃ hs reg', toHuman reg = .ok hs ∧ fromHuman lookup hs = .ok reg' ∧
      reg'.map RegEntry.value = reg.map RegEntry.value ∧
      ((∀ e ∈ reg, e = .num 1 ∨ ∃ mag u, e = .q mag [(u, 1)] ∧ lookup u.symbol = some [(u, 1)]) → reg' = reg) := by
  induction reg with
  | nil => exact ⟨[], [], by simp [toHuman], by simp [fromHuman], rfl, fun _ => rfl⟩
  | cons e r ih =>
    obtain ⟨hs, r', h1, h2, h3, h4⟩ := ih (fun x hx => h x (by simp [hx]))
    rcases h e (by simp) with rfl | ⟨mag, u, u', rfl, hl, hu⟩
    · refine ⟨.one 1 :: hs, .num 1 :: r', by simp [toHuman, toHumanEntry, h1], by simp [fromHuman, fromHumanEntry, h2], by simp [h3], ?_⟩
      intro hex
      rw [h4 (fun x hx => hex x (by simp [hx]))]
    · refine ⟨.fs mag u.symbol :: hs, .q mag [(u', 1)] :: r', by simp [toHuman, toHumanEntry, h1],
        by simp [fromHuman, fromHumanEntry, hl, h2], by simp [h3, RegEntry.value, hu], ?_⟩
      intro hex
      rw [h4 (fun x hx => hex x (by simp [hx]))]
      rcases hex (.q mag [(u, 1)]) (by simp) with hbad | ⟨mag2, u2, he, hl2⟩
      · simp at hbad
      · simp only [RegEntry.q.injEq, List.cons.injEq, Prod.mk.injEq, and_true] at he
        obtain ⟨_, rfl⟩ := he
        rw [hl] at hl2
        simp only [Option.some.injEq, List.cons.injEq, Prod.mk.injEq, and_true] at hl2
        rw [hl2]

/-! ### Backend -/

theorem dimensionless_wf : (PyVal.qty (Quantity.dimensionless : Quantity α)).WF :=
  ⟨by simp [Quantity.dimensionless, Unit.one], by simpa [Quantity.dimensionless, Unit.one] using Dims.zero_wf⟩

theorem forall₂_map_of {β γ : Type} {R : β → γ → Prop} (f : β → γ) (l : List β) (h : ∀ a ∈ l, R a (f a)) :
    List.Forall₂ R l (l.map f) := by
  induction l with
  | nil => exact List.Forall₂.nil
  | cons a r ih => exact List.Forall₂.cons (h a (by simp)) (ih fun x hx => h x (by simp [hx]))

theorem forall₂_mem_left {β γ : Type} {R : β → γ → Prop} {l : List β} {xs : List γ} (h : List.Forall₂ R l xs)
    {a : β} (ha : a ∈ l) : ∃ x, R a x := by
  induction h with
  | nil => simp at ha
  | cons h1 _ ih =>
    rcases List.mem_cons.mp ha with rfl | ha
    · exact ⟨_, h1⟩
    · exact ih ha

theorem backend_spec {β : Type} (f : List α → β) (args : List (PyVal α)) (hargs : ∀ a ∈ args, a.WF) :
    ((∀ a ∈ args, a.dims = Dims.zero) → backendCall f args = .ok (f (args.map PyVal.si))) ∧
    ((∃ a ∈ args, a.dims ≠ Dims.zero) → backendCall f args = .error .valueError) := by
  have hdl := dimensionless_wf (α := α)
  have hdd : (PyVal.qty (Quantity.dimensionless : Quantity α)).dims = Dims.zero := rfl
  have hds : (PyVal.qty (Quantity.dimensionless : Quantity α)).si = 1 := by simp [Quantity.dimensionless, Unit.one]
  constructor
  · intro h
    have : toUnitlessFlat args (.qty Quantity.dimensionless) = .ok (args.map PyVal.si) := by
      rw [toUnitlessFlat_ok_iff]
      apply forall₂_map_of
      intro a ha
      exact (toUnitlessScalar_ok_iff (hargs a ha) hdl _).mpr ⟨by rw [h a ha, hdd], by rw [hds]; simp⟩
    simp [backendCall, this]
  · rintro ⟨a, ha, hne⟩
    cases hr : toUnitlessFlat args (.qty Quantity.dimensionless) with
    | ok xs =>
      exfalso
      have hf := (toUnitlessFlat_ok_iff _ _ _).mp hr
      obtain ⟨x, hx⟩ := forall₂_mem_left hf ha
      exact hne (((toUnitlessScalar_ok_iff (hargs a ha) hdl _).mp hx).1.trans hdd)
    | error e =>
      obtain ⟨v, hv, hve⟩ := toUnitlessFlat_error hr
      have := ((toUnitlessScalar_error_iff (hargs v hv) hdl e).mp hve).2
      subst this
      simp [backendCall, hr]

/-! ### array helpers: wrapper = plain routine on the magnitudes in the first element's unit, times that unit -/

theorem unitOfScalar_wf {v : PyVal α} (hv : v.WF) : (unitOfScalar v).WF := by
  cases v <;> simp_all [unitOfScalar, PyVal.one, PyVal.WF, Quantity.units]

theorem unitOfScalar_dims (v : PyVal α) : (unitOfScalar v).dims = v.dims := by
  cases v <;> simp [unitOfScalar, PyVal.one, Quantity.units]

theorem unitOfScalar_si_ne {v : PyVal α} (hv : v.WF) : (unitOfScalar v).si ≠ 0 := by
  cases v with
  | num x => simp [unitOfScalar, PyVal.one]
  | qty q => simpa [unitOfScalar, Quantity.units] using hv.factor_ne

/-- the unit of a value is idempotent under "times that unit": what `unit_of(uniform(l)[0])` relies on -/
theorem unitOfScalar_timesUnit (x : α) (v : PyVal α) : unitOfScalar (timesUnit x (unitOfScalar v)) = unitOfScalar v := by
  cases v <;> simp [unitOfScalar, timesUnit, PyVal.mul, PyVal.one, Quantity.units]

theorem toUnitlessFlat_spec (l : List (PyVal α)) (u : PyVal α) (hl : ∀ a ∈ l, a.WF) (hu : u.WF) :
    ((∀ a ∈ l, a.dims = u.dims) → toUnitlessFlat l u = .ok (l.map fun a => a.si / u.si)) ∧
    ((∃ a ∈ l, a.dims ≠ u.dims) → toUnitlessFlat l u = .error .valueError) := by
  constructor
  · intro h
    rw [toUnitlessFlat_ok_iff]
    apply forall₂_map_of
    intro a ha
    exact (toUnitlessScalar_ok_iff (hl a ha) hu _).mpr ⟨h a ha, rfl⟩
  · rintro ⟨a, ha, hne⟩
    cases hr : toUnitlessFlat l u with
    | ok xs =>
      exfalso
      obtain ⟨x, hx⟩ := forall₂_mem_left ((toUnitlessFlat_ok_iff _ _ _).mp hr) ha
      exact hne ((toUnitlessScalar_ok_iff (hl a ha) hu _).mp hx).1
    | error e =>
      obtain ⟨v, hv, hve⟩ := toUnitlessFlat_error hr
      rw [((toUnitlessScalar_error_iff (hl v hv) hu e).mp hve).2]

/-- magnitudes in unit `u`, times `u`, are the original physical values -/
theorem map_timesUnit_si (l : List (PyVal α)) (u : PyVal α) (hu : u.si ≠ 0) :
    ((l.map fun a => a.si / u.si).map (timesUnit · u)).map PyVal.si = l.map PyVal.si := by
  simp only [List.map_map]
  apply List.map_congr_left
  intro a _
  simp only [Function.comp, timesUnit_si]
  field_simp

theorem plainLinspace_smul (a b c : α) (n : ℕ) :
    (plainLinspace a b n).map (· * c) = plainLinspace (a * c) (b * c) n := by
  match n with
  | 0 => simp [plainLinspace]
  | 1 => simp [plainLinspace]
  | n + 2 =>
    simp only [plainLinspace, List.map_map]
    apply List.map_congr_left
    intro i _
    simp only [Function.comp, div_eq_mul_inv]
    ring

/-- `linspace`: refuses incompatible end points; otherwise the result is `np.linspace` of the magnitudes in the unit of
    `start`, times that unit — and its physical values are `np.linspace` of the physical end points, whatever the units. -/
theorem linspace_spec (start stop : PyVal α) (hs : start.WF) (he : stop.WF) (n : ℕ) :
    (start.dims = stop.dims →
      linspace start stop n = .ok ((plainLinspace (start.si / (unitOfScalar start).si) (stop.si / (unitOfScalar start).si) n).map
        (timesUnit · (unitOfScalar start))) ∧
      ∀ r, linspace start stop n = .ok r →
        r.map PyVal.si = plainLinspace start.si stop.si n ∧ ∀ v ∈ r, v.dims = start.dims) ∧
    (start.dims ≠ stop.dims → linspace start stop n = .error .valueError) := by
  have hu := unitOfScalar_wf hs
  have hud := unitOfScalar_dims start
  have hune := unitOfScalar_si_ne hs
  have h1 : toUnitlessScalar start (unitOfScalar start) = .ok (start.si / (unitOfScalar start).si) :=
    (toUnitlessScalar_ok_iff hs hu _).mpr ⟨hud.symm, rfl⟩
  constructor
  · intro hd
    have h2 : toUnitlessScalar stop (unitOfScalar start) = .ok (stop.si / (unitOfScalar start).si) :=
      (toUnitlessScalar_ok_iff he hu _).mpr ⟨by rw [hud, hd], rfl⟩
    have hl : linspace start stop n = .ok ((plainLinspace (start.si / (unitOfScalar start).si) (stop.si / (unitOfScalar start).si) n).map
        (timesUnit · (unitOfScalar start))) := by
      simp [linspace, h1, h2]
    refine ⟨hl, ?_⟩
    intro r hr
    rw [hl] at hr; simp only [Except.ok.injEq] at hr; subst hr
    constructor
    · rw [List.map_map]
      have : (PyVal.si ∘ fun x => timesUnit x (unitOfScalar start)) = fun x => x * (unitOfScalar start).si := by
        funext x; simp [timesUnit_si]
      rw [this, plainLinspace_smul]
      congr 1 <;> field_simp
    · intro v hv
      obtain ⟨x, _, rfl⟩ := List.mem_map.mp hv
      rw [timesUnit_dims, hud]
  · intro hd
    have h2 : toUnitlessScalar stop (unitOfScalar start) = .error .valueError :=
      (toUnitlessScalar_error_iff he hu _).mpr ⟨by rw [hud]; exact fun h => hd h.symm, rfl⟩
    simp [linspace, h1, h2]

theorem plainTile_map {β γ : Type} (f : β → γ) (l : List β) (n : ℕ) : (plainTile l n).map f = plainTile (l.map f) n := by
  induction n with
  | zero => simp [plainTile]
  | succ n ih => simp [plainTile, ih]

/-- `tile`: refuses mixed dimensions; otherwise `np.tile` of the magnitudes in the first element's unit, times that unit;
    the physical values are `np.tile` of the physical values -/
theorem tile_spec (elem : PyVal α) (rest : List (PyVal α)) (reps : ℕ) (hw : ∀ a ∈ elem :: rest, a.WF) :
    ((∀ a ∈ rest, a.dims = elem.dims) →
      tile (elem :: rest) reps = .ok ((plainTile ((elem :: rest).map fun a => a.si / (unitOfScalar elem).si) reps).map
        (timesUnit · (unitOfScalar elem))) ∧
      ∀ r, tile (elem :: rest) reps = .ok r → r.map PyVal.si = plainTile ((elem :: rest).map PyVal.si) reps) ∧
    ((∃ a ∈ rest, a.dims ≠ elem.dims) → tile (elem :: rest) reps = .error .valueError) ∧
    tile ([] : List (PyVal α)) reps = .error .indexError := by
  have hs := hw elem (by simp)
  have hu := unitOfScalar_wf hs
  have hud := unitOfScalar_dims elem
  have hune := unitOfScalar_si_ne hs
  obtain ⟨f1, f2⟩ := toUnitlessFlat_spec (elem :: rest) (unitOfScalar elem) hw hu
  refine ⟨?_, ?_, rfl⟩
  · intro h
    have hall : ∀ a ∈ elem :: rest, a.dims = (unitOfScalar elem).dims := by
      intro a ha
      rcases List.mem_cons.mp ha with rfl | ha
      · exact hud.symm
      · rw [hud]; exact h a ha
    have ht : tile (elem :: rest) reps = .ok ((plainTile ((elem :: rest).map fun a => a.si / (unitOfScalar elem).si) reps).map
        (timesUnit · (unitOfScalar elem))) := by
      simp only [tile, f1 hall]
    refine ⟨ht, ?_⟩
    intro r hr
    rw [ht] at hr; simp only [Except.ok.injEq] at hr; subst hr
    rw [plainTile_map, plainTile_map, map_timesUnit_si _ _ hune]
  · rintro ⟨a, ha, hne⟩
    have : toUnitlessFlat (elem :: rest) (unitOfScalar elem) = .error .valueError :=
      f2 ⟨a, by simp [ha], by rw [hud]; exact hne⟩
    simp only [tile, this]

/-- the unit chempy assigns to coefficient `i` of a degree-`deg` polynomial (`polyfit`, `polyval`): `u_y / u_x^(deg−i)` -/
theorem coeffUnit_spec (ux uy : PyVal α) (hx : ux.WF) (hy : uy.WF) (deg i : ℕ) :
    (coeffUnit ux uy deg i).WF ∧
    (coeffUnit ux uy deg i).si = uy.si * ux.si ^ ((i : ℤ) - (deg : ℤ)) ∧
    (coeffUnit ux uy deg i).dims = uy.dims.add (Dims.smul ((i : ℤ) - (deg : ℤ)) ux.dims) := by
  refine ⟨PyVal.mul_wf hy (PyVal.pow_wf hx _), ?_, ?_⟩
  · simp [coeffUnit, PyVal.mul_si, PyVal.pow_si]
  · simp [coeffUnit, PyVal.mul_dims hy (PyVal.pow_wf hx _), PyVal.pow_dims]

/-- a plain numeric `np.ndarray` is converted exactly like the list of its elements (the shortcut `return value` is taken only
    when the target is dimensionless with SI value exactly 1, where the element-wise result is the array itself) -/
theorem toUnitless_ndarray (xs : List α) (u : PyVal α) (hu : u.WF) :
    toUnitless (.ndarray xs) u = (toUnitlessFlat (xs.map .num) u).map (fun ys => Res.list (ys.map .num)) := by
  rw [toUnitless]
  by_cases hun : isUnitlessScalar u = true
  · -- the target is dimensionless: rescale succeeds, and `== 1` tests the SI value
    have hd : u.dims = Dims.zero := by
      cases u <;> simp_all [isUnitlessScalar, PyVal.dims, PyVal.asQuantity, Unit.one]
    have hflat : toUnitlessFlat (xs.map .num) u = .ok ((xs.map PyVal.num).map fun a => a.si / u.si) :=
      (toUnitlessFlat_spec (xs.map .num) u (by intro a ha; obtain ⟨x, _, rfl⟩ := List.mem_map.mp ha; trivial) hu).1
        (by intro a ha; obtain ⟨x, _, rfl⟩ := List.mem_map.mp ha; simp [hd])
    simp only [hun, if_true, hflat, Except.map]
    have hone : u.si = 1 → (Except.ok (Res.list (xs.map Res.num)) : Except Err (Res α)) =
        .ok (Res.list (((xs.map PyVal.num).map fun a => a.si / u.si).map Res.num)) := by
      intro h1; simp [h1, List.map_map, Function.comp]
    cases u with
    | num y =>
      simp only [rescale, PyVal.eqOne, Quantity.dimensionless, decide_true, if_true, Nat.cast_one, decide_eq_true_eq]
      split_ifs with hy
      · exact hone (by simpa using hy)
      · rfl
    | qty q =>
      have hq : q.unit.dims = (Unit.one : Unit α).dims := hd
      simp only [rescale, quantitiesRescale, Quantity.dimensionless, Nat.cast_one, ne_eq, not_true_eq_false, if_false, hq,
        if_true, Except.map, PyVal.eqOne, decide_eq_true_eq]
      split_ifs with hy
      · exact hone (by simpa [Unit.one] using hy)
      · rfl
  · simp only [hun]
    cases toUnitlessFlat (xs.map PyVal.num) u <;> rfl

/-! ### concatenate -/

theorem concatGo_spec (u : PyVal α) (hu : u.WF) (arrays : List (List (PyVal α))) (hw : ∀ arr ∈ arrays, ∀ a ∈ arr, a.WF) :
    ((∀ arr ∈ arrays, ∀ a ∈ arr, a.dims = u.dims) → concatGo u arrays = .ok (arrays.flatten.map fun a => a.si / u.si)) ∧
    ((∃ arr ∈ arrays, ∃ a ∈ arr, a.dims ≠ u.dims) → concatGo u arrays = .error .valueError) := by
  induction arrays with
  | nil => exact ⟨fun _ => by simp [concatGo], by simp⟩
  | cons arr r ih =>
    obtain ⟨ih1, ih2⟩ := ih (fun x hx => hw x (by simp [hx]))
    obtain ⟨f1, f2⟩ := toUnitlessFlat_spec arr u (hw arr (by simp)) hu
    constructor
    · intro h
      simp [concatGo, f1 (h arr (by simp)), ih1 (fun x hx => h x (by simp [hx]))]
    · rintro ⟨x, hx, a, ha, hne⟩
      by_cases hbad : ∃ a ∈ arr, a.dims ≠ u.dims
      · simp [concatGo, f2 hbad]
      · have hgood : ∀ a ∈ arr, a.dims = u.dims := by
          intro b hb; by_contra hc; exact hbad ⟨b, hb, hc⟩
        rcases List.mem_cons.mp hx with rfl | hx
        · exact absurd (hgood a ha) hne
        · simp [concatGo, f1 hgood, ih2 ⟨x, hx, a, ha, hne⟩]

/-- `unit_of` of a non-empty flat list is the unit of its first element (after the detour through `uniform`) -/
theorem unitOf_list (h : PyVal α) (t : List (PyVal α)) (hw : ∀ a ∈ h :: t, a.WF) :
    ((∀ a ∈ t, a.dims = h.dims) → unitOf (.list (h :: t)) = .ok (unitOfScalar h)) ∧
    ((∃ a ∈ t, a.dims ≠ h.dims) → unitOf (.list (h :: t)) = .error .valueError) := by
  have hu := unitOfScalar_wf (hw h (by simp))
  have hud := unitOfScalar_dims h
  obtain ⟨f1, f2⟩ := toUnitlessFlat_spec (h :: t) (unitOfScalar h) hw hu
  constructor
  · intro hc
    have hall : ∀ a ∈ h :: t, a.dims = (unitOfScalar h).dims := by
      intro a ha
      rcases List.mem_cons.mp ha with rfl | ha
      · exact hud.symm
      · rw [hud]; exact hc a ha
    simp [unitOf, uniformList, f1 hall, unitOfScalar_timesUnit]
  · rintro ⟨a, ha, hne⟩
    simp [unitOf, uniformList, f2 ⟨a, by simp [ha], by rw [hud]; exact hne⟩]

/-- `concatenate`: `np.concatenate` of the magnitudes in the unit of the very first element, times that unit; physical values
    = concatenation of the physical values; any element of another dimension → ValueError; no first element → IndexError -/
theorem concatenate_spec (h : PyVal α) (t : List (PyVal α)) (rest : List (List (PyVal α)))
    (hw : ∀ arr ∈ (h :: t) :: rest, ∀ a ∈ arr, a.WF) :
    ((∀ arr ∈ (h :: t) :: rest, ∀ a ∈ arr, a.dims = h.dims) →
      concatenate ((h :: t) :: rest) =
        .ok (((((h :: t) :: rest).flatten).map fun a => a.si / (unitOfScalar h).si).map (timesUnit · (unitOfScalar h))) ∧
      ∀ r, concatenate ((h :: t) :: rest) = .ok r → r.map PyVal.si = (((h :: t) :: rest).flatten).map PyVal.si) ∧
    ((∃ arr ∈ (h :: t) :: rest, ∃ a ∈ arr, a.dims ≠ h.dims) → concatenate ((h :: t) :: rest) = .error .valueError) ∧
    concatenate ([] : List (List (PyVal α))) = .error .indexError ∧
    concatenate (([] : List (PyVal α)) :: rest) = .error .indexError := by
  have hwh := hw (h :: t) (by simp)
  have hu := unitOfScalar_wf (hwh h (by simp))
  have hud := unitOfScalar_dims h
  have hune := unitOfScalar_si_ne (hwh h (by simp))
  obtain ⟨u1, u2⟩ := unitOf_list h t hwh
  obtain ⟨g1, g2⟩ := concatGo_spec (unitOfScalar h) hu ((h :: t) :: rest) hw
  refine ⟨?_, ?_, rfl, by simp [concatenate, unitOf, uniformList]⟩
  · intro hc
    have hc' : ∀ arr ∈ (h :: t) :: rest, ∀ a ∈ arr, a.dims = (unitOfScalar h).dims := by
      intro arr harr a ha; rw [hud]; exact hc arr harr a ha
    have ht : ∀ a ∈ t, a.dims = h.dims := fun a ha => hc (h :: t) (by simp) a (by simp [ha])
    have hcat : concatenate ((h :: t) :: rest) =
        .ok (((((h :: t) :: rest).flatten).map fun a => a.si / (unitOfScalar h).si).map (timesUnit · (unitOfScalar h))) := by
      simp only [concatenate, u1 ht, g1 hc']
    refine ⟨hcat, ?_⟩
    intro r hr
    rw [hcat] at hr; simp only [Except.ok.injEq] at hr; subst hr
    exact map_timesUnit_si _ _ hune
  · rintro ⟨arr, harr, a, ha, hne⟩
    by_cases hbad : ∃ a ∈ t, a.dims ≠ h.dims
    · simp only [concatenate, u2 hbad]
    · have ht : ∀ a ∈ t, a.dims = h.dims := by
        intro b hb; by_contra hcn; exact hbad ⟨b, hb, hcn⟩
      have := g2 ⟨arr, harr, a, ha, by rw [hud]; exact hne⟩
      simp only [concatenate, u1 ht, this]

/-! ### polyval: Horner homogeneity -/

/-- the dimensions `polyval` requires of the coefficients from index `i` on -/
def coeffsCompat (ux uy : PyVal α) (deg : ℕ) : ℕ → List (PyVal α) → Prop
  | _, [] => True
  | i, v :: r => v.dims = (coeffUnit ux uy deg i).dims ∧ coeffsCompat ux uy deg (i + 1) r

/-- the unitless coefficients `polyval` hands to `np.polyval` -/
def coeffsSpec (ux uy : PyVal α) (deg : ℕ) : ℕ → List (PyVal α) → List α
  | _, [] => []
  | i, v :: r => v.si / (coeffUnit ux uy deg i).si :: coeffsSpec ux uy deg (i + 1) r

theorem polyvalCoeffs_spec (ux uy : PyVal α) (hx : ux.WF) (hy : uy.WF) (deg : ℕ) (i : ℕ) (l : List (PyVal α))
    (hl : ∀ v ∈ l, v.WF) :
    (coeffsCompat ux uy deg i l → polyvalCoeffs ux uy deg i l = .ok (coeffsSpec ux uy deg i l)) ∧
    (¬ coeffsCompat ux uy deg i l → polyvalCoeffs ux uy deg i l = .error .valueError) := by
  induction l generalizing i with
  | nil => exact ⟨fun _ => by simp [polyvalCoeffs, coeffsSpec], fun h => absurd trivial h⟩
  | cons v r ih =>
    obtain ⟨ih1, ih2⟩ := ih (i + 1) (fun w hw => hl w (by simp [hw]))
    have hcw := (coeffUnit_spec ux uy hx hy deg i).1
    have hv := hl v (by simp)
    constructor
    · rintro ⟨h1, h2⟩
      have := (toUnitlessScalar_ok_iff hv hcw _).mpr ⟨h1, rfl⟩
      simp [polyvalCoeffs, this, ih1 h2, coeffsSpec]
    · intro hn
      by_cases h1 : v.dims = (coeffUnit ux uy deg i).dims
      · have := (toUnitlessScalar_ok_iff hv hcw _).mpr ⟨h1, rfl⟩
        have h2 : ¬ coeffsCompat ux uy deg (i + 1) r := fun h2 => hn ⟨h1, h2⟩
        simp [polyvalCoeffs, this, ih2 h2]
      · have := (toUnitlessScalar_error_iff hv hcw _).mpr ⟨h1, rfl⟩
        simp [polyvalCoeffs, this]

/-- Horner's scheme is homogeneous: evaluating the unitless coefficients at the unitless argument and multiplying by `u_y`
    is evaluating the physical coefficients at the physical argument -/
theorem horner_homogeneous (ux uy : PyVal α) (hx : ux.WF) (hy : uy.WF) (ha : ux.si ≠ 0) (hb : uy.si ≠ 0) (deg : ℕ) (X : α)
    (l : List (PyVal α)) (i : ℕ) (acc acc' : α)
    (hacc : acc = uy.si * ux.si ^ ((i : ℤ) - 1 - (deg : ℤ)) * acc') :
    (l.map PyVal.si).foldl (fun s c => s * X + c) acc =
      uy.si * ux.si ^ (((i + l.length : ℕ) : ℤ) - 1 - (deg : ℤ)) *
        (coeffsSpec ux uy deg i l).foldl (fun s c => s * (X / ux.si) + c) acc' := by
  induction l generalizing i acc acc' with
  | nil => simpa [coeffsSpec] using hacc
  | cons v r ih =>
    simp only [List.map_cons, List.foldl_cons, coeffsSpec, List.length_cons]
    have hstep : acc * X + v.si =
        uy.si * ux.si ^ (((i + 1 : ℕ) : ℤ) - 1 - (deg : ℤ)) * (acc' * (X / ux.si) + v.si / (coeffUnit ux uy deg i).si) := by
      rw [(coeffUnit_spec ux uy hx hy deg i).2.1, hacc]
      have e1 : (((i + 1 : ℕ) : ℤ) - 1 - (deg : ℤ)) = (i : ℤ) - (deg : ℤ) := by push_cast; ring
      have e2 : ux.si ^ ((i : ℤ) - (deg : ℤ)) = ux.si ^ ((i : ℤ) - 1 - (deg : ℤ)) * ux.si := by
        rw [← zpow_add_one₀ ha]; congr 1; ring
      have hA : ux.si ^ ((i : ℤ) - 1 - (deg : ℤ)) ≠ 0 := zpow_ne_zero _ ha
      rw [e1, e2]
      field_simp
    have := ih (i + 1) (acc * X + v.si) (acc' * (X / ux.si) + v.si / (coeffUnit ux uy deg i).si) hstep
    rw [this]
    congr 3
    push_cast; ring

/-- `polyval(p, x)` for a scalar `x`: it refuses coefficients whose dimension is not `dims u_y + (i−deg)·dims u_x`
    (`u_x` the unit of `x`, `u_y` the unit of the last coefficient); otherwise the physical value of the result is the
    polynomial of the physical coefficients at the physical argument, in the dimension of the constant coefficient -/
theorem polyval_scalar_spec (p0 : PyVal α) (ps : List (PyVal α)) (x : PyVal α) (hp : ∀ v ∈ p0 :: ps, v.WF) (hx : x.WF) :
    (coeffsCompat (unitOfScalar x) (unitOfScalar ((p0 :: ps).getLast (by simp))) ps.length 0 (p0 :: ps) →
      ∃ r, polyval (p0 :: ps) (.scalar x) = .ok [r] ∧ r.si = plainPolyval ((p0 :: ps).map PyVal.si) x.si ∧
        r.dims = ((p0 :: ps).getLast (by simp)).dims) ∧
    (¬ coeffsCompat (unitOfScalar x) (unitOfScalar ((p0 :: ps).getLast (by simp))) ps.length 0 (p0 :: ps) →
      polyval (p0 :: ps) (.scalar x) = .error .valueError) ∧
    polyval ([] : List (PyVal α)) (.scalar x) = .error .indexError := by
  have hplw : ((p0 :: ps).getLast (by simp)).WF := hp _ (List.getLast_mem _)
  have hux := unitOfScalar_wf hx
  have huy := unitOfScalar_wf hplw
  have ha := unitOfScalar_si_ne hx
  have hb := unitOfScalar_si_ne hplw
  have hlast : (p0 :: ps).getLast? = some ((p0 :: ps).getLast (by simp)) := by
    simp [List.getLast?_eq_some_getLast]
  have hlen : (p0 :: ps).length - 1 = ps.length := by simp
  obtain ⟨c1, c2⟩ := polyvalCoeffs_spec (unitOfScalar x) (unitOfScalar ((p0 :: ps).getLast (by simp))) hux huy ps.length 0 (p0 :: ps) hp
  have hxs : toUnitlessScalar x (unitOfScalar x) = .ok (x.si / (unitOfScalar x).si) :=
    (toUnitlessScalar_ok_iff hx hux _).mpr ⟨(unitOfScalar_dims x).symm, rfl⟩
  refine ⟨?_, ?_, by simp [polyval, unitOf]⟩
  · intro hc
    refine ⟨timesUnit (plainPolyval (coeffsSpec (unitOfScalar x) (unitOfScalar ((p0 :: ps).getLast (by simp))) ps.length 0 (p0 :: ps))
      (x.si / (unitOfScalar x).si)) (unitOfScalar ((p0 :: ps).getLast (by simp))), ?_, ?_, ?_⟩
    · simp only [polyval, unitOf, hlast, hlen, c1 hc, hxs, Except.map, List.map_cons, List.map_nil]
    · rw [timesUnit_si]
      have := horner_homogeneous (unitOfScalar x) (unitOfScalar ((p0 :: ps).getLast (by simp))) hux huy ha hb ps.length x.si
        (p0 :: ps) 0 0 0 (by simp)
      simp only [plainPolyval, Nat.cast_zero] at this ⊢
      rw [this]
      have e : (((0 + (p0 :: ps).length : ℕ) : ℤ) - 1 - ((ps.length : ℕ) : ℤ)) = 0 := by
        simp only [List.length_cons]; push_cast; ring
      rw [e]; simp; ring
    · rw [timesUnit_dims, unitOfScalar_dims]
  · intro hn
    simp only [polyval, unitOf, hlast, hlen, c2 hn]

/-- Horner homogeneity at an arbitrary physical argument `X` -/
theorem plainPolyval_homogeneous (ux uy : PyVal α) (hx : ux.WF) (hy : uy.WF) (ha : ux.si ≠ 0) (hb : uy.si ≠ 0)
    (p0 : PyVal α) (ps : List (PyVal α)) (X : α) :
    plainPolyval (coeffsSpec ux uy ps.length 0 (p0 :: ps)) (X / ux.si) * uy.si = plainPolyval ((p0 :: ps).map PyVal.si) X := by
  have := horner_homogeneous ux uy hx hy ha hb ps.length X (p0 :: ps) 0 0 0 (by simp)
  simp only [plainPolyval, Nat.cast_zero] at this ⊢
  rw [this]
  have e : (((0 + (p0 :: ps).length : ℕ) : ℤ) - 1 - ((ps.length : ℕ) : ℤ)) = 0 := by
    simp only [List.length_cons]; push_cast; ring
  rw [e]; simp; ring

/-- `polyval(p, x)` for a list/array `x`: every element is evaluated like a scalar — the physical values of the result are the
    polynomial of the physical coefficients at the physical arguments; abscissae of mixed dimension or coefficients of the
    wrong dimension raise ValueError -/
theorem polyval_list_spec (p0 : PyVal α) (ps : List (PyVal α)) (x0 : PyVal α) (xt : List (PyVal α))
    (hp : ∀ v ∈ p0 :: ps, v.WF) (hxw : ∀ a ∈ x0 :: xt, a.WF) :
    (coeffsCompat (unitOfScalar x0) (unitOfScalar ((p0 :: ps).getLast (by simp))) ps.length 0 (p0 :: ps) →
      ((∀ a ∈ xt, a.dims = x0.dims) →
        ∃ r, polyval (p0 :: ps) (.list (x0 :: xt)) = .ok r ∧
          r.map PyVal.si = (x0 :: xt).map (fun x => plainPolyval ((p0 :: ps).map PyVal.si) x.si) ∧
          ∀ v ∈ r, v.dims = ((p0 :: ps).getLast (by simp)).dims) ∧
      ((∃ a ∈ xt, a.dims ≠ x0.dims) → polyval (p0 :: ps) (.list (x0 :: xt)) = .error .valueError)) ∧
    (¬ coeffsCompat (unitOfScalar x0) (unitOfScalar ((p0 :: ps).getLast (by simp))) ps.length 0 (p0 :: ps) →
      polyval (p0 :: ps) (.list (x0 :: xt)) = .error .valueError) := by
  have hplw : ((p0 :: ps).getLast (by simp)).WF := hp _ (List.getLast_mem _)
  have hux := unitOfScalar_wf (hxw x0 (by simp))
  have huy := unitOfScalar_wf hplw
  have ha := unitOfScalar_si_ne (hxw x0 (by simp))
  have hb := unitOfScalar_si_ne hplw
  have hud := unitOfScalar_dims x0
  have hlast : (p0 :: ps).getLast? = some ((p0 :: ps).getLast (by simp)) := by
    simp [List.getLast?_eq_some_getLast]
  have hlen : (p0 :: ps).length - 1 = ps.length := by simp
  obtain ⟨c1, c2⟩ := polyvalCoeffs_spec (unitOfScalar x0) (unitOfScalar ((p0 :: ps).getLast (by simp))) hux huy ps.length 0 (p0 :: ps) hp
  obtain ⟨f1, f2⟩ := toUnitlessFlat_spec (x0 :: xt) (unitOfScalar x0) hxw hux
  refine ⟨fun hc => ⟨?_, ?_⟩, ?_⟩
  · intro hx
    have hall : ∀ a ∈ x0 :: xt, a.dims = (unitOfScalar x0).dims := by
      intro a ha'
      rcases List.mem_cons.mp ha' with rfl | ha'
      · exact hud.symm
      · rw [hud]; exact hx a ha'
    have hpv : polyval (p0 :: ps) (.list (x0 :: xt)) = .ok
        (((x0 :: xt).map fun a => a.si / (unitOfScalar x0).si).map fun x =>
          timesUnit (plainPolyval (coeffsSpec (unitOfScalar x0) (unitOfScalar ((p0 :: ps).getLast (by simp))) ps.length 0 (p0 :: ps)) x)
            (unitOfScalar ((p0 :: ps).getLast (by simp)))) := by
      simp only [polyval, hlast, hlen, c1 hc, f1 hall]
    refine ⟨_, hpv, ?_, ?_⟩
    · rw [List.map_map, List.map_map]
      apply List.map_congr_left
      intro a _
      simp only [Function.comp, timesUnit_si]
      exact plainPolyval_homogeneous _ _ hux huy ha hb p0 ps a.si
    · intro v hv
      simp only [List.mem_map] at hv
      obtain ⟨y, ⟨a, _, rfl⟩, rfl⟩ := hv
      rw [timesUnit_dims, unitOfScalar_dims]
  · rintro ⟨a, ha', hne⟩
    have := f2 ⟨a, by simp [ha'], by rw [hud]; exact hne⟩
    simp only [polyval, hlast, hlen, c1 hc, this]
  · intro hn
    simp only [polyval, hlast, hlen, c2 hn]

/-! ### polyfit: unit assignment -/

/-- `polyfit`: `np.polyfit` (`fit`, a parameter) runs on the magnitudes in the units of `x[0]` and `y[0]`; coefficient `i` of its
    result is given the unit `u_y/u_x^(deg−i)`; data of mixed dimension raise ValueError -/
theorem polyfit_spec (fit : List α → List α → ℕ → List α) (x0 y0 : PyVal α) (xt yt : List (PyVal α)) (deg : ℕ)
    (hxw : ∀ a ∈ x0 :: xt, a.WF) (hyw : ∀ a ∈ y0 :: yt, a.WF) :
    ((∀ a ∈ xt, a.dims = x0.dims) → (∀ a ∈ yt, a.dims = y0.dims) →
      ∃ r, polyfit fit (x0 :: xt) (y0 :: yt) deg = .ok r ∧
        let cs := fit ((x0 :: xt).map fun a => a.si / (unitOfScalar x0).si) ((y0 :: yt).map fun a => a.si / (unitOfScalar y0).si) deg
        r.length = cs.length ∧
        ∀ i (h1 : i < r.length) (h2 : i < cs.length),
          r[i].si = cs[i] * ((unitOfScalar y0).si * (unitOfScalar x0).si ^ ((i : ℤ) - (deg : ℤ))) ∧
          r[i].dims = y0.dims.add (Dims.smul ((i : ℤ) - (deg : ℤ)) x0.dims)) ∧
    ((∃ a ∈ xt, a.dims ≠ x0.dims) → polyfit fit (x0 :: xt) (y0 :: yt) deg = .error .valueError) := by
  have hux := unitOfScalar_wf (hxw x0 (by simp))
  have huy := unitOfScalar_wf (hyw y0 (by simp))
  obtain ⟨fx1, fx2⟩ := toUnitlessFlat_spec (x0 :: xt) (unitOfScalar x0) hxw hux
  obtain ⟨fy1, _⟩ := toUnitlessFlat_spec (y0 :: yt) (unitOfScalar y0) hyw huy
  constructor
  · intro hx hy
    have hxa : ∀ a ∈ x0 :: xt, a.dims = (unitOfScalar x0).dims := by
      intro a ha; rw [unitOfScalar_dims]
      rcases List.mem_cons.mp ha with rfl | ha
      · rfl
      · exact hx a ha
    have hya : ∀ a ∈ y0 :: yt, a.dims = (unitOfScalar y0).dims := by
      intro a ha; rw [unitOfScalar_dims]
      rcases List.mem_cons.mp ha with rfl | ha
      · rfl
      · exact hy a ha
    have hpf : polyfit fit (x0 :: xt) (y0 :: yt) deg = .ok
        ((fit ((x0 :: xt).map fun a => a.si / (unitOfScalar x0).si) ((y0 :: yt).map fun a => a.si / (unitOfScalar y0).si) deg).zipIdx.map
          fun p => ((PyVal.num p.1).mul (unitOfScalar y0)).mul ((unitOfScalar x0).pow ((p.2 : ℤ) - (deg : ℤ)))) := by
      simp only [polyfit, fx1 hxa, fy1 hya]
    refine ⟨_, hpf, ?_⟩
    refine ⟨by simp, ?_⟩
    intro i h1 h2
    simp only [List.getElem_map, List.getElem_zipIdx, Nat.zero_add]
    constructor
    · rw [PyVal.mul_si, PyVal.mul_si, PyVal.pow_si, PyVal.si_num]; ring
    · rw [PyVal.mul_dims (scale_wf _ huy) (PyVal.pow_wf hux _), scale_dims, PyVal.pow_dims, unitOfScalar_dims, unitOfScalar_dims]
  · rintro ⟨a, ha, hne⟩
    have := fx2 ⟨a, by simp [ha], by rw [unitOfScalar_dims]; exact hne⟩
    simp only [polyfit, this]


/-! ### round 3: containers for dimensionality / registry functions, `uniform` itself, compare_equality, _wrap_numpy, polyfit covariance -/

theorem isUnitlessScalar_iff (a : PyVal α) : isUnitlessScalar a = true ↔ a.dims = Dims.zero := by
  cases a <;> simp [isUnitlessScalar, PyVal.dims, PyVal.asQuantity, Unit.one]

theorem isUnitlessList_atoms (l : List (PyVal α)) :
    isUnitlessList (l.map Val.atom) = true ↔ ∀ a ∈ l, a.dims = Dims.zero := by
  induction l with
  | nil => simp [isUnitlessList]
  | cons a r ih => simp [isUnitlessList, isUnitless, isUnitlessScalar_iff, ih]

theorem isUnitlessDict_atoms (d : List (String × PyVal α)) :
    isUnitlessDict (d.map fun p => (p.1, Val.atom p.2)) = true ↔ ∀ p ∈ d, p.2.dims = Dims.zero := by
  induction d with
  | nil => simp [isUnitlessDict]
  | cons p r ih => obtain ⟨k, v⟩ := p; simp [isUnitlessDict, isUnitless, isUnitlessScalar_iff, ih]

theorem toUnitlessList_atoms (l : List (PyVal α)) (u : PyVal α) :
    toUnitlessList (l.map Val.atom) u = (toUnitlessFlat l u).map (fun xs => xs.map Res.num) := by
  induction l with
  | nil => simp [toUnitlessList, toUnitlessFlat, Except.map]
  | cons a r ih =>
    simp only [List.map_cons, toUnitlessList, toUnitless, toUnitlessFlat, ih]
    cases toUnitlessScalar a u <;> simp [Except.map]
    cases toUnitlessFlat r u <;> simp [Except.map]

/-- a 0-d array is converted exactly like the scalar it holds (a numeric 0-d array holds a plain number) -/
theorem toUnitless_zerod (isObject : Bool) (a u : PyVal α) (ha : a.WF) (hu : u.WF)
    (hnum : isObject = false → ∃ x, a = .num x) :
    toUnitless (.zerod isObject a) u = (toUnitlessScalar a u).map Res.num := by
  rw [toUnitless]
  cases isObject with
  | true =>
    simp only [if_true]
    cases toUnitlessScalar a u <;> rfl
  | false =>
    obtain ⟨x, rfl⟩ := hnum rfl
    simp only [Bool.false_eq_true, if_false]
    by_cases hun : isUnitlessScalar u = true
    · have hd : u.dims = Dims.zero := (isUnitlessScalar_iff u).mp hun
      simp only [hun, if_true]
      have hone : u.si = 1 → toUnitlessScalar (.num x) u = .ok x := by
        intro h1
        rw [(toUnitlessScalar_ok_iff ha hu _).mpr ⟨by simp [hd], rfl⟩, h1]
        simp
      cases u with
      | num y =>
        simp only [rescale, PyVal.eqOne, Quantity.dimensionless, decide_true, if_true, Nat.cast_one, decide_eq_true_eq]
        split_ifs with hy
        · rw [hone (by simpa using hy)]; rfl
        · cases toUnitlessScalar (PyVal.num x) (PyVal.num y) <;> rfl
      | qty q =>
        have hq : q.unit.dims = (Unit.one : Unit α).dims := hd
        simp only [rescale, quantitiesRescale, Quantity.dimensionless, Nat.cast_one, ne_eq, not_true_eq_false, if_false, hq,
          if_true, Except.map, PyVal.eqOne, decide_eq_true_eq]
        split_ifs with hy
        · rw [hone (by simpa [Unit.one] using hy)]; rfl
        · cases toUnitlessScalar (PyVal.num x) (PyVal.qty q) <;> rfl
    · simp only [hun]
      cases toUnitlessScalar (PyVal.num x) u <;> rfl

/-- an object-dtype array is converted exactly like the list of its elements: the `return value` shortcut never applies -/
theorem toUnitless_objarray (u : PyVal α) (l : List (Val α)) : toUnitless (.objarray l) u = toUnitless (.list l) u := by
  rw [toUnitless, toUnitless]

theorem toUnitless_objarray_ok_iff (u : PyVal α) (l : List (Val α)) (r : Res α) :
    toUnitless (.objarray l) u = .ok r ↔ ∃ rs, r = .list rs ∧ List.Forall₂ (fun v x => toUnitless v u = .ok x) l rs := by
  rw [toUnitless_objarray, toUnitless_list]
  cases h : toUnitlessList l u with
  | error e =>
    simp only [Except.map, reduceCtorEq, false_iff]
    rintro ⟨rs, _, hf⟩
    rw [← toUnitlessList_ok_iff, h] at hf; simp at hf
  | ok rs =>
    simp only [Except.map, Except.ok.injEq]
    constructor
    · rintro rfl; exact ⟨rs, rfl, (toUnitlessList_ok_iff u l rs).mp h⟩
    · rintro ⟨rs', rfl, hf⟩
      rw [← toUnitlessList_ok_iff, h] at hf
      simp only [Except.ok.injEq] at hf; rw [hf]

/-- object array of scalars: value and refusal, whatever the target (also when the target's SI value is 1) -/
theorem toUnitless_objarray_atoms (l : List (PyVal α)) (u : PyVal α) (hl : ∀ a ∈ l, a.WF) (hu : u.WF) :
    ((∀ a ∈ l, a.dims = u.dims) →
      toUnitless (.objarray (l.map Val.atom)) u = .ok (.list (l.map fun a => Res.num (a.si / u.si)))) ∧
    ((∃ a ∈ l, a.dims ≠ u.dims) → toUnitless (.objarray (l.map Val.atom)) u = .error .valueError) := by
  obtain ⟨f1, f2⟩ := toUnitlessFlat_spec l u hl hu
  constructor
  · intro h
    rw [toUnitless_objarray, toUnitless_list, toUnitlessList_atoms, f1 h]
    simp [Except.map, List.map_map, Function.comp]
  · intro h
    rw [toUnitless_objarray, toUnitless_list, toUnitlessList_atoms, f2 h]
    rfl

/-- `uniform` of a list/tuple itself: every element is re-expressed in the unit of the FIRST element (same physical value,
    same dimension); one element of another dimension → ValueError; empty → IndexError -/
theorem uniformList_spec (h : PyVal α) (t : List (PyVal α)) (hw : ∀ a ∈ h :: t, a.WF) :
    ((∀ a ∈ t, a.dims = h.dims) →
      uniformList (h :: t) = .ok ((h :: t).map fun a => timesUnit (a.si / (unitOfScalar h).si) (unitOfScalar h)) ∧
      ((h :: t).map fun a => timesUnit (a.si / (unitOfScalar h).si) (unitOfScalar h)).map PyVal.si = (h :: t).map PyVal.si ∧
      ∀ e ∈ (h :: t).map (fun a => timesUnit (a.si / (unitOfScalar h).si) (unitOfScalar h)),
        e.dims = h.dims ∧ unitOfScalar e = unitOfScalar h) ∧
    ((∃ a ∈ t, a.dims ≠ h.dims) → uniformList (h :: t) = .error .valueError) ∧
    uniformList ([] : List (PyVal α)) = .error .indexError := by
  have hu := unitOfScalar_wf (hw h (by simp))
  have hud := unitOfScalar_dims h
  have hune := unitOfScalar_si_ne (hw h (by simp))
  obtain ⟨f1, f2⟩ := toUnitlessFlat_spec (h :: t) (unitOfScalar h) hw hu
  refine ⟨?_, ?_, rfl⟩
  · intro hc
    have hall : ∀ a ∈ h :: t, a.dims = (unitOfScalar h).dims := by
      intro a ha
      rcases List.mem_cons.mp ha with rfl | ha
      · exact hud.symm
      · rw [hud]; exact hc a ha
    refine ⟨by simp only [uniformList, f1 hall, List.map_map]; rfl, ?_, ?_⟩
    · have := map_timesUnit_si (h :: t) (unitOfScalar h) hune
      simpa [List.map_map] using this
    · intro e he
      obtain ⟨a, _, rfl⟩ := List.mem_map.mp he
      exact ⟨by rw [timesUnit_dims, hud], unitOfScalar_timesUnit _ _⟩
  · rintro ⟨a, ha, hne⟩
    simp only [uniformList, f2 ⟨a, by simp [ha], by rw [hud]; exact hne⟩]

theorem uniformDictGo_spec (u : PyVal α) (hu : u.WF) (d : List (String × PyVal α)) (hw : ∀ p ∈ d, p.2.WF) :
    ((∀ p ∈ d, p.2.dims = u.dims) → uniformDictGo u d = .ok (d.map fun p => (p.1, timesUnit (p.2.si / u.si) u))) ∧
    ((∃ p ∈ d, p.2.dims ≠ u.dims) → uniformDictGo u d = .error .valueError) := by
  induction d with
  | nil => exact ⟨fun _ => rfl, by simp⟩
  | cons p r ih =>
    obtain ⟨k, v⟩ := p
    obtain ⟨ih1, ih2⟩ := ih (fun q hq => hw q (by simp [hq]))
    have hv : v.WF := hw (k, v) (by simp)
    constructor
    · intro hc
      have h1 := (toUnitlessScalar_ok_iff hv hu _).mpr ⟨hc (k, v) (by simp), rfl⟩
      simp [uniformDictGo, h1, ih1 (fun q hq => hc q (by simp [hq]))]
    · rintro ⟨q, hq, hne⟩
      by_cases hvd : v.dims = u.dims
      · have h1 := (toUnitlessScalar_ok_iff hv hu _).mpr ⟨hvd, rfl⟩
        rcases List.mem_cons.mp hq with rfl | hq
        · exact absurd hvd hne
        · simp [uniformDictGo, h1, ih2 ⟨q, hq, hne⟩]
      · have h1 := (toUnitlessScalar_error_iff hv hu _).mpr ⟨hvd, rfl⟩
        simp [uniformDictGo, h1]

/-- `uniform` of a dict: unit of the first VALUE, keys kept in order -/
theorem uniformDict_spec (k0 : String) (v0 : PyVal α) (d : List (String × PyVal α)) (hw : ∀ p ∈ (k0, v0) :: d, p.2.WF) :
    ((∀ p ∈ d, p.2.dims = v0.dims) →
      uniform (.dict ((k0, v0) :: d)) =
        .ok (.dict (((k0, v0) :: d).map fun p => (p.1, timesUnit (p.2.si / (unitOfScalar v0).si) (unitOfScalar v0))))) ∧
    ((∃ p ∈ d, p.2.dims ≠ v0.dims) → uniform (.dict ((k0, v0) :: d)) = .error .valueError) ∧
    uniform (.dict ([] : List (String × PyVal α))) = .error .indexError := by
  have hu := unitOfScalar_wf (hw (k0, v0) (by simp))
  have hud := unitOfScalar_dims v0
  obtain ⟨g1, g2⟩ := uniformDictGo_spec (unitOfScalar v0) hu ((k0, v0) :: d) hw
  refine ⟨?_, ?_, rfl⟩
  · intro hc
    have : ∀ p ∈ (k0, v0) :: d, p.2.dims = (unitOfScalar v0).dims := by
      intro p hp
      rcases List.mem_cons.mp hp with rfl | hp
      · exact hud.symm
      · rw [hud]; exact hc p hp
    simp only [uniform, g1 this, Except.map]
  · rintro ⟨p, hp, hne⟩
    simp only [uniform, g2 ⟨p, by simp [hp], by rw [hud]; exact hne⟩, Except.map]

/-- `get_physical_dimensionality` of a list/tuple: the non-zero exponents of the common dimension -/
theorem getPhysicalDimensionality_list (h : PyVal α) (t : List (PyVal α)) (hw : ∀ a ∈ h :: t, a.WF) :
    ((∀ a ∈ t, a.dims = h.dims) → getPhysicalDimensionality (.list (h :: t)) = .ok (dimItems 0 h.dims)) ∧
    ((∃ a ∈ t, a.dims ≠ h.dims) → getPhysicalDimensionality (.list (h :: t)) = .error .valueError) := by
  obtain ⟨u1, u2, _⟩ := uniformList_spec h t hw
  have hd := PyVal.dims_wf (hw h (by simp))
  have hnil : dimItems 0 h.dims = [] ↔ h.dims = Dims.zero := by rw [dimItems_eq_nil_iff, Dims.eq_zero_iff hd]
  constructor
  · intro hc
    by_cases hz : h.dims = Dims.zero
    · have : isUnitlessList ((h :: t).map Val.atom) = true :=
        (isUnitlessList_atoms _).mpr (fun a ha => by
          rcases List.mem_cons.mp ha with rfl | ha
          · exact hz
          · rw [hc a ha, hz])
      simp only [getPhysicalDimensionality, Flat.toVal, isUnitless, this, if_true, hnil.mpr hz]
    · have : ¬ isUnitlessList ((h :: t).map Val.atom) = true := fun hh =>
        hz ((isUnitlessList_atoms _).mp hh h (by simp))
      obtain ⟨e1, _, e3⟩ := u1 hc
      simp only [getPhysicalDimensionality, Flat.toVal, isUnitless, this, e1, List.map_cons]
      have := (e3 _ (by simp : timesUnit (h.si / (unitOfScalar h).si) (unitOfScalar h) ∈
        (h :: t).map fun a => timesUnit (a.si / (unitOfScalar h).si) (unitOfScalar h))).1
      simp only [PyVal.dims] at this
      have hnu : ¬ isUnitlessList (Val.atom h :: List.map Val.atom t) = true := by simpa using ‹¬ isUnitlessList ((h :: t).map Val.atom) = true›
      rw [if_neg hnu, this]
      rfl
  · rintro ⟨a, ha, hne⟩
    have : ¬ isUnitlessList ((h :: t).map Val.atom) = true := fun hh => by
      have hall := (isUnitlessList_atoms _).mp hh
      exact hne ((hall a (by simp [ha])).trans (hall h (by simp)).symm)
    simp only [getPhysicalDimensionality, Flat.toVal, isUnitless, this, u2 ⟨a, ha, hne⟩]
    rfl

/-- a dict: `{}` when every value is unitless; otherwise AttributeError (a dict has no `.simplified`) — the code does not
    support dimensional dicts in `get_physical_dimensionality` / the registry functions -/
theorem getPhysicalDimensionality_dict (d : List (String × PyVal α)) :
    ((∀ p ∈ d, p.2.dims = Dims.zero) → getPhysicalDimensionality (.dict d) = .ok []) ∧
    ((∃ p ∈ d, p.2.dims ≠ Dims.zero) → getPhysicalDimensionality (.dict d) = .error .attributeError) := by
  constructor
  · intro h
    simp [getPhysicalDimensionality, Flat.toVal, isUnitless, (isUnitlessDict_atoms d).mpr h]
  · rintro ⟨p, hp, hne⟩
    have : ¬ isUnitlessDict (d.map fun p => (p.1, Val.atom p.2)) = true := fun hh =>
      hne ((isUnitlessDict_atoms d).mp hh p hp)
    simp [getPhysicalDimensionality, Flat.toVal, isUnitless, this]

/-- the default unit only depends on the reported dimensionality -/
theorem defaultUnit_of_dimensionality (reg : Registry α) (hreg : RegistryWF reg) (v : Flat α) (d : Dims) (hd : Dims.WF d)
    (hg : getPhysicalDimensionality v = .ok (dimItems 0 d)) :
    ∃ U, defaultUnitInRegistry v reg = .ok U ∧ U.WF ∧ U.dims = d ∧ U.si = regProd reg d ∧ U.si ≠ 0 := by
  have hnil : dimItems 0 d = [] ↔ d = Dims.zero := by rw [dimItems_eq_nil_iff, Dims.eq_zero_iff hd]
  cases hit : dimItems 0 d with
  | nil =>
    have hz := hnil.mp hit
    refine ⟨PyVal.one, by simp [defaultUnitInRegistry, hg, hit], by simp [PyVal.one, PyVal.WF], ?_, ?_, ?_⟩
    · simp [PyVal.one, hz]
    · rw [hz, regProd_zero]; simp [PyVal.one]
    · simp [PyVal.one]
  | cons x xs =>
    obtain ⟨U, h1, h2, h3, h4, h5⟩ := getUnitFromRegistry_spec reg hreg d hd (by simp [hit])
    refine ⟨U, ?_, h2, h3, h4, h5⟩
    simp only [defaultUnitInRegistry, hg, hit]
    rw [← hit]; exact h1

/-- **registry functions on a list/tuple of quantities of one dimension**: one default unit for the whole container, every
    element divided by its SI value; an element of another dimension raises -/
theorem registry_consistent_list (reg : Registry α) (hreg : RegistryWF reg) (h : PyVal α) (t : List (PyVal α))
    (hw : ∀ a ∈ h :: t, a.WF) :
    ((∀ a ∈ t, a.dims = h.dims) →
      ∃ U, defaultUnitInRegistry (.list (h :: t)) reg = .ok U ∧ U.WF ∧ U.dims = h.dims ∧ U.si = regProd reg h.dims ∧ U.si ≠ 0 ∧
        unitlessInRegistry (.list (h :: t)) reg = .ok (.list ((h :: t).map fun a => Res.num (a.si / U.si))) ∧
        ((h :: t).map fun a => (timesUnit (a.si / U.si) U).si) = (h :: t).map PyVal.si) ∧
    ((∃ a ∈ t, a.dims ≠ h.dims) →
      defaultUnitInRegistry (.list (h :: t)) reg = .error .valueError ∧
      unitlessInRegistry (.list (h :: t)) reg = .error .valueError) := by
  obtain ⟨g1, g2⟩ := getPhysicalDimensionality_list h t hw
  constructor
  · intro hc
    obtain ⟨U, h1, h2, h3, h4, h5⟩ := defaultUnit_of_dimensionality reg hreg (.list (h :: t)) h.dims
      (PyVal.dims_wf (hw h (by simp))) (g1 hc)
    have hall : ∀ a ∈ h :: t, a.dims = U.dims := by
      intro a ha
      rcases List.mem_cons.mp ha with rfl | ha
      · exact h3.symm
      · rw [h3]; exact hc a ha
    have hf := (toUnitlessFlat_spec (h :: t) U hw h2).1 hall
    refine ⟨U, h1, h2, h3, h4, h5, ?_, ?_⟩
    · simp only [unitlessInRegistry, h1, Flat.toVal, toUnitless_list, toUnitlessList_atoms, hf, Except.map, List.map_map]
      rfl
    · apply List.map_congr_left
      intro a _
      rw [timesUnit_si]; field_simp
  · intro hbad
    have hdu : defaultUnitInRegistry (.list (h :: t)) reg = .error .valueError := by
      simp only [defaultUnitInRegistry, g2 hbad]
    exact ⟨hdu, by simp only [unitlessInRegistry, hdu]⟩

/-- `compare_equality` on two quantities: True exactly when they have the same dimension and the same physical value -/
theorem compareEquality_qty (p q : Quantity α) (hp : (PyVal.qty p).WF) :
    compareEquality (.qty p) (.qty q) = true ↔ p.unit.dims = q.unit.dims ∧ (PyVal.qty p).si = (PyVal.qty q).si := by
  have hf : p.unit.factor ≠ 0 := hp.factor_ne
  by_cases hd : p.unit.dims = q.unit.dims
  · simp only [compareEquality, addLike, PyVal.asQuantity, hd, if_true, pyEq, true_and, decide_eq_true_eq, PyVal.si_qty]
    constructor
    · intro h; rw [h]; field_simp
    · intro h; field_simp; exact h
  · simp [compareEquality, addLike, PyVal.asQuantity, hd]

theorem compareEquality_num (x y : α) : compareEquality (.num x) (.num y) = true ↔ x = y := by
  simp [compareEquality, addLike, pyEq]

/-- `_wrap_numpy` is the Backend wrapper -/
theorem wrapNumpy_eq_backendCall {β : Type} (f : List α → β) (args : List (PyVal α)) : wrapNumpy f args = backendCall f args := rfl

/-- IF the fitting routine is scaling-covariant (least squares is: rescaling the abscissae by `a` and the ordinates by `b`
    rescales coefficient `i` by `b·a^(i−deg)`), the physical coefficients returned by `polyfit` are the fit of the physical data,
    whatever units the data were given in. -/
theorem polyfit_unit_independent (fit : List α → List α → ℕ → List α)
    (hcov : ∀ (xs ys : List α) (a b : α) (deg i : ℕ), a ≠ 0 → b ≠ 0 →
      (fit (xs.map (· * a)) (ys.map (· * b)) deg)[i]? = ((fit xs ys deg)[i]?).map (· * (b * a ^ ((i : ℤ) - (deg : ℤ)))))
    (x0 y0 : PyVal α) (xt yt : List (PyVal α)) (deg : ℕ)
    (hxw : ∀ a ∈ x0 :: xt, a.WF) (hyw : ∀ a ∈ y0 :: yt, a.WF)
    (hx : ∀ a ∈ xt, a.dims = x0.dims) (hy : ∀ a ∈ yt, a.dims = y0.dims) :
    ∃ r, polyfit fit (x0 :: xt) (y0 :: yt) deg = .ok r ∧
      r.map PyVal.si = fit ((x0 :: xt).map PyVal.si) ((y0 :: yt).map PyVal.si) deg := by
  obtain ⟨r, hr, hlen, hel⟩ := (polyfit_spec fit x0 y0 xt yt deg hxw hyw).1 hx hy
  have ha := unitOfScalar_si_ne (hxw x0 (by simp))
  have hb := unitOfScalar_si_ne (hyw y0 (by simp))
  refine ⟨r, hr, ?_⟩
  have hxs : ((x0 :: xt).map fun a => a.si / (unitOfScalar x0).si).map (· * (unitOfScalar x0).si) = (x0 :: xt).map PyVal.si := by
    rw [List.map_map]; apply List.map_congr_left; intro a _; simp only [Function.comp]; field_simp
  have hys : ((y0 :: yt).map fun a => a.si / (unitOfScalar y0).si).map (· * (unitOfScalar y0).si) = (y0 :: yt).map PyVal.si := by
    rw [List.map_map]; apply List.map_congr_left; intro a _; simp only [Function.comp]; field_simp
  apply List.ext_getElem?
  intro i
  have hc := hcov ((x0 :: xt).map fun a => a.si / (unitOfScalar x0).si) ((y0 :: yt).map fun a => a.si / (unitOfScalar y0).si)
    (unitOfScalar x0).si (unitOfScalar y0).si deg i ha hb
  rw [hxs, hys] at hc
  rw [hc, List.getElem?_map]
  by_cases hi : i < r.length
  · have hi' : i < (fit ((x0 :: xt).map fun a => a.si / (unitOfScalar x0).si)
        ((y0 :: yt).map fun a => a.si / (unitOfScalar y0).si) deg).length := by rw [← hlen]; exact hi
    rw [List.getElem?_eq_getElem hi, List.getElem?_eq_getElem hi']
    simp only [Option.map_some]
    rw [(hel i hi hi').1]
  · have hi' : ¬ i < (fit ((x0 :: xt).map fun a => a.si / (unitOfScalar x0).si)
        ((y0 :: yt).map fun a => a.si / (unitOfScalar y0).si) deg).length := by rw [← hlen]; exact hi
    rw [List.getElem?_eq_none (Nat.le_of_not_lt hi), List.getElem?_eq_none (Nat.le_of_not_lt hi')]
    rfl

/-! ### round 7: unit_of(simplified=True), from_human refusals, non-list iterables -/

/-- `unit_of(x, simplified=True)`: the same physical unit (SI value, dimension), written with unit factor 1 -/
theorem unitOfScalarS_spec (v : PyVal α) (hv : v.WF) :
    (unitOfScalarS true v).si = (unitOfScalar v).si ∧ (unitOfScalarS true v).dims = v.dims ∧ (unitOfScalarS true v).WF ∧
    (∀ q, unitOfScalarS true v = .qty q → q.unit.factor = 1) ∧ unitOfScalarS false v = unitOfScalar v := by
  cases v with
  | num x => simp [unitOfScalarS, unitOfScalar, PyVal.one, PyVal.WF]
  | qty q =>
    refine ⟨by simp [unitOfScalarS, unitOfScalar, Quantity.units], by simp [unitOfScalarS], ?_, ?_, by simp [unitOfScalarS, unitOfScalar]⟩
    · exact ⟨by simp [unitOfScalarS], by simpa [unitOfScalarS] using hv.dims⟩
    · intro q' h; simp [unitOfScalarS] at h; rw [← h]

/-- when does `unit_registry_from_human_readable` accept an entry, and what does it return -/
theorem fromHumanEntry_ok_iff (lookup : String → Option (List (SymUnit α × Int))) (e : HumanEntry α) (r : RegEntry α) :
    fromHumanEntry lookup e = .ok r ↔
      (∃ f, e = .one f ∧ r = .num (f * 1)) ∨ ∃ f sym u k, e = .fs f sym ∧ lookup sym = some [(u, k)] ∧ r = .q f [(u, 1)] := by
  cases e with
  | one f0 => simp [fromHumanEntry, eq_comm]
  | fs f sym =>
    cases h : lookup sym with
    | none => simp [fromHumanEntry, h]
    | some l =>
      match l, h with
      | [], h => simp [fromHumanEntry, h]
      | [(u, k)], h =>
        simp only [fromHumanEntry, h, Except.ok.injEq, reduceCtorEq, false_and, false_or, HumanEntry.fs.injEq]
        constructor
        · intro hr; exact Or.inr ⟨f, sym, u, k, ⟨rfl, rfl⟩, h, hr.symm⟩
        · rintro (⟨_, hf⟩ | ⟨f', sym', u', k', ⟨rfl, rfl⟩, hl, rfl⟩)
          · exact absurd hf (by simp)
          rw [h] at hl
          simp only [Option.some.injEq, List.cons.injEq, Prod.mk.injEq, and_true] at hl
          rw [hl.1]
      | _ :: _ :: _, h => simp [fromHumanEntry, h]

/-- the refusals: LookupError iff the symbol does not parse, TypeError iff it parses to anything but one unit object -/
theorem fromHumanEntry_error_iff (lookup : String → Option (List (SymUnit α × Int))) (f : α) (sym : String) :
    (fromHumanEntry lookup (.fs f sym) = .error .lookupError ↔ lookup sym = none) ∧
    (fromHumanEntry lookup (.fs f sym) = .error .typeError ↔ ∃ l, lookup sym = some l ∧ l.length ≠ 1) := by
  cases h : lookup sym with
  | none => simp [fromHumanEntry, h]
  | some l =>
    match l, h with
    | [], h => simp [fromHumanEntry, h]
    | [(u, k)], h => simp [fromHumanEntry, h]
    | _ :: _ :: _, h => simp [fromHumanEntry, h]

/-- a generator / dict view: refused for every dimensional target before any element is seen; element-wise like a list for a
    dimensionless target (mirrored behaviour, OUTSIDE the statement of C09) -/
theorem toUnitless_iterable (l : List (Val α)) (u : PyVal α) (hu : u.WF) :
    (u.dims = Dims.zero → toUnitless (.iterable l) u = toUnitless (.list l) u) ∧
    (u.dims ≠ Dims.zero → toUnitless (.iterable l) u = .error .valueError) := by
  have hone : (PyVal.one : PyVal α).WF := by simp [PyVal.one, PyVal.WF]
  have hdl := dimensionless_wf (α := α)
  have hdivw : ((PyVal.one : PyVal α).div u).WF := by
    cases u with
    | num y => simp [PyVal.one, PyVal.div, PyVal.WF]
    | qty q =>
      exact ⟨by simpa [PyVal.one, PyVal.div, Unit.div, Unit.one] using hu.factor_ne,
        by simpa [PyVal.one, PyVal.div, Unit.div, Unit.one] using Dims.sub_wf Dims.zero_wf hu.dims⟩
  have hdivd : ((PyVal.one : PyVal α).div u).dims = Dims.zero ↔ u.dims = Dims.zero := by
    cases u with
    | num y => simp [PyVal.one, PyVal.div]
    | qty q =>
      simp only [PyVal.one, PyVal.div, PyVal.dims_qty, Unit.div, Unit.one]
      exact Dims.zero_sub_eq_zero_iff hu.dims
  constructor
  · intro hd
    rw [toUnitless, toUnitless]
    cases hv : (PyVal.one : PyVal α).div u with
    | num x => simp [rescale, PyVal.eqOne, Quantity.dimensionless]
    | qty q =>
      have : q.unit.dims = (Unit.one : Unit α).dims := by
        have := hdivd.mpr hd; rw [hv] at this; exact this
      simp [rescale, quantitiesRescale, Quantity.dimensionless, this, Except.map]
  · intro hd
    rw [toUnitless]
    cases hv : (PyVal.one : PyVal α).div u with
    | num x =>
      exfalso; apply hd; apply hdivd.mp; rw [hv]; rfl
    | qty q =>
      have : ¬ q.unit.dims = (Unit.one : Unit α).dims := by
        intro h; apply hd; apply hdivd.mp; rw [hv]; exact h
      simp [rescale, quantitiesRescale, Quantity.dimensionless, this, Except.map]

/-! ### round 10: the parser hypothesis of the human-readable round trip, discharged on the extracted table -/

/-- for every standard prefixed unit the unit-string parser returns exactly that unit object (finite generated table) -/
theorem hrLookup_standard :
    ∀ p ∈ (standardUnits : List (Nat × SymUnit ℚ)), hrLookup p.2.symbol = some [(p.2, 1)] := by
  decide +kernel

/-- every standard prefixed unit belongs to the base dimension of its registry key and has a positive factor -/
theorem standardUnits_wf :
    ∀ p ∈ (standardUnits : List (Nat × SymUnit ℚ)), p.2.unit.dims = Dims.basis p.1 ∧ 0 < p.2.unit.factor ∧ p.1 < nDims := by
  decide +kernel

/-- closed form of the round trip: registries of standard prefixed units (any factor) and `1` entries -/
theorem human_roundtrip_standard (reg : List (RegEntry ℚ))
    (h : ∀ e ∈ reg, e = .num 1 ∨ ∃ mag p, p ∈ (standardUnits : List (Nat × SymUnit ℚ)) ∧ e = .q mag [(p.2, 1)]) :
    ∃ hs, toHuman reg = .ok hs ∧ fromHuman hrLookup hs = .ok reg := by
  have hex : ∀ e ∈ reg, e = .num 1 ∨ ∃ mag u, e = .q mag [(u, 1)] ∧ (hrLookup : String → _) u.symbol = some [(u, 1)] := by
    intro e he
    rcases h e he with h1 | ⟨mag, p, hp, rfl⟩
    · exact Or.inl h1
    · exact Or.inr ⟨mag, p.2, rfl, hrLookup_standard p hp⟩
  have hok : ∀ e ∈ reg, HRok (hrLookup : String → _) e := by
    intro e he
    rcases hex e he with h1 | ⟨mag, u, rfl, hl⟩
    · exact Or.inl h1
    · exact Or.inr ⟨mag, u, u, rfl, hl, rfl⟩
  obtain ⟨hs, reg', h1, h2, _, h4⟩ := human_roundtrip hrLookup reg hok
  exact ⟨hs, h1, by rw [h2, h4 hex]⟩

/-- which exception wins: the FIRST failing element in iteration order (the elements before it convert) -/
theorem toUnitlessFlat_first_error (pre post : List (PyVal α)) (v u : PyVal α) (e : Err)
    (hpre : ∀ a ∈ pre, ∃ x, toUnitlessScalar a u = .ok x) (hv : toUnitlessScalar v u = .error e) :
    toUnitlessFlat (pre ++ v :: post) u = .error e := by
  induction pre with
  | nil => simp [toUnitlessFlat, hv]
  | cons a r ih =>
    obtain ⟨x, hx⟩ := hpre a (by simp)
    simp [toUnitlessFlat, hx, ih (fun b hb => hpre b (by simp [hb]))]

/-! ### round 11: Backend / _wrap_numpy with container arguments -/

/-- the wrapped function is reached iff EVERY argument (scalar or container) converts to plain numbers; it then receives exactly those -/
theorem backendCallV_ok_iff {β : Type} (f : List (Res α) → β) (args : List (Val α)) (y : β) :
    backendCallV f args = .ok y ↔
      ∃ rs, List.Forall₂ (fun v r => toUnitless v (.qty Quantity.dimensionless) = .ok r) args rs ∧ y = f rs := by
  unfold backendCallV
  cases h : toUnitlessList args (.qty (Quantity.dimensionless : Quantity α)) with
  | error e =>
    simp only [reduceCtorEq, false_iff]
    rintro ⟨rs, hf, _⟩
    rw [← toUnitlessList_ok_iff, h] at hf; simp at hf
  | ok rs =>
    simp only [Except.ok.injEq]
    constructor
    · rintro rfl; exact ⟨rs, (toUnitlessList_ok_iff _ _ _).mp h, rfl⟩
    · rintro ⟨rs', hf, rfl⟩
      rw [← toUnitlessList_ok_iff, h] at hf
      simp only [Except.ok.injEq] at hf; rw [hf]

/-- a list/array argument: converted element-wise when every element is dimensionless, ValueError as soon as one carries a dimension -/
theorem toUnitless_list_atoms_dimensionless (l : List (PyVal α)) (hl : ∀ a ∈ l, a.WF) :
    ((∀ a ∈ l, a.dims = Dims.zero) →
      toUnitless (.list (l.map Val.atom)) (.qty Quantity.dimensionless) = .ok (.list (l.map fun a => Res.num a.si))) ∧
    ((∃ a ∈ l, a.dims ≠ Dims.zero) → toUnitless (.list (l.map Val.atom)) (.qty Quantity.dimensionless) = .error .valueError) := by
  have hdl := dimensionless_wf (α := α)
  have hds : (PyVal.qty (Quantity.dimensionless : Quantity α)).si = 1 := by simp [Quantity.dimensionless, Unit.one]
  obtain ⟨f1, f2⟩ := toUnitlessFlat_spec l (.qty Quantity.dimensionless) hl hdl
  constructor
  · intro h
    rw [toUnitless_list, toUnitlessList_atoms, f1 (fun a ha => by rw [h a ha]; rfl)]
    simp [Except.map, List.map_map, Function.comp, hds]
  · rintro ⟨a, ha, hne⟩
    rw [toUnitless_list, toUnitlessList_atoms, f2 ⟨a, ha, fun h => hne (h.trans rfl)⟩]
    rfl

/-- a failing argument makes the call fail with that argument's exception, provided the arguments before it convert -/
theorem backendCallV_error {β : Type} (f : List (Res α) → β) (pre post : List (Val α)) (v : Val α) (e : Err)
    (hpre : ∀ a ∈ pre, ∃ r, toUnitless a (.qty Quantity.dimensionless) = .ok r)
    (hv : toUnitless v (.qty Quantity.dimensionless) = .error e) :
    backendCallV f (pre ++ v :: post) = .error e := by
  have : toUnitlessList (pre ++ v :: post) (.qty (Quantity.dimensionless : Quantity α)) = .error e := by
    induction pre with
    | nil => simp [toUnitlessList, hv]
    | cons a r ih =>
      obtain ⟨x, hx⟩ := hpre a (by simp)
      simp [toUnitlessList, hx, ih (fun b hb => hpre b (by simp [hb]))]
  simp [backendCallV, this]

/-! ### round 9: composition and scaling for containers -/

theorem forall₂_map_right {β γ δ : Type} {R : β → γ → Prop} {R' : β → δ → Prop} (f : γ → δ) {l : List β} {xs : List γ}
    (h : List.Forall₂ R l xs) (hf : ∀ v x, R v x → R' v (f x)) : List.Forall₂ R' l (xs.map f) := by
  induction h with
  | nil => exact List.Forall₂.nil
  | cons h1 _ ih => exact List.Forall₂.cons (hf _ _ h1) ih

/-- conversions compose element-wise: a container converted to `u`, times the conversion of `u` to `w`, is the container converted to `w` -/
theorem toUnitlessFlat_compose (l : List (PyVal α)) (u w : PyVal α) (hl : ∀ a ∈ l, a.WF) (hu : u.WF) (hw : w.WF) (hu0 : u.si ≠ 0)
    (xs : List α) (b : α) (h1 : toUnitlessFlat l u = .ok xs) (h2 : toUnitlessScalar u w = .ok b) :
    toUnitlessFlat l w = .ok (xs.map (· * b)) := by
  obtain ⟨hd2, rfl⟩ := (toUnitlessScalar_ok_iff hu hw b).mp h2
  rw [toUnitlessFlat_ok_iff] at h1 ⊢
  have hmem : List.Forall₂ (fun v x => v ∈ l ∧ toUnitlessScalar v u = .ok x) l xs := by
    clear hl
    induction h1 with
    | nil => exact List.Forall₂.nil
    | cons h _ ih =>
      refine List.Forall₂.cons ⟨by simp, h⟩ (ih.imp fun a x hx => ⟨by simp [hx.1], hx.2⟩)
  refine forall₂_map_right (· * (u.si / w.si)) hmem ?_
  rintro v x ⟨hv, hx⟩
  obtain ⟨hd1, rfl⟩ := (toUnitlessScalar_ok_iff (hl v hv) hu x).mp hx
  refine (toUnitlessScalar_ok_iff (hl v hv) hw _).mpr ⟨hd1.trans hd2, ?_⟩
  field_simp

/-- scaling is linear element-wise -/
theorem toUnitlessFlat_scale (l : List (PyVal α)) (u : PyVal α) (hl : ∀ a ∈ l, a.WF) (hu : u.WF) (c : α) (xs : List α)
    (h : toUnitlessFlat l u = .ok xs) :
    toUnitlessFlat (l.map fun a => (PyVal.num c).mul a) u = .ok (xs.map (c * ·)) := by
  rw [toUnitlessFlat_ok_iff] at h ⊢
  have hmem : List.Forall₂ (fun v x => v ∈ l ∧ toUnitlessScalar v u = .ok x) l xs := by
    clear hl
    induction h with
    | nil => exact List.Forall₂.nil
    | cons h _ ih =>
      refine List.Forall₂.cons ⟨by simp, h⟩ (ih.imp fun a x hx => ⟨by simp [hx.1], hx.2⟩)
  rw [List.forall₂_map_left_iff, List.forall₂_map_right_iff]
  refine hmem.imp ?_
  rintro v x ⟨hv, hx⟩
  obtain ⟨hd, rfl⟩ := (toUnitlessScalar_ok_iff (hl v hv) hu x).mp hx
  refine (toUnitlessScalar_ok_iff (scale_wf c (hl v hv)) hu _).mpr ⟨by rw [scale_dims, hd], ?_⟩
  rw [scale_si]; ring

/-! ### allclose: the test is a statement about physical values -/
section Ordered
variable {β : Type} [Field β] [LinearOrder β] [IsStrictOrderedRing β]

theorem absv_eq (x : β) : absv x = |x| := by
  unfold absv
  split_ifs with h
  · simp only [Nat.cast_zero] at h; exact (abs_of_neg h).symm
  · simp only [Nat.cast_zero, not_lt] at h; exact (abs_of_nonneg h).symm

theorem allclose_key (am bm fa fb rtol : β) (hfa : fa ≠ 0) :
    |am - bm * (fb / fa)| ≤ |am| * rtol * (fa / fa) ↔ |am * fa - bm * fb| ≤ |am * fa| * rtol := by
  have hpos : 0 < |fa| := abs_pos.mpr hfa
  rw [div_self hfa, mul_one, ← mul_le_mul_iff_of_pos_right hpos, ← abs_mul]
  have e1 : (am - bm * (fb / fa)) * fa = am * fa - bm * fb := by field_simp
  have e2 : |am| * rtol * |fa| = |am * fa| * rtol := by rw [abs_mul]; ring
  rw [e1, e2]

/-- `allclose(a, b, rtol)` with `atol=None`: quantities of different dimension are never close (no exception); otherwise the
    answer is the plain test `|a − b| ≤ |a|·rtol` on the PHYSICAL values — it does not depend on the units of `a` or `b` -/
theorem allcloseScalar_none (a b : PyVal β) (ha : a.WF) (hb : b.WF) (rtol : β) :
    (a.dims = b.dims → allcloseScalar a b rtol none = .ok (decide (|a.si - b.si| ≤ |a.si| * rtol))) ∧
    (a.dims ≠ b.dims → allcloseScalar a b rtol none = .ok false) := by
  have hfa := PyVal.asQuantity_factor_ne ha
  constructor
  · intro hd
    cases a with
    | num x =>
      cases b with
      | num y =>
        simp [allcloseScalar, addLike, PyVal.asQuantity, Unit.one, absv_eq]
      | qty q =>
        have hd' : Dims.zero = q.unit.dims := hd
        simp only [allcloseScalar, addLike, PyVal.asQuantity, Unit.one, ← hd', if_true, absv_eq, PyVal.si_num, PyVal.si_qty]
        congr 1
        exact decide_eq_decide.mpr (by simpa using allclose_key x q.mag 1 q.unit.factor rtol one_ne_zero)
    | qty p =>
      have hfp : p.unit.factor ≠ 0 := hfa
      cases b with
      | num y =>
        have hd' : p.unit.dims = Dims.zero := hd
        simp only [allcloseScalar, addLike, PyVal.asQuantity, Unit.one, hd', if_true, absv_eq, PyVal.si_num, PyVal.si_qty]
        congr 1
        exact decide_eq_decide.mpr (by simpa using allclose_key p.mag y p.unit.factor 1 rtol hfp)
      | qty q =>
        have hd' : p.unit.dims = q.unit.dims := hd
        simp only [allcloseScalar, addLike, PyVal.asQuantity, hd', if_true, absv_eq, PyVal.si_qty]
        congr 1
        exact decide_eq_decide.mpr (allclose_key p.mag q.mag p.unit.factor q.unit.factor rtol hfp)
  · intro hd
    cases a <;> cases b <;> simp_all [allcloseScalar, addLike, PyVal.asQuantity, PyVal.dims, Unit.one]

/-- `allclose(a, b, rtol, atol)` for three quantities (unit of `a` with positive factor): an `atol` of another dimension raises
    ValueError; otherwise the plain test `|a − b| ≤ |a|·rtol + atol` on the physical values -/
theorem allcloseScalar_atol (p q t : Quantity β) (hp : (PyVal.qty p).WF) (hpos : 0 < p.unit.factor) (rtol : β)
    (hd : p.unit.dims = q.unit.dims) :
    (p.unit.dims = t.unit.dims →
      allcloseScalar (.qty p) (.qty q) rtol (some (.qty t)) =
        .ok (decide (|(PyVal.qty p).si - (PyVal.qty q).si| ≤ |(PyVal.qty p).si| * rtol + (PyVal.qty t).si))) ∧
    (p.unit.dims ≠ t.unit.dims → allcloseScalar (.qty p) (.qty q) rtol (some (.qty t)) = .error .valueError) := by
  have hf : p.unit.factor ≠ 0 := hpos.ne'
  constructor
  · intro ht
    simp only [allcloseScalar, addLike, PyVal.asQuantity, hd, ← ht, if_true, absv_eq, PyVal.si_qty]
    congr 1
    apply decide_eq_decide.mpr
    rw [div_self hf, mul_one, ← mul_le_mul_iff_of_pos_right hpos]
    have e1 : |p.mag - q.mag * (q.unit.factor / p.unit.factor)| * p.unit.factor = |p.mag * p.unit.factor - q.mag * q.unit.factor| := by
      rw [← abs_of_pos hpos, ← abs_mul, abs_of_pos hpos]; congr 1; field_simp
    have e2 : (|p.mag| * rtol + t.mag * (t.unit.factor / p.unit.factor)) * p.unit.factor =
        |p.mag * p.unit.factor| * rtol + t.mag * t.unit.factor := by
      rw [abs_mul, abs_of_pos hpos]; field_simp
    rw [e1, e2]
  · intro ht
    have ht' : ¬ q.unit.dims = t.unit.dims := hd ▸ ht
    simp only [allcloseScalar, addLike, PyVal.asQuantity, hd, if_true, ht', if_false]

theorem allcloseAll_spec (rtol : β) (ts : List (PyVal β × PyVal β × Option (PyVal β))) (acc : Bool)
    (hok : ∀ t ∈ ts, ∃ r, allcloseScalar t.1 t.2.1 rtol t.2.2 = .ok r) :
    ∃ r, allcloseAll rtol ts acc = .ok r ∧
      (r = true ↔ acc = true ∧ ∀ t ∈ ts, allcloseScalar t.1 t.2.1 rtol t.2.2 = .ok true) := by
  induction ts generalizing acc with
  | nil => exact ⟨acc, by simp [allcloseAll], by simp⟩
  | cons t r ih =>
    obtain ⟨x, y, at'⟩ := t
    obtain ⟨r0, hr0⟩ := hok (x, y, at') (by simp)
    obtain ⟨res, h1, h2⟩ := ih (acc && r0) (fun t ht => hok t (by simp [ht]))
    refine ⟨res, by simp [allcloseAll, hr0, h1], ?_⟩
    rw [h2]
    simp only [Bool.and_eq_true, List.mem_cons, forall_eq_or_imp, hr0, Except.ok.injEq]
    tauto

/-- `allclose` on arrays / scalars with broadcasting: when the shapes broadcast and no pair raises, the answer is True iff EVERY
    triple of the broadcast shape is close; shapes that do not broadcast give False -/
theorem allcloseArrays_spec (rtol : β) (a b : ArrArg β) (atol : Option (ArrArg β)) :
    (allcloseTriples a b atol = none → allcloseArrays a b rtol atol = .ok false) ∧
    (∀ ts, allcloseTriples a b atol = some (.ok ts) →
      (∀ t ∈ ts, ∃ r, allcloseScalar t.1 t.2.1 rtol t.2.2 = .ok r) →
      ∃ r, allcloseArrays a b rtol atol = .ok r ∧ (r = true ↔ ∀ t ∈ ts, allcloseScalar t.1 t.2.1 rtol t.2.2 = .ok true)) := by
  constructor
  · intro h; simp [allcloseArrays, h]
  · intro ts h hok
    obtain ⟨r, h1, h2⟩ := allcloseAll_spec rtol ts true hok
    exact ⟨r, by simp [allcloseArrays, h, h1], by simpa using h2⟩

/-- the broadcast shape: equal lengths pair element-wise; a length-1 or scalar operand is paired with EVERY element of the other -/
theorem allcloseTriples_shapes (x : PyVal β) (l : List (PyVal β)) (hl : l.length ≠ 1) (hd : ∀ y ∈ l, y.dims = x.dims) :
    allcloseTriples (.arr l) (.arr l) none = some (.ok (l.zip (l.zip (List.replicate l.length none)))) ∧
    allcloseTriples (.arr [x]) (.arr l) none = some (.ok ((List.replicate l.length x).zip (l.zip (List.replicate l.length none)))) ∧
    allcloseTriples (.scalar x) (.arr l) none = some (.ok ((List.replicate l.length x).zip (l.zip (List.replicate l.length none)))) ∧
    allcloseTriples (.arr l) (.arr [x]) none = some (.ok (l.zip ((List.replicate l.length x).zip (List.replicate l.length none)))) := by
  have hex : ∀ {γ : Type} (m : List γ), m.length = l.length → expandList l.length m = m := by
    intro γ m hm
    match m, hm with
    | [], _ => rfl
    | [y], hm => exact absurd hm.symm hl
    | _ :: _ :: _, _ => rfl
  have h1 : (1 : ℕ) ≠ l.length := fun h => hl h.symm
  have hex1 : ∀ {γ : Type} (y : γ), expandList l.length [y] = List.replicate l.length y := fun _ => rfl
  have hexl : expandList l.length l = l := hex l rfl
  have hexn : expandList l.length (List.replicate l.length (none : Option (PyVal β))) = List.replicate l.length none :=
    hex _ (by simp)
  have hexr : expandList l.length (List.replicate l.length x) = List.replicate l.length x := hex _ (by simp)
  have any1 : (l.zip l).any (fun p => decide (p.1.asQuantity.unit.dims ≠ p.2.asQuantity.unit.dims)) = false := by
    rw [List.any_eq_false]
    intro p hp
    have := List.of_mem_zip hp
    obtain ⟨p1, p2⟩ := p
    have h1' := hd p1 this.1
    have h2' := hd p2 this.2
    simp only [PyVal.dims] at h1' h2'
    simp [h1', h2']
  have any2 : ((List.replicate l.length x).zip l).any (fun p => decide (p.1.asQuantity.unit.dims ≠ p.2.asQuantity.unit.dims)) = false := by
    rw [List.any_eq_false]
    intro p hp
    have := List.of_mem_zip hp
    obtain ⟨p1, p2⟩ := p
    have h1' : p1 = x := (List.mem_replicate.mp this.1).2
    have h2' := hd p2 this.2
    simp only [PyVal.dims] at h2'
    simp [h1', h2']
  have any3 : (l.zip (List.replicate l.length x)).any (fun p => decide (p.1.asQuantity.unit.dims ≠ p.2.asQuantity.unit.dims)) = false := by
    rw [List.any_eq_false]
    intro p hp
    have := List.of_mem_zip hp
    obtain ⟨p1, p2⟩ := p
    have h1' : p2 = x := (List.mem_replicate.mp this.2).2
    have h2' := hd p1 this.1
    simp only [PyVal.dims] at h2'
    simp [h1', h2']
  refine ⟨?_, ?_, ?_, ?_⟩
  · simp only [allcloseTriples, broadcastLen, ArrArg.len?, ArrArg.expand, if_true, Option.getD_some, hexl, hexn, any1, Bool.false_eq_true, if_false]
  · simp only [allcloseTriples, broadcastLen, ArrArg.len?, ArrArg.expand, List.length_singleton, h1, if_false, if_true,
      Option.getD_some, hexl, hex1, hexr, List.replicate_one, any2, Bool.false_eq_true]
  · simp only [allcloseTriples, broadcastLen, ArrArg.len?, ArrArg.expand, Option.getD_some, Option.getD_none, hexl, hex1,
      List.replicate_one, any2, Bool.false_eq_true, if_false, hexr]
  · simp only [allcloseTriples, broadcastLen, ArrArg.len?, ArrArg.expand, List.length_singleton, hl, if_false, if_true,
      Option.getD_some, hexl, hex1, hexn, hexr, any3, Bool.false_eq_true]

/-- the three-operand broadcast (fixes e80401e, dadaf52): an array atol longer than both (length-1 or scalar) operands is paired
    element by element with the repeated operands — every atol element is compared -/
theorem allcloseTriples_atol_longer (x y : PyVal β) (ts : List (PyVal β)) (hts : ts.length ≠ 1) (hd : x.dims = y.dims) :
    allcloseTriples (.arr [x]) (.arr [y]) (some (.arr ts)) =
      some (.ok ((List.replicate ts.length x).zip ((List.replicate ts.length y).zip (ts.map some)))) ∧
    allcloseTriples (.scalar x) (.scalar y) (some (.arr ts)) =
      some (.ok ((List.replicate ts.length x).zip ((List.replicate ts.length y).zip (ts.map some)))) := by
  have hx : x.asQuantity.unit.dims = y.asQuantity.unit.dims := hd
  have h1 : (1 : ℕ) ≠ ts.length := fun h => hts h.symm
  have hex : expandList ts.length ts = ts := by
    match ts, hts with
    | [], _ => rfl
    | [t], h => exact absurd rfl h
    | _ :: _ :: _, _ => rfl
  have her : ∀ z : PyVal β, expandList ts.length [z] = List.replicate ts.length z := fun _ => rfl
  have he1 : ∀ z : PyVal β, expandList 1 [z] = [z] := fun _ => rfl
  constructor
  · simp only [allcloseTriples, broadcastLen, ArrArg.len?, ArrArg.expand, List.length_singleton, if_true, Option.getD_some, he1,
      List.replicate_one, List.zip_cons_cons, List.zip_nil_right, List.any_cons, List.any_nil, hx, ne_eq, not_true_eq_false, decide_false,
      Bool.or_self, Bool.false_eq_true, if_false, h1, her, hex]
  · simp only [allcloseTriples, broadcastLen, ArrArg.len?, ArrArg.expand, Option.getD_none, List.replicate_one, List.zip_cons_cons,
      List.zip_nil_right, List.any_cons, List.any_nil, hx, ne_eq, not_true_eq_false, decide_false, Bool.or_self, Bool.false_eq_true,
      if_false, Option.getD_some, her, hex]

/-- `allclose` on plain numbers (no units anywhere): the plain test, with or without `atol` -/
theorem allcloseScalar_plain (x y rtol t : β) :
    allcloseScalar (.num x) (.num y) rtol none = .ok (decide (|x - y| ≤ |x| * rtol)) ∧
    allcloseScalar (.num x) (.num y) rtol (some (.num t)) = .ok (decide (|x - y| ≤ |x| * rtol + t)) := by
  constructor <;> simp [allcloseScalar, addLike, PyVal.asQuantity, Unit.one, absv_eq]

end Ordered

end ChemModel.Units
