/-
Second layer of lemmas for the units model: nested containers, dimensionality, registry consistency,
derived units, human-readable round trip, Backend, array helpers.
-/
import ChemModel.Proofs.Units

set_option linter.unusedSectionVars false
set_option linter.unusedSimpArgs false

namespace ChemModel.Units
open ChemModel

variable {α : Type} [Field α] [DecidableEq α]

/-! ### nested containers -/

theorem toUnitless_atom (u : PyVal α) (a : PyVal α) : toUnitless (.atom a) u = (toUnitlessScalar a u).map Res.num := by
  rw [toUnitless]; cases toUnitlessScalar a u <;> rfl

theorem toUnitless_str (u : PyVal α) : toUnitless (Val.str : Val α) u = .error .valueError := by
  rw [toUnitless]

theorem toUnitless_list (u : PyVal α) (l : List (Val α)) : toUnitless (.list l) u = (toUnitlessList l u).map Res.list := by
  rw [toUnitless]; cases toUnitlessList l u <;> rfl

theorem toUnitless_dict (u : PyVal α) (d : List (String × Val α)) :
    toUnitless (.dict d) u = (toUnitlessDict d u).map Res.dict := by
  rw [toUnitless]; cases toUnitlessDict d u <;> rfl

theorem toUnitlessList_ok_iff (u : PyVal α) (l : List (Val α)) (rs : List (Res α)) :
    toUnitlessList l u = .ok rs ↔ List.Forall₂ (fun v r => toUnitless v u = .ok r) l rs := by
  induction l generalizing rs with
  | nil => cases rs <;> simp [toUnitlessList]
  | cons v r ih =>
    rw [toUnitlessList]
    cases hv : toUnitless v u with
    | error e =>
      simp only [reduceCtorEq, false_iff]
      intro h; cases h with | cons h1 _ => simp [hv] at h1
    | ok x =>
      cases hr : toUnitlessList r u with
      | error e =>
        simp only [reduceCtorEq, false_iff]
        intro h; cases h with
        | cons h1 h2 => rw [← ih] at h2; simp [hr] at h2
      | ok ys =>
        constructor
        · intro h; simp at h; subst h
          exact List.Forall₂.cons hv ((ih ys).mp hr)
        · intro h; cases h with
          | cons h1 h2 =>
            rw [hv] at h1; simp at h1; subst h1
            rw [← ih, hr] at h2; simp at h2; subst h2; rfl

theorem toUnitlessDict_ok_iff (u : PyVal α) (d : List (String × Val α)) (rs : List (String × Res α)) :
    toUnitlessDict d u = .ok rs ↔
      List.Forall₂ (fun (p : String × Val α) (r : String × Res α) => p.1 = r.1 ∧ toUnitless p.2 u = .ok r.2) d rs := by
  induction d generalizing rs with
  | nil => cases rs <;> simp [toUnitlessDict]
  | cons p r ih =>
    obtain ⟨k, v⟩ := p
    rw [toUnitlessDict]
    cases hv : toUnitless v u with
    | error e =>
      simp only [reduceCtorEq, false_iff]
      intro h; cases h with | cons h1 _ => simp [hv] at h1
    | ok x =>
      cases hr : toUnitlessDict r u with
      | error e =>
        simp only [reduceCtorEq, false_iff]
        intro h; cases h with
        | cons h1 h2 => rw [← ih] at h2; simp [hr] at h2
      | ok ys =>
        constructor
        · intro h; simp at h; subst h
          exact List.Forall₂.cons ⟨rfl, hv⟩ ((ih ys).mp hr)
        · intro h
          cases rs with
          | nil => cases h
          | cons b bs =>
            obtain ⟨bk, bv⟩ := b
            cases h with
            | cons h1 h2 =>
              obtain ⟨h1a, h1b⟩ := h1
              rw [hv] at h1b
              simp only [Except.ok.injEq] at h1b
              simp only at h1a
              rw [← ih, hr] at h2
              simp only [Except.ok.injEq] at h2
              subst h1a; subst h1b; subst h2; rfl

/-! ### dimensionality and registries -/

theorem dimItems_zero : dimItems 0 Dims.zero = [] :=
  (dimItems_eq_nil_iff _ _).mpr fun e he => by simpa [Dims.zero] using (List.mem_replicate.mp he).2

theorem getPhysicalDimensionality_scalar (v : PyVal α) (hv : v.WF) :
    getPhysicalDimensionality (.scalar v) = .ok (dimItems 0 v.dims) ∧
    (dimItems 0 v.dims = [] ↔ v.dims = Dims.zero) ∧
    (isUnitless (.atom v) = true ↔ v.dims = Dims.zero) := by
  have hd := PyVal.dims_wf hv
  have hnil : dimItems 0 v.dims = [] ↔ v.dims = Dims.zero := by
    rw [dimItems_eq_nil_iff, Dims.eq_zero_iff hd]
  have hun : isUnitless (.atom v) = true ↔ v.dims = Dims.zero := by
    cases v <;> simp [isUnitless, isUnitlessScalar, PyVal.dims, PyVal.asQuantity, Unit.one]
  refine ⟨?_, hnil, hun⟩
  by_cases h : v.dims = Dims.zero
  · have h1 := hun.mpr h
    simp only [getPhysicalDimensionality, Flat.toVal, h1, if_true, hnil.mpr h]
  · have h1 : ¬ isUnitless (.atom v) = true := fun hh => h (hun.mp hh)
    simp only [getPhysicalDimensionality, Flat.toVal, h1, PyVal.dims]
    rfl

theorem registry_consistent_scalar (reg : Registry α) (hreg : RegistryWF reg) (q : PyVal α) (hq : q.WF) :
    ∃ U x, defaultUnitInRegistry (.scalar q) reg = .ok U ∧ U.WF ∧
      U.dims = q.dims ∧ U.si = regProd reg q.dims ∧ U.si ≠ 0 ∧
      unitlessInRegistry (.scalar q) reg = .ok (.num x) ∧ x = q.si / U.si ∧
      (timesUnit x U).si = q.si ∧ (timesUnit x U).dims = q.dims := by
  obtain ⟨hg, hnil, _⟩ := getPhysicalDimensionality_scalar q hq
  have hd := PyVal.dims_wf hq
  have key : ∃ U, defaultUnitInRegistry (.scalar q) reg = .ok U ∧ U.WF ∧ U.dims = q.dims ∧ U.si = regProd reg q.dims ∧ U.si ≠ 0 := by
    cases hit : dimItems 0 q.dims with
    | nil =>
      have hz := hnil.mp hit
      refine ⟨PyVal.one, by simp [defaultUnitInRegistry, hg, hit], by simp [PyVal.one, PyVal.WF], ?_, ?_, ?_⟩
      · simp [PyVal.one, hz]
      · rw [hz, regProd_zero]; simp [PyVal.one]
      · simp [PyVal.one]
    | cons d ds =>
      obtain ⟨U, h1, h2, h3, h4, h5⟩ := getUnitFromRegistry_spec reg hreg q.dims hd (by simp [hit])
      refine ⟨U, ?_, h2, h3, h4, h5⟩
      simp only [defaultUnitInRegistry, hg, hit]
      rw [← hit]; exact h1
  obtain ⟨U, h1, h2, h3, h4, h5⟩ := key
  have hx : toUnitlessScalar q U = .ok (q.si / U.si) :=
    (toUnitlessScalar_ok_iff hq h2 _).mpr ⟨h3.symm, rfl⟩
  refine ⟨U, q.si / U.si, h1, h2, h3, h4, h5, ?_, rfl, ?_, ?_⟩
  · simp [unitlessInRegistry, h1, Flat.toVal, toUnitless_atom, hx, Except.map]
  · rw [timesUnit_si]; field_simp
  · rw [timesUnit_dims, h3]

/-! ### derived units -/

theorem mem_of_lookup {β : Type} (l : List (String × β)) (k : String) (v : β) (h : l.lookup k = some v) : (k, v) ∈ l := by
  induction l with
  | nil => simp at h
  | cons p r ih =>
    obtain ⟨k', v'⟩ := p
    by_cases hk : k = k'
    · subst hk
      simp [List.lookup] at h; subst h; simp
    · have hk' : (k == k') = false := by simpa using hk
      simp only [List.lookup, hk'] at h
      simp [ih h]

theorem derivedTable_wf : ∀ p ∈ Gen.Units.derivedTable, Dims.WF p.2 := by
  unfold Dims.WF; decide +kernel

theorem getDerivedUnit_derived (reg : Registry α) (hreg : RegistryWF reg) (key : String) (e : Dims)
    (h : Gen.Units.derivedTable.lookup key = some e) :
    ∃ U, getDerivedUnit (some reg) key = .ok U ∧ U.WF ∧ U.dims = e ∧ U.si = regProd reg e ∧ U.si ≠ 0 := by
  obtain ⟨ds, hds, hspec⟩ := derivedAll_spec reg hreg Gen.Units.derivedTable derivedTable_wf
  obtain ⟨hsome, hU⟩ := hspec key
  rw [h] at hsome
  obtain ⟨U, hUl⟩ := Option.isSome_iff_exists.mp hsome
  obtain ⟨e', he', hw, hd, hs, hn⟩ := hU U hUl
  rw [h] at he'; cases he'
  exact ⟨U, by simp [getDerivedUnit, hds, hUl], hw, hd, hs, hn⟩

theorem getDerivedUnit_base (reg : Registry α) (hreg : RegistryWF reg) (key : String) (i : ℕ)
    (hk : Gen.Units.derivedTable.lookup key = none) (hi : keyIndex? key = some i) :
    ∃ h : i < reg.length, getDerivedUnit (some reg) key = .ok reg[i] ∧ reg[i].dims = Dims.basis i := by
  obtain ⟨ds, hds, hspec⟩ := derivedAll_spec reg hreg Gen.Units.derivedTable derivedTable_wf
  have hnone : ds.lookup key = none := by
    have := (hspec key).1
    rw [hk] at this
    simpa using this
  have hlt : i < reg.length := by
    rw [hreg.len]
    simp only [keyIndex?] at hi
    split at hi
    · rename_i hlt
      simp at hi; subst hi
      have : Gen.Units.registryKeys.length = nDims := by decide
      omega
    · simp at hi
  exact ⟨hlt, by simp [getDerivedUnit, hds, hnone, hi, List.getElem?_eq_getElem hlt], (hreg.entry i hlt).2.1⟩

/-! ### human readable -/

theorem human_roundtrip (lookup : String → Option (List (SymUnit α × Int))) (reg : List (RegEntry α))
    (h : ∀ e ∈ reg, e = .num 1 ∨ ∃ mag u, e = .q mag [(u, 1)] ∧ lookup u.uSymbol = some [(u, 1)]) :
    ∃ hs, toHuman reg = .ok hs ∧ fromHuman lookup hs = .ok reg := by
  induction reg with
  | nil => exact ⟨[], by simp [toHuman], by simp [fromHuman]⟩
  | cons e r ih =>
    obtain ⟨hs, h1, h2⟩ := ih (fun x hx => h x (by simp [hx]))
    rcases h e (by simp) with rfl | ⟨mag, u, rfl, hl⟩
    · exact ⟨.one :: hs, by simp [toHuman, toHumanEntry, h1], by simp [fromHuman, fromHumanEntry, h2]⟩
    · exact ⟨.fs mag u.uSymbol :: hs, by simp [toHuman, toHumanEntry, h1], by simp [fromHuman, fromHumanEntry, hl, h2]⟩

/-! ### Backend -/

theorem dimensionless_wf : (PyVal.qty (Quantity.dimensionless : Quantity α)).WF :=
  ⟨by simp [Quantity.dimensionless, Unit.one], by simpa [Quantity.dimensionless, Unit.one] using Dims.zero_wf⟩

theorem forall₂_map_of {β γ : Type} {R : β → γ → Prop} (f : β → γ) (l : List β) (h : ∀ a ∈ l, R a (f a)) :
    List.Forall₂ R l (l.map f) := by
  induction l with
  | nil => exact List.Forall₂.nil
  | cons a r ih => exact List.Forall₂.cons (h a (by simp)) (ih fun x hx => h x (by simp [hx]))

theorem forall₂_mem_left {β γ : Type} {R : β → γ → Prop} {l : List β} {xs : List γ} (h : List.Forall₂ R l xs)
    {a : β} (ha : a ∈ l) : ∃ x, R a x := by
  induction h with
  | nil => simp at ha
  | cons h1 _ ih =>
    rcases List.mem_cons.mp ha with rfl | ha
    · exact ⟨_, h1⟩
    · exact ih ha

theorem backend_spec {β : Type} (f : List α → β) (args : List (PyVal α)) (hargs : ∀ a ∈ args, a.WF) :
    ((∀ a ∈ args, a.dims = Dims.zero) → backendCall f args = .ok (f (args.map PyVal.si))) ∧
    ((∃ a ∈ args, a.dims ≠ Dims.zero) → backendCall f args = .error .valueError) := by
  have hdl := dimensionless_wf (α := α)
  have hdd : (PyVal.qty (Quantity.dimensionless : Quantity α)).dims = Dims.zero := rfl
  have hds : (PyVal.qty (Quantity.dimensionless : Quantity α)).si = 1 := by simp [Quantity.dimensionless, Unit.one]
  constructor
  · intro h
    have : toUnitlessFlat args (.qty Quantity.dimensionless) = .ok (args.map PyVal.si) := by
      rw [toUnitlessFlat_ok_iff]
      apply forall₂_map_of
      intro a ha
      exact (toUnitlessScalar_ok_iff (hargs a ha) hdl _).mpr ⟨by rw [h a ha, hdd], by rw [hds]; simp⟩
    simp [backendCall, this]
  · rintro ⟨a, ha, hne⟩
    cases hr : toUnitlessFlat args (.qty Quantity.dimensionless) with
    | ok xs =>
      exfalso
      have hf := (toUnitlessFlat_ok_iff _ _ _).mp hr
      obtain ⟨x, hx⟩ := forall₂_mem_left hf ha
      exact hne (((toUnitlessScalar_ok_iff (hargs a ha) hdl _).mp hx).1.trans hdd)
    | error e =>
      obtain ⟨v, hv, hve⟩ := toUnitlessFlat_error hr
      have := ((toUnitlessScalar_error_iff (hargs v hv) hdl e).mp hve).2
      subst this
      simp [backendCall, hr]

/-! ### array helpers: wrapper = plain routine on the magnitudes in the first element's unit, times that unit -/

theorem unitOfScalar_wf {v : PyVal α} (hv : v.WF) : (unitOfScalar v).WF := by
  cases v <;> simp_all [unitOfScalar, PyVal.one, PyVal.WF, Quantity.units]

theorem unitOfScalar_dims (v : PyVal α) : (unitOfScalar v).dims = v.dims := by
  cases v <;> simp [unitOfScalar, PyVal.one, Quantity.units]

theorem unitOfScalar_si_ne {v : PyVal α} (hv : v.WF) : (unitOfScalar v).si ≠ 0 := by
  cases v with
  | num x => simp [unitOfScalar, PyVal.one]
  | qty q => simpa [unitOfScalar, Quantity.units] using hv.factor_ne

/-- the unit of a value is idempotent under "times that unit": what `unit_of(uniform(l)[0])` relies on -/
theorem unitOfScalar_timesUnit (x : α) (v : PyVal α) : unitOfScalar (timesUnit x (unitOfScalar v)) = unitOfScalar v := by
  cases v <;> simp [unitOfScalar, timesUnit, PyVal.mul, PyVal.one, Quantity.units]

theorem toUnitlessFlat_spec (l : List (PyVal α)) (u : PyVal α) (hl : ∀ a ∈ l, a.WF) (hu : u.WF) :
    ((∀ a ∈ l, a.dims = u.dims) → toUnitlessFlat l u = .ok (l.map fun a => a.si / u.si)) ∧
    ((∃ a ∈ l, a.dims ≠ u.dims) → toUnitlessFlat l u = .error .valueError) := by
  constructor
  · intro h
    rw [toUnitlessFlat_ok_iff]
    apply forall₂_map_of
    intro a ha
    exact (toUnitlessScalar_ok_iff (hl a ha) hu _).mpr ⟨h a ha, rfl⟩
  · rintro ⟨a, ha, hne⟩
    cases hr : toUnitlessFlat l u with
    | ok xs =>
      exfalso
      obtain ⟨x, hx⟩ := forall₂_mem_left ((toUnitlessFlat_ok_iff _ _ _).mp hr) ha
      exact hne ((toUnitlessScalar_ok_iff (hl a ha) hu _).mp hx).1
    | error e =>
      obtain ⟨v, hv, hve⟩ := toUnitlessFlat_error hr
      rw [((toUnitlessScalar_error_iff (hl v hv) hu e).mp hve).2]

/-- magnitudes in unit `u`, times `u`, are the original physical values -/
theorem map_timesUnit_si (l : List (PyVal α)) (u : PyVal α) (hu : u.si ≠ 0) :
    ((l.map fun a => a.si / u.si).map (timesUnit · u)).map PyVal.si = l.map PyVal.si := by
  simp only [List.map_map]
  apply List.map_congr_left
  intro a _
  simp only [Function.comp, timesUnit_si]
  field_simp

theorem plainLinspace_smul (a b c : α) (n : ℕ) :
    (plainLinspace a b n).map (· * c) = plainLinspace (a * c) (b * c) n := by
  match n with
  | 0 => simp [plainLinspace]
  | 1 => simp [plainLinspace]
  | n + 2 =>
    simp only [plainLinspace, List.map_map]
    apply List.map_congr_left
    intro i _
    simp only [Function.comp, div_eq_mul_inv]
    ring

/-- `linspace`: refuses incompatible end points; otherwise the result is `np.linspace` of the magnitudes in the unit of
    `start`, times that unit — and its physical values are `np.linspace` of the physical end points, whatever the units. -/
theorem linspace_spec (start stop : PyVal α) (hs : start.WF) (he : stop.WF) (n : ℕ) :
    (start.dims = stop.dims →
      linspace start stop n = .ok ((plainLinspace (start.si / (unitOfScalar start).si) (stop.si / (unitOfScalar start).si) n).map
        (timesUnit · (unitOfScalar start))) ∧
      ∀ r, linspace start stop n = .ok r →
        r.map PyVal.si = plainLinspace start.si stop.si n ∧ ∀ v ∈ r, v.dims = start.dims) ∧
    (start.dims ≠ stop.dims → linspace start stop n = .error .valueError) := by
  have hu := unitOfScalar_wf hs
  have hud := unitOfScalar_dims start
  have hune := unitOfScalar_si_ne hs
  have h1 : toUnitlessScalar start (unitOfScalar start) = .ok (start.si / (unitOfScalar start).si) :=
    (toUnitlessScalar_ok_iff hs hu _).mpr ⟨hud.symm, rfl⟩
  constructor
  · intro hd
    have h2 : toUnitlessScalar stop (unitOfScalar start) = .ok (stop.si / (unitOfScalar start).si) :=
      (toUnitlessScalar_ok_iff he hu _).mpr ⟨by rw [hud, hd], rfl⟩
    have hl : linspace start stop n = .ok ((plainLinspace (start.si / (unitOfScalar start).si) (stop.si / (unitOfScalar start).si) n).map
        (timesUnit · (unitOfScalar start))) := by
      simp [linspace, h1, h2]
    refine ⟨hl, ?_⟩
    intro r hr
    rw [hl] at hr; simp only [Except.ok.injEq] at hr; subst hr
    constructor
    · rw [List.map_map]
      have : (PyVal.si ∘ fun x => timesUnit x (unitOfScalar start)) = fun x => x * (unitOfScalar start).si := by
        funext x; simp [timesUnit_si]
      rw [this, plainLinspace_smul]
      congr 1 <;> field_simp
    · intro v hv
      obtain ⟨x, _, rfl⟩ := List.mem_map.mp hv
      rw [timesUnit_dims, hud]
  · intro hd
    have h2 : toUnitlessScalar stop (unitOfScalar start) = .error .valueError :=
      (toUnitlessScalar_error_iff he hu _).mpr ⟨by rw [hud]; exact fun h => hd h.symm, rfl⟩
    simp [linspace, h1, h2]

theorem plainTile_map {β γ : Type} (f : β → γ) (l : List β) (n : ℕ) : (plainTile l n).map f = plainTile (l.map f) n := by
  induction n with
  | zero => simp [plainTile]
  | succ n ih => simp [plainTile, ih]

/-- `tile`: refuses mixed dimensions; otherwise `np.tile` of the magnitudes in the first element's unit, times that unit;
    the physical values are `np.tile` of the physical values -/
theorem tile_spec (elem : PyVal α) (rest : List (PyVal α)) (reps : ℕ) (hw : ∀ a ∈ elem :: rest, a.WF) :
    ((∀ a ∈ rest, a.dims = elem.dims) →
      tile (elem :: rest) reps = .ok ((plainTile ((elem :: rest).map fun a => a.si / (unitOfScalar elem).si) reps).map
        (timesUnit · (unitOfScalar elem))) ∧
      ∀ r, tile (elem :: rest) reps = .ok r → r.map PyVal.si = plainTile ((elem :: rest).map PyVal.si) reps) ∧
    ((∃ a ∈ rest, a.dims ≠ elem.dims) → tile (elem :: rest) reps = .error .valueError) ∧
    tile ([] : List (PyVal α)) reps = .error .indexError := by
  have hs := hw elem (by simp)
  have hu := unitOfScalar_wf hs
  have hud := unitOfScalar_dims elem
  have hune := unitOfScalar_si_ne hs
  obtain ⟨f1, f2⟩ := toUnitlessFlat_spec (elem :: rest) (unitOfScalar elem) hw hu
  refine ⟨?_, ?_, rfl⟩
  · intro h
    have hall : ∀ a ∈ elem :: rest, a.dims = (unitOfScalar elem).dims := by
      intro a ha
      rcases List.mem_cons.mp ha with rfl | ha
      · exact hud.symm
      · rw [hud]; exact h a ha
    have ht : tile (elem :: rest) reps = .ok ((plainTile ((elem :: rest).map fun a => a.si / (unitOfScalar elem).si) reps).map
        (timesUnit · (unitOfScalar elem))) := by
      simp only [tile, f1 hall]
    refine ⟨ht, ?_⟩
    intro r hr
    rw [ht] at hr; simp only [Except.ok.injEq] at hr; subst hr
    rw [plainTile_map, plainTile_map, map_timesUnit_si _ _ hune]
  · rintro ⟨a, ha, hne⟩
    have : toUnitlessFlat (elem :: rest) (unitOfScalar elem) = .error .valueError :=
      f2 ⟨a, by simp [ha], by rw [hud]; exact hne⟩
    simp only [tile, this]

/-- the unit chempy assigns to coefficient `i` of a degree-`deg` polynomial (`polyfit`, `polyval`): `u_y / u_x^(deg−i)` -/
theorem coeffUnit_spec (ux uy : PyVal α) (hx : ux.WF) (hy : uy.WF) (deg i : ℕ) :
    (coeffUnit ux uy deg i).WF ∧
    (coeffUnit ux uy deg i).si = uy.si * ux.si ^ ((i : ℤ) - (deg : ℤ)) ∧
    (coeffUnit ux uy deg i).dims = uy.dims.add (Dims.smul ((i : ℤ) - (deg : ℤ)) ux.dims) := by
  refine ⟨PyVal.mul_wf hy (PyVal.pow_wf hx _), ?_, ?_⟩
  · simp [coeffUnit, PyVal.mul_si, PyVal.pow_si]
  · simp [coeffUnit, PyVal.mul_dims hy (PyVal.pow_wf hx _), PyVal.pow_dims]

end ChemModel.Units
