/-
Helper lemmas for C06 (model: `ChemModel/Model/EulerStep.lean`).
Part 1: the arithmetic of `max_euler_step_cb` over a linearly ordered field.
Part 2: quasi-positivity and linearity of the mass-action right-hand side over an ordered commutative ring.
-/
import Mathlib.Tactic.Ring
import Mathlib.Tactic.Linarith
import Mathlib.Tactic.FieldSimp
import Mathlib.Algebra.Order.Field.Basic
import Mathlib.Algebra.Order.BigOperators.Ring.List
import Mathlib.Analysis.Calculus.Deriv.Add
import ChemModel.Model.EulerStep
import ChemModel.Proofs.Kinetics
import ChemModel.Proofs.EqSolve

namespace ChemModel.EulerStep
open ChemModel.Kinetics

set_option linter.unusedSectionVars false
set_option linter.unusedSimpArgs false

/-! ## Part 1: the step -/
section Step
variable {α : Type} [Field α] [LinearOrder α] [IsStrictOrderedRing α]

/-- `m ≤ b` in the order extended by `none = +∞` -/
def OptLe : Option α → Option α → Prop
  | _, none => True
  | none, some _ => False
  | some x, some y => x ≤ y

theorem optLe_refl (a : Option α) : OptLe a a := by
  cases a <;> simp [OptLe]

theorem optLe_trans {a b c : Option α} (h1 : OptLe a b) (h2 : OptLe b c) : OptLe a c := by
  cases a <;> cases b <;> cases c <;> simp_all [OptLe]
  exact le_trans h1 h2

theorem minInf2_le_left (a b : Option α) : OptLe (minInf2 a b) a := by
  cases a with
  | none => simp [OptLe]
  | some x =>
    cases b with
    | none => simp [minInf2, OptLe]
    | some y =>
      by_cases h : y < x
      · simp only [minInf2, if_pos h, OptLe]; exact le_of_lt h
      · simp only [minInf2, if_neg h, OptLe]; exact le_refl _

theorem minInf2_le_right (a b : Option α) : OptLe (minInf2 a b) b := by
  cases b with
  | none => simp [OptLe]
  | some y =>
    cases a with
    | none => simp [minInf2, OptLe]
    | some x =>
      by_cases h : y < x
      · simp only [minInf2, if_pos h, OptLe]; exact le_refl _
      · simp only [minInf2, if_neg h, OptLe]; exact not_lt.mp h

theorem minInf2_eq (a b : Option α) : minInf2 a b = a ∨ minInf2 a b = b := by
  cases a with
  | none => cases b <;> simp [minInf2]
  | some x =>
    cases b with
    | none => simp [minInf2]
    | some y =>
      by_cases h : y < x
      · right; simp only [minInf2, if_pos h]
      · left; simp only [minInf2, if_neg h]

theorem foldl_minInf2_spec (t : List (Option α)) (a : Option α) :
    OptLe (t.foldl minInf2 a) a ∧ (∀ b ∈ t, OptLe (t.foldl minInf2 a) b) ∧
      (t.foldl minInf2 a = a ∨ t.foldl minInf2 a ∈ t) := by
  induction t generalizing a with
  | nil => exact ⟨optLe_refl a, by simp, Or.inl rfl⟩
  | cons x t ih =>
    obtain ⟨h1, h2, h3⟩ := ih (minInf2 a x)
    simp only [List.foldl_cons]
    refine ⟨optLe_trans h1 (minInf2_le_left a x), ?_, ?_⟩
    · intro b hb
      rcases List.mem_cons.mp hb with rfl | hb
      · exact optLe_trans h1 (minInf2_le_right a b)
      · exact h2 b hb
    · rcases h3 with h3 | h3
      · rcases minInf2_eq a x with e | e
        · left; rw [h3, e]
        · right; rw [h3, e]; exact List.mem_cons_self
      · right; exact List.mem_cons_of_mem _ h3

/-- `min(h)` is a member of `h` below every member -/
theorem minInf_spec {bs : List (Option α)} {m : Option α} (h : minInf bs = some m) :
    m ∈ bs ∧ ∀ b ∈ bs, OptLe m b := by
  cases bs with
  | nil => simp [minInf] at h
  | cons a t =>
    simp only [minInf, Option.some.injEq] at h
    obtain ⟨h1, h2, h3⟩ := foldl_minInf2_spec t a
    rw [h] at h1 h2 h3
    refine ⟨?_, ?_⟩
    · rcases h3 with h3 | h3
      · rw [h3]; exact List.mem_cons_self
      · exact List.mem_cons_of_mem _ h3
    · intro b hb
      rcases List.mem_cons.mp hb with rfl | hb
      · exact h1
      · exact h2 b hb

theorem capAtOne_le_one (m : Option α) : capAtOne m ≤ 1 := by
  cases m with
  | none => simp [capAtOne]
  | some v =>
    simp only [capAtOne, Nat.cast_one]
    split
    · exact le_refl _
    · exact not_lt.mp ‹_›

theorem capAtOne_le_of_optLe {m : Option α} {v : α} (h : OptLe m (some v)) : capAtOne m ≤ v := by
  cases m with
  | none => simp [OptLe] at h
  | some w =>
    simp only [OptLe] at h
    simp only [capAtOne, Nat.cast_one]
    split
    · exact le_trans (le_of_lt ‹_›) h
    · exact h

theorem capAtOne_nonneg {m : Option α} (h : ∀ v, m = some v → 0 ≤ v) : 0 ≤ capAtOne m := by
  cases m with
  | none => simp [capAtOne]
  | some w =>
    simp only [capAtOne, Nat.cast_one]
    split
    · exact zero_le_one
    · exact h w rfl

theorem le_capAtOne {m : Option α} {x : α} (h1 : x ≤ 1) (h2 : ∀ v, m = some v → x ≤ v) : x ≤ capAtOne m := by
  cases m with
  | none => simpa [capAtOne] using h1
  | some w =>
    simp only [capAtOne, Nat.cast_one]
    split
    · exact h1
    · exact h2 w rfl

theorem capAtOne_lt_one {m : Option α} (h : capAtOne m < 1) : m = some (capAtOne m) := by
  cases m with
  | none => simp [capAtOne] at h
  | some w =>
    simp only [capAtOne, Nat.cast_one] at h ⊢
    split
    · rename_i h1; rw [if_pos h1] at h; exact absurd h (lt_irrefl _)
    · rfl

/-- what the loop stores at position `k` -/
theorem stepBounds_spec (y : List α) (ub : List (Option α)) (fs : List α) (idx : Nat) (bs : List (Option α))
    (h : stepBounds y ub idx fs = .ok bs) :
    bs.length = fs.length ∧
      ∀ k fk, fs[k]? = some fk → ∃ b, bs[k]? = some b ∧ stepBoundAt y ub (idx + k) fk = .ok b := by
  induction fs generalizing idx bs with
  | nil =>
    simp only [stepBounds, Except.ok.injEq] at h
    subst h
    exact ⟨rfl, by simp⟩
  | cons fc t ih =>
    simp only [stepBounds] at h
    cases hb : stepBoundAt y ub idx fc with
    | error e => rw [hb] at h; simp at h
    | ok b =>
      rw [hb] at h
      simp only at h
      cases ht : stepBounds y ub (idx + 1) t with
      | error e => rw [ht] at h; simp at h
      | ok bs' =>
        rw [ht] at h
        simp only [Except.ok.injEq] at h
        subst h
        obtain ⟨hl, hs⟩ := ih (idx + 1) bs' ht
        refine ⟨by simp [hl], ?_⟩
        intro k fk hk
        cases k with
        | zero =>
          simp only [List.getElem?_cons_zero, Option.some.injEq] at hk
          subst hk
          exact ⟨b, by simp, by simpa using hb⟩
        | succ k =>
          simp only [List.getElem?_cons_succ] at hk
          obtain ⟨b', hb1, hb2⟩ := hs k fk hk
          refine ⟨b', by simpa using hb1, ?_⟩
          have : idx + 1 + k = idx + (k + 1) := by omega
          rw [← this]; exact hb2

/-- a stored finite bound, read back -/
theorem stepBoundAt_some {y : List α} {ub : List (Option α)} {i : Nat} {fi v : α}
    (h : stepBoundAt y ub i fi = .ok (some v)) :
    (0 < fi ∧ ∃ yi u, y[i]? = some yi ∧ ub[i]? = some (some u) ∧ v = (u - yi) / fi) ∨
      (fi < 0 ∧ ∃ yi, y[i]? = some yi ∧ v = -yi / fi) := by
  unfold stepBoundAt at h
  simp only [Nat.cast_zero] at h
  split_ifs at h with h0 hpos
  · simp at h
  · left
    refine ⟨hpos, ?_⟩
    cases hu : ub[i]? with
    | none => rw [hu] at h; simp at h
    | some u =>
      cases hy : y[i]? with
      | none => rw [hu, hy] at h; simp at h
      | some yi =>
        rw [hu, hy] at h
        cases u with
        | none => simp at h
        | some u =>
          simp only [Except.ok.injEq, Option.some.injEq] at h
          exact ⟨yi, u, rfl, rfl, h.symm⟩
  · right
    refine ⟨lt_of_le_of_ne (not_lt.mp hpos) h0, ?_⟩
    cases hy : y[i]? with
    | none => rw [hy] at h; simp at h
    | some yi =>
      rw [hy] at h
      simp only [Except.ok.injEq, Option.some.injEq] at h
      exact ⟨yi, rfl, h.symm⟩

/-- a successful evaluation at a non-zero derivative stored a finite bound — except for an infinite upper bound -/
theorem stepBoundAt_ok {y : List α} {ub : List (Option α)} {i : Nat} {fi : α} {b : Option α}
    (h : stepBoundAt y ub i fi = .ok b) :
    (fi = 0 ∧ b = none) ∨
    (0 < fi ∧ ∃ yi, y[i]? = some yi ∧ ((ub[i]? = some none ∧ b = none) ∨ ∃ u, ub[i]? = some (some u) ∧ b = some ((u - yi) / fi))) ∨
    (fi < 0 ∧ ∃ yi, y[i]? = some yi ∧ b = some (-yi / fi)) := by
  unfold stepBoundAt at h
  simp only [Nat.cast_zero] at h
  split_ifs at h with h0 hpos
  · left; simp only [Except.ok.injEq] at h; exact ⟨h0, h.symm⟩
  · right; left
    refine ⟨hpos, ?_⟩
    cases hu : ub[i]? with
    | none => rw [hu] at h; simp at h
    | some u =>
      cases hy : y[i]? with
      | none => rw [hu, hy] at h; simp at h
      | some yi =>
        rw [hu, hy] at h
        refine ⟨yi, rfl, ?_⟩
        cases u with
        | none => left; simp only [Except.ok.injEq] at h; exact ⟨rfl, h.symm⟩
        | some u => right; simp only [Except.ok.injEq] at h; exact ⟨u, rfl, h.symm⟩
  · right; right
    refine ⟨lt_of_le_of_ne (not_lt.mp hpos) h0, ?_⟩
    cases hy : y[i]? with
    | none => rw [hy] at h; simp at h
    | some yi =>
      rw [hy] at h
      simp only [Except.ok.injEq] at h
      exact ⟨yi, rfl, h.symm⟩

/-- decomposition of a successful run of `maxEulerStep` -/
theorem maxEulerStep_ok {y : List α} {ub : List (Option α)} {f : List α} {h : α} (hrun : maxEulerStep y ub f = .ok h) :
    ∃ bs m, stepBounds y ub 0 f = .ok bs ∧ minInf bs = some m ∧ h = capAtOne m := by
  unfold maxEulerStep at hrun
  cases hb : stepBounds y ub 0 f with
  | error e => rw [hb] at hrun; simp at hrun
  | ok bs =>
    rw [hb] at hrun
    simp only at hrun
    cases hm : minInf bs with
    | none => rw [hm] at hrun; simp at hrun
    | some m =>
      rw [hm] at hrun
      simp only [Except.ok.injEq] at hrun
      exact ⟨bs, m, rfl, hm, hrun.symm⟩

end Step

/-! ## Part 2: the mass-action right-hand side -/
section Rhs
variable {σ : Type} [DecidableEq σ] {R : Type} [CommRing R] [LinearOrder R] [IsStrictOrderedRing R]

omit [LinearOrder R] [IsStrictOrderedRing R] in
theorem mem_of_dget?_eq_some {β : Type} {d : List (σ × β)} {s : σ} {v : β} (h : dget? d s = some v) : (s, v) ∈ d := by
  induction d with
  | nil => simp [dget?] at h
  | cons p t ih =>
    obtain ⟨k, w⟩ := p
    simp only [dget?] at h
    split_ifs at h with hk
    · simp only [Option.some.injEq] at h
      subst hk; subst h
      exact List.mem_cons_self
    · exact List.mem_cons_of_mem _ (ih h)

theorem concProd_nonneg (c : σ → R) (hc : ∀ s, 0 ≤ c s) (reac : List (σ × ℕ)) : 0 ≤ concProd c reac := by
  unfold concProd
  induction reac with
  | nil => simp
  | cons p t ih =>
    simp only [List.map_cons, List.prod_cons]
    exact mul_nonneg (pow_nonneg (hc p.1) p.2) ih

omit [LinearOrder R] [IsStrictOrderedRing R] in
/-- an active reactant of positive order that is absent switches the reaction off -/
theorem concProd_eq_zero (c : σ → R) (reac : List (σ × ℕ)) (s : σ) (hs : c s = 0) (hpos : 0 < coef reac s) :
    concProd c reac = 0 := by
  unfold coef dgetD at hpos
  cases hg : dget? reac s with
  | none => rw [hg] at hpos; simp at hpos
  | some ν =>
    rw [hg] at hpos
    simp only at hpos
    unfold concProd
    apply List.prod_eq_zero
    refine List.mem_map.mpr ⟨(s, ν), mem_of_dget?_eq_some hg, ?_⟩
    simp only [hs]
    exact zero_pow (by omega)

omit [LinearOrder R] [IsStrictOrderedRing R] in
theorem contribution_eq (c : σ → R) (r : Reaction σ R) (s : σ) :
    contribution c r s = ((netStoich r s : ℤ) : R) * (r.param * concProd c r.reac) := by
  unfold contribution netStoich
  rfl

/-- one reaction's contribution to `dc_s/dt` is non-negative on the face `c s = 0` of the non-negative orthant -/
theorem contribution_nonneg (c : σ → R) (r : Reaction σ R) (s : σ) (hk : 0 ≤ r.param) (hc : ∀ x, 0 ≤ c x) (hs : c s = 0)
    (hact : netStoich r s < 0 → 0 < coef r.reac s) : 0 ≤ contribution c r s := by
  rw [contribution_eq]
  by_cases hn : netStoich r s < 0
  · rw [concProd_eq_zero c r.reac s hs (hact hn)]
    simp
  · have h1 : (0 : R) ≤ ((netStoich r s : ℤ) : R) := by exact_mod_cast not_lt.mp hn
    exact mul_nonneg h1 (mul_nonneg hk (concProd_nonneg c hc r.reac))

end Rhs

section Linear
variable {σ : Type} [DecidableEq σ] {R : Type} [CommRing R]

omit [CommRing R] in
theorem firstOrderReactant_eq_some {r : Reaction σ R} {j : σ} (h : firstOrderReactant r = some j) : r.reac = [(j, 1)] := by
  unfold firstOrderReactant at h
  split at h
  · rename_i j' heq
    simp only [Option.some.injEq] at h
    rw [heq, h]
  · simp at h

omit [CommRing R] in
theorem firstOrderReactant_of_reac {r : Reaction σ R} {j : σ} (h : r.reac = [(j, 1)]) : firstOrderReactant r = some j := by
  unfold firstOrderReactant
  rw [h]
  rfl

theorem firstOrderEntry_eq_sum (rs : List (Reaction σ R)) (s j : σ) :
    firstOrderEntry rs s j =
      (rs.map fun r => if firstOrderReactant r = some j then ((netStoich r s : ℤ) : R) * r.param else 0).sum := by
  unfold firstOrderEntry
  have aux : ∀ (l : List (Reaction σ R)) (a : R),
      l.foldl (fun acc r => if firstOrderReactant r = some j then acc + ((netStoich r s : ℤ) : R) * r.param else acc) a =
        a + (l.map fun r => if firstOrderReactant r = some j then ((netStoich r s : ℤ) : R) * r.param else 0).sum := by
    intro l
    induction l with
    | nil => intro a; simp
    | cons r t ih =>
      intro a
      simp only [List.foldl_cons, List.map_cons, List.sum_cons, ih]
      split_ifs <;> ring
  rw [aux]
  simp

/-- the entry of `firstOrderMatrix` in closed form: `M[s][j] = Σ_{r : reac r = {j: 1}} net r s · k_r` -/
theorem firstOrderEntry_eq_explicit (rs : List (Reaction σ R)) (s j : σ) :
    firstOrderEntry rs s j =
      (rs.map fun r => if r.reac = [(j, 1)] then ((netStoich r s : ℤ) : R) * r.param else 0).sum := by
  rw [firstOrderEntry_eq_sum]
  congr 1
  apply List.map_congr_left
  intro r _
  by_cases h : r.reac = [(j, 1)]
  · rw [if_pos h, if_pos (firstOrderReactant_of_reac h)]
  · rw [if_neg h, if_neg (fun h' => h (firstOrderReactant_eq_some h'))]

omit [DecidableEq σ] in
theorem firstOrderMatrix_eq [DecidableEq σ] (keys : List σ) (rs : List (Reaction σ R)) :
    firstOrderMatrix keys rs = keys.map fun s => keys.map fun j => firstOrderEntry rs s j := rfl

theorem matVecEntry_eq_sum (keys : List σ) (rs : List (Reaction σ R)) (c : σ → R) (s : σ) :
    matVecEntry keys rs c s = (keys.map fun j => firstOrderEntry rs s j * c j).sum := by
  unfold matVecEntry
  rw [foldl_add_eq (fun j => firstOrderEntry rs s j * c j)]
  simp

/-- `Σ_{j ∈ keys} [j₀ = j]·g j = g j₀` for a duplicate-free list containing `j₀` -/
theorem sum_ite_eq_of_nodup (keys : List σ) (hnd : keys.Nodup) (j0 : σ) (hm : j0 ∈ keys) (g : σ → R) :
    (keys.map fun j => if j0 = j then g j else 0).sum = g j0 := by
  induction keys with
  | nil => simp at hm
  | cons k t ih =>
    rw [List.nodup_cons] at hnd
    simp only [List.map_cons, List.sum_cons]
    rcases List.mem_cons.mp hm with rfl | hm'
    · have : (t.map fun j => if j0 = j then g j else 0).sum = 0 := by
        apply List.sum_eq_zero
        intro x hx
        obtain ⟨j, hj, rfl⟩ := List.mem_map.mp hx
        have : j0 ≠ j := fun e => hnd.1 (e ▸ hj)
        simp [this]
      simp [this]
    · have hne : j0 ≠ k := fun e => hnd.1 (e ▸ hm')
      simp [hne, ih hnd.2 hm']

/-- the contribution of a first-order reaction `j → …` is `net · k · c j` -/
theorem contribution_first_order (c : σ → R) (r : Reaction σ R) (s j : σ) (h : r.reac = [(j, 1)]) :
    contribution c r s = ((netStoich r s : ℤ) : R) * r.param * c j := by
  rw [contribution_eq, h]
  simp [concProd, mul_assoc]

/-- `Σ_r contribution = (M·c)[s]` for a network of first-order reactions whose reactants are among `keys` -/
theorem sum_contribution_eq_matVec (keys : List σ) (hnd : keys.Nodup) (c : σ → R) (s : σ) (rs : List (Reaction σ R))
    (hfo : ∀ r ∈ rs, ∃ j, j ∈ keys ∧ r.reac = [(j, 1)]) :
    (rs.map fun r => contribution c r s).sum = matVecEntry keys rs c s := by
  rw [matVecEntry_eq_sum]
  induction rs with
  | nil => simp [firstOrderEntry_eq_sum]
  | cons r t ih =>
    obtain ⟨j0, hj0, hr⟩ := hfo r List.mem_cons_self
    have iht := ih (fun r' hr' => hfo r' (List.mem_cons_of_mem _ hr'))
    simp only [List.map_cons, List.sum_cons, iht, firstOrderEntry_eq_sum, add_mul, List.sum_map_add]
    congr 1
    rw [contribution_first_order c r s j0 hr, firstOrderReactant_of_reac hr]
    have : (keys.map fun j => (if some j0 = some j then ((netStoich r s : ℤ) : R) * r.param else 0) * c j) =
        keys.map fun j => if j0 = j then ((netStoich r s : ℤ) : R) * r.param * c j else 0 := by
      apply List.map_congr_left
      intro j _
      by_cases e : j0 = j <;> simp [e]
    rw [this, sum_ite_eq_of_nodup keys hnd j0 hj0 (fun j => ((netStoich r s : ℤ) : R) * r.param * c j)]

end Linear

/-! ## Part 3: a single bimolecular step `a + b → p` (and back) as a reaction system over ℝ -/
section Bimolecular
variable {σ : Type} [DecidableEq σ]

/-- concentrations of `a`, `b`, `p` (everything else `0`) when the product concentration is `y`:
    `[a] = major − (y − prod)`, `[b] = minor − (y − prod)`, `[p] = y` -/
def binaryState (a b p : σ) (major minor prod y : ℝ) : σ → ℝ :=
  fun s => if s = a then major - (y - prod) else if s = b then minor - (y - prod) else if s = p then y else 0

/-- the system `a + b → p ; kf` -/
def binaryIrrevSys (a b p : σ) (kf : ℝ) : List (Reaction σ ℝ) :=
  [{ reac := [(a, 1), (b, 1)], prod := [(p, 1)], param := kf }]

/-- the system `a + b → p ; kf`, `p → a + b ; kb` -/
def binaryRevSys (a b p : σ) (kf kb : ℝ) : List (Reaction σ ℝ) :=
  [{ reac := [(a, 1), (b, 1)], prod := [(p, 1)], param := kf }, { reac := [(p, 1)], prod := [(a, 1), (b, 1)], param := kb }]

/-- the system `2 a → p ; kf` -/
def dimerSys (a p : σ) (kf : ℝ) : List (Reaction σ ℝ) := [{ reac := [(a, 2)], prod := [(p, 1)], param := kf }]

theorem rhs_binaryRevSys (a b p : σ) (hab : a ≠ b) (hap : a ≠ p) (hbp : b ≠ p) (kf kb : ℝ) (c : σ → ℝ) (s : σ) :
    valueAt (sysRates c (binaryRevSys a b p kf kb) none none) s =
      if s = a ∨ s = b then -(kf * (c a * c b)) + kb * c p
      else if s = p then kf * (c a * c b) - kb * c p else 0 := by
  simp only [sysRates]
  rw [valueAt_sysRatesNoFeed_contribution c _ none s (by intro ks h; cases h)]
  have hba := hab.symm
  have hpa := hap.symm
  have hpb := hbp.symm
  by_cases h1 : s = a
  · subst h1
    simp [binaryRevSys, contribution, coef, dgetD, dget?, concProd, hab, hap, hba, hpa]
  · by_cases h2 : s = b
    · subst h2
      simp [binaryRevSys, contribution, coef, dgetD, dget?, concProd, hab, hbp, hba, hpb, h1]
    · by_cases h3 : s = p
      · subst h3
        simp [binaryRevSys, contribution, coef, dgetD, dget?, concProd, hap, hbp, hpa, hpb, h1, h2]
        ring
      · have e1 : ¬ a = s := fun e => h1 e.symm
        have e2 : ¬ b = s := fun e => h2 e.symm
        have e3 : ¬ p = s := fun e => h3 e.symm
        simp [binaryRevSys, contribution, coef, dgetD, dget?, h1, h2, h3, e1, e2, e3]

theorem rhs_binaryIrrevSys (a b p : σ) (hab : a ≠ b) (hap : a ≠ p) (hbp : b ≠ p) (kf : ℝ) (c : σ → ℝ) (s : σ) :
    valueAt (sysRates c (binaryIrrevSys a b p kf) none none) s =
      if s = a ∨ s = b then -(kf * (c a * c b))
      else if s = p then kf * (c a * c b) else 0 := by
  simp only [sysRates]
  rw [valueAt_sysRatesNoFeed_contribution c _ none s (by intro ks h; cases h)]
  have hba := hab.symm
  have hpa := hap.symm
  have hpb := hbp.symm
  by_cases h1 : s = a
  · subst h1
    simp [binaryIrrevSys, contribution, coef, dgetD, dget?, concProd, hab, hap, hba, hpa]
  · by_cases h2 : s = b
    · subst h2
      simp [binaryIrrevSys, contribution, coef, dgetD, dget?, concProd, hab, hbp, hba, hpb, h1]
    · by_cases h3 : s = p
      · subst h3
        simp [binaryIrrevSys, contribution, coef, dgetD, dget?, concProd, hap, hbp, hpa, hpb, h1, h2]
      · have e1 : ¬ a = s := fun e => h1 e.symm
        have e2 : ¬ b = s := fun e => h2 e.symm
        have e3 : ¬ p = s := fun e => h3 e.symm
        simp [binaryIrrevSys, contribution, coef, dgetD, dget?, h1, h2, h3, e1, e2, e3]

/-- if the product concentration `y` obeys `y' = rate`, every component of `binaryState` moves with `∓ rate` -/
theorem binaryState_hasDerivAt (a b p : σ) (hab : a ≠ b) (hap : a ≠ p) (hbp : b ≠ p) (major minor prod : ℝ)
    (y : ℝ → ℝ) (y' t : ℝ) (hy : HasDerivAt y y' t) (s : σ) :
    HasDerivAt (fun τ => binaryState a b p major minor prod (y τ) s)
      (if s = a ∨ s = b then -y' else if s = p then y' else 0) t := by
  unfold binaryState
  by_cases h1 : s = a
  · subst h1
    simp only [true_or, if_true]
    exact (hy.sub_const prod).const_sub major
  · by_cases h2 : s = b
    · subst h2
      simp only [if_neg h1, or_true, if_true]
      exact (hy.sub_const prod).const_sub minor
    · by_cases h3 : s = p
      · subst h3
        simp only [if_neg h1, if_neg h2, h1, h2, or_self, if_false, if_true]
        exact hy
      · simp only [if_neg h1, if_neg h2, if_neg h3, h1, h2, or_self, if_false]
        exact hasDerivAt_const t (0 : ℝ)

end Bimolecular

/-! ## Part 4: the Euler update carries the element totals (bridge between `EqSolve.compositionConc` and C05's balance) -/
section Totals
variable {α : Type} [Field α] [LinearOrder α] [IsStrictOrderedRing α]

/-- amount of composition key `k` per formula unit as `upper_conc_bounds` counts it: ALL items with that key, charge (`0`) skipped -/
def compWeight (comp : EqSolve.Comp α) (k : ℕ) : α :=
  (comp.map fun p => if p.1 = k ∧ p.1 ≠ 0 then p.2 else 0).sum

theorem compositionConc_eq_weighted (comps : List (EqSolve.Comp α)) (y : List α) (k : ℕ) :
    EqSolve.compositionConc comps y k = (List.zipWith (fun w c => w * c) (comps.map fun comp => compWeight comp k) y).sum := by
  unfold EqSolve.compositionConc
  simp only [EqSolve.listSum_eq_sum]
  induction y generalizing comps with
  | nil => cases comps <;> simp
  | cons c t ih =>
    cases comps with
    | nil => simp
    | cons comp cs =>
      simp only [List.zip_cons_cons, List.map_cons, List.sum_cons, List.zipWith_cons_cons, ih cs]
      congr 1
      unfold compWeight
      rw [← List.sum_map_mul_right]
      congr 1
      apply List.map_congr_left
      intro p _
      by_cases h : p.1 = k ∧ p.1 ≠ 0
      · simp only [if_pos h, Nat.cast_zero]
      · simp only [if_neg h, Nat.cast_zero, zero_mul]

/-- `w·(y + t f) = w·y + t (w·f)` for lists of equal length -/
theorem weighted_eulerNext (ws y f : List α) (t : α) (hl : y.length = f.length) :
    (List.zipWith (fun w c => w * c) ws (eulerNext y t f)).sum =
      (List.zipWith (fun w c => w * c) ws y).sum + t * (List.zipWith (fun w c => w * c) ws f).sum := by
  unfold eulerNext
  induction ws generalizing y f with
  | nil => simp
  | cons w ws ih =>
    cases y with
    | nil =>
      cases f with
      | nil => simp
      | cons _ _ => simp at hl
    | cons a y =>
      cases f with
      | nil => simp at hl
      | cons b f =>
        simp only [List.zipWith_cons_cons, List.sum_cons, ih y f (by simpa using hl)]
        ring

theorem eulerNext_length (y f : List α) (t : α) (hl : y.length = f.length) : (eulerNext y t f).length = y.length := by
  simp [eulerNext, hl]

theorem eulerNext_getElem? (y f : List α) (t : α) (i : ℕ) :
    (eulerNext y t f)[i]? = match y[i]?, f[i]? with
      | some yi, some fi => some (yi + t * fi)
      | _, _ => none := by
  unfold eulerNext
  rw [List.getElem?_zipWith]
  cases y[i]? <;> cases f[i]? <;> rfl

end Totals

section TotalsKin
variable {σ : Type} [DecidableEq σ] {α : Type} [Field α] [LinearOrder α] [IsStrictOrderedRing α]

/-- a successful `fvec` is the list of the rate-dictionary values in substance order -/
theorem fvec_ok {keys : List σ} {rs : List (Reaction σ α)} {y f : List α} (h : fvec keys rs y = .ok f) :
    f = keys.map fun s => valueAt (sysRates (stateFn keys y) rs none none) s := by
  unfold fvec at h
  simp only at h
  generalize sysRates (stateFn keys y) rs none none = d at h ⊢
  generalize hks : keys = ks at h ⊢
  clear hks
  induction ks generalizing f with
  | nil =>
    simp only [List.mapM_nil, pure, Except.pure, Except.ok.injEq] at h
    subst h; rfl
  | cons s t ih =>
    rw [List.mapM_cons] at h
    simp only [bind, Except.bind] at h
    cases hd : dget? d s with
    | none => rw [hd] at h; simp at h
    | some v =>
      rw [hd] at h
      simp only at h
      split at h
      · simp at h
      · rename_i ft ht
        simp only [pure, Except.pure, Except.ok.injEq] at h
        subst h
        rw [List.map_cons, ← ih ht]
        congr 1
        simp [valueAt, dgetD, hd]

/-- with duplicate-free composition keys and `k ≠ 0`, what `upper_conc_bounds` counts is `composition.get(k, 0)` -/
theorem compWeight_eq_compGet (comp : EqSolve.Comp α) (hnd : (comp.map Prod.fst).Nodup) (k : ℕ) (hk : k ≠ 0) :
    compWeight comp k = compGet (comp.map fun p => (((p.1 : ℕ) : ℤ), p.2)) (k : ℤ) := by
  have hnd' : (dkeys (comp.map fun p => (((p.1 : ℕ) : ℤ), p.2))).Nodup := by
    unfold dkeys
    rw [List.map_map]
    have : (Prod.fst ∘ fun p : ℕ × α => (((p.1 : ℕ) : ℤ), p.2)) = (fun n : ℕ => (n : ℤ)) ∘ Prod.fst := rfl
    rw [this, ← List.map_map]
    exact hnd.map Nat.cast_injective
  have h := sum_ite_of_nodup (β := α) (comp.map fun p => (((p.1 : ℕ) : ℤ), p.2)) hnd' (fun kv => kv.2) (k : ℤ)
  unfold compGet dgetD
  rw [List.map_map] at h
  have hl : compWeight comp k =
      (comp.map ((fun kv : ℤ × α => if kv.1 = (k : ℤ) then kv.2 else 0) ∘ fun p : ℕ × α => (((p.1 : ℕ) : ℤ), p.2))).sum := by
    unfold compWeight
    congr 1
    apply List.map_congr_left
    intro p _
    simp only [Function.comp]
    by_cases e : p.1 = k
    · have : p.1 ≠ 0 := e ▸ hk
      simp [e, hk]
    · have : ¬ ((p.1 : ℤ) = (k : ℤ)) := fun h' => e (by exact_mod_cast h')
      simp [e, this]
  rw [hl, h]
  cases dget? (comp.map fun p => (((p.1 : ℕ) : ℤ), p.2)) (k : ℤ) <;> simp

end TotalsKin

/-! ## Part 5: rescaled variables (pyodesys `ScaledSys`): `y_int = s·y`, `t_int = τ·t` -/
section Scaled
variable {σ : Type} [DecidableEq σ] {K : Type} [Field K]

/-- overall order of a reaction: the sum of the active reactant coefficients -/
def rxnOrder (r : Reaction σ K) : ℕ := (r.reac.map Prod.snd).sum

/-- the reaction with the rate constant of the rescaled variables `y_int = s·y`, `t_int = τ·t`: `k_int = k·s^(1−n)/τ` -/
def scaleRxn (s τ : K) (r : Reaction σ K) : Reaction σ K := { r with param := r.param * (s / s ^ rxnOrder r) / τ }

omit [DecidableEq σ] in
theorem prod_smul_pow (s : K) (c : σ → K) (reac : List (σ × ℕ)) :
    (reac.map fun p => (s * c p.1) ^ p.2).prod = s ^ (reac.map Prod.snd).sum * (reac.map fun p => c p.1 ^ p.2).prod := by
  induction reac with
  | nil => simp
  | cons p t ih =>
    simp only [List.map_cons, List.prod_cons, List.sum_cons, pow_add]
    rw [ih, mul_pow]
    ring

omit [DecidableEq σ] in
theorem concProd_smul (s : K) (c : σ → K) (reac : List (σ × ℕ)) :
    concProd (fun x => s * c x) reac = s ^ (reac.map Prod.snd).sum * concProd c reac :=
  prod_smul_pow s c reac

theorem contribution_scaled (s τ : K) (hs : s ≠ 0) (c : σ → K) (r : Reaction σ K) (x : σ) :
    contribution (fun y => s * c y) (scaleRxn s τ r) x = s / τ * contribution c r x := by
  rw [contribution_eq, contribution_eq]
  have hn : netStoich (scaleRxn s τ r) x = netStoich r x := rfl
  have hr : (scaleRxn s τ r).reac = r.reac := rfl
  have hp : (scaleRxn s τ r).param = r.param * (s / s ^ rxnOrder r) / τ := rfl
  rw [hn, hr, hp, concProd_smul]
  have hpow : s ^ (r.reac.map Prod.snd).sum ≠ 0 := pow_ne_zero _ hs
  unfold rxnOrder
  field_simp

theorem sysRates_scaled (s τ : K) (hs : s ≠ 0) (c : σ → K) (rs : List (Reaction σ K)) (keys? : Option (List σ)) (x : σ) :
    valueAt (sysRates (fun y => s * c y) (rs.map (scaleRxn s τ)) keys? none) x =
      s / τ * valueAt (sysRates c rs keys? none) x := by
  simp only [sysRates]
  rw [valueAt_sysRatesNoFeed, valueAt_sysRatesNoFeed, List.map_map, ← List.sum_map_mul_left]
  congr 1
  apply List.map_congr_left
  intro r _
  have hk : keysFor keys? (scaleRxn s τ r) = keysFor keys? r := by
    cases keys? <;> rfl
  simp only [Function.comp, hk, valueAt_rxnRate]
  split_ifs
  · exact contribution_scaled s τ hs c r x
  · simp
end Scaled

section ScaledStep
variable {α : Type} [Field α] [LinearOrder α] [IsStrictOrderedRing α]

/-- `min_h = min(h)` of `max_euler_step_cb` before the cap (`none` = `inf`) -/
def minEulerStep (y : List α) (ub : List (Option α)) (fvec : List α) : Except Err (Option α) :=
  match stepBounds y ub 0 fvec with
  | .error e => .error e
  | .ok h =>
    match minInf h with
    | none => .error .valueError
    | some m => .ok m

theorem maxEulerStep_eq_cap (y : List α) (ub : List (Option α)) (f : List α) :
    maxEulerStep y ub f = (minEulerStep y ub f).map capAtOne := by
  unfold maxEulerStep minEulerStep
  cases hb : stepBounds y ub 0 f with
  | error e => simp [Except.map]
  | ok h => cases hm : minInf h <;> simp [Except.map, hm]

theorem stepBoundAt_scaled (s τ : α) (hs : 0 < s) (hτ : 0 < τ) (y : List α) (ub : List (Option α)) (idx : ℕ) (fc : α) :
    stepBoundAt (y.map (s * ·)) (ub.map (Option.map (s * ·))) idx (s / τ * fc) =
      (stepBoundAt y ub idx fc).map (Option.map (τ * ·)) := by
  have hst : 0 < s / τ := div_pos hs hτ
  unfold stepBoundAt
  simp only [Nat.cast_zero, List.getElem?_map]
  by_cases h0 : fc = 0
  · subst h0; simp [Except.map]
  · have h0' : s / τ * fc ≠ 0 := mul_ne_zero hst.ne' h0
    rw [if_neg h0', if_neg h0]
    by_cases hp : 0 < fc
    · have hp' : 0 < s / τ * fc := mul_pos hst hp
      rw [if_pos hp', if_pos hp]
      cases hu : ub[idx]? with
      | none => simp [Except.map]
      | some u =>
        cases hy : y[idx]? with
        | none => simp [Except.map]
        | some yi =>
          cases u with
          | none => simp [Except.map]
          | some u =>
            simp only [Option.map_some, Except.map]
            congr 2
            field_simp
    · have hp' : ¬ 0 < s / τ * fc := by
        have : fc < 0 := lt_of_le_of_ne (not_lt.mp hp) h0
        exact not_lt.mpr (mul_nonpos_of_nonneg_of_nonpos hst.le this.le)
      rw [if_neg hp', if_neg hp]
      cases hy : y[idx]? with
      | none => simp [Except.map]
      | some yi =>
        simp only [Option.map_some, Except.map]
        congr 2
        field_simp

theorem stepBounds_scaled (s τ : α) (hs : 0 < s) (hτ : 0 < τ) (y : List α) (ub : List (Option α)) (fs : List α) (idx : ℕ) :
    stepBounds (y.map (s * ·)) (ub.map (Option.map (s * ·))) idx (fs.map (s / τ * ·)) =
      (stepBounds y ub idx fs).map (List.map (Option.map (τ * ·))) := by
  induction fs generalizing idx with
  | nil => rfl
  | cons fc t ih =>
    simp only [List.map_cons, stepBounds, stepBoundAt_scaled s τ hs hτ, ih]
    cases hb : stepBoundAt y ub idx fc with
    | error e => simp [Except.map]
    | ok b =>
      cases hbs : stepBounds y ub (idx + 1) t with
      | error e => simp [Except.map]
      | ok bs => simp [Except.map]

theorem minInf2_scaled (τ : α) (hτ : 0 < τ) (a b : Option α) :
    minInf2 (a.map (τ * ·)) (b.map (τ * ·)) = (minInf2 a b).map (τ * ·) := by
  cases a <;> cases b <;> simp only [minInf2, Option.map_some, Option.map_none]
  rename_i x y
  by_cases h : y < x
  · rw [if_pos h, if_pos (mul_lt_mul_of_pos_left h hτ)]; rfl
  · rw [if_neg h, if_neg (fun h' => h (lt_of_mul_lt_mul_left h' hτ.le))]; rfl

theorem minInf_scaled (τ : α) (hτ : 0 < τ) (bs : List (Option α)) :
    minInf (bs.map (Option.map (τ * ·))) = (minInf bs).map (Option.map (τ * ·)) := by
  cases bs with
  | nil => rfl
  | cons a t =>
    simp only [List.map_cons, minInf, Option.map_some]
    congr 1
    induction t generalizing a with
    | nil => rfl
    | cons b t ih =>
      simp only [List.map_cons, List.foldl_cons, minInf2_scaled τ hτ, ih]

/-- the loop is homogeneous: in the variables `s·y`, `s·ub`, `(s/τ)·f` every step limit and their minimum are `τ` times as large -/
theorem minEulerStep_scaled (s τ : α) (hs : 0 < s) (hτ : 0 < τ) (y : List α) (ub : List (Option α)) (f : List α) :
    minEulerStep (y.map (s * ·)) (ub.map (Option.map (s * ·))) (f.map (s / τ * ·)) =
      (minEulerStep y ub f).map (Option.map (τ * ·)) := by
  unfold minEulerStep
  rw [stepBounds_scaled s τ hs hτ]
  cases hb : stepBounds y ub 0 f with
  | error e => simp [Except.map]
  | ok bs =>
    simp only [Except.map, minInf_scaled τ hτ]
    cases hm : minInf bs <;> simp [Except.map]
end ScaledStep

section ScaledFvec
variable {α : Type} [Field α] [LinearOrder α] [IsStrictOrderedRing α] {σ : Type} [DecidableEq σ]

theorem stateFn_scaled (s : α) (keys : List σ) (y : List α) (x : σ) :
    stateFn keys (y.map (s * ·)) x = s * stateFn keys y x := by
  unfold stateFn
  cases indexOf? keys x with
  | none => simp
  | some i =>
    simp only [List.getElem?_map]
    cases y[i]? <;> simp

theorem dget?_eq_valueAt (d : List (σ × α)) (x : σ) :
    dget? d x = if x ∈ dkeys d then some (valueAt d x) else none := by
  cases h : dget? d x with
  | none => rw [if_neg (dget?_eq_none_iff.mp h)]
  | some v =>
    have hm : x ∈ dkeys d := by
      by_contra hn
      rw [dget?_eq_none_iff.mpr hn] at h
      cases h
    rw [if_pos hm]
    simp [valueAt, dgetD, h]

theorem mapM_map_of_pointwise {β γ : Type} (g g' : β → Except Err γ) (φ : γ → γ) (l : List β)
    (h : ∀ x, g' x = (g x).map φ) : l.mapM g' = (l.mapM g).map (List.map φ) := by
  induction l with
  | nil => rfl
  | cons a t ih =>
    rw [List.mapM_cons, List.mapM_cons, h a, ih]
    cases g a with
    | error e => rfl
    | ok v =>
      cases t.mapM g with
      | error e => rfl
      | ok vs => rfl

theorem fvec_scaled (s τ : α) (hs : s ≠ 0) (keys : List σ) (rs : List (Reaction σ α)) (y : List α) :
    fvec keys (rs.map (scaleRxn s τ)) (y.map (s * ·)) = (fvec keys rs y).map (List.map (s / τ * ·)) := by
  unfold fvec
  have hfun : stateFn keys (y.map (s * ·)) = fun x => s * stateFn keys y x := funext (stateFn_scaled s keys y)
  simp only [hfun]
  apply mapM_map_of_pointwise
  intro x
  rw [dget?_eq_valueAt, dget?_eq_valueAt (sysRates (stateFn keys y) rs none none)]
  have hmem : x ∈ dkeys (sysRates (fun x => s * stateFn keys y x) (rs.map (scaleRxn s τ)) none none) ↔
      x ∈ dkeys (sysRates (stateFn keys y) rs none none) := by
    simp only [sysRates, mem_dkeys_sysRatesNoFeed, List.mem_map]
    constructor
    · rintro ⟨r', ⟨r, hr, rfl⟩, hx⟩; exact ⟨r, hr, hx⟩
    · rintro ⟨r, hr, hx⟩; exact ⟨scaleRxn s τ r, ⟨r, hr, rfl⟩, hx⟩
  by_cases hx : x ∈ dkeys (sysRates (stateFn keys y) rs none none)
  · rw [if_pos (hmem.mpr hx), if_pos hx, sysRates_scaled s τ hs]
    rfl
  · rw [if_neg (fun h => hx (hmem.mp h)), if_neg hx]
    rfl
end ScaledFvec

end ChemModel.EulerStep
