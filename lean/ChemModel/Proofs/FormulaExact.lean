/-
C01: key ORDER of the returned dict and the exact round trip `parse (render f) = composition f`
(the specification's own dict, in Python insertion order).
-/
import ChemModel.Proofs.FormulaIntOnly

set_option linter.constructorNameAsVariable false

namespace ChemModel.Formula

/-! ### key order of dicts built by `addKey` -/

/-- `ks` with `k` appended unless already present -/
def insKey (ks : List Nat) (k : Nat) : List Nat := if k ∈ ks then ks else ks ++ [k]

/-- keys in order of first occurrence, starting from `acc` -/
def mergeKeys (acc : List Nat) (l : List Nat) : List Nat := l.foldl insKey acc

theorem keys_addKey (k : Nat) (v : Rat) (c : Comp) : Comp.keys (addKey k v c) = insKey (Comp.keys c) k := by
  induction c with
  | nil => simp [addKey, Comp.keys, insKey]
  | cons p ps ih =>
    obtain ⟨a, b⟩ := p
    simp only [addKey]
    by_cases h : a = k
    · subst h; simp [insKey, keys_cons]
    · rw [if_neg h, keys_cons, ih, keys_cons]
      simp only [insKey, List.mem_cons]
      have hk : ¬ k = a := fun e => h e.symm
      by_cases hm : k ∈ Comp.keys ps <;> simp [hm, hk]

theorem keys_mergeInto (acc c : Comp) : Comp.keys (mergeInto acc c) = mergeKeys (Comp.keys acc) (Comp.keys c) := by
  induction c generalizing acc with
  | nil => rfl
  | cons p ps ih =>
    simp only [mergeInto, List.foldl_cons] at ih ⊢
    rw [ih, keys_addKey]; rfl

theorem keys_mergeComp (c : Comp) : Comp.keys (mergeComp c) = mergeKeys [] (Comp.keys c) := by
  simpa [mergeComp, Comp.keys] using keys_mergeInto [] c

theorem keys_addScaled (m : Rat) (tot c : Comp) : Comp.keys (addScaled m tot c) = mergeKeys (Comp.keys tot) (Comp.keys c) := by
  induction c generalizing tot with
  | nil => rfl
  | cons p ps ih =>
    simp only [addScaled, List.foldl_cons] at ih ⊢
    rw [ih, keys_addKey]; rfl

theorem mergeKeys_append (acc a b : List Nat) : mergeKeys acc (a ++ b) = mergeKeys (mergeKeys acc a) b := by
  simp [mergeKeys, List.foldl_append]

theorem mem_insKey (ks : List Nat) (k y : Nat) : y ∈ insKey ks k ↔ y ∈ ks ∨ y = k := by
  unfold insKey
  split
  · rename_i h; constructor
    · exact Or.inl
    · rintro (h' | h'); exact h'; subst h'; exact h
  · simp

theorem mem_mergeKeys (acc l : List Nat) (y : Nat) : y ∈ mergeKeys acc l ↔ y ∈ acc ∨ y ∈ l := by
  induction l generalizing acc with
  | nil => simp [mergeKeys]
  | cons x r ih =>
    have := ih (insKey acc x)
    simp only [mergeKeys, List.foldl_cons] at this ⊢
    rw [this, mem_insKey]; simp only [List.mem_cons]; grind

theorem mergeKeys_insKey (acc b : List Nat) (x : Nat) : mergeKeys acc (insKey b x) = insKey (mergeKeys acc b) x := by
  by_cases hx : x ∈ b
  · have hm : x ∈ mergeKeys acc b := (mem_mergeKeys acc b x).mpr (Or.inr hx)
    rw [show insKey b x = b from if_pos hx, show insKey (mergeKeys acc b) x = mergeKeys acc b from if_pos hm]
  · rw [show insKey b x = b ++ [x] from if_neg hx, mergeKeys_append]; rfl

/-- inserting an already de-duplicated list is inserting the list -/
theorem mergeKeys_mergeKeys (l : List Nat) : ∀ acc b : List Nat, mergeKeys acc (mergeKeys b l) = mergeKeys (mergeKeys acc b) l := by
  induction l with
  | nil => intro acc b; rfl
  | cons x r ih =>
    intro acc b
    have h1 : mergeKeys b (x :: r) = mergeKeys (insKey b x) r := rfl
    have h2 : mergeKeys (mergeKeys acc b) (x :: r) = mergeKeys (insKey (mergeKeys acc b) x) r := rfl
    rw [h1, h2, ih, mergeKeys_insKey]

theorem mergeKeys_dedup (acc l : List Nat) : mergeKeys acc (mergeKeys [] l) = mergeKeys acc l := by
  have := mergeKeys_mergeKeys l acc []
  simpa [mergeKeys] using this

/-! ### the parser's pairs and the specification's occurrences give the same key order -/

mutual
theorem Term.mergeKeys_flat : ∀ (t : Term) (m : Rat) (acc : List Nat),
    mergeKeys acc (Comp.keys t.flat) = mergeKeys acc (Comp.keys (t.occ m))
  | .elem z n st marks, m, acc => by simp [Term.flat, Term.occ, Comp.keys]
  | .group b body n st marks, m, acc => by
    simp only [Term.flat, Term.occ, keys_scale, keys_mergeComp]
    rw [mergeKeys_dedup]; exact Terms.mergeKeys_flat body _ acc
  | .cage body, m, acc => by
    simp only [Term.flat, Term.occ, keys_scale, keys_mergeComp]
    rw [mergeKeys_dedup]; exact Terms.mergeKeys_flat body _ acc
theorem Terms.mergeKeys_flat : ∀ (ts : Terms) (m : Rat) (acc : List Nat),
    mergeKeys acc (Comp.keys ts.flat) = mergeKeys acc (Comp.keys (ts.occ m))
  | .nil, m, acc => rfl
  | .cons t ts, m, acc => by
    simp only [Terms.flat, Terms.occ, keys_append, mergeKeys_append]
    rw [Term.mergeKeys_flat t m acc, Terms.mergeKeys_flat ts m _]
end

theorem keys_partsTot (ps : List Part) (tot : Comp) :
    Comp.keys (partsTot tot ps) = mergeKeys (Comp.keys tot) (Comp.keys (ps.flatMap (fun p => p.terms.occ p.mult))) := by
  induction ps generalizing tot with
  | nil => simp [partsTot, mergeKeys, Comp.keys]
  | cons p qs ih =>
    have := ih (addScaled p.mult tot (mergeComp p.terms.flat))
    simp only [partsTot, List.foldl_cons, List.flatMap_cons] at this ⊢
    rw [this, keys_addScaled, keys_mergeComp, mergeKeys_dedup, keys_append, mergeKeys_append,
      Terms.mergeKeys_flat p.terms p.mult]


/-! ### the returned dict IS the specification's dict -/

theorem keys_setKey (k : Nat) (v : Rat) (c : Comp) : Comp.keys (setKey k v c) = insKey (Comp.keys c) k := by
  induction c with
  | nil => simp [setKey, Comp.keys, insKey]
  | cons p ps ih =>
    obtain ⟨a, b⟩ := p
    simp only [setKey]
    by_cases h : a = k
    · subst h; simp [insKey, keys_cons]
    · rw [if_neg h, keys_cons, ih, keys_cons]
      simp only [insKey, List.mem_cons]
      have hk : ¬ k = a := fun e => h e.symm
      by_cases hm : k ∈ Comp.keys ps <;> simp [hm, hk]

/-- `Agrees` for any accumulated dict with the right totals / keys (generalises `agrees_finish`) -/
theorem agrees_finish_of (f : Formula) (h : f.WFd) (T : Comp)
    (hT_total : ∀ k, total T k = total f.occurrences k)
    (hT_keys : ∀ k, k ∈ Comp.keys T ↔ k ∈ Comp.keys f.occurrences)
    (hT_nodup : (Comp.keys T).Nodup) : Agrees f (finish f.charge T) := by
  have hpos : ∀ k ∈ Comp.keys f.occurrences, 1 ≤ k := fun k hk => (occ_keys_pos f.parts h.parts k hk).1
  have h0 : 0 ∉ Comp.keys T := by
    intro hc; have := hpos 0 ((hT_keys 0).mp hc); omega
  cases hc : f.charge with
  | none =>
    simp only [finish]
    refine ⟨hT_nodup, ?_, ?_, fun k hk => get?_none _ k hk⟩
    · intro k; rw [hT_keys]; simp [hc]
    · intro k hk
      rw [get?_some _ k hT_nodup hk, hT_total]
      have : k ≠ 0 := by have := hpos k ((hT_keys k).mp hk); omega
      simp [Formula.denote, this]
  | some ch =>
    simp only [finish]
    rw [setKey_not_mem 0 _ _ h0]
    have hkeys : Comp.keys (T ++ [(0, (ch.val : Rat))]) = Comp.keys T ++ [0] := by
      simp [Comp.keys]
    refine ⟨?_, ?_, ?_, fun k hk => get?_none _ k hk⟩
    · rw [hkeys]
      apply List.nodup_append.mpr
      refine ⟨hT_nodup, by simp, ?_⟩
      intro a ha b hb; simp at hb; subst hb
      intro e; subst e; exact h0 ha
    · intro k; rw [hkeys, List.mem_append, hT_keys]; simp [hc]
    · intro k hk
      rw [hkeys, List.mem_append] at hk
      by_cases hk0 : k ∈ Comp.keys T
      · rw [get?_append_mem _ _ k hk0, get?_some _ k hT_nodup hk0, hT_total]
        have : k ≠ 0 := by have := hpos k ((hT_keys k).mp hk0); omega
        simp [Formula.denote, this]
      · have : k = 0 := by rcases hk with hk | hk; exact absurd hk hk0; simpa using hk
        subst this
        rw [get?_append_not_mem _ _ 0 hk0]
        simp [Comp.get?, Formula.denote, hc]

theorem composition_eq_finish (f : Formula) : f.composition = finish f.charge (mergeComp f.occurrences) := by
  unfold Formula.composition finish
  cases f.charge <;> rfl

/-- the specification's own dict agrees with the denotation -/
theorem agrees_composition (f : Formula) (h : f.WFd) : Agrees f f.composition := by
  rw [composition_eq_finish]
  exact agrees_finish_of f h _ (fun k => total_mergeComp _ k) (fun k => mem_keys_mergeComp _ k) (nodup_mergeComp _)

/-- two dicts with the same key list (no duplicates) and the same lookups are the same list -/
theorem comp_ext : ∀ (a b : Comp), Comp.keys a = Comp.keys b → (Comp.keys a).Nodup →
    (∀ k, Comp.get? a k = Comp.get? b k) → a = b
  | [], [], _, _, _ => rfl
  | [], _ :: _, hk, _, _ => by simp [Comp.keys] at hk
  | _ :: _, [], hk, _, _ => by simp [Comp.keys] at hk
  | (k, v) :: a', (k', v') :: b', hk, hn, hg => by
    simp only [keys_cons, List.cons.injEq] at hk
    obtain ⟨e, hk'⟩ := hk
    subst e
    simp only [keys_cons, List.nodup_cons] at hn
    have hv : v = v' := by
      have := hg k
      simpa [Comp.get?] using this
    subst hv
    have : a' = b' := by
      apply comp_ext a' b' hk' hn.2
      intro j
      by_cases hj : k = j
      · subst hj
        rw [get?_none a' k hn.1, get?_none b' k (by rw [← hk']; exact hn.1)]
      · have := hg j
        simpa [Comp.get?, hj] using this
    rw [this]

theorem agrees_get? {f : Formula} {c : Comp} (h : Agrees f c) (k : Nat) :
    Comp.get? c k = if k ∈ Comp.keys f.occurrences ∨ (k = 0 ∧ f.charge.isSome = true) then some (f.denote k) else none := by
  by_cases hk : k ∈ Comp.keys c
  · rw [if_pos ((h.keys k).mp hk)]; exact h.value k hk
  · rw [if_neg (fun h' => hk ((h.keys k).mpr h'))]; exact h.absent k hk

theorem keys_finish_partsTot (f : Formula) :
    Comp.keys (finish f.charge (partsTot [] f.parts)) = Comp.keys f.composition := by
  rw [composition_eq_finish]
  have hT : Comp.keys (partsTot [] f.parts) = Comp.keys (mergeComp f.occurrences) := by
    rw [keys_partsTot, keys_mergeComp]; rfl
  unfold finish
  cases f.charge with
  | none => exact hT
  | some ch => simp only [keys_setKey, hT]

/-- **exact round trip**: parsing the rendering of a well-formed formula returns the specification's dict itself -/
theorem roundtrip_exact (f : Formula) (h : f.WF) : formulaToComposition f.renderStr = .ok f.composition := by
  have hd := Formula.wfd f h
  have hr : formulaToComposition f.renderStr = .ok (finish f.charge (partsTot [] f.parts)) := by
    simp only [formulaToComposition, Formula.renderStr, String.toList_ofList]
    exact formulaToCompositionL_render f hd (noSuffixEnd_of_wf f hd)
  have ha := agrees_finish f hd
  have hb := agrees_composition f hd
  rw [hr]
  congr 1
  exact comp_ext _ _ (keys_finish_partsTot f) ha.nodup (fun k => by rw [agrees_get? ha k, agrees_get? hb k])

end ChemModel.Formula
