/-
C01: the round-trip statement assembled from the layers
(`formulaToCompositionL (render f)` = the accumulated dict, whose entries are the denotation of `f`).
-/
import ChemModel.Proofs.FormulaSound

set_option linter.constructorNameAsVariable false

namespace ChemModel.Formula
open ChemModel.Gen

theorem get?_append_mem (a b : Comp) (k : Nat) (h : k ∈ Comp.keys a) : Comp.get? (a ++ b) k = Comp.get? a k := by
  induction a with
  | nil => simp [Comp.keys] at h
  | cons p ps ih =>
    obtain ⟨x, y⟩ := p
    simp only [List.cons_append, Comp.get?]
    by_cases e : x = k
    · simp [e]
    · simp only [keys_cons, List.mem_cons] at h
      rw [if_neg e, if_neg e]
      exact ih (by rcases h with h | h; exact absurd h.symm e; exact h)

theorem get?_append_not_mem (a b : Comp) (k : Nat) (h : k ∉ Comp.keys a) : Comp.get? (a ++ b) k = Comp.get? b k := by
  induction a with
  | nil => rfl
  | cons p ps ih =>
    obtain ⟨x, y⟩ := p
    simp only [keys_cons, List.mem_cons, not_or] at h
    simp only [List.cons_append, Comp.get?]
    rw [if_neg (fun e => h.1 e.symm)]
    exact ih h.2

/-- `c` is, as a dict, exactly the denotation of `f`:
    no duplicate keys; its keys are the occurring elements plus 0 iff a charge is written;
    every entry equals `denote f k`; nothing else is present. -/
structure Agrees (f : Formula) (c : Comp) : Prop where
  nodup : (Comp.keys c).Nodup
  keys : ∀ k, k ∈ Comp.keys c ↔ (k ∈ Comp.keys f.occurrences ∨ (k = 0 ∧ f.charge.isSome = true))
  value : ∀ k, k ∈ Comp.keys c → Comp.get? c k = some (f.denote k)
  absent : ∀ k, k ∉ Comp.keys c → Comp.get? c k = none

theorem agrees_finish (f : Formula) (h : f.WFd) : Agrees f (finish f.charge (partsTot [] f.parts)) := by
  have hT_total : ∀ k, total (partsTot [] f.parts) k = total f.occurrences k := by
    intro k; rw [total_partsTot]; simp only [total, Formula.occurrences]; grind
  have hT_keys : ∀ k, k ∈ Comp.keys (partsTot [] f.parts) ↔ k ∈ Comp.keys f.occurrences := by
    intro k; rw [mem_keys_partsTot]; simp [Comp.keys, Formula.occurrences]
  have hT_nodup : (Comp.keys (partsTot [] f.parts)).Nodup := nodup_partsTot _ _ (by simp [Comp.keys])
  have hpos : ∀ k ∈ Comp.keys f.occurrences, 1 ≤ k := fun k hk => (occ_keys_pos f.parts h.parts k hk).1
  have h0 : 0 ∉ Comp.keys (partsTot [] f.parts) := by
    intro hc; have := hpos 0 ((hT_keys 0).mp hc); omega
  cases hc : f.charge with
  | none =>
    simp only [finish]
    refine ⟨hT_nodup, ?_, ?_, fun k hk => get?_none _ k hk⟩
    · intro k; rw [hT_keys]; simp [hc]
    · intro k hk
      rw [get?_some _ k hT_nodup hk, hT_total]
      have : k ≠ 0 := by have := hpos k ((hT_keys k).mp hk); omega
      simp [Formula.denote, this]
  | some ch =>
    simp only [finish]
    rw [setKey_not_mem 0 _ _ h0]
    have hkeys : Comp.keys (partsTot [] f.parts ++ [(0, (ch.val : Rat))]) = Comp.keys (partsTot [] f.parts) ++ [0] := by
      simp [Comp.keys]
    refine ⟨?_, ?_, ?_, fun k hk => get?_none _ k hk⟩
    · rw [hkeys]
      apply List.nodup_append.mpr
      refine ⟨hT_nodup, by simp, ?_⟩
      intro a ha b hb; simp at hb; subst hb
      intro e; subst e; exact h0 ha
    · intro k; rw [hkeys, List.mem_append, hT_keys]; simp [hc]
    · intro k hk
      rw [hkeys, List.mem_append] at hk
      by_cases hk0 : k ∈ Comp.keys (partsTot [] f.parts)
      · rw [get?_append_mem _ _ k hk0, get?_some _ k hT_nodup hk0, hT_total]
        have : k ≠ 0 := by have := hpos k ((hT_keys k).mp hk0); omega
        simp [Formula.denote, this]
      · have : k = 0 := by rcases hk with hk | hk; exact absurd hk hk0; simpa using hk
        subst this
        rw [get?_append_not_mem _ _ 0 hk0]
        simp [Comp.get?, Formula.denote, hc]

/-- the round trip for every well-formed formula whose text before the suffix does not end in a suffix -/
theorem roundtrip_core (f : Formula) (h : f.WF) (hsfx : NoSuffixEnd f) :
    ∃ c, formulaToComposition f.renderStr = .ok c ∧ Agrees f c := by
  have hd := Formula.wfd f h
  refine ⟨finish f.charge (partsTot [] f.parts), ?_, agrees_finish f hd⟩
  simp only [formulaToComposition, Formula.renderStr, String.toList_ofList]
  exact formulaToCompositionL_render f hd hsfx

end ChemModel.Formula
