/-
C01 helper lemmas, rejection direction at the level of the whole input string:
* error propagation: a hydrate part that the grammar rejects makes `formula_to_composition` fail;
* the shape of every accepted input: prefixes ++ parts joined by separators ++ charge ++ suffixes,
  from which bracket balance and capitalised-token correctness of the WHOLE string follow.
-/
import ChemModel.Proofs.FormulaReject3

set_option linter.constructorNameAsVariable false

namespace ChemModel.Formula
open ChemModel.Gen

/-! ### error propagation through the part loop -/

/-- the hydrate-part split of the stoichiometry token -/
def splitStoich (a : List Char) : List Char × List (List Char) :=
  if a.contains '·' then splitChar '·' a else splitDD a

theorem stoichToComp_eq (a : List Char) :
    stoichToComp a = match parseStoich (splitStoich a).1 with
      | .error e => .error e
      | .ok c0 => restLoop (addScaled 1 [] c0) (splitStoich a).2 := by
  unfold stoichToComp splitStoich
  generalize (if a.contains '·' then splitChar '·' a else splitDD a) = sp
  obtain ⟨p0, ps⟩ := sp
  rfl

/-- the texts the model hands to the grammar for input `s` (after its own peeling of prefixes, suffixes and charge):
    the first hydrate part as it is, the others without their leading integer -/
def hydrateParts (s : List Char) : List (List Char) :=
  match formulaToParts prefixesL suffixesL s with
  | .error _ => []
  | .ok pts => (splitStoich pts.stoich).1 :: (splitStoich pts.stoich).2.map (fun p => (getLeadingInteger p).2)

theorem stoichToComp_ok_parts (a : List Char) (c : Comp) (h : stoichToComp a = .ok c) :
    (∃ c0, parseStoich (splitStoich a).1 = .ok c0) ∧
    ∀ p ∈ (splitStoich a).2, ∃ c', parseStoich (getLeadingInteger p).2 = .ok c' := by
  rw [stoichToComp_eq] at h
  cases h0 : parseStoich (splitStoich a).1 with
  | error e => rw [h0] at h; simp at h
  | ok c0 =>
    rw [h0] at h
    simp only at h
    exact ⟨⟨c0, rfl⟩, restLoop_ok_all _ _ c h⟩

theorem formulaToCompositionL_ok (s : List Char) (c : Comp) (h : formulaToCompositionL s = .ok c) :
    ∃ pts tot, formulaToParts prefixesL suffixesL s = .ok pts ∧ stoichToComp pts.stoich = .ok tot ∧
      (pts.chg = none ∨ ∃ chg q, pts.chg = some chg ∧ getCharge chg = .ok q) := by
  simp only [formulaToCompositionL, formulaToCompositionWith] at h
  cases hp : formulaToParts prefixesL suffixesL s with
  | error e => rw [hp] at h; simp at h
  | ok pts =>
    rw [hp] at h
    simp only at h
    cases hs : stoichToComp pts.stoich with
    | error e => rw [hs] at h; simp at h
    | ok tot =>
      rw [hs] at h
      simp only at h
      refine ⟨pts, tot, rfl, hs, ?_⟩
      cases hc : pts.chg with
      | none => exact Or.inl (by first | rfl | exact hc)
      | some chg =>
        right
        rw [hc] at h
        simp only at h
        cases hg : getCharge chg with
        | error e => rw [hg] at h; simp at h
        | ok q => exact ⟨chg, q, (by first | rfl | exact hc), (by first | rfl | exact hg)⟩

/-- if the grammar rejects one of the hydrate parts of the input, the whole parse is an error -/
theorem part_rejected (s : List Char) (p : List Char) (hp : p ∈ hydrateParts s) (hrej : ∀ c, parseStoich p ≠ .ok c) :
    ∃ e, formulaToCompositionL s = .error e := by
  cases hr : formulaToCompositionL s with
  | error e => exact ⟨e, rfl⟩
  | ok c =>
    exfalso
    obtain ⟨pts, tot, h1, h2, _⟩ := formulaToCompositionL_ok s c hr
    obtain ⟨⟨c0, h0⟩, hall⟩ := stoichToComp_ok_parts _ _ h2
    simp only [hydrateParts, h1, List.mem_cons, List.mem_map] at hp
    rcases hp with e | ⟨q, hq, e⟩
    · subst e; exact hrej c0 h0
    · subst e; obtain ⟨c', hc'⟩ := hall q hq; exact hrej c' hc'

end ChemModel.Formula

namespace ChemModel.Formula
open ChemModel.Gen

/-! ### what the outer layers strip and split (specifications of the string functions) -/

theorem isPrefixOf_true {a b : List Char} (h : a.isPrefixOf b = true) : a ++ b.drop a.length = b :=
  List.prefix_iff_eq_append.mp (List.isPrefixOf_iff_prefix.mp h)

theorem stripPrefixes_spec (ps : List (List Char)) : ∀ s : List Char,
    s = (stripPrefixes ps s).1.flatten ++ (stripPrefixes ps s).2 ∧ ∀ p ∈ (stripPrefixes ps s).1, p ∈ ps := by
  induction ps with
  | nil => intro s; simp [stripPrefixes]
  | cons p ps ih =>
    intro s
    simp only [stripPrefixes]
    by_cases h : p.isPrefixOf s = true
    · simp only [h, if_true]
      obtain ⟨h1, h2⟩ := ih (s.drop p.length)
      refine ⟨?_, ?_⟩
      · simp only [List.flatten_cons, List.append_assoc]
        rw [← h1]; exact (isPrefixOf_true h).symm
      · intro q hq
        rcases List.mem_cons.mp hq with e | e
        · subst e; simp
        · exact List.mem_cons_of_mem _ (h2 q e)
    · simp only [h]
      obtain ⟨h1, h2⟩ := ih s
      exact ⟨h1, fun q hq => List.mem_cons_of_mem _ (h2 q hq)⟩

theorem stripSuffixes_spec (ss : List (List Char)) (hne : ∀ p ∈ ss, p ≠ []) : ∀ s : List Char,
    ∃ T : List (List Char), s = (stripSuffixes ss s).2 ++ T.flatten ∧ ∀ t ∈ T, t ∈ ss := by
  induction ss with
  | nil => intro s; exact ⟨[], by simp [stripSuffixes], by simp⟩
  | cons p ps ih =>
    intro s
    have ih' := ih (fun q hq => hne q (List.mem_cons_of_mem _ hq))
    simp only [stripSuffixes]
    by_cases h : p.isSuffixOf s = true
    · have hp : p.length ≠ 0 := by
        have := hne p (by simp); simpa using this
      simp only [h, if_true, if_neg hp]
      have hs : s.take (s.length - p.length) ++ p = s :=
        List.suffix_iff_eq_append.mp (List.isSuffixOf_iff_suffix.mp h)
      obtain ⟨T, h1, h2⟩ := ih' (s.take (s.length - p.length))
      refine ⟨T ++ [p], ?_, ?_⟩
      · simp only [List.flatten_append, List.flatten_cons, List.flatten_nil, List.append_nil, ← List.append_assoc]
        rw [← h1]; exact hs.symm
      · intro t ht
        rcases List.mem_append.mp ht with e | e
        · exact List.mem_cons_of_mem _ (h2 t e)
        · simp at e; subst e; simp
    · simp only [h]
      obtain ⟨T, h1, h2⟩ := ih' s
      exact ⟨T, h1, fun t ht => List.mem_cons_of_mem _ (h2 t ht)⟩

def chgText : Option (List Char) → List Char
  | none => []
  | some c => c

theorem suffixes_nonempty : ∀ p ∈ suffixesL, p ≠ [] := by decide +kernel

/-- an accepted split: input = stripped prefixes ++ stoichiometry token ++ charge token ++ stripped suffixes -/
theorem formulaToParts_spec (s : List Char) (pts : Parts) (h : formulaToParts prefixesL suffixesL s = .ok pts) :
    ∃ (dp T : List (List Char)), s = dp.flatten ++ ((pts.stoich ++ chgText pts.chg) ++ T.flatten) ∧
      (∀ p ∈ dp, p ∈ prefixesL) ∧ (∀ t ∈ T, t ∈ suffixesL) ∧
      (pts.chg = none ∨ (∃ b, pts.chg = some ('+' :: b)) ∨ (∃ b, pts.chg = some ('-' :: b))) := by
  obtain ⟨hp1, hp2⟩ := stripPrefixes_spec prefixesL s
  simp only [formulaToParts] at h
  cases hsp : stripPrefixes prefixesL s with
  | mk dp s1 =>
    rw [hsp] at h hp1 hp2
    simp only at h hp1 hp2
    obtain ⟨T, ht1, ht2⟩ := stripSuffixes_spec suffixesL suffixes_nonempty s1
    cases hss : stripSuffixes suffixesL s1 with
    | mk ds s2 =>
      rw [hss] at h ht1
      simp only at h ht1
      have hs : ∀ x : List Char, s2 = x → s = dp.flatten ++ (x ++ T.flatten) := by
        intro x hx; rw [hp1, ht1, hx]
      split at h
      · simp at h
      · split at h
        · split at h
          · simp at h
          · rename_i hpl _
            have hmem : '+' ∈ s2 := by simpa using hpl
            have hspec := splitAtChar_spec '+' s2 hmem
            cases hsa : splitAtChar '+' s2 with
            | mk a b =>
              rw [hsa] at h hspec
              simp only at h hspec
              simp only [Except.ok.injEq] at h
              subst h
              exact ⟨dp, T, hs _ (by simpa [chgText] using hspec), hp2, ht2, Or.inr (Or.inl ⟨b, rfl⟩)⟩
        · split at h
          · split at h
            · simp at h
            · rename_i hmi _
              have hmem : '-' ∈ s2 := by simpa using hmi
              have hspec := splitAtChar_spec '-' s2 hmem
              cases hsa : splitAtChar '-' s2 with
              | mk a b =>
                rw [hsa] at h hspec
                simp only at h hspec
                simp only [Except.ok.injEq] at h
                subst h
                exact ⟨dp, T, hs _ (by simpa [chgText] using hspec), hp2, ht2, Or.inr (Or.inr ⟨b, rfl⟩)⟩
          · simp only [Except.ok.injEq] at h
            subst h
            exact ⟨dp, T, hs _ (by simp [chgText]), hp2, ht2, Or.inl rfl⟩

/-- characters of an accepted charge number: ASCII digits, `_`, ASCII whitespace (what `int()` tolerates) -/
def IntC (c : Char) : Prop := c.isDigit = true ∨ c = '_' ∨ isPySpace c = true

theorem dropSpaces_spec (s : List Char) : ∃ w, s = w ++ dropSpaces s ∧ ∀ c ∈ w, isPySpace c = true := by
  induction s with
  | nil => exact ⟨[], rfl, by simp⟩
  | cons c r ih =>
    by_cases hc : isPySpace c = true
    · obtain ⟨w, hw, hall⟩ := ih
      refine ⟨c :: w, by simp [dropSpaces, hc, ← hw], ?_⟩
      intro d hd; rcases List.mem_cons.mp hd with e | e
      · subst e; exact hc
      · exact hall d e
    · exact ⟨[], by simp [dropSpaces, hc], by simp⟩

theorem stripPy_spec (s : List Char) :
    ∃ w1 w2, s = w1 ++ (stripPy s ++ w2) ∧ (∀ c ∈ w1, isPySpace c = true) ∧ (∀ c ∈ w2, isPySpace c = true) := by
  obtain ⟨w1, h1, a1⟩ := dropSpaces_spec s
  obtain ⟨w2, h2, a2⟩ := dropSpaces_spec (dropSpaces s).reverse
  refine ⟨w1, w2.reverse, ?_, a1, fun c hc => a2 c (by simpa using hc)⟩
  have : dropSpaces s = (dropSpaces (dropSpaces s).reverse).reverse ++ w2.reverse := by
    have := congrArg List.reverse h2
    simpa using this
  unfold stripPy
  rw [← this]; exact h1

theorem intDigits_chars : ∀ (fuel : Nat) (t ds : List Char), intDigits fuel t = some ds →
    ∀ c ∈ t, c.isDigit = true ∨ c = '_' := by
  intro fuel
  induction fuel with
  | zero => intro t ds h; simp [intDigits] at h
  | succ f ih =>
    intro t ds h c hc
    obtain ⟨h1, hd1⟩ := takeDigits_spec t
    simp only [intDigits] at h
    split at h
    · simp at h
    · rw [h1] at hc
      rcases List.mem_append.mp hc with e | e
      · exact Or.inl (hd1 c e)
      · split at h
        · rename_i heq; rw [heq] at e; simp at e
        · rename_i r' heq
          rw [heq] at e
          rcases List.mem_cons.mp e with e' | e'
          · exact Or.inr e'
          · cases hr : intDigits f r' with
            | none => rw [hr] at h; simp at h
            | some ds' => exact ih r' ds' hr c e'
        · simp at h

theorem pyInt_chars (s : List Char) (n : Nat) (h : pyInt s = some n) : ∀ c ∈ s, IntC c := by
  simp only [pyInt, Option.map_eq_some_iff] at h
  obtain ⟨ds, hds, _⟩ := h
  obtain ⟨w1, w2, hs, a1, a2⟩ := stripPy_spec s
  intro c hc
  rw [hs] at hc
  rcases List.mem_append.mp hc with e | e
  · exact Or.inr (Or.inr (a1 c e))
  · rcases List.mem_append.mp e with e | e
    · rcases intDigits_chars _ _ _ hds c e with d | d
      · exact Or.inl d
      · exact Or.inr (Or.inl d)
    · exact Or.inr (Or.inr (a2 c e))

/-- an accepted charge token is a sign followed by what `int()` tolerates: ASCII digits, `_`, ASCII whitespace -/
theorem chargeStep_ok (t a : Char) (sg : Int) (s : List Char) (q : Int) (h : chargeStep t a sg s = some (.ok q)) :
    ∃ ds, s = t :: ds ∧ ∀ c ∈ ds, IntC c := by
  simp only [chargeStep] at h
  split at h
  · rename_i hc
    split at h
    · simp at h
    · split at h
      · simp at h
      · have hmem : t ∈ s := by simpa using hc
        have hspec := splitAtChar_spec t s hmem
        cases hsa : splitAtChar t s with
        | mk before after =>
          rw [hsa] at h hspec
          simp only at h hspec
          split at h
          · simp at h
          · rename_i hnb
            split at h
            · rename_i hal
              cases hpi : pyInt after with
              | none => rw [hpi] at h; simp at h
              | some n =>
                have hb : before = [] := by
                  cases before with
                  | nil => rfl
                  | cons x xs => exact absurd ⟨by simp, hal⟩ hnb
                subst hb
                exact ⟨after, by simpa using hspec, pyInt_chars after n hpi⟩
            · simp at h
  · simp at h

/-- characters of an accepted charge token -/
def ChgC (c : Char) : Prop := c = '+' ∨ c = '-' ∨ IntC c

theorem getCharge_ok_chars (s : List Char) (q : Int) (h : getCharge s = .ok q) : ∀ c ∈ s, ChgC c := by
  simp only [getCharge] at h
  split at h
  · rename_i e; subst e; intro c hc; simp at hc; exact Or.inl hc
  · split at h
    · rename_i e; subst e; intro c hc; simp at hc; exact Or.inr (Or.inl hc)
    · cases h1 : chargeStep '+' '-' 1 s with
      | some r =>
        rw [h1] at h
        simp only at h
        subst h
        obtain ⟨ds, e, hd⟩ := chargeStep_ok _ _ _ _ _ h1
        subst e
        intro c hc
        rcases List.mem_cons.mp hc with e | e
        · exact Or.inl e
        · exact Or.inr (Or.inr (hd c e))
      | none =>
        rw [h1] at h
        simp only at h
        cases h2 : chargeStep '-' '+' (-1) s with
        | some r =>
          rw [h2] at h
          simp only at h
          subst h
          obtain ⟨ds, e, hd⟩ := chargeStep_ok _ _ _ _ _ h2
          subst e
          intro c hc
          rcases List.mem_cons.mp hc with e | e
          · exact Or.inr (Or.inl e)
          · exact Or.inr (Or.inr (hd c e))
        | none => rw [h2] at h; simp at h

/-- pieces joined by a separator -/
def joinWith (sep : List Char) : List Char → List (List Char) → List Char
  | p, [] => p
  | p, q :: qs => p ++ (sep ++ joinWith sep q qs)

theorem splitChar_join (c : Char) (s : List Char) : s = joinWith [c] (splitChar c s).1 (splitChar c s).2 := by
  induction s with
  | nil => rfl
  | cons x r ih =>
    simp only [splitChar]
    by_cases hx : x = c
    · subst hx
      simp only [if_true, joinWith, List.nil_append, List.singleton_append]
      rw [← ih]
    · simp only [hx, if_false]
      cases hps : (splitChar c r).2 with
      | nil => rw [hps] at ih; simp only [joinWith] at ih ⊢; rw [← ih]
      | cons q qs => rw [hps] at ih; simp only [joinWith, List.cons_append] at ih ⊢; rw [← ih]

theorem splitDD_join : ∀ (n : Nat) (s : List Char), s.length ≤ n →
    s = joinWith ['.', '.'] (splitDD s).1 (splitDD s).2 := by
  intro n
  induction n with
  | zero => intro s hl; cases s with
    | nil => rfl
    | cons _ _ => simp at hl
  | succ n ih =>
    intro s hl
    cases s with
    | nil => rfl
    | cons c r =>
      by_cases hdd : c = '.' ∧ ∃ r', r = '.' :: r'
      · obtain ⟨hc, r', hr⟩ := hdd
        subst hc; subst hr
        rw [splitDD_dd]
        simp only [joinWith, List.nil_append, List.cons_append]
        rw [← ih r' (by simp at hl; omega)]
      · have hstep : splitDD (c :: r) = (c :: (splitDD r).1, (splitDD r).2) := by
          rw [splitDD.eq_3 c r (fun r1 h1 h2 => hdd ⟨h1, r1, h2⟩)]
        rw [hstep]
        have ihr := ih r (by simp at hl; omega)
        cases hps : (splitDD r).2 with
        | nil => rw [hps] at ihr; simp only [joinWith] at ihr ⊢; rw [← ihr]
        | cons q qs => rw [hps] at ihr; simp only [joinWith, List.cons_append] at ihr ⊢; rw [← ihr]

theorem getLeadingInteger_spec (p : List Char) :
    ∃ ds, p = ds ++ (getLeadingInteger p).2 ∧ ∀ c ∈ ds, c.isDigit = true := by
  obtain ⟨h1, h2⟩ := takeDigits_spec p
  simp only [getLeadingInteger]
  split
  · exact ⟨[], rfl, by simp⟩
  · exact ⟨(takeDigits p).1, h1, h2⟩

/-- separator of the hydrate split actually used for `a` -/
def sepOf (a : List Char) : List Char := if a.contains '·' then ['·'] else ['.', '.']

theorem splitStoich_join (a : List Char) : a = joinWith (sepOf a) (splitStoich a).1 (splitStoich a).2 := by
  unfold sepOf splitStoich
  split
  · exact splitChar_join '·' a
  · exact splitDD_join a.length a (Nat.le_refl _)

/-! ### unit properties for the two scans -/

/-- scanning `u` leaves the bracket stack unchanged -/
def BalUnit (u : List Char) : Prop := ∀ st r, balScan st (u ++ r) = balScan st r

theorem BalUnit.append {a b : List Char} (ha : BalUnit a) (hb : BalUnit b) : BalUnit (a ++ b) := by
  intro st r; rw [List.append_assoc, ha, hb]

theorem balUnit_nil : BalUnit [] := fun _ _ => rfl
theorem balUnit_plain {w : List Char} (h : ∀ c ∈ w, Plain c) : BalUnit w := fun st r => balScan_plains st w r h

theorem balUnit_flatten {L : List (List Char)} (h : ∀ u ∈ L, BalUnit u) : BalUnit L.flatten := by
  induction L with
  | nil => exact balUnit_nil
  | cons u us ih =>
    simp only [List.flatten_cons]
    exact (h u (by simp)).append (ih (fun v hv => h v (by simp [hv])))

theorem balUnit_join (sep : List Char) (hsep : BalUnit sep) (p : List Char) (ps : List (List Char))
    (h : ∀ q ∈ p :: ps, BalUnit q) : BalUnit (joinWith sep p ps) := by
  induction ps generalizing p with
  | nil => simpa [joinWith] using h p (by simp)
  | cons q qs ih =>
    simp only [joinWith]
    exact (h p (by simp)).append (hsep.append (ih q (fun x hx => h x (by simp [hx]))))

/-- scanning `u` for capitalised tokens finds nothing wrong and ends outside a token, whenever no lowercase letter follows -/
def CapUnit (u : List Char) : Prop := ∀ r, NotLower r → capScan none (u ++ r) = capScan none r

theorem capUnit_skip {w : List Char} (h : ∀ c ∈ w, c.isUpper = false) : CapUnit w := fun r _ => capScan_skips w r h

theorem capUnit_join (sep : List Char) (c0 : Char) (sep' : List Char) (hs : sep = c0 :: sep') (hlow : c0.isLower = false)
    (hskip : ∀ c ∈ sep, c.isUpper = false) (p : List Char) (ps : List (List Char))
    (h : ∀ q ∈ p :: ps, CapUnit q) : CapUnit (joinWith sep p ps) := by
  induction ps generalizing p with
  | nil => simpa [joinWith] using h p (by simp)
  | cons q qs ih =>
    intro r hr
    simp only [joinWith, List.append_assoc]
    have hnl : NotLower (sep ++ (joinWith sep q qs ++ r)) := by
      intro d hd; rw [hs] at hd; simp at hd; subst hd; exact hlow
    rw [h p (by simp) _ hnl, capScan_skips sep _ hskip]
    exact ih q (fun x hx => h x (by simp [hx])) r hr

instance : DecidablePred Plain := fun _ => inferInstanceAs (Decidable (_ ∧ _))

/-- characters of the default prefixes: no brackets, no uppercase letters -/
theorem prefixes_chars : ∀ p ∈ prefixesL, ∀ c ∈ p, Plain c ∧ c.isUpper = false := by decide +kernel

/-- characters of the default suffixes: no uppercase letters -/
theorem suffixes_chars : ∀ p ∈ suffixesL, ∀ c ∈ p, c.isUpper = false := by decide +kernel

theorem lower_plain {c : Char} (h : c.isLower = true) : Plain c :=
  plain_avoids.alpha c (by simp [Char.isAlpha, h])

theorem suffix_balUnit (σ : List Char) (h : σ ∈ suffixesL) : BalUnit σ := by
  obtain ⟨w, rfl, _, hlow⟩ := suffix_shape_of_mem σ h
  intro st r
  have e : '(' :: (w ++ [')']) ++ r = '(' :: (w ++ (')' :: r)) := by simp
  rw [e]
  have h1 : balScan st ('(' :: (w ++ (')' :: r))) = balScan (')' :: st) (w ++ (')' :: r)) := by
    simp [balScan, closer]
  rw [h1, balScan_plains _ w _ (fun c hc => lower_plain (hlow c hc))]
  simp [balScan, closer, isCloserB]

theorem digit_plain {c : Char} (h : c.isDigit = true) : Plain c := plain_avoids.digit c h

/-- a hydrate part: leading digits, then the electron or accepted grammar text -/
def PieceOK (p : List Char) : Prop := ∃ ds body, p = ds ++ body ∧ (∀ c ∈ ds, c.isDigit = true) ∧ (body = ['e'] ∨ Acc body)

theorem pieceOK_balUnit {p : List Char} (h : PieceOK p) : BalUnit p := by
  obtain ⟨ds, body, rfl, hd, hb⟩ := h
  refine (balUnit_plain (fun c hc => digit_plain (hd c hc))).append ?_
  rcases hb with e | acc
  · subst e; exact balUnit_plain (by intro c hc; simp at hc; subst hc; exact plain_avoids.alpha _ (by decide))
  · exact fun st r => acc.balScan_eq st r

theorem pieceOK_capUnit {p : List Char} (h : PieceOK p) : CapUnit p := by
  obtain ⟨ds, body, rfl, hd, hb⟩ := h
  intro r hr
  rw [List.append_assoc, capScan_skips ds _ (fun c hc => notUpper_of_ne_alpha (digit_notAlpha (hd c hc)))]
  rcases hb with e | acc
  · subst e; exact capScan_skips ['e'] r (by intro c hc; simp at hc; subst hc; decide)
  · exact acc.capScan_eq r hr

/-- every hydrate part of an accepted stoichiometry token is well-shaped -/
theorem stoichToComp_pieces (a : List Char) (c : Comp) (h : stoichToComp a = .ok c) :
    ∀ q ∈ (splitStoich a).1 :: (splitStoich a).2, PieceOK q := by
  obtain ⟨⟨c0, h0⟩, hall⟩ := stoichToComp_ok_parts a c h
  intro q hq
  rcases List.mem_cons.mp hq with e | e
  · subst e; exact ⟨[], _, rfl, by simp, parseStoich_sound _ _ h0⟩
  · obtain ⟨c', hc'⟩ := hall q e
    obtain ⟨ds, hds, hd⟩ := getLeadingInteger_spec q
    exact ⟨ds, _, hds, hd, parseStoich_sound _ _ hc'⟩

theorem sepOf_facts (a : List Char) :
    (∀ c ∈ sepOf a, Plain c ∧ c.isUpper = false) ∧ ∃ c0 sep', sepOf a = c0 :: sep' ∧ c0.isLower = false := by
  unfold sepOf
  split
  · exact ⟨by decide, '·', [], rfl, by decide⟩
  · exact ⟨by decide, '.', ['.'], rfl, by decide⟩

/-! ### the whole accepted input is balanced and has only element symbols as capitalised tokens -/

theorem accepted_shape (s : List Char) (c : Comp) (h : formulaToCompositionL s = .ok c) :
    ∃ (dp T : List (List Char)) (a chg : List Char),
      s = dp.flatten ++ ((a ++ chg) ++ T.flatten) ∧ (∀ p ∈ dp, p ∈ prefixesL) ∧ (∀ t ∈ T, t ∈ suffixesL) ∧
      (∀ q ∈ (splitStoich a).1 :: (splitStoich a).2, PieceOK q) ∧
      (∀ x ∈ chg, ChgC x) := by
  obtain ⟨pts, tot, h1, h2, h3⟩ := formulaToCompositionL_ok s c h
  obtain ⟨dp, T, hs, hdp, hT, _⟩ := formulaToParts_spec s pts h1
  refine ⟨dp, T, pts.stoich, chgText pts.chg, hs, hdp, hT, stoichToComp_pieces _ _ h2, ?_⟩
  rcases h3 with e | ⟨chg, q, e, hq⟩
  · rw [e]; intro x hx; simp [chgText] at hx
  · rw [e]; exact getCharge_ok_chars chg q hq

theorem sign_digit_plain {x : Char} (h : ChgC x) : Plain x ∧ x.isUpper = false ∧ x.isLower = false := by
  have key : ∀ c : Char, (c = '+' ∨ c = '-' ∨ c = '_' ∨ c = ' ' ∨ c = '\t' ∨ c = '\n' ∨ c = '\r' ∨ c = '\x0b' ∨ c = '\x0c') →
      Plain c ∧ c.isUpper = false ∧ c.isLower = false := by
    intro c hc
    rcases hc with e | e | e | e | e | e | e | e | e <;> subst e <;>
      exact ⟨plain_of_ne (by decide) (by decide) (by decide) (by decide) (by decide) (by decide), by decide, by decide⟩
  rcases h with e | e | e | e | e
  · exact key x (Or.inl e)
  · exact key x (Or.inr (Or.inl e))
  · exact ⟨digit_plain e, notUpper_of_ne_alpha (digit_notAlpha e), isDigit_notLower x e⟩
  · exact key x (Or.inr (Or.inr (Or.inl e)))
  · have : x = ' ' ∨ x = '\t' ∨ x = '\n' ∨ x = '\r' ∨ x = '\x0b' ∨ x = '\x0c' := by
      simpa [isPySpace, or_assoc] using e
    exact key x (Or.inr (Or.inr (Or.inr this)))

/-- every accepted input has balanced, properly nested brackets -/
theorem accepted_balanced (s : List Char) (c : Comp) (h : formulaToCompositionL s = .ok c) : balanced s = true := by
  obtain ⟨dp, T, a, chg, hs, hdp, hT, hpieces, hchg⟩ := accepted_shape s c h
  have hsep := sepOf_facts a
  have ha : BalUnit a := by
    rw [splitStoich_join a]
    exact balUnit_join _ (balUnit_plain (fun c hc => (hsep.1 c hc).1)) _ _ (fun q hq => pieceOK_balUnit (hpieces q hq))
  have hall : BalUnit s := by
    rw [hs]
    exact (balUnit_flatten (fun p hp => balUnit_plain (fun c hc => (prefixes_chars p (hdp p hp) c hc).1))).append
      ((ha.append (balUnit_plain (fun x hx => (sign_digit_plain (hchg x hx)).1))).append
        (balUnit_flatten (fun t ht => suffix_balUnit t (hT t ht))))
  have := hall [] []
  simpa [balanced, balScan] using this

/-- every maximal capitalised token of an accepted input is an element symbol -/
theorem accepted_capTokensOK (s : List Char) (c : Comp) (h : formulaToCompositionL s = .ok c) : capTokensOK s = true := by
  obtain ⟨dp, T, a, chg, hs, hdp, hT, hpieces, hchg⟩ := accepted_shape s c h
  obtain ⟨hsep1, c0, sep', hsep2, hsep3⟩ := sepOf_facts a
  have ha : CapUnit a := by
    rw [splitStoich_join a]
    exact capUnit_join _ c0 sep' hsep2 hsep3 (fun c hc => (hsep1 c hc).2) _ _ (fun q hq => pieceOK_capUnit (hpieces q hq))
  have hTup : ∀ x ∈ T.flatten, x.isUpper = false := by
    intro x hx
    obtain ⟨t, ht, hxt⟩ := List.mem_flatten.mp hx
    exact suffixes_chars t (hT t ht) x hxt
  have hdpup : ∀ x ∈ dp.flatten, x.isUpper = false := by
    intro x hx
    obtain ⟨p, hp, hxp⟩ := List.mem_flatten.mp hx
    exact (prefixes_chars p (hdp p hp) x hxp).2
  have hrest : NotLower (chg ++ T.flatten) := by
    intro d hd
    cases chg with
    | cons x xs => simp at hd; subst hd; exact (sign_digit_plain (hchg _ (by simp))).2.2
    | nil =>
      simp only [List.nil_append] at hd
      cases T with
      | nil => simp at hd
      | cons t ts =>
        obtain ⟨w, e, _, _⟩ := suffix_shape_of_mem t (hT t (by simp))
        subst e; simp at hd; subst hd; decide
  have hrest_skip : ∀ x ∈ chg ++ T.flatten, x.isUpper = false := by
    intro x hx
    rcases List.mem_append.mp hx with e | e
    · exact (sign_digit_plain (hchg x e)).2.1
    · exact hTup x e
  unfold capTokensOK
  rw [hs, capScan_skips _ _ hdpup, List.append_assoc, ha _ hrest]
  have := capScan_skips (chg ++ T.flatten) [] hrest_skip
  simpa [capScan] using this

end ChemModel.Formula
