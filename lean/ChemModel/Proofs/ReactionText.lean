/-
Helper lemmas for C12 (reaction text).  Core Lean only.
-/
import ChemModel.Model.ReactionText

namespace ChemModel.ReactionText
open ChemModel.Gen

/-! ### guards: the separators the proofs are about are the ones in the source -/

theorem partSep_is : Printing.partSep = [';'] := by decide
theorem termSep_is : Printing.termSep = [' ', '+', ' '] := by decide
theorem lineEnd_is : Printing.lineEnd = ['\n'] := by decide
theorem floatMarkers_is : Printing.floatMarkers = ['.', 'e'] := by decide
theorem multiplicityRegex_is : Printing.multiplicityRegex = " \\* | ".toList := by decide
theorem termJoin_is : Printing.termJoin = [' ', '+', ' '] ∧ Printing.termJoinProd = [' ', '+', ' '] := by decide
theorem coeffSpace_is : Printing.coeffSpace = [' '] := by decide
theorem aroundArrow_is : Printing.aroundArrowL = [' '] ∧ Printing.aroundArrowR = [' '] := by decide
theorem paramSeparator_is : Printing.paramSeparator = [';', ' '] := by decide
theorem systemSep_is : Printing.systemLineSep = ['\n'] ∧ Printing.systemLineJoin = ['\n'] := by decide
theorem commentTokens_is : Printing.commentTokens = [['#']] := by decide

/-! ### prefix / infix -/

theorem isPrefixOf_nil_right {p : Str} : p.isPrefixOf [] = p.isEmpty := by
  cases p <;> rfl

theorem isPrefixOf_append_self (p r : Str) : p.isPrefixOf (p ++ r) = true := by
  induction p with
  | nil => simp [List.isPrefixOf]
  | cons a p ih => simp [List.isPrefixOf, ih]

/-- a prefix of `a ++ c :: b` is a prefix of `a`, or reaches the position of `c` -/
theorem isPrefixOf_append_cons {p a b : Str} {c : Char} (h : p.isPrefixOf (a ++ c :: b) = true) :
    p.isPrefixOf a = true ∨ c ∈ p := by
  induction p generalizing a with
  | nil => left; simp [List.isPrefixOf]
  | cons x p ih =>
    cases a with
    | nil =>
      simp only [List.nil_append, List.isPrefixOf, Bool.and_eq_true, beq_iff_eq] at h
      right; simp [h.1]
    | cons y a =>
      simp only [List.cons_append, List.isPrefixOf, Bool.and_eq_true, beq_iff_eq] at h
      rcases ih h.2 with h1 | h1
      · left; simp [List.isPrefixOf, h.1, h1]
      · right; simp [h1]

theorem isPrefixOf_of_append {p a b : Str} (h : p.isPrefixOf a = true) : p.isPrefixOf (a ++ b) = true := by
  induction p generalizing a with
  | nil => simp [List.isPrefixOf]
  | cons x p ih =>
    cases a with
    | nil => simp [List.isPrefixOf] at h
    | cons y a =>
      simp only [List.isPrefixOf, Bool.and_eq_true, beq_iff_eq] at h
      simp [List.isPrefixOf, h.1, ih h.2]

theorem isInfixB_cons (sep : Str) (c : Char) (cs : Str) :
    isInfixB sep (c :: cs) = (sep.isPrefixOf (c :: cs) || isInfixB sep cs) := rfl

theorem isInfixB_false_of_cons {sep : Str} {c : Char} {cs : Str} (h : isInfixB sep (c :: cs) = false) :
    isInfixB sep cs = false := by
  rw [isInfixB_cons, Bool.or_eq_false_iff] at h; exact h.2

theorem isInfixB_append_right {sep a : Str} (b : Str) (h : isInfixB sep a = true) : isInfixB sep (a ++ b) = true := by
  induction a with
  | nil =>
    cases sep with
    | nil => cases b <;> simp [isInfixB, List.isPrefixOf]
    | cons x s => simp [isInfixB, List.isPrefixOf] at h
  | cons c a ih =>
    rw [isInfixB_cons, Bool.or_eq_true] at h
    rw [List.cons_append, isInfixB_cons, Bool.or_eq_true]
    rcases h with h | h
    · left; exact isPrefixOf_of_append (a := c :: a) h
    · right; exact ih h

theorem isInfixB_append_left {sep b : Str} (a : Str) (h : isInfixB sep b = true) : isInfixB sep (a ++ b) = true := by
  induction a with
  | nil => exact h
  | cons c a ih => rw [List.cons_append, isInfixB_cons, ih, Bool.or_true]

theorem isInfixB_false_left {sep a b : Str} (h : isInfixB sep (a ++ b) = false) : isInfixB sep a = false := by
  cases h' : isInfixB sep a with
  | false => rfl
  | true => rw [isInfixB_append_right b h'] at h; exact h

theorem isInfixB_false_right {sep a b : Str} (h : isInfixB sep (a ++ b) = false) : isInfixB sep b = false := by
  cases h' : isInfixB sep b with
  | false => rfl
  | true => rw [isInfixB_append_left a h'] at h; exact h

/-- an occurrence of `sep` in `a ++ c :: b` with `c ∉ sep` lies in `a` or in `b` -/
theorem isInfixB_append_cons {sep a b : Str} {c : Char} (hc : c ∉ sep)
    (ha : isInfixB sep a = false) (hb : isInfixB sep b = false) : isInfixB sep (a ++ c :: b) = false := by
  induction a with
  | nil =>
    rw [List.nil_append, isInfixB_cons, hb, Bool.or_false]
    cases sep with
    | nil => simp [isInfixB, List.isPrefixOf] at ha
    | cons x s =>
      simp only [List.isPrefixOf, Bool.and_eq_false_iff, beq_eq_false_iff_ne]
      left; intro hx; exact hc (by simp [hx])
  | cons y a ih =>
    rw [isInfixB_cons, Bool.or_eq_false_iff] at ha
    rw [List.cons_append, isInfixB_cons, ih ha.2, Bool.or_false]
    cases hp : sep.isPrefixOf (y :: (a ++ c :: b)) with
    | false => rfl
    | true =>
      rcases isPrefixOf_append_cons (a := y :: a) hp with h1 | h1
      · rw [h1] at ha; exact absurd ha.1 (by simp)
      · exact absurd h1 hc

theorem isInfixB_false_of_not_mem {sep s : Str} (hsep : sep ≠ []) (h : ∀ c ∈ s, c ∉ sep) : isInfixB sep s = false := by
  induction s with
  | nil => cases sep with
    | nil => exact absurd rfl hsep
    | cons x t => rfl
  | cons c s ih =>
    rw [isInfixB_cons, ih (fun d hd => h d (by simp [hd])), Bool.or_false]
    cases sep with
    | nil => exact absurd rfl hsep
    | cons x t =>
      simp only [List.isPrefixOf, Bool.and_eq_false_iff, beq_eq_false_iff_ne]
      left; intro hx; exact h c (by simp) (by simp [hx])

theorem isPrefixOf_length_le {p s : Str} (h : p.isPrefixOf s = true) : p.length ≤ s.length := by
  induction p generalizing s with
  | nil => simp
  | cons x p ih =>
    cases s with
    | nil => simp [List.isPrefixOf] at h
    | cons y s =>
      simp only [List.isPrefixOf, Bool.and_eq_true] at h
      simpa using ih h.2

theorem isInfixB_false_of_short {sep s : Str} (h : s.length < sep.length) : isInfixB sep s = false := by
  induction s with
  | nil => cases sep with
    | nil => simp at h
    | cons x t => rfl
  | cons c s ih =>
    rw [isInfixB_cons, ih (by simp at h; omega), Bool.or_false]
    cases hp : sep.isPrefixOf (c :: s) with
    | false => rfl
    | true => have := isPrefixOf_length_le hp; omega

/-! ### `str.split(sep)` -/

theorem splitGo_skip (sep pre rest : Str) : splitGo sep (pre ++ rest) pre.length = splitGo sep rest 0 := by
  induction pre with
  | nil => rfl
  | cons c pre ih => simpa [splitGo] using ih

/-- no occurrence: one piece -/
theorem pySplit_none {sep s : Str} (h : isInfixB sep s = false) : pySplit sep s = [s] := by
  unfold pySplit
  induction s with
  | nil => rfl
  | cons c s ih =>
    rw [isInfixB_cons, Bool.or_eq_false_iff] at h
    simp only [splitGo, h.1, ih h.2, consHead]
    simp

/-- the leftmost occurrence of `sep` in `x ++ sep ++ rest` is the displayed one -/
theorem pySplit_first {sep x : Str} (rest : Str) (hsep : sep ≠ [])
    (h : isInfixB sep (x ++ sep.dropLast) = false) : pySplit sep (x ++ sep ++ rest) = x :: pySplit sep rest := by
  unfold pySplit
  induction x with
  | nil =>
    cases sep with
    | nil => exact absurd rfl hsep
    | cons a sep' =>
      have hp : (a :: sep').isPrefixOf (a :: sep' ++ rest) = true := isPrefixOf_append_self _ _
      simp only [List.nil_append, List.cons_append] at hp ⊢
      simp only [splitGo, hp, if_true, List.length_cons, Nat.add_sub_cancel]
      rw [splitGo_skip]
  | cons c x ih =>
    rw [List.cons_append, isInfixB_cons, Bool.or_eq_false_iff] at h
    have hnp : sep.isPrefixOf (c :: x ++ sep ++ rest) = false := by
      cases hp : sep.isPrefixOf (c :: x ++ sep ++ rest) with
      | false => rfl
      | true =>
        exfalso
        -- the prefix would fit into (c :: x) ++ sep.dropLast
        have hsplit : c :: x ++ sep ++ rest = (c :: x ++ sep.dropLast) ++ (sep.getLast hsep :: rest) := by
          conv => lhs; rw [← List.dropLast_append_getLast hsep]
          simp [List.append_assoc]
        rw [hsplit] at hp
        rcases isPrefixOf_append_cons hp with h1 | _
        · rw [List.cons_append] at h1; rw [h1] at h; exact absurd h.1 (by simp)
        · -- length argument: |sep| ≤ |c :: x ++ sep.dropLast|, so sep is a prefix of it
          have hlen : sep.length ≤ (c :: x ++ sep.dropLast).length := by
            simp [List.length_dropLast]; have := List.length_pos_of_ne_nil hsep; omega
          have : sep.isPrefixOf (c :: x ++ sep.dropLast) = true := by
            have h2 := List.isPrefixOf_iff_prefix.mp hp
            exact List.isPrefixOf_iff_prefix.mpr
              (List.prefix_of_prefix_length_le h2 (List.prefix_append _ _) hlen)
          rw [List.cons_append] at this; rw [this] at h; exact absurd h.1 (by simp)
    simp only [List.cons_append, List.append_assoc] at hnp ⊢
    simp only [splitGo, hnp]
    have := ih h.2
    simp only [List.append_assoc] at this
    simp [this, consHead]

end ChemModel.ReactionText
