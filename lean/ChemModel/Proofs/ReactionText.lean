/-
Helper lemmas for C12 (reaction text).  Core Lean only.
-/
import ChemModel.Model.ReactionText

namespace ChemModel.ReactionText
open ChemModel.Gen

/-! ### guards: the separators the proofs are about are the ones in the source -/

theorem partSep_is : Printing.partSep = [';'] := by decide
theorem termSep_is : Printing.termSep = [' ', '+', ' '] := by decide
theorem lineEnd_is : Printing.lineEnd = ['\n'] := by decide
theorem floatMarkers_is : Printing.floatMarkers = ['.', 'e'] := by decide
theorem multiplicityRegex_is : Printing.multiplicityRegex = " \\* | ".toList := by decide
theorem termJoin_is : Printing.termJoin = [' ', '+', ' '] ∧ Printing.termJoinProd = [' ', '+', ' '] := by decide
theorem coeffSpace_is : Printing.coeffSpace = [' '] := by decide
theorem aroundArrow_is : Printing.aroundArrowL = [' '] ∧ Printing.aroundArrowR = [' '] := by decide
theorem paramSeparator_is : Printing.paramSeparator = [';', ' '] := by decide
theorem systemSep_is : Printing.systemLineSep = ['\n'] ∧ Printing.systemLineJoin = ['\n'] := by decide
theorem commentTokens_is : Printing.commentTokens = [['#']] := by decide

/-! ### prefix / infix -/

theorem isPrefixOf_nil_right {p : Str} : p.isPrefixOf [] = p.isEmpty := by
  cases p <;> rfl

theorem isPrefixOf_append_self (p r : Str) : p.isPrefixOf (p ++ r) = true := by
  induction p with
  | nil => simp [List.isPrefixOf]
  | cons a p ih => simp [List.isPrefixOf, ih]

/-- a prefix of `a ++ c :: b` is a prefix of `a`, or reaches the position of `c` -/
theorem isPrefixOf_append_cons {p a b : Str} {c : Char} (h : p.isPrefixOf (a ++ c :: b) = true) :
    p.isPrefixOf a = true ∨ c ∈ p := by
  induction p generalizing a with
  | nil => left; simp [List.isPrefixOf]
  | cons x p ih =>
    cases a with
    | nil =>
      simp only [List.nil_append, List.isPrefixOf, Bool.and_eq_true, beq_iff_eq] at h
      right; simp [h.1]
    | cons y a =>
      simp only [List.cons_append, List.isPrefixOf, Bool.and_eq_true, beq_iff_eq] at h
      rcases ih h.2 with h1 | h1
      · left; simp [List.isPrefixOf, h.1, h1]
      · right; simp [h1]

theorem isPrefixOf_of_append {p a b : Str} (h : p.isPrefixOf a = true) : p.isPrefixOf (a ++ b) = true := by
  induction p generalizing a with
  | nil => simp [List.isPrefixOf]
  | cons x p ih =>
    cases a with
    | nil => simp [List.isPrefixOf] at h
    | cons y a =>
      simp only [List.isPrefixOf, Bool.and_eq_true, beq_iff_eq] at h
      simp [List.isPrefixOf, h.1, ih h.2]

theorem isInfixB_cons (sep : Str) (c : Char) (cs : Str) :
    isInfixB sep (c :: cs) = (sep.isPrefixOf (c :: cs) || isInfixB sep cs) := rfl

theorem isInfixB_false_of_cons {sep : Str} {c : Char} {cs : Str} (h : isInfixB sep (c :: cs) = false) :
    isInfixB sep cs = false := by
  rw [isInfixB_cons, Bool.or_eq_false_iff] at h; exact h.2

theorem isInfixB_append_right {sep a : Str} (b : Str) (h : isInfixB sep a = true) : isInfixB sep (a ++ b) = true := by
  induction a with
  | nil =>
    cases sep with
    | nil => cases b <;> simp [isInfixB, List.isPrefixOf]
    | cons x s => simp [isInfixB, List.isPrefixOf] at h
  | cons c a ih =>
    rw [isInfixB_cons, Bool.or_eq_true] at h
    rw [List.cons_append, isInfixB_cons, Bool.or_eq_true]
    rcases h with h | h
    · left; exact isPrefixOf_of_append (a := c :: a) h
    · right; exact ih h

theorem isInfixB_append_left {sep b : Str} (a : Str) (h : isInfixB sep b = true) : isInfixB sep (a ++ b) = true := by
  induction a with
  | nil => exact h
  | cons c a ih => rw [List.cons_append, isInfixB_cons, ih, Bool.or_true]

theorem isInfixB_false_left {sep a b : Str} (h : isInfixB sep (a ++ b) = false) : isInfixB sep a = false := by
  cases h' : isInfixB sep a with
  | false => rfl
  | true => rw [isInfixB_append_right b h'] at h; exact h

theorem isInfixB_false_right {sep a b : Str} (h : isInfixB sep (a ++ b) = false) : isInfixB sep b = false := by
  cases h' : isInfixB sep b with
  | false => rfl
  | true => rw [isInfixB_append_left a h'] at h; exact h

/-- an occurrence of `sep` in `a ++ c :: b` with `c ∉ sep` lies in `a` or in `b` -/
theorem isInfixB_append_cons {sep a b : Str} {c : Char} (hc : c ∉ sep)
    (ha : isInfixB sep a = false) (hb : isInfixB sep b = false) : isInfixB sep (a ++ c :: b) = false := by
  induction a with
  | nil =>
    rw [List.nil_append, isInfixB_cons, hb, Bool.or_false]
    cases sep with
    | nil => simp [isInfixB, List.isPrefixOf] at ha
    | cons x s =>
      simp only [List.isPrefixOf, Bool.and_eq_false_iff, beq_eq_false_iff_ne]
      left; intro hx; exact hc (by simp [hx])
  | cons y a ih =>
    rw [isInfixB_cons, Bool.or_eq_false_iff] at ha
    rw [List.cons_append, isInfixB_cons, ih ha.2, Bool.or_false]
    cases hp : sep.isPrefixOf (y :: (a ++ c :: b)) with
    | false => rfl
    | true =>
      rcases isPrefixOf_append_cons (a := y :: a) hp with h1 | h1
      · rw [h1] at ha; exact absurd ha.1 (by simp)
      · exact absurd h1 hc

theorem isInfixB_false_of_not_mem {sep s : Str} (hsep : sep ≠ []) (h : ∀ c ∈ s, c ∉ sep) : isInfixB sep s = false := by
  induction s with
  | nil => cases sep with
    | nil => exact absurd rfl hsep
    | cons x t => rfl
  | cons c s ih =>
    rw [isInfixB_cons, ih (fun d hd => h d (by simp [hd])), Bool.or_false]
    cases sep with
    | nil => exact absurd rfl hsep
    | cons x t =>
      simp only [List.isPrefixOf, Bool.and_eq_false_iff, beq_eq_false_iff_ne]
      left; intro hx; exact h c (by simp) (by simp [hx])

theorem isPrefixOf_length_le {p s : Str} (h : p.isPrefixOf s = true) : p.length ≤ s.length := by
  induction p generalizing s with
  | nil => simp
  | cons x p ih =>
    cases s with
    | nil => simp [List.isPrefixOf] at h
    | cons y s =>
      simp only [List.isPrefixOf, Bool.and_eq_true] at h
      simpa using ih h.2

theorem isInfixB_false_of_short {sep s : Str} (h : s.length < sep.length) : isInfixB sep s = false := by
  induction s with
  | nil => cases sep with
    | nil => simp at h
    | cons x t => rfl
  | cons c s ih =>
    rw [isInfixB_cons, ih (by simp at h; omega), Bool.or_false]
    cases hp : sep.isPrefixOf (c :: s) with
    | false => rfl
    | true => have := isPrefixOf_length_le hp; omega

/-! ### `str.split(sep)` -/

theorem splitGo_skip (sep pre rest : Str) : splitGo sep (pre ++ rest) pre.length = splitGo sep rest 0 := by
  induction pre with
  | nil => rfl
  | cons c pre ih => simpa [splitGo] using ih

/-- no occurrence: one piece -/
theorem pySplit_none {sep s : Str} (h : isInfixB sep s = false) : pySplit sep s = [s] := by
  unfold pySplit
  induction s with
  | nil => rfl
  | cons c s ih =>
    rw [isInfixB_cons, Bool.or_eq_false_iff] at h
    simp only [splitGo, h.1, ih h.2, consHead]
    simp

/-- the leftmost occurrence of `sep` in `x ++ sep ++ rest` is the displayed one -/
theorem pySplit_first {sep x : Str} (rest : Str) (hsep : sep ≠ [])
    (h : isInfixB sep (x ++ sep.dropLast) = false) : pySplit sep (x ++ sep ++ rest) = x :: pySplit sep rest := by
  unfold pySplit
  induction x with
  | nil =>
    cases sep with
    | nil => exact absurd rfl hsep
    | cons a sep' =>
      have hp : (a :: sep').isPrefixOf (a :: sep' ++ rest) = true := isPrefixOf_append_self _ _
      simp only [List.nil_append, List.cons_append] at hp ⊢
      simp only [splitGo, hp, if_true, List.length_cons, Nat.add_sub_cancel]
      rw [splitGo_skip]
  | cons c x ih =>
    rw [List.cons_append, isInfixB_cons, Bool.or_eq_false_iff] at h
    have hnp : sep.isPrefixOf (c :: x ++ sep ++ rest) = false := by
      cases hp : sep.isPrefixOf (c :: x ++ sep ++ rest) with
      | false => rfl
      | true =>
        exfalso
        -- the prefix would fit into (c :: x) ++ sep.dropLast
        have hsplit : c :: x ++ sep ++ rest = (c :: x ++ sep.dropLast) ++ (sep.getLast hsep :: rest) := by
          conv => lhs; rw [← List.dropLast_concat_getLast hsep]
          simp [List.append_assoc]
        rw [hsplit] at hp
        rcases isPrefixOf_append_cons hp with h1 | _
        · rw [List.cons_append] at h1; rw [h1] at h; exact absurd h.1 (by simp)
        · -- length argument: |sep| ≤ |c :: x ++ sep.dropLast|, so sep is a prefix of it
          have hlen : sep.length ≤ (c :: x ++ sep.dropLast).length := by
            simp [List.length_dropLast]; have := List.length_pos_iff.mpr hsep; omega
          have : sep.isPrefixOf (c :: x ++ sep.dropLast) = true := by
            have h2 := List.isPrefixOf_iff_prefix.mp hp
            exact List.isPrefixOf_iff_prefix.mpr
              (List.prefix_of_prefix_length_le h2 (List.prefix_append _ _) hlen)
          rw [List.cons_append] at this; rw [this] at h; exact absurd h.1 (by simp)
    simp only [List.cons_append, List.append_assoc] at hnp ⊢
    simp only [splitGo, hnp]
    have := ih h.2
    simp only [List.append_assoc] at this
    simp [this, consHead]

/-! ### `strip` -/

/-- non-empty, does not begin or end with white space -/
def Tight (s : Str) : Prop :=
  s ≠ [] ∧ (∀ c, s.head? = some c → isPySpace c = false) ∧ (∀ c, s.getLast? = some c → isPySpace c = false)

theorem dropWhile_pre {p : Char → Bool} {pre t : Str} (hpre : ∀ c ∈ pre, p c = true)
    (ht : ∀ c, t.head? = some c → p c = false) : (pre ++ t).dropWhile p = t := by
  induction pre with
  | nil =>
    cases t with
    | nil => rfl
    | cons c t => simp [List.dropWhile, ht c rfl]
  | cons a pre ih =>
    simp only [List.cons_append, List.dropWhile, hpre a (by simp)]
    exact ih (fun c hc => hpre c (by simp [hc]))

theorem strip_pad {pre s post : Str} (hs : Tight s) (hpre : ∀ c ∈ pre, isPySpace c = true)
    (hpost : ∀ c ∈ post, isPySpace c = true) : strip (pre ++ s ++ post) = s := by
  obtain ⟨hne, hh, hl⟩ := hs
  unfold strip lstrip rstrip
  have h1 : (pre ++ s ++ post).dropWhile isPySpace = s ++ post := by
    rw [List.append_assoc]
    apply dropWhile_pre hpre
    intro c hc
    cases s with
    | nil => exact absurd rfl hne
    | cons a s => simp at hc; subst hc; exact hh a rfl
  rw [h1, List.reverse_append]
  rw [dropWhile_pre (p := isPySpace) (pre := post.reverse) (t := s.reverse)]
  · simp
  · intro c hc; exact hpost c (by simpa using hc)
  · intro c hc; rw [List.head?_reverse] at hc; exact hl c hc

theorem strip_tight {s : Str} (hs : Tight s) : strip s = s := by
  simpa using strip_pad (pre := []) (post := []) hs (by simp) (by simp)

theorem strip_nil : strip [] = [] := rfl
theorem strip_space : strip [' '] = [] := by decide
theorem isPySpace_space : isPySpace ' ' = true := by decide

theorem tight_append {a b : Str} (ha : a ≠ []) (hb : b ≠ [])
    (hh : ∀ c, a.head? = some c → isPySpace c = false) (hl : ∀ c, b.getLast? = some c → isPySpace c = false) :
    Tight (a ++ b) := by
  refine ⟨by simp [ha], ?_, ?_⟩
  · intro c hc; apply hh c
    cases a with
    | nil => exact absurd rfl ha
    | cons x a => simpa using hc
  · intro c hc; apply hl c
    rw [List.getLast?_append] at hc
    cases hb' : b.getLast? with
    | none => exact absurd (List.getLast?_eq_none_iff.mp hb') hb
    | some x => rw [hb'] at hc; simpa using hc

/-! ### digits -/

theorem digit_range {c : Char} (h : c.isDigit = true) : 48 ≤ c.toNat ∧ c.toNat ≤ 57 := by
  simp only [Char.isDigit, Bool.and_eq_true, decide_eq_true_eq] at h
  have h1 : '0'.val.toNat ≤ c.val.toNat := UInt32.le_iff_toNat_le.mp h.1
  have h2 : c.val.toNat ≤ '9'.val.toNat := UInt32.le_iff_toNat_le.mp h.2
  exact ⟨h1, h2⟩

theorem digit_not_space {c : Char} (h : c.isDigit = true) : isPySpace c = false := by
  have := digit_range h
  simp only [isPySpace, pySpaceCodes, List.contains_eq_mem, List.mem_cons, List.not_mem_nil, or_false,
    decide_eq_false_iff_not]
  omega

theorem digit_ne {c x : Char} (h : c.isDigit = true) (hx : x.isDigit = false) : c ≠ x := by
  intro e; subst e; rw [h] at hx; exact absurd hx (by simp)

theorem natStr_digits {n : Nat} {c : Char} (h : c ∈ natStr n) : c.isDigit = true :=
  Nat.isDigit_of_mem_toDigits (by decide) (by decide) h

theorem natStr_ne_nil (n : Nat) : natStr n ≠ [] := Nat.toDigits_ne_nil

theorem digitsVal_append (a : Str) (c : Char) (acc : Nat) :
    digitsVal (a ++ [c]) acc =
      (digitsVal a acc).bind (fun v => if c.isDigit then some (v * 10 + (c.toNat - 48)) else none) := by
  induction a generalizing acc with
  | nil => simp [digitsVal]
  | cons x a ih =>
    simp only [List.cons_append, digitsVal]
    split
    · exact ih _
    · rfl

theorem digitsVal_natStr (n : Nat) : digitsVal (natStr n) 0 = some n := by
  induction n using Nat.strongRecOn with
  | _ n ih =>
    unfold natStr
    rw [Nat.toDigits_eq_if (by decide)]
    split
    · rename_i h
      simp [digitsVal, Nat.toNat_digitChar_sub_48_of_lt_ten h, h]
    · rename_i h
      have := ih (n / 10) (by omega)
      unfold natStr at this
      rw [digitsVal_append, this]
      have hm : n % 10 < 10 := Nat.mod_lt _ (by decide)
      simp [Nat.toNat_digitChar_sub_48_of_lt_ten hm, hm]
      omega

theorem natStr_head_digit (n : Nat) : ∃ c r, natStr n = c :: r ∧ c.isDigit = true := by
  cases h : natStr n with
  | nil => exact absurd h (natStr_ne_nil n)
  | cons c r => exact ⟨c, r, rfl, natStr_digits (by rw [h]; simp)⟩

theorem natStr_tight (n : Nat) : Tight (natStr n) := by
  refine ⟨natStr_ne_nil n, ?_, ?_⟩
  · intro c hc; exact digit_not_space (natStr_digits (List.mem_of_mem_head? hc))
  · intro c hc; exact digit_not_space (natStr_digits (List.mem_of_getLast? hc))

/-- `int("<digits of n>") = n` -/
theorem pyInt_natStr (n : Nat) : pyInt (natStr n) = .ok (n : Int) := by
  obtain ⟨c, r, hcr, hc⟩ := natStr_head_digit n
  have hall : ∀ d ∈ natStr n, d.isDigit = true := fun d hd => natStr_digits hd
  have hany : (natStr n).any (fun c => decide (c.toNat ≥ 128)) = false := by
    rw [List.any_eq_false]; intro d hd
    have := digit_range (hall d hd); simp; omega
  have hsign : splitSign (natStr n) = (false, natStr n) := by
    rw [hcr]
    have h1 : c ≠ '-' := digit_ne hc (by decide)
    have h2 : c ≠ '+' := digit_ne hc (by decide)
    unfold splitSign; split
    · rename_i heq; simp at heq; exact absurd heq.1 h1
    · rename_i heq; simp at heq; exact absurd heq.1 h2
    · rfl
  have hus : ∀ d ∈ natStr n, d ≠ '_' := fun d hd => digit_ne (hall d hd) (by decide)
  have hfilter : (natStr n).filter (· != '_') = natStr n := by
    rw [List.filter_eq_self]; intro d hd; simpa using hus d hd
  have hok : underscoresOK (natStr n) = true := by
    rw [hcr]
    simp only [underscoresOK, Bool.and_eq_true, bne_iff_ne, ne_eq, Bool.not_eq_true']
    refine ⟨⟨hus c (by rw [hcr]; simp), ?_⟩, ?_⟩
    · intro hl
      have := List.mem_of_getLast? (by simpa using hl : (c :: r).getLast? = some '_')
      exact hus '_' (by rw [hcr]; exact this) rfl
    · apply isInfixB_false_of_not_mem (by simp)
      intro d hd; rw [← hcr] at hd; have := hus d hd; simp [this]
  have hdp : digitPart (natStr n) = some n := by
    unfold digitPart; rw [hok, hfilter]; simp only [if_true]
    rw [hcr]; simp only; rw [← hcr]; exact digitsVal_natStr n
  unfold pyInt
  simp only [strip_tight (natStr_tight n), hany, hsign, hdp]
  rfl

/-! ### `re.split(" \\* | ", s)` -/

theorem foldr_consHead_cons (p h : Str) (t : List Str) : p.foldr consHead (h :: t) = (p ++ h) :: t := by
  induction p with
  | nil => rfl
  | cons c p ih => simp [ih, consHead]

theorem reSplitGo_spacefree {p : Str} (r : Str) (hp : ' ' ∉ p) :
    reSplitGo (p ++ r) 0 = p.foldr consHead (reSplitGo r 0) := by
  induction p with
  | nil => rfl
  | cons c p ih =>
    have hc : c ≠ ' ' := fun e => hp (by simp [e])
    have hpre : [' ', '*', ' '].isPrefixOf (c :: (p ++ r)) = false := by
      simp [List.isPrefixOf, Ne.symm hc]
    simp only [List.cons_append, reSplitGo, hpre, List.foldr_cons]
    simp only [beq_iff_eq, hc, if_false, Bool.false_eq_true]
    rw [ih (fun h => hp (by simp [h]))]

theorem reSplit_spacefree {k : Str} (hk : ' ' ∉ k) : reSplit k = [k] := by
  have := reSplitGo_spacefree [] hk
  simp only [List.append_nil] at this
  unfold reSplit; rw [this]; simp only [reSplitGo]; rw [foldr_consHead_cons]; simp

theorem reSplit_plain {d k : Str} (hd : ' ' ∉ d) (hk : ' ' ∉ k) : reSplit (d ++ ' ' :: k) = [d, k] := by
  unfold reSplit
  rw [reSplitGo_spacefree _ hd]
  have hpre : [' ', '*', ' '].isPrefixOf (' ' :: k) = false := by
    cases k with
    | nil => rfl
    | cons a k =>
      cases k with
      | nil => simp [List.isPrefixOf]
      | cons b k =>
        simp only [List.isPrefixOf, beq_self_eq_true, Bool.true_and, Bool.and_true, Bool.and_eq_false_iff,
          beq_eq_false_iff_ne]
        right; intro e; exact hk (by simp [← e])
  have hk' := reSplit_spacefree hk
  unfold reSplit at hk'
  simp only [reSplitGo, hpre, beq_self_eq_true, if_true, hk', Bool.false_eq_true, if_false]
  rw [foldr_consHead_cons]; simp

theorem reSplit_star {d k : Str} (hd : ' ' ∉ d) (hk : ' ' ∉ k) :
    reSplit (d ++ ' ' :: '*' :: ' ' :: k) = [d, k] := by
  unfold reSplit
  rw [reSplitGo_spacefree _ hd]
  have hk' := reSplit_spacefree hk
  unfold reSplit at hk'
  have hpre : [' ', '*', ' '].isPrefixOf (' ' :: '*' :: ' ' :: k) = true := by simp [List.isPrefixOf]
  simp only [reSplitGo, hpre, if_true, hk']
  rw [foldr_consHead_cons]; simp

/-! ### `_is_inactive_term` -/

theorem parenBal_scanDepth {s : Str} {d : Nat} (h : parenBal s d = true) :
    scanDepth (s ++ [')']) ((d : Int) + 1) = true := by
  induction s generalizing d with
  | nil =>
    simp only [parenBal, beq_iff_eq] at h
    subst h
    simp [scanDepth]
  | cons c s ih =>
    simp only [parenBal] at h
    simp only [List.cons_append, scanDepth]
    split at h
    · rename_i hc
      simp only [hc, if_true]
      have := ih h
      simpa [Int.add_assoc] using this
    · rename_i hc
      split at h
      · rename_i hc2
        simp only [Bool.and_eq_true, bne_iff_ne, ne_eq] at h
        simp only [hc, hc2, if_true, Bool.false_eq_true, if_false]
        obtain ⟨d', rfl⟩ : ∃ d', d = d' + 1 := ⟨d - 1, by omega⟩
        have := ih (d := d') (by simpa using h.2)
        have hne : ¬ (((d' + 1 : Nat) : Int) + 1 - 1 == 0) = true := by simp; omega
        simp only [hne, if_false, Bool.false_eq_true]
        have e : ((d' + 1 : Nat) : Int) + 1 - 1 = (d' : Int) + 1 := by omega
        rw [e]; exact this
      · rename_i hc2
        simp only [hc, hc2, if_false, Bool.false_eq_true]
        exact ih h

theorem parenBal_append_noparen {pre s : Str} {d : Nat} (hpre : ∀ c ∈ pre, c ≠ '(' ∧ c ≠ ')') :
    parenBal (pre ++ s) d = parenBal s d := by
  induction pre with
  | nil => rfl
  | cons c pre ih =>
    have := hpre c (by simp)
    simp only [List.cons_append, parenBal, beq_iff_eq, this.1, this.2, if_false]
    exact ih (fun x hx => hpre x (by simp [hx]))

theorem isInactive_wrapped {body : Str} (h : parenBal body 0 = true) :
    isInactiveTerm ('(' :: body ++ [')']) = true := by
  unfold isInactiveTerm
  have h1 : startsWith ['('] ('(' :: body ++ [')']) = true := by simp [startsWith, List.isPrefixOf]
  have h2 : endsWith [')'] ('(' :: body ++ [')']) = true := by
    simp [endsWith, List.isPrefixOf]
  simp only [h1, h2, Bool.and_self, Bool.not_true, Bool.false_eq_true, if_false]
  have := parenBal_scanDepth h
  simpa [scanDepth] using this

theorem isInactive_of_head {c : Char} {r : Str} (hc : c ≠ '(') : isInactiveTerm (c :: r) = false := by
  unfold isInactiveTerm
  have : startsWith ['('] (c :: r) = false := by simp [startsWith, List.isPrefixOf, Ne.symm hc]
  simp [this]

theorem inner_wrapped (body : Str) : inner ('(' :: body ++ [')']) = body := by
  simp [inner]

/-! ### written terms -/

abbrev plusSep : Str := [' ', '+', ' ']

theorem keyOK_spec {tok k : Str} (h : keyOK tok k = true) :
    k ≠ [] ∧ ' ' ∉ k ∧ ';' ∉ k ∧ isInfixB tok k = false ∧ k ≠ ['+'] ∧ Tight k := by
  simp only [keyOK, Bool.and_eq_true, bne_iff_ne, ne_eq, Bool.not_eq_true', List.contains_eq_mem,
    decide_eq_false_iff_not] at h
  obtain ⟨⟨⟨⟨⟨⟨h1, h2⟩, h3⟩, h4⟩, h5⟩, h6⟩, h7⟩ := h
  refine ⟨h1, h2, h3, h4, h5, h1, ?_, ?_⟩
  · intro c hc; rw [hc] at h6; simpa using h6
  · intro c hc; rw [hc] at h7; simpa using h7

theorem tokOK_spec {tok : Str} (h : tokOK tok = true) :
    tok ≠ [] ∧ ∀ c ∈ tok, isPySpace c = false ∧ c.isDigit = false ∧ c ≠ ';' ∧ c ≠ '(' ∧ c ≠ ')' ∧ c ≠ '*' ∧ c ≠ '+' ∧ c ≠ '.' := by
  simp only [tokOK, Bool.and_eq_true, bne_iff_ne, ne_eq, List.all_eq_true, Bool.not_eq_true',
    List.contains_eq_mem, decide_eq_false_iff_not] at h
  refine ⟨h.1, fun c hc => ?_⟩
  have := h.2 c hc
  simp only [List.mem_cons, List.not_mem_nil, or_false, not_or] at this
  exact ⟨this.1.1, this.1.2, this.2.1, this.2.2.1, this.2.2.2.1, this.2.2.2.2.1, this.2.2.2.2.2.1, this.2.2.2.2.2.2⟩

theorem tok_space {tok : Str} (h : tokOK tok = true) : ' ' ∉ tok := by
  intro hc; have := ((tokOK_spec h).2 ' ' hc).1; simp [isPySpace_space] at this

theorem tok_tight {tok : Str} (h : tokOK tok = true) : Tight tok := by
  obtain ⟨hne, hall⟩ := tokOK_spec h
  exact ⟨hne, fun c hc => (hall c (List.mem_of_mem_head? hc)).1, fun c hc => (hall c (List.mem_of_getLast? hc)).1⟩

/-- the text of a written coefficient: the digits of `n`, for a decimal followed by `.` and the fractional digits -/
def numText (t : Term) : Str :=
  match t.form with
  | .dec fr => natStr t.n ++ '.' :: fr
  | _ => natStr t.n

/-- the space-free pieces of a term text -/
def pieces (t : Term) : List Str :=
  match t.inactive, t.form with
  | false, .omit => [t.key]
  | false, .plain => [numText t, t.key]
  | false, .star => [numText t, ['*'], t.key]
  | false, .dec _ => [numText t, t.key]
  | true, .omit => ['(' :: t.key ++ [')']]
  | true, .plain => ['(' :: numText t, t.key ++ [')']]
  | true, .star => ['(' :: numText t, ['*'], t.key ++ [')']]
  | true, .dec _ => ['(' :: numText t, t.key ++ [')']]

theorem text_eq_pieces (t : Term) : t.text = joinStrs [' '] (pieces t) := by
  unfold Term.text Term.body pieces numText
  cases hi : t.inactive <;> cases hf : t.form <;> simp [joinStrs]

/-- a piece: non-empty, space-free, not the lone `+`, free of the token and of `;` -/
def GoodPiece (tok p : Str) : Prop :=
  p ≠ [] ∧ ' ' ∉ p ∧ p ≠ ['+'] ∧ isInfixB tok p = false ∧ ';' ∉ p

theorem natStr_special {tok : Str} (htok : tokOK tok = true) (n : Nat) : ∀ c ∈ natStr n, c ∉ tok := by
  intro c hc hct
  have := ((tokOK_spec htok).2 c hct).2.1
  rw [natStr_digits hc] at this; exact absurd this (by simp)

theorem good_natStr {tok : Str} (htok : tokOK tok = true) (n : Nat) : GoodPiece tok (natStr n) := by
  refine ⟨natStr_ne_nil n, ?_, ?_, ?_, ?_⟩
  · intro h; exact digit_ne (natStr_digits h) (by decide) rfl
  · intro h; have : '+' ∈ natStr n := by rw [h]; simp
    exact digit_ne (natStr_digits this) (by decide) rfl
  · exact isInfixB_false_of_not_mem (tokOK_spec htok).1 (natStr_special htok n)
  · intro h; exact digit_ne (natStr_digits h) (by decide) rfl

theorem good_star {tok : Str} (htok : tokOK tok = true) : GoodPiece tok ['*'] := by
  refine ⟨by simp, by simp, by simp, ?_, by simp⟩
  apply isInfixB_false_of_not_mem (tokOK_spec htok).1
  intro c hc hct; simp at hc; subst hc; exact ((tokOK_spec htok).2 _ hct).2.2.2.2.2.1 rfl

theorem good_key {tok k : Str} (hk : keyOK tok k = true) : GoodPiece tok k := by
  obtain ⟨h1, h2, h3, h4, h5, _⟩ := keyOK_spec hk
  exact ⟨h1, h2, h5, h4, h3⟩

theorem good_open {tok p : Str} (htok : tokOK tok = true) (hp : GoodPiece tok p) : GoodPiece tok ('(' :: p) := by
  obtain ⟨h1, h2, h3, h4, h5⟩ := hp
  refine ⟨by simp, ?_, ?_, ?_, ?_⟩
  · simp [h2]
  · simp
  · have := isInfixB_append_cons (sep := tok) (a := []) (b := p) (c := '(')
      (fun hc => ((tokOK_spec htok).2 _ hc).2.2.2.1 rfl)
      (isInfixB_false_of_short (by simp; exact List.length_pos_iff.mpr (tokOK_spec htok).1)) h4
    simpa using this
  · simp [h5]

theorem good_close {tok p : Str} (htok : tokOK tok = true) (hp : GoodPiece tok p) : GoodPiece tok (p ++ [')']) := by
  obtain ⟨h1, h2, h3, h4, h5⟩ := hp
  refine ⟨by simp, ?_, ?_, ?_, ?_⟩
  · simp [h2]
  · intro h
    have := congrArg List.getLast? h
    simp at this
  · exact isInfixB_append_cons (sep := tok) (a := p) (b := []) (c := ')')
      (fun hc => ((tokOK_spec htok).2 _ hc).2.2.2.2.1 rfl) h4
      (isInfixB_false_of_short (by simp; exact List.length_pos_iff.mpr (tokOK_spec htok).1))
  · simp [h5]

theorem Term.ok_spec {tok : Str} {t : Term} (h : t.ok tok = true) :
    keyOK tok t.key = true ∧ 1 ≤ t.n ∧ (t.form = .omit → t.n = 1) ∧
      (t.inactive = true → parenBal t.key 0 = true) ∧
      (t.inactive = false → t.form = .omit → isInactiveTerm t.key = false) ∧
      (∀ fr, t.form = .dec fr → fr ≠ [] ∧ (∀ c ∈ fr, c.isDigit = true) ∧ (natStr t.n).length + fr.length ≤ 15) := by
  simp only [Term.ok, Bool.and_eq_true] at h
  obtain ⟨⟨h1, h2⟩, h4⟩ := h
  simp only [Term.coefOK, Bool.and_eq_true, decide_eq_true_eq] at h2
  obtain ⟨h2, h3⟩ := h2
  refine ⟨h1, h2, ?_, ?_, ?_, ?_⟩
  · intro hf; rw [hf] at h3; simpa using h3
  · intro hi; simpa [hi] using h4
  · intro hi hf
    simpa [hi, hf] using h4
  · intro fr hf; rw [hf] at h3
    simp only [Bool.and_eq_true, bne_iff_ne, ne_eq, List.all_eq_true, decide_eq_true_eq] at h3
    exact ⟨h3.1.1, h3.1.2, h3.2⟩

theorem numText_chars {tok : Str} {t : Term} (h : t.ok tok = true) :
    ∀ c ∈ numText t, c.isDigit = true ∨ c = '.' := by
  intro c hc
  unfold numText at hc
  split at hc
  · rename_i fr hf
    simp only [List.mem_append, List.mem_cons] at hc
    rcases hc with hc | hc | hc
    · exact Or.inl (natStr_digits hc)
    · exact Or.inr hc
    · exact Or.inl (((Term.ok_spec h).2.2.2.2.2 fr hf).2.1 c hc)
  · exact Or.inl (natStr_digits hc)

theorem numText_head {t : Term} : ∃ c r, numText t = c :: r ∧ c.isDigit = true := by
  obtain ⟨c, r, hcr, hc⟩ := natStr_head_digit t.n
  unfold numText; split
  · exact ⟨c, r ++ '.' :: _, by rw [hcr]; rfl, hc⟩
  · exact ⟨c, r, hcr, hc⟩

theorem good_numText {tok : Str} {t : Term} (htok : tokOK tok = true) (h : t.ok tok = true) :
    GoodPiece tok (numText t) := by
  obtain ⟨c, r, hcr, hc⟩ := numText_head (t := t)
  have hch := numText_chars h
  have hne : ∀ x, x.isDigit = false → x ≠ '.' → x ∉ numText t := by
    intro x hx hx' hm
    rcases hch x hm with h1 | h1
    · rw [h1] at hx; exact absurd hx (by simp)
    · exact hx' h1
  refine ⟨by rw [hcr]; simp, hne ' ' (by decide) (by decide), ?_, ?_, hne ';' (by decide) (by decide)⟩
  · rw [hcr]; intro e; simp at e; rw [e.1] at hc; exact absurd hc (by decide)
  · apply isInfixB_false_of_not_mem (tokOK_spec htok).1
    intro x hx hxt
    have ht := (tokOK_spec htok).2 x hxt
    rcases hch x hx with h1 | h1
    · rw [h1] at ht; exact absurd ht.2.1 (by simp)
    · exact ht.2.2.2.2.2.2.2 h1

theorem pieces_good {tok : Str} {t : Term} (htok : tokOK tok = true) (h : t.ok tok = true) :
    pieces t ≠ [] ∧ ∀ p ∈ pieces t, GoodPiece tok p := by
  have hk := good_key (Term.ok_spec h).1
  have hd := good_numText htok h
  have hs := good_star htok
  unfold pieces
  cases t.inactive <;> cases t.form <;> simp only [ne_eq, List.cons_ne_nil, not_false_eq_true, true_and,
    List.mem_cons, List.not_mem_nil, or_false, forall_eq_or_imp, forall_eq]
  · exact hk
  · exact ⟨hd, hk⟩
  · exact ⟨hd, hs, hk⟩
  · exact ⟨hd, hk⟩
  · have := good_open htok (good_close htok hk); simpa using this
  · exact ⟨good_open htok hd, good_close htok hk⟩
  · exact ⟨good_open htok hd, hs, good_close htok hk⟩
  · exact ⟨good_open htok hd, good_close htok hk⟩

/-! #### pieces joined by single spaces never produce a spurious `" + "`, token or `;` -/

theorem isInfixB_skip_nonhead {sep' p : Str} {h : Char} (r : Str) (hp : h ∉ p) :
    isInfixB (h :: sep') (p ++ r) = isInfixB (h :: sep') r := by
  induction p with
  | nil => rfl
  | cons c p ih =>
    have hc : h ≠ c := fun e => hp (by simp [e])
    rw [List.cons_append, isInfixB_cons, ih (fun hm => hp (by simp [hm]))]
    simp [List.isPrefixOf, hc]

theorem plusStep {p : Str} (r : Str) (h1 : p ≠ []) (h2 : ' ' ∉ p) (h3 : p ≠ ['+']) :
    isInfixB plusSep (' ' :: (p ++ r)) = isInfixB plusSep r := by
  rw [isInfixB_cons, isInfixB_skip_nonhead r h2]
  have : plusSep.isPrefixOf (' ' :: (p ++ r)) = false := by
    cases p with
    | nil => exact absurd rfl h1
    | cons a p =>
      cases p with
      | nil =>
        have ha : a ≠ '+' := fun e => h3 (by simp [e])
        simp [plusSep, List.isPrefixOf, Ne.symm ha]
      | cons b p =>
        have hb : b ≠ ' ' := fun e => h2 (by simp [e])
        simp [plusSep, List.isPrefixOf, Ne.symm hb]
  rw [this, Bool.false_or]

theorem join_noPlus {tok : Str} {ps : List Str} (r : Str) (hne : ps ≠ []) (hg : ∀ p ∈ ps, GoodPiece tok p) :
    isInfixB plusSep (' ' :: (joinStrs [' '] ps ++ r)) = isInfixB plusSep r := by
  induction ps with
  | nil => exact absurd rfl hne
  | cons p ps ih =>
    obtain ⟨h1, h2, h3, _, _⟩ := hg p (by simp)
    cases ps with
    | nil => simpa [joinStrs] using plusStep r h1 h2 h3
    | cons q ps =>
      have := ih (by simp) (fun x hx => hg x (by simp [hx]))
      simp only [joinStrs, List.append_assoc, List.cons_append, List.nil_append] at this ⊢
      rw [plusStep _ h1 h2 h3]; exact this

theorem join_noTok {tok : Str} {ps : List Str} (htok : tokOK tok = true) (hg : ∀ p ∈ ps, GoodPiece tok p) :
    isInfixB tok (joinStrs [' '] ps) = false := by
  induction ps with
  | nil => exact isInfixB_false_of_short (by simp [joinStrs]; exact List.length_pos_iff.mpr (tokOK_spec htok).1)
  | cons p ps ih =>
    cases ps with
    | nil => exact (hg p (by simp)).2.2.2.1
    | cons q ps =>
      simp only [joinStrs, List.append_assoc, List.cons_append, List.nil_append]
      exact isInfixB_append_cons (tok_space htok) (hg p (by simp)).2.2.2.1 (ih (fun x hx => hg x (by simp [hx])))

theorem join_noSemi {tok : Str} {ps : List Str} (hg : ∀ p ∈ ps, GoodPiece tok p) : ';' ∉ joinStrs [' '] ps := by
  induction ps with
  | nil => simp [joinStrs]
  | cons p ps ih =>
    cases ps with
    | nil => exact (hg p (by simp)).2.2.2.2
    | cons q ps =>
      have := ih (fun x hx => hg x (by simp [hx]))
      intro hmem
      simp only [joinStrs, List.mem_append, List.mem_singleton] at hmem
      rcases hmem with (h | h) | h
      · exact (hg p (by simp)).2.2.2.2 h
      · exact absurd h (by decide)
      · exact this h

/-! #### facts about one admissible term -/

theorem text_noPlus {tok : Str} {t : Term} (htok : tokOK tok = true) (h : t.ok tok = true) :
    isInfixB plusSep (' ' :: (t.text ++ [' ', '+'])) = false := by
  rw [text_eq_pieces, join_noPlus _ (pieces_good htok h).1 (pieces_good htok h).2]; decide

theorem text_noTok {tok : Str} {t : Term} (htok : tokOK tok = true) (h : t.ok tok = true) :
    isInfixB tok t.text = false := by
  rw [text_eq_pieces]; exact join_noTok htok (pieces_good htok h).2

theorem text_noSemi {tok : Str} {t : Term} (htok : tokOK tok = true) (h : t.ok tok = true) : ';' ∉ t.text := by
  rw [text_eq_pieces]; exact join_noSemi (pieces_good htok h).2

theorem tight_wrap (x : Str) : Tight ('(' :: x ++ [')']) := by
  refine ⟨by simp, ?_, ?_⟩
  · intro c hc; simp at hc; subst hc; decide
  · intro c hc
    rw [show '(' :: x ++ [')'] = ('(' :: x) ++ [')'] from rfl, List.getLast?_concat] at hc
    simp at hc; subst hc; decide

/-- what precedes the key in a term body -/
def bodyPre (t : Term) : Str :=
  match t.form with
  | .omit => []
  | .plain => natStr t.n ++ [' ']
  | .star => natStr t.n ++ [' ', '*', ' ']
  | .dec fr => natStr t.n ++ '.' :: fr ++ [' ']

theorem body_eq (t : Term) : t.body = bodyPre t ++ t.key := by
  unfold Term.body bodyPre; cases t.form <;> simp

theorem bodyPre_chars {tok : Str} {t : Term} (h : t.ok tok = true) :
    ∀ c ∈ bodyPre t, c.isDigit = true ∨ c = ' ' ∨ c = '*' ∨ c = '.' := by
  intro c hc
  unfold bodyPre at hc
  split at hc
  · simp at hc
  · simp only [List.mem_append, List.mem_singleton] at hc
    rcases hc with hc | hc
    · exact Or.inl (natStr_digits hc)
    · exact Or.inr (Or.inl hc)
  · simp only [List.mem_append, List.mem_cons, List.not_mem_nil, or_false] at hc
    rcases hc with hc | hc | hc | hc
    · exact Or.inl (natStr_digits hc)
    · exact Or.inr (Or.inl hc)
    · exact Or.inr (Or.inr (Or.inl hc))
    · exact Or.inr (Or.inl hc)
  · rename_i fr hf
    simp only [List.mem_append, List.mem_cons, List.not_mem_nil, or_false] at hc
    rcases hc with (hc | hc | hc) | hc
    · exact Or.inl (natStr_digits hc)
    · exact Or.inr (Or.inr (Or.inr hc))
    · exact Or.inl (((Term.ok_spec h).2.2.2.2.2 fr hf).2.1 c hc)
    · exact Or.inr (Or.inl hc)

theorem bodyPre_head {t : Term} (hne : t.form ≠ .omit) : ∃ c r, bodyPre t = c :: r ∧ c.isDigit = true := by
  obtain ⟨c, r, hcr, hc⟩ := natStr_head_digit t.n
  unfold bodyPre
  cases hf : t.form
  · exact absurd hf hne
  · exact ⟨c, r ++ [' '], by simp [hcr], hc⟩
  · exact ⟨c, r ++ [' ', '*', ' '], by simp [hcr], hc⟩
  · rename_i fr; exact ⟨c, r ++ '.' :: fr ++ [' '], by simp only [hcr, List.cons_append], hc⟩

theorem getLast?_append_ne {a b : Str} (hb : b ≠ []) : (a ++ b).getLast? = b.getLast? := by
  rw [List.getLast?_append]
  cases h : b.getLast? with
  | none => exact absurd (List.getLast?_eq_none_iff.mp h) hb
  | some x => rfl

theorem text_tight {tok : Str} {t : Term} (h : t.ok tok = true) : Tight t.text := by
  obtain ⟨hk, _⟩ := Term.ok_spec h
  obtain ⟨hne, _, _, _, _, _, hh, hl⟩ := keyOK_spec hk
  unfold Term.text
  cases t.inactive
  · simp only [Bool.false_eq_true, if_false]
    rw [body_eq]
    by_cases hf : t.form = .omit
    · simp only [bodyPre, hf, List.nil_append]; exact ⟨hne, hh, hl⟩
    · obtain ⟨c, r, hcr, hc⟩ := bodyPre_head hf
      refine ⟨by simp [hne], ?_, ?_⟩
      · intro x hx; rw [hcr] at hx; simp at hx; subst hx; exact digit_not_space hc
      · intro x hx; rw [getLast?_append_ne hne] at hx; exact hl x hx
  · simp only [if_true]; exact tight_wrap _

/-! #### classification and `_parse_multiplicity` of one term -/

theorem body_parenBal {tok : Str} {t : Term} (h : t.ok tok = true) (hk : parenBal t.key 0 = true) :
    parenBal t.body 0 = true := by
  rw [body_eq, parenBal_append_noparen]
  · exact hk
  · intro c hc
    rcases bodyPre_chars h c hc with h1 | h1 | h1 | h1
    · exact ⟨digit_ne h1 (by decide), digit_ne h1 (by decide)⟩
    all_goals (subst h1; exact ⟨by decide, by decide⟩)

theorem text_classified {tok : Str} {t : Term} (h : t.ok tok = true) : isInactiveTerm t.text = t.inactive := by
  obtain ⟨_, _, _, hbal, hact, _⟩ := Term.ok_spec h
  unfold Term.text
  cases hi : t.inactive
  · simp only [Bool.false_eq_true, if_false]
    by_cases hf : t.form = .omit
    · have : t.body = t.key := by rw [body_eq]; simp [bodyPre, hf]
      rw [this]; exact hact hi hf
    · obtain ⟨c, r, hcr, hc⟩ := bodyPre_head hf
      rw [body_eq, hcr]; exact isInactive_of_head (digit_ne hc (by decide))
  · simp only [if_true]
    exact isInactive_wrapped (body_parenBal h (hbal hi))

theorem natStr_nofloat (n : Nat) : (natStr n).any (fun c => Printing.floatMarkers.contains c) = false := by
  rw [List.any_eq_false]; intro c hc
  have h1 : c ≠ '.' := digit_ne (natStr_digits hc) (by decide)
  have h2 : c ≠ 'e' := digit_ne (natStr_digits hc) (by decide)
  simp [floatMarkers_is, h1, h2]

theorem natStr_nospace (n : Nat) : ' ' ∉ natStr n := fun h => digit_ne (natStr_digits h) (by decide) rfl

/-! #### `float("n.ddd")` -/

theorem takeWhile_all {p : Char → Bool} {s : Str} (h : ∀ c ∈ s, p c = true) :
    s.takeWhile p = s ∧ s.dropWhile p = [] := by
  induction s with
  | nil => simp
  | cons c s ih =>
    have := ih (fun x hx => h x (by simp [hx]))
    simp [List.takeWhile, List.dropWhile, h c (by simp), this.1, this.2]

theorem takeWhile_pre {p : Char → Bool} {a b : Str} {x : Char} (ha : ∀ c ∈ a, p c = true) (hx : p x = false) :
    (a ++ x :: b).takeWhile p = a := by
  induction a with
  | nil => simp [List.takeWhile, hx]
  | cons c a ih => simp [List.takeWhile, ha c (by simp), ih (fun y hy => ha y (by simp [hy]))]

theorem digitsVal_bound {s : Str} (h : ∀ c ∈ s, c.isDigit = true) (acc : Nat) :
    ∃ v, digitsVal s acc = some v ∧ acc * 10 ^ s.length ≤ v ∧ v < (acc + 1) * 10 ^ s.length := by
  induction s generalizing acc with
  | nil => exact ⟨acc, rfl, by simp, by simp⟩
  | cons c s ih =>
    have hc := h c (by simp)
    have hr := digit_range hc
    obtain ⟨v, hv, h1, h2⟩ := ih (fun x hx => h x (by simp [hx])) (acc * 10 + (c.toNat - 48))
    refine ⟨v, by simp [digitsVal, hc, hv], ?_, ?_⟩
    · have e : acc * 10 ^ (c :: s).length = (acc * 10) * 10 ^ s.length := by
        rw [List.length_cons, Nat.pow_succ, Nat.mul_comm (10 ^ s.length) 10, Nat.mul_assoc]
      rw [e]
      exact Nat.le_trans (Nat.mul_le_mul_right _ (Nat.le_add_right _ _)) h1
    · have e : (acc + 1) * 10 ^ (c :: s).length = (acc * 10 + 10) * 10 ^ s.length := by
        rw [List.length_cons, Nat.pow_succ, Nat.mul_comm (10 ^ s.length) 10, ← Nat.mul_assoc, Nat.add_mul, Nat.one_mul]
      rw [e]
      exact Nat.lt_of_lt_of_le h2 (Nat.mul_le_mul_right _ (by omega))

theorem digitPart_of_digits {s : Str} (hne : s ≠ []) (h : ∀ c ∈ s, c.isDigit = true) :
    digitPart s = digitsVal s 0 := by
  have hus : ∀ d ∈ s, d ≠ '_' := fun d hd => digit_ne (h d hd) (by decide)
  have hfilter : s.filter (· != '_') = s := by
    rw [List.filter_eq_self]; intro d hd; simpa using hus d hd
  cases hs : s with
  | nil => exact absurd hs hne
  | cons c r =>
    have hok : underscoresOK (c :: r) = true := by
      simp only [underscoresOK, Bool.and_eq_true, bne_iff_ne, ne_eq, Bool.not_eq_true']
      refine ⟨⟨hus c (by rw [hs]; simp), ?_⟩, ?_⟩
      · intro hl
        have := List.mem_of_getLast? (by simpa using hl : (c :: r).getLast? = some '_')
        exact hus '_' (by rw [hs]; exact this) rfl
      · apply isInfixB_false_of_not_mem (by simp)
        intro d hd; rw [← hs] at hd; have := hus d hd; simp [this]
    unfold digitPart
    rw [hok, ← hs, hfilter]; simp only [if_true]

theorem filter_us_digits {s : Str} (h : ∀ c ∈ s, c.isDigit = true) : s.filter (· != '_') = s := by
  rw [List.filter_eq_self]; intro d hd
  have : d ≠ '_' := digit_ne (h d hd) (by decide)
  simpa using this

theorem toLower_digit {c : Char} (h : c.isDigit = true) : c.toLower = c := by
  have := digit_range h
  unfold Char.toLower
  rw [dif_neg]
  intro hh
  have h1 : 'A'.val.toNat ≤ c.val.toNat := UInt32.le_iff_toNat_le.mp hh.1
  have : (65 : Nat) ≤ c.toNat := h1
  omega

theorem outOfRange_dec {m k : Nat} (hk : 1 ≤ k) (hk' : k ≤ 15) (hm1 : 1 ≤ m) (hm2 : m < 10 ^ 15) :
    outOfRange m ((0 : Int) - (k : Int)) = false := by
  unfold outOfRange
  have hE1 : (decide ((0 : Int) - (k : Int) > 400) || decide ((0 : Int) - (k : Int) < -400)) = false := by
    simp only [Bool.or_eq_false_iff, decide_eq_false_iff_not]; constructor <;> omega
  have hE2 : ¬ ((0 : Int) - (k : Int) ≥ 0) := by omega
  have hk2 : (-((0 : Int) - (k : Int))).toNat = k := by omega
  rw [if_neg (by rw [hE1]; simp), if_neg hE2, hk2]
  have h1 : ¬ (m ≥ 10 ^ (300 + k)) := by
    have : 10 ^ 15 ≤ 10 ^ (300 + k) := Nat.pow_le_pow_right (by decide) (by omega)
    omega
  have h2 : ¬ (m * 10 ^ 300 < 10 ^ k) := by
    have a : 10 ^ k ≤ 10 ^ 300 := Nat.pow_le_pow_right (by decide) (by omega)
    have b : 10 ^ 300 ≤ m * 10 ^ 300 := Nat.le_mul_of_pos_left _ hm1
    omega
  simp [h1, h2]

/-- `float("<n>.<frac>")` is exactly the value of the decimal text -/
theorem pyFloat_dec {n : Nat} {fr : Str} (hn : 1 ≤ n) (hne : fr ≠ []) (hd : ∀ c ∈ fr, c.isDigit = true)
    (hlen : (natStr n).length + fr.length ≤ 15) : pyFloat (natStr n ++ '.' :: fr) = .ok (decValue n fr) := by
  obtain ⟨c0, r0, hcr, hc0⟩ := natStr_head_digit n
  have hchars : ∀ c ∈ natStr n ++ '.' :: fr, c.isDigit = true ∨ c = '.' := by
    intro c hc; simp only [List.mem_append, List.mem_cons] at hc
    rcases hc with hc | hc | hc
    · exact Or.inl (natStr_digits hc)
    · exact Or.inr hc
    · exact Or.inl (hd c hc)
  have htight : Tight (natStr n ++ '.' :: fr) := by
    refine tight_append (natStr_ne_nil n) (by simp) (natStr_tight n).2.1 ?_
    intro c hc
    rw [List.getLast?_cons_of_ne_nil hne] at hc
    exact digit_not_space (hd c (List.mem_of_getLast? hc))
  have hany : (natStr n ++ '.' :: fr).any (fun c => decide (c.toNat ≥ 128)) = false := by
    rw [List.any_eq_false]; intro c hc
    rcases hchars c hc with h1 | h1
    · have := digit_range h1; simp; omega
    · subst h1; decide
  have hsign : splitSign (natStr n ++ '.' :: fr) = (false, natStr n ++ '.' :: fr) := by
    rw [hcr]
    have h1 : c0 ≠ '-' := digit_ne hc0 (by decide)
    have h2 : c0 ≠ '+' := digit_ne hc0 (by decide)
    simp only [List.cons_append]
    unfold splitSign; split
    · rename_i heq; simp at heq; exact absurd heq.1 h1
    · rename_i heq; simp at heq; exact absurd heq.1 h2
    · rfl
  have hlow : ∀ w : Str, (∀ x r, w = x :: r → x.isDigit = false) → w ≠ [] →
      ((natStr n ++ '.' :: fr).map Char.toLower == w) = false := by
    intro w hw hwne
    rw [beq_eq_false_iff_ne]
    intro e
    cases w with
    | nil => exact hwne rfl
    | cons x r =>
      rw [hcr] at e
      simp only [List.cons_append, List.map_cons, List.cons.injEq] at e
      have := hw x r rfl
      rw [← e.1, toLower_digit hc0, hc0] at this
      exact absurd this (by simp)
  have hinf : ((natStr n ++ '.' :: fr).map Char.toLower == "inf".toList) = false :=
    hlow _ (by intro x r e; have : "inf".toList = ['i', 'n', 'f'] := by decide
               rw [this] at e; simp at e; have e1 := e.1; subst e1; decide) (by decide)
  have hinfty : ((natStr n ++ '.' :: fr).map Char.toLower == "infinity".toList) = false :=
    hlow _ (by intro x r e; have : "infinity".toList = ['i', 'n', 'f', 'i', 'n', 'i', 't', 'y'] := by decide
               rw [this] at e; simp at e; have e1 := e.1; subst e1; decide) (by decide)
  have hnan : ((natStr n ++ '.' :: fr).map Char.toLower == "nan".toList) = false :=
    hlow _ (by intro x r e; have : "nan".toList = ['n', 'a', 'n'] := by decide
               rw [this] at e; simp at e; have e1 := e.1; subst e1; decide) (by decide)
  have hnoe : ∀ c ∈ natStr n ++ '.' :: fr, (c != 'e' && c != 'E') = true := by
    intro c hc
    rcases hchars c hc with h1 | h1
    · have a : c ≠ 'e' := digit_ne h1 (by decide)
      have b : c ≠ 'E' := digit_ne h1 (by decide)
      simp [a, b]
    · subst h1; decide
  have hmant := takeWhile_all hnoe
  have hip : (natStr n ++ '.' :: fr).takeWhile (· != '.') = natStr n :=
    takeWhile_pre (fun c hc => by
      have : c ≠ '.' := digit_ne (natStr_digits hc) (by decide)
      simpa using this) (by decide)
  have hfp : ((natStr n ++ '.' :: fr).dropWhile (· != '.')).drop 1 = fr := by
    rw [dropWhile_pre (p := (· != '.')) (pre := natStr n) (t := '.' :: fr)]
    · rfl
    · intro c hc
      have : c ≠ '.' := digit_ne (natStr_digits hc) (by decide)
      simpa using this
    · intro c hc; simp at hc; subst hc; decide
  obtain ⟨F, hF, _, hFlt⟩ := digitsVal_bound hd 0
  have hoi : optDigits (natStr n) = some n := by
    unfold optDigits
    have : (natStr n).isEmpty = false := by rw [hcr]; rfl
    rw [this]; simp only [Bool.false_eq_true, if_false]
    rw [digitPart_of_digits (natStr_ne_nil n) (fun c hc => natStr_digits hc), digitsVal_natStr]
  have hof : optDigits fr = some F := by
    unfold optDigits
    have : fr.isEmpty = false := by cases fr with | nil => exact absurd rfl hne | cons _ _ => rfl
    rw [this]; simp only [Bool.false_eq_true, if_false]
    rw [digitPart_of_digits hne hd, hF]
  have hipe : (natStr n).isEmpty = false := by rw [hcr]; rfl
  have hff := filter_us_digits hd
  have hfn := filter_us_digits (s := natStr n) (fun c hc => natStr_digits hc)
  have hk1 : 1 ≤ fr.length := List.length_pos_iff.mpr hne
  have hL : n < 10 ^ (natStr n).length :=
    (Nat.length_toDigits_le_iff (by decide) (List.length_pos_iff.mpr (natStr_ne_nil n))).mp (Nat.le_refl _)
  have hm1 : 1 ≤ n * 10 ^ fr.length + F := by
    have : 1 ≤ 10 ^ fr.length := Nat.pow_pos (by decide)
    have : 1 ≤ n * 10 ^ fr.length := Nat.mul_le_mul hn this
    omega
  have hm2 : n * 10 ^ fr.length + F < 10 ^ 15 := by
    have a : n * 10 ^ fr.length + F < (n + 1) * 10 ^ fr.length := by
      rw [Nat.add_mul]; simp only [Nat.zero_add, Nat.one_mul] at hFlt ⊢; omega
    have b : (n + 1) * 10 ^ fr.length ≤ 10 ^ (natStr n).length * 10 ^ fr.length := Nat.mul_le_mul_right _ hL
    have c : 10 ^ (natStr n).length * 10 ^ fr.length ≤ 10 ^ 15 := by
      rw [← Nat.pow_add]; exact Nat.pow_le_pow_right (by decide) hlen
    omega
  have hm0 : (n * 10 ^ fr.length + F == 0) = false := by
    rw [beq_eq_false_iff_ne]; omega
  have hnd : ¬ ((natStr n).length + fr.length > 15) := by omega
  have hoor := outOfRange_dec hk1 (by omega) hm1 hm2
  have hE2 : ¬ ((0 : Int) - (fr.length : Int) ≥ 0) := by omega
  have hk2 : (-((0 : Int) - (fr.length : Int))).toNat = fr.length := by omega
  unfold pyFloat
  simp only [strip_tight htight, hany, hsign, hinf, hinfty, hnan, hmant.1, hmant.2, hip, hfp, hoi, hof, hipe,
    hff, hfn, hm0, hnd, hoor, Bool.false_eq_true, if_false, Bool.or_self, Bool.false_and, scale10, hE2, hk2,
    decValue, hF, Option.getD_some]

/-- the loop body of `_parse_multiplicity` on the text of an admissible term: the key gets the written coefficient -/
theorem parseItem_body {tok : Str} {t : Term} (d : Dict) (h : t.ok tok = true) :
    parseItem d t.body = .ok (dictAdd d t.key t.coef) := by
  obtain ⟨hk, hn1, homit, _, _, hdec⟩ := Term.ok_spec h
  obtain ⟨hne, hsp, _⟩ := keyOK_spec hk
  have hd := natStr_nospace t.n
  have hdne := natStr_ne_nil t.n
  have hfil : List.filter (fun x => x != []) [natStr t.n, t.key] = [natStr t.n, t.key] := by simp [hdne, hne]
  unfold parseItem Term.body
  cases hf : t.form <;> simp only
  · rw [reSplit_spacefree hsp]
    simp [hne, homit hf, Term.coef, Term.value, Term.isDec, hf, Coef.ofNat]
  · rw [reSplit_plain hd hsp, hfil]
    simp only [natStr_nofloat, Bool.false_eq_true, if_false, pyInt_natStr]
    simp [Term.coef, Term.value, Term.isDec, hf, Coef.ofInt, Rat.intCast_natCast]
  · rw [reSplit_star hd hsp, hfil]
    simp only [natStr_nofloat, Bool.false_eq_true, if_false, pyInt_natStr]
    simp [Term.coef, Term.value, Term.isDec, hf, Coef.ofInt, Rat.intCast_natCast]
  · rename_i fr
    obtain ⟨hfne, hfd, hlen⟩ := hdec fr hf
    have hnum : ' ' ∉ natStr t.n ++ '.' :: fr := by
      intro hm; simp only [List.mem_append, List.mem_cons] at hm
      rcases hm with hm | hm | hm
      · exact hd hm
      · exact absurd hm (by decide)
      · exact digit_ne (hfd _ hm) (by decide) rfl
    have e : natStr t.n ++ '.' :: fr ++ ' ' :: t.key = (natStr t.n ++ '.' :: fr) ++ ' ' :: t.key := by simp
    rw [e, reSplit_plain hnum hsp]
    have hfil2 : List.filter (fun x => x != []) [natStr t.n ++ '.' :: fr, t.key] = [natStr t.n ++ '.' :: fr, t.key] := by
      simp [hne]
    rw [hfil2]
    have hany : (natStr t.n ++ '.' :: fr).any (fun c => Printing.floatMarkers.contains c) = true := by
      simp [floatMarkers_is]
    simp only [hany, if_true, pyFloat_dec hn1 hfne hfd hlen]
    simp [Term.coef, Term.value, Term.isDec, hf]

/-- what `_parse_multiplicity` accumulates for a list of written terms -/
def accum (d : Dict) (ts : List Term) : Dict := ts.foldl (fun d t => dictAdd d t.key t.coef) d

theorem parseItems_bodies {tok : Str} (d : Dict) (ts : List Term) (h : ∀ t ∈ ts, t.ok tok = true) :
    parseItems d (ts.map Term.body) = .ok (accum d ts) := by
  induction ts generalizing d with
  | nil => rfl
  | cons t ts ih =>
    simp only [List.map_cons, parseItems, parseItem_body d (h t (by simp))]
    exact ih _ (fun x hx => h x (by simp [hx]))

theorem filter_active {tok : Str} (ts : List Term) (h : ∀ t ∈ ts, t.ok tok = true) :
    (ts.map Term.text).filter (fun x => !isInactiveTerm x) = (ts.filter (fun t => !t.inactive)).map Term.body := by
  induction ts with
  | nil => rfl
  | cons t ts ih =>
    have ht := text_classified (h t (by simp))
    have := ih (fun x hx => h x (by simp [hx]))
    simp only [List.map_cons, List.filter_cons, ht]
    cases hi : t.inactive
    · simp only [Bool.not_false, if_true, List.map_cons, this]
      simp [Term.text, hi]
    · simpa using this

theorem filter_inactive {tok : Str} (ts : List Term) (h : ∀ t ∈ ts, t.ok tok = true) :
    ((ts.map Term.text).filter isInactiveTerm).map inner = (ts.filter (fun t => t.inactive)).map Term.body := by
  induction ts with
  | nil => rfl
  | cons t ts ih =>
    have ht := text_classified (h t (by simp))
    have := ih (fun x hx => h x (by simp [hx]))
    simp only [List.map_cons, List.filter_cons, ht]
    cases hi : t.inactive
    · simpa using this
    · simp only [if_true, List.map_cons, this]
      simp only [Term.text, hi, if_true]
      rw [inner_wrapped]

/-! ### one side: `x.split(" + ")` then `strip` -/

theorem sideText_cons2 (t u : Term) (ts : List Term) :
    sideText (t :: u :: ts) = t.text ++ plusSep ++ sideText (u :: ts) := rfl

theorem side_split {tok : Str} (htok : tokOK tok = true) (ts : List Term) (hne : ts ≠ [])
    (h : ∀ t ∈ ts, t.ok tok = true) (pre post : Str) (hpre : pre = [] ∨ pre = [' ']) (hpost : post = [] ∨ post = [' ']) :
    (pySplit plusSep (pre ++ sideText ts ++ post)).map strip = ts.map Term.text := by
  induction ts generalizing pre with
  | nil => exact absurd rfl hne
  | cons t ts ih =>
    have hno := text_noPlus htok (h t (by simp))
    have hti := text_tight (h t (by simp))
    have hpreS : ∀ c ∈ pre, isPySpace c = true := by
      rcases hpre with rfl | rfl <;> simp [isPySpace_space]
    have hpostS : ∀ c ∈ post, isPySpace c = true := by
      rcases hpost with rfl | rfl <;> simp [isPySpace_space]
    -- `pre ++ text ++ " +"` contains no separator
    have hno' : isInfixB plusSep (pre ++ t.text ++ [' ', '+']) = false := by
      rcases hpre with rfl | rfl
      · simpa using isInfixB_false_of_cons hno
      · simpa using hno
    cases ts with
    | nil =>
      have hnone : isInfixB plusSep (pre ++ t.text ++ post) = false := by
        rcases hpost with rfl | rfl
        · have := isInfixB_false_left (a := pre ++ t.text) (b := [' ', '+']) hno'
          simpa using this
        · have := isInfixB_false_left (a := pre ++ t.text ++ [' ']) (b := ['+']) (by simpa using hno')
          exact this
      simp only [sideText, List.map_cons, List.map_nil, joinStrs]
      rw [pySplit_none hnone]
      simp only [List.map_cons, List.map_nil]
      rw [strip_pad hti hpreS hpostS]
    | cons u ts =>
      rw [sideText_cons2]
      have e : pre ++ (t.text ++ plusSep ++ sideText (u :: ts)) ++ post
          = (pre ++ t.text) ++ plusSep ++ ([] ++ sideText (u :: ts) ++ post) := by simp [List.append_assoc]
      rw [e, pySplit_first _ (by simp [plusSep]) (by simpa [plusSep] using hno')]
      simp only [List.map_cons]
      rw [ih (by simp) (fun x hx => h x (by simp [hx])) [] (Or.inl rfl)]
      have := strip_pad (post := []) hti hpreS (by simp)
      simp only [List.append_nil] at this
      rw [this]
      rfl

theorem sideText_tight {tok : Str} (ts : List Term) (hne : ts ≠ []) (h : ∀ t ∈ ts, t.ok tok = true) :
    Tight (sideText ts) := by
  induction ts with
  | nil => exact absurd rfl hne
  | cons t ts ih =>
    have hti := text_tight (h t (by simp))
    cases ts with
    | nil => simpa [sideText, joinStrs] using hti
    | cons u ts =>
      have := ih (by simp) (fun x hx => h x (by simp [hx]))
      rw [sideText_cons2, List.append_assoc]
      exact tight_append hti.1 (by simp [plusSep]) hti.2.1 (by
        intro c hc
        rw [List.getLast?_append] at hc
        cases hl : (sideText (u :: ts)).getLast? with
        | none => exact absurd (List.getLast?_eq_none_iff.mp hl) this.1
        | some x => rw [hl] at hc; simp at hc; subst hc; exact this.2.2 x hl)

theorem sideText_noTok {tok : Str} (htok : tokOK tok = true) (ts : List Term) (h : ∀ t ∈ ts, t.ok tok = true) :
    isInfixB tok (sideText ts) = false := by
  have hne := (tokOK_spec htok).1
  induction ts with
  | nil => exact isInfixB_false_of_short (by simp [sideText, joinStrs]; exact List.length_pos_iff.mpr hne)
  | cons t ts ih =>
    cases ts with
    | nil => simpa [sideText, joinStrs] using text_noTok htok (h t (by simp))
    | cons u ts =>
      rw [sideText_cons2]
      have h1 := text_noTok htok (h t (by simp))
      have h2 := ih (fun x hx => h x (by simp [hx]))
      have hplus : '+' ∉ tok := fun hc => ((tokOK_spec htok).2 _ hc).2.2.2.2.2.2.1 rfl
      have h3 : isInfixB tok (['+'] ++ ' ' :: sideText (u :: ts)) = false :=
        isInfixB_append_cons (tok_space htok) (isInfixB_false_of_not_mem hne (by simpa using hplus)) h2
      have := isInfixB_append_cons (tok_space htok) h1 h3
      simpa [plusSep, List.append_assoc] using this

theorem sideText_noSemi {tok : Str} (htok : tokOK tok = true) (ts : List Term) (h : ∀ t ∈ ts, t.ok tok = true) :
    ';' ∉ sideText ts := by
  induction ts with
  | nil => simp [sideText, joinStrs]
  | cons t ts ih =>
    cases ts with
    | nil => simpa [sideText, joinStrs] using text_noSemi htok (h t (by simp))
    | cons u ts =>
      rw [sideText_cons2]
      intro hmem
      simp only [List.mem_append] at hmem
      rcases hmem with (hm | hm) | hm
      · exact text_noSemi htok (h t (by simp)) hm
      · simp [plusSep] at hm
      · exact ih (fun x hx => h x (by simp [hx])) hm

/-! ### the whole line through `to_reaction` -/

/-- elements of one side after `split(" + ")` and `strip` -/
def elems (ts : List Term) : List Str := if ts = [] then [[]] else ts.map Term.text

def actD (ts : List Term) : Dict := accum [] (ts.filter (fun t => !t.inactive))
def inaD (ts : List Term) : Dict := accum [] (ts.filter (fun t => t.inactive))

def leadOf (ts : List Term) : Str := if ts = [] then [' '] else []
def Rp (ts : List Term) : Str := if ts = [] then [] else sideText ts ++ [' ']
def Pp (ts : List Term) : Str := if ts = [] then [] else ' ' :: sideText ts

theorem line_decomp (tok : Str) (reac prod : List Term) :
    writeLine tok reac prod = leadOf reac ++ (Rp reac ++ tok ++ Pp prod) ++ leadOf prod := by
  unfold writeLine leadOf Rp Pp
  by_cases hr : reac = [] <;> by_cases hp : prod = [] <;> simp [hr, hp, sideText, joinStrs]

theorem lead_cases (ts : List Term) : leadOf ts = [] ∨ leadOf ts = [' '] := by
  unfold leadOf; split <;> simp

theorem core_tight {tok : Str} (htok : tokOK tok = true) {reac prod : List Term}
    (hr : ∀ t ∈ reac, t.ok tok = true) (hp : ∀ t ∈ prod, t.ok tok = true) : Tight (Rp reac ++ tok ++ Pp prod) := by
  have ht := tok_tight htok
  have h1 : Tight (Rp reac ++ tok) := by
    unfold Rp
    by_cases h : reac = []
    · simpa [h] using ht
    · simp only [h, if_false]
      have := sideText_tight reac h hr
      exact tight_append (by simp) ht.1 (by
        intro c hc; apply this.2.1 c
        cases hs : sideText reac with
        | nil => exact absurd hs this.1
        | cons x r => rw [hs] at hc; simpa using hc) ht.2.2
  unfold Pp
  by_cases h : prod = []
  · simpa [h] using h1
  · simp only [h, if_false]
    have := sideText_tight prod h hp
    exact tight_append h1.1 (by simp) h1.2.1 (by
      intro c hc; rw [List.getLast?_cons_of_ne_nil this.1] at hc; exact this.2.2 c hc)

theorem rstripChars_id {chars s : Str} (h : ∀ c, s.getLast? = some c → chars.contains c = false) :
    rstripChars chars s = s := by
  unfold rstripChars
  have := dropWhile_pre (p := fun c => chars.contains c) (pre := []) (t := s.reverse) (by simp)
    (by intro c hc; rw [List.head?_reverse] at hc; exact h c hc)
  simp only [List.nil_append] at this
  rw [this, List.reverse_reverse]

theorem line_last {tok : Str} (htok : tokOK tok = true) {reac prod : List Term}
    (hr : ∀ t ∈ reac, t.ok tok = true) (hp : ∀ t ∈ prod, t.ok tok = true) :
    ∀ c, (writeLine tok reac prod).getLast? = some c → c ≠ '\n' := by
  intro c hc
  rw [line_decomp] at hc
  have hcore := core_tight htok hr hp
  rcases lead_cases prod with h | h
  · rw [h, List.append_nil, List.getLast?_append] at hc
    cases hl : (Rp reac ++ tok ++ Pp prod).getLast? with
    | none => exact absurd (List.getLast?_eq_none_iff.mp hl) hcore.1
    | some x =>
      rw [hl] at hc; simp at hc; subst hc
      intro e; have := hcore.2.2 x hl; rw [e] at this; exact absurd this (by decide)
  · rw [h, List.getLast?_concat] at hc
    simp at hc; subst hc; decide

theorem line_noSemi {tok : Str} (htok : tokOK tok = true) {reac prod : List Term}
    (hr : ∀ t ∈ reac, t.ok tok = true) (hp : ∀ t ∈ prod, t.ok tok = true) : ';' ∉ writeLine tok reac prod := by
  unfold writeLine
  intro h
  simp only [List.mem_append, List.mem_cons] at h
  rcases h with h | h | h | h | h
  · exact sideText_noSemi htok reac hr h
  · exact absurd h (by decide)
  · exact ((tokOK_spec htok).2 _ h).2.2.1 rfl
  · exact absurd h (by decide)
  · exact sideText_noSemi htok prod hp h

theorem isInfixB_self {tok : Str} (h : tok ≠ []) : isInfixB tok tok = true := by
  cases tok with
  | nil => exact absurd rfl h
  | cons c r =>
    rw [isInfixB_cons]
    have := isPrefixOf_append_self (c :: r) []
    simp only [List.append_nil] at this
    rw [this]; rfl

theorem core_split {tok : Str} (htok : tokOK tok = true) {reac prod : List Term}
    (hr : ∀ t ∈ reac, t.ok tok = true) (hp : ∀ t ∈ prod, t.ok tok = true) :
    pySplit tok (Rp reac ++ tok ++ Pp prod) = [Rp reac, Pp prod] := by
  have hne := (tokOK_spec htok).1
  have hshort : ∀ s : Str, s.length < tok.length → isInfixB tok s = false := fun s hs => isInfixB_false_of_short hs
  have hdl : tok.dropLast.length < tok.length := by
    have := List.length_pos_iff.mpr hne
    simp only [List.length_dropLast]; omega
  have h1 : isInfixB tok (Rp reac ++ tok.dropLast) = false := by
    unfold Rp
    by_cases h : reac = []
    · simpa [h] using hshort _ hdl
    · simp only [h, if_false, List.append_assoc, List.cons_append, List.nil_append]
      exact isInfixB_append_cons (tok_space htok) (sideText_noTok htok reac hr) (hshort _ hdl)
  have h2 : isInfixB tok (Pp prod) = false := by
    unfold Pp
    by_cases h : prod = []
    · simpa [h] using hshort [] (by simpa using List.length_pos_iff.mpr hne)
    · simp only [h, if_false]
      have := isInfixB_append_cons (a := []) (tok_space htok)
        (hshort [] (by simpa using List.length_pos_iff.mpr hne)) (sideText_noTok htok prod hp)
      simpa using this
  rw [pySplit_first _ hne h1, pySplit_none h2]

theorem elems_Rp {tok : Str} (htok : tokOK tok = true) {ts : List Term} (h : ∀ t ∈ ts, t.ok tok = true) :
    (pySplit plusSep (Rp ts)).map strip = elems ts := by
  unfold Rp elems
  by_cases hn : ts = []
  · simp only [hn, if_true]; decide
  · simp only [hn, if_false]
    have := side_split htok ts hn h [] [' '] (Or.inl rfl) (Or.inr rfl)
    simpa using this

theorem elems_Pp {tok : Str} (htok : tokOK tok = true) {ts : List Term} (h : ∀ t ∈ ts, t.ok tok = true) :
    (pySplit plusSep (Pp ts)).map strip = elems ts := by
  unfold Pp elems
  by_cases hn : ts = []
  · simp only [hn, if_true]; decide
  · simp only [hn, if_false]
    have := side_split htok ts hn h [' '] [] (Or.inr rfl) (Or.inl rfl)
    simpa using this

theorem parseMult_active {tok : Str} (allowed : Allowed) {ts : List Term} (h : ∀ t ∈ ts, t.ok tok = true) :
    parseMultiplicity ((elems ts).filter (fun x => !isInactiveTerm x)) allowed =
      if (actD ts).all (fun kv => allowed.has kv.1) then .ok (actD ts) else .error .unknownKey := by
  unfold elems parseMultiplicity actD
  by_cases hn : ts = []
  · subst hn; rfl
  · simp only [hn, if_false]
    rw [filter_active ts h, parseItems_bodies [] _ (fun t ht => h t (List.mem_filter.mp ht).1)]

theorem parseMult_inactive {tok : Str} (allowed : Allowed) {ts : List Term} (h : ∀ t ∈ ts, t.ok tok = true) :
    parseMultiplicity (((elems ts).filter isInactiveTerm).map inner) allowed =
      if (inaD ts).all (fun kv => allowed.has kv.1) then .ok (inaD ts) else .error .unknownKey := by
  unfold elems parseMultiplicity inaD
  by_cases hn : ts = []
  · subst hn; rfl
  · simp only [hn, if_false]
    rw [filter_inactive ts h, parseItems_bodies [] _ (fun t ht => h t (List.mem_filter.mp ht).1)]

/-- all keys of the four dictionaries pass the allowed-key test -/
def allAllowed (allowed : Allowed) (reac prod : List Term) : Bool :=
  (actD reac).all (fun kv => allowed.has kv.1) && (inaD reac).all (fun kv => allowed.has kv.1)
    && (actD prod).all (fun kv => allowed.has kv.1) && (inaD prod).all (fun kv => allowed.has kv.1)

theorem mem_tailText {c : Char} {tl : List Str} (h : c ∈ tailText tl) : c = ';' ∨ ∃ p ∈ tl, c ∈ p := by
  induction tl with
  | nil => simp [tailText] at h
  | cons p ps ih =>
    simp only [tailText, List.mem_cons, List.mem_append] at h
    rcases h with (h | h) | h
    · exact Or.inl h
    · exact Or.inr ⟨p, by simp, h⟩
    · rcases ih h with h1 | ⟨q, hq, hc⟩
      · exact Or.inl h1
      · exact Or.inr ⟨q, by simp [hq], hc⟩

/-- `line.split(";")` on a stoichiometry followed by `;`-free parts returns them -/
theorem split_tail (L : Str) (tl : List Str) (hL : ';' ∉ L) (htl : ∀ p ∈ tl, ';' ∉ p) :
    pySplit [';'] (L ++ tailText tl) = L :: tl := by
  have none : ∀ x : Str, ';' ∉ x → isInfixB [';'] x = false := fun x hx =>
    isInfixB_false_of_not_mem (by simp) (fun c hc => by simp only [List.mem_singleton]; intro e; subst e; exact hx hc)
  induction tl generalizing L with
  | nil => simpa [tailText] using pySplit_none (none L hL)
  | cons p ps ih =>
    have e : L ++ tailText (p :: ps) = L ++ [';'] ++ (p ++ tailText ps) := by simp [tailText]
    rw [e, pySplit_first _ (by simp) (by simpa using none L hL), ih p (htl p (by simp)) (fun q hq => htl q (by simp [hq]))]

/-- `line.rstrip("\n").split(";")` of a written line with a tail -/
theorem parts_written {tok : Str} (htok : tokOK tok = true) {reac prod : List Term}
    (hr : ∀ t ∈ reac, t.ok tok = true) (hp : ∀ t ∈ prod, t.ok tok = true) (tl : List Str)
    (htl : ∀ p ∈ tl, ';' ∉ p ∧ '\n' ∉ p) :
    pySplit Printing.partSep (rstripChars Printing.lineEnd (writeLine tok reac prod ++ tailText tl))
      = writeLine tok reac prod :: tl := by
  have hA : rstripChars Printing.lineEnd (writeLine tok reac prod ++ tailText tl)
      = writeLine tok reac prod ++ tailText tl := by
    apply rstripChars_id
    intro c hc
    have hcn : c ≠ '\n' := by
      cases htt : tailText tl with
      | nil => rw [htt, List.append_nil] at hc; exact line_last htok hr hp c hc
      | cons x xs =>
        rw [getLast?_append_ne (by rw [htt]; simp)] at hc
        rcases mem_tailText (List.mem_of_getLast? hc) with h1 | ⟨q, hq, hcq⟩
        · rw [h1]; decide
        · intro e; subst e; exact (htl q hq).2 hcq
    simp [lineEnd_is, hcn]
  rw [hA, partSep_is]; exact split_tail _ _ (line_noSemi htok hr hp) (fun p hp' => (htl p hp').1)

/-- **`to_reaction` up to the constructor, on a written line with any `;` tail**: the stoichiometry is read as written
    whatever follows; the parameter text is exactly the first tail part stripped, the keyword parts are the others. -/
theorem toRaw_written {tok : Str} (allowed : Allowed) (htok : tokOK tok = true) {reac prod : List Term}
    (hr : ∀ t ∈ reac, t.ok tok = true) (hp : ∀ t ∈ prod, t.ok tok = true) (tl : List Str)
    (htl : ∀ p ∈ tl, ';' ∉ p ∧ '\n' ∉ p) :
    toRaw allowed tok (writeLine tok reac prod ++ tailText tl) =
      if allAllowed allowed reac prod then
        .ok ⟨actD reac, actD prod, inaD reac, inaD prod, tl.head?.map strip, tl.drop 1⟩
      else .error .unknownKey := by
  have hA : rstripChars Printing.lineEnd (writeLine tok reac prod ++ tailText tl)
      = writeLine tok reac prod ++ tailText tl := by
    apply rstripChars_id
    intro c hc
    have hcn : c ≠ '\n' := by
      cases htt : tailText tl with
      | nil => rw [htt, List.append_nil] at hc; exact line_last htok hr hp c hc
      | cons x xs =>
        rw [getLast?_append_ne (by rw [htt]; simp)] at hc
        rcases mem_tailText (List.mem_of_getLast? hc) with h1 | ⟨q, hq, hcq⟩
        · rw [h1]; decide
        · intro e; subst e; exact (htl q hq).2 hcq
    simp [lineEnd_is, hcn]
  have hB : pySplit Printing.partSep (writeLine tok reac prod ++ tailText tl) = writeLine tok reac prod :: tl := by
    rw [partSep_is]; exact split_tail _ _ (line_noSemi htok hr hp) (fun p hp' => (htl p hp').1)
  have hC : strip (writeLine tok reac prod) = Rp reac ++ tok ++ Pp prod := by
    rw [line_decomp]
    apply strip_pad (core_tight htok hr hp)
    · rcases lead_cases reac with h | h <;> simp [h, isPySpace_space]
    · rcases lead_cases prod with h | h <;> simp [h, isPySpace_space]
  have hD : isInfixB tok (Rp reac ++ tok ++ Pp prod) = true :=
    isInfixB_append_right _ (isInfixB_append_left _ (isInfixB_self (tokOK_spec htok).1))
  have hne : tok.isEmpty = false := by
    cases tok with
    | nil => exact absurd rfl (tokOK_spec htok).1
    | cons _ _ => rfl
  unfold toRaw
  cases tl with
  | nil =>
    simp only [hA, hB, List.headD_cons, hC, hD, hne, core_split htok hr hp, List.map_cons, List.map_nil,
      termSep_is, elems_Rp htok hr, elems_Pp htok hp, Bool.not_true, Bool.false_eq_true, if_false,
      parseSides, parseMult_active allowed hr, parseMult_inactive allowed hr, parseMult_active allowed hp,
      parseMult_inactive allowed hp, allAllowed, List.drop, List.head?_nil, Option.map_none]
    by_cases h1 : (actD reac).all (fun kv => allowed.has kv.1) = true <;>
    by_cases h2 : (inaD reac).all (fun kv => allowed.has kv.1) = true <;>
    by_cases h3 : (actD prod).all (fun kv => allowed.has kv.1) = true <;>
    by_cases h4 : (inaD prod).all (fun kv => allowed.has kv.1) = true <;> simp [h1, h2, h3, h4]
  | cons p ps =>
    simp only [hA, hB, List.headD_cons, hC, hD, hne, core_split htok hr hp, List.map_cons, List.map_nil,
      termSep_is, elems_Rp htok hr, elems_Pp htok hp, Bool.not_true, Bool.false_eq_true, if_false,
      parseSides, parseMult_active allowed hr, parseMult_inactive allowed hr, parseMult_active allowed hp,
      parseMult_inactive allowed hp, allAllowed, List.drop, List.head?_cons, Option.map_some]
    by_cases h1 : (actD reac).all (fun kv => allowed.has kv.1) = true <;>
    by_cases h2 : (inaD reac).all (fun kv => allowed.has kv.1) = true <;>
    by_cases h3 : (actD prod).all (fun kv => allowed.has kv.1) = true <;>
    by_cases h4 : (inaD prod).all (fun kv => allowed.has kv.1) = true <;> simp [h1, h2, h3, h4]

/-! ### dictionaries -/

def keysOf (d : Dict) : List Str := d.map (·.1)

theorem ofNat_add (a b : Nat) : Coef.add (Coef.ofNat a) (Coef.ofNat b) = Coef.ofNat (a + b) := by
  simp [Coef.add, Coef.ofNat, Rat.natCast_add]

theorem dictGet_dictAdd (d : Dict) (k : Str) (c : Coef) (k' : Str) :
    dictGet (dictAdd d k c) k' =
      if k = k' then some (((dictGet d k).getD (Coef.ofNat 0)).add c) else dictGet d k' := by
  induction d with
  | nil => simp [dictAdd, dictGet]
  | cons h t ih =>
    obtain ⟨k0, v⟩ := h
    simp only [dictAdd, dictGet]
    by_cases h0 : k0 = k
    · subst h0
      by_cases h1 : k0 = k' <;> simp [dictGet, h1]
    · by_cases h1 : k = k'
      · subst h1; simp [dictGet, h0, ih]
      · by_cases h2 : k0 = k'
        · subst h2; simp [dictGet, h0]; intro e; exact absurd e h1
        · simp [dictGet, h0, h1, h2, ih]

/-- the accumulation of `_parse_multiplicity`, seen from one key -/
def specAcc (inact : Bool) (k : Str) : Option Coef → List Term → Option Coef
  | cur, [] => cur
  | cur, t :: ts =>
    specAcc inact k (if t.inactive = inact ∧ t.key = k then some ((cur.getD (Coef.ofNat 0)).add t.coef) else cur) ts

theorem dictGet_accum (inact : Bool) (p : Term → Bool) (hp : ∀ t, p t = true ↔ t.inactive = inact)
    (ts : List Term) (d : Dict) (k : Str) :
    dictGet (accum d (ts.filter p)) k = specAcc inact k (dictGet d k) ts := by
  induction ts generalizing d with
  | nil => rfl
  | cons t ts ih =>
    simp only [List.filter_cons, specAcc]
    by_cases hpt : p t = true
    · have hi := (hp t).mp hpt
      simp only [hpt, if_true, accum, List.foldl_cons]
      have := ih (dictAdd d t.key t.coef)
      unfold accum at this
      rw [this, dictGet_dictAdd]
      by_cases hk : t.key = k
      · subst hk; simp [hi]
      · simp [hk]
    · have hi : ¬ t.inactive = inact := fun e => hpt ((hp t).mpr e)
      simp only [hpt, Bool.false_eq_true, if_false]
      rw [ih d]; simp [hi]

theorem matching_cons (inact : Bool) (k : Str) (t : Term) (ts : List Term) :
    matching inact k (t :: ts) = if t.inactive = inact ∧ t.key = k then t :: matching inact k ts else matching inact k ts := by
  unfold matching
  by_cases h : t.inactive = inact ∧ t.key = k
  · simp [List.filter_cons, h.1, h.2]
  · have : (t.inactive == inact && t.key == k) = false := by
      rcases Classical.not_and_iff_not_or_not.mp h with h1 | h1 <;> simp [h1]
    simp [List.filter_cons, this, h]

theorem specAcc_eq (inact : Bool) (k : Str) (cur : Option Coef) (ts : List Term) :
    specAcc inact k cur ts =
      match matching inact k ts with
      | [] => cur
      | ms => some (ms.foldl (fun c t => c.add t.coef) (cur.getD (Coef.ofNat 0))) := by
  induction ts generalizing cur with
  | nil => rfl
  | cons t ts ih =>
    rw [specAcc, ih, matching_cons]
    by_cases h : t.inactive = inact ∧ t.key = k
    · simp only [h, and_self, if_true, Option.getD_some, List.foldl_cons]
      cases matching inact k ts <;> rfl
    · simp only [h, if_false]

theorem foldl_coef (ms : List Term) (c : Coef) :
    ms.foldl (fun c t => c.add t.coef) c =
      ⟨ms.foldl (fun s t => s + t.value) c.val, c.isFloat || ms.any Term.isDec⟩ := by
  induction ms generalizing c with
  | nil => simp
  | cons t ms ih =>
    rw [List.foldl_cons, ih, List.foldl_cons]
    simp [Coef.add, Term.coef, Bool.or_assoc]

theorem specAcc_written (inact : Bool) (k : Str) (ts : List Term) : specAcc inact k none ts = written inact k ts := by
  rw [specAcc_eq]; unfold written
  cases h : matching inact k ts with
  | nil => rfl
  | cons t ms =>
    simp only [Option.getD_none]
    rw [foldl_coef]
    simp [Coef.ofNat]

theorem dictGet_actD (ts : List Term) (k : Str) : dictGet (actD ts) k = written false k ts := by
  have := dictGet_accum false (fun t => !t.inactive) (by intro t; cases t.inactive <;> simp) ts [] k
  rw [← specAcc_written]; simpa [actD, dictGet] using this

theorem dictGet_inaD (ts : List Term) (k : Str) : dictGet (inaD ts) k = written true k ts := by
  have := dictGet_accum true (fun t => t.inactive) (by intro t; cases t.inactive <;> simp) ts [] k
  rw [← specAcc_written]; simpa [inaD, dictGet] using this

theorem keys_dictAdd (d : Dict) (k : Str) (c : Coef) :
    keysOf (dictAdd d k c) = if k ∈ keysOf d then keysOf d else keysOf d ++ [k] := by
  induction d with
  | nil => simp [dictAdd, keysOf]
  | cons h t ih =>
    obtain ⟨k0, v⟩ := h
    simp only [dictAdd]
    by_cases h0 : k0 = k
    · subst h0; simp [keysOf]
    · have ih' := ih
      simp only [keysOf] at ih' ⊢
      simp only [h0, if_false, List.map_cons, ih', List.mem_cons, Ne.symm h0, false_or]
      split <;> rename_i hh <;> simp [hh]

theorem nodup_dictAdd {d : Dict} (k : Str) (c : Coef) (h : (keysOf d).Nodup) : (keysOf (dictAdd d k c)).Nodup := by
  rw [keys_dictAdd]
  split
  · exact h
  · rename_i hk
    rw [List.nodup_append]
    refine ⟨h, by simp, ?_⟩
    intro a ha b hb; simp at hb; subst hb; intro e; subst e; exact hk ha

theorem nodup_accum (d : Dict) (ts : List Term) (h : (keysOf d).Nodup) : (keysOf (accum d ts)).Nodup := by
  induction ts generalizing d with
  | nil => exact h
  | cons t ts ih => exact ih _ (nodup_dictAdd _ _ h)

theorem mem_insertByKey (kv x : Str × Coef) (d : Dict) : x ∈ insertByKey kv d ↔ x = kv ∨ x ∈ d := by
  induction d with
  | nil => simp [insertByKey]
  | cons h t ih =>
    simp only [insertByKey]
    split
    · simp
    · simp only [List.mem_cons, ih]
      constructor
      · rintro (h1 | h1 | h1) <;> simp [h1]
      · rintro (h1 | h1 | h1) <;> simp [h1]

theorem mem_sortDict (x : Str × Coef) (d : Dict) : x ∈ sortDict d ↔ x ∈ d := by
  induction d with
  | nil => simp [sortDict]
  | cons h t ih =>
    have : sortDict (h :: t) = insertByKey h (sortDict t) := rfl
    rw [this, mem_insertByKey, ih]; simp

theorem mem_keysOf {d : Dict} {k : Str} : k ∈ keysOf d ↔ ∃ v, (k, v) ∈ d := by
  simp only [keysOf, List.mem_map]
  constructor
  · rintro ⟨⟨a, b⟩, h1, h2⟩; simp at h2; subst h2; exact ⟨b, h1⟩
  · rintro ⟨v, hv⟩; exact ⟨(k, v), hv, rfl⟩

theorem mem_keys_sortDict {d : Dict} {k : Str} : k ∈ keysOf (sortDict d) ↔ k ∈ keysOf d := by
  simp only [mem_keysOf, mem_sortDict]

theorem dictGet_insertByKey {kv : Str × Coef} {d : Dict} (h : kv.1 ∉ keysOf d) (k : Str) :
    dictGet (insertByKey kv d) k = if kv.1 = k then some kv.2 else dictGet d k := by
  induction d with
  | nil => obtain ⟨a, b⟩ := kv; simp [insertByKey, dictGet]
  | cons x t ih =>
    obtain ⟨a, b⟩ := kv
    obtain ⟨x1, x2⟩ := x
    have hne : a ≠ x1 := fun e => h (by simp [keysOf, e])
    have hnt : a ∉ keysOf t := fun e => h (by simp only [keysOf, List.map_cons, List.mem_cons]; right; exact e)
    simp only [insertByKey]
    split
    · simp [dictGet]
    · simp only [dictGet, ih hnt]
      by_cases h1 : x1 = k
      · subst h1; simp [hne]
      · simp [h1]

theorem nodup_insertByKey {kv : Str × Coef} {d : Dict} (h : kv.1 ∉ keysOf d) (hd : (keysOf d).Nodup) :
    (keysOf (insertByKey kv d)).Nodup := by
  induction d with
  | nil => simp [insertByKey, keysOf]
  | cons x t ih =>
    have hne : kv.1 ≠ x.1 := fun e => h (by simp [keysOf, e])
    have hnt : kv.1 ∉ keysOf t := fun e => h (by simp only [keysOf, List.map_cons, List.mem_cons]; right; exact e)
    simp only [keysOf, List.map_cons, List.nodup_cons] at hd
    simp only [insertByKey]
    split
    · simp only [keysOf, List.map_cons, List.nodup_cons, List.mem_cons, not_or]
      exact ⟨⟨hne, hnt⟩, hd.1, hd.2⟩
    · simp only [keysOf, List.map_cons, List.nodup_cons]
      refine ⟨?_, ih hnt hd.2⟩
      intro hm
      have : x.1 ∈ keysOf (insertByKey kv t) := hm
      rw [mem_keysOf] at this
      obtain ⟨v, hv⟩ := this
      rw [mem_insertByKey] at hv
      rcases hv with hv | hv
      · exact hne (by rw [← hv])
      · exact hd.1 (by simp only [List.mem_map]; exact ⟨(x.1, v), hv, rfl⟩)

theorem sortDict_spec {d : Dict} (hd : (keysOf d).Nodup) :
    (keysOf (sortDict d)).Nodup ∧ ∀ k, dictGet (sortDict d) k = dictGet d k := by
  induction d with
  | nil => exact ⟨by simp [sortDict, keysOf], fun k => rfl⟩
  | cons x t ih =>
    simp only [keysOf, List.map_cons, List.nodup_cons] at hd
    obtain ⟨ih1, ih2⟩ := ih hd.2
    have hx : x.1 ∉ keysOf (sortDict t) := by rw [mem_keys_sortDict]; exact hd.1
    have e : sortDict (x :: t) = insertByKey x (sortDict t) := rfl
    rw [e]
    refine ⟨nodup_insertByKey hx ih1, fun k => ?_⟩
    rw [dictGet_insertByKey hx, ih2]
    obtain ⟨a, b⟩ := x
    simp only [dictGet]

theorem mem_keysOf_iff_get {d : Dict} {k : Str} : k ∈ keysOf d ↔ dictGet d k ≠ none := by
  induction d with
  | nil => simp [keysOf, dictGet]
  | cons x t ih =>
    obtain ⟨a, b⟩ := x
    simp only [keysOf, List.map_cons, List.mem_cons, dictGet]
    by_cases h : a = k
    · simp [h]
    · simp only [h, if_false]
      rw [← ih]; simp only [keysOf]
      constructor
      · rintro (h1 | h1)
        · exact absurd h1.symm h
        · exact h1
      · intro h1; exact Or.inr h1

/-! ### the constructor: sorting and the default checks -/

/-- the reaction object a written line denotes -/
def parsedOf (reac prod : List Term) : Reaction :=
  ⟨sortDict (actD reac), sortDict (actD prod), sortDict (inaD reac), sortDict (inaD prod), none, none⟩

theorem nodup_actD (ts : List Term) : (keysOf (actD ts)).Nodup := nodup_accum [] _ (by simp [keysOf])
theorem nodup_inaD (ts : List Term) : (keysOf (inaD ts)).Nodup := nodup_accum [] _ (by simp [keysOf])

theorem get_sorted_actD (ts : List Term) (k : Str) : dictGet (sortDict (actD ts)) k = written false k ts := by
  rw [(sortDict_spec (nodup_actD ts)).2, dictGet_actD ts]

theorem get_sorted_inaD (ts : List Term) (k : Str) : dictGet (sortDict (inaD ts)) k = written true k ts := by
  rw [(sortDict_spec (nodup_inaD ts)).2, dictGet_inaD ts]

theorem dictGetD_eq (d : Dict) (k : Str) : dictGetD d k = valD (dictGet d k) := by
  unfold dictGetD valD; cases dictGet d k <;> rfl

/-- in a dictionary without repeated keys, membership of an entry is what the lookup returns -/
theorem mem_iff_get {d : Dict} (hd : (keysOf d).Nodup) (k : Str) (v : Coef) : (k, v) ∈ d ↔ dictGet d k = some v := by
  induction d with
  | nil => simp [dictGet]
  | cons x t ih =>
    obtain ⟨a, b⟩ := x
    simp only [keysOf, List.map_cons, List.nodup_cons] at hd
    simp only [List.mem_cons, dictGet, Prod.mk.injEq]
    by_cases h : a = k
    · subst h
      simp only [if_true, Option.some.injEq, true_and]
      constructor
      · rintro (h1 | h1)
        · exact h1.symm
        · exact absurd (List.mem_map.mpr ⟨(a, v), h1, rfl⟩) hd.1
      · intro h1; exact Or.inl h1.symm
    · simp only [h, if_false]
      rw [← ih hd.2]
      constructor
      · rintro (h1 | h1)
        · exact absurd h1.1.symm h
        · exact h1
      · intro h1; exact Or.inr h1

theorem written_some_iff {i : Bool} {k : Str} {ts : List Term} :
    written i k ts ≠ none ↔ ∃ t ∈ ts, t.inactive = i ∧ t.key = k := by
  unfold written
  cases h : matching i k ts with
  | nil =>
    simp only [ne_eq, not_true_eq_false, false_iff, not_exists, not_and]
    intro t ht hi hk
    have : t ∈ matching i k ts := by unfold matching; simp [ht, hi, hk]
    rw [h] at this; simp at this
  | cons t ms =>
    simp only [ne_eq, reduceCtorEq, not_false_eq_true, true_iff]
    have : t ∈ matching i k ts := by rw [h]; simp
    unfold matching at this
    simp only [List.mem_filter, Bool.and_eq_true, beq_iff_eq] at this
    exact ⟨t, this.1, this.2.1, this.2.2⟩

/-- every written coefficient of an admissible term is positive -/
theorem value_nonneg {tok : Str} {t : Term} (_h : t.ok tok = true) : 0 ≤ t.value := by
  unfold Term.value
  split
  · rename_i fr _
    unfold decValue
    rw [Rat.div_def]
    apply Rat.mul_nonneg Rat.natCast_nonneg
    have : (0 : Rat) < ((10 ^ fr.length : Nat) : Rat) := Rat.natCast_pos.mpr (Nat.pow_pos (by decide))
    exact Rat.le_of_lt (Rat.inv_pos.mpr this)
  · exact Rat.natCast_nonneg

theorem foldl_nonneg (ms : List Term) (h : ∀ t ∈ ms, 0 ≤ t.value) (a : Rat) (ha : 0 ≤ a) :
    0 ≤ ms.foldl (fun s t => s + t.value) a := by
  induction ms generalizing a with
  | nil => exact ha
  | cons t ms ih =>
    exact ih (fun x hx => h x (by simp [hx])) _ (Rat.add_nonneg ha (h t (by simp)))

theorem written_nonneg {tok : Str} {i : Bool} {k : Str} {ts : List Term} (h : ∀ t ∈ ts, t.ok tok = true) {c : Coef}
    (hc : written i k ts = some c) : 0 ≤ c.val := by
  unfold written at hc
  cases hm : matching i k ts with
  | nil => rw [hm] at hc; simp at hc
  | cons t ms =>
    rw [hm] at hc; simp only [Option.some.injEq] at hc
    rw [← hc]; simp only
    apply foldl_nonneg _ _ _ (Rat.le_refl)
    intro x hx
    have : x ∈ matching i k ts := by rw [hm]; exact hx
    unfold matching at this
    exact value_nonneg (h x (List.mem_filter.mp this).1)

theorem sorted_positive {tok : Str} {ts : List Term} (h : ∀ t ∈ ts, t.ok tok = true) :
    (sortDict (actD ts)).all (fun kv => !(kv.2.val < 0)) = true ∧ (sortDict (inaD ts)).all (fun kv => !(kv.2.val < 0)) = true := by
  constructor <;> rw [List.all_eq_true] <;> rintro ⟨k, v⟩ hkv <;> rw [mem_sortDict] at hkv
  · have := (mem_iff_get (nodup_actD ts) k v).mp hkv
    rw [dictGet_actD] at this
    have := written_nonneg h this
    simpa using Rat.not_lt.mpr this
  · have := (mem_iff_get (nodup_inaD ts) k v).mp hkv
    rw [dictGet_inaD] at this
    have := written_nonneg h this
    simpa using Rat.not_lt.mpr this

theorem parsedOf_positive {tok : Str} {reac prod : List Term} (hr : ∀ t ∈ reac, t.ok tok = true)
    (hp : ∀ t ∈ prod, t.ok tok = true) : (parsedOf reac prod).allPositive = true := by
  simp only [Reaction.allPositive, Reaction.allDicts, parsedOf, List.all_cons, List.all_nil, Bool.and_true, Bool.and_eq_true]
  exact ⟨(sorted_positive hr).1, (sorted_positive hp).1, (sorted_positive hr).2, (sorted_positive hp).2⟩

/-- `check_all_integral` on the parsed object is exactly: every written total is a whole number -/
theorem sorted_integral (ts : List Term) :
    ((sortDict (actD ts)).all (fun kv => kv.2.val.den == 1) && (sortDict (inaD ts)).all (fun kv => kv.2.val.den == 1)) =
      ts.all (fun t => [false, true].all fun i => match written i t.key ts with | some c => c.val.den == 1 | none => true) := by
  rw [Bool.eq_iff_iff]
  simp only [Bool.and_eq_true, List.all_eq_true, List.mem_cons, List.not_mem_nil, or_false, forall_eq_or_imp, forall_eq]
  constructor
  · rintro ⟨h1, h2⟩ t ht
    constructor
    · cases hw : written false t.key ts with
      | none => rfl
      | some c =>
        have : (t.key, c) ∈ sortDict (actD ts) := by
          rw [mem_sortDict, mem_iff_get (nodup_actD ts), dictGet_actD]; exact hw
        exact h1 _ this
    · cases hw : written true t.key ts with
      | none => rfl
      | some c =>
        have : (t.key, c) ∈ sortDict (inaD ts) := by
          rw [mem_sortDict, mem_iff_get (nodup_inaD ts), dictGet_inaD]; exact hw
        exact h2 _ this
  · intro h
    constructor
    · rintro ⟨k, v⟩ hkv
      rw [mem_sortDict, mem_iff_get (nodup_actD ts), dictGet_actD] at hkv
      obtain ⟨t, ht, _, hk⟩ := written_some_iff.mp (by rw [hkv]; simp : written false k ts ≠ none)
      have := (h t ht).1
      rw [hk, hkv] at this; exact this
    · rintro ⟨k, v⟩ hkv
      rw [mem_sortDict, mem_iff_get (nodup_inaD ts), dictGet_inaD] at hkv
      obtain ⟨t, ht, _, hk⟩ := written_some_iff.mp (by rw [hkv]; simp : written true k ts ≠ none)
      have := (h t ht).2
      rw [hk, hkv] at this; exact this

theorem parsedOf_integral (reac prod : List Term) : (parsedOf reac prod).allIntegral = integralWritten reac prod := by
  have a := sorted_integral reac
  have b := sorted_integral prod
  refine Eq.trans (b := (((sortDict (actD reac)).all (fun kv => kv.2.val.den == 1) && (sortDict (inaD reac)).all (fun kv => kv.2.val.den == 1))
      && ((sortDict (actD prod)).all (fun kv => kv.2.val.den == 1) && (sortDict (inaD prod)).all (fun kv => kv.2.val.den == 1)))) ?_ ?_
  · simp only [Reaction.allIntegral, Reaction.allDicts, parsedOf, List.all_cons, List.all_nil, Bool.and_true]
    cases (sortDict (actD reac)).all (fun kv => kv.2.val.den == 1) <;>
    cases (sortDict (actD prod)).all (fun kv => kv.2.val.den == 1) <;>
    cases (sortDict (inaD reac)).all (fun kv => kv.2.val.den == 1) <;>
    cases (sortDict (inaD prod)).all (fun kv => kv.2.val.den == 1) <;> rfl
  · rw [a, b]
    simp only [integralWritten, List.all_cons, List.all_nil, Bool.and_true]
    rfl

theorem parsedOf_net (reac prod : List Term) (k : Str) : (parsedOf reac prod).net k = netWritten reac prod k := by
  simp only [Reaction.net, parsedOf, dictGetD_eq, get_sorted_actD, get_sorted_inaD, netWritten]

theorem mem_keys_parsed_act {ts : List Term} {k : Str} :
    k ∈ keysOf (sortDict (actD ts)) ↔ ∃ t ∈ ts, t.inactive = false ∧ t.key = k := by
  rw [mem_keysOf_iff_get, get_sorted_actD, written_some_iff]

theorem mem_keys_parsed_ina {ts : List Term} {k : Str} :
    k ∈ keysOf (sortDict (inaD ts)) ↔ ∃ t ∈ ts, t.inactive = true ∧ t.key = k := by
  rw [mem_keysOf_iff_get, get_sorted_inaD, written_some_iff]

theorem parsedOf_keys (reac prod : List Term) (k : Str) :
    k ∈ (parsedOf reac prod).keys ↔ ∃ t ∈ reac ++ prod, t.key = k := by
  have e : (parsedOf reac prod).keys = keysOf (sortDict (actD reac)) ++ keysOf (sortDict (actD prod))
      ++ keysOf (sortDict (inaD reac)) ++ keysOf (sortDict (inaD prod)) := rfl
  rw [e]
  simp only [List.mem_append, mem_keys_parsed_act, mem_keys_parsed_ina]
  constructor
  · rintro (((⟨t, ht, _, hk⟩ | ⟨t, ht, _, hk⟩) | ⟨t, ht, _, hk⟩) | ⟨t, ht, _, hk⟩)
    · exact ⟨t, Or.inl ht, hk⟩
    · exact ⟨t, Or.inr ht, hk⟩
    · exact ⟨t, Or.inl ht, hk⟩
    · exact ⟨t, Or.inr ht, hk⟩
  · rintro ⟨t, ht | ht, hk⟩
    · cases hi : t.inactive
      · exact Or.inl (Or.inl (Or.inl ⟨t, ht, hi, hk⟩))
      · exact Or.inl (Or.inr ⟨t, ht, hi, hk⟩)
    · cases hi : t.inactive
      · exact Or.inl (Or.inl (Or.inr ⟨t, ht, hi, hk⟩))
      · exact Or.inr ⟨t, ht, hi, hk⟩

theorem parsedOf_anyEffect (reac prod : List Term) : (parsedOf reac prod).anyEffect = hasEffect reac prod := by
  rw [Bool.eq_iff_iff]
  simp only [Reaction.anyEffect, hasEffect, List.any_eq_true, bne_iff_ne, ne_eq]
  constructor
  · rintro ⟨k, hk, hnet⟩
    obtain ⟨t, ht, htk⟩ := (parsedOf_keys reac prod k).mp hk
    refine ⟨t, ht, ?_⟩
    rw [htk, ← parsedOf_net]; exact hnet
  · rintro ⟨t, ht, hnet⟩
    refine ⟨t.key, (parsedOf_keys reac prod t.key).mpr ⟨t, ht, rfl⟩, ?_⟩
    rw [parsedOf_net]; exact hnet

/-- the outcome of the constructor checks on a written reaction -/
def outcome (reac prod : List Term) (param : Option Str) : Except Err Reaction :=
  if hasEffect reac prod then
    (if integralWritten reac prod then .ok { parsedOf reac prod with param := param } else .error .nonIntegral)
  else .error .noEffect

theorem check_parsed {tok : Str} {reac prod : List Term} (hr : ∀ t ∈ reac, t.ok tok = true)
    (hp : ∀ t ∈ prod, t.ok tok = true) (param : Option Str) :
    Reaction.check ⟨sortDict (actD reac), sortDict (actD prod), sortDict (inaD reac), sortDict (inaD prod), param, none⟩
      = outcome reac prod param := by
  have h1 : Reaction.anyEffect ⟨sortDict (actD reac), sortDict (actD prod), sortDict (inaD reac), sortDict (inaD prod), param, none⟩
      = (parsedOf reac prod).anyEffect := rfl
  have h2 : Reaction.allPositive ⟨sortDict (actD reac), sortDict (actD prod), sortDict (inaD reac), sortDict (inaD prod), param, none⟩
      = (parsedOf reac prod).allPositive := rfl
  have h3 : Reaction.allIntegral ⟨sortDict (actD reac), sortDict (actD prod), sortDict (inaD reac), sortDict (inaD prod), param, none⟩
      = (parsedOf reac prod).allIntegral := rfl
  unfold Reaction.check outcome
  rw [h1, h2, h3, parsedOf_anyEffect, parsedOf_positive hr hp, parsedOf_integral]
  cases hasEffect reac prod <;> cases integralWritten reac prod <;> simp [parsedOf]

/-- `Reaction.from_string` / `Equilibrium.from_string` on a written line with any tail, completely determined -/
theorem toReaction_written {tok : Str} (allowed : Allowed) (htok : tokOK tok = true) {reac prod : List Term}
    (hr : ∀ t ∈ reac, t.ok tok = true) (hp : ∀ t ∈ prod, t.ok tok = true) (tl : List Str)
    (htl : ∀ p ∈ tl, ';' ∉ p ∧ '\n' ∉ p) :
    toReactionCore allowed tok (writeLine tok reac prod ++ tailText tl) =
      if allAllowed allowed reac prod then outcome reac prod (tl.head?.map strip) else .error .unknownKey := by
  unfold toReactionCore
  rw [toRaw_written allowed htok hr hp tl htl]
  by_cases hA : allAllowed allowed reac prod = true
  · simp only [hA, if_true, mkReaction]
    exact check_parsed hr hp _
  · simp only [hA, if_false, Bool.false_eq_true]

/-! ### rejection of unknown keys, for every line -/

theorem parseMultiplicity_allowed {ss : List Str} {allowed : Allowed} {d : Dict}
    (h : parseMultiplicity ss allowed = .ok d) : d.all (fun kv => allowed.has kv.1) = true := by
  unfold parseMultiplicity at h
  split at h
  · split at h
    · rename_i h1; simp at h; subst h; exact h1
    · simp at h
  · simp at h

theorem parseSides_allowed {allowed : Allowed} {l : List (List Str)} {res : List (Dict × Dict)}
    (h : parseSides allowed l = .ok res) :
    ∀ p ∈ res, p.1.all (fun kv => allowed.has kv.1) = true ∧ p.2.all (fun kv => allowed.has kv.1) = true := by
  induction l generalizing res with
  | nil => simp [parseSides] at h; subst h; simp
  | cons e rest ih =>
    simp only [parseSides] at h
    split at h
    · simp at h
    · rename_i a ha
      split at h
      · simp at h
      · rename_i i hi
        split at h
        · simp at h
        · rename_i r hrr
          simp at h; subst h
          intro p hp
          simp only [List.mem_cons] at hp
          rcases hp with hp | hp
          · subst hp; exact ⟨parseMultiplicity_allowed ha, parseMultiplicity_allowed hi⟩
          · exact ih hrr p hp

theorem toRaw_allowed {allowed : Allowed} {tok line : Str} {raw : RawReaction}
    (h : toRaw allowed tok line = .ok raw) :
    raw.reac.all (fun kv => allowed.has kv.1) = true ∧ raw.prod.all (fun kv => allowed.has kv.1) = true ∧
    raw.inactReac.all (fun kv => allowed.has kv.1) = true ∧ raw.inactProd.all (fun kv => allowed.has kv.1) = true := by
  unfold toRaw at h
  simp only at h
  split at h
  · simp at h
  · split at h
    · simp at h
    · split at h
      · simp at h
      · rename_i r p tl hs
        simp at h; subst h
        have := parseSides_allowed hs
        have h1 := this r (by simp)
        have h2 := this p (by simp)
        exact ⟨h1.1, h2.1, h1.2, h2.2⟩
      · simp at h

theorem all_has_sortDict {allowed : Allowed} {d : Dict} (h : d.all (fun kv => allowed.has kv.1) = true) :
    ∀ k ∈ keysOf (sortDict d), allowed.has k = true := by
  intro k hk
  rw [mem_keys_sortDict, mem_keysOf] at hk
  obtain ⟨v, hv⟩ := hk
  exact (List.all_eq_true.mp h) (k, v) hv

theorem toReaction_keys_allowed {allowed : Allowed} {tok line : Str} {r : Reaction}
    (h : toReactionCore allowed tok line = .ok r) : ∀ k ∈ r.keys, allowed.has k = true := by
  unfold toReactionCore at h
  split at h
  · simp at h
  · rename_i raw hraw
    obtain ⟨h1, h2, h3, h4⟩ := toRaw_allowed hraw
    unfold mkReaction Reaction.check at h
    split at h
    · simp at h
    · split at h
      · simp at h
      · split at h
        · simp at h
        · simp at h; subst h
          intro k hk
          simp only [Reaction.keys, List.mem_append] at hk
          rcases hk with ((hk | hk) | hk) | hk
          · exact all_has_sortDict h1 k hk
          · exact all_has_sortDict h2 k hk
          · exact all_has_sortDict h3 k hk
          · exact all_has_sortDict h4 k hk

/-! ### `__eq__` is reflexive -/

theorem dictEq_refl (d : Dict) : dictEq d d = true := by
  induction d with
  | nil => rfl
  | cons x t ih => obtain ⟨a, b⟩ := x; simp [dictEq, ih]

theorem Reaction.eq_refl (r : Reaction) : Reaction.eq r r = true := by
  simp [Reaction.eq, dictEq_refl]

/-! ### printing, then parsing -/

/-- a printable side: keys strictly increasing (what `_init_stoich` produces), every coefficient an int `n ≥ 1`,
    every key admissible and not itself of the shape `( … )` -/
def GoodEntry (tok : Str) (kv : Str × Coef) : Prop :=
  ∃ n, 1 ≤ n ∧ kv.2 = Coef.ofNat n ∧ keyOK tok kv.1 = true ∧ isInactiveTerm kv.1 = false

def SortedKeys : Dict → Prop
  | [] => True
  | x :: t => (∀ y ∈ t, strLe x.1 y.1 = true ∧ x.1 ≠ y.1) ∧ SortedKeys t

def GoodDict (tok : Str) (d : Dict) : Prop := SortedKeys d ∧ ∀ kv ∈ d, GoodEntry tok kv

/-- the written term of a dictionary entry, as `_Reaction_parts` writes it: coefficient omitted when it is 1 -/
def termOf (kv : Str × Coef) : Term :=
  let n := kv.2.val.num.toNat
  ⟨kv.1, n, if n = 1 then .omit else .plain, false⟩

def termsOf (d : Dict) : List Term := d.map termOf

theorem termOf_ofNat (k : Str) (n : Nat) : termOf (k, Coef.ofNat n) = ⟨k, n, if n = 1 then .omit else .plain, false⟩ := by
  by_cases h : n = 1 <;> simp [termOf, Coef.ofNat, h]

theorem termOf_ok {tok : Str} {kv : Str × Coef} (h : GoodEntry tok kv) : (termOf kv).ok tok = true := by
  obtain ⟨k, c⟩ := kv
  obtain ⟨n, hn, hc, hk, hi⟩ := h
  simp only at hc hk hi; subst hc
  rw [termOf_ofNat]
  by_cases h1 : n = 1
  · subst h1; simp [Term.ok, Term.coefOK, hk, hi]
  · simp [Term.ok, Term.coefOK, hk, h1, hn]

theorem coefStr_ofNat (n : Nat) : coefStr (Coef.ofNat n) = some (natStr n) := by
  have : ¬ ((n : Int) < 0) := by omega
  simp [coefStr, Coef.ofNat, natStr, this]

theorem termStrs_good {tok : Str} {d : Dict} (h : ∀ kv ∈ d, GoodEntry tok kv) :
    termStrs d = some ((termsOf d).map Term.text) := by
  induction d with
  | nil => rfl
  | cons x t ih =>
    obtain ⟨k, c⟩ := x
    obtain ⟨n, hn, hc, _, _⟩ := h (k, c) (by simp)
    simp only at hc; subst hc
    have ih' := ih (fun kv hkv => h kv (by simp [hkv]))
    have h0 : ((Coef.ofNat n).val == 0) = false := by
      simp only [Coef.ofNat, beq_eq_false_iff_ne, ne_eq, Rat.natCast_eq_zero_iff]; omega
    simp only [termStrs, h0, Bool.false_eq_true, if_false, ih', termsOf, List.map_cons, termOf_ofNat]
    by_cases h1 : n = 1
    · subst h1
      have : ((Coef.ofNat 1).val == 1) = true := by simp [Coef.ofNat]
      simp [this, Term.text, Term.body]
    · have : ((Coef.ofNat n).val == 1) = false := by
        simp only [Coef.ofNat, beq_eq_false_iff_ne, ne_eq]
        intro e; apply h1
        have : (n : Rat) = ((1 : Nat) : Rat) := by simpa using e
        exact Rat.natCast_inj.mp this
      simp [this, h1, coefStr_ofNat, Term.text, Term.body, coeffSpace_is]

theorem joinStrs_sideText (ts : List Term) : joinStrs Printing.termJoin (ts.map Term.text) = sideText ts := by
  rw [termJoin_is.1]; rfl

theorem reactionStr_good {tok : Str} {r : Reaction} (hre : ∀ kv ∈ r.reac, GoodEntry tok kv)
    (hpr : ∀ kv ∈ r.prod, GoodEntry tok kv) (hir : r.inactReac = []) (hip : r.inactProd = []) :
    reactionStr tok r = some (writeLine tok (termsOf r.reac) (termsOf r.prod)) := by
  unfold reactionStr
  rw [termStrs_good hre, termStrs_good hpr, hir, hip]
  simp only [termStrs, List.length_nil, Nat.lt_irrefl, if_false, List.append_nil]
  have e2 : joinStrs Printing.termJoinProd ((termsOf r.prod).map Term.text) = sideText (termsOf r.prod) := by
    rw [termJoin_is.2]; rfl
  rw [joinStrs_sideText, e2]
  simp [writeLine, aroundArrow_is.1, aroundArrow_is.2, List.append_assoc]

theorem accum_fresh (pre suf : Dict) (hs : ∀ kv ∈ suf, ∃ n, kv.2 = Coef.ofNat n)
    (hnd : (keysOf (pre ++ suf)).Nodup) : accum pre (termsOf suf) = pre ++ suf := by
  induction suf generalizing pre with
  | nil => simp [accum, termsOf]
  | cons x t ih =>
    obtain ⟨k, c⟩ := x
    obtain ⟨n, hc⟩ := hs (k, c) (by simp)
    simp only at hc; subst hc
    have hk : k ∉ keysOf pre := by
      simp only [keysOf, List.map_append, List.map_cons] at hnd
      have := (List.nodup_append.mp hnd).2.2
      intro hm; exact this k hm k (by simp) rfl
    have hadd : dictAdd pre k (Coef.ofNat n) = pre ++ [(k, Coef.ofNat n)] := by
      clear ih hnd hs
      induction pre with
      | nil => simp [dictAdd, ofNat_add]
      | cons y p ihp =>
        obtain ⟨a, b⟩ := y
        have hne : a ≠ k := fun e => hk (by simp [keysOf, e])
        have hkp : k ∉ keysOf p := fun e => hk (by simp only [keysOf, List.map_cons, List.mem_cons]; right; exact e)
        simp [dictAdd, hne, ihp hkp]
    have hcoef : (⟨k, n, if n = 1 then CoefForm.omit else CoefForm.plain, false⟩ : Term).coef = Coef.ofNat n := by
      by_cases h1 : n = 1 <;> simp [Term.coef, Term.value, Term.isDec, Coef.ofNat, h1]
    simp only [termsOf, List.map_cons, termOf_ofNat, accum, List.foldl_cons, hcoef, hadd]
    have := ih (pre ++ [(k, Coef.ofNat n)]) (fun kv hkv => hs kv (by simp [hkv])) (by simpa [List.append_assoc] using hnd)
    simp only [accum, termsOf] at this
    rw [this]; simp

theorem sortedKeys_nodup {d : Dict} (h : SortedKeys d) : (keysOf d).Nodup := by
  induction d with
  | nil => simp [keysOf]
  | cons x t ih =>
    simp only [keysOf, List.map_cons, List.nodup_cons]
    refine ⟨?_, ih h.2⟩
    intro hm
    simp only [List.mem_map] at hm
    obtain ⟨y, hy, hxy⟩ := hm
    exact (h.1 y hy).2 hxy.symm

theorem sortDict_sorted {d : Dict} (h : SortedKeys d) : sortDict d = d := by
  induction d with
  | nil => rfl
  | cons x t ih =>
    have e : sortDict (x :: t) = insertByKey x (sortDict t) := rfl
    rw [e, ih h.2]
    cases t with
    | nil => rfl
    | cons y t' => simp [insertByKey, (h.1 y (by simp)).1]

theorem termsOf_active (d : Dict) : (termsOf d).filter (fun t => !t.inactive) = termsOf d := by
  rw [List.filter_eq_self]; intro t ht
  simp only [termsOf, List.mem_map] at ht
  obtain ⟨kv, _, rfl⟩ := ht; rfl

theorem termsOf_inactive (d : Dict) : (termsOf d).filter (fun t => t.inactive) = [] := by
  rw [List.filter_eq_nil_iff]; intro t ht
  simp only [termsOf, List.mem_map] at ht
  obtain ⟨kv, _, rfl⟩ := ht; simp [termOf]

theorem parsedOf_termsOf {tok : Str} {a b : Dict} (ha : GoodDict tok a) (hb : GoodDict tok b) :
    parsedOf (termsOf a) (termsOf b) = ⟨a, b, [], [], none, none⟩ := by
  have nat : ∀ {d : Dict}, GoodDict tok d → ∀ kv ∈ d, ∃ n, kv.2 = Coef.ofNat n := by
    intro d hd kv hkv; obtain ⟨n, _, hc, _⟩ := hd.2 kv hkv; exact ⟨n, hc⟩
  have ea : actD (termsOf a) = a := by
    unfold actD; rw [termsOf_active]
    simpa using accum_fresh [] a (nat ha) (by simpa using sortedKeys_nodup ha.1)
  have eb : actD (termsOf b) = b := by
    unfold actD; rw [termsOf_active]
    simpa using accum_fresh [] b (nat hb) (by simpa using sortedKeys_nodup hb.1)
  have ia : inaD (termsOf a) = [] := by unfold inaD; rw [termsOf_inactive]; rfl
  have ib : inaD (termsOf b) = [] := by unfold inaD; rw [termsOf_inactive]; rfl
  unfold parsedOf
  rw [ea, eb, ia, ib, sortDict_sorted ha.1, sortDict_sorted hb.1]
  rfl

theorem goodDict_terms {tok : Str} {d : Dict} (h : GoodDict tok d) : ∀ t ∈ termsOf d, t.ok tok = true := by
  intro t ht; simp only [termsOf, List.mem_map] at ht
  obtain ⟨kv, hkv, rfl⟩ := ht; exact termOf_ok (h.2 kv hkv)

theorem natDict_integral {tok : Str} {d : Dict} (h : GoodDict tok d) : d.all (fun kv => kv.2.val.den == 1) = true := by
  rw [List.all_eq_true]; intro kv hkv
  obtain ⟨n, _, hc, _⟩ := h.2 kv hkv
  rw [hc]; simp [Coef.ofNat]

/-- parse ∘ print on a reaction without inactive groups: the printed text, with the parameter when asked for, is the
    written line of its terms; parsing returns the same dictionaries and the printed parameter text -/
theorem parse_print_gen {tok : Str} (htok : tokOK tok = true) {r : Reaction} (hre : GoodDict tok r.reac)
    (hpr : GoodDict tok r.prod) (hir : r.inactReac = []) (hip : r.inactProd = []) (heff : r.anyEffect = true)
    (wp : Bool) (hpar : wp = true → ∀ p, r.param = some p → Tight p ∧ ';' ∉ p ∧ '\n' ∉ p) :
    printReaction tok wp false r = some (writeLine tok (termsOf r.reac) (termsOf r.prod) ++
        tailText (if wp then (r.param.map (' ' :: ·)).toList else [])) ∧
      toReactionCore .none tok (writeLine tok (termsOf r.reac) (termsOf r.prod) ++
        tailText (if wp then (r.param.map (' ' :: ·)).toList else []))
        = .ok ⟨r.reac, r.prod, [], [], if wp then r.param else none, none⟩ := by
  have hr := goodDict_terms hre
  have hp := goodDict_terms hpr
  have hpo := parsedOf_termsOf hre hpr
  have he : hasEffect (termsOf r.reac) (termsOf r.prod) = true := by
    rw [← parsedOf_anyEffect, hpo]
    simpa [Reaction.anyEffect, Reaction.keys, Reaction.net, hir, hip] using heff
  have hint : integralWritten (termsOf r.reac) (termsOf r.prod) = true := by
    rw [← parsedOf_integral, hpo]
    simp [Reaction.allIntegral, Reaction.allDicts, natDict_integral hre, natDict_integral hpr]
  constructor
  · unfold printReaction; rw [reactionStr_good hre.2 hpr.2 hir hip]
    cases wp
    · cases r.param <;> simp [tailText]
    · cases hpm : r.param <;> simp [tailText, paramSeparator_is]
  · rw [toReaction_written .none htok hr hp]
    · have hA : allAllowed .none (termsOf r.reac) (termsOf r.prod) = true := by simp [allAllowed, Allowed.has]
      simp only [hA, if_true, outcome, he, hint, hpo]
      cases wp
      · simp
      · cases hpm : r.param with
        | none => simp
        | some p =>
          have := strip_pad (pre := [' ']) (post := []) (hpar rfl p hpm).1 (by simp [isPySpace_space]) (by simp)
          simp only [List.append_nil, List.cons_append, List.nil_append] at this
          simp [this]
    · intro q hq
      cases wp
      · simp at hq
      · cases hpm : r.param with
        | none => rw [hpm] at hq; simp at hq
        | some p =>
          rw [hpm] at hq; simp at hq; subst hq
          obtain ⟨_, h2, h3⟩ := hpar rfl p hpm
          exact ⟨by simp [h2], by simp [h3]⟩

theorem parse_print {tok : Str} (htok : tokOK tok = true) {r : Reaction} (hre : GoodDict tok r.reac)
    (hpr : GoodDict tok r.prod) (hir : r.inactReac = []) (hip : r.inactProd = []) (heff : r.anyEffect = true) :
    ∃ s, printReaction tok false false r = some s ∧
      toReactionCore .none tok s = .ok ⟨r.reac, r.prod, [], [], none, none⟩ := by
  have := parse_print_gen htok hre hpr hir hip heff false (by intro h; cases h)
  exact ⟨_, this.1, by simpa using this.2⟩

/-- parse ∘ print with the parameter printed: the parser receives exactly the printed parameter text -/
theorem parse_print_param {tok : Str} (htok : tokOK tok = true) {r : Reaction} (hre : GoodDict tok r.reac)
    (hpr : GoodDict tok r.prod) (hir : r.inactReac = []) (hip : r.inactProd = []) (heff : r.anyEffect = true)
    {p : Str} (hparam : r.param = some p) (hpt : Tight p) (hps : ';' ∉ p) (hpn : '\n' ∉ p) :
    ∃ s, printReaction tok true false r = some s ∧
      toReactionCore .none tok s = .ok ⟨r.reac, r.prod, [], [], some p, none⟩ := by
  have := parse_print_gen htok hre hpr hir hip heff true (by
    intro _ q hq; rw [hparam] at hq; simp at hq; subst hq; exact ⟨hpt, hps, hpn⟩)
  exact ⟨_, this.1, by simpa [hparam] using this.2⟩

/-! ### systems: `ReactionSystem.string()` then `ReactionSystem.from_string` -/

/-- a character that is no digit and none of the notation's own characters, and occurs neither in the token nor in any
    key, does not occur in the written line -/
theorem text_noChar {tok : Str} {t : Term} (h : t.ok tok = true) {c : Char} (hd : c.isDigit = false)
    (hs : c ∉ [' ', '*', '.', '(', ')']) (hk : c ∉ t.key) : c ∉ t.text := by
  have hb : c ∉ t.body := by
    rw [body_eq]; intro hm
    rcases List.mem_append.mp hm with hm | hm
    · rcases bodyPre_chars h c hm with h1 | h1 | h1 | h1
      · rw [h1] at hd; exact absurd hd (by simp)
      all_goals (subst h1; simp at hs)
    · exact hk hm
  unfold Term.text
  split
  · intro hm
    have e : '(' :: t.body ++ [')'] = ['('] ++ t.body ++ [')'] := rfl
    rw [e] at hm
    simp only [List.mem_append, List.mem_singleton] at hm
    rcases hm with (hm | hm) | hm
    · subst hm; simp at hs
    · exact hb hm
    · subst hm; simp at hs
  · exact hb

theorem sideText_noChar {tok : Str} {ts : List Term} (h : ∀ t ∈ ts, t.ok tok = true) {c : Char}
    (hd : c.isDigit = false) (hs : c ∉ [' ', '*', '.', '(', ')']) (hp : c ≠ '+') (hk : ∀ t ∈ ts, c ∉ t.key) :
    c ∉ sideText ts := by
  induction ts with
  | nil => simp [sideText, joinStrs]
  | cons t ts ih =>
    cases ts with
    | nil => simpa [sideText, joinStrs] using text_noChar (h t (by simp)) hd hs (hk t (by simp))
    | cons u ts =>
      rw [sideText_cons2]
      intro hm
      simp only [List.mem_append] at hm
      rcases hm with (hm | hm) | hm
      · exact text_noChar (h t (by simp)) hd hs (hk t (by simp)) hm
      · simp only [plusSep, List.mem_cons, List.not_mem_nil, or_false] at hm
        rcases hm with hm | hm | hm
        · subst hm; simp at hs
        · exact hp hm
        · subst hm; simp at hs
      · exact ih (fun x hx => h x (by simp [hx])) (fun x hx => hk x (by simp [hx])) hm

theorem line_noChar {tok : Str} {reac prod : List Term} (hr : ∀ t ∈ reac, t.ok tok = true)
    (hp : ∀ t ∈ prod, t.ok tok = true) {c : Char} (hd : c.isDigit = false) (hs : c ∉ [' ', '*', '.', '(', ')'])
    (hpl : c ≠ '+') (ht : c ∉ tok) (hk : ∀ t ∈ reac ++ prod, c ∉ t.key) : c ∉ writeLine tok reac prod := by
  unfold writeLine
  intro h
  simp only [List.mem_append, List.mem_cons] at h
  rcases h with h | h | h | h | h
  · exact sideText_noChar hr hd hs hpl (fun t ht' => hk t (by simp [ht'])) h
  · subst h; simp at hs
  · exact ht h
  · subst h; simp at hs
  · exact sideText_noChar hp hd hs hpl (fun t ht' => hk t (by simp [ht'])) h

theorem dropWhile_append_last {p : Char → Bool} (a : Str) {c : Char} (hc : p c = false) :
    ∃ d, (a ++ [c]).dropWhile p = d ++ [c] := by
  induction a with
  | nil => exact ⟨[], by simp [List.dropWhile, hc]⟩
  | cons x a ih =>
    simp only [List.cons_append, List.dropWhile]
    cases p x
    · exact ⟨x :: a, rfl⟩
    · exact ih

/-- `strip` keeps the first character of a text that starts with a non-blank after its leading blanks -/
theorem strip_head {pre x : Str} {c : Char} (hpre : ∀ d ∈ pre, isPySpace d = true) (hc : isPySpace c = false) :
    ∃ r, strip (pre ++ c :: x) = c :: r := by
  unfold strip lstrip rstrip
  rw [dropWhile_pre hpre (by intro d hd; simp at hd; subst hd; exact hc)]
  have e : (c :: x).reverse = x.reverse ++ [c] := by simp
  obtain ⟨d, hd⟩ := dropWhile_append_last (p := isPySpace) x.reverse hc
  rw [e, hd]
  exact ⟨d.reverse, by simp⟩

/-- first character of a printed line after `strip`: a digit, the first character of the first reactant key, or the
    first character of the token -/
theorem printed_head {tok : Str} (htok : tokOK tok = true) {a b : Dict} (ha : GoodDict tok a) (hb : GoodDict tok b)
    (T : Str) : ∃ c r, strip (writeLine tok (termsOf a) (termsOf b) ++ T) = c :: r ∧
      (c.isDigit = true ∨ tok.head? = some c ∨ ∃ kv ∈ a, kv.1.head? = some c) := by
  have hr := goodDict_terms ha
  have hp := goodDict_terms hb
  have hcore := core_tight htok hr hp
  rw [line_decomp]
  cases hcr : Rp (termsOf a) ++ tok ++ Pp (termsOf b) with
  | nil => exact absurd hcr hcore.1
  | cons c x =>
    have hcs : isPySpace c = false := hcore.2.1 c (by rw [hcr]; rfl)
    have e : leadOf (termsOf a) ++ (c :: x) ++ leadOf (termsOf b) ++ T
        = leadOf (termsOf a) ++ c :: (x ++ leadOf (termsOf b) ++ T) := by simp
    obtain ⟨r, hr'⟩ := strip_head (pre := leadOf (termsOf a)) (x := x ++ leadOf (termsOf b) ++ T) (c := c)
      (by rcases lead_cases (termsOf a) with h | h <;> simp [h, isPySpace_space]) hcs
    refine ⟨c, r, by rw [e]; exact hr', ?_⟩
    -- where does `c` come from?
    cases a with
    | nil =>
      right; left
      have : Rp (termsOf ([] : Dict)) = [] := rfl
      rw [this, List.nil_append] at hcr
      obtain ⟨hne, _⟩ := tokOK_spec htok
      cases tok with
      | nil => exact absurd rfl hne
      | cons t0 ts => simp at hcr; simp [hcr.1]
    | cons kv a' =>
      obtain ⟨k, cf⟩ := kv
      obtain ⟨n, hn, hcf, hk, _⟩ := ha.2 (k, cf) (by simp)
      simp only at hcf hk; subst hcf
      have hst : ∃ rest, Rp (termsOf ((k, Coef.ofNat n) :: a')) = (termOf (k, Coef.ofNat n)).text ++ rest := by
        unfold Rp
        simp only [termsOf, List.map_cons, reduceCtorEq, if_false]
        cases a' with
        | nil => exact ⟨[' '], by simp [sideText, joinStrs]⟩
        | cons y ys =>
          refine ⟨plusSep ++ sideText (termOf y :: ys.map termOf) ++ [' '], ?_⟩
          simp only [List.map_cons]
          rw [sideText_cons2]; simp [List.append_assoc]
      obtain ⟨rest, hrest⟩ := hst
      rw [hrest, termOf_ofNat] at hcr
      by_cases h1 : n = 1
      · right; right
        refine ⟨(k, Coef.ofNat n), by simp, ?_⟩
        simp only [h1, if_true, Term.text, Term.body, Bool.false_eq_true, if_false] at hcr
        obtain ⟨hkne, _⟩ := keyOK_spec hk
        cases k with
        | nil => exact absurd rfl hkne
        | cons k0 ks => simp at hcr; simp [hcr.1]
      · left
        simp only [h1, if_false, Term.text, Term.body, Bool.false_eq_true] at hcr
        obtain ⟨d0, dr, hdr, hd0⟩ := natStr_head_digit n
        rw [hdr] at hcr; simp at hcr; rw [← hcr.1]; exact hd0

/-! ### the `eval` layer on written lines -/

/-- on a written line with at most a parameter part (no keyword part), `from_string` is the eval-free core followed by
    the treatment of the parameter text -/
theorem toReaction_lift {tok : Str} (ev : Bool) (allowed : Allowed) (htok : tokOK tok = true) {reac prod : List Term}
    (hr : ∀ t ∈ reac, t.ok tok = true) (hp : ∀ t ∈ prod, t.ok tok = true) (tl : List Str)
    (htl : ∀ p ∈ tl, ';' ∉ p ∧ '\n' ∉ p) (hlen : tl.length ≤ 1)
    (hev : ev = true → paramEvalOK (tl.head?.map strip) = true) :
    toReaction ev allowed tok (writeLine tok reac prod ++ tailText tl) =
      match toReactionCore allowed tok (writeLine tok reac prod ++ tailText tl) with
      | .error e => .error e
      | .ok r => .ok { r with param := finalParam ev r.param, name := none } := by
  unfold toReaction
  rw [parts_written htok hr hp tl htl]
  have h2 : ¬ ((writeLine tok reac prod :: tl).length > 2) := by simp; omega
  simp only [h2, if_false, List.drop_succ_cons, List.drop_zero]
  cases ev
  · simp; rfl
  · simp [hev rfl]; rfl

/-- a parameter text that `eval` turns into a number: not the quoted form, not `None`, a Python numeric literal
    (every `%.3g` / `str(int)` output is) -/
def NumText (p : Str) : Prop := classifyParam p = .expr p ∧ p ≠ "None".toList ∧ pyNumLit p = true

theorem finalParam_num {p : Str} (h : NumText p) : finalParam true (some p) = some p ∧ paramEvalOK (some p) = true := by
  obtain ⟨h1, h2, h3⟩ := h
  have e : "None".toList = ['N', 'o', 'n', 'e'] := by decide
  rw [e] at h2
  simp [finalParam, paramEvalOK, h1, h2, h3]

/-- a reaction that `ReactionSystem.string()` prints in a way `from_string` reads back -/
structure Printable (tok : Str) (cts : List Str) (wp : Bool) (r : Reaction) : Prop where
  reac : GoodDict tok r.reac
  prod : GoodDict tok r.prod
  noInactR : r.inactReac = []
  noInactP : r.inactProd = []
  effect : r.anyEffect = true
  /-- a printed parameter text is non-empty, without surrounding blanks, `;` or newline (every `%.3g` output is) -/
  param : wp = true → ∀ p, r.param = some p → Tight p ∧ ';' ∉ p ∧ '\n' ∉ p ∧ NumText p
  /-- no key contains a newline -/
  noNewline : ∀ kv ∈ r.reac ++ r.prod, '\n' ∉ kv.1
  /-- the printed line does not look like a comment: no comment token starts with a digit, with the first character of
      the token or with the first character of a reactant key (and none is empty) -/
  noComment : ∀ ct ∈ cts, ∃ c0 rest, ct = c0 :: rest ∧ c0.isDigit = false ∧ tok.head? ≠ some c0 ∧
      ∀ kv ∈ r.reac, kv.1.head? ≠ some c0

def lineOf (tok : Str) (wp : Bool) (r : Reaction) : Str :=
  writeLine tok (termsOf r.reac) (termsOf r.prod) ++ tailText (if wp then (r.param.map (' ' :: ·)).toList else [])

/-- what `from_string` returns for a printed reaction: same dictionaries, the printed parameter text, no name -/
def normal (wp : Bool) (r : Reaction) : Reaction := ⟨r.reac, r.prod, [], [], if wp then r.param else none, none⟩

theorem lineOf_facts {tok : Str} {cts : List Str} {wp : Bool} {r : Reaction} (htok : tokOK tok = true)
    (hnl : '\n' ∉ tok) (h : Printable tok cts wp r) :
    printReaction tok wp false r = some (lineOf tok wp r) ∧ toReactionCore .none tok (lineOf tok wp r) = .ok (normal wp r) ∧
    '\n' ∉ lineOf tok wp r ∧ (strip (lineOf tok wp r) != [] && !(cts.any fun ct => startsWith ct (strip (lineOf tok wp r)))) = true := by
  obtain ⟨h1, h2⟩ := parse_print_gen htok h.reac h.prod h.noInactR h.noInactP h.effect wp
    (fun hw p hp => ⟨(h.param hw p hp).1, (h.param hw p hp).2.1, (h.param hw p hp).2.2.1⟩)
  refine ⟨h1, h2, ?_, ?_⟩
  · unfold lineOf
    intro hm
    rcases List.mem_append.mp hm with hm | hm
    · refine line_noChar (goodDict_terms h.reac) (goodDict_terms h.prod) (by decide) (by decide) (by decide) hnl ?_ hm
      intro t ht
      simp only [termsOf, ← List.map_append, List.mem_map] at ht
      obtain ⟨kv, hkv, rfl⟩ := ht
      exact h.noNewline kv hkv
    · rcases mem_tailText hm with h3 | ⟨q, hq, hcq⟩
      · exact absurd h3 (by decide)
      · cases wp
        · simp at hq
        · cases hpm : r.param with
          | none => rw [hpm] at hq; simp at hq
          | some p =>
            rw [hpm] at hq; simp at hq; subst hq
            simp only [List.mem_cons] at hcq
            rcases hcq with hcq | hcq
            · exact absurd hcq (by decide)
            · exact (h.param rfl p hpm).2.2.1 hcq
  · obtain ⟨c, rr, hs, hc⟩ := printed_head htok h.reac h.prod (tailText (if wp then (r.param.map (' ' :: ·)).toList else []))
    unfold lineOf
    rw [hs]
    simp only [Bool.and_eq_true, bne_iff_ne, ne_eq, reduceCtorEq, not_false_eq_true, Bool.not_eq_true', true_and]
    rw [List.any_eq_false]
    intro ct hct
    obtain ⟨c0, rest, hct0, hd0, ht0, hk0⟩ := h.noComment ct hct
    rw [hct0]
    simp only [startsWith, List.isPrefixOf, Bool.and_eq_true, beq_iff_eq, not_and, Bool.not_eq_true]
    intro e; exfalso
    subst e
    rcases hc with hc | hc | ⟨kv, hkv, hc⟩
    · rw [hc] at hd0; exact absurd hd0 (by simp)
    · exact ht0 hc
    · exact hk0 kv hkv hc

theorem split_lines (ls : List Str) (hne : ls ≠ []) (h : ∀ l ∈ ls, '\n' ∉ l) :
    pySplit ['\n'] (joinStrs ['\n'] ls) = ls := by
  induction ls with
  | nil => exact absurd rfl hne
  | cons l ls ih =>
    have h1 : isInfixB ['\n'] l = false :=
      isInfixB_false_of_not_mem (by simp) (fun c hc => by simp only [List.mem_singleton]; intro e; subst e; exact h _ (by simp) hc)
    cases ls with
    | nil => simpa [joinStrs] using pySplit_none h1
    | cons m ls =>
      simp only [joinStrs]
      rw [pySplit_first _ (by simp) (by simpa using h1), ih (by simp) (fun x hx => h x (by simp [hx]))]

theorem joinStrs_snoc_nil (sep : Str) (ls : List Str) (hne : ls ≠ []) :
    joinStrs sep (ls ++ [[]]) = joinStrs sep ls ++ sep := by
  induction ls with
  | nil => exact absurd rfl hne
  | cons l ls ih =>
    cases ls with
    | nil => simp [joinStrs]
    | cons m ls =>
      have := ih (by simp)
      simp only [List.cons_append, joinStrs] at this ⊢
      rw [this]; simp [List.append_assoc]

theorem print_lines (tok : Str) (wp : Bool) (rs : List Reaction)
    (h : ∀ r ∈ rs, printReaction tok wp false r = some (lineOf tok wp r)) :
    mapOption (printReaction tok wp false) rs = some (rs.map (lineOf tok wp)) := by
  induction rs with
  | nil => rfl
  | cons r rs ih =>
    simp only [mapOption, h r (by simp), ih (fun x hx => h x (by simp [hx])), List.map_cons]

theorem parse_lines (tok : Str) (wp : Bool) (rs : List Reaction)
    (h : ∀ r ∈ rs, toReactionCore .none tok (lineOf tok wp r) = .ok (normal wp r)) :
    mapExcept (toReactionCore .none tok) (rs.map (lineOf tok wp)) = .ok (rs.map (normal wp)) := by
  induction rs with
  | nil => rfl
  | cons r rs ih =>
    simp only [List.map_cons, mapExcept, h r (by simp), ih (fun x hx => h x (by simp [hx]))]

/-- the lines `from_string` keeps from a printed system are exactly the printed reaction lines -/
theorem systemLines_printed (cts : List Str) (ls : List Str) (hnl : ∀ l ∈ ls, '\n' ∉ l)
    (hkeep : ∀ l ∈ ls, (strip l != [] && !(cts.any fun ct => startsWith ct (strip l))) = true) :
    systemLines cts (joinStrs ['\n'] ls ++ ['\n']) = ls := by
  unfold systemLines
  rw [systemSep_is.1]
  by_cases hne : ls = []
  · subst hne
    have : pySplit ['\n'] (joinStrs ['\n'] [] ++ ['\n']) = [[], []] := by decide
    rw [this]
    simp [strip_nil]
  · rw [← joinStrs_snoc_nil _ _ hne, split_lines _ (by simp) (by
      intro l hl; simp only [List.mem_append, List.mem_singleton] at hl
      rcases hl with hl | hl
      · exact hnl l hl
      · subst hl; simp)]
    rw [List.filter_append]
    have h1 : ls.filter (fun r => strip r != [] && !(cts.any fun tok => startsWith tok (strip r))) = ls := by
      rw [List.filter_eq_self]; exact hkeep
    rw [h1]; simp [strip_nil]

/-- the eval layer on a printed line: with an evaluating context the numeric parameter text is kept -/
theorem lineOf_lift {tok : Str} {cts : List Str} {wp : Bool} {r : Reaction} (htok : tokOK tok = true)
    (hnl : '\n' ∉ tok) (h : Printable tok cts wp r) :
    toReaction true .none tok (lineOf tok wp r) = .ok (normal wp r) := by
  have hcore := (lineOf_facts htok hnl h).2.1
  have htl : ∀ q ∈ (if wp then (r.param.map (' ' :: ·)).toList else []), ';' ∉ q ∧ '\n' ∉ q := by
    intro q hq
    cases wp
    · simp at hq
    · cases hpm : r.param with
      | none => rw [hpm] at hq; simp at hq
      | some p =>
        rw [hpm] at hq; simp at hq; subst hq
        obtain ⟨_, h2, h3, _⟩ := h.param rfl p hpm
        exact ⟨by simp [h2], by simp [h3]⟩
  unfold lineOf at hcore ⊢
  rw [toReaction_lift true .none htok (goodDict_terms h.reac) (goodDict_terms h.prod) _ htl
      (by cases wp <;> cases r.param <;> simp), hcore]
  · simp only [normal]
    cases wp
    · simp [finalParam]
    · cases hpm : r.param with
      | none => simp [finalParam]
      | some p => simp [(finalParam_num (h.param rfl p hpm).2.2.2).1]
  · intro _
    cases wp
    · simp [paramEvalOK]
    · cases hpm : r.param with
      | none => simp [paramEvalOK]
      | some p =>
        have hs := strip_pad (pre := [' ']) (post := []) (h.param rfl p hpm).1 (by simp [isPySpace_space]) (by simp)
        simp only [List.append_nil, List.cons_append, List.nil_append] at hs
        simp [hs, (finalParam_num (h.param rfl p hpm).2.2.2).2]

theorem parse_lines' (tok : Str) (wp : Bool) (rs : List Reaction)
    (h : ∀ r ∈ rs, toReaction true .none tok (lineOf tok wp r) = .ok (normal wp r)) :
    mapExcept (toReaction true .none tok) (rs.map (lineOf tok wp)) = .ok (rs.map (normal wp)) := by
  induction rs with
  | nil => rfl
  | cons r rs ih =>
    simp only [List.map_cons, mapExcept, h r (by simp), ih (fun x hx => h x (by simp [hx]))]

/-- **print a system, then parse it** (no names, no inactive groups): `from_string` returns the reactions with the
    same dictionaries and the printed parameter texts -/
theorem system_print_parse {tok : Str} (cts : List Str) (wp : Bool) (rs : List Reaction) (htok : tokOK tok = true)
    (hnl : '\n' ∉ tok) (h : ∀ r ∈ rs, Printable tok cts wp r) :
    ∃ text, printSystem tok wp false none rs = some text ∧
      systemFromString true cts .none tok text = .ok (rs.map (normal wp)) := by
  have hf := fun r hr => lineOf_facts htok hnl (h r hr)
  refine ⟨joinStrs ['\n'] (rs.map (lineOf tok wp)) ++ ['\n'], ?_, ?_⟩
  · unfold printSystem
    rw [print_lines tok wp rs (fun r hr => (hf r hr).1)]
    simp [systemSep_is.2]
  · unfold systemFromString
    rw [systemLines_printed cts _ (by
        intro l hl; simp only [List.mem_map] at hl; obtain ⟨r, hr, rfl⟩ := hl; exact (hf r hr).2.2.1) (by
        intro l hl; simp only [List.mem_map] at hl; obtain ⟨r, hr, rfl⟩ := hl; exact (hf r hr).2.2.2)]
    exact parse_lines' tok wp rs (fun r hr => lineOf_lift htok hnl (h r hr))

theorem normal_eq {wp : Bool} {r : Reaction} (hir : r.inactReac = []) (hip : r.inactProd = [])
    (hp : wp = true ∨ r.param = none) : Reaction.eq (normal wp r) r = true := by
  have : (if wp then r.param else none) = r.param := by
    rcases hp with h | h
    · simp [h]
    · cases wp <;> simp [h]
  simp [Reaction.eq, normal, dictEq_refl, hir, hip, dictEq, this]

/-- `_init_stoich` leaves an OrderedDict exactly as it is -/
theorem initStoich_ordered (d : Dict) : initStoich .ordered d = d := rfl


/-! ### the parsed dictionaries are in strictly increasing key order -/

theorem strLe_total {a b : Str} (h : strLe a b = false) : strLe b a = true := by
  induction a generalizing b with
  | nil => simp [strLe] at h
  | cons x a ih =>
    cases b with
    | nil => rfl
    | cons y b =>
      simp only [strLe, Bool.or_eq_false_iff, decide_eq_false_iff_not, Bool.and_eq_false_iff, beq_eq_false_iff_ne] at h
      simp only [strLe, Bool.or_eq_true, decide_eq_true_eq, Bool.and_eq_true, beq_iff_eq]
      by_cases hxy : x = y
      · subst hxy
        right; refine ⟨rfl, ih ?_⟩
        rcases h.2 with h2 | h2
        · exact absurd rfl h2
        · exact h2
      · left
        have : x.toNat ≠ y.toNat := fun e => hxy (Char.ext (by
          have := congrArg UInt32.ofNat e; simpa [Char.toNat] using UInt32.toNat_inj.mp e))
        omega

theorem strLe_trans {a b c : Str} (h1 : strLe a b = true) (h2 : strLe b c = true) : strLe a c = true := by
  induction a generalizing b c with
  | nil => rfl
  | cons x a ih =>
    cases b with
    | nil => simp [strLe] at h1
    | cons y b =>
      cases c with
      | nil => simp [strLe] at h2
      | cons z c =>
        simp only [strLe, Bool.or_eq_true, decide_eq_true_eq, Bool.and_eq_true, beq_iff_eq] at h1 h2 ⊢
        rcases h1 with h1 | ⟨e1, h1⟩ <;> rcases h2 with h2 | ⟨e2, h2⟩
        · left; omega
        · subst e2; left; exact h1
        · subst e1; left; exact h2
        · subst e1; subst e2; right; exact ⟨rfl, ih h1 h2⟩

theorem sortedKeys_insertByKey {kv : Str × Coef} {d : Dict} (hk : kv.1 ∉ keysOf d) (hd : SortedKeys d) :
    SortedKeys (insertByKey kv d) := by
  induction d with
  | nil => exact ⟨by simp, trivial⟩
  | cons x t ih =>
    have hne : kv.1 ≠ x.1 := fun e => hk (by simp [keysOf, e])
    have hnt : kv.1 ∉ keysOf t := fun e => hk (by simp only [keysOf, List.map_cons, List.mem_cons]; right; exact e)
    simp only [insertByKey]
    split
    · rename_i hle
      refine ⟨?_, hd⟩
      intro y hy
      simp only [List.mem_cons] at hy
      rcases hy with hy | hy
      · subst hy; exact ⟨hle, hne⟩
      · refine ⟨strLe_trans hle (hd.1 y hy).1, ?_⟩
        intro e; exact hnt (by rw [e]; exact List.mem_map.mpr ⟨y, hy, rfl⟩)
    · rename_i hle
      have hle' : strLe x.1 kv.1 = true := strLe_total (by simpa using hle)
      refine ⟨?_, ih hnt hd.2⟩
      intro y hy
      rw [mem_insertByKey] at hy
      rcases hy with hy | hy
      · subst hy; exact ⟨hle', fun e => hne e.symm⟩
      · exact hd.1 y hy

theorem sortedKeys_sortDict {d : Dict} (hd : (keysOf d).Nodup) : SortedKeys (sortDict d) := by
  induction d with
  | nil => trivial
  | cons x t ih =>
    simp only [keysOf, List.map_cons, List.nodup_cons] at hd
    have e : sortDict (x :: t) = insertByKey x (sortDict t) := rfl
    rw [e]
    exact sortedKeys_insertByKey (by rw [mem_keys_sortDict]; exact hd.1) (ih hd.2)

/-- parse ∘ print through the full `from_string` (eval layer included) for a reaction without inactive groups -/
theorem parse_print_full {tok : Str} (htok : tokOK tok = true) {r : Reaction} (hre : GoodDict tok r.reac)
    (hpr : GoodDict tok r.prod) (hir : r.inactReac = []) (hip : r.inactProd = []) (heff : r.anyEffect = true)
    (ev wp : Bool) (hpar : wp = true → ∀ p, r.param = some p → Tight p ∧ ';' ∉ p ∧ '\n' ∉ p)
    (hev : ev = true → wp = true → ∀ p, r.param = some p → paramEvalOK (some p) = true) :
    ∃ s, printReaction tok wp false r = some s ∧
      toReaction ev .none tok s = .ok ⟨r.reac, r.prod, [], [], finalParam ev (if wp then r.param else none), none⟩ := by
  obtain ⟨hprint, hcore⟩ := parse_print_gen htok hre hpr hir hip heff wp hpar
  refine ⟨_, hprint, ?_⟩
  have htl : ∀ q ∈ (if wp then (r.param.map (' ' :: ·)).toList else []), ';' ∉ q ∧ '\n' ∉ q := by
    intro q hq
    cases wp
    · simp at hq
    · cases hpm : r.param with
      | none => rw [hpm] at hq; simp at hq
      | some p =>
        rw [hpm] at hq; simp at hq; subst hq
        obtain ⟨_, h2, h3⟩ := hpar rfl p hpm
        exact ⟨by simp [h2], by simp [h3]⟩
  rw [toReaction_lift ev .none htok (goodDict_terms hre) (goodDict_terms hpr) _ htl
      (by cases wp <;> cases r.param <;> simp), hcore]
  intro hevt
  cases wp
  · simp [paramEvalOK]
  · cases hpm : r.param with
    | none => simp [paramEvalOK]
    | some p =>
      have hs := strip_pad (pre := [' ']) (post := []) (hpar rfl p hpm).1 (by simp [isPySpace_space]) (by simp)
      simp only [List.append_nil, List.cons_append, List.nil_append] at hs
      simp [hs, hev hevt rfl p hpm]

/-! ### restated / definitional facts (kept out of Props) -/

/-- `copy()` goes through the constructor with OrderedDict containers, which `_init_stoich` keeps: same dictionaries in
    the same order, equal, same printed text (the modelling decision "copy.copy keeps the OrderedDict type" is tied by the
    correspondence; see `copy_through_dict_resorts_witness` in Props for why it matters) -/
theorem copy_eq (arrow : Str) (wp wn : Bool) (r : Reaction) :
    r.copy.reac = r.reac ∧ r.copy.prod = r.prod ∧ r.copy.inactReac = r.inactReac ∧ r.copy.inactProd = r.inactProd ∧
    Reaction.eq r.copy r = true ∧ printReaction arrow wp wn r.copy = printReaction arrow wp wn r :=
  ⟨rfl, rfl, rfl, rfl, Reaction.eq_refl r, rfl⟩

/-- `OrderedDict == OrderedDict`: same keys in the same order and numerically equal values (int 2 == float 2.0) -/
theorem dictEq_iff (d1 d2 : Dict) :
    dictEq d1 d2 = true ↔ keysOf d1 = keysOf d2 ∧ d1.map (·.2.val) = d2.map (·.2.val) := by
  induction d1 generalizing d2 with
  | nil => cases d2 <;> simp [dictEq, keysOf]
  | cons x t ih =>
    obtain ⟨k, v⟩ := x
    cases d2 with
    | nil => simp [dictEq, keysOf]
    | cons y t2 =>
      obtain ⟨k2, v2⟩ := y
      simp only [dictEq, Bool.and_eq_true, beq_iff_eq, ih t2, keysOf, List.map_cons, List.cons.injEq]
      constructor
      · rintro ⟨⟨h1, h2⟩, h3, h4⟩; exact ⟨⟨h1, h3⟩, h2, h4⟩
      · rintro ⟨⟨h1, h3⟩, h2, h4⟩; exact ⟨⟨h1, h2⟩, h3, h4⟩

/-- whatever the full reader returns comes from the eval-free core with the same four dictionaries -/
theorem toReaction_core {ev : Bool} {allowed : Allowed} {tok line : Str} {r : Reaction}
    (h : toReaction ev allowed tok line = .ok r) :
    ∃ r0, toReactionCore allowed tok line = .ok r0 ∧ r.reac = r0.reac ∧ r.prod = r0.prod ∧
      r.inactReac = r0.inactReac ∧ r.inactProd = r0.inactProd := by
  unfold toReaction at h
  simp only at h
  split at h
  · simp at h
  · split at h
    · simp at h
    · split at h
      · simp at h
      · rename_i r0 hr0
        simp at h; subst h
        exact ⟨r0, hr0, rfl, rfl, rfl, rfl⟩

/-! ### the `checks` / `dont_check` lists -/

theorem runChecks_ok_iff (r : Reaction) (l : List String) :
    r.runChecks l = .ok () ↔ ∀ c ∈ l, r.runCheck c = .ok () := by
  induction l with
  | nil => simp [Reaction.runChecks]
  | cons c l ih =>
    simp only [Reaction.runChecks, List.mem_cons, forall_eq_or_imp]
    cases h : r.runCheck c with
    | ok u => cases u; simp [ih]
    | error e => simp

theorem runCheck_ok_iff (r : Reaction) (c : String) :
    r.runCheck c = .ok () ↔
      (c = "any_effect" ∧ r.anyEffect = true) ∨ (c = "all_positive" ∧ r.allPositive = true) ∨
      (c = "all_integral" ∧ r.allIntegral = true) ∨ c = "consistent_units" := by
  unfold Reaction.runCheck
  by_cases h1 : c = "any_effect"
  · subst h1; cases r.anyEffect <;> simp
  · by_cases h2 : c = "all_positive"
    · subst h2; cases r.allPositive <;> simp
    · by_cases h3 : c = "all_integral"
      · subst h3; cases r.allIntegral <;> simp
      · by_cases h4 : c = "consistent_units"
        · subst h4; simp
        · simp [h1, h2, h3, h4]

theorem mem_symDiff (a b : List String) (c : String) :
    c ∈ symDiff a b ↔ (c ∈ a ∧ c ∉ b) ∨ (c ∈ b ∧ c ∉ a) := by
  simp [symDiff, List.mem_append, List.mem_filter]

theorem map_ok_iff (x : Except CheckErr Unit) (r : Reaction) : (x.map fun _ => r) = .ok r ↔ x = .ok () := by
  cases x with
  | ok u => cases u; simp [Except.map]
  | error e => simp [Except.map]
theorem defaultChecks_mem (c : String) :
    c ∈ Printing.defaultChecks ↔ c = "all_integral" ∨ c = "all_positive" ∨ c = "any_effect" ∨ c = "consistent_units" := by
  have : Printing.defaultChecks = ["all_integral", "all_positive", "any_effect", "consistent_units"] := by decide
  rw [this]; simp


/-! ### exponent form of a coefficient text -/

theorem outOfRange_exp {m k : Nat} (hm1 : 1 ≤ m) (hk : k ≤ 285) (hm2 : m < 10 ^ 15) :
    outOfRange m ((k : Int) - (0 : Nat)) = false := by
  unfold outOfRange
  have hE1 : (decide ((k : Int) - ((0 : Nat) : Int) > 400) || decide ((k : Int) - ((0 : Nat) : Int) < -400)) = false := by
    simp only [Bool.or_eq_false_iff, decide_eq_false_iff_not]; constructor <;> omega
  have hE2 : (k : Int) - ((0 : Nat) : Int) ≥ 0 := by omega
  have hk2 : ((k : Int) - ((0 : Nat) : Int)).toNat = k := by omega
  rw [if_neg (by rw [hE1]; simp), if_pos hE2, hk2]
  have : m * 10 ^ k < 10 ^ 300 := by
    have a : m * 10 ^ k < 10 ^ 15 * 10 ^ k := Nat.mul_lt_mul_of_pos_right hm2 (Nat.pow_pos (by decide))
    have b : 10 ^ 15 * 10 ^ k ≤ 10 ^ 300 := by rw [← Nat.pow_add]; exact Nat.pow_le_pow_right (by decide) (by omega)
    omega
  simp; omega

/-- `float("<m>e<k>")` is exactly `m · 10^k` -/
theorem pyFloat_exp {m k : Nat} (hm : 1 ≤ m) (hlen : (natStr m).length ≤ 15) (hk : k ≤ 285) :
    pyFloat (natStr m ++ 'e' :: natStr k) = .ok ((m : Rat) * ((10 ^ k : Nat) : Rat)) := by
  obtain ⟨c0, r0, hcr, hc0⟩ := natStr_head_digit m
  obtain ⟨k0, kr, hkr, hk0⟩ := natStr_head_digit k
  have hchars : ∀ c ∈ natStr m ++ 'e' :: natStr k, c.isDigit = true ∨ c = 'e' := by
    intro c hc; simp only [List.mem_append, List.mem_cons] at hc
    rcases hc with hc | hc | hc
    · exact Or.inl (natStr_digits hc)
    · exact Or.inr hc
    · exact Or.inl (natStr_digits hc)
  have htight : Tight (natStr m ++ 'e' :: natStr k) := by
    refine tight_append (natStr_ne_nil m) (by simp) (natStr_tight m).2.1 ?_
    intro c hc
    rw [List.getLast?_cons_of_ne_nil (natStr_ne_nil k)] at hc
    exact digit_not_space (natStr_digits (List.mem_of_getLast? hc))
  have hany : (natStr m ++ 'e' :: natStr k).any (fun c => decide (c.toNat ≥ 128)) = false := by
    rw [List.any_eq_false]; intro c hc
    rcases hchars c hc with h1 | h1
    · have := digit_range h1; simp; omega
    · subst h1; decide
  have hsign : splitSign (natStr m ++ 'e' :: natStr k) = (false, natStr m ++ 'e' :: natStr k) := by
    rw [hcr]
    have h1 : c0 ≠ '-' := digit_ne hc0 (by decide)
    have h2 : c0 ≠ '+' := digit_ne hc0 (by decide)
    simp only [List.cons_append]
    unfold splitSign; split
    · rename_i heq; simp at heq; exact absurd heq.1 h1
    · rename_i heq; simp at heq; exact absurd heq.1 h2
    · rfl
  have hsignk : splitSign (natStr k) = (false, natStr k) := by
    rw [hkr]
    have h1 : k0 ≠ '-' := digit_ne hk0 (by decide)
    have h2 : k0 ≠ '+' := digit_ne hk0 (by decide)
    unfold splitSign; split
    · rename_i heq; simp at heq; exact absurd heq.1 h1
    · rename_i heq; simp at heq; exact absurd heq.1 h2
    · rfl
  have hlow : ∀ w : Str, (∀ x r, w = x :: r → x.isDigit = false) → w ≠ [] →
      ((natStr m ++ 'e' :: natStr k).map Char.toLower == w) = false := by
    intro w hw hwne
    rw [beq_eq_false_iff_ne]
    intro e
    cases w with
    | nil => exact hwne rfl
    | cons x r =>
      rw [hcr] at e
      simp only [List.cons_append, List.map_cons, List.cons.injEq] at e
      have := hw x r rfl
      rw [← e.1, toLower_digit hc0, hc0] at this
      exact absurd this (by simp)
  have hinf : ((natStr m ++ 'e' :: natStr k).map Char.toLower == "inf".toList) = false :=
    hlow _ (by intro x r e; have : "inf".toList = ['i', 'n', 'f'] := by decide
               rw [this] at e; simp at e; have e1 := e.1; subst e1; decide) (by decide)
  have hinfty : ((natStr m ++ 'e' :: natStr k).map Char.toLower == "infinity".toList) = false :=
    hlow _ (by intro x r e; have : "infinity".toList = ['i', 'n', 'f', 'i', 'n', 'i', 't', 'y'] := by decide
               rw [this] at e; simp at e; have e1 := e.1; subst e1; decide) (by decide)
  have hnan : ((natStr m ++ 'e' :: natStr k).map Char.toLower == "nan".toList) = false :=
    hlow _ (by intro x r e; have : "nan".toList = ['n', 'a', 'n'] := by decide
               rw [this] at e; simp at e; have e1 := e.1; subst e1; decide) (by decide)
  have hnoeM : ∀ c ∈ natStr m, (c != 'e' && c != 'E') = true := by
    intro c hc
    have a : c ≠ 'e' := digit_ne (natStr_digits hc) (by decide)
    have b : c ≠ 'E' := digit_ne (natStr_digits hc) (by decide)
    simp [a, b]
  have hmant : (natStr m ++ 'e' :: natStr k).takeWhile (fun c => c != 'e' && c != 'E') = natStr m :=
    takeWhile_pre hnoeM (by decide)
  have hrest : (natStr m ++ 'e' :: natStr k).dropWhile (fun c => c != 'e' && c != 'E') = 'e' :: natStr k :=
    dropWhile_pre hnoeM (by intro c hc; simp at hc; subst hc; decide)
  have hnodot : ∀ c ∈ natStr m, (c != '.') = true := by
    intro c hc
    have : c ≠ '.' := digit_ne (natStr_digits hc) (by decide)
    simpa using this
  have hip := takeWhile_all hnodot
  have hoi : optDigits (natStr m) = some m := by
    unfold optDigits
    have : (natStr m).isEmpty = false := by rw [hcr]; rfl
    rw [this]; simp only [Bool.false_eq_true, if_false]
    rw [digitPart_of_digits (natStr_ne_nil m) (fun c hc => natStr_digits hc), digitsVal_natStr]
  have hdk : digitPart (natStr k) = some k := by
    rw [digitPart_of_digits (natStr_ne_nil k) (fun c hc => natStr_digits hc), digitsVal_natStr]
  have hipe : (natStr m).isEmpty = false := by rw [hcr]; rfl
  have hfn := filter_us_digits (s := natStr m) (fun c hc => natStr_digits hc)
  have hL : m < 10 ^ (natStr m).length :=
    (Nat.length_toDigits_le_iff (by decide) (List.length_pos_iff.mpr (natStr_ne_nil m))).mp (Nat.le_refl _)
  have hm2 : m < 10 ^ 15 := Nat.lt_of_lt_of_le hL (Nat.pow_le_pow_right (by decide) hlen)
  have hm0 : (m * 10 ^ 0 + 0 == 0) = false := by rw [beq_eq_false_iff_ne]; omega
  have hnd : ¬ ((natStr m).length + 0 > 15) := by omega
  have hoor := outOfRange_exp hm hk hm2
  have hE2 : (k : Int) - ((0 : Nat) : Int) ≥ 0 := by omega
  have hk2 : ((k : Int) - ((0 : Nat) : Int)).toNat = k := by omega
  unfold pyFloat
  simp only [strip_tight htight, hany, hsign, hinf, hinfty, hnan, hmant, hrest, hsignk, hdk, hip.1, hip.2, hoi, hipe,
    hfn, List.drop, optDigits, List.isEmpty_nil, if_true, List.filter_nil, List.length_nil, Nat.pow_zero, Nat.mul_one,
    Nat.add_zero, hnd, hoor, Bool.false_eq_true, if_false, Bool.or_self, Bool.false_and, scale10, hE2, hk2]
  have hdm : digitPart (natStr m) = some m := by
    rw [digitPart_of_digits (natStr_ne_nil m) (fun c hc => natStr_digits hc), digitsVal_natStr]
  have hnd' : ¬ ((natStr m).length > 15) := by omega
  have hm0' : (m + 0 == 0) = false := by rw [beq_eq_false_iff_ne]; omega
  have hoor' : outOfRange (m + 0) ((k : Int) - ((0 : Nat) : Int)) = false := by simpa using hoor
  rw [hdm]
  simp only [hnd', hm0', hoor', hE2, hk2, if_false, if_true, Bool.false_eq_true, Nat.add_zero]
  have hm0'' : (m == 0) = false := by rw [beq_eq_false_iff_ne]; omega
  simp [hm0'']
  simpa using hoor

end ChemModel.ReactionText
