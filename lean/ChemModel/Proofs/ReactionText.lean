/-
Helper lemmas for C12 (reaction text).  Core Lean only.
-/
import ChemModel.Model.ReactionText

namespace ChemModel.ReactionText
open ChemModel.Gen

/-! ### guards: the separators the proofs are about are the ones in the source -/

theorem partSep_is : Printing.partSep = [';'] := by decide
theorem termSep_is : Printing.termSep = [' ', '+', ' '] := by decide
theorem lineEnd_is : Printing.lineEnd = ['\n'] := by decide
theorem floatMarkers_is : Printing.floatMarkers = ['.', 'e'] := by decide
theorem multiplicityRegex_is : Printing.multiplicityRegex = " \\* | ".toList := by decide
theorem termJoin_is : Printing.termJoin = [' ', '+', ' '] ∧ Printing.termJoinProd = [' ', '+', ' '] := by decide
theorem coeffSpace_is : Printing.coeffSpace = [' '] := by decide
theorem aroundArrow_is : Printing.aroundArrowL = [' '] ∧ Printing.aroundArrowR = [' '] := by decide
theorem paramSeparator_is : Printing.paramSeparator = [';', ' '] := by decide
theorem systemSep_is : Printing.systemLineSep = ['\n'] ∧ Printing.systemLineJoin = ['\n'] := by decide
theorem commentTokens_is : Printing.commentTokens = [['#']] := by decide

/-! ### prefix / infix -/

theorem isPrefixOf_nil_right {p : Str} : p.isPrefixOf [] = p.isEmpty := by
  cases p <;> rfl

theorem isPrefixOf_append_self (p r : Str) : p.isPrefixOf (p ++ r) = true := by
  induction p with
  | nil => simp [List.isPrefixOf]
  | cons a p ih => simp [List.isPrefixOf, ih]

/-- a prefix of `a ++ c :: b` is a prefix of `a`, or reaches the position of `c` -/
theorem isPrefixOf_append_cons {p a b : Str} {c : Char} (h : p.isPrefixOf (a ++ c :: b) = true) :
    p.isPrefixOf a = true ∨ c ∈ p := by
  induction p generalizing a with
  | nil => left; simp [List.isPrefixOf]
  | cons x p ih =>
    cases a with
    | nil =>
      simp only [List.nil_append, List.isPrefixOf, Bool.and_eq_true, beq_iff_eq] at h
      right; simp [h.1]
    | cons y a =>
      simp only [List.cons_append, List.isPrefixOf, Bool.and_eq_true, beq_iff_eq] at h
      rcases ih h.2 with h1 | h1
      · left; simp [List.isPrefixOf, h.1, h1]
      · right; simp [h1]

theorem isPrefixOf_of_append {p a b : Str} (h : p.isPrefixOf a = true) : p.isPrefixOf (a ++ b) = true := by
  induction p generalizing a with
  | nil => simp [List.isPrefixOf]
  | cons x p ih =>
    cases a with
    | nil => simp [List.isPrefixOf] at h
    | cons y a =>
      simp only [List.isPrefixOf, Bool.and_eq_true, beq_iff_eq] at h
      simp [List.isPrefixOf, h.1, ih h.2]

theorem isInfixB_cons (sep : Str) (c : Char) (cs : Str) :
    isInfixB sep (c :: cs) = (sep.isPrefixOf (c :: cs) || isInfixB sep cs) := rfl

theorem isInfixB_false_of_cons {sep : Str} {c : Char} {cs : Str} (h : isInfixB sep (c :: cs) = false) :
    isInfixB sep cs = false := by
  rw [isInfixB_cons, Bool.or_eq_false_iff] at h; exact h.2

theorem isInfixB_append_right {sep a : Str} (b : Str) (h : isInfixB sep a = true) : isInfixB sep (a ++ b) = true := by
  induction a with
  | nil =>
    cases sep with
    | nil => cases b <;> simp [isInfixB, List.isPrefixOf]
    | cons x s => simp [isInfixB, List.isPrefixOf] at h
  | cons c a ih =>
    rw [isInfixB_cons, Bool.or_eq_true] at h
    rw [List.cons_append, isInfixB_cons, Bool.or_eq_true]
    rcases h with h | h
    · left; exact isPrefixOf_of_append (a := c :: a) h
    · right; exact ih h

theorem isInfixB_append_left {sep b : Str} (a : Str) (h : isInfixB sep b = true) : isInfixB sep (a ++ b) = true := by
  induction a with
  | nil => exact h
  | cons c a ih => rw [List.cons_append, isInfixB_cons, ih, Bool.or_true]

theorem isInfixB_false_left {sep a b : Str} (h : isInfixB sep (a ++ b) = false) : isInfixB sep a = false := by
  cases h' : isInfixB sep a with
  | false => rfl
  | true => rw [isInfixB_append_right b h'] at h; exact h

theorem isInfixB_false_right {sep a b : Str} (h : isInfixB sep (a ++ b) = false) : isInfixB sep b = false := by
  cases h' : isInfixB sep b with
  | false => rfl
  | true => rw [isInfixB_append_left a h'] at h; exact h

/-- an occurrence of `sep` in `a ++ c :: b` with `c ∉ sep` lies in `a` or in `b` -/
theorem isInfixB_append_cons {sep a b : Str} {c : Char} (hc : c ∉ sep)
    (ha : isInfixB sep a = false) (hb : isInfixB sep b = false) : isInfixB sep (a ++ c :: b) = false := by
  induction a with
  | nil =>
    rw [List.nil_append, isInfixB_cons, hb, Bool.or_false]
    cases sep with
    | nil => simp [isInfixB, List.isPrefixOf] at ha
    | cons x s =>
      simp only [List.isPrefixOf, Bool.and_eq_false_iff, beq_eq_false_iff_ne]
      left; intro hx; exact hc (by simp [hx])
  | cons y a ih =>
    rw [isInfixB_cons, Bool.or_eq_false_iff] at ha
    rw [List.cons_append, isInfixB_cons, ih ha.2, Bool.or_false]
    cases hp : sep.isPrefixOf (y :: (a ++ c :: b)) with
    | false => rfl
    | true =>
      rcases isPrefixOf_append_cons (a := y :: a) hp with h1 | h1
      · rw [h1] at ha; exact absurd ha.1 (by simp)
      · exact absurd h1 hc

theorem isInfixB_false_of_not_mem {sep s : Str} (hsep : sep ≠ []) (h : ∀ c ∈ s, c ∉ sep) : isInfixB sep s = false := by
  induction s with
  | nil => cases sep with
    | nil => exact absurd rfl hsep
    | cons x t => rfl
  | cons c s ih =>
    rw [isInfixB_cons, ih (fun d hd => h d (by simp [hd])), Bool.or_false]
    cases sep with
    | nil => exact absurd rfl hsep
    | cons x t =>
      simp only [List.isPrefixOf, Bool.and_eq_false_iff, beq_eq_false_iff_ne]
      left; intro hx; exact h c (by simp) (by simp [hx])

theorem isPrefixOf_length_le {p s : Str} (h : p.isPrefixOf s = true) : p.length ≤ s.length := by
  induction p generalizing s with
  | nil => simp
  | cons x p ih =>
    cases s with
    | nil => simp [List.isPrefixOf] at h
    | cons y s =>
      simp only [List.isPrefixOf, Bool.and_eq_true] at h
      simpa using ih h.2

theorem isInfixB_false_of_short {sep s : Str} (h : s.length < sep.length) : isInfixB sep s = false := by
  induction s with
  | nil => cases sep with
    | nil => simp at h
    | cons x t => rfl
  | cons c s ih =>
    rw [isInfixB_cons, ih (by simp at h; omega), Bool.or_false]
    cases hp : sep.isPrefixOf (c :: s) with
    | false => rfl
    | true => have := isPrefixOf_length_le hp; omega

/-! ### `str.split(sep)` -/

theorem splitGo_skip (sep pre rest : Str) : splitGo sep (pre ++ rest) pre.length = splitGo sep rest 0 := by
  induction pre with
  | nil => rfl
  | cons c pre ih => simpa [splitGo] using ih

/-- no occurrence: one piece -/
theorem pySplit_none {sep s : Str} (h : isInfixB sep s = false) : pySplit sep s = [s] := by
  unfold pySplit
  induction s with
  | nil => rfl
  | cons c s ih =>
    rw [isInfixB_cons, Bool.or_eq_false_iff] at h
    simp only [splitGo, h.1, ih h.2, consHead]
    simp

/-- the leftmost occurrence of `sep` in `x ++ sep ++ rest` is the displayed one -/
theorem pySplit_first {sep x : Str} (rest : Str) (hsep : sep ≠ [])
    (h : isInfixB sep (x ++ sep.dropLast) = false) : pySplit sep (x ++ sep ++ rest) = x :: pySplit sep rest := by
  unfold pySplit
  induction x with
  | nil =>
    cases sep with
    | nil => exact absurd rfl hsep
    | cons a sep' =>
      have hp : (a :: sep').isPrefixOf (a :: sep' ++ rest) = true := isPrefixOf_append_self _ _
      simp only [List.nil_append, List.cons_append] at hp ⊢
      simp only [splitGo, hp, if_true, List.length_cons, Nat.add_sub_cancel]
      rw [splitGo_skip]
  | cons c x ih =>
    rw [List.cons_append, isInfixB_cons, Bool.or_eq_false_iff] at h
    have hnp : sep.isPrefixOf (c :: x ++ sep ++ rest) = false := by
      cases hp : sep.isPrefixOf (c :: x ++ sep ++ rest) with
      | false => rfl
      | true =>
        exfalso
        -- the prefix would fit into (c :: x) ++ sep.dropLast
        have hsplit : c :: x ++ sep ++ rest = (c :: x ++ sep.dropLast) ++ (sep.getLast hsep :: rest) := by
          conv => lhs; rw [← List.dropLast_concat_getLast hsep]
          simp [List.append_assoc]
        rw [hsplit] at hp
        rcases isPrefixOf_append_cons hp with h1 | _
        · rw [List.cons_append] at h1; rw [h1] at h; exact absurd h.1 (by simp)
        · -- length argument: |sep| ≤ |c :: x ++ sep.dropLast|, so sep is a prefix of it
          have hlen : sep.length ≤ (c :: x ++ sep.dropLast).length := by
            simp [List.length_dropLast]; have := List.length_pos_iff.mpr hsep; omega
          have : sep.isPrefixOf (c :: x ++ sep.dropLast) = true := by
            have h2 := List.isPrefixOf_iff_prefix.mp hp
            exact List.isPrefixOf_iff_prefix.mpr
              (List.prefix_of_prefix_length_le h2 (List.prefix_append _ _) hlen)
          rw [List.cons_append] at this; rw [this] at h; exact absurd h.1 (by simp)
    simp only [List.cons_append, List.append_assoc] at hnp ⊢
    simp only [splitGo, hnp]
    have := ih h.2
    simp only [List.append_assoc] at this
    simp [this, consHead]

/-! ### `strip` -/

/-- non-empty, does not begin or end with white space -/
def Tight (s : Str) : Prop :=
  s ≠ [] ∧ (∀ c, s.head? = some c → isPySpace c = false) ∧ (∀ c, s.getLast? = some c → isPySpace c = false)

theorem dropWhile_pre {p : Char → Bool} {pre t : Str} (hpre : ∀ c ∈ pre, p c = true)
    (ht : ∀ c, t.head? = some c → p c = false) : (pre ++ t).dropWhile p = t := by
  induction pre with
  | nil =>
    cases t with
    | nil => rfl
    | cons c t => simp [List.dropWhile, ht c rfl]
  | cons a pre ih =>
    simp only [List.cons_append, List.dropWhile, hpre a (by simp)]
    exact ih (fun c hc => hpre c (by simp [hc]))

theorem strip_pad {pre s post : Str} (hs : Tight s) (hpre : ∀ c ∈ pre, isPySpace c = true)
    (hpost : ∀ c ∈ post, isPySpace c = true) : strip (pre ++ s ++ post) = s := by
  obtain ⟨hne, hh, hl⟩ := hs
  unfold strip lstrip rstrip
  have h1 : (pre ++ s ++ post).dropWhile isPySpace = s ++ post := by
    rw [List.append_assoc]
    apply dropWhile_pre hpre
    intro c hc
    cases s with
    | nil => exact absurd rfl hne
    | cons a s => simp at hc; subst hc; exact hh a rfl
  rw [h1, List.reverse_append]
  rw [dropWhile_pre (p := isPySpace) (pre := post.reverse) (t := s.reverse)]
  · simp
  · intro c hc; exact hpost c (by simpa using hc)
  · intro c hc; rw [List.head?_reverse] at hc; exact hl c hc

theorem strip_tight {s : Str} (hs : Tight s) : strip s = s := by
  simpa using strip_pad (pre := []) (post := []) hs (by simp) (by simp)

theorem strip_nil : strip [] = [] := rfl
theorem strip_space : strip [' '] = [] := by decide
theorem isPySpace_space : isPySpace ' ' = true := by decide

theorem tight_append {a b : Str} (ha : a ≠ []) (hb : b ≠ [])
    (hh : ∀ c, a.head? = some c → isPySpace c = false) (hl : ∀ c, b.getLast? = some c → isPySpace c = false) :
    Tight (a ++ b) := by
  refine ⟨by simp [ha], ?_, ?_⟩
  · intro c hc; apply hh c
    cases a with
    | nil => exact absurd rfl ha
    | cons x a => simpa using hc
  · intro c hc; apply hl c
    rw [List.getLast?_append] at hc
    cases hb' : b.getLast? with
    | none => exact absurd (List.getLast?_eq_none_iff.mp hb') hb
    | some x => rw [hb'] at hc; simpa using hc

/-! ### digits -/

theorem digit_range {c : Char} (h : c.isDigit = true) : 48 ≤ c.toNat ∧ c.toNat ≤ 57 := by
  simp only [Char.isDigit, Bool.and_eq_true, decide_eq_true_eq] at h
  have h1 : '0'.val.toNat ≤ c.val.toNat := UInt32.le_iff_toNat_le.mp h.1
  have h2 : c.val.toNat ≤ '9'.val.toNat := UInt32.le_iff_toNat_le.mp h.2
  exact ⟨h1, h2⟩

theorem digit_not_space {c : Char} (h : c.isDigit = true) : isPySpace c = false := by
  have := digit_range h
  simp only [isPySpace, pySpaceCodes, List.contains_eq_mem, List.mem_cons, List.not_mem_nil, or_false,
    decide_eq_false_iff_not]
  omega

theorem digit_ne {c x : Char} (h : c.isDigit = true) (hx : x.isDigit = false) : c ≠ x := by
  intro e; subst e; rw [h] at hx; exact absurd hx (by simp)

theorem natStr_digits {n : Nat} {c : Char} (h : c ∈ natStr n) : c.isDigit = true :=
  Nat.isDigit_of_mem_toDigits (by decide) (by decide) h

theorem natStr_ne_nil (n : Nat) : natStr n ≠ [] := Nat.toDigits_ne_nil

theorem digitsVal_append (a : Str) (c : Char) (acc : Nat) :
    digitsVal (a ++ [c]) acc =
      (digitsVal a acc).bind (fun v => if c.isDigit then some (v * 10 + (c.toNat - 48)) else none) := by
  induction a generalizing acc with
  | nil => simp [digitsVal]
  | cons x a ih =>
    simp only [List.cons_append, digitsVal]
    split
    · exact ih _
    · rfl

theorem digitsVal_natStr (n : Nat) : digitsVal (natStr n) 0 = some n := by
  induction n using Nat.strongRecOn with
  | _ n ih =>
    unfold natStr
    rw [Nat.toDigits_eq_if (by decide)]
    split
    · rename_i h
      simp [digitsVal, Nat.toNat_digitChar_sub_48_of_lt_ten h, h]
    · rename_i h
      have := ih (n / 10) (by omega)
      unfold natStr at this
      rw [digitsVal_append, this]
      have hm : n % 10 < 10 := Nat.mod_lt _ (by decide)
      simp [Nat.toNat_digitChar_sub_48_of_lt_ten hm, hm]
      omega

theorem natStr_head_digit (n : Nat) : ∃ c r, natStr n = c :: r ∧ c.isDigit = true := by
  cases h : natStr n with
  | nil => exact absurd h (natStr_ne_nil n)
  | cons c r => exact ⟨c, r, rfl, natStr_digits (by rw [h]; simp)⟩

theorem natStr_tight (n : Nat) : Tight (natStr n) := by
  refine ⟨natStr_ne_nil n, ?_, ?_⟩
  · intro c hc; exact digit_not_space (natStr_digits (List.mem_of_mem_head? hc))
  · intro c hc; exact digit_not_space (natStr_digits (List.mem_of_getLast? hc))

/-- `int("<digits of n>") = n` -/
theorem pyInt_natStr (n : Nat) : pyInt (natStr n) = .ok (n : Int) := by
  obtain ⟨c, r, hcr, hc⟩ := natStr_head_digit n
  have hall : ∀ d ∈ natStr n, d.isDigit = true := fun d hd => natStr_digits hd
  have hany : (natStr n).any (fun c => decide (c.toNat ≥ 128)) = false := by
    rw [List.any_eq_false]; intro d hd
    have := digit_range (hall d hd); simp; omega
  have hsign : splitSign (natStr n) = (false, natStr n) := by
    rw [hcr]
    have h1 : c ≠ '-' := digit_ne hc (by decide)
    have h2 : c ≠ '+' := digit_ne hc (by decide)
    unfold splitSign; split
    · rename_i heq; simp at heq; exact absurd heq.1 h1
    · rename_i heq; simp at heq; exact absurd heq.1 h2
    · rfl
  have hus : ∀ d ∈ natStr n, d ≠ '_' := fun d hd => digit_ne (hall d hd) (by decide)
  have hfilter : (natStr n).filter (· != '_') = natStr n := by
    rw [List.filter_eq_self]; intro d hd; simpa using hus d hd
  have hok : underscoresOK (natStr n) = true := by
    rw [hcr]
    simp only [underscoresOK, Bool.and_eq_true, bne_iff_ne, ne_eq, Bool.not_eq_true']
    refine ⟨⟨hus c (by rw [hcr]; simp), ?_⟩, ?_⟩
    · intro hl
      have := List.mem_of_getLast? (by simpa using hl : (c :: r).getLast? = some '_')
      exact hus '_' (by rw [hcr]; exact this) rfl
    · apply isInfixB_false_of_not_mem (by simp)
      intro d hd; rw [← hcr] at hd; have := hus d hd; simp [this]
  have hdp : digitPart (natStr n) = some n := by
    unfold digitPart; rw [hok, hfilter]; simp only [if_true]
    rw [hcr]; simp only; rw [← hcr]; exact digitsVal_natStr n
  unfold pyInt
  simp only [strip_tight (natStr_tight n), hany, hsign, hdp]
  rfl

/-! ### `re.split(" \\* | ", s)` -/

theorem foldr_consHead_cons (p h : Str) (t : List Str) : p.foldr consHead (h :: t) = (p ++ h) :: t := by
  induction p with
  | nil => rfl
  | cons c p ih => simp [ih, consHead]

theorem reSplitGo_spacefree {p : Str} (r : Str) (hp : ' ' ∉ p) :
    reSplitGo (p ++ r) 0 = p.foldr consHead (reSplitGo r 0) := by
  induction p with
  | nil => rfl
  | cons c p ih =>
    have hc : c ≠ ' ' := fun e => hp (by simp [e])
    have hpre : [' ', '*', ' '].isPrefixOf (c :: (p ++ r)) = false := by
      simp [List.isPrefixOf, Ne.symm hc]
    simp only [List.cons_append, reSplitGo, hpre, List.foldr_cons]
    simp only [beq_iff_eq, hc, if_false, Bool.false_eq_true]
    rw [ih (fun h => hp (by simp [h]))]

theorem reSplit_spacefree {k : Str} (hk : ' ' ∉ k) : reSplit k = [k] := by
  have := reSplitGo_spacefree [] hk
  simp only [List.append_nil] at this
  unfold reSplit; rw [this]; simp only [reSplitGo]; rw [foldr_consHead_cons]; simp

theorem reSplit_plain {d k : Str} (hd : ' ' ∉ d) (hk : ' ' ∉ k) : reSplit (d ++ ' ' :: k) = [d, k] := by
  unfold reSplit
  rw [reSplitGo_spacefree _ hd]
  have hpre : [' ', '*', ' '].isPrefixOf (' ' :: k) = false := by
    cases k with
    | nil => rfl
    | cons a k =>
      cases k with
      | nil => simp [List.isPrefixOf]
      | cons b k =>
        simp only [List.isPrefixOf, beq_self_eq_true, Bool.true_and, Bool.and_true, Bool.and_eq_false_iff,
          beq_eq_false_iff_ne]
        right; intro e; exact hk (by simp [← e])
  have hk' := reSplit_spacefree hk
  unfold reSplit at hk'
  simp only [reSplitGo, hpre, beq_self_eq_true, if_true, hk', Bool.false_eq_true, if_false]
  rw [foldr_consHead_cons]; simp

theorem reSplit_star {d k : Str} (hd : ' ' ∉ d) (hk : ' ' ∉ k) :
    reSplit (d ++ ' ' :: '*' :: ' ' :: k) = [d, k] := by
  unfold reSplit
  rw [reSplitGo_spacefree _ hd]
  have hk' := reSplit_spacefree hk
  unfold reSplit at hk'
  have hpre : [' ', '*', ' '].isPrefixOf (' ' :: '*' :: ' ' :: k) = true := by simp [List.isPrefixOf]
  simp only [reSplitGo, hpre, if_true, hk']
  rw [foldr_consHead_cons]; simp

/-! ### `_is_inactive_term` -/

theorem parenBal_scanDepth {s : Str} {d : Nat} (h : parenBal s d = true) :
    scanDepth (s ++ [')']) ((d : Int) + 1) = true := by
  induction s generalizing d with
  | nil =>
    simp only [parenBal, beq_iff_eq] at h
    subst h
    simp [scanDepth]
  | cons c s ih =>
    simp only [parenBal] at h
    simp only [List.cons_append, scanDepth]
    split at h
    · rename_i hc
      simp only [hc, if_true]
      have := ih h
      simpa [Int.add_assoc] using this
    · rename_i hc
      split at h
      · rename_i hc2
        simp only [Bool.and_eq_true, bne_iff_ne, ne_eq] at h
        simp only [hc, hc2, if_true, Bool.false_eq_true, if_false]
        obtain ⟨d', rfl⟩ : ∃ d', d = d' + 1 := ⟨d - 1, by omega⟩
        have := ih (d := d') (by simpa using h.2)
        have hne : ¬ (((d' + 1 : Nat) : Int) + 1 - 1 == 0) = true := by simp; omega
        simp only [hne, if_false, Bool.false_eq_true]
        have e : ((d' + 1 : Nat) : Int) + 1 - 1 = (d' : Int) + 1 := by omega
        rw [e]; exact this
      · rename_i hc2
        simp only [hc, hc2, if_false, Bool.false_eq_true]
        exact ih h

theorem parenBal_append_noparen {pre s : Str} {d : Nat} (hpre : ∀ c ∈ pre, c ≠ '(' ∧ c ≠ ')') :
    parenBal (pre ++ s) d = parenBal s d := by
  induction pre with
  | nil => rfl
  | cons c pre ih =>
    have := hpre c (by simp)
    simp only [List.cons_append, parenBal, beq_iff_eq, this.1, this.2, if_false]
    exact ih (fun x hx => hpre x (by simp [hx]))

theorem isInactive_wrapped {body : Str} (h : parenBal body 0 = true) :
    isInactiveTerm ('(' :: body ++ [')']) = true := by
  unfold isInactiveTerm
  have h1 : startsWith ['('] ('(' :: body ++ [')']) = true := by simp [startsWith, List.isPrefixOf]
  have h2 : endsWith [')'] ('(' :: body ++ [')']) = true := by
    simp [endsWith, List.isPrefixOf]
  simp only [h1, h2, Bool.and_self, Bool.not_true, Bool.false_eq_true, if_false]
  have := parenBal_scanDepth h
  simpa [scanDepth] using this

theorem isInactive_of_head {c : Char} {r : Str} (hc : c ≠ '(') : isInactiveTerm (c :: r) = false := by
  unfold isInactiveTerm
  have : startsWith ['('] (c :: r) = false := by simp [startsWith, List.isPrefixOf, Ne.symm hc]
  simp [this]

theorem inner_wrapped (body : Str) : inner ('(' :: body ++ [')']) = body := by
  simp [inner]

/-! ### written terms -/

abbrev plusSep : Str := [' ', '+', ' ']

theorem keyOK_spec {tok k : Str} (h : keyOK tok k = true) :
    k ≠ [] ∧ ' ' ∉ k ∧ ';' ∉ k ∧ isInfixB tok k = false ∧ k ≠ ['+'] ∧ Tight k := by
  simp only [keyOK, Bool.and_eq_true, bne_iff_ne, ne_eq, Bool.not_eq_true', List.contains_eq_mem,
    decide_eq_false_iff_not] at h
  obtain ⟨⟨⟨⟨⟨⟨h1, h2⟩, h3⟩, h4⟩, h5⟩, h6⟩, h7⟩ := h
  refine ⟨h1, h2, h3, h4, h5, h1, ?_, ?_⟩
  · intro c hc; rw [hc] at h6; simpa using h6
  · intro c hc; rw [hc] at h7; simpa using h7

theorem tokOK_spec {tok : Str} (h : tokOK tok = true) :
    tok ≠ [] ∧ ∀ c ∈ tok, isPySpace c = false ∧ c.isDigit = false ∧ c ≠ ';' ∧ c ≠ '(' ∧ c ≠ ')' ∧ c ≠ '*' ∧ c ≠ '+' := by
  simp only [tokOK, Bool.and_eq_true, bne_iff_ne, ne_eq, List.all_eq_true, Bool.not_eq_true',
    List.contains_eq_mem, decide_eq_false_iff_not] at h
  refine ⟨h.1, fun c hc => ?_⟩
  have := h.2 c hc
  simp only [List.mem_cons, List.not_mem_nil, or_false, not_or] at this
  exact ⟨this.1.1, this.1.2, this.2.1, this.2.2.1, this.2.2.2.1, this.2.2.2.2.1, this.2.2.2.2.2⟩

theorem tok_space {tok : Str} (h : tokOK tok = true) : ' ' ∉ tok := by
  intro hc; have := ((tokOK_spec h).2 ' ' hc).1; simp [isPySpace_space] at this

theorem tok_tight {tok : Str} (h : tokOK tok = true) : Tight tok := by
  obtain ⟨hne, hall⟩ := tokOK_spec h
  exact ⟨hne, fun c hc => (hall c (List.mem_of_mem_head? hc)).1, fun c hc => (hall c (List.mem_of_getLast? hc)).1⟩

/-- the space-free pieces of a term text -/
def pieces (t : Term) : List Str :=
  match t.inactive, t.form with
  | false, .omit => [t.key]
  | false, .plain => [natStr t.n, t.key]
  | false, .star => [natStr t.n, ['*'], t.key]
  | true, .omit => ['(' :: t.key ++ [')']]
  | true, .plain => ['(' :: natStr t.n, t.key ++ [')']]
  | true, .star => ['(' :: natStr t.n, ['*'], t.key ++ [')']]

theorem text_eq_pieces (t : Term) : t.text = joinStrs [' '] (pieces t) := by
  unfold Term.text Term.body pieces
  cases hi : t.inactive <;> cases hf : t.form <;> simp [joinStrs]

/-- a piece: non-empty, space-free, not the lone `+`, free of the token and of `;` -/
def GoodPiece (tok p : Str) : Prop :=
  p ≠ [] ∧ ' ' ∉ p ∧ p ≠ ['+'] ∧ isInfixB tok p = false ∧ ';' ∉ p

theorem natStr_special {tok : Str} (htok : tokOK tok = true) (n : Nat) : ∀ c ∈ natStr n, c ∉ tok := by
  intro c hc hct
  have := ((tokOK_spec htok).2 c hct).2.1
  rw [natStr_digits hc] at this; exact absurd this (by simp)

theorem good_natStr {tok : Str} (htok : tokOK tok = true) (n : Nat) : GoodPiece tok (natStr n) := by
  refine ⟨natStr_ne_nil n, ?_, ?_, ?_, ?_⟩
  · intro h; exact digit_ne (natStr_digits h) (by decide) rfl
  · intro h; have : '+' ∈ natStr n := by rw [h]; simp
    exact digit_ne (natStr_digits this) (by decide) rfl
  · exact isInfixB_false_of_not_mem (tokOK_spec htok).1 (natStr_special htok n)
  · intro h; exact digit_ne (natStr_digits h) (by decide) rfl

theorem good_star {tok : Str} (htok : tokOK tok = true) : GoodPiece tok ['*'] := by
  refine ⟨by simp, by simp, by simp, ?_, by simp⟩
  apply isInfixB_false_of_not_mem (tokOK_spec htok).1
  intro c hc hct; simp at hc; subst hc; exact ((tokOK_spec htok).2 _ hct).2.2.2.2.2.1 rfl

theorem good_key {tok k : Str} (hk : keyOK tok k = true) : GoodPiece tok k := by
  obtain ⟨h1, h2, h3, h4, h5, _⟩ := keyOK_spec hk
  exact ⟨h1, h2, h5, h4, h3⟩

theorem good_open {tok p : Str} (htok : tokOK tok = true) (hp : GoodPiece tok p) : GoodPiece tok ('(' :: p) := by
  obtain ⟨h1, h2, h3, h4, h5⟩ := hp
  refine ⟨by simp, ?_, ?_, ?_, ?_⟩
  · simp [h2]
  · simp
  · have := isInfixB_append_cons (sep := tok) (a := []) (b := p) (c := '(')
      (fun hc => ((tokOK_spec htok).2 _ hc).2.2.2.1 rfl)
      (isInfixB_false_of_short (by simp; exact List.length_pos_iff.mpr (tokOK_spec htok).1)) h4
    simpa using this
  · simp [h5]

theorem good_close {tok p : Str} (htok : tokOK tok = true) (hp : GoodPiece tok p) : GoodPiece tok (p ++ [')']) := by
  obtain ⟨h1, h2, h3, h4, h5⟩ := hp
  refine ⟨by simp, ?_, ?_, ?_, ?_⟩
  · simp [h2]
  · intro h
    have := congrArg List.getLast? h
    simp at this
  · exact isInfixB_append_cons (sep := tok) (a := p) (b := []) (c := ')')
      (fun hc => ((tokOK_spec htok).2 _ hc).2.2.2.2.1 rfl) h4
      (isInfixB_false_of_short (by simp; exact List.length_pos_iff.mpr (tokOK_spec htok).1))
  · simp [h5]

theorem Term.ok_spec {tok : Str} {t : Term} (h : t.ok tok = true) :
    keyOK tok t.key = true ∧ 1 ≤ t.n ∧ (t.form = .omit → t.n = 1) ∧
      (t.inactive = true → parenBal t.key 0 = true) ∧
      (t.inactive = false → t.form = .omit → isInactiveTerm t.key = false) := by
  simp only [Term.ok, Bool.and_eq_true, decide_eq_true_eq, Bool.or_eq_true, bne_iff_ne, ne_eq, beq_iff_eq] at h
  obtain ⟨⟨⟨h1, h2⟩, h3⟩, h4⟩ := h
  refine ⟨h1, h2, ?_, ?_, ?_⟩
  · intro hf; rcases h3 with h3 | h3
    · exact absurd hf h3
    · exact h3
  · intro hi; simpa [hi] using h4
  · intro hi hf
    simp only [hi, Bool.false_eq_true, if_false, Bool.or_eq_true, bne_iff_ne, ne_eq, Bool.not_eq_true'] at h4
    rcases h4 with h4 | h4
    · exact absurd hf h4
    · exact h4

theorem pieces_good {tok : Str} {t : Term} (htok : tokOK tok = true) (h : t.ok tok = true) :
    pieces t ≠ [] ∧ ∀ p ∈ pieces t, GoodPiece tok p := by
  have hk := good_key (Term.ok_spec h).1
  have hd := good_natStr htok t.n
  have hs := good_star htok
  unfold pieces
  cases t.inactive <;> cases t.form <;> simp only [ne_eq, List.cons_ne_nil, not_false_eq_true, true_and,
    List.mem_cons, List.not_mem_nil, or_false, forall_eq_or_imp, forall_eq]
  · exact hk
  · exact ⟨hd, hk⟩
  · exact ⟨hd, hs, hk⟩
  · have := good_open htok (good_close htok hk); simpa using this
  · exact ⟨good_open htok hd, good_close htok hk⟩
  · exact ⟨good_open htok hd, hs, good_close htok hk⟩

/-! #### pieces joined by single spaces never produce a spurious `" + "`, token or `;` -/

theorem isInfixB_skip_nonhead {sep' p : Str} {h : Char} (r : Str) (hp : h ∉ p) :
    isInfixB (h :: sep') (p ++ r) = isInfixB (h :: sep') r := by
  induction p with
  | nil => rfl
  | cons c p ih =>
    have hc : h ≠ c := fun e => hp (by simp [e])
    rw [List.cons_append, isInfixB_cons, ih (fun hm => hp (by simp [hm]))]
    simp [List.isPrefixOf, hc]

theorem plusStep {p : Str} (r : Str) (h1 : p ≠ []) (h2 : ' ' ∉ p) (h3 : p ≠ ['+']) :
    isInfixB plusSep (' ' :: (p ++ r)) = isInfixB plusSep r := by
  rw [isInfixB_cons, isInfixB_skip_nonhead r h2]
  have : plusSep.isPrefixOf (' ' :: (p ++ r)) = false := by
    cases p with
    | nil => exact absurd rfl h1
    | cons a p =>
      cases p with
      | nil =>
        have ha : a ≠ '+' := fun e => h3 (by simp [e])
        simp [plusSep, List.isPrefixOf, Ne.symm ha]
      | cons b p =>
        have hb : b ≠ ' ' := fun e => h2 (by simp [e])
        simp [plusSep, List.isPrefixOf, Ne.symm hb]
  rw [this, Bool.false_or]

theorem join_noPlus {tok : Str} {ps : List Str} (r : Str) (hne : ps ≠ []) (hg : ∀ p ∈ ps, GoodPiece tok p) :
    isInfixB plusSep (' ' :: (joinStrs [' '] ps ++ r)) = isInfixB plusSep r := by
  induction ps with
  | nil => exact absurd rfl hne
  | cons p ps ih =>
    obtain ⟨h1, h2, h3, _, _⟩ := hg p (by simp)
    cases ps with
    | nil => simpa [joinStrs] using plusStep r h1 h2 h3
    | cons q ps =>
      have := ih (by simp) (fun x hx => hg x (by simp [hx]))
      simp only [joinStrs, List.append_assoc, List.cons_append, List.nil_append] at this ⊢
      rw [plusStep _ h1 h2 h3]; exact this

theorem join_noTok {tok : Str} {ps : List Str} (htok : tokOK tok = true) (hg : ∀ p ∈ ps, GoodPiece tok p) :
    isInfixB tok (joinStrs [' '] ps) = false := by
  induction ps with
  | nil => exact isInfixB_false_of_short (by simp [joinStrs]; exact List.length_pos_iff.mpr (tokOK_spec htok).1)
  | cons p ps ih =>
    cases ps with
    | nil => exact (hg p (by simp)).2.2.2.1
    | cons q ps =>
      simp only [joinStrs, List.append_assoc, List.cons_append, List.nil_append]
      exact isInfixB_append_cons (tok_space htok) (hg p (by simp)).2.2.2.1 (ih (fun x hx => hg x (by simp [hx])))

theorem join_noSemi {tok : Str} {ps : List Str} (hg : ∀ p ∈ ps, GoodPiece tok p) : ';' ∉ joinStrs [' '] ps := by
  induction ps with
  | nil => simp [joinStrs]
  | cons p ps ih =>
    cases ps with
    | nil => exact (hg p (by simp)).2.2.2.2
    | cons q ps =>
      have := ih (fun x hx => hg x (by simp [hx]))
      intro hmem
      simp only [joinStrs, List.mem_append, List.mem_singleton] at hmem
      rcases hmem with (h | h) | h
      · exact (hg p (by simp)).2.2.2.2 h
      · exact absurd h (by decide)
      · exact this h

/-! #### facts about one admissible term -/

theorem text_noPlus {tok : Str} {t : Term} (htok : tokOK tok = true) (h : t.ok tok = true) :
    isInfixB plusSep (' ' :: (t.text ++ [' ', '+'])) = false := by
  rw [text_eq_pieces, join_noPlus _ (pieces_good htok h).1 (pieces_good htok h).2]; decide

theorem text_noTok {tok : Str} {t : Term} (htok : tokOK tok = true) (h : t.ok tok = true) :
    isInfixB tok t.text = false := by
  rw [text_eq_pieces]; exact join_noTok htok (pieces_good htok h).2

theorem text_noSemi {tok : Str} {t : Term} (htok : tokOK tok = true) (h : t.ok tok = true) : ';' ∉ t.text := by
  rw [text_eq_pieces]; exact join_noSemi (pieces_good htok h).2

theorem tight_wrap (x : Str) : Tight ('(' :: x ++ [')']) := by
  refine ⟨by simp, ?_, ?_⟩
  · intro c hc; simp at hc; subst hc; decide
  · intro c hc
    rw [show '(' :: x ++ [')'] = ('(' :: x) ++ [')'] from rfl, List.getLast?_concat] at hc
    simp at hc; subst hc; decide

theorem text_tight {tok : Str} {t : Term} (h : t.ok tok = true) : Tight t.text := by
  obtain ⟨hk, _⟩ := Term.ok_spec h
  obtain ⟨hne, _, _, _, _, _, hh, hl⟩ := keyOK_spec hk
  have hd := natStr_tight t.n
  unfold Term.text
  cases t.inactive
  · simp only [Bool.false_eq_true, if_false]
    unfold Term.body
    cases t.form <;> simp only
    · exact ⟨hne, hh, hl⟩
    · exact tight_append hd.1 (b := ' ' :: t.key) (by simp) hd.2.1
        (by intro c hc; rw [List.getLast?_cons_of_ne_nil hne] at hc; exact hl c hc)
    · exact tight_append hd.1 (b := ' ' :: '*' :: ' ' :: t.key) (by simp) hd.2.1
        (by intro c hc
            rw [List.getLast?_cons_cons, List.getLast?_cons_cons, List.getLast?_cons_of_ne_nil hne] at hc
            exact hl c hc)
  · simp only [if_true]; exact tight_wrap _

/-! #### classification and `_parse_multiplicity` of one term -/

theorem body_parenBal {t : Term} (hk : parenBal t.key 0 = true) : parenBal t.body 0 = true := by
  have hdig : ∀ c ∈ natStr t.n, c ≠ '(' ∧ c ≠ ')' := fun c hc =>
    ⟨digit_ne (natStr_digits hc) (by decide), digit_ne (natStr_digits hc) (by decide)⟩
  unfold Term.body
  cases t.form <;> simp only
  · exact hk
  · rw [parenBal_append_noparen hdig]; simpa [parenBal] using hk
  · rw [parenBal_append_noparen hdig]; simpa [parenBal] using hk

theorem text_classified {tok : Str} {t : Term} (h : t.ok tok = true) : isInactiveTerm t.text = t.inactive := by
  obtain ⟨_, _, _, hbal, hact⟩ := Term.ok_spec h
  unfold Term.text
  cases hi : t.inactive
  · simp only [Bool.false_eq_true, if_false]
    unfold Term.body
    cases hf : t.form <;> simp only
    · exact hact hi hf
    · obtain ⟨c, r, hcr, hc⟩ := natStr_head_digit t.n
      rw [hcr]; exact isInactive_of_head (digit_ne hc (by decide))
    · obtain ⟨c, r, hcr, hc⟩ := natStr_head_digit t.n
      rw [hcr]; exact isInactive_of_head (digit_ne hc (by decide))
  · simp only [if_true]
    exact isInactive_wrapped (body_parenBal (hbal hi))

theorem natStr_nofloat (n : Nat) : (natStr n).any (fun c => Printing.floatMarkers.contains c) = false := by
  rw [List.any_eq_false]; intro c hc
  have h1 : c ≠ '.' := digit_ne (natStr_digits hc) (by decide)
  have h2 : c ≠ 'e' := digit_ne (natStr_digits hc) (by decide)
  simp [floatMarkers_is, h1, h2]

theorem natStr_nospace (n : Nat) : ' ' ∉ natStr n := fun h => digit_ne (natStr_digits h) (by decide) rfl

/-- the loop body of `_parse_multiplicity` on the text of an admissible term: the key gets the written coefficient -/
theorem parseItem_body {tok : Str} {t : Term} (d : Dict) (h : t.ok tok = true) :
    parseItem d t.body = .ok (dictAdd d t.key (Coef.ofNat t.n)) := by
  obtain ⟨hk, _, homit, _, _⟩ := Term.ok_spec h
  obtain ⟨hne, hsp, _⟩ := keyOK_spec hk
  have hd := natStr_nospace t.n
  have hdne := natStr_ne_nil t.n
  have hfil : List.filter (fun x => x != []) [natStr t.n, t.key] = [natStr t.n, t.key] := by simp [hdne, hne]
  unfold parseItem Term.body
  cases hf : t.form <;> simp only
  · rw [reSplit_spacefree hsp]
    simp [hne, homit hf]
  · rw [reSplit_plain hd hsp, hfil]
    simp only [natStr_nofloat, Bool.false_eq_true, if_false, pyInt_natStr]
    rfl
  · rw [reSplit_star hd hsp, hfil]
    simp only [natStr_nofloat, Bool.false_eq_true, if_false, pyInt_natStr]
    rfl

/-- what `_parse_multiplicity` accumulates for a list of written terms -/
def accum (d : Dict) (ts : List Term) : Dict := ts.foldl (fun d t => dictAdd d t.key (Coef.ofNat t.n)) d

theorem parseItems_bodies {tok : Str} (d : Dict) (ts : List Term) (h : ∀ t ∈ ts, t.ok tok = true) :
    parseItems d (ts.map Term.body) = .ok (accum d ts) := by
  induction ts generalizing d with
  | nil => rfl
  | cons t ts ih =>
    simp only [List.map_cons, parseItems, parseItem_body d (h t (by simp))]
    exact ih _ (fun x hx => h x (by simp [hx]))

theorem filter_active {tok : Str} (ts : List Term) (h : ∀ t ∈ ts, t.ok tok = true) :
    (ts.map Term.text).filter (fun x => !isInactiveTerm x) = (ts.filter (fun t => !t.inactive)).map Term.body := by
  induction ts with
  | nil => rfl
  | cons t ts ih =>
    have ht := text_classified (h t (by simp))
    have := ih (fun x hx => h x (by simp [hx]))
    simp only [List.map_cons, List.filter_cons, ht]
    cases hi : t.inactive
    · simp only [Bool.not_false, if_true, List.map_cons, this]
      simp [Term.text, hi]
    · simpa using this

theorem filter_inactive {tok : Str} (ts : List Term) (h : ∀ t ∈ ts, t.ok tok = true) :
    ((ts.map Term.text).filter isInactiveTerm).map inner = (ts.filter (fun t => t.inactive)).map Term.body := by
  induction ts with
  | nil => rfl
  | cons t ts ih =>
    have ht := text_classified (h t (by simp))
    have := ih (fun x hx => h x (by simp [hx]))
    simp only [List.map_cons, List.filter_cons, ht]
    cases hi : t.inactive
    · simpa using this
    · simp only [if_true, List.map_cons, this]
      simp only [Term.text, hi, if_true]
      rw [inner_wrapped]

/-! ### one side: `x.split(" + ")` then `strip` -/

theorem sideText_cons2 (t u : Term) (ts : List Term) :
    sideText (t :: u :: ts) = t.text ++ plusSep ++ sideText (u :: ts) := rfl

theorem side_split {tok : Str} (htok : tokOK tok = true) (ts : List Term) (hne : ts ≠ [])
    (h : ∀ t ∈ ts, t.ok tok = true) (pre post : Str) (hpre : pre = [] ∨ pre = [' ']) (hpost : post = [] ∨ post = [' ']) :
    (pySplit plusSep (pre ++ sideText ts ++ post)).map strip = ts.map Term.text := by
  induction ts generalizing pre with
  | nil => exact absurd rfl hne
  | cons t ts ih =>
    have hno := text_noPlus htok (h t (by simp))
    have hti := text_tight (h t (by simp))
    have hpreS : ∀ c ∈ pre, isPySpace c = true := by
      rcases hpre with rfl | rfl <;> simp [isPySpace_space]
    have hpostS : ∀ c ∈ post, isPySpace c = true := by
      rcases hpost with rfl | rfl <;> simp [isPySpace_space]
    -- `pre ++ text ++ " +"` contains no separator
    have hno' : isInfixB plusSep (pre ++ t.text ++ [' ', '+']) = false := by
      rcases hpre with rfl | rfl
      · simpa using isInfixB_false_of_cons hno
      · simpa using hno
    cases ts with
    | nil =>
      have hnone : isInfixB plusSep (pre ++ t.text ++ post) = false := by
        rcases hpost with rfl | rfl
        · have := isInfixB_false_left (a := pre ++ t.text) (b := [' ', '+']) hno'
          simpa using this
        · have := isInfixB_false_left (a := pre ++ t.text ++ [' ']) (b := ['+']) (by simpa using hno')
          exact this
      simp only [sideText, List.map_cons, List.map_nil, joinStrs]
      rw [pySplit_none hnone]
      simp only [List.map_cons, List.map_nil]
      rw [strip_pad hti hpreS hpostS]
    | cons u ts =>
      rw [sideText_cons2]
      have e : pre ++ (t.text ++ plusSep ++ sideText (u :: ts)) ++ post
          = (pre ++ t.text) ++ plusSep ++ ([] ++ sideText (u :: ts) ++ post) := by simp [List.append_assoc]
      rw [e, pySplit_first _ (by simp [plusSep]) (by simpa [plusSep] using hno')]
      simp only [List.map_cons]
      rw [ih (by simp) (fun x hx => h x (by simp [hx])) [] (Or.inl rfl)]
      have := strip_pad (post := []) hti hpreS (by simp)
      simp only [List.append_nil] at this
      rw [this]
      rfl

theorem sideText_tight {tok : Str} (ts : List Term) (hne : ts ≠ []) (h : ∀ t ∈ ts, t.ok tok = true) :
    Tight (sideText ts) := by
  induction ts with
  | nil => exact absurd rfl hne
  | cons t ts ih =>
    have hti := text_tight (h t (by simp))
    cases ts with
    | nil => simpa [sideText, joinStrs] using hti
    | cons u ts =>
      have := ih (by simp) (fun x hx => h x (by simp [hx]))
      rw [sideText_cons2, List.append_assoc]
      exact tight_append hti.1 (by simp [plusSep]) hti.2.1 (by
        intro c hc
        rw [List.getLast?_append] at hc
        cases hl : (sideText (u :: ts)).getLast? with
        | none => exact absurd (List.getLast?_eq_none_iff.mp hl) this.1
        | some x => rw [hl] at hc; simp at hc; subst hc; exact this.2.2 x hl)

theorem sideText_noTok {tok : Str} (htok : tokOK tok = true) (ts : List Term) (h : ∀ t ∈ ts, t.ok tok = true) :
    isInfixB tok (sideText ts) = false := by
  have hne := (tokOK_spec htok).1
  induction ts with
  | nil => exact isInfixB_false_of_short (by simp [sideText, joinStrs]; exact List.length_pos_iff.mpr hne)
  | cons t ts ih =>
    cases ts with
    | nil => simpa [sideText, joinStrs] using text_noTok htok (h t (by simp))
    | cons u ts =>
      rw [sideText_cons2]
      have h1 := text_noTok htok (h t (by simp))
      have h2 := ih (fun x hx => h x (by simp [hx]))
      have hplus : '+' ∉ tok := fun hc => ((tokOK_spec htok).2 _ hc).2.2.2.2.2.2 rfl
      have h3 : isInfixB tok (['+'] ++ ' ' :: sideText (u :: ts)) = false :=
        isInfixB_append_cons (tok_space htok) (isInfixB_false_of_not_mem hne (by simpa using hplus)) h2
      have := isInfixB_append_cons (tok_space htok) h1 h3
      simpa [plusSep, List.append_assoc] using this

theorem sideText_noSemi {tok : Str} (htok : tokOK tok = true) (ts : List Term) (h : ∀ t ∈ ts, t.ok tok = true) :
    ';' ∉ sideText ts := by
  induction ts with
  | nil => simp [sideText, joinStrs]
  | cons t ts ih =>
    cases ts with
    | nil => simpa [sideText, joinStrs] using text_noSemi htok (h t (by simp))
    | cons u ts =>
      rw [sideText_cons2]
      intro hmem
      simp only [List.mem_append] at hmem
      rcases hmem with (hm | hm) | hm
      · exact text_noSemi htok (h t (by simp)) hm
      · simp [plusSep] at hm
      · exact ih (fun x hx => h x (by simp [hx])) hm

/-! ### the whole line through `to_reaction` -/

/-- elements of one side after `split(" + ")` and `strip` -/
def elems (ts : List Term) : List Str := if ts = [] then [[]] else ts.map Term.text

def actD (ts : List Term) : Dict := accum [] (ts.filter (fun t => !t.inactive))
def inaD (ts : List Term) : Dict := accum [] (ts.filter (fun t => t.inactive))

def leadOf (ts : List Term) : Str := if ts = [] then [' '] else []
def Rp (ts : List Term) : Str := if ts = [] then [] else sideText ts ++ [' ']
def Pp (ts : List Term) : Str := if ts = [] then [] else ' ' :: sideText ts

theorem line_decomp (tok : Str) (reac prod : List Term) :
    writeLine tok reac prod = leadOf reac ++ (Rp reac ++ tok ++ Pp prod) ++ leadOf prod := by
  unfold writeLine leadOf Rp Pp
  by_cases hr : reac = [] <;> by_cases hp : prod = [] <;> simp [hr, hp, sideText, joinStrs]

theorem lead_cases (ts : List Term) : leadOf ts = [] ∨ leadOf ts = [' '] := by
  unfold leadOf; split <;> simp

theorem core_tight {tok : Str} (htok : tokOK tok = true) {reac prod : List Term}
    (hr : ∀ t ∈ reac, t.ok tok = true) (hp : ∀ t ∈ prod, t.ok tok = true) : Tight (Rp reac ++ tok ++ Pp prod) := by
  have ht := tok_tight htok
  have h1 : Tight (Rp reac ++ tok) := by
    unfold Rp
    by_cases h : reac = []
    · simpa [h] using ht
    · simp only [h, if_false]
      have := sideText_tight reac h hr
      exact tight_append (by simp) ht.1 (by
        intro c hc; apply this.2.1 c
        cases hs : sideText reac with
        | nil => exact absurd hs this.1
        | cons x r => rw [hs] at hc; simpa using hc) ht.2.2
  unfold Pp
  by_cases h : prod = []
  · simpa [h] using h1
  · simp only [h, if_false]
    have := sideText_tight prod h hp
    exact tight_append h1.1 (by simp) h1.2.1 (by
      intro c hc; rw [List.getLast?_cons_of_ne_nil this.1] at hc; exact this.2.2 c hc)

theorem rstripChars_id {chars s : Str} (h : ∀ c, s.getLast? = some c → chars.contains c = false) :
    rstripChars chars s = s := by
  unfold rstripChars
  have := dropWhile_pre (p := fun c => chars.contains c) (pre := []) (t := s.reverse) (by simp)
    (by intro c hc; rw [List.head?_reverse] at hc; exact h c hc)
  simp only [List.nil_append] at this
  rw [this, List.reverse_reverse]

theorem line_last {tok : Str} (htok : tokOK tok = true) {reac prod : List Term}
    (hr : ∀ t ∈ reac, t.ok tok = true) (hp : ∀ t ∈ prod, t.ok tok = true) :
    ∀ c, (writeLine tok reac prod).getLast? = some c → c ≠ '\n' := by
  intro c hc
  rw [line_decomp] at hc
  have hcore := core_tight htok hr hp
  rcases lead_cases prod with h | h
  · rw [h, List.append_nil, List.getLast?_append] at hc
    cases hl : (Rp reac ++ tok ++ Pp prod).getLast? with
    | none => exact absurd (List.getLast?_eq_none_iff.mp hl) hcore.1
    | some x =>
      rw [hl] at hc; simp at hc; subst hc
      intro e; have := hcore.2.2 x hl; rw [e] at this; exact absurd this (by decide)
  · rw [h, List.getLast?_concat] at hc
    simp at hc; subst hc; decide

theorem line_noSemi {tok : Str} (htok : tokOK tok = true) {reac prod : List Term}
    (hr : ∀ t ∈ reac, t.ok tok = true) (hp : ∀ t ∈ prod, t.ok tok = true) : ';' ∉ writeLine tok reac prod := by
  unfold writeLine
  intro h
  simp only [List.mem_append, List.mem_cons] at h
  rcases h with h | h | h | h | h
  · exact sideText_noSemi htok reac hr h
  · exact absurd h (by decide)
  · exact ((tokOK_spec htok).2 _ h).2.2.1 rfl
  · exact absurd h (by decide)
  · exact sideText_noSemi htok prod hp h

theorem isInfixB_self {tok : Str} (h : tok ≠ []) : isInfixB tok tok = true := by
  cases tok with
  | nil => exact absurd rfl h
  | cons c r =>
    rw [isInfixB_cons]
    have := isPrefixOf_append_self (c :: r) []
    simp only [List.append_nil] at this
    rw [this]; rfl

theorem core_split {tok : Str} (htok : tokOK tok = true) {reac prod : List Term}
    (hr : ∀ t ∈ reac, t.ok tok = true) (hp : ∀ t ∈ prod, t.ok tok = true) :
    pySplit tok (Rp reac ++ tok ++ Pp prod) = [Rp reac, Pp prod] := by
  have hne := (tokOK_spec htok).1
  have hshort : ∀ s : Str, s.length < tok.length → isInfixB tok s = false := fun s hs => isInfixB_false_of_short hs
  have hdl : tok.dropLast.length < tok.length := by
    have := List.length_pos_iff.mpr hne
    simp only [List.length_dropLast]; omega
  have h1 : isInfixB tok (Rp reac ++ tok.dropLast) = false := by
    unfold Rp
    by_cases h : reac = []
    · simpa [h] using hshort _ hdl
    · simp only [h, if_false, List.append_assoc, List.cons_append, List.nil_append]
      exact isInfixB_append_cons (tok_space htok) (sideText_noTok htok reac hr) (hshort _ hdl)
  have h2 : isInfixB tok (Pp prod) = false := by
    unfold Pp
    by_cases h : prod = []
    · simpa [h] using hshort [] (by simpa using List.length_pos_iff.mpr hne)
    · simp only [h, if_false]
      have := isInfixB_append_cons (a := []) (tok_space htok)
        (hshort [] (by simpa using List.length_pos_iff.mpr hne)) (sideText_noTok htok prod hp)
      simpa using this
  rw [pySplit_first _ hne h1, pySplit_none h2]

theorem elems_Rp {tok : Str} (htok : tokOK tok = true) {ts : List Term} (h : ∀ t ∈ ts, t.ok tok = true) :
    (pySplit plusSep (Rp ts)).map strip = elems ts := by
  unfold Rp elems
  by_cases hn : ts = []
  · simp only [hn, if_true]; decide
  · simp only [hn, if_false]
    have := side_split htok ts hn h [] [' '] (Or.inl rfl) (Or.inr rfl)
    simpa using this

theorem elems_Pp {tok : Str} (htok : tokOK tok = true) {ts : List Term} (h : ∀ t ∈ ts, t.ok tok = true) :
    (pySplit plusSep (Pp ts)).map strip = elems ts := by
  unfold Pp elems
  by_cases hn : ts = []
  · simp only [hn, if_true]; decide
  · simp only [hn, if_false]
    have := side_split htok ts hn h [' '] [] (Or.inr rfl) (Or.inl rfl)
    simpa using this

theorem parseMult_active {tok : Str} (allowed : Allowed) {ts : List Term} (h : ∀ t ∈ ts, t.ok tok = true) :
    parseMultiplicity ((elems ts).filter (fun x => !isInactiveTerm x)) allowed =
      if (actD ts).all (fun kv => allowed.has kv.1) then .ok (actD ts) else .error .unknownKey := by
  unfold elems parseMultiplicity actD
  by_cases hn : ts = []
  · subst hn; rfl
  · simp only [hn, if_false]
    rw [filter_active ts h, parseItems_bodies [] _ (fun t ht => h t (List.mem_filter.mp ht).1)]

theorem parseMult_inactive {tok : Str} (allowed : Allowed) {ts : List Term} (h : ∀ t ∈ ts, t.ok tok = true) :
    parseMultiplicity (((elems ts).filter isInactiveTerm).map inner) allowed =
      if (inaD ts).all (fun kv => allowed.has kv.1) then .ok (inaD ts) else .error .unknownKey := by
  unfold elems parseMultiplicity inaD
  by_cases hn : ts = []
  · subst hn; rfl
  · simp only [hn, if_false]
    rw [filter_inactive ts h, parseItems_bodies [] _ (fun t ht => h t (List.mem_filter.mp ht).1)]

/-- all keys of the four dictionaries pass the allowed-key test -/
def allAllowed (allowed : Allowed) (reac prod : List Term) : Bool :=
  (actD reac).all (fun kv => allowed.has kv.1) && (inaD reac).all (fun kv => allowed.has kv.1)
    && (actD prod).all (fun kv => allowed.has kv.1) && (inaD prod).all (fun kv => allowed.has kv.1)

theorem toRaw_written {tok : Str} (allowed : Allowed) (htok : tokOK tok = true) {reac prod : List Term}
    (hr : ∀ t ∈ reac, t.ok tok = true) (hp : ∀ t ∈ prod, t.ok tok = true) :
    toRaw allowed tok (writeLine tok reac prod) =
      if allAllowed allowed reac prod then .ok ⟨actD reac, actD prod, inaD reac, inaD prod, none, []⟩
      else .error .unknownKey := by
  have hA : rstripChars Printing.lineEnd (writeLine tok reac prod) = writeLine tok reac prod := by
    apply rstripChars_id
    intro c hc; have := line_last htok hr hp c hc
    simp [lineEnd_is, this]
  have hB : pySplit Printing.partSep (writeLine tok reac prod) = [writeLine tok reac prod] := by
    apply pySplit_none
    rw [partSep_is]
    apply isInfixB_false_of_not_mem (by simp)
    intro c hc; simp only [List.mem_singleton]; intro e; subst e; exact line_noSemi htok hr hp hc
  have hC : strip (writeLine tok reac prod) = Rp reac ++ tok ++ Pp prod := by
    rw [line_decomp]
    apply strip_pad (core_tight htok hr hp)
    · rcases lead_cases reac with h | h <;> simp [h, isPySpace_space]
    · rcases lead_cases prod with h | h <;> simp [h, isPySpace_space]
  have hD : isInfixB tok (Rp reac ++ tok ++ Pp prod) = true :=
    isInfixB_append_right _ (isInfixB_append_left _ (isInfixB_self (tokOK_spec htok).1))
  have hne : tok.isEmpty = false := by
    cases tok with
    | nil => exact absurd rfl (tokOK_spec htok).1
    | cons _ _ => rfl
  unfold toRaw
  simp only [hA, hB, List.headD_cons, hC, hD, hne, core_split htok hr hp, List.map_cons, List.map_nil,
    termSep_is, elems_Rp htok hr, elems_Pp htok hp, Bool.not_true, Bool.false_eq_true, if_false,
    parseSides, parseMult_active allowed hr, parseMult_inactive allowed hr, parseMult_active allowed hp,
    parseMult_inactive allowed hp, allAllowed, List.drop]
  by_cases h1 : (actD reac).all (fun kv => allowed.has kv.1) = true <;>
  by_cases h2 : (inaD reac).all (fun kv => allowed.has kv.1) = true <;>
  by_cases h3 : (actD prod).all (fun kv => allowed.has kv.1) = true <;>
  by_cases h4 : (inaD prod).all (fun kv => allowed.has kv.1) = true <;> simp [h1, h2, h3, h4]

/-! ### dictionaries -/

/-- the entry a key with total written coefficient `n` must have: absent when 0, the int `n` otherwise -/
def coefOf (n : Nat) : Option Coef := if n = 0 then none else some (Coef.ofNat n)

def keysOf (d : Dict) : List Str := d.map (·.1)

theorem ofNat_add (a b : Nat) : Coef.add (Coef.ofNat a) (Coef.ofNat b) = Coef.ofNat (a + b) := by
  simp [Coef.add, Coef.ofNat, Rat.natCast_add]

theorem dictGet_dictAdd (d : Dict) (k : Str) (c : Coef) (k' : Str) :
    dictGet (dictAdd d k c) k' =
      if k = k' then some (((dictGet d k).getD (Coef.ofNat 0)).add c) else dictGet d k' := by
  induction d with
  | nil => simp [dictAdd, dictGet]
  | cons h t ih =>
    obtain ⟨k0, v⟩ := h
    simp only [dictAdd, dictGet]
    by_cases h0 : k0 = k
    · subst h0
      by_cases h1 : k0 = k' <;> simp [dictGet, h1]
    · by_cases h1 : k = k'
      · subst h1; simp [dictGet, h0, ih]
      · by_cases h2 : k0 = k'
        · subst h2; simp [dictGet, h0]; intro e; exact absurd e h1
        · simp [dictGet, h0, h1, h2, ih]

theorem coefOf_getD (m : Nat) : (coefOf m).getD (Coef.ofNat 0) = Coef.ofNat m := by
  unfold coefOf; split
  · rename_i h; subst h; rfl
  · rfl

theorem dictGet_step {d : Dict} {f : Str → Nat} (hf : ∀ k, dictGet d k = coefOf (f k)) (key : Str) {n : Nat}
    (hn : 1 ≤ n) (k : Str) :
    dictGet (dictAdd d key (Coef.ofNat n)) k = coefOf (f k + if key = k then n else 0) := by
  rw [dictGet_dictAdd]
  by_cases h : key = k
  · subst h
    simp only [if_true, hf, coefOf_getD, ofNat_add]
    unfold coefOf; rw [if_neg (by omega)]
  · simp [h, hf]

theorem dictGet_accum (inact : Bool) (p : Term → Bool) (hp : ∀ t, p t = true ↔ t.inactive = inact)
    (ts : List Term) (hn : ∀ t ∈ ts, 1 ≤ t.n) (d : Dict) (f : Str → Nat) (hf : ∀ k, dictGet d k = coefOf (f k)) (k : Str) :
    dictGet (accum d (ts.filter p)) k = coefOf (f k + count inact k ts) := by
  induction ts generalizing d f with
  | nil => simp [accum, count, hf]
  | cons t ts ih =>
    simp only [List.filter_cons, count]
    by_cases hpt : p t = true
    · have hi := (hp t).mp hpt
      simp only [hpt, if_true, accum, List.foldl_cons]
      have := ih (fun x hx => hn x (by simp [hx])) (dictAdd d t.key (Coef.ofNat t.n))
        (fun k => f k + if t.key = k then t.n else 0) (fun k => dictGet_step hf t.key (hn t (by simp)) k)
      unfold accum at this
      rw [this]
      by_cases hk : t.key = k <;> simp [hi, hk, Nat.add_assoc]
    · have hi : ¬ t.inactive = inact := fun e => hpt ((hp t).mpr e)
      simp only [hpt, Bool.false_eq_true, if_false]
      rw [ih (fun x hx => hn x (by simp [hx])) d f hf]
      simp [hi]

theorem dictGet_actD (ts : List Term) (hn : ∀ t ∈ ts, 1 ≤ t.n) (k : Str) :
    dictGet (actD ts) k = coefOf (count false k ts) := by
  have := dictGet_accum false (fun t => !t.inactive) (by intro t; cases t.inactive <;> simp) ts hn [] (fun _ => 0)
    (by intro k; rfl) k
  simpa [actD] using this

theorem dictGet_inaD (ts : List Term) (hn : ∀ t ∈ ts, 1 ≤ t.n) (k : Str) :
    dictGet (inaD ts) k = coefOf (count true k ts) := by
  have := dictGet_accum true (fun t => t.inactive) (by intro t; cases t.inactive <;> simp) ts hn [] (fun _ => 0)
    (by intro k; rfl) k
  simpa [inaD] using this

theorem keys_dictAdd (d : Dict) (k : Str) (c : Coef) :
    keysOf (dictAdd d k c) = if k ∈ keysOf d then keysOf d else keysOf d ++ [k] := by
  induction d with
  | nil => simp [dictAdd, keysOf]
  | cons h t ih =>
    obtain ⟨k0, v⟩ := h
    simp only [dictAdd]
    by_cases h0 : k0 = k
    · subst h0; simp [keysOf]
    · have ih' := ih
      simp only [keysOf] at ih' ⊢
      simp only [h0, if_false, List.map_cons, ih', List.mem_cons, Ne.symm h0, false_or]
      split <;> rename_i hh <;> simp [hh]

theorem nodup_dictAdd {d : Dict} (k : Str) (c : Coef) (h : (keysOf d).Nodup) : (keysOf (dictAdd d k c)).Nodup := by
  rw [keys_dictAdd]
  split
  · exact h
  · rename_i hk
    rw [List.nodup_append]
    refine ⟨h, by simp, ?_⟩
    intro a ha b hb; simp at hb; subst hb; intro e; subst e; exact hk ha

theorem nodup_accum (d : Dict) (ts : List Term) (h : (keysOf d).Nodup) : (keysOf (accum d ts)).Nodup := by
  induction ts generalizing d with
  | nil => exact h
  | cons t ts ih => exact ih _ (nodup_dictAdd _ _ h)

theorem mem_insertByKey (kv x : Str × Coef) (d : Dict) : x ∈ insertByKey kv d ↔ x = kv ∨ x ∈ d := by
  induction d with
  | nil => simp [insertByKey]
  | cons h t ih =>
    simp only [insertByKey]
    split
    · simp
    · simp only [List.mem_cons, ih]
      constructor
      · rintro (h1 | h1 | h1) <;> simp [h1]
      · rintro (h1 | h1 | h1) <;> simp [h1]

theorem mem_sortDict (x : Str × Coef) (d : Dict) : x ∈ sortDict d ↔ x ∈ d := by
  induction d with
  | nil => simp [sortDict]
  | cons h t ih =>
    have : sortDict (h :: t) = insertByKey h (sortDict t) := rfl
    rw [this, mem_insertByKey, ih]; simp

theorem mem_keysOf {d : Dict} {k : Str} : k ∈ keysOf d ↔ ∃ v, (k, v) ∈ d := by
  simp only [keysOf, List.mem_map]
  constructor
  · rintro ⟨⟨a, b⟩, h1, h2⟩; simp at h2; subst h2; exact ⟨b, h1⟩
  · rintro ⟨v, hv⟩; exact ⟨(k, v), hv, rfl⟩

theorem mem_keys_sortDict {d : Dict} {k : Str} : k ∈ keysOf (sortDict d) ↔ k ∈ keysOf d := by
  simp only [mem_keysOf, mem_sortDict]

theorem dictGet_insertByKey {kv : Str × Coef} {d : Dict} (h : kv.1 ∉ keysOf d) (k : Str) :
    dictGet (insertByKey kv d) k = if kv.1 = k then some kv.2 else dictGet d k := by
  induction d with
  | nil => obtain ⟨a, b⟩ := kv; simp [insertByKey, dictGet]
  | cons x t ih =>
    obtain ⟨a, b⟩ := kv
    obtain ⟨x1, x2⟩ := x
    have hne : a ≠ x1 := fun e => h (by simp [keysOf, e])
    have hnt : a ∉ keysOf t := fun e => h (by simp only [keysOf, List.map_cons, List.mem_cons]; right; exact e)
    simp only [insertByKey]
    split
    · simp [dictGet]
    · simp only [dictGet, ih hnt]
      by_cases h1 : x1 = k
      · subst h1; simp [hne]
      · simp [h1]

theorem nodup_insertByKey {kv : Str × Coef} {d : Dict} (h : kv.1 ∉ keysOf d) (hd : (keysOf d).Nodup) :
    (keysOf (insertByKey kv d)).Nodup := by
  induction d with
  | nil => simp [insertByKey, keysOf]
  | cons x t ih =>
    have hne : kv.1 ≠ x.1 := fun e => h (by simp [keysOf, e])
    have hnt : kv.1 ∉ keysOf t := fun e => h (by simp only [keysOf, List.map_cons, List.mem_cons]; right; exact e)
    simp only [keysOf, List.map_cons, List.nodup_cons] at hd
    simp only [insertByKey]
    split
    · simp only [keysOf, List.map_cons, List.nodup_cons, List.mem_cons, not_or]
      exact ⟨⟨hne, hnt⟩, hd.1, hd.2⟩
    · simp only [keysOf, List.map_cons, List.nodup_cons]
      refine ⟨?_, ih hnt hd.2⟩
      intro hm
      have : x.1 ∈ keysOf (insertByKey kv t) := hm
      rw [mem_keysOf] at this
      obtain ⟨v, hv⟩ := this
      rw [mem_insertByKey] at hv
      rcases hv with hv | hv
      · exact hne (by rw [← hv])
      · exact hd.1 (by simp only [List.mem_map]; exact ⟨(x.1, v), hv, rfl⟩)

theorem sortDict_spec {d : Dict} (hd : (keysOf d).Nodup) :
    (keysOf (sortDict d)).Nodup ∧ ∀ k, dictGet (sortDict d) k = dictGet d k := by
  induction d with
  | nil => exact ⟨by simp [sortDict, keysOf], fun k => rfl⟩
  | cons x t ih =>
    simp only [keysOf, List.map_cons, List.nodup_cons] at hd
    obtain ⟨ih1, ih2⟩ := ih hd.2
    have hx : x.1 ∉ keysOf (sortDict t) := by rw [mem_keys_sortDict]; exact hd.1
    have e : sortDict (x :: t) = insertByKey x (sortDict t) := rfl
    rw [e]
    refine ⟨nodup_insertByKey hx ih1, fun k => ?_⟩
    rw [dictGet_insertByKey hx, ih2]
    obtain ⟨a, b⟩ := x
    simp only [dictGet]

theorem mem_keysOf_iff_get {d : Dict} {k : Str} : k ∈ keysOf d ↔ dictGet d k ≠ none := by
  induction d with
  | nil => simp [keysOf, dictGet]
  | cons x t ih =>
    obtain ⟨a, b⟩ := x
    simp only [keysOf, List.map_cons, List.mem_cons, dictGet]
    by_cases h : a = k
    · simp [h]
    · simp only [h, if_false]
      rw [← ih]; simp only [keysOf]
      constructor
      · rintro (h1 | h1)
        · exact absurd h1.symm h
        · exact h1
      · intro h1; exact Or.inr h1

/-! ### the constructor: sorting and the default checks -/

/-- the reaction object a written line denotes -/
def parsedOf (reac prod : List Term) : Reaction :=
  ⟨sortDict (actD reac), sortDict (actD prod), sortDict (inaD reac), sortDict (inaD prod), none, none⟩

theorem nodup_actD (ts : List Term) : (keysOf (actD ts)).Nodup := nodup_accum [] _ (by simp [keysOf])
theorem nodup_inaD (ts : List Term) : (keysOf (inaD ts)).Nodup := nodup_accum [] _ (by simp [keysOf])

theorem get_sorted_actD (ts : List Term) (hn : ∀ t ∈ ts, 1 ≤ t.n) (k : Str) :
    dictGet (sortDict (actD ts)) k = coefOf (count false k ts) := by
  rw [(sortDict_spec (nodup_actD ts)).2, dictGet_actD ts hn]

theorem get_sorted_inaD (ts : List Term) (hn : ∀ t ∈ ts, 1 ≤ t.n) (k : Str) :
    dictGet (sortDict (inaD ts)) k = coefOf (count true k ts) := by
  rw [(sortDict_spec (nodup_inaD ts)).2, dictGet_inaD ts hn]

theorem getD_of_coefOf {d : Dict} {k : Str} {n : Nat} (h : dictGet d k = coefOf n) : dictGetD d k = (n : Rat) := by
  unfold dictGetD; rw [h]
  by_cases h0 : n = 0
  · subst h0; simp [coefOf]
  · simp [coefOf, h0, Coef.ofNat]

theorem AllNat_dictAdd {d : Dict} (k : Str) (n : Nat) (h : ∀ kv ∈ d, ∃ m, kv.2 = Coef.ofNat m) :
    ∀ kv ∈ dictAdd d k (Coef.ofNat n), ∃ m, kv.2 = Coef.ofNat m := by
  induction d with
  | nil => intro kv hkv; simp [dictAdd] at hkv; subst hkv; exact ⟨0 + n, ofNat_add 0 n⟩
  | cons x t ih =>
    obtain ⟨a, b⟩ := x
    intro kv hkv
    simp only [dictAdd] at hkv
    split at hkv
    · simp only [List.mem_cons] at hkv
      rcases hkv with hkv | hkv
      · obtain ⟨m, hm⟩ := h (a, b) (by simp)
        subst hkv; simp only at hm ⊢; rw [hm]; exact ⟨m + n, ofNat_add m n⟩
      · exact h kv (by simp [hkv])
    · simp only [List.mem_cons] at hkv
      rcases hkv with hkv | hkv
      · exact h kv (by simp [hkv])
      · exact ih (fun x hx => h x (by simp [hx])) kv hkv

theorem AllNat_accum (d : Dict) (ts : List Term) (h : ∀ kv ∈ d, ∃ m, kv.2 = Coef.ofNat m) :
    ∀ kv ∈ accum d ts, ∃ m, kv.2 = Coef.ofNat m := by
  induction ts generalizing d with
  | nil => exact h
  | cons t ts ih => exact ih _ (AllNat_dictAdd _ _ h)

theorem AllNat_sorted_accum (ts : List Term) : ∀ kv ∈ sortDict (accum [] ts), ∃ m, kv.2 = Coef.ofNat m := by
  intro kv hkv; rw [mem_sortDict] at hkv; exact AllNat_accum [] ts (by simp) kv hkv

theorem natDict_checks {d : Dict} (h : ∀ kv ∈ d, ∃ m, kv.2 = Coef.ofNat m) :
    d.all (fun kv => !(kv.2.val < 0)) = true ∧ d.all (fun kv => kv.2.val.den == 1) = true := by
  constructor <;> rw [List.all_eq_true] <;> intro kv hkv <;> obtain ⟨m, hm⟩ := h kv hkv <;> rw [hm]
  · have : ¬ ((m : Rat) < 0) := Rat.not_lt.mpr Rat.natCast_nonneg
    simp [Coef.ofNat, this]
  · simp [Coef.ofNat]

theorem parsedOf_positive_integral (reac prod : List Term) :
    (parsedOf reac prod).allPositive = true ∧ (parsedOf reac prod).allIntegral = true := by
  have a := natDict_checks (AllNat_sorted_accum (reac.filter (fun t => !t.inactive)))
  have b := natDict_checks (AllNat_sorted_accum (prod.filter (fun t => !t.inactive)))
  have c := natDict_checks (AllNat_sorted_accum (reac.filter (fun t => t.inactive)))
  have d := natDict_checks (AllNat_sorted_accum (prod.filter (fun t => t.inactive)))
  simp only [Reaction.allPositive, Reaction.allIntegral, Reaction.allDicts, parsedOf, actD, inaD, List.all_cons,
    List.all_nil, Bool.and_true, Bool.and_eq_true]
  exact ⟨⟨a.1, b.1, c.1, d.1⟩, ⟨a.2, b.2, c.2, d.2⟩⟩

theorem parsedOf_net (reac prod : List Term) (hr : ∀ t ∈ reac, 1 ≤ t.n) (hp : ∀ t ∈ prod, 1 ≤ t.n) (k : Str) :
    (parsedOf reac prod).net k = ((netWritten reac prod k : Int) : Rat) := by
  simp only [Reaction.net, parsedOf, getD_of_coefOf (get_sorted_actD prod hp k), getD_of_coefOf (get_sorted_actD reac hr k),
    getD_of_coefOf (get_sorted_inaD prod hp k), getD_of_coefOf (get_sorted_inaD reac hr k), netWritten,
    Rat.intCast_sub, Rat.intCast_add, Rat.intCast_natCast]
  grind

theorem count_ne_zero_of_mem {ts : List Term} {t : Term} (ht : t ∈ ts) (hn : 1 ≤ t.n) :
    count t.inactive t.key ts ≠ 0 := by
  induction ts with
  | nil => simp at ht
  | cons x ts ih =>
    simp only [List.mem_cons] at ht
    simp only [count]
    rcases ht with ht | ht
    · subst ht; simp; omega
    · have := ih ht; omega

theorem exists_of_count_ne_zero {i : Bool} {k : Str} {ts : List Term} (h : count i k ts ≠ 0) :
    ∃ t ∈ ts, t.key = k := by
  induction ts with
  | nil => simp [count] at h
  | cons x ts ih =>
    simp only [count] at h
    by_cases hx : x.inactive = i ∧ x.key = k
    · exact ⟨x, by simp, hx.2⟩
    · simp only [hx, if_false, Nat.zero_add] at h
      obtain ⟨t, ht, hk⟩ := ih h
      exact ⟨t, by simp [ht], hk⟩

theorem coefOf_ne_none {n : Nat} : coefOf n ≠ none ↔ n ≠ 0 := by
  unfold coefOf; split <;> simp_all

theorem mem_keys_parsed_act {ts : List Term} (hn : ∀ t ∈ ts, 1 ≤ t.n) {k : Str} :
    k ∈ keysOf (sortDict (actD ts)) ↔ count false k ts ≠ 0 := by
  rw [mem_keysOf_iff_get, get_sorted_actD ts hn, coefOf_ne_none]

theorem mem_keys_parsed_ina {ts : List Term} (hn : ∀ t ∈ ts, 1 ≤ t.n) {k : Str} :
    k ∈ keysOf (sortDict (inaD ts)) ↔ count true k ts ≠ 0 := by
  rw [mem_keysOf_iff_get, get_sorted_inaD ts hn, coefOf_ne_none]

theorem parsedOf_keys (reac prod : List Term) (hr : ∀ t ∈ reac, 1 ≤ t.n) (hp : ∀ t ∈ prod, 1 ≤ t.n) (k : Str) :
    k ∈ (parsedOf reac prod).keys ↔ ∃ t ∈ reac ++ prod, t.key = k := by
  have e : (parsedOf reac prod).keys = keysOf (sortDict (actD reac)) ++ keysOf (sortDict (actD prod))
      ++ keysOf (sortDict (inaD reac)) ++ keysOf (sortDict (inaD prod)) := rfl
  rw [e]
  simp only [List.mem_append, mem_keys_parsed_act hr, mem_keys_parsed_act hp, mem_keys_parsed_ina hr, mem_keys_parsed_ina hp]
  constructor
  · rintro (((h | h) | h) | h) <;> obtain ⟨t, ht, hk⟩ := exists_of_count_ne_zero h
    · exact ⟨t, Or.inl ht, hk⟩
    · exact ⟨t, Or.inr ht, hk⟩
    · exact ⟨t, Or.inl ht, hk⟩
    · exact ⟨t, Or.inr ht, hk⟩
  · rintro ⟨t, ht | ht, hk⟩
    · have := count_ne_zero_of_mem ht (hr t ht)
      rw [hk] at this
      cases hi : t.inactive <;> rw [hi] at this <;> simp [this]
    · have := count_ne_zero_of_mem ht (hp t ht)
      rw [hk] at this
      cases hi : t.inactive <;> rw [hi] at this <;> simp [this]

theorem parsedOf_anyEffect (reac prod : List Term) (hr : ∀ t ∈ reac, 1 ≤ t.n) (hp : ∀ t ∈ prod, 1 ≤ t.n) :
    (parsedOf reac prod).anyEffect = hasEffect reac prod := by
  rw [Bool.eq_iff_iff]
  simp only [Reaction.anyEffect, hasEffect, List.any_eq_true, bne_iff_ne, ne_eq]
  constructor
  · rintro ⟨k, hk, hnet⟩
    obtain ⟨t, ht, htk⟩ := (parsedOf_keys reac prod hr hp k).mp hk
    refine ⟨t, ht, ?_⟩
    rw [htk]; intro h0; apply hnet
    rw [parsedOf_net reac prod hr hp, h0]; rfl
  · rintro ⟨t, ht, hnet⟩
    refine ⟨t.key, (parsedOf_keys reac prod hr hp t.key).mpr ⟨t, ht, rfl⟩, ?_⟩
    rw [parsedOf_net reac prod hr hp]
    intro h0; exact hnet (Rat.intCast_eq_zero_iff.mp h0)

/-- `Reaction.from_string` / `Equilibrium.from_string` on a written line, completely determined -/
theorem toReaction_written {tok : Str} (allowed : Allowed) (htok : tokOK tok = true) {reac prod : List Term}
    (hr : ∀ t ∈ reac, t.ok tok = true) (hp : ∀ t ∈ prod, t.ok tok = true) :
    toReaction allowed tok (writeLine tok reac prod) =
      if allAllowed allowed reac prod then
        (if hasEffect reac prod then .ok (parsedOf reac prod) else .error .noEffect)
      else .error .unknownKey := by
  have hr1 : ∀ t ∈ reac, 1 ≤ t.n := fun t ht => (Term.ok_spec (hr t ht)).2.1
  have hp1 : ∀ t ∈ prod, 1 ≤ t.n := fun t ht => (Term.ok_spec (hp t ht)).2.1
  unfold toReaction
  rw [toRaw_written allowed htok hr hp]
  by_cases hA : allAllowed allowed reac prod = true
  · simp only [hA, if_true, mkReaction]
    have e : (⟨sortDict (actD reac), sortDict (actD prod), sortDict (inaD reac), sortDict (inaD prod), none, none⟩ : Reaction)
        = parsedOf reac prod := rfl
    rw [e]
    unfold Reaction.check
    rw [parsedOf_anyEffect reac prod hr1 hp1, (parsedOf_positive_integral reac prod).1,
      (parsedOf_positive_integral reac prod).2]
    cases hasEffect reac prod <;> simp
  · simp only [hA, if_false, Bool.false_eq_true]

/-! ### rejection of unknown keys, for every line -/

theorem parseMultiplicity_allowed {ss : List Str} {allowed : Allowed} {d : Dict}
    (h : parseMultiplicity ss allowed = .ok d) : d.all (fun kv => allowed.has kv.1) = true := by
  unfold parseMultiplicity at h
  split at h
  · split at h
    · rename_i h1; simp at h; subst h; exact h1
    · simp at h
  · simp at h

theorem parseSides_allowed {allowed : Allowed} {l : List (List Str)} {res : List (Dict × Dict)}
    (h : parseSides allowed l = .ok res) :
    ∀ p ∈ res, p.1.all (fun kv => allowed.has kv.1) = true ∧ p.2.all (fun kv => allowed.has kv.1) = true := by
  induction l generalizing res with
  | nil => simp [parseSides] at h; subst h; simp
  | cons e rest ih =>
    simp only [parseSides] at h
    split at h
    · simp at h
    · rename_i a ha
      split at h
      · simp at h
      · rename_i i hi
        split at h
        · simp at h
        · rename_i r hrr
          simp at h; subst h
          intro p hp
          simp only [List.mem_cons] at hp
          rcases hp with hp | hp
          · subst hp; exact ⟨parseMultiplicity_allowed ha, parseMultiplicity_allowed hi⟩
          · exact ih hrr p hp

theorem toRaw_allowed {allowed : Allowed} {tok line : Str} {raw : RawReaction}
    (h : toRaw allowed tok line = .ok raw) :
    raw.reac.all (fun kv => allowed.has kv.1) = true ∧ raw.prod.all (fun kv => allowed.has kv.1) = true ∧
    raw.inactReac.all (fun kv => allowed.has kv.1) = true ∧ raw.inactProd.all (fun kv => allowed.has kv.1) = true := by
  unfold toRaw at h
  simp only at h
  split at h
  · simp at h
  · split at h
    · simp at h
    · split at h
      · simp at h
      · rename_i r p tl hs
        simp at h; subst h
        have := parseSides_allowed hs
        have h1 := this r (by simp)
        have h2 := this p (by simp)
        exact ⟨h1.1, h2.1, h1.2, h2.2⟩
      · simp at h

theorem all_has_sortDict {allowed : Allowed} {d : Dict} (h : d.all (fun kv => allowed.has kv.1) = true) :
    ∀ k ∈ keysOf (sortDict d), allowed.has k = true := by
  intro k hk
  rw [mem_keys_sortDict, mem_keysOf] at hk
  obtain ⟨v, hv⟩ := hk
  exact (List.all_eq_true.mp h) (k, v) hv

theorem toReaction_keys_allowed {allowed : Allowed} {tok line : Str} {r : Reaction}
    (h : toReaction allowed tok line = .ok r) : ∀ k ∈ r.keys, allowed.has k = true := by
  unfold toReaction at h
  split at h
  · simp at h
  · rename_i raw hraw
    obtain ⟨h1, h2, h3, h4⟩ := toRaw_allowed hraw
    unfold mkReaction Reaction.check at h
    split at h
    · simp at h
    · split at h
      · simp at h
      · split at h
        · simp at h
        · simp at h; subst h
          intro k hk
          simp only [Reaction.keys, List.mem_append] at hk
          rcases hk with ((hk | hk) | hk) | hk
          · exact all_has_sortDict h1 k hk
          · exact all_has_sortDict h2 k hk
          · exact all_has_sortDict h3 k hk
          · exact all_has_sortDict h4 k hk

/-! ### `__eq__` is reflexive -/

theorem dictEq_refl (d : Dict) : dictEq d d = true := by
  induction d with
  | nil => rfl
  | cons x t ih => obtain ⟨a, b⟩ := x; simp [dictEq, ih]

theorem Reaction.eq_refl (r : Reaction) : Reaction.eq r r = true := by
  simp [Reaction.eq, dictEq_refl]

/-! ### printing, then parsing -/

/-- a printable side: keys strictly increasing (what `_init_stoich` produces), every coefficient an int `n ≥ 1`,
    every key admissible and not itself of the shape `( … )` -/
def GoodEntry (tok : Str) (kv : Str × Coef) : Prop :=
  ∃ n, 1 ≤ n ∧ kv.2 = Coef.ofNat n ∧ keyOK tok kv.1 = true ∧ isInactiveTerm kv.1 = false

def SortedKeys : Dict → Prop
  | [] => True
  | x :: t => (∀ y ∈ t, strLe x.1 y.1 = true ∧ x.1 ≠ y.1) ∧ SortedKeys t

def GoodDict (tok : Str) (d : Dict) : Prop := SortedKeys d ∧ ∀ kv ∈ d, GoodEntry tok kv

/-- the written term of a dictionary entry, as `_Reaction_parts` writes it: coefficient omitted when it is 1 -/
def termOf (kv : Str × Coef) : Term :=
  let n := kv.2.val.num.toNat
  ⟨kv.1, n, if n = 1 then .omit else .plain, false⟩

def termsOf (d : Dict) : List Term := d.map termOf

theorem termOf_ofNat (k : Str) (n : Nat) : termOf (k, Coef.ofNat n) = ⟨k, n, if n = 1 then .omit else .plain, false⟩ := by
  by_cases h : n = 1 <;> simp [termOf, Coef.ofNat, h]

theorem termOf_ok {tok : Str} {kv : Str × Coef} (h : GoodEntry tok kv) : (termOf kv).ok tok = true := by
  obtain ⟨k, c⟩ := kv
  obtain ⟨n, hn, hc, hk, hi⟩ := h
  simp only at hc hk hi; subst hc
  rw [termOf_ofNat]
  by_cases h1 : n = 1
  · subst h1; simp [Term.ok, hk, hi]
  · simp [Term.ok, hk, h1, hn]

theorem coefStr_ofNat (n : Nat) : coefStr (Coef.ofNat n) = some (natStr n) := by
  have : ¬ ((n : Int) < 0) := by omega
  simp [coefStr, Coef.ofNat, natStr, this]

theorem termStrs_good {tok : Str} {d : Dict} (h : ∀ kv ∈ d, GoodEntry tok kv) :
    termStrs d = some ((termsOf d).map Term.text) := by
  induction d with
  | nil => rfl
  | cons x t ih =>
    obtain ⟨k, c⟩ := x
    obtain ⟨n, hn, hc, _, _⟩ := h (k, c) (by simp)
    simp only at hc; subst hc
    have ih' := ih (fun kv hkv => h kv (by simp [hkv]))
    have h0 : ((Coef.ofNat n).val == 0) = false := by
      simp only [Coef.ofNat, beq_eq_false_iff_ne, ne_eq, Rat.natCast_eq_zero_iff]; omega
    simp only [termStrs, h0, Bool.false_eq_true, if_false, ih', termsOf, List.map_cons, termOf_ofNat]
    by_cases h1 : n = 1
    · subst h1
      have : ((Coef.ofNat 1).val == 1) = true := by simp [Coef.ofNat]
      simp [this, Term.text, Term.body]
    · have : ((Coef.ofNat n).val == 1) = false := by
        simp only [Coef.ofNat, beq_eq_false_iff_ne, ne_eq]
        intro e; apply h1
        have : (n : Rat) = ((1 : Nat) : Rat) := by simpa using e
        exact Rat.natCast_inj.mp this
      simp [this, h1, coefStr_ofNat, Term.text, Term.body, coeffSpace_is]

theorem joinStrs_sideText (ts : List Term) : joinStrs Printing.termJoin (ts.map Term.text) = sideText ts := by
  rw [termJoin_is.1]; rfl

theorem reactionStr_good {tok : Str} {r : Reaction} (hre : ∀ kv ∈ r.reac, GoodEntry tok kv)
    (hpr : ∀ kv ∈ r.prod, GoodEntry tok kv) (hir : r.inactReac = []) (hip : r.inactProd = []) :
    reactionStr tok r = some (writeLine tok (termsOf r.reac) (termsOf r.prod)) := by
  unfold reactionStr
  rw [termStrs_good hre, termStrs_good hpr, hir, hip]
  simp only [termStrs, List.length_nil, Nat.lt_irrefl, if_false, List.append_nil]
  have e2 : joinStrs Printing.termJoinProd ((termsOf r.prod).map Term.text) = sideText (termsOf r.prod) := by
    rw [termJoin_is.2]; rfl
  rw [joinStrs_sideText, e2]
  simp [writeLine, aroundArrow_is.1, aroundArrow_is.2, List.append_assoc]

theorem accum_fresh (pre suf : Dict) (hs : ∀ kv ∈ suf, ∃ n, kv.2 = Coef.ofNat n)
    (hnd : (keysOf (pre ++ suf)).Nodup) : accum pre (termsOf suf) = pre ++ suf := by
  induction suf generalizing pre with
  | nil => simp [accum, termsOf]
  | cons x t ih =>
    obtain ⟨k, c⟩ := x
    obtain ⟨n, hc⟩ := hs (k, c) (by simp)
    simp only at hc; subst hc
    have hk : k ∉ keysOf pre := by
      simp only [keysOf, List.map_append, List.map_cons] at hnd
      have := (List.nodup_append.mp hnd).2.2
      intro hm; exact this k hm k (by simp) rfl
    have hadd : dictAdd pre k (Coef.ofNat n) = pre ++ [(k, Coef.ofNat n)] := by
      clear ih hnd hs
      induction pre with
      | nil => simp [dictAdd, ofNat_add]
      | cons y p ihp =>
        obtain ⟨a, b⟩ := y
        have hne : a ≠ k := fun e => hk (by simp [keysOf, e])
        have hkp : k ∉ keysOf p := fun e => hk (by simp only [keysOf, List.map_cons, List.mem_cons]; right; exact e)
        simp [dictAdd, hne, ihp hkp]
    simp only [termsOf, List.map_cons, termOf_ofNat, accum, List.foldl_cons, hadd]
    have := ih (pre ++ [(k, Coef.ofNat n)]) (fun kv hkv => hs kv (by simp [hkv])) (by simpa [List.append_assoc] using hnd)
    simp only [accum, termsOf] at this
    rw [this]; simp

theorem sortedKeys_nodup {d : Dict} (h : SortedKeys d) : (keysOf d).Nodup := by
  induction d with
  | nil => simp [keysOf]
  | cons x t ih =>
    simp only [keysOf, List.map_cons, List.nodup_cons]
    refine ⟨?_, ih h.2⟩
    intro hm
    simp only [List.mem_map] at hm
    obtain ⟨y, hy, hxy⟩ := hm
    exact (h.1 y hy).2 hxy.symm

theorem sortDict_sorted {d : Dict} (h : SortedKeys d) : sortDict d = d := by
  induction d with
  | nil => rfl
  | cons x t ih =>
    have e : sortDict (x :: t) = insertByKey x (sortDict t) := rfl
    rw [e, ih h.2]
    cases t with
    | nil => rfl
    | cons y t' => simp [insertByKey, (h.1 y (by simp)).1]

theorem termsOf_active (d : Dict) : (termsOf d).filter (fun t => !t.inactive) = termsOf d := by
  rw [List.filter_eq_self]; intro t ht
  simp only [termsOf, List.mem_map] at ht
  obtain ⟨kv, _, rfl⟩ := ht; rfl

theorem termsOf_inactive (d : Dict) : (termsOf d).filter (fun t => t.inactive) = [] := by
  rw [List.filter_eq_nil_iff]; intro t ht
  simp only [termsOf, List.mem_map] at ht
  obtain ⟨kv, _, rfl⟩ := ht; simp [termOf]

theorem parsedOf_termsOf {tok : Str} {a b : Dict} (ha : GoodDict tok a) (hb : GoodDict tok b) :
    parsedOf (termsOf a) (termsOf b) = ⟨a, b, [], [], none, none⟩ := by
  have nat : ∀ {d : Dict}, GoodDict tok d → ∀ kv ∈ d, ∃ n, kv.2 = Coef.ofNat n := by
    intro d hd kv hkv; obtain ⟨n, _, hc, _⟩ := hd.2 kv hkv; exact ⟨n, hc⟩
  have ea : actD (termsOf a) = a := by
    unfold actD; rw [termsOf_active]
    simpa using accum_fresh [] a (nat ha) (by simpa using sortedKeys_nodup ha.1)
  have eb : actD (termsOf b) = b := by
    unfold actD; rw [termsOf_active]
    simpa using accum_fresh [] b (nat hb) (by simpa using sortedKeys_nodup hb.1)
  have ia : inaD (termsOf a) = [] := by unfold inaD; rw [termsOf_inactive]; rfl
  have ib : inaD (termsOf b) = [] := by unfold inaD; rw [termsOf_inactive]; rfl
  unfold parsedOf
  rw [ea, eb, ia, ib, sortDict_sorted ha.1, sortDict_sorted hb.1]
  rfl

/-- parse ∘ print on a reaction without inactive groups returns the same dictionaries -/
theorem parse_print {tok : Str} (htok : tokOK tok = true) {r : Reaction} (hre : GoodDict tok r.reac)
    (hpr : GoodDict tok r.prod) (hir : r.inactReac = []) (hip : r.inactProd = []) (heff : r.anyEffect = true) :
    ∃ s, printReaction tok false false r = some s ∧
      toReaction .none tok s = .ok ⟨r.reac, r.prod, [], [], none, none⟩ := by
  refine ⟨writeLine tok (termsOf r.reac) (termsOf r.prod), ?_, ?_⟩
  · unfold printReaction; rw [reactionStr_good hre.2 hpr.2 hir hip]
  · have hr : ∀ t ∈ termsOf r.reac, t.ok tok = true := by
      intro t ht; simp only [termsOf, List.mem_map] at ht
      obtain ⟨kv, hkv, rfl⟩ := ht; exact termOf_ok (hre.2 kv hkv)
    have hp : ∀ t ∈ termsOf r.prod, t.ok tok = true := by
      intro t ht; simp only [termsOf, List.mem_map] at ht
      obtain ⟨kv, hkv, rfl⟩ := ht; exact termOf_ok (hpr.2 kv hkv)
    have hr1 : ∀ t ∈ termsOf r.reac, 1 ≤ t.n := fun t ht => (Term.ok_spec (hr t ht)).2.1
    have hp1 : ∀ t ∈ termsOf r.prod, 1 ≤ t.n := fun t ht => (Term.ok_spec (hp t ht)).2.1
    have he : hasEffect (termsOf r.reac) (termsOf r.prod) = true := by
      rw [← parsedOf_anyEffect _ _ hr1 hp1, parsedOf_termsOf hre hpr]
      simpa [Reaction.anyEffect, Reaction.keys, Reaction.net, hir, hip] using heff
    rw [toReaction_written .none htok hr hp, he, parsedOf_termsOf hre hpr]
    simp [allAllowed, Allowed.has]

/-! ### lines that carry a parameter: `stoichiometry; parameter` -/

theorem toRaw_written_param {tok : Str} (allowed : Allowed) (htok : tokOK tok = true) {reac prod : List Term}
    (hr : ∀ t ∈ reac, t.ok tok = true) (hp : ∀ t ∈ prod, t.ok tok = true) {p : Str} (hpt : Tight p) (hps : ';' ∉ p) :
    toRaw allowed tok (writeLine tok reac prod ++ ';' :: ' ' :: p) =
      if allAllowed allowed reac prod then .ok ⟨actD reac, actD prod, inaD reac, inaD prod, some p, []⟩
      else .error .unknownKey := by
  have hA : rstripChars Printing.lineEnd (writeLine tok reac prod ++ ';' :: ' ' :: p)
      = writeLine tok reac prod ++ ';' :: ' ' :: p := by
    apply rstripChars_id
    intro c hc
    have e : writeLine tok reac prod ++ ';' :: ' ' :: p = (writeLine tok reac prod ++ [';', ' ']) ++ p := by simp
    rw [e, List.getLast?_append] at hc
    cases hl : p.getLast? with
    | none => exact absurd (List.getLast?_eq_none_iff.mp hl) hpt.1
    | some x =>
      rw [hl] at hc; simp at hc; subst hc
      have hx := hpt.2.2 x hl
      have : x ≠ '\n' := by intro e; rw [e] at hx; exact absurd hx (by decide)
      simp [lineEnd_is, this]
  have hB : pySplit Printing.partSep (writeLine tok reac prod ++ ';' :: ' ' :: p)
      = [writeLine tok reac prod, ' ' :: p] := by
    rw [partSep_is]
    have e : writeLine tok reac prod ++ ';' :: ' ' :: p = writeLine tok reac prod ++ [';'] ++ (' ' :: p) := by simp
    rw [e, pySplit_first _ (by simp)]
    · rw [pySplit_none]
      apply isInfixB_false_of_not_mem (by simp)
      intro c hc; simp only [List.mem_singleton]; intro e; subst e
      simp only [List.mem_cons] at hc
      rcases hc with hc | hc
      · exact absurd hc (by decide)
      · exact hps hc
    · simp only [List.dropLast_singleton, List.append_nil]
      apply isInfixB_false_of_not_mem (by simp)
      intro c hc; simp only [List.mem_singleton]; intro e; subst e; exact line_noSemi htok hr hp hc
  have hP : strip (' ' :: p) = p := by
    have := strip_pad (pre := [' ']) (post := []) hpt (by simp [isPySpace_space]) (by simp)
    simpa using this
  have hC : strip (writeLine tok reac prod) = Rp reac ++ tok ++ Pp prod := by
    rw [line_decomp]
    apply strip_pad (core_tight htok hr hp)
    · rcases lead_cases reac with h | h <;> simp [h, isPySpace_space]
    · rcases lead_cases prod with h | h <;> simp [h, isPySpace_space]
  have hD : isInfixB tok (Rp reac ++ tok ++ Pp prod) = true :=
    isInfixB_append_right _ (isInfixB_append_left _ (isInfixB_self (tokOK_spec htok).1))
  have hne : tok.isEmpty = false := by
    cases tok with
    | nil => exact absurd rfl (tokOK_spec htok).1
    | cons _ _ => rfl
  unfold toRaw
  simp only [hA, hB, List.headD_cons, hC, hD, hne, hP, core_split htok hr hp, List.map_cons, List.map_nil,
    termSep_is, elems_Rp htok hr, elems_Pp htok hp, Bool.not_true, Bool.false_eq_true, if_false,
    parseSides, parseMult_active allowed hr, parseMult_inactive allowed hr, parseMult_active allowed hp,
    parseMult_inactive allowed hp, allAllowed, List.drop]
  by_cases h1 : (actD reac).all (fun kv => allowed.has kv.1) = true <;>
  by_cases h2 : (inaD reac).all (fun kv => allowed.has kv.1) = true <;>
  by_cases h3 : (actD prod).all (fun kv => allowed.has kv.1) = true <;>
  by_cases h4 : (inaD prod).all (fun kv => allowed.has kv.1) = true <;> simp [h1, h2, h3, h4]

theorem toReaction_written_param {tok : Str} (htok : tokOK tok = true) {reac prod : List Term}
    (hr : ∀ t ∈ reac, t.ok tok = true) (hp : ∀ t ∈ prod, t.ok tok = true) {p : Str} (hpt : Tight p) (hps : ';' ∉ p)
    (heff : hasEffect reac prod = true) :
    toReaction .none tok (writeLine tok reac prod ++ ';' :: ' ' :: p) =
      .ok { parsedOf reac prod with param := some p } := by
  have hr1 : ∀ t ∈ reac, 1 ≤ t.n := fun t ht => (Term.ok_spec (hr t ht)).2.1
  have hp1 : ∀ t ∈ prod, 1 ≤ t.n := fun t ht => (Term.ok_spec (hp t ht)).2.1
  unfold toReaction
  rw [toRaw_written_param .none htok hr hp hpt hps]
  have hA : allAllowed .none reac prod = true := by simp [allAllowed, Allowed.has]
  simp only [hA, if_true, mkReaction]
  have h1 : Reaction.anyEffect ⟨sortDict (actD reac), sortDict (actD prod), sortDict (inaD reac), sortDict (inaD prod), some p, none⟩
      = (parsedOf reac prod).anyEffect := rfl
  have h2 : Reaction.allPositive ⟨sortDict (actD reac), sortDict (actD prod), sortDict (inaD reac), sortDict (inaD prod), some p, none⟩
      = (parsedOf reac prod).allPositive := rfl
  have h3 : Reaction.allIntegral ⟨sortDict (actD reac), sortDict (actD prod), sortDict (inaD reac), sortDict (inaD prod), some p, none⟩
      = (parsedOf reac prod).allIntegral := rfl
  unfold Reaction.check
  rw [h1, h2, h3, parsedOf_anyEffect reac prod hr1 hp1, heff, (parsedOf_positive_integral reac prod).1,
    (parsedOf_positive_integral reac prod).2]
  rfl

/-- parse ∘ print with the parameter printed: the parser receives exactly the printed parameter text -/
theorem parse_print_param {tok : Str} (htok : tokOK tok = true) {r : Reaction} (hre : GoodDict tok r.reac)
    (hpr : GoodDict tok r.prod) (hir : r.inactReac = []) (hip : r.inactProd = []) (heff : r.anyEffect = true)
    {p : Str} (hparam : r.param = some p) (hpt : Tight p) (hps : ';' ∉ p) :
    ∃ s, printReaction tok true false r = some s ∧
      toReaction .none tok s = .ok ⟨r.reac, r.prod, [], [], some p, none⟩ := by
  refine ⟨writeLine tok (termsOf r.reac) (termsOf r.prod) ++ ';' :: ' ' :: p, ?_, ?_⟩
  · unfold printReaction; rw [reactionStr_good hre.2 hpr.2 hir hip, hparam]
    simp [paramSeparator_is]
  · have hr : ∀ t ∈ termsOf r.reac, t.ok tok = true := by
      intro t ht; simp only [termsOf, List.mem_map] at ht
      obtain ⟨kv, hkv, rfl⟩ := ht; exact termOf_ok (hre.2 kv hkv)
    have hp : ∀ t ∈ termsOf r.prod, t.ok tok = true := by
      intro t ht; simp only [termsOf, List.mem_map] at ht
      obtain ⟨kv, hkv, rfl⟩ := ht; exact termOf_ok (hpr.2 kv hkv)
    have hr1 : ∀ t ∈ termsOf r.reac, 1 ≤ t.n := fun t ht => (Term.ok_spec (hr t ht)).2.1
    have hp1 : ∀ t ∈ termsOf r.prod, 1 ≤ t.n := fun t ht => (Term.ok_spec (hp t ht)).2.1
    have he : hasEffect (termsOf r.reac) (termsOf r.prod) = true := by
      rw [← parsedOf_anyEffect _ _ hr1 hp1, parsedOf_termsOf hre hpr]
      simpa [Reaction.anyEffect, Reaction.keys, Reaction.net, hir, hip] using heff
    rw [toReaction_written_param htok hr hp hpt hps he, parsedOf_termsOf hre hpr]

end ChemModel.ReactionText
