/-
Helper lemmas for C02 (Model/Balance.lean).

Part 1: sympy's rational gcd `qgcd a b = gcd(num)/lcm(den)` is the generator of ℤa + ℤb
        (common ℤ-divisor, and a ℤ-combination) — needs that `Rat` is stored in lowest terms.
Part 2: the fold `reduce(gcd, sol)` and the normalisation `sol / reduce(gcd, sol)`:
        the quotient is an integer vector with gcd 1.
Part 3: what passing `gateChecks` means.
Part 4: enumeration lemma for `minimalBySearch`, positivity lemmas for the pre-check.
-/
import Mathlib.Tactic.Ring
import Mathlib.Tactic.Linarith
import Mathlib.Tactic.FieldSimp
import Mathlib.Tactic.Positivity
import Mathlib.Tactic.LinearCombination
import Mathlib.Algebra.Order.Field.Rat
import Mathlib.Data.Rat.Lemmas
import Mathlib.Data.Int.GCD
import Mathlib.Data.String.Basic
import ChemModel.Model.Balance

namespace ChemModel.Balance

/-! ## Part 1 -/

/-- `q` is an integer multiple of `d` -/
def ZDvd (d q : ℚ) : Prop := ∃ k : ℤ, q = k * d

theorem ZDvd.refl (d : ℚ) : ZDvd d d := ⟨1, by simp⟩

theorem ZDvd.trans {a b c : ℚ} (h1 : ZDvd a b) (h2 : ZDvd b c) : ZDvd a c := by
  obtain ⟨k, hk⟩ := h1
  obtain ⟨m, hm⟩ := h2
  exact ⟨m * k, by rw [hm, hk]; push_cast; ring⟩

theorem lcm_split (da db : ℕ) :
    ∃ ya yb : ℕ, Nat.lcm da db = da * ya ∧ Nat.lcm da db = db * yb ∧ Nat.Coprime ya yb ∧ ya ∣ db ∧ yb ∣ da := by
  rcases Nat.eq_zero_or_pos (Nat.gcd da db) with h0 | hpos
  · rw [Nat.gcd_eq_zero_iff] at h0
    obtain ⟨ha, hb⟩ := h0
    subst ha; subst hb
    exact ⟨1, 1, by simp, by simp, by simp, by simp, by simp⟩
  · obtain ⟨m', n', hco, hm, hn⟩ := Nat.exists_coprime da db
    have h1 := Nat.gcd_mul_lcm da db
    generalize hg : Nat.gcd da db = g0 at *
    refine ⟨n', m', ?_, ?_, hco.symm, ⟨g0, hn⟩, ⟨g0, hm⟩⟩
    · apply Nat.eq_of_mul_eq_mul_left hpos
      rw [h1]
      calc da * db = da * (n' * g0) := by rw [← hn]
        _ = g0 * (da * n') := by ring
    · apply Nat.eq_of_mul_eq_mul_left hpos
      rw [h1]
      calc da * db = (m' * g0) * db := by rw [← hm]
        _ = g0 * (db * m') := by ring

theorem gcd_cross (na nb da db ya yb : ℕ) (ha : Nat.Coprime na da) (hb : Nat.Coprime nb db)
    (hco : Nat.Coprime ya yb) (hya : ya ∣ db) (hyb : yb ∣ da) :
    Nat.gcd (na * ya) (nb * yb) = Nat.gcd na nb := by
  have h1 : Nat.Coprime ya nb := (Nat.Coprime.coprime_dvd_right hya hb).symm
  have h2 : Nat.Coprime yb na := (Nat.Coprime.coprime_dvd_right hyb ha).symm
  rw [Nat.Coprime.gcd_mul_right_cancel na (Nat.Coprime.mul_right h1 hco),
    Nat.Coprime.gcd_mul_right_cancel_right nb h2]

/-- the data behind `qgcd a b`: cofactors of the lcm of the denominators, and the numerator gcd
    is also the gcd of the numerators brought to the common denominator -/
theorem qgcd_data (a b : ℚ) :
    ∃ ya yb : ℕ, Nat.lcm a.den b.den = a.den * ya ∧ Nat.lcm a.den b.den = b.den * yb ∧
      Int.gcd (a.num * ya) (b.num * yb) = Int.gcd a.num b.num := by
  obtain ⟨ya, yb, h1, h2, hco, hya, hyb⟩ := lcm_split a.den b.den
  refine ⟨ya, yb, h1, h2, ?_⟩
  have := gcd_cross a.num.natAbs b.num.natAbs a.den b.den ya yb a.reduced b.reduced hco hya hyb
  simpa [Int.gcd, Int.natAbs_mul] using this

theorem lcm_den_ne_zero (a b : ℚ) : Nat.lcm a.den b.den ≠ 0 :=
  Nat.lcm_ne_zero a.den_nz b.den_nz

theorem frac_rescale (n : ℤ) (d ya L : ℕ) (hL : L = d * ya) (hL0 : L ≠ 0) :
    (n : ℚ) * ya / L = n / d := by
  have hd : (d : ℚ) ≠ 0 := by
    intro h; apply hL0; rw [hL]; have : d = 0 := by exact_mod_cast h
    simp [this]
  have hy : (ya : ℚ) ≠ 0 := by
    intro h; apply hL0; rw [hL]; have : ya = 0 := by exact_mod_cast h
    simp [this]
  rw [hL]; push_cast; field_simp

theorem zdvd_aux (av : ℚ) (na c : ℤ) (da ya L G : ℕ) (hav : (na : ℚ) / da = av) (hc : na = (G : ℤ) * c)
    (hL : L = da * ya) (hL0 : L ≠ 0) : av = ((c * ya : ℤ) : ℚ) * ((G : ℚ) / (L : ℚ)) := by
  have e1 := frac_rescale na da ya L hL hL0
  have hL0' : (L : ℚ) ≠ 0 := by exact_mod_cast hL0
  have hc' : (na : ℚ) = (G : ℚ) * c := by exact_mod_cast hc
  rw [← hav, ← e1, hc']
  push_cast
  field_simp

theorem bezout_aux (av bv : ℚ) (na nb s t : ℤ) (da db ya yb L G : ℕ) (hav : (na : ℚ) / da = av)
    (hbv : (nb : ℚ) / db = bv) (hL1 : L = da * ya) (hL2 : L = db * yb) (hL0 : L ≠ 0)
    (hb : (G : ℤ) = na * ya * s + nb * yb * t) : (G : ℚ) / (L : ℚ) = s * av + t * bv := by
  have ea := frac_rescale na da ya L hL1 hL0
  have eb := frac_rescale nb db yb L hL2 hL0
  have hb' : (G : ℚ) = na * ya * s + nb * yb * t := by exact_mod_cast hb
  rw [← hav, ← hbv, ← ea, ← eb, hb']
  ring

theorem qgcd_zdvd_left (a b : ℚ) : ZDvd (qgcd a b) a := by
  obtain ⟨ya, yb, h1, _, _⟩ := qgcd_data a b
  obtain ⟨c, hc⟩ := Int.gcd_dvd_left a.num b.num
  exact ⟨c * ya, zdvd_aux a a.num c a.den ya _ _ (Rat.num_div_den a) hc h1 (lcm_den_ne_zero a b)⟩

theorem qgcd_zdvd_right (a b : ℚ) : ZDvd (qgcd a b) b := by
  obtain ⟨ya, yb, _, h2, _⟩ := qgcd_data a b
  obtain ⟨c, hc⟩ := Int.gcd_dvd_right a.num b.num
  exact ⟨c * yb, zdvd_aux b b.num c b.den yb _ _ (Rat.num_div_den b) hc h2 (lcm_den_ne_zero a b)⟩

theorem qgcd_bezout (a b : ℚ) : ∃ s t : ℤ, qgcd a b = s * a + t * b := by
  obtain ⟨ya, yb, h1, h2, h3⟩ := qgcd_data a b
  have hb := Int.gcd_eq_gcd_ab (a.num * ya) (b.num * yb)
  rw [h3] at hb
  exact ⟨_, _, bezout_aux a b a.num b.num _ _ a.den b.den ya yb _ _ (Rat.num_div_den a) (Rat.num_div_den b)
    h1 h2 (lcm_den_ne_zero a b) hb⟩

theorem qgcd_greatest (a b d : ℚ) (ha : ZDvd d a) (hb : ZDvd d b) : ZDvd d (qgcd a b) := by
  obtain ⟨s, t, hst⟩ := qgcd_bezout a b
  obtain ⟨ka, hka⟩ := ha
  obtain ⟨kb, hkb⟩ := hb
  refine ⟨s * ka + t * kb, ?_⟩
  rw [hst]
  push_cast
  rw [hka, hkb]
  ring

/-! ## Part 2: `reduce(gcd, sol)` and the division by it -/

theorem foldl_qgcd_spec (xs : List ℚ) : ∀ x : ℚ,
    (∀ q ∈ x :: xs, ZDvd (xs.foldl qgcd x) q) ∧
    (∀ d, (∀ q ∈ x :: xs, ZDvd d q) → ZDvd d (xs.foldl qgcd x)) := by
  induction xs with
  | nil =>
    intro x
    refine ⟨fun q hq => ?_, fun d hd => ?_⟩
    · rcases List.mem_cons.1 hq with rfl | hq
      · exact ZDvd.refl _
      · cases hq
    · exact hd x (List.mem_cons_self ..)
  | cons y ys ih =>
    intro x
    obtain ⟨h1, h2⟩ := ih (qgcd x y)
    simp only [List.foldl_cons]
    constructor
    · intro q hq
      have hg : ZDvd (ys.foldl qgcd (qgcd x y)) (qgcd x y) := h1 _ (List.mem_cons_self ..)
      rcases List.mem_cons.1 hq with rfl | hq
      · exact hg.trans (qgcd_zdvd_left _ _)
      rcases List.mem_cons.1 hq with rfl | hq
      · exact hg.trans (qgcd_zdvd_right _ _)
      · exact h1 q (List.mem_cons_of_mem _ hq)
    · intro d hd
      apply h2
      intro q hq
      rcases List.mem_cons.1 hq with rfl | hq
      · exact qgcd_greatest _ _ _ (hd _ (List.mem_cons_self ..))
          (hd _ (List.mem_cons_of_mem _ (List.mem_cons_self ..)))
      · exact hd q (List.mem_cons_of_mem _ (List.mem_cons_of_mem _ hq))

/-- gcd of a list of integers -/
def listGcd : List ℤ → ℕ
  | [] => 0
  | a :: r => Int.gcd a (listGcd r)

theorem listGcd_dvd (l : List ℤ) : ∀ a ∈ l, (listGcd l : ℤ) ∣ a := by
  induction l with
  | nil => intro a ha; cases ha
  | cons b r ih =>
    intro a ha
    rcases List.mem_cons.1 ha with rfl | ha
    · exact Int.gcd_dvd_left _ _
    · exact Int.dvd_trans (Int.gcd_dvd_right _ _) (ih a ha)

theorem exists_int_list (l : List ℚ) (g : ℚ) (h : ∀ q ∈ l, ZDvd g q) :
    ∃ ks : List ℤ, l = ks.map fun (k : ℤ) => (k : ℚ) * g := by
  induction l with
  | nil => exact ⟨[], rfl⟩
  | cons q r ih =>
    obtain ⟨ks, hks⟩ := ih (fun q hq => h q (List.mem_cons_of_mem _ hq))
    obtain ⟨k, hk⟩ := h q (List.mem_cons_self ..)
    exact ⟨k :: ks, by rw [List.map_cons, ← hks, ← hk]⟩

/-- dividing a rational vector by the generator of its ℤ-span gives a coprime integer vector -/
theorem normalised_int_coprime (l : List ℚ) (g : ℚ) (hg : g ≠ 0) (h1 : ∀ q ∈ l, ZDvd g q)
    (h2 : ∀ d, (∀ q ∈ l, ZDvd d q) → ZDvd d g) :
    ∃ ks : List ℤ, l.map (· / g) = ks.map (fun (k : ℤ) => (k : ℚ)) ∧ listGcd ks = 1 := by
  obtain ⟨ks, hks⟩ := exists_int_list l g h1
  refine ⟨ks, ?_, ?_⟩
  · rw [hks, List.map_map]
    apply List.map_congr_left
    intro k _
    simp [hg]
  · have hall : ∀ q ∈ l, ZDvd ((listGcd ks : ℚ) * g) q := by
      intro q hq
      rw [hks] at hq
      obtain ⟨k, hk, rfl⟩ := List.mem_map.1 hq
      obtain ⟨m, hm⟩ := listGcd_dvd ks k hk
      refine ⟨m, ?_⟩
      rw [hm]; push_cast; ring
    obtain ⟨m, hm⟩ := h2 _ hall
    have h3 : (m : ℚ) * (listGcd ks : ℚ) = 1 := by
      have : ((m : ℚ) * (listGcd ks : ℚ) - 1) * g = 0 := by linear_combination -hm
      rcases mul_eq_zero.1 this with h | h
      · linarith
      · exact absurd h hg
    have h4 : m * (listGcd ks : ℤ) = 1 := by exact_mod_cast h3
    have h5 : ((listGcd ks : ℕ) : ℤ) ∣ ((1 : ℕ) : ℤ) := ⟨m, by rw [Nat.cast_one, ← h4]; ring⟩
    exact Nat.dvd_one.1 (Int.natCast_dvd_natCast.1 h5)

theorem nums?_map_num (w : Vec) : nums? (w.map Entry.num) = some w := by
  induction w with
  | nil => rfl
  | cons q r ih => simp [nums?, ih]

theorem nums?_length (u : List Entry) (q : Vec) (h : nums? u = some q) : q.length = u.length := by
  induction u generalizing q with
  | nil => simp [nums?] at h; subst h; rfl
  | cons e r ih =>
    cases e with
    | num a =>
      simp only [nums?, Option.map_eq_some_iff] at h
      obtain ⟨q', hq', rfl⟩ := h
      simp [ih q' hq']
    | sym => simp [nums?] at h
    | nan => simp [nums?] at h

/-- whatever reaches the second normalisation line: if the outcome is purely numeric it is a coprime
    integer vector -/
theorem stage2_sound (u : List Entry) (w : Vec) (h : stage2 u = .ok (w.map Entry.num)) :
    ∃ ks : List ℤ, w = ks.map (fun (k : ℤ) => (k : ℚ)) ∧ listGcd ks = 1 := by
  unfold stage2 at h
  split at h
  · cases h
  · rename_i hne
    split at h
    · rename_i hnone
      injection h with h
      rw [h, nums?_map_num] at hnone
      cases hnone
    · rename_i q hq
      have hlen := nums?_length u q hq
      cases q with
      | nil =>
        cases u with
        | nil => exact absurd rfl (hne)
        | cons _ _ => simp at hlen
      | cons q0 qs =>
        simp only [reduceGcd] at h
        injection h with h
        by_cases hg : qs.foldl qgcd q0 = 0
        · rw [hg] at h
          cases w with
          | nil => simp at h
          | cons w0 ws => simp [divE] at h
        · have hmap : (q0 :: qs).map (divE · (qs.foldl qgcd q0)) =
              ((q0 :: qs).map (· / (qs.foldl qgcd q0))).map Entry.num := by
            rw [List.map_map]
            apply List.map_congr_left
            intro e _
            simp [divE, hg]
          rw [hmap] at h
          have hw : (q0 :: qs).map (· / (qs.foldl qgcd q0)) = w := by
            have := congrArg nums? h
            rw [nums?_map_num, nums?_map_num] at this
            exact Option.some.inj this
          obtain ⟨h1, h2⟩ := foldl_qgcd_spec qs q0
          obtain ⟨ks, hks, hco⟩ := normalised_int_coprime (q0 :: qs) _ hg h1 h2
          exact ⟨ks, by rw [← hw, hks], hco⟩

/-! ## Part 3: what passing the checks means -/

theorem dotE_num (r : List ℚ) : ∀ w : Vec, dotE r (w.map Entry.num) = some (dot r w) := by
  induction r with
  | nil => intro w; cases w <;> simp [dotE, dot]
  | cons a as ih =>
    intro w
    cases w with
    | nil => simp [dotE, dot]
    | cons b bs => simp [dotE, dot, ih bs]

theorem positivity_ok (sol : List Entry) (h : positivity sol = .ok ()) (hs : ∀ e ∈ sol, e ≠ Entry.sym) :
    ∃ w : Vec, sol = w.map Entry.num ∧ ∀ q ∈ w, 0 < q := by
  induction sol with
  | nil => exact ⟨[], rfl, fun q hq => by cases hq⟩
  | cons e r ih =>
    cases e with
    | num q =>
      unfold positivity at h
      split at h
      · rename_i hq
        obtain ⟨w, hw, hpos⟩ := ih h (fun e he => hs e (List.mem_cons_of_mem _ he))
        refine ⟨q :: w, by rw [hw]; rfl, ?_⟩
        intro a ha
        rcases List.mem_cons.1 ha with rfl | ha
        · exact hq
        · exact hpos a ha
      · cases h
    | sym => exact absurd rfl (hs _ (List.mem_cons_self ..))
    | nan => simp [positivity] at h

/-- the symbolic-mode variant: numeric entries are positive (symbols are skipped) -/
theorem positivity_num (sol : List Entry) (h : positivity sol = .ok ()) :
    ∀ q : ℚ, Entry.num q ∈ sol → 0 < q := by
  induction sol with
  | nil => intro q hq; cases hq
  | cons e r ih =>
    intro q hq
    cases e with
    | num a =>
      unfold positivity at h
      split at h
      · rename_i ha
        rcases List.mem_cons.1 hq with h1 | h1
        · injection h1 with h1; rw [h1]; exact ha
        · exact ih h q h1
      · cases h
    | sym =>
      unfold positivity at h
      rcases List.mem_cons.1 hq with h1 | h1
      · cases h1
      · exact ih h q h1
    | nan => simp [positivity] at h

theorem gateChecks_numeric (mode : Mode) (hm : mode ≠ .symbolic) (A : Mat) (sol x : List Entry)
    (h : gateChecks mode A sol = .ok x) :
    x = sol ∧ wellFormed A = true ∧ cols A = sol.length ∧
      ∃ w : Vec, sol = w.map Entry.num ∧ (∀ q ∈ w, 0 < q) ∧ (∀ r ∈ A, dot r w = 0) := by
  unfold gateChecks at h
  split at h
  · cases h
  · cases mode with
    | symbolic => exact absurd rfl hm
    | strict =>
      simp only at h
      split at h
      · cases h
      · rename_i hsym
        split at h
        · cases h
        · rename_i hshape
          split at h
          · cases h
          · rename_i hres
            split at h
            · cases h
            · rename_i hpos
              injection h with h
              have hs : ∀ e ∈ sol, e ≠ Entry.sym := by
                intro e he heq
                apply hsym
                rw [List.any_eq_true]
                exact ⟨e, he, by simp [heq]⟩
              have hp : positivity sol = .ok () := by rw [hpos]
              obtain ⟨w, hw, hwpos⟩ := positivity_ok sol hp hs
              simp only [Bool.or_eq_true, Bool.not_eq_true', bne_iff_ne, ne_eq, not_or,
                Bool.not_eq_false, Decidable.not_not] at hshape
              refine ⟨h.symm, hshape.1, hshape.2, w, hw, hwpos, ?_⟩
              intro r hr
              simp only [Bool.not_eq_true', Bool.not_eq_false] at hres
              have := (List.all_eq_true.1 hres) r hr
              rw [hw, dotE_num] at this
              simpa using this
    | smallest =>
      simp only at h
      split at h
      · cases h
      · rename_i hsym
        split at h
        · cases h
        · rename_i hshape
          split at h
          · cases h
          · rename_i hres
            split at h
            · cases h
            · rename_i hpos
              injection h with h
              have hs : ∀ e ∈ sol, e ≠ Entry.sym := by
                intro e he heq
                apply hsym
                rw [List.any_eq_true]
                exact ⟨e, he, by simp [heq]⟩
              have hp : positivity sol = .ok () := by rw [hpos]
              obtain ⟨w, hw, hwpos⟩ := positivity_ok sol hp hs
              simp only [Bool.or_eq_true, Bool.not_eq_true', bne_iff_ne, ne_eq, not_or,
                Bool.not_eq_false, Decidable.not_not] at hshape
              refine ⟨h.symm, hshape.1, hshape.2, w, hw, hwpos, ?_⟩
              intro r hr
              simp only [Bool.not_eq_true', Bool.not_eq_false] at hres
              have := (List.all_eq_true.1 hres) r hr
              rw [hw, dotE_num] at this
              simpa using this

/-! ## Part 4: enumeration, gcd scaling, pre-check -/

theorem mem_enumPos : ∀ (n budget : ℕ) (y : List ℕ), y.length = n → (∀ v ∈ y, 0 < v) → y.sum ≤ budget →
    y ∈ enumPos n budget := by
  intro n
  induction n with
  | zero =>
    intro budget y hl _ _
    have : y = [] := List.length_eq_zero_iff.1 hl
    subst this
    simp [enumPos]
  | succ n ih =>
    intro budget y hl hpos hsum
    cases y with
    | nil => simp at hl
    | cons v rest =>
      have hv : 0 < v := hpos v (List.mem_cons_self ..)
      simp only [List.sum_cons] at hsum
      simp only [List.length_cons, Nat.add_right_cancel_iff] at hl
      unfold enumPos
      rw [List.mem_flatMap]
      refine ⟨v - 1, List.mem_range.2 (by omega), ?_⟩
      rw [List.mem_map]
      refine ⟨rest, ih _ rest hl (fun a ha => hpos a (List.mem_cons_of_mem _ ha)) (by omega), ?_⟩
      have : v - 1 + 1 = v := by omega
      rw [this]

theorem listGcd_map_mul (c : ℤ) (xs : List ℤ) : listGcd (xs.map (c * ·)) = c.natAbs * listGcd xs := by
  induction xs with
  | nil => simp [listGcd]
  | cons a r ih =>
    simp only [List.map_cons, listGcd, ih]
    simp [Int.gcd, Int.natAbs_mul, Int.natAbs_abs, Nat.gcd_mul_left]

theorem ray_to_int (t : ℚ) : ∀ (x y : List ℤ),
    y.map (fun (k : ℤ) => (k : ℚ)) = x.map (fun (k : ℤ) => t * (k : ℚ)) →
    y.map ((t.den : ℤ) * ·) = x.map (t.num * ·) := by
  intro x
  induction x with
  | nil => intro y h; cases y <;> simp_all
  | cons a r ih =>
    intro y h
    cases y with
    | nil => simp at h
    | cons b s =>
      simp only [List.map_cons, List.cons.injEq] at h ⊢
      refine ⟨?_, ih s h.2⟩
      have hd : (t.den : ℚ) ≠ 0 := by exact_mod_cast t.den_nz
      have ht : (t.num : ℚ) / t.den = t := Rat.num_div_den t
      have e : (b : ℚ) = (t.num : ℚ) / t.den * a := by rw [ht]; exact h.1
      have : ((t.den : ℤ) : ℚ) * (b : ℚ) = (t.num : ℚ) * a := by
        rw [e]; push_cast; field_simp
      exact_mod_cast this

theorem dot_zero_left : ∀ (r x : List ℚ), (∀ q ∈ r, q = 0) → dot r x = 0 := by
  intro r
  induction r with
  | nil => intro x _; cases x <;> simp [dot]
  | cons a as ih =>
    intro x h
    cases x with
    | nil => simp [dot]
    | cons b bs =>
      simp only [dot]
      rw [h a (List.mem_cons_self ..), ih bs (fun q hq => h q (List.mem_cons_of_mem _ hq))]
      simp

theorem dot_nonneg : ∀ (r x : List ℚ), (∀ q ∈ r, 0 ≤ q) → (∀ q ∈ x, 0 < q) → 0 ≤ dot r x := by
  intro r
  induction r with
  | nil => intro x _ _; cases x <;> simp [dot]
  | cons a as ih =>
    intro x hr hx
    cases x with
    | nil => simp [dot]
    | cons b bs =>
      simp only [dot]
      have h1 := hr a (List.mem_cons_self ..)
      have h2 := hx b (List.mem_cons_self ..)
      have h3 := ih bs (fun q hq => hr q (List.mem_cons_of_mem _ hq)) (fun q hq => hx q (List.mem_cons_of_mem _ hq))
      have : 0 ≤ a * b := mul_nonneg h1 (le_of_lt h2)
      linarith

theorem dot_pos : ∀ (r x : List ℚ), x.length = r.length → (∀ q ∈ r, 0 ≤ q) → (∃ q ∈ r, 0 < q) →
    (∀ q ∈ x, 0 < q) → 0 < dot r x := by
  intro r
  induction r with
  | nil => intro x _ _ h; obtain ⟨q, hq, _⟩ := h; cases hq
  | cons a as ih =>
    intro x hl hr hex hx
    cases x with
    | nil => simp at hl
    | cons b bs =>
      simp only [dot]
      simp only [List.length_cons, Nat.add_right_cancel_iff] at hl
      have h1 := hr a (List.mem_cons_self ..)
      have h2 := hx b (List.mem_cons_self ..)
      have hr' : ∀ q ∈ as, 0 ≤ q := fun q hq => hr q (List.mem_cons_of_mem _ hq)
      have hx' : ∀ q ∈ bs, 0 < q := fun q hq => hx q (List.mem_cons_of_mem _ hq)
      obtain ⟨q, hq, hqpos⟩ := hex
      rcases List.mem_cons.1 hq with rfl | hq
      · have : 0 < q * b := mul_pos hqpos h2
        have := dot_nonneg as bs hr' hx'
        linarith
      · have : 0 ≤ a * b := mul_nonneg h1 (le_of_lt h2)
        have := ih bs hl hr' ⟨q, hq, hqpos⟩ hx'
        linarith

theorem dot_neg_left : ∀ (r x : List ℚ), dot (r.map (-·)) x = - dot r x := by
  intro r
  induction r with
  | nil => intro x; cases x <;> simp [dot]
  | cons a as ih =>
    intro x
    cases x with
    | nil => simp [dot]
    | cons b bs => simp only [List.map_cons, dot, ih bs]; ring

/-- a component absent from one side and of one sign on the other cannot be balanced -/
theorem one_sided_unbalanced (pv xp : List ℚ) (hl : xp.length = pv.length)
    (hsign : ¬ ((pv.any (0 < ·)) = true ∧ (pv.any (· < 0)) = true)) (hnz : ∃ q ∈ pv, q ≠ 0)
    (hx : ∀ q ∈ xp, 0 < q) : dot pv xp ≠ 0 := by
  obtain ⟨q0, hq0, hq0nz⟩ := hnz
  by_cases hp : (pv.any (0 < ·)) = true
  · have hn : ¬ (pv.any (· < 0)) = true := fun h => hsign ⟨hp, h⟩
    have hall : ∀ q ∈ pv, 0 ≤ q := by
      intro q hq
      by_contra hlt
      exact hn (List.any_eq_true.2 ⟨q, hq, by simpa using lt_of_not_ge hlt⟩)
    obtain ⟨q, hq, hqp⟩ := List.any_eq_true.1 hp
    have := dot_pos pv xp hl hall ⟨q, hq, by simpa using hqp⟩ hx
    exact ne_of_gt this
  · have hall : ∀ q ∈ pv.map (-·), 0 ≤ q := by
      intro q hq
      obtain ⟨a, ha, rfl⟩ := List.mem_map.1 hq
      have : ¬ 0 < a := fun h => hp (List.any_eq_true.2 ⟨a, ha, by simpa using h⟩)
      linarith [not_lt.1 this]
    have hq0' : q0 < 0 := by
      have : ¬ 0 < q0 := fun h => hp (List.any_eq_true.2 ⟨q0, hq0, by simpa using h⟩)
      exact lt_of_le_of_ne (not_lt.1 this) hq0nz
    have := dot_pos (pv.map (-·)) xp (by simpa using hl) hall
      ⟨-q0, List.mem_map.2 ⟨q0, hq0, rfl⟩, by linarith⟩ hx
    rw [dot_neg_left] at this
    linarith

/-! ## Part 5: the signed matrix `_get` builds -/

theorem dot_append : ∀ (a x b y : List ℚ), a.length = x.length → dot (a ++ b) (x ++ y) = dot a x + dot b y := by
  intro a
  induction a with
  | nil => intro x b y h; cases x with
    | nil => simp [dot]
    | cons _ _ => simp at h
  | cons a0 as ih =>
    intro x b y h
    cases x with
    | nil => simp at h
    | cons x0 xs =>
      simp only [List.length_cons, Nat.add_right_cancel_iff] at h
      simp only [List.cons_append, dot, ih xs b y h]
      ring

theorem dot_map_mul_left (c : ℚ) : ∀ (r x : List ℚ), dot (r.map (· * c)) x = c * dot r x := by
  intro r
  induction r with
  | nil => intro x; cases x <;> simp [dot]
  | cons a as ih =>
    intro x
    cases x with
    | nil => simp [dot]
    | cons b bs => simp only [List.map_cons, dot, ih bs]; ring

theorem lookupAll_length (subs : List (String × Comp)) : ∀ (keys : List String) (cs : List Comp),
    lookupAll subs keys = some cs → cs.length = keys.length := by
  intro keys
  induction keys with
  | nil => intro cs h; simp [lookupAll] at h; subst h; rfl
  | cons k r ih =>
    intro cs h
    unfold lookupAll at h
    split at h
    · rename_i c cs' _ h2
      injection h with h
      subst h
      simp [ih cs' h2]
    · cases h

/-- one side of a row of the matrix: every species of `keys` gets the sign `sgn` -/
theorem side_row (reactants keys : List String) (cs : List Comp) (ck : Int) (sgn : ℚ)
    (hlen : cs.length = keys.length)
    (hs : ∀ s ∈ keys, (if reactants.contains s then (-1 : ℚ) else 1) = sgn) :
    (keys.zip cs).map (fun p => signedEntry reactants ck p.1 p.2) = (cs.map (·.get ck)).map (· * sgn) := by
  induction keys generalizing cs with
  | nil => cases cs with
    | nil => rfl
    | cons _ _ => simp at hlen
  | cons k r ih =>
    cases cs with
    | nil => simp at hlen
    | cons c cs' =>
      simp only [List.length_cons, Nat.add_right_cancel_iff] at hlen
      simp only [List.zip_cons_cons, List.map_cons, List.cons.injEq]
      refine ⟨?_, ih cs' hlen (fun s hs' => hs s (List.mem_cons_of_mem _ hs'))⟩
      unfold signedEntry
      rw [hs k (List.mem_cons_self ..)]

/-- a row of `A` applied to (reactant coefficients ++ product coefficients) is
    (amount in the products) − (amount in the reactants) -/
theorem signed_row_dot (reac prod : List String) (rc pc : List Comp) (ck : Int) (xr xp : Vec)
    (hdis : ∀ s ∈ prod, s ∉ reac) (hlr : rc.length = reac.length) (hlp : pc.length = prod.length)
    (hxr : xr.length = reac.length) :
    dot (((reac ++ prod).zip (rc ++ pc)).map fun p => signedEntry reac ck p.1 p.2) (xr ++ xp)
      = dot (pc.map (·.get ck)) xp - dot (rc.map (·.get ck)) xr := by
  rw [List.zip_append hlr.symm, List.map_append]
  rw [side_row reac reac rc ck (-1) hlr (by intro s hs; simp [hs])]
  rw [side_row reac prod pc ck 1 hlp (by intro s hs; simp [hdis s hs])]
  rw [dot_append _ _ _ _ (by simp [hlr, hxr]), dot_map_mul_left, dot_map_mul_left]
  ring

/-! ## Part 6: duplicate handling -/

section Sorted
variable {α : Type} [LT α] [DecidableRel (α := α) (· < ·)] [DecidableEq α]

theorem mem_insertSorted (x a : α) (l : List α) : a ∈ insertSorted x l ↔ a = x ∨ a ∈ l := by
  induction l with
  | nil => simp [insertSorted]
  | cons y r ih =>
    unfold insertSorted
    by_cases h1 : x = y
    · subst h1
      simp only [if_true]
      constructor
      · intro h; exact Or.inr h
      · rintro (h | h)
        · subst h; exact List.mem_cons_self ..
        · exact h
    · simp only [h1, if_false]
      by_cases h2 : x < y
      · simp only [h2, if_true, List.mem_cons]
      · simp only [h2, if_false, List.mem_cons, ih]
        constructor
        · rintro (h | h | h)
          · exact Or.inr (Or.inl h)
          · exact Or.inl h
          · exact Or.inr (Or.inr h)
        · rintro (h | h | h)
          · exact Or.inr (Or.inl h)
          · exact Or.inl h
          · exact Or.inr (Or.inr h)

theorem mem_foldl_insertSorted (a : α) (l : List α) : ∀ acc : List α,
    a ∈ l.foldl (fun acc x => insertSorted x acc) acc ↔ a ∈ acc ∨ a ∈ l := by
  induction l with
  | nil => intro acc; simp
  | cons x r ih =>
    intro acc
    simp only [List.foldl_cons, ih, mem_insertSorted, List.mem_cons]
    constructor
    · rintro ((h | h) | h)
      · exact Or.inr (Or.inl h)
      · exact Or.inl h
      · exact Or.inr (Or.inr h)
    · rintro (h | h | h)
      · exact Or.inl (Or.inr h)
      · exact Or.inl (Or.inl h)
      · exact Or.inr h

theorem mem_sortedSet (a : α) (l : List α) : a ∈ sortedSet l ↔ a ∈ l := by
  unfold sortedSet
  rw [mem_foldl_insertSorted]
  simp

end Sorted

theorem firstOk_mem {α : Type} (l : List (Except Err α)) (r : α) (h : firstOk l = some r) : .ok r ∈ l := by
  induction l with
  | nil => simp [firstOk] at h
  | cons e t ih =>
    cases e with
    | ok v =>
      simp only [firstOk, Option.some.injEq] at h
      subst h
      exact List.mem_cons_self ..
    | error e => exact List.mem_cons_of_mem _ (ih (by simpa [firstOk] using h))

theorem firstOkValueError_mem {α : Type} (i : List String) (l : List (Except Err α)) (r : α)
    (h : firstOkValueError i l = .ok r) : .ok r ∈ l := by
  induction l with
  | nil => simp [firstOkValueError] at h
  | cons e t ih =>
    cases e with
    | ok v =>
      simp only [firstOkValueError, Except.ok.injEq] at h
      subst h
      exact List.mem_cons_self ..
    | error e =>
      cases e with
      | valueError tag => exact List.mem_cons_of_mem _ (ih (by simpa [firstOkValueError] using h))
      | _ => simp [firstOkValueError] at h

/-- whatever the duplicate search returns is the duplicate-free call's answer on a selection of the species
    given: a sub-list of each side, no species on both sides -/
theorem dupSearch_selection {α : Type} (isNone : Bool) (core : List String → List String → Except Err α) :
    ∀ (fuel : ℕ) (allow : Bool) (reac prod : List String) (r : α),
      dupSearch isNone core fuel allow reac prod = .ok r →
      ∃ r' p', core r' p' = .ok r ∧ (∀ s ∈ r', s ∈ reac) ∧ (∀ s ∈ p', s ∈ prod) ∧ (∀ s ∈ r', s ∉ p') := by
  intro fuel
  induction fuel with
  | zero => intro allow reac prod r h; simp [dupSearch] at h
  | succ fuel ih =>
    intro allow reac prod r h
    unfold dupSearch at h
    simp only at h
    split at h
    · rename_i hemp
      refine ⟨reac, prod, h, fun s hs => hs, fun s hs => hs, ?_⟩
      intro s hs hp
      have : s ∈ sortedSet (reac.filter (prod.contains ·)) := by
        rw [mem_sortedSet, List.mem_filter]
        exact ⟨hs, by simpa using hp⟩
      rw [List.isEmpty_iff] at hemp
      rw [hemp] at this
      cases this
    · split at h
      · cases h
      · split at h
        · cases h
        · split at h
          · cases h
          · split at h
            · rename_i r0 hfirst
              injection h with h
              subst h
              have hmem := firstOk_mem _ _ hfirst
              obtain ⟨d, _, hd⟩ := List.mem_map.1 hmem
              obtain ⟨r', p', hc, h1, h2, h3⟩ := ih _ _ _ _ hd
              exact ⟨r', p', hc, fun s hs => (List.mem_filter.1 (h1 s hs)).1,
                fun s hs => (List.mem_filter.1 (h2 s hs)).1, h3⟩
            · have hmem := firstOkValueError_mem _ _ _ h
              obtain ⟨flags, _, hd⟩ := List.mem_map.1 hmem
              obtain ⟨r', p', hc, h1, h2, h3⟩ := ih _ _ _ _ hd
              refine ⟨r', p', hc, ?_, ?_, h3⟩
              · intro s hs
                have := h1 s hs
                simp only [bruteSides] at this
                rw [mem_sortedSet] at this
                exact (List.mem_filter.1 this).1
              · intro s hs
                have := h2 s hs
                simp only [bruteSides] at this
                rw [mem_sortedSet] at this
                exact (List.mem_filter.1 this).1

/-! ## Part 7: the returned dicts -/

theorem mkDict_keys (mode : Mode) (keys : List String) (sol : List Entry) : ∀ (side : List String)
    (d : List (String × Entry)), mkDict mode keys sol side = some d → side.Nodup → d.map (·.1) = side := by
  intro side
  induction side with
  | nil => intro d h _; simp [mkDict] at h; subst h; rfl
  | cons k r ih =>
    intro d h hnd
    unfold mkDict at h
    split at h
    · rename_i e d' _ hd'
      injection h with h
      subst h
      have hr := ih d' hd' (List.nodup_cons.1 hnd).2
      have hk : k ∉ r := (List.nodup_cons.1 hnd).1
      have hfil : d'.filter (fun q => q.1 != k) = d' := by
        rw [List.filter_eq_self]
        intro q hq
        have : q.1 ∈ r := by rw [← hr]; exact List.mem_map.2 ⟨q, hq, rfl⟩
        simp only [bne_iff_ne, ne_eq]
        intro heq
        exact hk (heq ▸ this)
      simp [hfil, hr]
    · cases h

/-! ## Part 8: resolution of `substances` -/

theorem zip_lookup (table : List (String × Comp)) : ∀ (keys : List String) (cs : List Comp),
    lookupAll table keys = some cs → ∀ k ∈ keys, (keys.zip cs).lookup k = table.lookup k := by
  intro keys
  induction keys with
  | nil => intro cs _ k hk; cases hk
  | cons k0 r ih =>
    intro cs h k hk
    unfold lookupAll at h
    split at h
    · rename_i c cs' h1 h2
      injection h with h
      subst h
      simp only [List.zip_cons_cons, List.lookup_cons]
      by_cases hkk : k = k0
      · subst hkk; simp [h1]
      · have hbeq : (k == k0) = false := by simpa using hkk
        rw [hbeq]
        rcases List.mem_cons.1 hk with h3 | h3
        · exact absurd h3 hkk
        · exact ih cs' h2 k h3
    · cases h

/-! ## Part 9: the normalisation as a scalar division; which errors the gate can produce -/

theorem qgcd_nonneg (a b : ℚ) : 0 ≤ qgcd a b := by unfold qgcd; positivity

theorem qgcd_pos_left (a b : ℚ) (ha : a ≠ 0) : 0 < qgcd a b := by
  obtain ⟨k, hk⟩ := qgcd_zdvd_left a b
  rcases (qgcd_nonneg a b).lt_or_eq with h | h
  · exact h
  · exfalso; apply ha; rw [hk, ← h]; simp

theorem gcdListLoop_pos : ∀ (xs : List ℚ) (r : ℚ), 0 < r → 0 < gcdListLoop r xs := by
  intro xs
  induction xs with
  | nil => intro r hr; simpa [gcdListLoop] using hr
  | cons x xs ih =>
    intro r hr
    unfold gcdListLoop
    simp only
    have hq := qgcd_pos_left r x (ne_of_gt hr)
    split
    · exact hq
    · exact ih _ hq

theorem foldl_qgcd_pos : ∀ (xs : List ℚ) (x : ℚ), 0 < x → 0 < xs.foldl qgcd x := by
  intro xs
  induction xs with
  | nil => intro x hx; simpa using hx
  | cons y ys ih => intro x hx; exact ih _ (qgcd_pos_left x y (ne_of_gt hx))

theorem stage1_eq (v : Vec) (hf : gcdList v ≠ 0) : stage1 v = (v.map (· / gcdList v)).map Entry.num := by
  unfold stage1
  simp only
  rw [List.map_map]
  apply List.map_congr_left
  intro e _
  simp [divE, hf]

theorem stage1_zero (v : Vec) (hf : gcdList v = 0) : stage1 v = v.map (fun _ => Entry.nan) := by
  unfold stage1
  simp only
  apply List.map_congr_left
  intro e _
  simp [divE, hf]

theorem stage2_map_num (a : ℚ) (r : Vec) :
    stage2 ((a :: r).map Entry.num) = .ok ((a :: r).map (divE · (r.foldl qgcd a))) := by
  have h := nums?_map_num (a :: r)
  simp only [List.map_cons] at h
  simp only [List.map_cons, stage2, h, reduceGcd]

/-- the two normalisation lines on a numeric vector: either a division of the whole vector by one non-zero
    number, or all-nan (only when the vector is all zero) -/
theorem stage_norm_cases (v : Vec) (sol : List Entry) (h : stage2 (stage1 v) = .ok sol) :
    sol.length = v.length ∧ v ≠ [] ∧
      ((∃ d : ℚ, d ≠ 0 ∧ sol = (v.map (· / d)).map Entry.num) ∨ (∀ e ∈ sol, e = Entry.nan)) := by
  cases v with
  | nil => simp [stage1, stage2] at h
  | cons v0 vs =>
    by_cases hf : gcdList (v0 :: vs) = 0
    · rw [stage1_zero _ hf] at h
      simp only [List.map_cons, stage2, nums?] at h
      injection h with h
      subst h
      refine ⟨by simp, by simp, Or.inr ?_⟩
      intro e he
      simp only [List.mem_cons, List.mem_map] at he
      rcases he with he | ⟨_, _, he⟩
      · exact he
      · exact he.symm
    · rw [stage1_eq _ hf, List.map_cons, stage2_map_num] at h
      injection h with h
      subst h
      refine ⟨by simp, by simp, ?_⟩
      generalize hg : (vs.map (· / gcdList (v0 :: vs))).foldl qgcd (v0 / gcdList (v0 :: vs)) = g
      by_cases hg0 : g = 0
      · right
        intro e he
        rw [hg0] at he
        simp only [List.mem_map, List.mem_cons] at he
        obtain ⟨a, _, ha⟩ := he
        simp [divE] at ha
        exact ha.symm
      · left
        refine ⟨gcdList (v0 :: vs) * g, mul_ne_zero hf hg0, ?_⟩
        rw [← List.map_cons (f := (· / gcdList (v0 :: vs))), List.map_map, List.map_map]
        apply List.map_congr_left
        intro e _
        simp [divE, hg0, div_div]

theorem positivity_of_pos : ∀ (w : Vec), (∀ q ∈ w, 0 < q) → positivity (w.map Entry.num) = .ok () := by
  intro w
  induction w with
  | nil => intro _; rfl
  | cons a r ih =>
    intro h
    simp only [List.map_cons, positivity, h a (List.mem_cons_self ..), if_true]
    exact ih (fun q hq => h q (List.mem_cons_of_mem _ hq))

theorem dot_map_mul_right (c : ℚ) : ∀ (r x : List ℚ), dot r (x.map (c * ·)) = c * dot r x := by
  intro r
  induction r with
  | nil => intro x; cases x <;> simp [dot]
  | cons a as ih =>
    intro x
    cases x with
    | nil => simp [dot]
    | cons b bs => simp only [List.map_cons, dot, ih bs]; ring

theorem any_num_zero_false (w : Vec) (h : ∀ q ∈ w, 0 < q) :
    ((w.map Entry.num).any (· == Entry.num 0)) = false := by
  rw [List.any_eq_false]
  intro e he
  obtain ⟨q, hq, rfl⟩ := List.mem_map.1 he
  have := h q hq
  simp only [beq_iff_eq, Entry.num.injEq]
  exact ne_of_gt this

theorem any_eq_false_of_num (w : Vec) (e0 : Entry) (he0 : e0.isNum = false) :
    ((w.map Entry.num).any (· == e0)) = false := by
  rw [List.any_eq_false]
  intro e he
  obtain ⟨q, _, rfl⟩ := List.mem_map.1 he
  simp only [beq_iff_eq]
  intro h
  rw [← h] at he0
  cases he0

/-- a positive, balanced, well-shaped numeric vector passes every check, in all three modes -/
theorem gateChecks_pass (mode : Mode) (A : Mat) (w : Vec) (hpos : ∀ q ∈ w, 0 < q) (hwf : wellFormed A = true)
    (hcols : cols A = w.length) (hbal : ∀ r ∈ A, dot r w = 0) :
    gateChecks mode A (w.map Entry.num) = .ok (w.map Entry.num) := by
  have hres : (A.all fun r => dotE r (w.map Entry.num) == some 0) = true := by
    rw [List.all_eq_true]
    intro r hr
    rw [dotE_num, hbal r hr]
    simp
  unfold gateChecks
  rw [any_num_zero_false w hpos]
  cases mode <;>
    simp [any_eq_false_of_num w Entry.nan rfl, any_eq_false_of_num w Entry.sym rfl, positivity_of_pos w hpos,
      hwf, hcols, hres]

theorem dotE_some_isNum : ∀ (r : List ℚ) (sol : List Entry) (z : ℚ), dotE r sol = some z → r.length = sol.length →
    ∀ e ∈ sol, e.isNum = true := by
  intro r
  induction r with
  | nil => intro sol z _ hl e he; cases sol with
    | nil => cases he
    | cons _ _ => simp at hl
  | cons a as ih =>
    intro sol z h hl e he
    cases sol with
    | nil => cases he
    | cons b bs =>
      simp only [List.length_cons, Nat.add_right_cancel_iff] at hl
      cases b with
      | num q =>
        simp only [dotE, Option.map_eq_some_iff] at h
        obtain ⟨z', hz', _⟩ := h
        rcases List.mem_cons.1 he with rfl | he
        · rfl
        · exact ih bs z' hz' hl e he
      | sym => simp [dotE] at h
      | nan => simp [dotE] at h

theorem positivity_err_of_isNum : ∀ (sol : List Entry) (e : Err), (∀ x ∈ sol, x.isNum = true) →
    positivity sol = .error e → e = .valueError "nonpositive" := by
  intro sol
  induction sol with
  | nil => intro e _ h; simp [positivity] at h
  | cons b bs ih =>
    intro e hn h
    cases b with
    | num q =>
      unfold positivity at h
      split at h
      · exact ih e (fun x hx => hn x (List.mem_cons_of_mem _ hx)) h
      · injection h with h; exact h.symm
    | sym => have := hn _ (List.mem_cons_self ..); cases this
    | nan => have := hn _ (List.mem_cons_self ..); cases this

/-- in the numeric modes, with a well-formed non-empty matrix and a solution vector of the right length, every
    refusal of the checks is a `ValueError` -/
theorem gateChecks_error_is_valueError (mode : Mode) (hm : mode ≠ .symbolic) (A : Mat) (sol : List Entry) (e : Err)
    (hwf : wellFormed A = true) (hA : A ≠ []) (hcols : cols A = sol.length)
    (h : gateChecks mode A sol = .error e) : ∃ tag, e = .valueError tag := by
  have key : ∀ (hh : (if (sol.any (· == Entry.sym)) = true then Except.error (Err.valueError "underdetermined") else
      if (!(wellFormed A) || cols A != sol.length) = true then Except.error Err.shapeError else
      if (!(A.all fun r => dotE r sol == some 0)) = true then Except.error (Err.valueError "failed") else
      match positivity sol with
      | .error e => Except.error e
      | .ok _ => Except.ok sol) = Except.error e), ∃ tag, e = .valueError tag := by
    intro hh
    split at hh
    · injection hh with hh; exact ⟨_, hh.symm⟩
    · split at hh
      · rename_i hshape
        simp [hwf, hcols] at hshape
      · split at hh
        · injection hh with hh; exact ⟨_, hh.symm⟩
        · rename_i hres
          simp only [Bool.not_eq_true', Bool.not_eq_false] at hres
          split at hh
          · rename_i e' hp
            injection hh with hh
            subst hh
            obtain ⟨r0, hr0⟩ := List.exists_mem_of_ne_nil A hA
            have h1 := (List.all_eq_true.1 hres) r0 hr0
            have hlen : r0.length = sol.length := by
              have := (List.all_eq_true.1 hwf) r0 hr0
              rw [← hcols]; simpa using this
            have hnum := dotE_some_isNum r0 sol 0 (by simpa using h1) hlen
            exact ⟨_, positivity_err_of_isNum sol _ hnum hp⟩
          · cases hh
  unfold gateChecks at h
  split at h
  · injection h with h; exact ⟨_, h.symm⟩
  · cases mode with
    | symbolic => exact absurd rfl hm
    | strict => exact key h
    | smallest => exact key h

/-! ## Part 10: the values of the returned dicts -/

theorem findIdx_lookup : ∀ (keys : List String), keys.Nodup → ∀ (sol : List Entry), sol.length = keys.length →
    keys.map (fun k => sol[keys.findIdx (· == k)]?) = sol.map some := by
  intro keys
  induction keys with
  | nil => intro _ sol hl; have : sol = [] := List.length_eq_zero_iff.1 hl; subst this; rfl
  | cons k0 r ih =>
    intro hnd sol hl
    cases sol with
    | nil => simp at hl
    | cons s0 ss =>
      simp only [List.length_cons, Nat.add_right_cancel_iff] at hl
      obtain ⟨hk0, hr⟩ := List.nodup_cons.1 hnd
      simp only [List.map_cons, List.cons.injEq]
      constructor
      · simp [List.findIdx_cons]
      · rw [← ih hr ss hl]
        apply List.map_congr_left
        intro k hk
        have hne : (k0 == k) = false := by
          simp only [beq_eq_false_iff_ne, ne_eq]
          intro h; exact hk0 (h ▸ hk)
        simp [List.findIdx_cons, hne]

theorem toInt_intCast (k : ℤ) : toInt (k : ℚ) = k := by
  simp [toInt]

theorem coeffOf_int (mode : Mode) (keys : List String) (ks : List ℤ) (k : String) :
    coeffOf mode keys (ks.map fun (i : ℤ) => Entry.num (i : ℚ)) k
      = (ks.map fun (i : ℤ) => Entry.num (i : ℚ))[keys.findIdx (· == k)]? := by
  unfold coeffOf
  simp only
  generalize hi : keys.findIdx (· == k) = i
  cases hget : (ks.map fun (i : ℤ) => Entry.num (i : ℚ))[i]? with
  | none => rfl
  | some e =>
    have hmem : e ∈ ks.map fun (i : ℤ) => Entry.num (i : ℚ) := List.mem_of_getElem? hget
    obtain ⟨z, _, rfl⟩ := List.mem_map.1 hmem
    cases mode <;> simp [toInt_intCast]

theorem mkDict_eq (mode : Mode) (keys : List String) (sol : List Entry) : ∀ (side : List String)
    (d : List (String × Entry)), mkDict mode keys sol side = some d → side.Nodup →
    d.map (fun q => some q.2) = side.map (coeffOf mode keys sol) := by
  intro side
  induction side with
  | nil => intro d h _; simp [mkDict] at h; subst h; rfl
  | cons k r ih =>
    intro d h hnd
    unfold mkDict at h
    split at h
    · rename_i e d' he hd'
      injection h with h
      subst h
      have hr := ih d' hd' (List.nodup_cons.1 hnd).2
      have hkeys := mkDict_keys mode keys sol r d' hd' (List.nodup_cons.1 hnd).2
      have hk : k ∉ r := (List.nodup_cons.1 hnd).1
      have hfil : d'.filter (fun q => q.1 != k) = d' := by
        rw [List.filter_eq_self]
        intro q hq
        have : q.1 ∈ r := by rw [← hkeys]; exact List.mem_map.2 ⟨q, hq, rfl⟩
        simp only [bne_iff_ne, ne_eq]
        intro heq
        exact hk (heq ▸ this)
      simp [hfil, hr, he]
    · cases h

/-- with distinct names, the two dicts list the solution vector in order: reactant part then product part -/
theorem dict_values (mode : Mode) (er ep : List String) (ks : List ℤ) (r pr : List (String × Entry))
    (hnd : (er ++ ep).Nodup) (hlen : ks.length = (er ++ ep).length)
    (h1 : mkDict mode (er ++ ep) (ks.map fun (i : ℤ) => Entry.num (i : ℚ)) er = some r)
    (h2 : mkDict mode (er ++ ep) (ks.map fun (i : ℤ) => Entry.num (i : ℚ)) ep = some pr) :
    r.map (·.2) ++ pr.map (·.2) = ks.map fun (i : ℤ) => Entry.num (i : ℚ) := by
  have hndr : er.Nodup := (List.nodup_append.1 hnd).1
  have hndp : ep.Nodup := (List.nodup_append.1 hnd).2.1
  have e1 := mkDict_eq mode _ _ er r h1 hndr
  have e2 := mkDict_eq mode _ _ ep pr h2 hndp
  have e3 := findIdx_lookup (er ++ ep) hnd (ks.map fun (i : ℤ) => Entry.num (i : ℚ)) (by simpa using hlen)
  have : (r.map (·.2) ++ pr.map (·.2)).map some = (ks.map fun (i : ℤ) => Entry.num (i : ℚ)).map some := by
    rw [← e3, List.map_append, List.map_append, List.map_map, List.map_map]
    have f1 : (some ∘ fun (q : String × Entry) => q.2) = fun q => some q.2 := rfl
    rw [f1, e1, e2]
    congr 1 <;> (apply List.map_congr_left; intro k _; exact coeffOf_int mode _ ks k)
  exact (List.map_injective_iff.2 (Option.some_injective _)) this

theorem setup_row_length (p : Problem) (A : Mat) (h : setup p = .ok A) :
    ∀ r ∈ A, r.length = (p.reactants ++ p.products).length := by
  unfold setup at h
  split at h
  · cases h
  · split at h
    · rename_i rc pc hrc hpc
      simp only at h
      split at h
      · cases h
      · injection h with h
        subst h
        intro r hr
        unfold matrix at hr
        obtain ⟨ck, _, rfl⟩ := List.mem_map.1 hr
        have h1 := lookupAll_length _ _ _ hrc
        have h2 := lookupAll_length _ _ _ hpc
        simp [h1, h2]
    · cases h

theorem setup_disjoint (p : Problem) (A : Mat) (h : setup p = .ok A) : ∀ s ∈ p.products, s ∉ p.reactants := by
  unfold setup at h
  split at h
  · cases h
  · rename_i hboth
    intro s hs hr
    apply hboth
    rw [List.any_eq_true]
    exact ⟨s, hr, by simpa using hs⟩

/-! ## Part 11: normalisation of a positive vector; mode True -/

theorem stage_norm_ok (v : Vec) (hv : v ≠ []) : ∃ sol, stage2 (stage1 v) = .ok sol := by
  cases v with
  | nil => exact absurd rfl hv
  | cons v0 vs =>
    by_cases hf : gcdList (v0 :: vs) = 0
    · rw [stage1_zero _ hf]
      simp only [List.map_cons, stage2, nums?]
      exact ⟨_, rfl⟩
    · rw [stage1_eq _ hf, List.map_cons, stage2_map_num]
      exact ⟨_, rfl⟩

/-- a positive vector is divided by one positive number -/
theorem stage_norm_pos (v : Vec) (hv : v ≠ []) (hpos : ∀ q ∈ v, 0 < q) :
    ∃ d : ℚ, 0 < d ∧ stage2 (stage1 v) = .ok ((v.map (· / d)).map Entry.num) := by
  cases v with
  | nil => exact absurd rfl hv
  | cons v0 vs =>
    have hv0 : 0 < v0 := hpos v0 (List.mem_cons_self ..)
    have hfpos : 0 < gcdList (v0 :: vs) := gcdListLoop_pos vs v0 hv0
    have hf : gcdList (v0 :: vs) ≠ 0 := ne_of_gt hfpos
    rw [stage1_eq _ hf, List.map_cons, stage2_map_num]
    have hgpos : 0 < (vs.map (· / gcdList (v0 :: vs))).foldl qgcd (v0 / gcdList (v0 :: vs)) :=
      foldl_qgcd_pos _ _ (div_pos hv0 hfpos)
    generalize hg : (vs.map (· / gcdList (v0 :: vs))).foldl qgcd (v0 / gcdList (v0 :: vs)) = g at hgpos
    have hg0 : g ≠ 0 := ne_of_gt hgpos
    refine ⟨gcdList (v0 :: vs) * g, mul_pos hfpos hgpos, ?_⟩
    congr 1
    rw [← List.map_cons (f := (· / gcdList (v0 :: vs))), List.map_map, List.map_map]
    apply List.map_congr_left
    intro e _
    simp [divE, hg0, div_div]

theorem gateChecks_symbolic_ok (A : Mat) (sol x : List Entry) (h : gateChecks .symbolic A sol = .ok x) :
    x = sol ∧ (sol.any (· == Entry.nan)) = false ∧ positivity sol = .ok () := by
  unfold gateChecks at h
  split at h
  · cases h
  · simp only at h
    split at h
    · cases h
    · rename_i hnan
      split at h
      · cases h
      · rename_i hpos
        injection h with h
        exact ⟨h.symm, Bool.eq_false_iff.2 hnan, by rw [hpos]⟩

theorem map_num_injective (w w' : Vec) (h : w.map Entry.num = w'.map Entry.num) : w = w' := by
  have := congrArg nums? h
  rw [nums?_map_num, nums?_map_num] at this
  exact Option.some.inj this

/-- the resolution step reads this call's table and nothing else (a re-reading of `resolve`; kept as a lemma) -/
theorem resolve_lookup (table : List (String × Comp)) (arg : SubstArg) (reac prod : List String)
    (subs : List (String × Comp)) (h : resolve table arg reac prod = some subs) :
    match arg with
    | .mapping => subs = table
    | .factory => ∀ k ∈ reac ++ prod, subs.lookup k = table.lookup k
    | .keys ks => ∀ k ∈ ks, subs.lookup k = table.lookup k := by
  cases arg with
  | mapping => simp only [resolve, Option.some.injEq] at h; exact h.symm
  | factory =>
    simp only [resolve, Option.map_eq_some_iff] at h
    obtain ⟨cs, hcs, rfl⟩ := h
    exact zip_lookup table _ cs hcs
  | keys ks =>
    simp only [resolve, Option.map_eq_some_iff] at h
    obtain ⟨cs, hcs, rfl⟩ := h
    exact zip_lookup table _ cs hcs

/-! ## Part 12: `composition_keys` holds every key of every substance; absent keys contribute nothing -/

theorem mem_compositionKeys (subs : List (String × Comp)) (k : ℤ) :
    k ∈ compositionKeys subs ↔ ∃ s ∈ subs, k ∈ s.2.map (·.1) := by
  unfold compositionKeys
  rw [mem_sortedSet, List.mem_flatMap]

theorem lookup_some_mem {β : Type} : ∀ (l : List (String × β)) (k : String) (b : β), l.lookup k = some b → (k, b) ∈ l := by
  intro l
  induction l with
  | nil => intro k b h; simp [List.lookup] at h
  | cons a r ih =>
    intro k b h
    obtain ⟨a1, a2⟩ := a
    rw [List.lookup_cons] at h
    by_cases hk : (k == a1) = true
    · rw [hk] at h
      injection h with h
      have : k = a1 := by simpa using hk
      subst this; subst h
      exact List.mem_cons_self ..
    · have hk' : (k == a1) = false := by simpa using hk
      rw [hk'] at h
      exact List.mem_cons_of_mem _ (ih k b h)

theorem lookupAll_mem (subs : List (String × Comp)) : ∀ (keys : List String) (cs : List Comp),
    lookupAll subs keys = some cs → ∀ c ∈ cs, ∃ nm, (nm, c) ∈ subs := by
  intro keys
  induction keys with
  | nil => intro cs h c hc; simp [lookupAll] at h; subst h; cases hc
  | cons k r ih =>
    intro cs h c hc
    unfold lookupAll at h
    split at h
    · rename_i c0 cs' h1 h2
      injection h with h
      subst h
      rcases List.mem_cons.1 hc with rfl | hc
      · exact ⟨k, lookup_some_mem subs k _ h1⟩
      · exact ih cs' h2 c hc
    · cases h

theorem get_eq_zero_of_not_key (c : Comp) (ck : ℤ) (h : ck ∉ c.map (·.1)) : c.get ck = 0 := by
  unfold Comp.get
  have : c.lookup ck = none := by
    rw [List.lookup_eq_none_iff]
    intro p hp
    simp only [bne_iff_ne, ne_eq]
    intro heq
    exact h (List.mem_map.2 ⟨p, hp, heq.symm⟩)
  rw [this]

/-- a key outside `composition_keys` has amount 0 in every looked-up substance: its totals vanish -/
theorem dot_absent_key (subs : List (String × Comp)) (keys : List String) (cs : List Comp) (x : Vec) (ck : ℤ)
    (h : lookupAll subs keys = some cs) (hck : ck ∉ compositionKeys subs) : dot (cs.map (·.get ck)) x = 0 := by
  apply dot_zero_left
  intro q hq
  obtain ⟨c, hc, rfl⟩ := List.mem_map.1 hq
  obtain ⟨nm, hnm⟩ := lookupAll_mem subs keys cs h c hc
  apply get_eq_zero_of_not_key
  intro hk
  exact hck ((mem_compositionKeys subs ck).2 ⟨(nm, c), hnm, hk⟩)

/-! ## Part 13: sums, gcd of a positive vector, the gate's normalised vector -/

theorem sum_map_mul_left (c : ℤ) (l : List ℤ) : (l.map (c * ·)).sum = c * l.sum := by
  induction l with
  | nil => simp
  | cons a r ih => simp only [List.map_cons, List.sum_cons, ih]; ring

theorem sum_pos_of_pos : ∀ (l : List ℤ), l ≠ [] → (∀ k ∈ l, 0 < k) → 0 < l.sum := by
  intro l
  induction l with
  | nil => intro h; exact absurd rfl h
  | cons a r ih =>
    intro _ hpos
    have ha := hpos a (List.mem_cons_self ..)
    cases r with
    | nil => simpa using ha
    | cons b t =>
      have := ih (by simp) (fun k hk => hpos k (List.mem_cons_of_mem _ hk))
      simp only [List.sum_cons] at this ⊢
      omega

theorem listGcd_pos (x : List ℤ) (hne : x ≠ []) (hpos : ∀ k ∈ x, 0 < k) : 0 < listGcd x := by
  cases x with
  | nil => exact absurd rfl hne
  | cons a r =>
    have ha := hpos a (List.mem_cons_self ..)
    rcases Nat.eq_zero_or_pos (listGcd (a :: r)) with h0 | h
    · exfalso
      have hd := listGcd_dvd (a :: r) a (List.mem_cons_self ..)
      rw [h0] at hd
      simp at hd
      omega
    · exact h

/-- whatever mode: the vector a numeric candidate is turned into is the normalisation's output -/
theorem gate_numeric_ok_sol (mode : Mode) (A : Mat) (v : Vec) (x : List Entry)
    (h : gate mode A (.numeric v) = .ok x) : stage2 (stage1 v) = .ok x := by
  unfold gate at h
  simp only at h
  split at h
  · cases h
  · rename_i sol hst
    have hx : x = sol := by
      by_cases hm : mode = .symbolic
      · subst hm; exact (gateChecks_symbolic_ok A sol x h).1
      · exact (gateChecks_numeric mode hm A sol x h).1
    rw [hx]; exact hst

/-! ## Part 14: the dict construction succeeds; set-up facts -/

theorem mkDict_some (mode : Mode) (keys : List String) (ks : List ℤ) (hlen : ks.length = keys.length) :
    ∀ side : List String, (∀ k ∈ side, k ∈ keys) →
      ∃ d, mkDict mode keys (ks.map fun (i : ℤ) => Entry.num (i : ℚ)) side = some d := by
  intro side
  induction side with
  | nil => intro _; exact ⟨[], rfl⟩
  | cons k r ih =>
    intro hsub
    obtain ⟨d, hd⟩ := ih (fun a ha => hsub a (List.mem_cons_of_mem _ ha))
    have hk : k ∈ keys := hsub k (List.mem_cons_self ..)
    have hidx : keys.findIdx (· == k) < (ks.map fun (i : ℤ) => Entry.num (i : ℚ)).length := by
      rw [List.length_map, hlen]
      exact List.findIdx_lt_length_of_exists ⟨k, hk, by simp⟩
    have hc : coeffOf mode keys (ks.map fun (i : ℤ) => Entry.num (i : ℚ)) k
        = some ((ks.map fun (i : ℤ) => Entry.num (i : ℚ))[keys.findIdx (· == k)]) := by
      rw [coeffOf_int, List.getElem?_eq_getElem hidx]
    exact ⟨_, by rw [mkDict, hc, hd]⟩

theorem setupVia_setup (table : List (String × Comp)) (arg : SubstArg) (rset pset : Bool) (reac prod : List String)
    (p : Problem) (A : Mat) (hs : setupVia table arg rset pset reac prod = .ok (p, A)) : setup p = .ok A := by
  unfold setupVia at hs
  split at hs
  · cases hs
  · split at hs
    · cases hs
    · simp only at hs
      split at hs
      · cases hs
      · rename_i A' hA'
        injection hs with hs
        injection hs with h1 h2
        subst h1; subst h2
        exact hA'

theorem setup_wellFormed (p : Problem) (A : Mat) (h : setup p = .ok A) : wellFormed A = true := by
  have hrows := setup_row_length p A h
  unfold wellFormed
  rw [List.all_eq_true]
  intro r hr
  have h1 := hrows r hr
  cases hA : A with
  | nil => rw [hA] at hr; cases hr
  | cons r0 rest =>
    have h0 := hrows r0 (by rw [hA]; exact List.mem_cons_self ..)
    simp [cols, h0, h1]

theorem setup_cols (p : Problem) (A : Mat) (h : setup p = .ok A) (hA : A ≠ []) :
    cols A = (p.reactants ++ p.products).length := by
  cases hA' : A with
  | nil => exact absurd hA' hA
  | cons r0 rest =>
    simp only [cols]
    exact setup_row_length p A h r0 (by rw [hA']; exact List.mem_cons_self ..)

/-! ## Part 15: `sorted(set(...))` is strictly sorted; the duplicate search keeps names distinct -/

section SortedSpec
variable {α : Type} [LT α] [DecidableRel (α := α) (· < ·)] [DecidableEq α]

theorem insertSorted_pairwise (htri : ∀ a b : α, a < b ∨ a = b ∨ b < a) (htrans : ∀ a b c : α, a < b → b < c → a < c)
    (x : α) : ∀ l : List α, l.Pairwise (· < ·) → (insertSorted x l).Pairwise (· < ·) := by
  intro l
  induction l with
  | nil => intro _; simp [insertSorted]
  | cons y r ih =>
    intro hp
    obtain ⟨hy, hr⟩ := List.pairwise_cons.1 hp
    unfold insertSorted
    by_cases h1 : x = y
    · simp only [h1, if_true]; exact hp
    · simp only [h1, if_false]
      by_cases h2 : x < y
      · simp only [h2, if_true]
        refine List.pairwise_cons.2 ⟨?_, hp⟩
        intro a ha
        rcases List.mem_cons.1 ha with rfl | ha
        · exact h2
        · exact htrans _ _ _ h2 (hy a ha)
      · simp only [h2, if_false]
        have hyx : y < x := by
          rcases htri x y with h | h | h
          · exact absurd h h2
          · exact absurd h h1
          · exact h
        refine List.pairwise_cons.2 ⟨?_, ih hr⟩
        intro a ha
        rcases (mem_insertSorted x a r).1 ha with rfl | ha
        · exact hyx
        · exact hy a ha

theorem sortedSet_pairwise (htri : ∀ a b : α, a < b ∨ a = b ∨ b < a) (htrans : ∀ a b c : α, a < b → b < c → a < c)
    (l : List α) : (sortedSet l).Pairwise (· < ·) := by
  unfold sortedSet
  suffices h : ∀ acc : List α, acc.Pairwise (· < ·) → (l.foldl (fun acc x => insertSorted x acc) acc).Pairwise (· < ·) from
    h [] List.Pairwise.nil
  induction l with
  | nil => intro acc h; simpa using h
  | cons x r ih => intro acc h; exact ih _ (insertSorted_pairwise htri htrans x acc h)

theorem sortedSet_nodup (htri : ∀ a b : α, a < b ∨ a = b ∨ b < a) (htrans : ∀ a b c : α, a < b → b < c → a < c)
    (hirr : ∀ a : α, ¬ a < a) (l : List α) : (sortedSet l).Nodup := by
  have := sortedSet_pairwise htri htrans l
  exact this.imp (fun {a b} (hab : a < b) (heq : a = b) => by subst heq; exact hirr _ hab)

end SortedSpec

theorem sortedSet_nodup_int (l : List ℤ) : (sortedSet l).Nodup :=
  sortedSet_nodup (fun a b => lt_trichotomy a b) (fun _ _ _ => lt_trans) (fun a => lt_irrefl a) l

theorem sortedSet_nodup_string (l : List String) : (sortedSet l).Nodup :=
  sortedSet_nodup (fun a b => lt_trichotomy a b) (fun _ _ _ => lt_trans) (fun a => lt_irrefl a) l


/-- like `dupSearch_selection`, also keeping distinctness of the names on each side -/
theorem dupSearch_selection_nodup {α : Type} (isNone : Bool) (core : List String → List String → Except Err α) :
    ∀ (fuel : ℕ) (allow : Bool) (reac prod : List String) (r : α), reac.Nodup → prod.Nodup →
      dupSearch isNone core fuel allow reac prod = .ok r →
      ∃ r' p', core r' p' = .ok r ∧ (∀ s ∈ r', s ∈ reac) ∧ (∀ s ∈ p', s ∈ prod) ∧ (∀ s ∈ r', s ∉ p') ∧
        r'.Nodup ∧ p'.Nodup := by
  intro fuel
  induction fuel with
  | zero => intro allow reac prod r _ _ h; simp [dupSearch] at h
  | succ fuel ih =>
    intro allow reac prod r hnr hnp h
    unfold dupSearch at h
    simp only at h
    split at h
    · rename_i hemp
      refine ⟨reac, prod, h, fun s hs => hs, fun s hs => hs, ?_, hnr, hnp⟩
      intro s hs hp
      have : s ∈ sortedSet (reac.filter (prod.contains ·)) := by
        rw [mem_sortedSet, List.mem_filter]
        exact ⟨hs, by simpa using hp⟩
      rw [List.isEmpty_iff] at hemp
      rw [hemp] at this
      cases this
    · split at h
      · cases h
      · split at h
        · cases h
        · split at h
          · cases h
          · split at h
            · rename_i r0 hfirst
              injection h with h
              subst h
              have hmem := firstOk_mem _ _ hfirst
              obtain ⟨d, _, hd⟩ := List.mem_map.1 hmem
              obtain ⟨r', p', hc, h1, h2, h3, h4, h5⟩ := ih _ _ _ _ (hnr.filter _) (hnp.filter _) hd
              exact ⟨r', p', hc, fun s hs => (List.mem_filter.1 (h1 s hs)).1,
                fun s hs => (List.mem_filter.1 (h2 s hs)).1, h3, h4, h5⟩
            · have hmem := firstOkValueError_mem _ _ _ h
              obtain ⟨flags, _, hd⟩ := List.mem_map.1 hmem
              obtain ⟨r', p', hc, h1, h2, h3, h4, h5⟩ := ih _ _ _ _
                (by simp only [bruteSides]; exact sortedSet_nodup_string _)
                (by simp only [bruteSides]; exact sortedSet_nodup_string _) hd
              refine ⟨r', p', hc, ?_, ?_, h3, h4, h5⟩
              · intro s hs
                have := h1 s hs
                simp only [bruteSides] at this
                rw [mem_sortedSet] at this
                exact (List.mem_filter.1 this).1
              · intro s hs
                have := h2 s hs
                simp only [bruteSides] at this
                rw [mem_sortedSet] at this
                exact (List.mem_filter.1 this).1


end ChemModel.Balance
