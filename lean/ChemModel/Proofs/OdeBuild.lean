/-
Helper lemmas for C04 (Props/C04.lean):
A. the polynomial normal form: every operation of `Poly` commutes with evaluation into any commutative ℚ-algebra;
B. naturality of C03's rate model: a map that preserves `+ - * ℕ ℤ` commutes with `sysRates` (so "run on sympy symbols,
   then bind the symbols" = "run on the bound values");
C. the dictionaries of the builders (`mkVars`, `uniqueDict`, `resolveAll`, `readAll`).
-/
import ChemModel.Model.OdeBuild
import ChemModel.Props.C03
import Mathlib.Algebra.Algebra.Defs
import Mathlib.Algebra.Algebra.Rat
import Mathlib.Tactic.Ring
import Mathlib.Tactic.Tauto

namespace ChemModel.OdeBuild
open ChemModel.Kinetics

/-! ## A. polynomials -/
section PolyEval
variable {σ : Type} [DecidableEq σ] [Ord σ] {R : Type} [CommRing R] [Algebra ℚ R]

/-- evaluation into a commutative ℚ-algebra `R` (ℚ, ℝ, ℂ, polynomial rings over ℚ, …) -/
abbrev ev (env : σ → R) (p : Poly σ) : R := evalPoly (algebraMap ℚ R) env p

omit [DecidableEq σ] [Ord σ] [Algebra ℚ R] in
theorem evalMono_nil (env : σ → R) : evalMono env ([] : Mono σ) = 1 := by simp [evalMono]

omit [DecidableEq σ] [Ord σ] [Algebra ℚ R] in
theorem evalMono_cons (env : σ → R) (v : σ) (e : ℕ) (m : Mono σ) :
    evalMono env ((v, e) :: m) = env v ^ e * evalMono env m := by
  simp [evalMono, npow_eq]

omit [Algebra ℚ R] in
theorem evalMono_monoInsert (env : σ → R) (v : σ) (e : ℕ) (m : Mono σ) :
    evalMono env (monoInsert v e m) = env v ^ e * evalMono env m := by
  induction m with
  | nil => simp [monoInsert, evalMono_cons]
  | cons h t ih =>
    obtain ⟨w, f⟩ := h
    unfold monoInsert
    split
    · next hw => subst hw; simp only [evalMono_cons, pow_add]; ring
    · split
      · simp only [evalMono_cons]
      · simp only [evalMono_cons, ih]; ring

omit [Algebra ℚ R] in
theorem evalMono_monoMul (env : σ → R) (m₁ m₂ : Mono σ) :
    evalMono env (monoMul m₁ m₂) = evalMono env m₁ * evalMono env m₂ := by
  induction m₁ with
  | nil => simp [monoMul, evalMono_nil]
  | cons h t ih =>
    obtain ⟨v, e⟩ := h
    have : monoMul ((v, e) :: t) m₂ = monoInsert v e (monoMul t m₂) := rfl
    rw [this, evalMono_monoInsert, ih, evalMono_cons]; ring

omit [DecidableEq σ] [Ord σ] in
theorem evalTerms_nil (env : σ → R) : evalTerms (algebraMap ℚ R) env ([] : List (Mono σ × ℚ)) = 0 := by
  simp [evalTerms]

omit [DecidableEq σ] [Ord σ] in
theorem evalTerms_cons (env : σ → R) (t : Mono σ × ℚ) (ts : List (Mono σ × ℚ)) :
    evalTerms (algebraMap ℚ R) env (t :: ts) = algebraMap ℚ R t.2 * evalMono env t.1 + evalTerms (algebraMap ℚ R) env ts := rfl

omit [DecidableEq σ] [Ord σ] in
theorem evalTerms_append (env : σ → R) (ts us : List (Mono σ × ℚ)) :
    evalTerms (algebraMap ℚ R) env (ts ++ us) = evalTerms (algebraMap ℚ R) env ts + evalTerms (algebraMap ℚ R) env us := by
  induction ts with
  | nil => simp [evalTerms_nil]
  | cons t ts ih => simp only [List.cons_append, evalTerms_cons, ih]; ring

theorem evalTerms_insertTerm (env : σ → R) (m : Mono σ) (c : ℚ) (ts : List (Mono σ × ℚ)) :
    evalTerms (algebraMap ℚ R) env (insertTerm m c ts) =
      algebraMap ℚ R c * evalMono env m + evalTerms (algebraMap ℚ R) env ts := by
  induction ts with
  | nil => simp [insertTerm, evalTerms_cons, evalTerms_nil]
  | cons h t ih =>
    obtain ⟨m', c'⟩ := h
    unfold insertTerm
    split
    · next hm => subst hm; simp only [evalTerms_cons, map_add]; ring
    · split
      · simp only [evalTerms_cons]
      · simp only [evalTerms_cons, ih]; ring

omit [DecidableEq σ] [Ord σ] in
theorem evalTerms_filter_nonzero (env : σ → R) (ts : List (Mono σ × ℚ)) :
    evalTerms (algebraMap ℚ R) env (ts.filter fun t => !(decide (t.2 = 0))) = evalTerms (algebraMap ℚ R) env ts := by
  induction ts with
  | nil => rfl
  | cons t ts ih =>
    by_cases h : t.2 = 0
    · simp [List.filter, h, evalTerms_cons, ih]
    · simp [List.filter, h, evalTerms_cons, ih]

/-- **normalisation preserves the value** -/
theorem evalTerms_normalise (env : σ → R) (ts : List (Mono σ × ℚ)) :
    evalTerms (algebraMap ℚ R) env (normalise ts) = evalTerms (algebraMap ℚ R) env ts := by
  unfold normalise
  rw [evalTerms_filter_nonzero]
  induction ts with
  | nil => rfl
  | cons t ts ih => simp only [List.foldr_cons, evalTerms_insertTerm, ih, evalTerms_cons]

theorem ev_const (env : σ → R) (c : ℚ) : ev env (Poly.const c : Poly σ) = algebraMap ℚ R c := by
  simp [ev, evalPoly, Poly.const, evalTerms_normalise, evalTerms_cons, evalTerms_nil, evalMono_nil]

omit [DecidableEq σ] [Ord σ] in
theorem ev_var (env : σ → R) (v : σ) : ev env (Poly.var v) = env v := by
  simp [ev, evalPoly, Poly.var, evalTerms_cons, evalTerms_nil, evalMono_cons, evalMono_nil]

theorem ev_add (env : σ → R) (p q : Poly σ) : ev env (p + q) = ev env p + ev env q := by
  show evalTerms _ env (normalise (p.terms ++ q.terms)) = _
  rw [evalTerms_normalise, evalTerms_append]
  rfl

omit [DecidableEq σ] [Ord σ] in
theorem evalTerms_neg (env : σ → R) (ts : List (Mono σ × ℚ)) :
    evalTerms (algebraMap ℚ R) env (ts.map fun t => (t.1, -t.2)) = -evalTerms (algebraMap ℚ R) env ts := by
  induction ts with
  | nil => simp [evalTerms_nil]
  | cons t ts ih => simp only [List.map_cons, evalTerms_cons, ih, map_neg]; ring

theorem ev_sub (env : σ → R) (p q : Poly σ) : ev env (p - q) = ev env p - ev env q := by
  show evalTerms _ env (normalise (p.terms ++ (Poly.neg q).terms)) = _
  rw [evalTerms_normalise, evalTerms_append]
  show _ + evalTerms _ env (q.terms.map fun t => (t.1, -t.2)) = _
  rw [evalTerms_neg, ← sub_eq_add_neg]
  rfl

theorem evalTerms_mul_single (env : σ → R) (t : Mono σ × ℚ) (us : List (Mono σ × ℚ)) :
    evalTerms (algebraMap ℚ R) env (us.map fun u => (monoMul t.1 u.1, t.2 * u.2)) =
      algebraMap ℚ R t.2 * evalMono env t.1 * evalTerms (algebraMap ℚ R) env us := by
  induction us with
  | nil => simp [evalTerms_nil]
  | cons u us ih => simp only [List.map_cons, evalTerms_cons, ih, map_mul, evalMono_monoMul]; ring

theorem ev_mul (env : σ → R) (p q : Poly σ) : ev env (p * q) = ev env p * ev env q := by
  show evalTerms _ env (normalise (p.terms.flatMap fun t => q.terms.map fun u => (monoMul t.1 u.1, t.2 * u.2))) = _
  rw [evalTerms_normalise]
  show _ = evalTerms _ env p.terms * evalTerms _ env q.terms
  induction p.terms with
  | nil => simp [evalTerms_nil]
  | cons t ts ih => simp only [List.flatMap_cons, evalTerms_append, evalTerms_mul_single, ih, evalTerms_cons]; ring

theorem ev_natCast (env : σ → R) (n : ℕ) : ev env ((n : Poly σ)) = (n : R) := by
  show ev env (Poly.const (n : ℚ)) = _
  rw [ev_const]; simp

theorem ev_intCast (env : σ → R) (i : ℤ) : ev env ((i : Poly σ)) = (i : R) := by
  show ev env (Poly.const (i : ℚ)) = _
  rw [ev_const]; simp

end PolyEval

/-! ## B. naturality of the rate model -/
section Naturality
variable {σ : Type} [DecidableEq σ]
variable {α β : Type} [Add α] [Sub α] [Mul α] [NatCast α] [IntCast α] [Add β] [Sub β] [Mul β] [NatCast β] [IntCast β]

/-- `f` preserves the operations the rate model uses -/
structure OpsHom (f : α → β) : Prop where
  add : ∀ a b, f (a + b) = f a + f b
  sub : ∀ a b, f (a - b) = f a - f b
  mul : ∀ a b, f (a * b) = f a * f b
  nat : ∀ n : ℕ, f (n : α) = (n : β)
  int : ∀ i : ℤ, f (i : α) = (i : β)

/-- apply `f` to the values of a dict -/
def dmap (f : α → β) (d : List (σ × α)) : List (σ × β) := d.map fun kv => (kv.1, f kv.2)

/-- apply `f` to the rate constant -/
def mapR (f : α → β) (r : Reaction σ α) : Reaction σ β :=
  { reac := r.reac, prod := r.prod, inactReac := r.inactReac, inactProd := r.inactProd, param := f r.param }

omit [DecidableEq σ] [Add α] [Sub α] [Mul α] [NatCast α] [IntCast α] [Add β] [Sub β] [Mul β] [NatCast β] [IntCast β] in
theorem dkeys_dmap (f : α → β) (d : List (σ × α)) : dkeys (dmap f d) = dkeys d := by
  simp [dkeys, dmap, Function.comp_def]

omit [Add α] [Sub α] [Mul α] [NatCast α] [IntCast α] [Add β] [Sub β] [Mul β] [NatCast β] [IntCast β] in
theorem dget?_dmap (f : α → β) (d : List (σ × α)) (s : σ) : dget? (dmap f d) s = (dget? d s).map f := by
  induction d with
  | nil => rfl
  | cons h t ih =>
    obtain ⟨k, v⟩ := h
    simp only [dmap, List.map_cons, dget?]
    split
    · rfl
    · exact ih

omit [Add α] [Sub α] [Mul α] [NatCast α] [IntCast α] [Add β] [Sub β] [Mul β] [NatCast β] [IntCast β] in
theorem dmap_dset (f : α → β) (d : List (σ × α)) (k : σ) (v : α) : dmap f (dset d k v) = dset (dmap f d) k (f v) := by
  induction d with
  | nil => rfl
  | cons h t ih =>
    obtain ⟨k', v'⟩ := h
    simp only [dset, dmap, List.map_cons]
    split
    · rfl
    · simp only [List.map_cons]; congr 1

omit [Sub α] [Mul α] [NatCast α] [IntCast α] [Sub β] [Mul β] [NatCast β] [IntCast β] in
theorem dmap_dacc (f : α → β) (hadd : ∀ a b, f (a + b) = f a + f b) (d : List (σ × α)) (k : σ) (v : α) :
    dmap f (dacc d k v) = dacc (dmap f d) k (f v) := by
  induction d with
  | nil => rfl
  | cons h t ih =>
    obtain ⟨k', v'⟩ := h
    simp only [dacc, dmap, List.map_cons]
    split
    · simp [hadd]
    · simp only [List.map_cons]; congr 1

omit [Add α] [Sub α] [Mul α] [NatCast α] [IntCast α] [Add β] [Sub β] [Mul β] [NatCast β] [IntCast β] in
theorem dmap_foldl_dset (f : α → β) (pairs : List (σ × α)) (d : List (σ × α)) :
    dmap f (pairs.foldl (fun d p => dset d p.1 p.2) d) =
      (pairs.map fun p => (p.1, f p.2)).foldl (fun d p => dset d p.1 p.2) (dmap f d) := by
  induction pairs generalizing d with
  | nil => rfl
  | cons p ps ih => simp only [List.foldl_cons, List.map_cons, ih, dmap_dset]

variable {f : α → β}

omit [DecidableEq σ] [Add α] [Sub α] [IntCast α] [Add β] [Sub β] [IntCast β] in
theorem map_npow (hf : ∀ a b, f (a * b) = f a * f b) (h1 : f ((1 : ℕ) : α) = ((1 : ℕ) : β)) (x : α) (n : ℕ) :
    f (Num.npow x n) = Num.npow (f x) n := by
  induction n with
  | zero => simpa [Num.npow] using h1
  | succ n ih => simp [Num.npow, hf, ih]

omit [DecidableEq σ] in
theorem map_activeConcProd (hf : OpsHom f) (vars : σ → α) (r : Reaction σ α) :
    f (activeConcProd vars r) = activeConcProd (fun k => f (vars k)) (mapR f r) := by
  unfold activeConcProd
  show f (List.foldl _ _ r.reac) = List.foldl _ _ r.reac
  have key : ∀ (l : List (σ × ℕ)) (a : α),
      f (l.foldl (fun acc kv => acc * Num.npow (vars kv.1) kv.2) a) =
        l.foldl (fun acc kv => acc * Num.npow (f (vars kv.1)) kv.2) (f a) := by
    intro l
    induction l with
    | nil => intro a; rfl
    | cons h t ih => intro a; simp only [List.foldl_cons, ih, hf.mul, map_npow hf.mul (hf.nat 1)]
  rw [key, hf.nat]

omit [DecidableEq σ] in
theorem map_massAction (hf : OpsHom f) (vars : σ → α) (r : Reaction σ α) :
    f (massAction vars r) = massAction (fun k => f (vars k)) (mapR f r) := by
  unfold massAction
  rw [hf.mul, map_activeConcProd hf]
  rfl

theorem dmap_rxnRate (hf : OpsHom f) (vars : σ → α) (r : Reaction σ α) (keys : List σ) :
    dmap f (rxnRate vars r keys) = rxnRate (fun k => f (vars k)) (mapR f r) keys := by
  unfold rxnRate dictOf
  rw [dmap_foldl_dset]
  simp only [List.map_map, Function.comp_def, hf.mul, map_massAction hf, hf.int]
  rfl

theorem dmap_accumulate (hf : OpsHom f) (result items : List (σ × α)) :
    dmap f (accumulate result items) = accumulate (dmap f result) (dmap f items) := by
  unfold accumulate
  induction items generalizing result with
  | nil => rfl
  | cons h t ih => simp only [List.foldl_cons, dmap, List.map_cons] at *; rw [ih]; congr 1; exact dmap_dacc f hf.add _ _ _

theorem dmap_sysRatesNoFeed (hf : OpsHom f) (vars : σ → α) (rs : List (Reaction σ α)) (keys? : Option (List σ)) :
    dmap f (sysRatesNoFeed vars rs keys?) = sysRatesNoFeed (fun k => f (vars k)) (rs.map (mapR f)) keys? := by
  unfold sysRatesNoFeed
  have key : ∀ (l : List (Reaction σ α)) (d : List (σ × α)),
      dmap f (l.foldl (fun result r => accumulate result (rxnRate vars r (keysFor keys? r))) d) =
        (l.map (mapR f)).foldl (fun result r => accumulate result (rxnRate (fun k => f (vars k)) r (keysFor keys? r))) (dmap f d) := by
    intro l
    induction l with
    | nil => intro d; rfl
    | cons r rs ih =>
      intro d
      simp only [List.foldl_cons, List.map_cons, ih, dmap_accumulate hf, dmap_rxnRate hf]
      cases keys? <;> rfl
  exact key rs []

theorem dmap_addFeed (hf : OpsHom f) (vars : σ → α) (d : List (σ × α)) (cs : Cstr σ) :
    dmap f (addFeed vars d cs) = addFeed (fun k => f (vars k)) (dmap f d) cs := by
  unfold addFeed
  induction cs.fc generalizing d with
  | nil => rfl
  | cons h t ih => simp only [List.foldl_cons, ih, dmap_dacc f hf.add, hf.mul, hf.sub]

/-- **`sysRates` commutes with every map that preserves the ring operations** -/
theorem dmap_sysRates (hf : OpsHom f) (vars : σ → α) (rs : List (Reaction σ α)) (keys? : Option (List σ))
    (cstr? : Option (Cstr σ)) :
    dmap f (sysRates vars rs keys? cstr?) = sysRates (fun k => f (vars k)) (rs.map (mapR f)) keys? cstr? := by
  cases cstr? with
  | none => exact dmap_sysRatesNoFeed hf vars rs keys?
  | some cs => simp only [sysRates, dmap_addFeed hf, dmap_sysRatesNoFeed hf]

end Naturality

/-! ## C. the builders' plumbing -/
section Core
variable {R : Type} [CommRing R] [Algebra ℚ R]

theorem opsHom_ev (env : String → R) : OpsHom (ev env : Poly String → R) :=
  ⟨ev_add env, ev_sub env, ev_mul env, ev_natCast env, ev_intCast env⟩

/-- value of the entry `k` of the `variables` dict once every symbol is bound by `env` -/
def cval (vars : List (String × Poly String)) (env : String → R) (k : String) : R := ev env (lookup vars k)

/-- net stoichiometric coefficient of `s` in a reaction -/
def netOf (r : Rxn) (s : String) : ℤ :=
  (coef r.prod s : ℤ) - (coef r.reac s : ℤ) + (coef r.inactProd s : ℤ) - (coef r.inactReac s : ℤ)

/-- mass-action rate of a reaction under `env`: (value of the rate coefficient) · ∏ c_j ^ ν_j over the active reactants.
    The `none` branch (a rate constant with neither value nor symbol: `KeyError`) does not occur in an accepted build. -/
def rateVal (vars : List (String × Poly String)) (env : String → R) (r : Rxn) : R :=
  match resolve vars r.param with
  | some k => ev env k * (r.reac.map fun jν => cval vars env jν.1 ^ jν.2).prod
  | none => 0

/-- feed term of a stirred tank for substance `s` -/
def feedVal (vars : List (String × Poly String)) (env : String → R) (cstr? : Option (Cstr String)) (s : String) : R :=
  match cstr? with
  | none => 0
  | some cs =>
    match dget? cs.fc s with
    | some feedKey => cval vars env cs.frKey * (cval vars env feedKey - cval vars env s)
    | none => 0

theorem resolveAll_spec (vars : List (String × Poly String)) (env : String → R) (s : String) :
    ∀ (rxns : List Rxn) (rs : List (Reaction String (Poly String))), resolveAll vars rxns = some rs →
      (rs.map fun r => C03.contrib (cval vars env) (mapR (ev env) r) s).sum =
          (rxns.map fun r => (netOf r s : R) * rateVal vars env r).sum ∧
        (rs.map (massAction (lookup vars))).map (ev env) = rxns.map (rateVal vars env) ∧
        ∀ r ∈ rxns, (resolve vars r.param).isSome = true ∧ ∀ j ∈ dkeys r.reac, dmem vars j = true := by
  intro rxns
  induction rxns with
  | nil => intro rs h; simp only [resolveAll, Option.some.injEq] at h; subst h; simp
  | cons r rxns ih =>
    intro rs h
    unfold resolveAll at h
    cases hk : resolve vars r.param with
    | none => simp [hk] at h
    | some k =>
      simp only [hk] at h
      by_cases hall : (dkeys r.reac).all (dmem vars) = true
      · simp only [hall, if_true] at h
        cases hrest : resolveAll vars rxns with
        | none => simp [hrest] at h
        | some out =>
          simp only [hrest, Option.some.injEq] at h
          subst h
          obtain ⟨ih1, ih2, ih3⟩ := ih out hrest
          refine ⟨?_, ?_, ?_⟩
          · simp only [List.map_cons, List.sum_cons, ih1]
            congr 1
            simp only [C03.contrib, mapR, toReaction, rateVal, hk, netOf]
          · simp only [List.map_cons, ih2]
            congr 1
            rw [map_massAction (opsHom_ev env)]
            simp only [massAction, mapR, toReaction, rateVal, hk, activeConcProd_eq, concProd]
            rfl
          · intro r' hr'
            rcases List.mem_cons.mp hr' with rfl | hr'
            · exact ⟨by simp [hk], fun j hj => (List.all_eq_true.mp hall) j hj⟩
            · exact ih3 r' hr'
      · simp [hall] at h

theorem readAll_spec (rates : List (String × Poly String)) :
    ∀ (names : List String) (exprs : List (Poly String)), readAll rates names = some exprs →
      exprs.length = names.length ∧
        ∀ (i : ℕ) (s : String), names[i]? = some s → ∃ e, exprs[i]? = some e ∧ dget? rates s = some e := by
  intro names
  induction names with
  | nil => intro exprs h; simp only [readAll, Option.some.injEq] at h; subst h; simp
  | cons n names ih =>
    intro exprs h
    unfold readAll at h
    cases he : dget? rates n with
    | none => simp [he] at h
    | some e =>
      simp only [he] at h
      cases hr : readAll rates names with
      | none => simp [hr] at h
      | some es =>
        simp only [hr, Option.some.injEq] at h
        subst h
        obtain ⟨hl, hi⟩ := ih es hr
        refine ⟨by simp [hl], ?_⟩
        intro i s hs
        cases i with
        | zero => simp only [List.getElem?_cons_zero, Option.some.injEq] at hs; subst hs; exact ⟨e, by simp, he⟩
        | succ i => simpa using hi i s (by simpa using hs)

theorem valueAt_of_dget? {α : Type} [NatCast α] {d : List (String × α)} {s : String} {e : α} (h : dget? d s = some e) :
    valueAt d s = e := by
  simp [valueAt, dgetD, h]

/-- the common core of both builders: every expression read from the rate dict evaluates to `Nᵀ·r` (+ feed) -/
theorem core_spec (vars : List (String × Poly String)) (rxns : List Rxn) (rs : List (Reaction String (Poly String)))
    (names : List String) (cstr? : Option (Cstr String)) (exprs : List (Poly String))
    (hfc : ∀ cs, cstr? = some cs → (dkeys cs.fc).Nodup)
    (hres : resolveAll vars rxns = some rs)
    (hread : readAll (sysRates (lookup vars) rs none cstr?) names = some exprs) (env : String → R) :
    exprs.length = names.length ∧
      ∀ (i : ℕ) (s : String), names[i]? = some s → ∃ e, exprs[i]? = some e ∧
        ev env e = (rxns.map fun r => (netOf r s : R) * rateVal vars env r).sum + feedVal vars env cstr? s := by
  obtain ⟨hl, hi⟩ := readAll_spec _ names exprs hread
  refine ⟨hl, ?_⟩
  intro i s hs
  obtain ⟨e, he, hd⟩ := hi i s hs
  refine ⟨e, he, ?_⟩
  have h1 : dget? (dmap (ev env) (sysRates (lookup vars) rs none cstr?)) s = some (ev env e) := by
    rw [dget?_dmap, hd]; rfl
  rw [dmap_sysRates (opsHom_ev env)] at h1
  have h2 := valueAt_of_dget? h1
  rw [← h2]
  have h3 := C03.sysRates_spec (fun k => ev env (lookup vars k)) (rs.map (mapR (ev env))) none cstr? hfc s (by intro ks h; cases h)
  rw [h3, ← (resolveAll_spec vars env s rxns rs hres).1, List.map_map]
  cases cstr? with
  | none => rfl
  | some cs =>
    show _ + _ = _ + _
    congr 1
    simp only [feedVal, cval]
    cases dget? cs.fc s <;> rfl

end Core

/-! ## D. the dictionaries `variables` and `unique` -/
section Dicts
variable {γ β : Type}

/-- entries written by a fold of `d[key x] = val x` do not touch other keys -/
theorem dget?_foldl_dset_of_not_mem (key : γ → String) (val : γ → β) (l : List γ) (d : List (String × β)) (k : String)
    (h : ∀ x ∈ l, key x ≠ k) : dget? (l.foldl (fun d x => dset d (key x) (val x)) d) k = dget? d k := by
  induction l generalizing d with
  | nil => rfl
  | cons a t ih =>
    rw [List.foldl_cons, ih _ (fun x hx => h x (List.mem_cons_of_mem _ hx)), dget?_dset, if_neg (h a (by simp))]

/-- a key written by the fold does not depend on the initial dict -/
theorem dget?_foldl_dset_indep (key : γ → String) (val : γ → β) (l : List γ) (d d' : List (String × β)) (k : String)
    (h : ∃ x ∈ l, key x = k) :
    dget? (l.foldl (fun d x => dset d (key x) (val x)) d) k = dget? (l.foldl (fun d x => dset d (key x) (val x)) d') k := by
  induction l generalizing d d' with
  | nil => obtain ⟨x, hx, _⟩ := h; simp at hx
  | cons a t ih =>
    simp only [List.foldl_cons]
    by_cases ht : ∃ x ∈ t, key x = k
    · exact ih _ _ ht
    · have ht' : ∀ x ∈ t, key x ≠ k := fun x hx e => ht ⟨x, hx, e⟩
      rw [dget?_foldl_dset_of_not_mem key val t _ k ht', dget?_foldl_dset_of_not_mem key val t _ k ht']
      obtain ⟨x, hx, hk⟩ := h
      rcases List.mem_cons.mp hx with rfl | hx
      · simp [dget?_dset, hk]
      · exact absurd hk (ht' x hx)

/-- a key written by the fold, all of whose writes carry the same value `w`, reads `w` -/
theorem dget?_foldl_dset_of_mem (key : γ → String) (val : γ → β) (l : List γ) (d : List (String × β)) (k : String) (w : β)
    (h : ∃ x ∈ l, key x = k) (hw : ∀ x ∈ l, key x = k → val x = w) :
    dget? (l.foldl (fun d x => dset d (key x) (val x)) d) k = some w := by
  induction l generalizing d with
  | nil => obtain ⟨x, hx, _⟩ := h; simp at hx
  | cons a t ih =>
    simp only [List.foldl_cons]
    by_cases ht : ∃ x ∈ t, key x = k
    · exact ih _ ht (fun x hx => hw x (List.mem_cons_of_mem _ hx))
    · have ht' : ∀ x ∈ t, key x ≠ k := fun x hx e => ht ⟨x, hx, e⟩
      rw [dget?_foldl_dset_of_not_mem key val t _ k ht']
      obtain ⟨x, hx, hk⟩ := h
      rcases List.mem_cons.mp hx with rfl | hx
      · simp [dget?_dset, hk, hw x (by simp) hk]
      · exact absurd hk (ht' x hx)

theorem mem_dkeys_iff_exists {d : List (String × β)} {k : String} : k ∈ dkeys d ↔ ∃ x ∈ d, x.1 = k := by
  simp [dkeys]

theorem value_unique_of_nodup {d : List (String × β)} (hnd : (dkeys d).Nodup) {k : String} {v : β}
    (h : dget? d k = some v) : ∀ x ∈ d, x.1 = k → x.2 = v := by
  induction d with
  | nil => simp at h
  | cons a t ih =>
    obtain ⟨k', v'⟩ := a
    simp only [dkeys, List.map_cons, List.nodup_cons] at hnd
    rw [dget?_cons] at h
    intro x hx hk
    by_cases hkk : k' = k
    · simp only [hkk, if_true, Option.some.injEq] at h
      rcases List.mem_cons.mp hx with rfl | hx
      · exact h
      · exact absurd (by rw [← hkk] at hk; exact hk ▸ List.mem_map_of_mem (f := Prod.fst) hx) hnd.1
    · simp only [hkk, if_false] at h
      rcases List.mem_cons.mp hx with rfl | hx
      · exact absurd hk hkk
      · exact ih hnd.2 h x hx hk

theorem dget?_map_pair (l : List String) (g : String → β) (k : String) :
    dget? (l.map fun s => (s, g s)) k = if k ∈ l then some (g k) else none := by
  induction l with
  | nil => simp
  | cons a t ih =>
    simp only [List.map_cons, dget?_cons, ih, List.mem_cons]
    by_cases h : a = k
    · simp [h]
    · have : ¬ k = a := fun e => h e.symm
      simp [h, this]

end Dicts

section MkVars

/-- a substituted key reads its constant, whatever the names and parameters are -/
theorem dget?_mkVars_subs (names ps : List String) (subs : List (String × ℚ)) (hnd : (dkeys subs).Nodup) {k : String} {v : ℚ}
    (h : dget? subs k = some v) : dget? (mkVars names ps subs) k = some (Poly.const v) := by
  unfold mkVars
  have hm : k ∈ dkeys subs := by
    by_contra hc; rw [dget?_eq_none_iff.mpr hc] at h; cases h
  exact dget?_foldl_dset_of_mem (fun kv : String × ℚ => kv.1) (fun kv => Poly.const kv.2) subs _ k _
    (mem_dkeys_iff_exists.mp hm) (fun x hx hk => by rw [value_unique_of_nodup hnd h x hx hk])

/-- a substituted key reads the same in any two `variables` dicts with the same substitutions -/
theorem dget?_mkVars_subs_indep (names ps names' ps' : List String) (subs : List (String × ℚ)) {k : String}
    (hm : k ∈ dkeys subs) : dget? (mkVars names ps subs) k = dget? (mkVars names' ps' subs) k := by
  unfold mkVars
  exact dget?_foldl_dset_indep (fun kv : String × ℚ => kv.1) (fun kv => Poly.const kv.2) subs _ _ k (mem_dkeys_iff_exists.mp hm)

/-- any other key is a symbol exactly when it is a substance or a parameter name -/
theorem dget?_mkVars_not_subs (names ps : List String) (subs : List (String × ℚ)) {k : String} (hm : k ∉ dkeys subs) :
    dget? (mkVars names ps subs) k = if k ∈ ps ∨ k ∈ names then some (Poly.var k) else none := by
  unfold mkVars
  rw [dget?_foldl_dset_of_not_mem (fun kv : String × ℚ => kv.1) (fun kv => Poly.const kv.2) subs _ k
    (fun x hx e => hm (mem_dkeys_iff_exists.mpr ⟨x, hx, e⟩))]
  by_cases hp : k ∈ ps
  · rw [dget?_foldl_dset_of_mem (fun p : String => p) (fun p => Poly.var p) ps _ k (Poly.var k) ⟨k, hp, rfl⟩
      (fun x _ e => by rw [e])]
    simp [hp]
  · rw [dget?_foldl_dset_of_not_mem (fun p : String => p) (fun p => Poly.var p) ps _ k (fun x hx e => hp (e ▸ hx)),
      dget?_dictOf_map]
    simp [hp]

theorem dmem_mkVars_not_subs (names ps : List String) (subs : List (String × ℚ)) {k : String} (hm : k ∉ dkeys subs) :
    dmem (mkVars names ps subs) k = true ↔ k ∈ ps ∨ k ∈ names := by
  unfold dmem
  rw [dget?_mkVars_not_subs names ps subs hm]
  by_cases h : k ∈ ps ∨ k ∈ names <;> simp [h]

end MkVars

section Unique

theorem mem_dkeys_reg_aux (subs : List (String × ℚ)) (u : List (String × Option ℚ)) (uk s : String) (v : Option ℚ) :
    s ∈ dkeys (if dmem subs uk = true then u else dset u uk v) ↔ s ∈ dkeys u ∨ (uk = s ∧ dmem subs s = false) := by
  cases h : dmem subs uk
  · simp only [Bool.false_eq_true, if_false, mem_dkeys_dset]
    constructor
    · rintro (h1 | rfl)
      · exact Or.inl h1
      · exact Or.inr ⟨rfl, h⟩
    · rintro (h1 | ⟨rfl, _⟩)
      · exact Or.inl h1
      · exact Or.inr rfl
  · simp only [if_true]
    constructor
    · exact Or.inl
    · rintro (h1 | ⟨rfl, h2⟩)
      · exact h1
      · rw [h] at h2; cases h2

theorem mem_dkeys_regUnique (subs : List (String × ℚ)) (u : List (String × Option ℚ)) (p : RateParam) (s : String) :
    s ∈ dkeys (regUnique subs u p) ↔ s ∈ dkeys u ∨ (p.uniqueKey? = some s ∧ dmem subs s = false) := by
  cases p with
  | raw k => simp [regUnique, RateParam.uniqueKey?]
  | ma k => simp [regUnique, RateParam.uniqueKey?]
  | named uk k => simpa only [regUnique, RateParam.uniqueKey?, Option.some.injEq] using mem_dkeys_reg_aux subs u uk s (some k)
  | key uk => simpa only [regUnique, RateParam.uniqueKey?, Option.some.injEq] using mem_dkeys_reg_aux subs u uk s none
  | sym uk => simpa only [regUnique, RateParam.uniqueKey?, Option.some.injEq] using mem_dkeys_reg_aux subs u uk s none

theorem mem_dkeys_foldl_regUnique (subs : List (String × ℚ)) (rxns : List Rxn) (u : List (String × Option ℚ)) (s : String) :
    s ∈ dkeys (rxns.foldl (fun u r => regUnique subs u r.param) u) ↔
      s ∈ dkeys u ∨ ∃ r ∈ rxns, r.param.uniqueKey? = some s ∧ dmem subs s = false := by
  induction rxns generalizing u with
  | nil => simp
  | cons r t ih =>
    rw [List.foldl_cons, ih, mem_dkeys_regUnique]
    constructor
    · rintro ((h | h) | ⟨r', hr', h⟩)
      · exact Or.inl h
      · exact Or.inr ⟨r, by simp, h⟩
      · exact Or.inr ⟨r', List.mem_cons_of_mem _ hr', h⟩
    · rintro (h | ⟨r', hr', h⟩)
      · exact Or.inl (Or.inl h)
      · rcases List.mem_cons.mp hr' with rfl | hr'
        · exact Or.inl (Or.inr h)
        · exact Or.inr ⟨r', hr', h⟩

/-- what `_reg_unique` stores for a parameter: the constant of a named constant, `None` for a value-less key -/
def regValue : RateParam → Option ℚ
  | .named _ k => some k
  | _ => none

theorem dget?_regUnique_self (subs : List (String × ℚ)) (u : List (String × Option ℚ)) (p : RateParam) (s : String)
    (hp : p.uniqueKey? = some s) (hs : dmem subs s = false) : dget? (regUnique subs u p) s = some (regValue p) := by
  cases p with
  | raw k => simp [RateParam.uniqueKey?] at hp
  | ma k => simp [RateParam.uniqueKey?] at hp
  | named uk k =>
    simp only [RateParam.uniqueKey?, Option.some.injEq] at hp; subst hp
    simp [regUnique, hs, dget?_dset, regValue]
  | key uk =>
    simp only [RateParam.uniqueKey?, Option.some.injEq] at hp; subst hp
    simp [regUnique, hs, dget?_dset, regValue]
  | sym uk =>
    simp only [RateParam.uniqueKey?, Option.some.injEq] at hp; subst hp
    simp [regUnique, hs, dget?_dset, regValue]

theorem dget?_regUnique_other (subs : List (String × ℚ)) (u : List (String × Option ℚ)) (p : RateParam) (s : String)
    (hp : p.uniqueKey? ≠ some s) : dget? (regUnique subs u p) s = dget? u s := by
  cases p with
  | raw k => rfl
  | ma k => rfl
  | named uk k =>
    have : uk ≠ s := fun e => hp (by simp [RateParam.uniqueKey?, e])
    simp only [regUnique]; split <;> simp [dget?_dset, this]
  | key uk =>
    have : uk ≠ s := fun e => hp (by simp [RateParam.uniqueKey?, e])
    simp only [regUnique]; split <;> simp [dget?_dset, this]
  | sym uk =>
    have : uk ≠ s := fun e => hp (by simp [RateParam.uniqueKey?, e])
    simp only [regUnique]; split <;> simp [dget?_dset, this]

/-- when every reaction naming `s` carries the same parameter `p`, `unique[s]` is what `p` stores -/
theorem dget?_foldl_regUnique (subs : List (String × ℚ)) (rxns : List Rxn) (u : List (String × Option ℚ)) (s : String)
    (p : RateParam) (hs : dmem subs s = false) (hex : ∃ r ∈ rxns, r.param.uniqueKey? = some s)
    (hall : ∀ r ∈ rxns, r.param.uniqueKey? = some s → r.param = p) :
    dget? (rxns.foldl (fun u r => regUnique subs u r.param) u) s = some (regValue p) := by
  induction rxns generalizing u with
  | nil => obtain ⟨r, hr, _⟩ := hex; simp at hr
  | cons a t ih =>
    rw [List.foldl_cons]
    by_cases ht : ∃ r ∈ t, r.param.uniqueKey? = some s
    · exact ih _ ht (fun r hr => hall r (List.mem_cons_of_mem _ hr))
    · have key : ∀ (l : List Rxn) (u : List (String × Option ℚ)), (∀ r ∈ l, r.param.uniqueKey? ≠ some s) →
          dget? (l.foldl (fun u r => regUnique subs u r.param) u) s = dget? u s := by
        intro l
        induction l with
        | nil => intro u _; rfl
        | cons b l ihl =>
          intro u hb
          rw [List.foldl_cons, ihl _ (fun r hr => hb r (List.mem_cons_of_mem _ hr)),
            dget?_regUnique_other _ _ _ _ (hb b (by simp))]
      rw [key t _ (fun r hr e => ht ⟨r, hr, e⟩)]
      obtain ⟨r, hr, hk⟩ := hex
      rcases List.mem_cons.mp hr with rfl | hr
      · rw [dget?_regUnique_self subs u _ s hk hs, hall r (by simp) hk]
      · exact absurd ⟨r, hr, hk⟩ ht

end Unique

end ChemModel.OdeBuild

namespace ChemModel.OdeBuild
open ChemModel.Kinetics

/-! ## E. what an accepted build tells -/
section Inversion

theorem filter_ne_length_lt {l : List String} {k : String} (h : k ∈ l) :
    (l.filter fun x => !(decide (x = k))).length < l.length := by
  induction l with
  | nil => simp at h
  | cons a t ih =>
    by_cases ha : a = k
    · simp only [List.filter, ha, decide_true, Bool.not_true, List.length_cons]
      exact Nat.lt_succ_of_le (List.length_filter_le _ _)
    · have ht : k ∈ t := by
        rcases List.mem_cons.mp h with e | e
        · exact absurd e.symm ha
        · exact e
      simp only [List.filter, ha, decide_false, Bool.not_false, List.length_cons]
      exact Nat.succ_lt_succ (ih ht)

theorem dedupKeys_length_le (l : List String) : (dedupKeys l).length ≤ l.length := by
  induction l with
  | nil => simp [dedupKeys]
  | cons a t ih =>
    simp only [dedupKeys, List.length_cons]
    exact Nat.succ_le_succ (Nat.le_trans (List.length_filter_le _ _) ih)

/-- `len(keys) == len(set(keys))` means no repetition -/
theorem nodup_of_dedupKeys_length {l : List String} (h : (dedupKeys l).length = l.length) : l.Nodup := by
  induction l with
  | nil => simp
  | cons a t ih =>
    simp only [dedupKeys, List.length_cons, Nat.add_right_cancel_iff] at h
    have h1 : (dedupKeys t).length = t.length := by
      have := List.length_filter_le (fun x => !(decide (x = a))) (dedupKeys t)
      have := dedupKeys_length_le t
      omega
    have h2 : a ∉ t := by
      intro hm
      have := filter_ne_length_lt (mem_dedupKeys.mpr hm)
      omega
    exact List.nodup_cons.mpr ⟨h2, ih h1⟩

theorem readExprs_ok {names : List String} {rates : List (String × Poly String)} {exprs : List (Poly String)}
    (h : readExprs names rates = .ok exprs) : readAll rates names = some exprs := by
  unfold readExprs at h
  split at h
  · cases h
  · split at h
    · cases h
    · next l hl => cases h; exact hl

/-- everything an accepted `get_odesys` build passed through -/
theorem buildRhs_ok {cfg : Cfg} {sys : Sys} {o : OdeSys} (h : buildRhs cfg sys = .ok o) :
    sys.rxns ≠ [] ∧
    (∀ kv ∈ cfg.subs, kv.1 ∈ cstrKeys (cstrOf cfg.cstr sys.subst) ∨ kv.1 ∈ oriUk sys.rxns) ∧
    (∀ n ∈ sys.subst, n ∉ paramNamesOf cfg sys) ∧ "time" ∉ sys.subst ∧ "time" ∉ paramNamesOf cfg sys ∧
    ∃ rs exprs, resolveAll (mkVars sys.subst (paramNamesOf cfg sys) cfg.subs) sys.rxns = some rs ∧
      (∀ k ∈ cstrNeeded (cstrOf cfg.cstr sys.subst), dmem (mkVars sys.subst (paramNamesOf cfg sys) cfg.subs) k = true) ∧
      readAll (sysRates (lookup (mkVars sys.subst (paramNamesOf cfg sys) cfg.subs)) rs none (cstrOf cfg.cstr sys.subst)) sys.subst
        = some exprs ∧
      o = { names := sys.subst, paramNames := paramNamesOf cfg sys, paramKeys := allPk cfg sys.subst,
            unique := uniqueDict cfg sys.rxns, exprs := exprs,
            rateExprs := rs.map (massAction (lookup (mkVars sys.subst (paramNamesOf cfg sys) cfg.subs))) } := by
  unfold buildRhs at h
  dsimp only at h
  split at h
  · cases h
  next h1 =>
  split at h
  · cases h
  next h2 =>
  split at h
  · cases h
  next h3 =>
  split at h
  · cases h
  next h4 =>
  split at h
  · cases h
  next h5 =>
  split at h
  · cases h
  next rs hrs =>
  split at h
  next h6 =>
    split at h
    · cases h
    next exprs hex =>
    split at h
    · cases h
    next h7 =>
    refine ⟨?_, ?_, ?_, ?_, ?_, rs, exprs, hrs, ?_, readExprs_ok hex, ?_⟩
    · intro e; rw [e] at h1; exact h1 rfl
    · intro kv hkv
      have := h2
      simp only [List.any_eq_true, not_exists, not_and] at this
      have := this kv hkv
      simp only [Bool.not_eq_true', Bool.not_eq_false, Bool.or_eq_true, decide_eq_true_eq] at this
      exact this
    · intro n hn hc
      apply h3
      simp only [List.any_eq_true, decide_eq_true_eq]
      exact ⟨n, hn, hc⟩
    · intro hc; apply h4; simp [hc]
    · intro hc; apply h4; simp [hc]
    · intro k hk; exact (List.all_eq_true.mp h6) k hk
    · cases h; rfl
  · cases h

/-- everything an accepted `_create_odesys` build passed through -/
theorem buildRhs'_ok {cfg : Cfg'} {sys : Sys} {o : OdeSys'} (h : buildRhs' cfg sys = .ok o) :
    ∃ ks, collectKeys cfg.paramExprs sys.rxns = .ok ks ∧
      (ks ++ cstrKeys (cstrOf cfg.cstr sys.subst)).Nodup ∧
      "time" ∉ ks ++ cstrKeys (cstrOf cfg.cstr sys.subst) ∧
      (∀ k ∈ rawReads sys.rxns (cstrOf cfg.cstr sys.subst), dmem cfg.paramExprs k = false) ∧
      ∃ rs exprs, resolveAll (mkVars sys.subst (ks ++ cstrKeys (cstrOf cfg.cstr sys.subst)) cfg.paramExprs) sys.rxns = some rs ∧
        readAll (sysRates (lookup (mkVars sys.subst (ks ++ cstrKeys (cstrOf cfg.cstr sys.subst)) cfg.paramExprs)) rs none
          (cstrOf cfg.cstr sys.subst)) sys.subst = some exprs ∧
        o = { names := sys.subst, paramNames := ks ++ cstrKeys (cstrOf cfg.cstr sys.subst), exprs := exprs } := by
  unfold buildRhs' at h
  dsimp only at h
  split at h
  · cases h
  next ks hks =>
  split at h
  · cases h
  next h1 =>
  split at h
  · cases h
  next h2 =>
  split at h
  · cases h
  next h3 =>
  split at h
  · cases h
  next h4 =>
  split at h
  · cases h
  next rs hrs =>
  split at h
  next h6 =>
    split at h
    · cases h
    next exprs hex =>
    split at h
    · cases h
    next h7 =>
    refine ⟨ks, hks, ?_, ?_, ?_, rs, exprs, hrs, hex, ?_⟩
    · have hl : (dedupKeys (ks ++ cstrKeys (cstrOf cfg.cstr sys.subst))).length = (ks ++ cstrKeys (cstrOf cfg.cstr sys.subst)).length := by
        by_contra hc; exact h1 hc
      exact nodup_of_dedupKeys_length hl
    · intro hc; apply h2; simp [hc]
    · intro k hk
      have := h4
      simp only [List.any_eq_true, not_exists, not_and] at this
      simpa using this k hk
    · cases h; rfl
  · cases h

end Inversion

/-! ## F. comparing two builds -/
section Compare
variable {R : Type} [CommRing R] [Algebra ℚ R]

theorem cstrOf_nodup {b : Bool} {subst : List String} (hnd : subst.Nodup) :
    ∀ cs, cstrOf b subst = some cs → (dkeys cs.fc).Nodup := by
  intro cs h
  unfold cstrOf at h
  split at h
  · cases h
    simpa [dkeys, Function.comp_def] using hnd
  · cases h

theorem feedVal_cstrOf (vars : List (String × Poly String)) (env : String → R) (b : Bool) {subst : List String} {s : String}
    (hs : s ∈ subst) :
    feedVal vars env (cstrOf b subst) s =
      if b = true then cval vars env "feedratio" * (cval vars env ("fc_" ++ s) - cval vars env s) else 0 := by
  cases b with
  | false => rfl
  | true =>
    simp only [cstrOf, if_true, feedVal]
    rw [dget?_map_pair]
    simp [hs]

theorem mem_cstrNeeded {subst : List String} {s : String} (hs : s ∈ subst) :
    "feedratio" ∈ cstrNeeded (cstrOf true subst) ∧ ("fc_" ++ s) ∈ cstrNeeded (cstrOf true subst) ∧
      s ∈ cstrNeeded (cstrOf true subst) := by
  simp only [cstrOf, if_true, cstrNeeded, List.map_map, List.mem_flatten, List.mem_map, Function.comp_def]
  exact ⟨⟨_, ⟨s, hs, rfl⟩, by simp⟩, ⟨_, ⟨s, hs, rfl⟩, by simp⟩, ⟨_, ⟨s, hs, rfl⟩, by simp⟩⟩

theorem mem_allPk (cfg : Cfg) (subst : List String) (p : String) :
    p ∈ allPk cfg subst ↔ p ∈ cstrKeys (cstrOf cfg.cstr subst) ∧ p ∉ dkeys cfg.subs ∧ p ≠ "time" := by
  simp only [allPk, List.mem_filter, mem_dedupKeys, Bool.and_eq_true, Bool.not_eq_true', decide_eq_false_iff_not]
  constructor
  · rintro ⟨h1, h2, h3⟩
    exact ⟨h1, fun hm => (by rw [dmem_iff.mpr hm] at h2; cases h2), h3⟩
  · rintro ⟨h1, h2, h3⟩
    refine ⟨h1, ?_, h3⟩
    cases hd : dmem cfg.subs p
    · rfl
    · exact absurd (dmem_iff.mp hd) h2

theorem mem_paramNamesOf (cfg : Cfg) (sys : Sys) (p : String) :
    p ∈ paramNamesOf cfg sys ↔
      p ∈ allPk cfg sys.subst ∨ (cfg.includeParams = false ∧ p ∈ dkeys (uniqueDict cfg sys.rxns)) := by
  unfold paramNamesOf
  cases hi : cfg.includeParams
  · simp only [Bool.false_eq_true, if_false, List.mem_append, List.mem_filter, Bool.not_eq_true', decide_eq_false_iff_not, true_and]
    constructor
    · rintro (h | ⟨h, _⟩)
      · exact Or.inl h
      · exact Or.inr h
    · rintro (h | h)
      · exact Or.inl h
      · by_cases hp : p ∈ allPk cfg sys.subst
        · exact Or.inl hp
        · exact Or.inr ⟨h, hp⟩
  · simp

theorem mem_uniqueDict (cfg : Cfg) (hi : cfg.includeParams = false) (rxns : List Rxn) (s : String) :
    s ∈ dkeys (uniqueDict cfg rxns) ↔ ∃ r ∈ rxns, r.param.uniqueKey? = some s ∧ dmem cfg.subs s = false := by
  unfold uniqueDict
  simp only [hi, Bool.false_eq_true, if_false]
  rw [mem_dkeys_foldl_regUnique]
  simp [dkeys]

/-- the two configurations that differ only in `include_params` -/
abbrev freeOf (cfg : Cfg) : Cfg := { cfg with includeParams := false }
abbrev inlinedOf (cfg : Cfg) : Cfg := { cfg with includeParams := true }

theorem paramNames_inlined_subset (cfg : Cfg) (sys : Sys) {j : String} (h : j ∈ paramNamesOf (inlinedOf cfg) sys) :
    j ∈ paramNamesOf (freeOf cfg) sys := by
  rw [mem_paramNamesOf] at h ⊢
  rcases h with h | ⟨h, _⟩
  · exact Or.inl h
  · cases h

/-- on every key the inlined build defines, the free build reads the same value -/
theorem cval_free_eq_inlined (cfg : Cfg) (sys : Sys) (env : String → R) (j : String)
    (hj : dmem (mkVars sys.subst (paramNamesOf (inlinedOf cfg) sys) cfg.subs) j = true) :
    cval (mkVars sys.subst (paramNamesOf (freeOf cfg) sys) cfg.subs) env j =
      cval (mkVars sys.subst (paramNamesOf (inlinedOf cfg) sys) cfg.subs) env j := by
  unfold cval lookup dgetD
  by_cases hm : j ∈ dkeys cfg.subs
  · rw [dget?_mkVars_subs_indep sys.subst (paramNamesOf (freeOf cfg) sys) sys.subst (paramNamesOf (inlinedOf cfg) sys) cfg.subs hm]
  · rw [dget?_mkVars_not_subs _ _ _ hm, dget?_mkVars_not_subs _ _ _ hm]
    have h1 := (dmem_mkVars_not_subs sys.subst (paramNamesOf (inlinedOf cfg) sys) cfg.subs hm).mp hj
    have h2 : j ∈ paramNamesOf (freeOf cfg) sys ∨ j ∈ sys.subst := by
      rcases h1 with h | h
      · exact Or.inl (paramNames_inlined_subset cfg sys h)
      · exact Or.inr h
    rw [if_pos h1, if_pos h2]

/-- reaction by reaction, the free build with its parameters bound to the stored constants has the rate of the inlined build -/
theorem rateVal_free_eq_inlined (cfg : Cfg) (sys : Sys) (env : String → R)
    (hkeys : ∀ r₁ ∈ sys.rxns, ∀ r₂ ∈ sys.rxns, ∀ uk, r₁.param.uniqueKey? = some uk → r₂.param.uniqueKey? = some uk →
      r₁.param = r₂.param)
    (henv : ∀ uk k, dget? (uniqueDict (freeOf cfg) sys.rxns) uk = some (some k) → env uk = algebraMap ℚ R k)
    (r : Rxn) (hr : r ∈ sys.rxns)
    (hresI : (resolve (mkVars sys.subst (paramNamesOf (inlinedOf cfg) sys) cfg.subs) r.param).isSome = true)
    (hreac : ∀ j ∈ dkeys r.reac, dmem (mkVars sys.subst (paramNamesOf (inlinedOf cfg) sys) cfg.subs) j = true) :
    rateVal (mkVars sys.subst (paramNamesOf (freeOf cfg) sys) cfg.subs) env r =
      rateVal (mkVars sys.subst (paramNamesOf (inlinedOf cfg) sys) cfg.subs) env r := by
  have hprod : (r.reac.map fun jν => cval (mkVars sys.subst (paramNamesOf (freeOf cfg) sys) cfg.subs) env jν.1 ^ jν.2) =
      (r.reac.map fun jν => cval (mkVars sys.subst (paramNamesOf (inlinedOf cfg) sys) cfg.subs) env jν.1 ^ jν.2) := by
    apply List.map_congr_left
    intro jν hjν
    rw [cval_free_eq_inlined cfg sys env jν.1 (hreac jν.1 (by simpa [dkeys] using ⟨jν.2, hjν⟩))]
  -- the coefficient
  have hcoef : ∀ uk, r.param.uniqueKey? = some uk →
      (∀ kF kI, dget? (mkVars sys.subst (paramNamesOf (freeOf cfg) sys) cfg.subs) uk = some kF →
        dget? (mkVars sys.subst (paramNamesOf (inlinedOf cfg) sys) cfg.subs) uk = some kI → ev env kF = ev env kI) := by
    intro uk _ kF kI hF hI
    have h1 : dmem (mkVars sys.subst (paramNamesOf (inlinedOf cfg) sys) cfg.subs) uk = true := by simp [dmem, hI]
    have := cval_free_eq_inlined cfg sys env uk h1
    simpa [cval, lookup, dgetD, hF, hI] using this
  unfold rateVal
  rw [hprod]
  cases hp : r.param with
  | raw k => simp [resolve]
  | ma k => simp [resolve]
  | key uk =>
    rw [hp] at hresI
    simp only [resolve] at hresI ⊢
    cases hI' : dget? (mkVars sys.subst (paramNamesOf (inlinedOf cfg) sys) cfg.subs) uk with
    | none => simp [hI'] at hresI
    | some kI =>
      have hd : dmem (mkVars sys.subst (paramNamesOf (inlinedOf cfg) sys) cfg.subs) uk = true := by simp [dmem, hI']
      have hc := cval_free_eq_inlined cfg sys env uk hd
      cases hF' : dget? (mkVars sys.subst (paramNamesOf (freeOf cfg) sys) cfg.subs) uk with
      | none =>
        exfalso
        by_cases hm : uk ∈ dkeys cfg.subs
        · rw [dget?_mkVars_subs_indep sys.subst _ sys.subst (paramNamesOf (inlinedOf cfg) sys) cfg.subs hm, hI'] at hF'
          cases hF'
        · have h1 := (dmem_mkVars_not_subs sys.subst _ cfg.subs hm).mp hd
          have h2 : uk ∈ paramNamesOf (freeOf cfg) sys ∨ uk ∈ sys.subst :=
            h1.elim (fun h => Or.inl (paramNames_inlined_subset cfg sys h)) Or.inr
          rw [dget?_mkVars_not_subs _ _ _ hm, if_pos h2] at hF'
          cases hF'
      | some kF => simp only [hcoef uk (by simp [hp, RateParam.uniqueKey?]) kF kI hF' hI']
  | sym uk =>
    rw [hp] at hresI
    simp only [resolve] at hresI ⊢
    cases hI' : dget? (mkVars sys.subst (paramNamesOf (inlinedOf cfg) sys) cfg.subs) uk with
    | none => simp [hI'] at hresI
    | some kI =>
      have hd : dmem (mkVars sys.subst (paramNamesOf (inlinedOf cfg) sys) cfg.subs) uk = true := by simp [dmem, hI']
      cases hF' : dget? (mkVars sys.subst (paramNamesOf (freeOf cfg) sys) cfg.subs) uk with
      | none =>
        exfalso
        by_cases hm : uk ∈ dkeys cfg.subs
        · rw [dget?_mkVars_subs_indep sys.subst _ sys.subst (paramNamesOf (inlinedOf cfg) sys) cfg.subs hm, hI'] at hF'
          cases hF'
        · have h1 := (dmem_mkVars_not_subs sys.subst _ cfg.subs hm).mp hd
          have h2 : uk ∈ paramNamesOf (freeOf cfg) sys ∨ uk ∈ sys.subst :=
            h1.elim (fun h => Or.inl (paramNames_inlined_subset cfg sys h)) Or.inr
          rw [dget?_mkVars_not_subs _ _ _ hm, if_pos h2] at hF'
          cases hF'
      | some kF => simp only [hcoef uk (by simp [hp, RateParam.uniqueKey?]) kF kI hF' hI']
  | named uk k =>
    simp only [resolve]
    cases hI' : dget? (mkVars sys.subst (paramNamesOf (inlinedOf cfg) sys) cfg.subs) uk with
    | some kI =>
      have hd : dmem (mkVars sys.subst (paramNamesOf (inlinedOf cfg) sys) cfg.subs) uk = true := by simp [dmem, hI']
      cases hF' : dget? (mkVars sys.subst (paramNamesOf (freeOf cfg) sys) cfg.subs) uk with
      | none =>
        exfalso
        by_cases hm : uk ∈ dkeys cfg.subs
        · rw [dget?_mkVars_subs_indep sys.subst _ sys.subst (paramNamesOf (inlinedOf cfg) sys) cfg.subs hm, hI'] at hF'
          cases hF'
        · have h1 := (dmem_mkVars_not_subs sys.subst _ cfg.subs hm).mp hd
          have h2 : uk ∈ paramNamesOf (freeOf cfg) sys ∨ uk ∈ sys.subst :=
            h1.elim (fun h => Or.inl (paramNames_inlined_subset cfg sys h)) Or.inr
          rw [dget?_mkVars_not_subs _ _ _ hm, if_pos h2] at hF'
          cases hF'
      | some kF => simp only [hcoef uk (by simp [hp, RateParam.uniqueKey?]) kF kI hF' hI']
    | none =>
      -- inlined: the stored constant; free: the symbol `uk`, bound to the stored constant
      have hm : uk ∉ dkeys cfg.subs := by
        intro hm
        obtain ⟨x, hx, hxk⟩ := mem_dkeys_iff_exists.mp hm
        have : dmem (mkVars sys.subst (paramNamesOf (inlinedOf cfg) sys) cfg.subs) uk = true := by
          unfold dmem mkVars
          have hex : ∃ y ∈ cfg.subs, (fun kv : String × ℚ => kv.1) y = uk := ⟨x, hx, hxk⟩
          rw [dget?_foldl_dset_indep (fun kv : String × ℚ => kv.1) (fun kv => (Poly.const kv.2 : Poly String)) cfg.subs _ [] uk hex]
          have : uk ∈ dkeys (cfg.subs.foldl (fun d kv => dset d kv.1 (Poly.const kv.2 : Poly String)) []) := by
            have key : ∀ (l : List (String × ℚ)) (d : List (String × Poly String)), (∃ y ∈ l, y.1 = uk) →
                uk ∈ dkeys (l.foldl (fun d kv => dset d kv.1 (Poly.const kv.2 : Poly String)) d) := by
              intro l
              induction l with
              | nil => intro d ⟨y, hy, _⟩; simp at hy
              | cons a t ih =>
                intro d ⟨y, hy, hyk⟩
                rw [List.foldl_cons]
                by_cases ht : ∃ y ∈ t, y.1 = uk
                · exact ih _ ht
                · have hne : ∀ y ∈ t, y.1 ≠ uk := fun y hy e => ht ⟨y, hy, e⟩
                  rw [← dmem_iff]; unfold dmem
                  rw [dget?_foldl_dset_of_not_mem (fun kv : String × ℚ => kv.1) _ t _ uk hne]
                  rcases List.mem_cons.mp hy with rfl | hy
                  · simp [dget?_dset, hyk]
                  · exact absurd hyk (hne y hy)
            exact key cfg.subs [] hex
          rw [← dmem_iff] at this; exact this
        simp [dmem, hI'] at this
      have hreg : uk ∈ dkeys (uniqueDict (freeOf cfg) sys.rxns) :=
        (mem_uniqueDict (freeOf cfg) rfl sys.rxns uk).mpr ⟨r, hr, by simp [hp, RateParam.uniqueKey?], by
          cases hd : dmem cfg.subs uk
          · rfl
          · exact absurd (dmem_iff.mp hd) hm⟩
      have hps : uk ∈ paramNamesOf (freeOf cfg) sys := (mem_paramNamesOf _ _ _).mpr (Or.inr ⟨rfl, hreg⟩)
      rw [dget?_mkVars_not_subs _ _ _ hm, if_pos (Or.inl hps)]
      simp only [ev_var, ev_const]
      have hval : dget? (uniqueDict (freeOf cfg) sys.rxns) uk = some (some k) := by
        unfold uniqueDict
        simp only [Bool.false_eq_true, if_false]
        have := dget?_foldl_regUnique cfg.subs sys.rxns [] uk (.named uk k)
          (by cases hd : dmem cfg.subs uk
              · rfl
              · exact absurd (dmem_iff.mp hd) hm)
          ⟨r, hr, by simp [hp, RateParam.uniqueKey?]⟩
          (fun r' hr' hk' => by rw [← hp]; exact hkeys r' hr' r hr uk hk' (by simp [hp, RateParam.uniqueKey?]))
        simpa [regValue] using this
      rw [henv uk k hval]

/-! ### with and without substitutions -/

/-- the configuration without the substitutions -/
abbrev unsubstOf (cfg : Cfg) : Cfg := { cfg with subs := [] }

theorem dmem_false_of_not_mem {β : Type} {d : List (String × β)} {k : String} (h : k ∉ dkeys d) : dmem d k = false := by
  cases hd : dmem d k
  · rfl
  · exact absurd (dmem_iff.mp hd) h

theorem mem_oriUk {rxns : List Rxn} {k : String} : k ∈ oriUk rxns ↔ ∃ r ∈ rxns, r.param.uniqueKey? = some k := by
  simp [oriUk, List.mem_filterMap]

theorem paramNames_subs_subset (cfg : Cfg) (hi : cfg.includeParams = false) (sys : Sys) {j : String}
    (h : j ∈ paramNamesOf cfg sys) : j ∈ paramNamesOf (unsubstOf cfg) sys := by
  rw [mem_paramNamesOf] at h ⊢
  rcases h with h | ⟨_, h⟩
  · left
    rw [mem_allPk] at h ⊢
    exact ⟨h.1, by simp [dkeys], h.2.2⟩
  · right
    refine ⟨hi, ?_⟩
    rw [mem_uniqueDict cfg hi] at h
    rw [mem_uniqueDict (unsubstOf cfg) hi]
    obtain ⟨r, hr, hk, _⟩ := h
    exact ⟨r, hr, hk, by simp [dmem]⟩

/-- a substituted key is a free symbol of the build without substitutions -/
theorem subs_key_is_param (cfg : Cfg) (hi : cfg.includeParams = false) (sys : Sys)
    (hS : ∀ kv ∈ cfg.subs, kv.1 ∈ cstrKeys (cstrOf cfg.cstr sys.subst) ∨ kv.1 ∈ oriUk sys.rxns)
    (htime : "time" ∉ dkeys cfg.subs) {j : String} (hj : j ∈ dkeys cfg.subs) : j ∈ paramNamesOf (unsubstOf cfg) sys := by
  obtain ⟨x, hx, hxj⟩ := mem_dkeys_iff_exists.mp hj
  rw [mem_paramNamesOf]
  rcases hS x hx with h | h
  · left
    rw [mem_allPk]
    exact ⟨hxj ▸ h, by simp [dkeys], fun e => htime (e ▸ hj)⟩
  · right
    refine ⟨hi, ?_⟩
    rw [mem_uniqueDict (unsubstOf cfg) hi]
    obtain ⟨r, hr, hk⟩ := mem_oriUk.mp h
    exact ⟨r, hr, hxj ▸ hk, by simp [dmem]⟩

theorem defined_unsubst (cfg : Cfg) (hi : cfg.includeParams = false) (sys : Sys)
    (hS : ∀ kv ∈ cfg.subs, kv.1 ∈ cstrKeys (cstrOf cfg.cstr sys.subst) ∨ kv.1 ∈ oriUk sys.rxns)
    (htime : "time" ∉ dkeys cfg.subs) {j : String}
    (hj : dmem (mkVars sys.subst (paramNamesOf cfg sys) cfg.subs) j = true) :
    dget? (mkVars sys.subst (paramNamesOf (unsubstOf cfg) sys) []) j = some (Poly.var j) := by
  rw [dget?_mkVars_not_subs _ _ _ (by simp [dkeys])]
  by_cases hm : j ∈ dkeys cfg.subs
  · rw [if_pos (Or.inl (subs_key_is_param cfg hi sys hS htime hm))]
  · have := (dmem_mkVars_not_subs _ _ _ hm).mp hj
    rw [if_pos (this.elim (fun h => Or.inl (paramNames_subs_subset cfg hi sys h)) Or.inr)]

/-- every key the substituted build defines has the same value in the build without substitutions, once the substituted
    symbols are bound to their values -/
theorem cval_subs_eq (cfg : Cfg) (hi : cfg.includeParams = false) (sys : Sys) (hnd : (dkeys cfg.subs).Nodup)
    (hS : ∀ kv ∈ cfg.subs, kv.1 ∈ cstrKeys (cstrOf cfg.cstr sys.subst) ∨ kv.1 ∈ oriUk sys.rxns)
    (htime : "time" ∉ dkeys cfg.subs) (env : String → R)
    (henv : ∀ k v, dget? cfg.subs k = some v → env k = algebraMap ℚ R v) {j : String}
    (hj : dmem (mkVars sys.subst (paramNamesOf cfg sys) cfg.subs) j = true) :
    cval (mkVars sys.subst (paramNamesOf cfg sys) cfg.subs) env j =
      cval (mkVars sys.subst (paramNamesOf (unsubstOf cfg) sys) []) env j := by
  unfold cval lookup dgetD
  rw [defined_unsubst cfg hi sys hS htime hj]
  simp only [ev_var]
  by_cases hm : j ∈ dkeys cfg.subs
  · cases hv : dget? cfg.subs j with
    | none => exact absurd hm (dget?_eq_none_iff.mp hv)
    | some v => rw [dget?_mkVars_subs _ _ _ hnd hv, henv j v hv]; simp only [ev_const]
  · have := (dmem_mkVars_not_subs _ _ _ hm).mp hj
    rw [dget?_mkVars_not_subs _ _ _ hm, if_pos this]
    simp only [ev_var]

theorem rateVal_subs_eq (cfg : Cfg) (hi : cfg.includeParams = false) (sys : Sys) (hnd : (dkeys cfg.subs).Nodup)
    (hS : ∀ kv ∈ cfg.subs, kv.1 ∈ cstrKeys (cstrOf cfg.cstr sys.subst) ∨ kv.1 ∈ oriUk sys.rxns)
    (htime : "time" ∉ dkeys cfg.subs) (env : String → R)
    (henv : ∀ k v, dget? cfg.subs k = some v → env k = algebraMap ℚ R v) (r : Rxn) (hr : r ∈ sys.rxns)
    (hres : (resolve (mkVars sys.subst (paramNamesOf cfg sys) cfg.subs) r.param).isSome = true)
    (hreac : ∀ j ∈ dkeys r.reac, dmem (mkVars sys.subst (paramNamesOf cfg sys) cfg.subs) j = true) :
    rateVal (mkVars sys.subst (paramNamesOf cfg sys) cfg.subs) env r =
      rateVal (mkVars sys.subst (paramNamesOf (unsubstOf cfg) sys) []) env r := by
  have hprod : (r.reac.map fun jν => cval (mkVars sys.subst (paramNamesOf cfg sys) cfg.subs) env jν.1 ^ jν.2) =
      (r.reac.map fun jν => cval (mkVars sys.subst (paramNamesOf (unsubstOf cfg) sys) []) env jν.1 ^ jν.2) := by
    apply List.map_congr_left
    intro jν hjν
    rw [cval_subs_eq cfg hi sys hnd hS htime env henv (hreac jν.1 (by simpa [dkeys] using ⟨jν.2, hjν⟩))]
  -- a key that the substituted build resolves through `variables`
  have hkey : ∀ uk kS, dget? (mkVars sys.subst (paramNamesOf cfg sys) cfg.subs) uk = some kS →
      dget? (mkVars sys.subst (paramNamesOf (unsubstOf cfg) sys) []) uk = some (Poly.var uk) ∧ ev env kS = env uk := by
    intro uk kS hk
    have hd : dmem (mkVars sys.subst (paramNamesOf cfg sys) cfg.subs) uk = true := by simp [dmem, hk]
    refine ⟨defined_unsubst cfg hi sys hS htime hd, ?_⟩
    have := cval_subs_eq cfg hi sys hnd hS htime env henv hd
    simpa [cval, lookup, dgetD, hk, defined_unsubst cfg hi sys hS htime hd, ev_var] using this
  unfold rateVal
  rw [hprod]
  cases hp : r.param with
  | raw k => simp [resolve]
  | ma k => simp [resolve]
  | key uk =>
    rw [hp] at hres
    simp only [resolve] at hres ⊢
    cases hk : dget? (mkVars sys.subst (paramNamesOf cfg sys) cfg.subs) uk with
    | none => simp [hk] at hres
    | some kS => obtain ⟨h1, h2⟩ := hkey uk kS hk; simp only [h1, h2, ev_var]
  | sym uk =>
    rw [hp] at hres
    simp only [resolve] at hres ⊢
    cases hk : dget? (mkVars sys.subst (paramNamesOf cfg sys) cfg.subs) uk with
    | none => simp [hk] at hres
    | some kS => obtain ⟨h1, h2⟩ := hkey uk kS hk; simp only [h1, h2, ev_var]
  | named uk k =>
    simp only [resolve]
    cases hk : dget? (mkVars sys.subst (paramNamesOf cfg sys) cfg.subs) uk with
    | some kS => obtain ⟨h1, h2⟩ := hkey uk kS hk; simp only [h1, h2, ev_var]
    | none =>
      exfalso
      have hm : uk ∉ dkeys cfg.subs := by
        intro hm
        cases hv : dget? cfg.subs uk with
        | none => exact absurd hm (dget?_eq_none_iff.mp hv)
        | some v => rw [dget?_mkVars_subs _ _ _ hnd hv] at hk; cases hk
      have hreg : uk ∈ paramNamesOf cfg sys :=
        (mem_paramNamesOf _ _ _).mpr (Or.inr ⟨hi, (mem_uniqueDict cfg hi sys.rxns uk).mpr
          ⟨r, hr, by simp [hp, RateParam.uniqueKey?], dmem_false_of_not_mem hm⟩⟩)
      rw [dget?_mkVars_not_subs _ _ _ hm, if_pos (Or.inl hreg)] at hk
      cases hk

/-! ### the two builders -/

theorem resolve_congr {v₁ v₂ : List (String × Poly String)} (h : ∀ k, dget? v₁ k = dget? v₂ k) (p : RateParam) :
    resolve v₁ p = resolve v₂ p := by
  cases p <;> simp [resolve, h]

theorem resolveAll_congr {v₁ v₂ : List (String × Poly String)} (h : ∀ k, dget? v₁ k = dget? v₂ k) (rxns : List Rxn) :
    resolveAll v₁ rxns = resolveAll v₂ rxns := by
  induction rxns with
  | nil => rfl
  | cons r t ih =>
    have hd : dmem v₁ = dmem v₂ := by funext k; simp [dmem, h]
    simp only [resolveAll, resolve_congr h, ih, hd]

theorem lookup_congr {v₁ v₂ : List (String × Poly String)} (h : ∀ k, dget? v₁ k = dget? v₂ k) : lookup v₁ = lookup v₂ := by
  funext k; simp [lookup, dgetD, h]

theorem mem_collectKeys_nil (p : String) :
    ∀ (rxns : List Rxn) (ks : List String), collectKeys [] rxns = .ok ks →
      (p ∈ ks ↔ ∃ r ∈ rxns, r.param.uniqueKey? = some p) := by
  intro rxns
  induction rxns with
  | nil => intro ks h; simp only [collectKeys, Except.ok.injEq] at h; subst h; simp
  | cons r t ih =>
    intro ks h
    unfold collectKeys at h
    split at h
    · cases h
    next k1 hk1 =>
    split at h
    · cases h
    next out hout =>
    simp only [Except.ok.injEq] at h
    subst h
    rw [List.mem_append, ih out hout]
    have hk : p ∈ k1 ↔ r.param.uniqueKey? = some p := by
      cases hp : r.param with
      | raw k => rw [hp] at hk1; simp [keysOfParam] at hk1
      | ma k => rw [hp] at hk1; simp only [keysOfParam, Except.ok.injEq] at hk1; subst hk1; simp [RateParam.uniqueKey?]
      | named uk k =>
        rw [hp] at hk1; simp only [keysOfParam, Except.ok.injEq] at hk1; subst hk1
        simp [RateParam.uniqueKey?, eq_comm]
      | key uk =>
        rw [hp] at hk1; simp only [keysOfParam, dmem, dget?_nil, Option.isSome_none, Bool.false_eq_true, if_false, Except.ok.injEq] at hk1
        subst hk1; simp [RateParam.uniqueKey?, eq_comm]
      | sym uk =>
        rw [hp] at hk1; simp only [keysOfParam, Except.ok.injEq] at hk1; subst hk1
        simp [RateParam.uniqueKey?, eq_comm]
    rw [hk]
    constructor
    · rintro (h | ⟨r', hr', h⟩)
      · exact ⟨r, by simp, h⟩
      · exact ⟨r', List.mem_cons_of_mem _ hr', h⟩
    · rintro ⟨r', hr', h⟩
      rcases List.mem_cons.mp hr' with rfl | hr'
      · exact Or.inl h
      · exact Or.inr ⟨r', hr', h⟩

/-! ### registration order -/

/-- keys in the order of their first occurrence (what successive `d[k] = …` on an ordered dict produce) -/
def firstOccurrencesFrom (acc : List String) (l : List String) : List String :=
  l.foldl (fun acc k => if k ∈ acc then acc else acc ++ [k]) acc

theorem dkeys_dset {β : Type} (d : List (String × β)) (k : String) (v : β) :
    dkeys (dset d k v) = if k ∈ dkeys d then dkeys d else dkeys d ++ [k] := by
  by_cases h : k ∈ dkeys d
  · rw [if_pos h]
    induction d with
    | nil => simp [dkeys] at h
    | cons a t ih =>
      obtain ⟨k', v'⟩ := a
      unfold dset
      by_cases hk : k' = k
      · simp [hk, dkeys]
      · have : k ∈ dkeys t := by
          simp only [dkeys, List.map_cons, List.mem_cons] at h
          rcases h with h | h
          · exact absurd h.symm hk
          · exact h
        simp only [hk, if_false, dkeys, List.map_cons]
        have := ih this
        simp only [dkeys] at this
        rw [this]
  · rw [if_neg h, dset_of_not_mem h]
    simp [dkeys]

theorem dkeys_regUnique (subs : List (String × ℚ)) (u : List (String × Option ℚ)) (p : RateParam) :
    dkeys (regUnique subs u p) =
      firstOccurrencesFrom (dkeys u) ((p.uniqueKey?.toList).filter fun k => !(dmem subs k)) := by
  cases p with
  | raw k => rfl
  | ma k => rfl
  | named uk k =>
    simp only [regUnique, RateParam.uniqueKey?, Option.toList_some]
    cases h : dmem subs uk <;> simp [firstOccurrencesFrom, h, dkeys_dset]
  | key uk =>
    simp only [regUnique, RateParam.uniqueKey?, Option.toList_some]
    cases h : dmem subs uk <;> simp [firstOccurrencesFrom, h, dkeys_dset]
  | sym uk =>
    simp only [regUnique, RateParam.uniqueKey?, Option.toList_some]
    cases h : dmem subs uk <;> simp [firstOccurrencesFrom, h, dkeys_dset]

theorem firstOccurrencesFrom_append (acc l₁ l₂ : List String) :
    firstOccurrencesFrom acc (l₁ ++ l₂) = firstOccurrencesFrom (firstOccurrencesFrom acc l₁) l₂ := by
  simp [firstOccurrencesFrom, List.foldl_append]

theorem dkeys_foldl_regUnique (subs : List (String × ℚ)) (rxns : List Rxn) (u : List (String × Option ℚ)) :
    dkeys (rxns.foldl (fun u r => regUnique subs u r.param) u) =
      firstOccurrencesFrom (dkeys u) ((rxns.filterMap fun r => r.param.uniqueKey?).filter fun k => !(dmem subs k)) := by
  induction rxns generalizing u with
  | nil => rfl
  | cons r t ih =>
    rw [List.foldl_cons, ih, dkeys_regUnique]
    have : ((r :: t).filterMap fun r => r.param.uniqueKey?) = r.param.uniqueKey?.toList ++ t.filterMap fun r => r.param.uniqueKey? := by
      cases h : r.param.uniqueKey? <;> simp [List.filterMap_cons, h]
    rw [this, List.filter_append, firstOccurrencesFrom_append]

theorem nodup_firstOccurrencesFrom (acc l : List String) (h : acc.Nodup) : (firstOccurrencesFrom acc l).Nodup := by
  induction l generalizing acc with
  | nil => exact h
  | cons a t ih =>
    simp only [firstOccurrencesFrom, List.foldl_cons]
    by_cases ha : a ∈ acc
    · simp only [ha, if_true]; exact ih acc h
    · simp only [ha, if_false]
      apply ih
      rw [List.nodup_append]
      exact ⟨h, by simp, fun x hx y hy => by simp at hy; subst hy; exact fun e => ha (e ▸ hx)⟩

theorem mem_firstOccurrencesFrom (acc l : List String) (s : String) :
    s ∈ firstOccurrencesFrom acc l ↔ s ∈ acc ∨ s ∈ l := by
  induction l generalizing acc with
  | nil => simp [firstOccurrencesFrom]
  | cons a t ih =>
    simp only [firstOccurrencesFrom, List.foldl_cons]
    by_cases ha : a ∈ acc
    · simp only [ha, if_true]
      have := ih acc
      simp only [firstOccurrencesFrom] at this
      rw [this]
      constructor
      · rintro (h | h)
        · exact Or.inl h
        · exact Or.inr (List.mem_cons_of_mem _ h)
      · rintro (h | h)
        · exact Or.inl h
        · rcases List.mem_cons.mp h with rfl | h
          · exact Or.inl ha
          · exact Or.inr h
    · simp only [ha, if_false]
      have := ih (acc ++ [a])
      simp only [firstOccurrencesFrom] at this
      rw [this]
      simp only [List.mem_append, List.mem_singleton, List.mem_cons]
      tauto

end Compare

end ChemModel.OdeBuild

namespace ChemModel.OdeBuild
open ChemModel.Kinetics

/-! ## G. the explicit form: `Nᵀ·r` in terms of the user's data -/
section Explicit
variable {R : Type} [CommRing R] [Algebra ℚ R]

/-- **No name is used twice across the name spaces that `variables` merges** (decidable):
    every active reactant is a substance (what `ReactionSystem`'s default check `substance_keys` enforces);
    no unique key, no substitution key and no CSTR parameter key equals a substance key; no unique key equals a CSTR
    parameter key.  `subsKeys` are the keys of `substitutions` (`get_odesys`) / `parameter_expressions` (`_create_odesys`). -/
def noCapture (sys : Sys) (subsKeys : List String) (cstr : Bool) : Bool :=
  (sys.rxns.all fun r => (dkeys r.reac).all fun j => decide (j ∈ sys.subst)) &&
  ((oriUk sys.rxns).all fun uk => !(decide (uk ∈ sys.subst))) &&
  (subsKeys.all fun k => !(decide (k ∈ sys.subst))) &&
  ((cstrKeys (cstrOf cstr sys.subst)).all fun k => !(decide (k ∈ sys.subst))) &&
  ((oriUk sys.rxns).all fun uk => !(decide (uk ∈ cstrKeys (cstrOf cstr sys.subst))))

theorem noCapture_iff (sys : Sys) (subsKeys : List String) (cstr : Bool) :
    noCapture sys subsKeys cstr = true ↔
      (∀ r ∈ sys.rxns, ∀ j ∈ dkeys r.reac, j ∈ sys.subst) ∧ (∀ uk ∈ oriUk sys.rxns, uk ∉ sys.subst) ∧
      (∀ k ∈ subsKeys, k ∉ sys.subst) ∧ (∀ k ∈ cstrKeys (cstrOf cstr sys.subst), k ∉ sys.subst) ∧
      (∀ uk ∈ oriUk sys.rxns, uk ∉ cstrKeys (cstrOf cstr sys.subst)) := by
  simp [noCapture, and_assoc]

/-- value of a parameter key: the substituted value if the key is substituted, else the binding of the free symbol -/
def pval (subs : List (String × ℚ)) (env : String → R) (k : String) : R :=
  match dget? subs k with
  | some v => algebraMap ℚ R v
  | none => env k

/-- **the rate constant of a reaction in the user's terms**: a plain number is itself; a named constant is its substituted
    value if substituted, else its STORED constant; a value-less key is its substituted value, else the binding of the free
    parameter of that name -/
def kOf (subs : List (String × ℚ)) (env : String → R) : RateParam → R
  | .raw k => algebraMap ℚ R k
  | .ma k => algebraMap ℚ R k
  | .named uk k =>
    match dget? subs uk with
    | some v => algebraMap ℚ R v
    | none => algebraMap ℚ R k
  | .key uk => pval subs env uk
  | .sym uk => pval subs env uk

/-- the kinetic model of the user's data: row `s` of `Nᵀ·r` with `r_r = k_r · ∏ c_j^ν`, plus the feed term -/
def kineticRhs (subs : List (String × ℚ)) (cstr : Bool) (env : String → R) (rxns : List Rxn) (s : String) : R :=
  (rxns.map fun r => (netOf r s : R) * (kOf subs env r.param * (r.reac.map fun jν => env jν.1 ^ jν.2).prod)).sum +
    (if cstr = true then pval subs env "feedratio" * (pval subs env ("fc_" ++ s) - env s) else 0)

theorem cval_eq_pval (names ps : List String) (subs : List (String × ℚ)) (hnd : (dkeys subs).Nodup) (env : String → R)
    {k : String} (hk : dmem (mkVars names ps subs) k = true) : cval (mkVars names ps subs) env k = pval subs env k := by
  unfold cval lookup dgetD pval
  cases hv : dget? subs k with
  | some v => simp only [dget?_mkVars_subs names ps subs hnd hv, ev_const]
  | none =>
    have hm : k ∉ dkeys subs := dget?_eq_none_iff.mp hv
    have := (dmem_mkVars_not_subs names ps subs hm).mp hk
    simp only [dget?_mkVars_not_subs names ps subs hm, if_pos this, ev_var]

theorem pval_of_not_subs (subs : List (String × ℚ)) (env : String → R) {k : String} (h : k ∉ dkeys subs) :
    pval subs env k = env k := by
  unfold pval; rw [dget?_eq_none_iff.mpr h]

/-- reaction by reaction: the rate read through `variables` is the rate in the user's terms -/
theorem rateVal_explicit (names ps : List String) (subs : List (String × ℚ)) (hnd : (dkeys subs).Nodup) (env : String → R)
    (r : Rxn) (hreacN : ∀ j ∈ dkeys r.reac, j ∈ names) (hsubsN : ∀ k ∈ dkeys subs, k ∉ names)
    (hukN : ∀ uk, r.param.uniqueKey? = some uk → uk ∉ names)
    (hbind : ∀ uk k, r.param = .named uk k → uk ∉ dkeys subs → uk ∈ ps → env uk = algebraMap ℚ R k)
    (hres : (resolve (mkVars names ps subs) r.param).isSome = true) :
    rateVal (mkVars names ps subs) env r = kOf subs env r.param * (r.reac.map fun jν => env jν.1 ^ jν.2).prod := by
  have hprod : (r.reac.map fun jν => cval (mkVars names ps subs) env jν.1 ^ jν.2) = (r.reac.map fun jν => env jν.1 ^ jν.2) := by
    apply List.map_congr_left
    intro jν hjν
    have hj : jν.1 ∈ names := hreacN jν.1 (by simpa [dkeys] using ⟨jν.2, hjν⟩)
    have hns : jν.1 ∉ dkeys subs := fun h => hsubsN _ h hj
    have hd : dmem (mkVars names ps subs) jν.1 = true := (dmem_mkVars_not_subs names ps subs hns).mpr (Or.inr hj)
    rw [cval_eq_pval names ps subs hnd env hd, pval_of_not_subs subs env hns]
  unfold rateVal
  rw [hprod]
  have hkey : ∀ uk, r.param.uniqueKey? = some uk → ∀ p, dget? (mkVars names ps subs) uk = some p →
      ev env p = pval subs env uk ∧ (uk ∉ dkeys subs → uk ∈ ps) := by
    intro uk huk p hp
    have hd : dmem (mkVars names ps subs) uk = true := by simp [dmem, hp]
    have := cval_eq_pval names ps subs hnd env hd
    refine ⟨by simpa [cval, lookup, dgetD, hp] using this, fun hns => ?_⟩
    rcases (dmem_mkVars_not_subs names ps subs hns).mp hd with h | h
    · exact h
    · exact absurd h (hukN uk huk)
  cases hp : r.param with
  | raw k => simp [resolve, kOf, ev_const]
  | ma k => simp [resolve, kOf, ev_const]
  | key uk =>
    rw [hp] at hres
    simp only [resolve] at hres ⊢
    cases hk : dget? (mkVars names ps subs) uk with
    | none => simp [hk] at hres
    | some p => simp only [kOf, (hkey uk (by simp [hp, RateParam.uniqueKey?]) p hk).1]
  | sym uk =>
    rw [hp] at hres
    simp only [resolve] at hres ⊢
    cases hk : dget? (mkVars names ps subs) uk with
    | none => simp [hk] at hres
    | some p => simp only [kOf, (hkey uk (by simp [hp, RateParam.uniqueKey?]) p hk).1]
  | named uk k =>
    simp only [resolve, kOf]
    cases hk : dget? (mkVars names ps subs) uk with
    | some p =>
      obtain ⟨h1, h2⟩ := hkey uk (by simp [hp, RateParam.uniqueKey?]) p hk
      simp only [h1, pval]
      cases hv : dget? subs uk with
      | some v => rfl
      | none =>
        have hns : uk ∉ dkeys subs := dget?_eq_none_iff.mp hv
        simp only [hbind uk k hp hns (h2 hns)]
    | none =>
      cases hv : dget? subs uk with
      | some v => rw [dget?_mkVars_subs names ps subs hnd hv] at hk; cases hk
      | none => simp only [ev_const]

end Explicit

/-! ### which symbols are free (lemmas about `mkVars` / `resolve`; moved out of Props: model-internal) -/
section Free
variable {R : Type} [CommRing R] [Algebra ℚ R]


/-- **The `variables` dict**: a substituted key is its constant; any other key that is a substance or a parameter name is the
    symbol of that name (bound by `env`); nothing else is defined.  (`subs` is a Python dict: its keys are distinct.) -/
theorem variables_spec (names ps : List String) (subs : List (String × ℚ)) (hnd : (dkeys subs).Nodup) (env : String → R)
    (k : String) :
    (∀ v, dget? subs k = some v → cval (mkVars names ps subs) env k = algebraMap ℚ R v) ∧
      (k ∉ dkeys subs → (k ∈ ps ∨ k ∈ names) → cval (mkVars names ps subs) env k = env k) ∧
      (k ∉ dkeys subs → ¬ (k ∈ ps ∨ k ∈ names) → dmem (mkVars names ps subs) k = false) := by
  refine ⟨?_, ?_, ?_⟩
  · intro v hv
    simp only [cval, lookup, dgetD, dget?_mkVars_subs names ps subs hnd hv, ev_const]
  · intro hk hm
    simp only [cval, lookup, dgetD, dget?_mkVars_not_subs names ps subs hk, if_pos hm, ev_var]
  · intro hk hm
    simp only [dmem, dget?_mkVars_not_subs names ps subs hk, if_neg hm, Option.isSome_none]

/-- **How a rate constant enters** (`Expr.arg` on the `variables` dict), by kind of parameter:
    a plain number is inlined; a named constant `MassAction([k], unique_keys=[uk])` is the substituted value if `uk` is
    substituted, else the free symbol `uk` if `uk` is exposed as a parameter, else its stored constant `k`;
    a value-less key (string parameter, `Symbol` argument) is the substituted value, else the free symbol, else an error. -/
theorem rate_coeff_spec (names ps : List String) (subs : List (String × ℚ)) (hnd : (dkeys subs).Nodup) (uk : String) (k : ℚ) :
    resolve (mkVars names ps subs) (.raw k) = some (Poly.const k) ∧
    resolve (mkVars names ps subs) (.ma k) = some (Poly.const k) ∧
    (∀ v, dget? subs uk = some v →
      resolve (mkVars names ps subs) (.named uk k) = some (Poly.const v) ∧
      resolve (mkVars names ps subs) (.key uk) = some (Poly.const v) ∧
      resolve (mkVars names ps subs) (.sym uk) = some (Poly.const v)) ∧
    (uk ∉ dkeys subs → (uk ∈ ps ∨ uk ∈ names) →
      resolve (mkVars names ps subs) (.named uk k) = some (Poly.var uk) ∧
      resolve (mkVars names ps subs) (.key uk) = some (Poly.var uk) ∧
      resolve (mkVars names ps subs) (.sym uk) = some (Poly.var uk)) ∧
    (uk ∉ dkeys subs → ¬ (uk ∈ ps ∨ uk ∈ names) →
      resolve (mkVars names ps subs) (.named uk k) = some (Poly.const k) ∧
      resolve (mkVars names ps subs) (.key uk) = none ∧
      resolve (mkVars names ps subs) (.sym uk) = none) := by
  refine ⟨rfl, rfl, ?_, ?_, ?_⟩
  · intro v hv
    simp [resolve, dget?_mkVars_subs names ps subs hnd hv]
  · intro h1 h2
    simp [resolve, dget?_mkVars_not_subs names ps subs h1, h2]
  · intro h1 h2
    simp [resolve, dget?_mkVars_not_subs names ps subs h1, h2]

end Free

/-! ## H. when `get_odesys` accepts -/
section Accept

/-- all species a reaction mentions (`Reaction.keys()`) -/
def speciesOf (r : Rxn) : List String :=
  dedupKeys (dkeys r.reac ++ dkeys r.prod ++ dkeys r.inactReac ++ dkeys r.inactProd)

theorem fc_ne_time (s : String) : "fc_" ++ s ≠ "time" := by
  intro h
  have := congrArg String.toList h
  simp at this

theorem time_not_cstrKey (b : Bool) (subst : List String) : "time" ∉ cstrKeys (cstrOf b subst) := by
  cases b with
  | false => simp [cstrOf, cstrKeys]
  | true =>
    simp only [cstrOf, if_true, cstrKeys, List.map_map, List.mem_cons, List.mem_map, Function.comp_def, not_or, not_exists, not_and]
    exact ⟨by decide, fun s _ h => fc_ne_time s h⟩

theorem resolveAll_succeeds (vars : List (String × Poly String)) :
    ∀ (l : List Rxn), (∀ r ∈ l, (resolve vars r.param).isSome = true ∧ ∀ j ∈ dkeys r.reac, dmem vars j = true) →
      ∃ rs, resolveAll vars l = some rs ∧ ∀ s, (∃ r ∈ rs, s ∈ rxnKeys r) ↔ (∃ r ∈ l, s ∈ speciesOf r) := by
  intro l
  induction l with
  | nil => intro _; exact ⟨[], rfl, by simp⟩
  | cons r t ih =>
    intro h
    obtain ⟨rs, hrs, hk⟩ := ih (fun r' hr' => h r' (List.mem_cons_of_mem _ hr'))
    obtain ⟨h1, h2⟩ := h r (by simp)
    cases hp : resolve vars r.param with
    | none => simp [hp] at h1
    | some k =>
      refine ⟨toReaction r k :: rs, ?_, ?_⟩
      · have hall : (dkeys r.reac).all (dmem vars) = true := List.all_eq_true.mpr h2
        simp [resolveAll, hp, hall, hrs]
      · intro s
        simp only [List.mem_cons, exists_eq_or_imp, hk]
        rfl

theorem dkeys_dacc {β : Type} [Add β] (d : List (String × β)) (k : String) (v : β) :
    dkeys (dacc d k v) = if k ∈ dkeys d then dkeys d else dkeys d ++ [k] := by
  induction d with
  | nil => simp [dacc, dkeys]
  | cons a t ih =>
    obtain ⟨k', v'⟩ := a
    unfold dacc
    by_cases hk : k' = k
    · simp [hk, dkeys]
    · have hk' : ¬ k = k' := fun e => hk e.symm
      simp only [hk, if_false, dkeys, List.map_cons, List.mem_cons, hk', false_or] at ih ⊢
      rw [ih]
      by_cases h : k ∈ List.map Prod.fst t <;> simp [h]

theorem nodup_dkeys_dacc {β : Type} [Add β] {d : List (String × β)} (h : (dkeys d).Nodup) (k : String) (v : β) :
    (dkeys (dacc d k v)).Nodup := by
  rw [dkeys_dacc]
  split
  · exact h
  · next hk =>
    rw [List.nodup_append]
    exact ⟨h, by simp, fun a ha b hb => by simp at hb; subst hb; exact fun e => hk (e ▸ ha)⟩

theorem nodup_dkeys_foldl_dacc {β γ : Type} [Add β] (key : γ → String) (val : γ → β) (l : List γ) (d : List (String × β))
    (h : (dkeys d).Nodup) : (dkeys (l.foldl (fun d x => dacc d (key x) (val x)) d)).Nodup := by
  induction l generalizing d with
  | nil => exact h
  | cons a t ih => exact ih _ (nodup_dkeys_dacc h _ _)

theorem nodup_dkeys_sysRates {β : Type} [Add β] [Sub β] [Mul β] [NatCast β] [IntCast β] (vars : String → β)
    (rs : List (Reaction String β)) (keys? : Option (List String)) (cstr? : Option (Cstr String)) :
    (dkeys (sysRates vars rs keys? cstr?)).Nodup := by
  have h0 : (dkeys (sysRatesNoFeed vars rs keys?)).Nodup := by
    unfold sysRatesNoFeed
    have key : ∀ (l : List (Reaction String β)) (d : List (String × β)), (dkeys d).Nodup →
        (dkeys (l.foldl (fun result r => accumulate result (rxnRate vars r (keysFor keys? r))) d)).Nodup := by
      intro l
      induction l with
      | nil => intro d h; exact h
      | cons r t ih =>
        intro d h
        exact ih _ (nodup_dkeys_foldl_dacc (fun kv : String × β => kv.1) (fun kv => kv.2) _ d h)
    exact key rs [] (by simp [dkeys])
  cases cstr? with
  | none => exact h0
  | some cs => exact nodup_dkeys_foldl_dacc (fun kv : String × String => kv.1) _ cs.fc _ h0

theorem readAll_succeeds (rates : List (String × Poly String)) :
    ∀ (names : List String), (∀ n ∈ names, n ∈ dkeys rates) → ∃ es, readAll rates names = some es := by
  intro names
  induction names with
  | nil => intro _; exact ⟨[], rfl⟩
  | cons n t ih =>
    intro h
    obtain ⟨es, hes⟩ := ih (fun m hm => h m (List.mem_cons_of_mem _ hm))
    cases hd : dget? rates n with
    | none => exact absurd (h n (by simp)) (dget?_eq_none_iff.mp hd)
    | some e => exact ⟨e :: es, by simp [readAll, hd, hes]⟩

/-- **`get_odesys` accepts** every system with at least one reaction in which no name is captured, every species is a
    substance, every substance takes part in some reaction (or the tank is fed), the substitution keys occur in the rate model,
    `'time'` is not used as a name, every value-less key has a value when the constants are inlined, and the constants are
    sympy numbers. -/
theorem buildRhs_accepts (cfg : Cfg) (sys : Sys) (hnd : sys.subst.Nodup) (hsub : (dkeys cfg.subs).Nodup)
    (hne : sys.rxns ≠ []) (hnc : noCapture sys (dkeys cfg.subs) cfg.cstr = true)
    (hspecies : ∀ r ∈ sys.rxns, ∀ j ∈ speciesOf r, j ∈ sys.subst)
    (hpart : cfg.cstr = true ∨ ∀ s ∈ sys.subst, ∃ r ∈ sys.rxns, s ∈ speciesOf r)
    (hsubs : ∀ k ∈ dkeys cfg.subs, k ∈ cstrKeys (cstrOf cfg.cstr sys.subst) ∨ k ∈ oriUk sys.rxns)
    (htime : "time" ∉ sys.subst ∧ "time" ∉ oriUk sys.rxns)
    (hval : cfg.includeParams = true → ∀ r ∈ sys.rxns, ∀ uk, (r.param = .key uk ∨ r.param = .sym uk) → uk ∈ dkeys cfg.subs)
    (hpy : cfg.pyNums = false) : ∃ o, buildRhs cfg sys = .ok o := by
  obtain ⟨hreacN, hukN, hsubsN, hcsN, hukC⟩ := (noCapture_iff _ _ _).mp hnc
  -- parameter names are CSTR keys or unique keys
  have hps : ∀ p ∈ paramNamesOf cfg sys, p ∈ cstrKeys (cstrOf cfg.cstr sys.subst) ∨ p ∈ oriUk sys.rxns := by
    intro p hp
    rcases (mem_paramNamesOf _ _ _).mp hp with h | ⟨hi, h⟩
    · exact Or.inl ((mem_allPk _ _ _).mp h).1
    · obtain ⟨r, hr, hk, _⟩ := (mem_uniqueDict cfg hi _ _).mp h
      exact Or.inr (mem_oriUk.mpr ⟨r, hr, hk⟩)
  have hpsN : ∀ p ∈ paramNamesOf cfg sys, p ∉ sys.subst := fun p hp => (hps p hp).elim (hcsN p) (hukN p)
  -- a key defined in `variables`
  have hdef_subs : ∀ k ∈ dkeys cfg.subs, dmem (mkVars sys.subst (paramNamesOf cfg sys) cfg.subs) k = true := by
    intro k hk
    cases hv : dget? cfg.subs k with
    | none => exact absurd hk (dget?_eq_none_iff.mp hv)
    | some v => simp [dmem, dget?_mkVars_subs _ _ _ hsub hv]
  have hdef_subst : ∀ s ∈ sys.subst, dmem (mkVars sys.subst (paramNamesOf cfg sys) cfg.subs) s = true := fun s hs =>
    (dmem_mkVars_not_subs _ _ _ (fun hk => hsubsN s hk hs)).mpr (Or.inr hs)
  have hdef_cs : ∀ k ∈ cstrKeys (cstrOf cfg.cstr sys.subst), dmem (mkVars sys.subst (paramNamesOf cfg sys) cfg.subs) k = true := by
    intro k hk
    by_cases hm : k ∈ dkeys cfg.subs
    · exact hdef_subs k hm
    · exact (dmem_mkVars_not_subs _ _ _ hm).mpr (Or.inl ((mem_paramNamesOf _ _ _).mpr (Or.inl ((mem_allPk _ _ _).mpr
        ⟨hk, hm, fun e => time_not_cstrKey _ _ (e ▸ hk)⟩))))
  -- the reactions resolve
  have hres : ∀ r ∈ sys.rxns, (resolve (mkVars sys.subst (paramNamesOf cfg sys) cfg.subs) r.param).isSome = true ∧
      ∀ j ∈ dkeys r.reac, dmem (mkVars sys.subst (paramNamesOf cfg sys) cfg.subs) j = true := by
    intro r hr
    refine ⟨?_, fun j hj => hdef_subst j (hreacN r hr j hj)⟩
    have hkeyed : ∀ uk, (r.param = .key uk ∨ r.param = .sym uk) →
        (dget? (mkVars sys.subst (paramNamesOf cfg sys) cfg.subs) uk).isSome = true := by
      intro uk hp
      by_cases hm : uk ∈ dkeys cfg.subs
      · exact hdef_subs uk hm
      · have hi : cfg.includeParams = false := by
          cases hi : cfg.includeParams with
          | false => rfl
          | true => exact absurd (hval hi r hr uk hp) hm
        have hreg : uk ∈ paramNamesOf cfg sys := (mem_paramNamesOf _ _ _).mpr (Or.inr ⟨hi, (mem_uniqueDict cfg hi _ _).mpr
          ⟨r, hr, by rcases hp with hp | hp <;> simp [hp, RateParam.uniqueKey?], dmem_false_of_not_mem hm⟩⟩)
        exact (dmem_mkVars_not_subs _ _ _ hm).mpr (Or.inl hreg)
    cases hp : r.param with
    | raw k => rfl
    | ma k => rfl
    | named uk k => simp only [resolve]; split <;> rfl
    | key uk => exact hkeyed uk (Or.inl hp)
    | sym uk => exact hkeyed uk (Or.inr hp)
  obtain ⟨rs, hrs, hkeys⟩ := resolveAll_succeeds _ sys.rxns hres
  -- the rate dict has exactly the substances as keys
  have hmemR : ∀ s, s ∈ dkeys (sysRates (lookup (mkVars sys.subst (paramNamesOf cfg sys) cfg.subs)) rs none (cstrOf cfg.cstr sys.subst)) ↔
      s ∈ sys.subst := by
    intro s
    rw [← dkeys_dmap (ev (fun _ => (0 : ℚ))), dmap_sysRates (opsHom_ev _), C03.sysRates_keys]
    have hk2 : (∃ r ∈ rs.map (mapR (ev (fun _ => (0 : ℚ)))), s ∈ keysFor none r) ↔ ∃ r ∈ rs, s ∈ rxnKeys r := by
      simp only [List.mem_map, keysFor]
      constructor
      · rintro ⟨r', ⟨r, hr, rfl⟩, h⟩; exact ⟨r, hr, h⟩
      · rintro ⟨r, hr, h⟩; exact ⟨_, ⟨r, hr, rfl⟩, h⟩
    rw [hk2, hkeys s]
    constructor
    · rintro (⟨r, hr, h⟩ | ⟨cs, hcs, h⟩)
      · exact hspecies r hr s h
      · unfold cstrOf at hcs
        split at hcs
        · cases hcs; simpa [dkeys, Function.comp_def] using h
        · cases hcs
    · intro hs
      rcases hpart with hc | hp
      · refine Or.inr ⟨{ frKey := "feedratio", fc := sys.subst.map fun s => (s, "fc_" ++ s) }, by simp [cstrOf, hc], ?_⟩
        simpa [dkeys, Function.comp_def] using hs
      · exact Or.inl (hp s hs)
  have hlen : (sysRates (lookup (mkVars sys.subst (paramNamesOf cfg sys) cfg.subs)) rs none (cstrOf cfg.cstr sys.subst)).length =
      sys.subst.length := by
    have hperm := (List.perm_ext_iff_of_nodup (nodup_dkeys_sysRates _ rs none (cstrOf cfg.cstr sys.subst)) hnd).mpr hmemR
    simpa [dkeys] using hperm.length_eq
  obtain ⟨es, hes⟩ := readAll_succeeds _ sys.subst (fun n hn => (hmemR n).mpr hn)
  -- walk through the guards
  unfold buildRhs
  dsimp only
  rw [if_neg (by simpa using hne)]
  rw [if_neg (by
    simp only [List.any_eq_true, not_exists, not_and, Bool.not_eq_true, Bool.not_eq_false', Bool.or_eq_true, decide_eq_true_eq]
    intro kv hkv
    exact hsubs kv.1 (mem_dkeys_iff_exists.mpr ⟨kv, hkv, rfl⟩))]
  rw [if_neg (by
    simp only [List.any_eq_true, decide_eq_true_eq, not_exists, not_and]
    intro n hn hp
    exact hpsN n hp hn)]
  rw [if_neg (by
    simp only [Bool.or_eq_true, decide_eq_true_eq, not_or]
    exact ⟨htime.1, fun hp => (hps _ hp).elim (time_not_cstrKey _ _) htime.2⟩)]
  have htref : "time" ∉ referenced sys.rxns := by
    intro hm
    simp only [referenced, List.mem_flatten, List.mem_map] at hm
    obtain ⟨l, ⟨r, hr, rfl⟩, hm⟩ := hm
    rcases List.mem_append.mp hm with h | h
    · exact htime.1 (hreacN r hr _ h)
    · cases hk : r.param.uniqueKey? with
      | none => simp [hk] at h
      | some uk =>
        simp only [hk, List.mem_singleton] at h
        exact htime.2 (mem_oriUk.mpr ⟨r, hr, h ▸ hk⟩)
  rw [if_neg (by simpa using htref)]
  simp only [hrs]
  rw [if_pos (by
    apply List.all_eq_true.mpr
    intro k hk
    cases hc : cfg.cstr with
    | false => simp [hc, cstrOf, cstrNeeded] at hk
    | true =>
      simp only [hc, cstrOf, if_true, cstrNeeded, List.map_map, List.mem_flatten, List.mem_map, Function.comp_def] at hk
      obtain ⟨l, ⟨s, hs, rfl⟩, hkl⟩ := hk
      simp only [List.mem_cons, List.not_mem_nil, or_false] at hkl
      rcases hkl with rfl | rfl | rfl
      · exact hdef_cs _ (by simp [hc, cstrOf, cstrKeys])
      · exact hdef_cs _ (by
          simp only [hc, cstrOf, if_true, cstrKeys, List.map_map, List.mem_cons, List.mem_map, Function.comp_def]
          exact Or.inr ⟨s, hs, rfl⟩)
      · exact hdef_subst _ hs)]
  have hre : readExprs sys.subst (sysRates (lookup (mkVars sys.subst (paramNamesOf cfg sys) cfg.subs)) rs none (cstrOf cfg.cstr sys.subst)) = .ok es := by
    unfold readExprs
    rw [if_neg (by simpa using hlen)]
    simp only [hes]
  simp only [hre, hpy, pyNumberEntryG, Bool.false_and, List.any_eq_true, Bool.false_eq_true, and_false, exists_false, if_false]
  exact ⟨_, rfl⟩

end Accept

end ChemModel.OdeBuild

namespace ChemModel.OdeBuild
open ChemModel.Kinetics

/-! ## I. the general `get_odesys` (active substitutions, `constants=`) and user-supplied symbols of `_create_odesys` -/
section General
variable {R : Type} [CommRing R] [Algebra ℚ R]

theorem applyPassive_mkVars (names ps : List String) (subs : List (String × ℚ)) :
    applyPassive (mkVars names ps []) subs = mkVars names ps subs := rfl

/-- without active substitutions and constants the general builder is the plain one -/
theorem buildRhsG_plain (g : GCfg) (sys : Sys) (ha : g.active = []) (hc : g.consts = []) :
    buildRhsG g sys = buildRhs g.toCfg sys := by
  have h1 : subsForMembership g = g.subs := by simp [subsForMembership, ha]
  have h2 : candidatePk g sys.subst = allPk g.toCfg sys.subst := by simp [candidatePk, allPk, h1, GCfg.toCfg]
  have h3 : allPkG g sys.subst = allPk g.toCfg sys.subst := by simp [allPkG, h2, hc, dmem]
  have h4 : usedConsts g sys.subst = [] := by simp [usedConsts, hc]
  have h5 : uniqueDictG g sys.rxns = uniqueDict g.toCfg sys.rxns := by
    simp only [uniqueDictG, uniqueDict, h1, ha, List.foldl_nil]
    rfl
  have h6 : paramNamesG g sys = paramNamesOf g.toCfg sys := by
    simp only [paramNamesG, paramNamesOf, h3, h5]
    rfl
  have h7 : mkVarsG g sys = some (mkVars sys.subst (paramNamesOf g.toCfg sys) g.subs) := by
    simp only [mkVarsG, ha, applyActive, h4, h6, List.append_nil, applyPassive_mkVars]
  have h8 : subsKeysG g = g.subs.map Prod.fst := by simp [subsKeysG, ha, dkeys]
  have h9 : pyKeysG g sys = dkeys g.subs := by simp [pyKeysG, ha, pyKeysActive, h4]
  unfold buildRhsG buildRhs
  simp only [h3, h5, h6, h7, h8, h9, List.any_map, Function.comp_def]
  rfl

/-- everything an accepted general `get_odesys` build passed through -/
theorem buildRhsG_ok {g : GCfg} {sys : Sys} {o : OdeSys} (h : buildRhsG g sys = .ok o) :
    sys.rxns ≠ [] ∧
    (∀ k ∈ subsKeysG g, k ∈ cstrKeys (cstrOf g.cstr sys.subst) ∨ k ∈ oriUk sys.rxns) ∧
    (∀ n ∈ sys.subst, n ∉ paramNamesG g sys) ∧ "time" ∉ sys.subst ∧ "time" ∉ paramNamesG g sys ∧
    ∃ vars rs exprs, mkVarsG g sys = some vars ∧ resolveAll vars sys.rxns = some rs ∧
      (∀ k ∈ cstrNeeded (cstrOf g.cstr sys.subst), dmem vars k = true) ∧
      readAll (sysRates (lookup vars) rs none (cstrOf g.cstr sys.subst)) sys.subst = some exprs ∧
      o = { names := sys.subst, paramNames := paramNamesG g sys, paramKeys := allPkG g sys.subst,
            unique := uniqueDictG g sys.rxns, exprs := exprs, rateExprs := rs.map (massAction (lookup vars)) } := by
  unfold buildRhsG at h
  dsimp only at h
  split at h
  · cases h
  next h1 =>
  split at h
  · cases h
  next h2 =>
  split at h
  · cases h
  next h3 =>
  split at h
  · cases h
  next h4 =>
  split at h
  · cases h
  next h5 =>
  split at h
  · cases h
  next vars hv =>
  split at h
  · cases h
  next rs hrs =>
  split at h
  next h6 =>
    split at h
    · cases h
    next exprs hex =>
    split at h
    · cases h
    next h7 =>
    refine ⟨?_, ?_, ?_, ?_, ?_, vars, rs, exprs, hv, hrs, ?_, readExprs_ok hex, ?_⟩
    · intro e; rw [e] at h1; exact h1 rfl
    · intro k hk
      have := h2
      simp only [List.any_eq_true, not_exists, not_and] at this
      have := this k hk
      simp only [Bool.not_eq_true', Bool.not_eq_false, Bool.or_eq_true, decide_eq_true_eq] at this
      exact this
    · intro n hn hc
      apply h3
      simp only [List.any_eq_true, decide_eq_true_eq]
      exact ⟨n, hn, hc⟩
    · intro hc; apply h4; simp [hc]
    · intro hc; apply h4; simp [hc]
    · intro k hk; exact (List.all_eq_true.mp h6) k hk
    · cases h; rfl
  · cases h

/-- **general `get_odesys`, internal form**: also with `Expr`-valued substitutions and `constants=` every accepted build has one
    expression per substance in substance order that evaluates to `Nᵀ·r` (+ feed) for the rate constants and concentrations
    as the `variables` dict `vars = mkVarsG g sys` resolves them -/
theorem rhsG_is_NT_r_internal (g : GCfg) (sys : Sys) (o : OdeSys) (hnd : sys.subst.Nodup) (h : buildRhsG g sys = .ok o)
    (env : String → R) :
    ∃ vars, mkVarsG g sys = some vars ∧ o.names = sys.subst ∧ o.exprs.length = sys.subst.length ∧
      (∀ r ∈ sys.rxns, (resolve vars r.param).isSome = true) ∧
      o.rateExprs.map (ev env) = sys.rxns.map (rateVal vars env) ∧
      ∀ (i : ℕ) (s : String), sys.subst[i]? = some s → ∃ e, o.exprs[i]? = some e ∧
        ev env e = (sys.rxns.map fun r => (netOf r s : R) * rateVal vars env r).sum +
          (if g.cstr = true then cval vars env "feedratio" * (cval vars env ("fc_" ++ s) - cval vars env s) else 0) := by
  obtain ⟨_, _, _, _, _, vars, rs, exprs, hv, hrs, _, hread, ho⟩ := buildRhsG_ok h
  subst ho
  obtain ⟨hl, hi⟩ := core_spec vars sys.rxns rs sys.subst _ exprs (cstrOf_nodup hnd) hrs hread env
  have hspec := resolveAll_spec (R := R) vars env "" sys.rxns rs hrs
  refine ⟨vars, hv, rfl, hl, fun r hr => (hspec.2.2 r hr).1, hspec.2.1, ?_⟩
  intro i s hs
  obtain ⟨e, he, hev⟩ := hi i s hs
  exact ⟨e, he, by rw [hev, feedVal_cstrOf vars env g.cstr (List.mem_of_getElem? hs)]⟩

/-! ### active substitutions -/

/-- the value of a polynomial expression when every symbol `k` has the value `c k` -/
def pexprVal (c : String → R) : PExpr → R
  | .const q => algebraMap ℚ R q
  | .sym k => c k
  | .add a b => pexprVal c a + pexprVal c b
  | .mul a b => pexprVal c a * pexprVal c b

/-- **an active substitution means its expression**: if `act(variables)` succeeds, binding the symbols of the result gives
    the value of the expression at the current values of the variables it reads -/
theorem ev_evalPExpr (vars : List (String × Poly String)) (env : String → R) :
    ∀ (e : PExpr) (p : Poly String), evalPExpr vars e = some p → ev env p = pexprVal (cval vars env) e := by
  intro e
  induction e with
  | const q => intro p h; simp only [evalPExpr, Option.some.injEq] at h; subst h; simp [pexprVal, ev_const]
  | sym k =>
    intro p h
    simp only [evalPExpr] at h
    simp [pexprVal, cval, lookup, dgetD, h]
  | add a b iha ihb =>
    intro p h
    simp only [evalPExpr] at h
    cases ha : evalPExpr vars a with
    | none => simp [ha] at h
    | some x =>
      cases hb : evalPExpr vars b with
      | none => simp [ha, hb] at h
      | some y =>
        simp only [ha, hb, Option.some.injEq] at h
        subst h
        rw [ev_add, iha x ha, ihb y hb]; rfl
  | mul a b iha ihb =>
    intro p h
    simp only [evalPExpr] at h
    cases ha : evalPExpr vars a with
    | none => simp [ha] at h
    | some x =>
      cases hb : evalPExpr vars b with
      | none => simp [ha, hb] at h
      | some y =>
        simp only [ha, hb, Option.some.injEq] at h
        subst h
        rw [ev_mul, iha x ha, ihb y hb]; rfl

/-- keys not written by the remaining active substitutions keep their entry -/
theorem dget?_applyActive_of_not_mem (k : String) :
    ∀ (l : List (String × PExpr)) (d d' : List (String × Poly String)), applyActive d l = some d' → k ∉ dkeys l →
      dget? d' k = dget? d k := by
  intro l
  induction l with
  | nil => intro d d' h _; simp only [applyActive, Option.some.injEq] at h; subst h; rfl
  | cons a t ih =>
    intro d d' h hk
    obtain ⟨k', e⟩ := a
    simp only [applyActive] at h
    cases hv : evalPExpr d e with
    | none => simp [hv] at h
    | some v =>
      simp only [hv] at h
      have hk' : k' ≠ k := fun e' => hk (by simp [dkeys, e'])
      have hkt : k ∉ dkeys t := fun e' => hk (by simp [dkeys] at e' ⊢; exact Or.inr e')
      rw [ih _ _ h hkt, dget?_dset, if_neg hk']

/-- **what an actively substituted key reads**: with distinct substitution keys, the entry of the `i`-th active substitution
    `(k, e)` in the final `variables` is the value of `e` at the values the variables had when it was evaluated (the dict
    `d` after the first `i` substitutions) — later substitutions and the passive values do not touch it -/
theorem active_entry_value (d₀ : List (String × Poly String)) (pre post : List (String × PExpr)) (k : String) (e : PExpr)
    (passive : List (String × ℚ)) (d' : List (String × Poly String))
    (h : applyActive d₀ (pre ++ (k, e) :: post) = some d') (hpost : k ∉ dkeys post) (hpass : k ∉ dkeys passive)
    (env : String → R) :
    ∃ d, applyActive d₀ pre = some d ∧ (∃ p, evalPExpr d e = some p) ∧
      cval (applyPassive d' passive) env k = pexprVal (cval d env) e := by
  induction pre generalizing d₀ with
  | nil =>
    simp only [List.nil_append, applyActive] at h
    cases hv : evalPExpr d₀ e with
    | none => simp [hv] at h
    | some p =>
      simp only [hv] at h
      refine ⟨d₀, rfl, ⟨p, hv⟩, ?_⟩
      have h1 : dget? (applyPassive d' passive) k = dget? d' k :=
        dget?_foldl_dset_of_not_mem (fun kv : String × ℚ => kv.1) (fun kv => Poly.const kv.2) passive d' k
          (fun x hx e' => hpass (mem_dkeys_iff_exists.mpr ⟨x, hx, e'⟩))
      have h2 : dget? d' k = some p := by
        rw [dget?_applyActive_of_not_mem k post _ d' h hpost, dget?_dset, if_pos rfl]
      simp only [cval, lookup, dgetD, h1, h2]
      exact ev_evalPExpr d₀ env e p hv
  | cons a t ih =>
    obtain ⟨k', e'⟩ := a
    simp only [List.cons_append, applyActive] at h
    cases hv : evalPExpr d₀ e' with
    | none => simp [hv] at h
    | some v =>
      simp only [hv] at h
      obtain ⟨d, hd, hp, hval⟩ := ih _ h
      exact ⟨d, by simp [applyActive, hv, hd], hp, hval⟩

/-! ### `constants=` is a passive substitution of parameter keys -/

theorem dget?_append {β : Type} (a b : List (String × β)) (k : String) :
    dget? (a ++ b) k = match dget? a k with | some v => some v | none => dget? b k := by
  induction a with
  | nil => rfl
  | cons h t ih =>
    obtain ⟨k', v⟩ := h
    simp only [List.cons_append, dget?_cons]
    split
    · rfl
    · exact ih

theorem dmem_append {β : Type} (a b : List (String × β)) (k : String) : dmem (a ++ b) k = (dmem a k || dmem b k) := by
  unfold dmem
  rw [dget?_append]
  cases dget? a k <;> simp

theorem dmem_usedConsts (g : GCfg) (subst : List String) (pk : String) :
    dmem (usedConsts g subst) pk = (decide (pk ∈ candidatePk g subst) && dmem g.consts pk) := by
  unfold usedConsts
  induction candidatePk g subst with
  | nil => simp [dmem]
  | cons a t ih =>
    simp only [List.filterMap_cons]
    cases hc : dget? g.consts a with
    | none =>
      simp only [Option.map_none, ih, List.mem_cons]
      by_cases e : pk = a
      · subst e; simp [dmem, hc]
      · simp [e]
    | some c =>
      simp only [Option.map_some]
      have : dmem ((a, c) :: List.filterMap (fun pk => Option.map (fun c => (pk, c)) (dget? g.consts pk)) t) pk =
          (decide (a = pk) || dmem (List.filterMap (fun pk => Option.map (fun c => (pk, c)) (dget? g.consts pk)) t) pk) := by
        unfold dmem; rw [dget?_cons]; by_cases e : a = pk <;> simp [e]
      rw [this, ih]
      by_cases e : a = pk
      · subst e; simp [dmem, hc]
      · have e' : ¬ pk = a := fun h => e h.symm
        simp [e, e']

theorem regUnique_congr {s₁ s₂ : List (String × ℚ)} (u : List (String × Option ℚ)) (p : RateParam)
    (h : ∀ uk, p.uniqueKey? = some uk → dmem s₁ uk = dmem s₂ uk) : regUnique s₁ u p = regUnique s₂ u p := by
  cases p with
  | raw k => rfl
  | ma k => rfl
  | named uk k => simp only [regUnique, h uk rfl]
  | key uk => simp only [regUnique, h uk rfl]
  | sym uk => simp only [regUnique, h uk rfl]

theorem foldl_regUnique_congr {s₁ s₂ : List (String × ℚ)} (rxns : List Rxn) (u : List (String × Option ℚ))
    (h : ∀ r ∈ rxns, ∀ uk, r.param.uniqueKey? = some uk → dmem s₁ uk = dmem s₂ uk) :
    rxns.foldl (fun u r => regUnique s₁ u r.param) u = rxns.foldl (fun u r => regUnique s₂ u r.param) u := by
  induction rxns generalizing u with
  | nil => rfl
  | cons r t ih =>
    rw [List.foldl_cons, List.foldl_cons, regUnique_congr u r.param (h r (by simp))]
    exact ih _ (fun r' hr' => h r' (List.mem_cons_of_mem _ hr'))

/-- the configuration in which the values taken from `constants=` are written as passive substitutions instead -/
def constsAsSubs (g : GCfg) (sys : Sys) : GCfg := { g with subs := g.subs ++ usedConsts g sys.subst, consts := [] }

/-- **`constants=` is nothing but a passive substitution** of those parameter keys that the `constants` object provides:
    the build with `constants=C` is literally the build whose `substitutions` are extended by `{pk: C.pk}` for the parameter
    keys `pk` of the rate model that are not substituted already — same refusals, same names, same expressions.  (No active
    substitutions; no unique key is a CSTR parameter key — otherwise `_reg_unique` would treat the two spellings differently.)
    All theorems about passive substitutions therefore cover `constants=`. -/
theorem constants_are_substitutions (g : GCfg) (sys : Sys) (ha : g.active = [])
    (hukC : ∀ uk ∈ oriUk sys.rxns, uk ∉ cstrKeys (cstrOf g.cstr sys.subst)) :
    buildRhsG g sys = buildRhsG (constsAsSubs g sys) sys := by
  have hm : subsForMembership g = g.subs := by simp [subsForMembership, ha]
  have hm' : subsForMembership (constsAsSubs g sys) = g.subs ++ usedConsts g sys.subst := by
    simp [subsForMembership, constsAsSubs, ha]
  have hcand : candidatePk (constsAsSubs g sys) sys.subst = allPkG g sys.subst := by
    unfold allPkG candidatePk
    rw [hm', hm, List.filter_filter]
    apply List.filter_congr
    intro pk hpk
    show (!(dmem (g.subs ++ usedConsts g sys.subst) pk) && !(decide (pk = "time"))) = _
    rw [dmem_append, dmem_usedConsts]
    have hc : candidatePk g sys.subst = (dedupKeys (cstrKeys (cstrOf g.cstr sys.subst))).filter
        fun pk => !(dmem g.subs pk) && !(decide (pk = "time")) := by unfold candidatePk; rw [hm]
    have hmem : decide (pk ∈ candidatePk g sys.subst) = (!(dmem g.subs pk) && !(decide (pk = "time"))) := by
      rw [hc]
      have hpk' : pk ∈ dedupKeys (cstrKeys (cstrOf g.cstr sys.subst)) := hpk
      simp only [List.mem_filter, hpk', true_and]
      cases (!(dmem g.subs pk) && !(decide (pk = "time"))) <;> simp
    rw [hmem]
    cases dmem g.subs pk <;> cases decide (pk = "time") <;> cases dmem g.consts pk <;> rfl
  have hall : allPkG (constsAsSubs g sys) sys.subst = allPkG g sys.subst := by
    have : allPkG (constsAsSubs g sys) sys.subst = candidatePk (constsAsSubs g sys) sys.subst := by
      simp [allPkG, constsAsSubs, dmem]
    rw [this, hcand]
  have hused : usedConsts (constsAsSubs g sys) sys.subst = [] := by simp [usedConsts, constsAsSubs]
  have huniq : uniqueDictG (constsAsSubs g sys) sys.rxns = uniqueDictG g sys.rxns := by
    unfold uniqueDictG
    have hi : (constsAsSubs g sys).includeParams = g.includeParams := rfl
    have hact : (constsAsSubs g sys).active = g.active := rfl
    rw [hi, hact, ha, hm', hm]
    cases g.includeParams with
    | true => rfl
    | false =>
      simp only [Bool.false_eq_true, if_false, List.foldl_nil]
      apply foldl_regUnique_congr
      intro r hr uk huk
      rw [dmem_append, dmem_usedConsts]
      have : uk ∉ candidatePk g sys.subst := by
        intro hc
        have := (List.mem_filter.mp hc).1
        exact hukC uk (mem_oriUk.mpr ⟨r, hr, huk⟩) (mem_dedupKeys.mp this)
      simp [this]
  have hpn : paramNamesG (constsAsSubs g sys) sys = paramNamesG g sys := by
    unfold paramNamesG
    rw [hall, huniq]
    rfl
  have hvars : mkVarsG (constsAsSubs g sys) sys = mkVarsG g sys := by
    unfold mkVarsG
    rw [hpn, hused]
    show (match applyActive _ g.active with | none => none | some d => some (applyPassive d ((g.subs ++ usedConsts g sys.subst) ++ []))) = _
    rw [List.append_nil]
    rfl
  have hkeys : (subsKeysG (constsAsSubs g sys)).any (fun k => !(decide (k ∈ cstrKeys (cstrOf g.cstr sys.subst)) ||
      decide (k ∈ oriUk sys.rxns))) = (subsKeysG g).any (fun k => !(decide (k ∈ cstrKeys (cstrOf g.cstr sys.subst)) ||
      decide (k ∈ oriUk sys.rxns))) := by
    have : subsKeysG (constsAsSubs g sys) = dkeys g.subs ++ dkeys (usedConsts g sys.subst) ++ dkeys g.active := by
      simp [subsKeysG, constsAsSubs, dkeys]
    rw [this]
    simp only [subsKeysG, List.any_append]
    have hz : (dkeys (usedConsts g sys.subst)).any (fun k => !(decide (k ∈ cstrKeys (cstrOf g.cstr sys.subst)) ||
        decide (k ∈ oriUk sys.rxns))) = false := by
      rw [List.any_eq_false]
      intro k hk
      have hd : dmem (usedConsts g sys.subst) k = true := dmem_iff.mpr hk
      rw [dmem_usedConsts] at hd
      have hc : k ∈ candidatePk g sys.subst := by
        simp only [Bool.and_eq_true, decide_eq_true_eq] at hd; exact hd.1
      have := mem_dedupKeys.mp (List.mem_filter.mp hc).1
      simp [this]
    rw [hz]; simp
  have hpk : pyKeysG (constsAsSubs g sys) sys = pyKeysG g sys := by
    unfold pyKeysG
    rw [hused]
    show pyKeysActive [] g.active ++ dkeys ((g.subs ++ usedConsts g sys.subst) ++ []) = _
    rw [List.append_nil]
  unfold buildRhsG
  have hc' : (constsAsSubs g sys).cstr = g.cstr := rfl
  have hp' : (constsAsSubs g sys).pyNums = g.pyNums := rfl
  simp only [hc', hp', hkeys, hpn, hvars, hall, huniq, hpk]

/-! ### `_create_odesys` with user-supplied symbols -/

/-- the default entry point is the key collection followed by the common tail -/
theorem buildRhs'_eq_tail (cfg : Cfg') (sys : Sys) :
    buildRhs' cfg sys =
      match collectKeys cfg.paramExprs sys.rxns with
      | .error e => .error e
      | .ok ks =>
        if (dedupKeys (ks ++ cstrKeys (cstrOf cfg.cstr sys.subst))).length ≠ (ks ++ cstrKeys (cstrOf cfg.cstr sys.subst)).length
        then .error .valueError
        else buildTail' cfg sys (ks ++ cstrKeys (cstrOf cfg.cstr sys.subst)) := by
  unfold buildRhs' buildTail'
  rfl

theorem buildTail'_ok {cfg : Cfg'} {sys : Sys} {keys : List String} {o : OdeSys'} (h : buildTail' cfg sys keys = .ok o) :
    ∃ rs exprs, resolveAll (mkVars sys.subst keys cfg.paramExprs) sys.rxns = some rs ∧
      readAll (sysRates (lookup (mkVars sys.subst keys cfg.paramExprs)) rs none (cstrOf cfg.cstr sys.subst)) sys.subst = some exprs ∧
      o = { names := sys.subst, paramNames := keys, exprs := exprs } ∧
      ∀ k ∈ cstrNeeded (cstrOf cfg.cstr sys.subst), dmem (mkVars sys.subst keys cfg.paramExprs) k = true := by
  unfold buildTail' at h
  dsimp only at h
  split at h
  · cases h
  split at h
  · cases h
  split at h
  · cases h
  split at h
  · cases h
  next rs hrs =>
  split at h
  next h6 =>
    split at h
    · cases h
    next exprs hex =>
    split at h
    · cases h
    · exact ⟨rs, exprs, hrs, hex, by cases h; rfl, fun k hk => (List.all_eq_true.mp h6) k hk⟩
  · cases h

/-- **user-supplied symbol dictionaries of `_create_odesys`**:
    a `substance_symbols` whose keys are not the substance keys in order is refused (ValueError); a `parameter_symbols` that
    is no `OrderedDict` is refused (ValueError); without either the default builder runs; and with an ordered
    `parameter_symbols` every accepted build has exactly its keys as parameter names, in its order, the substance keys as
    names and `Nᵀ·r` as right-hand sides (internal form, for the constants and concentrations as `variables` resolves them). -/
theorem user_symbols_spec (u : UCfg') (sys : Sys) (hnd : sys.subst.Nodup) (env : String → R) :
    (∀ ks, u.substKeys = some ks → ks ≠ sys.subst → buildRhs'U u sys = .error .valueError) ∧
    (∀ keys, (u.substKeys = none ∨ u.substKeys = some sys.subst) → u.paramKeys = some (false, keys) →
      buildRhs'U u sys = .error .valueError) ∧
    ((u.substKeys = none ∨ u.substKeys = some sys.subst) → u.paramKeys = none → buildRhs'U u sys = buildRhs' u.cfg sys) ∧
    (∀ keys o, u.paramKeys = some (true, keys) → buildRhs'U u sys = .ok o →
      o.names = sys.subst ∧ o.paramNames = keys ∧ o.exprs.length = sys.subst.length ∧
      ∀ (i : ℕ) (s : String), sys.subst[i]? = some s → ∃ e, o.exprs[i]? = some e ∧
        ev env e = (sys.rxns.map fun r => (netOf r s : R) * rateVal (mkVars sys.subst keys u.cfg.paramExprs) env r).sum +
          (if u.cfg.cstr = true then
             cval (mkVars sys.subst keys u.cfg.paramExprs) env "feedratio" *
               (cval (mkVars sys.subst keys u.cfg.paramExprs) env ("fc_" ++ s) - cval (mkVars sys.subst keys u.cfg.paramExprs) env s)
           else 0)) := by
  refine ⟨?_, ?_, ?_, ?_⟩
  · intro ks hk hne
    simp [buildRhs'U, hk, hne]
  · intro keys hs hp
    rcases hs with hs | hs <;> simp [buildRhs'U, hs, hp]
  · intro hs hp
    rcases hs with hs | hs <;> simp [buildRhs'U, hs, hp]
  · intro keys o hp h
    have h' : buildTail' u.cfg sys keys = .ok o := by
      unfold buildRhs'U at h
      cases hsk : u.substKeys with
      | none => simpa [hsk, hp] using h
      | some ks =>
        by_cases hks : ks = sys.subst
        · simpa [hsk, hp, hks] using h
        · simp [hsk, hks] at h
    replace h := h'
    · skip
      obtain ⟨rs, exprs, hrs, hread, ho, _⟩ := buildTail'_ok h
      subst ho
      obtain ⟨hl, hi⟩ := core_spec _ sys.rxns rs sys.subst _ exprs (cstrOf_nodup hnd) hrs hread env
      refine ⟨rfl, rfl, hl, ?_⟩
      intro i s hs
      obtain ⟨e, he, hev⟩ := hi i s hs
      exact ⟨e, he, by rw [hev, feedVal_cstrOf _ env u.cfg.cstr (List.mem_of_getElem? hs)]⟩

theorem buildRhs'U_tail {u : UCfg'} {sys : Sys} {keys : List String} {o : OdeSys'} (hp : u.paramKeys = some (true, keys))
    (h : buildRhs'U u sys = .ok o) : buildTail' u.cfg sys keys = .ok o := by
  unfold buildRhs'U at h
  cases hsk : u.substKeys with
  | none => simpa [hsk, hp] using h
  | some ks =>
    by_cases hks : ks = sys.subst
    · simpa [hsk, hp, hks] using h
    · simp [hsk, hks] at h

/-- user-supplied `parameter_symbols`, in the user's terms: under the no-capture hypothesis the right-hand sides are `Nᵀ·r` of
    the user's data (own constants, own concentrations), whatever keys the user chose to expose -/
theorem rhs'U_explicit (u : UCfg') (sys : Sys) (keys : List String) (o : OdeSys') (hnd : sys.subst.Nodup)
    (hsub : (dkeys u.cfg.paramExprs).Nodup) (hp : u.paramKeys = some (true, keys)) (h : buildRhs'U u sys = .ok o)
    (hnc : noCapture sys (dkeys u.cfg.paramExprs) u.cfg.cstr = true) (hkeys : ∀ k ∈ keys, k ∉ sys.subst)
    (env : String → R)
    (hbind : ∀ r ∈ sys.rxns, ∀ uk k, r.param = .named uk k → uk ∉ dkeys u.cfg.paramExprs → uk ∈ keys → env uk = algebraMap ℚ R k) :
    o.names = sys.subst ∧ o.paramNames = keys ∧ o.exprs.length = sys.subst.length ∧
      ∀ (i : ℕ) (s : String), sys.subst[i]? = some s → ∃ e, o.exprs[i]? = some e ∧
        ev env e = kineticRhs u.cfg.paramExprs u.cfg.cstr env sys.rxns s := by
  obtain ⟨hreacN, hukN, hsubsN, hcsN, hukC⟩ := (noCapture_iff _ _ _).mp hnc
  obtain ⟨rs, exprs, hrs, hread, ho, hneed⟩ := buildTail'_ok (buildRhs'U_tail hp h)
  subst ho
  obtain ⟨hl, hi⟩ := core_spec _ sys.rxns rs sys.subst _ exprs (cstrOf_nodup hnd) hrs hread env
  have hspec := resolveAll_spec (R := R) _ env "" sys.rxns rs hrs
  refine ⟨rfl, rfl, hl, ?_⟩
  intro i s hs
  obtain ⟨e, he, hev⟩ := hi i s hs
  refine ⟨e, he, ?_⟩
  have hmem : s ∈ sys.subst := List.mem_of_getElem? hs
  rw [hev, feedVal_cstrOf _ env u.cfg.cstr hmem]
  unfold kineticRhs
  congr 1
  · congr 1
    apply List.map_congr_left
    intro r hr
    rw [rateVal_explicit sys.subst keys u.cfg.paramExprs hsub env r (hreacN r hr) hsubsN
      (fun uk huk => hukN uk (mem_oriUk.mpr ⟨r, hr, huk⟩)) (fun uk k hp' hns hk => hbind r hr uk k hp' hns hk) (hspec.2.2 r hr).1]
  · by_cases hc : u.cfg.cstr = true
    · have hneed' : ∀ k ∈ cstrNeeded (cstrOf true sys.subst), dmem (mkVars sys.subst keys u.cfg.paramExprs) k = true := by
        simpa [hc] using hneed
      obtain ⟨m1, m2, m3⟩ := mem_cstrNeeded hmem
      rw [if_pos hc, if_pos hc, cval_eq_pval _ _ _ hsub env (hneed' _ m1), cval_eq_pval _ _ _ hsub env (hneed' _ m2),
        cval_eq_pval _ _ _ hsub env (hneed' _ m3), pval_of_not_subs u.cfg.paramExprs env (fun hk => hsubsN s hk hmem)]
    · rw [if_neg hc, if_neg hc]

/-- a plain-dict `substance_symbols`: only the KEY SET matters -/
theorem buildRhs'P_plain (u : UCfg') (ks : List String) (sys : Sys) :
    ((∀ k ∈ sys.subst, k ∈ ks) → buildRhs'P u (some ks) sys = buildRhs'U u sys) ∧
    (¬ (∀ k ∈ sys.subst, k ∈ ks) → ∀ o, buildRhs'P u (some ks) sys ≠ .ok o) ∧ buildRhs'P u none sys = buildRhs'U u sys := by
  refine ⟨?_, ?_, rfl⟩
  · intro hall
    have : (sys.subst.all fun k => decide (k ∈ ks)) = true := by simpa using hall
    simp [buildRhs'P, this]
  · intro hnot o
    have : (sys.subst.all fun k => decide (k ∈ ks)) = false := by
      cases hb : (sys.subst.all fun k => decide (k ∈ ks))
      · rfl
      · exact absurd (by simpa using hb) hnot
    simp only [buildRhs'P, this, Bool.false_eq_true, if_false]
    cases hb : buildRhs'U u sys with
    | ok a => simp
    | error e => cases e <;> simp

/-! ### linear invariants on the GENERATED right-hand sides -/

theorem sum_map_sum_comm {α β : Type} (l₁ : List α) (l₂ : List β) (g : α → β → R) :
    (l₁.map fun a => (l₂.map fun b => g a b).sum).sum = (l₂.map fun b => (l₁.map fun a => g a b).sum).sum := by
  induction l₁ with
  | nil => simp
  | cons a t ih =>
    simp only [List.map_cons, List.sum_cons, ih]
    rw [← List.sum_map_add]

theorem sum_map_mul_left' {α : Type} (l : List α) (c : R) (g : α → R) : (l.map fun a => c * g a).sum = c * (l.map g).sum := by
  induction l with
  | nil => simp
  | cons a t ih => simp only [List.map_cons, List.sum_cons, ih]; ring

/-- the weighted sum of `Nᵀ·r` over the substances vanishes for every weight that each reaction conserves -/
theorem weighted_kinetic_sum_zero {γ : Type} (subs : List γ) (name : γ → String) (w : γ → R) (rxns : List Rxn) (rate : Rxn → R)
    (hbal : ∀ r ∈ rxns, (subs.map fun sc => w sc * ((netOf r (name sc) : ℤ) : R)).sum = 0) :
    (subs.map fun sc => w sc * (rxns.map fun r => ((netOf r (name sc) : ℤ) : R) * rate r).sum).sum = 0 := by
  have h1 : (subs.map fun sc => w sc * (rxns.map fun r => ((netOf r (name sc) : ℤ) : R) * rate r).sum) =
      subs.map fun sc => (rxns.map fun r => rate r * (w sc * ((netOf r (name sc) : ℤ) : R))).sum := by
    apply List.map_congr_left
    intro sc _
    rw [← sum_map_mul_left']
    congr 1
    apply List.map_congr_left
    intro r _
    ring
  rw [h1, sum_map_sum_comm]
  apply List.sum_eq_zero
  intro x hx
  obtain ⟨r, hr, rfl⟩ := List.mem_map.mp hx
  rw [sum_map_mul_left', hbal r hr, mul_zero]

/-- pointwise description of a list ⇒ the list -/
theorem map_eq_of_getElem? {α : Type} (exprs : List (Poly String)) (keys : List String) (f : Poly String → α) (g : String → α)
    (hl : exprs.length = keys.length)
    (h : ∀ (i : ℕ) (s : String), keys[i]? = some s → ∃ e, exprs[i]? = some e ∧ f e = g s) :
    exprs.map f = keys.map g := by
  apply List.ext_getElem?
  intro i
  rw [List.getElem?_map, List.getElem?_map]
  cases hk : keys[i]? with
  | none =>
    have : exprs[i]? = none := by
      rw [List.getElem?_eq_none_iff] at hk ⊢
      omega
    simp [this]
  | some s =>
    obtain ⟨e, he, hfe⟩ := h i s hk
    simp [he, hfe]

end General

end ChemModel.OdeBuild

namespace ChemModel.OdeBuild
open ChemModel.Kinetics

/-! ## J. when `_create_odesys` accepts -/
section AcceptCreate

/-- the keys one reaction contributes to `parameter_symbols` (no refusal: plain numbers are excluded by hypothesis) -/
def keysOfParam' (pe : List (String × ℚ)) : RateParam → List String
  | .raw _ => []
  | .ma _ => []
  | .named uk _ => [uk]
  | .key uk => if dmem pe uk then [] else [uk]
  | .sym uk => [uk]

/-- the keys `_create_odesys` collects from the reactions, in reaction order -/
def createKeys (pe : List (String × ℚ)) : List Rxn → List String
  | [] => []
  | r :: t => keysOfParam' pe r.param ++ createKeys pe t

theorem collectKeys_eq (pe : List (String × ℚ)) :
    ∀ (rxns : List Rxn), (∀ r ∈ rxns, ∀ k, r.param ≠ .raw k) → collectKeys pe rxns = .ok (createKeys pe rxns) := by
  intro rxns
  induction rxns with
  | nil => intro _; rfl
  | cons r t ih =>
    intro h
    have ht := ih (fun r' hr' => h r' (List.mem_cons_of_mem _ hr'))
    have hr := h r (by simp)
    cases hp : r.param with
    | raw k => exact absurd hp (hr k)
    | ma k => simp [collectKeys, keysOfParam, hp, ht, createKeys, keysOfParam']
    | named uk k => simp [collectKeys, keysOfParam, hp, ht, createKeys, keysOfParam']
    | key uk => simp [collectKeys, keysOfParam, hp, ht, createKeys, keysOfParam']
    | sym uk => simp [collectKeys, keysOfParam, hp, ht, createKeys, keysOfParam']

theorem mem_createKeys {pe : List (String × ℚ)} {rxns : List Rxn} {r : Rxn} {k : String} (hr : r ∈ rxns)
    (hk : k ∈ keysOfParam' pe r.param) : k ∈ createKeys pe rxns := by
  induction rxns with
  | nil => simp at hr
  | cons a t ih =>
    simp only [createKeys, List.mem_append]
    rcases List.mem_cons.mp hr with rfl | hr
    · exact Or.inl hk
    · exact Or.inr (ih hr)

theorem dedupKeys_eq_of_nodup {l : List String} (h : l.Nodup) : dedupKeys l = l := by
  induction l with
  | nil => rfl
  | cons a t ih =>
    rw [List.nodup_cons] at h
    simp only [dedupKeys, ih h.2]
    congr 1
    rw [List.filter_eq_self]
    intro x hx
    have : x ≠ a := fun e => h.1 (e ▸ hx)
    simp [this]

/-- **`_create_odesys` accepts** (default symbols): no plain-number parameter, the collected keys and CSTR keys are pairwise
    distinct, `'time'` / `'t'` are not used as names, no key that is read raw (active reactant, `Symbol` argument, CSTR key) is a
    `parameter_expressions` key, every active reactant is a substance, every substance takes part in some reaction or the tank
    is fed, and the constants are sympy numbers. -/
theorem buildRhs'_accepts (cfg : Cfg') (sys : Sys) (hpe : (dkeys cfg.paramExprs).Nodup)
    (hnoraw : ∀ r ∈ sys.rxns, ∀ k, r.param ≠ .raw k)
    (hkeys : (createKeys cfg.paramExprs sys.rxns ++ cstrKeys (cstrOf cfg.cstr sys.subst)).Nodup)
    (htime : "time" ∉ sys.subst ∧ "time" ∉ createKeys cfg.paramExprs sys.rxns ++ cstrKeys (cstrOf cfg.cstr sys.subst) ∧
      "time" ∉ referenced sys.rxns ∧ "time" ∉ dkeys cfg.paramExprs)
    (ht : "t" ∉ sys.subst ∧ "t" ∉ createKeys cfg.paramExprs sys.rxns ++ cstrKeys (cstrOf cfg.cstr sys.subst))
    (hraw : ∀ k ∈ rawReads sys.rxns (cstrOf cfg.cstr sys.subst), k ∉ dkeys cfg.paramExprs)
    (hreac : ∀ r ∈ sys.rxns, ∀ j ∈ dkeys r.reac, j ∈ sys.subst)
    (hpart : cfg.cstr = true ∨ ∀ s ∈ sys.subst, ∃ r ∈ sys.rxns, s ∈ speciesOf r)
    (hpy : cfg.pyNums = false) : ∃ o, buildRhs' cfg sys = .ok o := by
  -- raw reads
  have hrawReac : ∀ r ∈ sys.rxns, ∀ j ∈ dkeys r.reac, j ∈ rawReads sys.rxns (cstrOf cfg.cstr sys.subst) := by
    intro r hr j hj
    simp only [rawReads, List.mem_append, List.mem_flatten, List.mem_map]
    exact Or.inl ⟨_, ⟨r, hr, rfl⟩, List.mem_append_left _ hj⟩
  have hrawSym : ∀ r ∈ sys.rxns, ∀ uk, r.param = .sym uk → uk ∈ rawReads sys.rxns (cstrOf cfg.cstr sys.subst) := by
    intro r hr uk hp
    simp only [rawReads, List.mem_append, List.mem_flatten, List.mem_map]
    exact Or.inl ⟨_, ⟨r, hr, rfl⟩, List.mem_append_right _ (by simp [hp])⟩
  have hrawCs : ∀ k ∈ cstrNeeded (cstrOf cfg.cstr sys.subst), k ∈ rawReads sys.rxns (cstrOf cfg.cstr sys.subst) := by
    intro k hk
    simp only [rawReads, List.mem_append]
    exact Or.inr hk
  -- defined keys
  have hdefKey : ∀ k ∈ createKeys cfg.paramExprs sys.rxns ++ cstrKeys (cstrOf cfg.cstr sys.subst), k ∉ dkeys cfg.paramExprs →
      dmem (mkVars sys.subst (createKeys cfg.paramExprs sys.rxns ++ cstrKeys (cstrOf cfg.cstr sys.subst)) cfg.paramExprs) k = true :=
    fun k hk hn => (dmem_mkVars_not_subs _ _ _ hn).mpr (Or.inl hk)
  have hdefPe : ∀ k ∈ dkeys cfg.paramExprs,
      dmem (mkVars sys.subst (createKeys cfg.paramExprs sys.rxns ++ cstrKeys (cstrOf cfg.cstr sys.subst)) cfg.paramExprs) k = true := by
    intro k hk
    cases hv : dget? cfg.paramExprs k with
    | none => exact absurd hk (dget?_eq_none_iff.mp hv)
    | some v => simp [dmem, dget?_mkVars_subs _ _ _ hpe hv]
  have hdefSubst : ∀ s ∈ sys.subst, s ∉ dkeys cfg.paramExprs →
      dmem (mkVars sys.subst (createKeys cfg.paramExprs sys.rxns ++ cstrKeys (cstrOf cfg.cstr sys.subst)) cfg.paramExprs) s = true :=
    fun s hs hn => (dmem_mkVars_not_subs _ _ _ hn).mpr (Or.inr hs)
  have hres : ∀ r ∈ sys.rxns,
      (resolve (mkVars' sys.subst (createKeys cfg.paramExprs sys.rxns ++ cstrKeys (cstrOf cfg.cstr sys.subst)) cfg.paramExprs) r.param).isSome = true ∧
      ∀ j ∈ dkeys r.reac,
        dmem (mkVars' sys.subst (createKeys cfg.paramExprs sys.rxns ++ cstrKeys (cstrOf cfg.cstr sys.subst)) cfg.paramExprs) j = true := by
    intro r hr
    refine ⟨?_, fun j hj => hdefSubst j (hreac r hr j hj) (hraw j (hrawReac r hr j hj))⟩
    cases hp : r.param with
    | raw k => exact absurd hp (hnoraw r hr k)
    | ma k => rfl
    | named uk k => simp only [resolve]; split <;> rfl
    | key uk =>
      show (dget? _ uk).isSome = true
      by_cases hm : uk ∈ dkeys cfg.paramExprs
      · exact hdefPe uk hm
      · apply hdefKey uk _ hm
        apply List.mem_append_left
        apply mem_createKeys hr
        simp [keysOfParam', hp, dmem_false_of_not_mem hm]
    | sym uk =>
      show (dget? _ uk).isSome = true
      apply hdefKey uk _ (hraw uk (hrawSym r hr uk hp))
      apply List.mem_append_left
      apply mem_createKeys hr
      simp [keysOfParam', hp]
  obtain ⟨rs, hrs, hkeysR⟩ := resolveAll_succeeds _ sys.rxns hres
  have hmem : ∀ s ∈ sys.subst, s ∈ dkeys (sysRates (lookup (mkVars' sys.subst
      (createKeys cfg.paramExprs sys.rxns ++ cstrKeys (cstrOf cfg.cstr sys.subst)) cfg.paramExprs)) rs none (cstrOf cfg.cstr sys.subst)) := by
    intro s hs
    rw [← dkeys_dmap (ev (fun _ => (0 : ℚ))), dmap_sysRates (opsHom_ev _), C03.sysRates_keys]
    have hk2 : (∃ r ∈ rs.map (mapR (ev (fun _ => (0 : ℚ)))), s ∈ keysFor none r) ↔ ∃ r ∈ rs, s ∈ rxnKeys r := by
      simp only [List.mem_map, keysFor]
      constructor
      · rintro ⟨r', ⟨r, hr, rfl⟩, h⟩; exact ⟨r, hr, h⟩
      · rintro ⟨r, hr, h⟩; exact ⟨_, ⟨r, hr, rfl⟩, h⟩
    rw [hk2, hkeysR s]
    rcases hpart with hc | hp
    · refine Or.inr ⟨{ frKey := "feedratio", fc := sys.subst.map fun s => (s, "fc_" ++ s) }, by simp [cstrOf, hc], ?_⟩
      simpa [dkeys, Function.comp_def] using hs
    · exact Or.inl (hp s hs)
  obtain ⟨es, hes⟩ := readAll_succeeds _ sys.subst hmem
  unfold buildRhs'
  dsimp only
  simp only [collectKeys_eq cfg.paramExprs sys.rxns hnoraw]
  rw [if_neg (by rw [dedupKeys_eq_of_nodup hkeys]; simp)]
  rw [if_neg (by
    simp only [Bool.or_eq_true, decide_eq_true_eq, not_or]
    exact ⟨⟨⟨htime.1, htime.2.1⟩, htime.2.2.1⟩, htime.2.2.2⟩)]
  rw [if_neg (by
    simp only [Bool.or_eq_true, decide_eq_true_eq, not_or]
    exact ⟨ht.1, ht.2⟩)]
  rw [if_neg (by
    simp only [List.any_eq_true, not_exists, not_and, Bool.not_eq_true]
    intro k hk
    exact dmem_false_of_not_mem (hraw k hk))]
  simp only [hrs]
  rw [if_pos (by
    apply List.all_eq_true.mpr
    intro k hk
    have hn := hraw k (hrawCs k hk)
    by_cases hc : cfg.cstr = true
    · have hk' : k ∈ cstrNeeded (cstrOf true sys.subst) := by simpa [hc] using hk
      simp only [cstrOf, if_true, cstrNeeded, List.map_map, List.mem_flatten, List.mem_map, Function.comp_def] at hk'
      obtain ⟨l, ⟨s, hs, rfl⟩, hkl⟩ := hk'
      simp only [List.mem_cons, List.not_mem_nil, or_false] at hkl
      rcases hkl with rfl | rfl | rfl
      · exact hdefKey _ (List.mem_append_right _ (by simp [hc, cstrOf, cstrKeys])) hn
      · exact hdefKey _ (List.mem_append_right _ (by
          simp only [hc, cstrOf, if_true, cstrKeys, List.map_map, List.mem_cons, List.mem_map, Function.comp_def]
          exact Or.inr ⟨s, hs, rfl⟩)) hn
      · exact hdefSubst _ hs hn
    · have hf : cfg.cstr = false := by simpa using hc
      simp [hf, cstrOf, cstrNeeded] at hk)]
  simp only [hes, hpy, pyNumberEntry, Bool.false_and, List.any_eq_true, Bool.false_eq_true, and_false, exists_false, if_false]
  exact ⟨_, rfl⟩

end AcceptCreate

end ChemModel.OdeBuild
