/-
Helper lemmas for C19 over ℝ (and ℚ for the table-driven witnesses): closed forms of the generated functions
(`Gen/FnProps.lean`), homogeneity of every unit-mode translation in the scale factors of the unit symbols
("scale-factor semantics", L1 of `Model/PhysProps.lean`), range predicates, anchors, shape, inverse helpers.
The property theorems are in `Props/C19.lean`.
-/
import ChemModel.Model.PhysProps
import ChemModel.Proofs.NumReal
import Mathlib.Tactic.Linarith
import Mathlib.Tactic.NormNum
import Mathlib.Tactic.FieldSimp
import Mathlib.Tactic.Positivity
set_option linter.unusedSimpArgs false
set_option linter.unusedVariables false
namespace ChemModel.PhysProps
open ChemModel ChemModel.Gen ChemModel.NumReal

/-! ## L1: homogeneity of the unit-mode translations -/
noncomputable instance : HasToUnitless ℝ := ⟨id⟩
theorem toUnitless_def (x : ℝ) : HasToUnitless.toUnitless x = x := rfl

theorem waterDensityU_eq (Tsi K m kg : ℝ) (hK : K ≠ 0) :
    waterDensityU Tsi K kg m = waterDensity (Tsi / K) * (kg / m ^ 3) := by
  obtain ⟨τ, rfl⟩ : ∃ τ, Tsi = τ * K := ⟨Tsi / K, by field_simp⟩
  simp only [waterDensityU, waterDensity, NumReal.npow_eq_pow, NumReal.dec_eq]
  push_cast
  rw [mul_div_assoc, mul_div_cancel_right₀ _ hK]
  have h : ∀ a b c d e : ℝ, (τ * K - e * K + a * K) ^ 2 * (τ * K - e * K + b * K) / (c * K * K * (τ * K - e * K + d * K))
      = ((τ - e * 1 + a * 1) ^ 2 * (τ - e * 1 + b * 1)) / (c * 1 * 1 * (τ - e * 1 + d * 1)) := by
    intro a b c d e
    have : (τ * K - e * K + a * K) ^ 2 * (τ * K - e * K + b * K) = K ^ 3 * ((τ - e * 1 + a * 1) ^ 2 * (τ - e * 1 + b * 1)) := by ring
    rw [this]
    have : c * K * K * (τ * K - e * K + d * K) = K ^ 3 * (c * 1 * 1 * (τ - e * 1 + d * 1)) := by ring
    rw [this, mul_div_mul_left _ _ (pow_ne_zero 3 hK)]
  rw [h]
  ring


theorem cancel_div {K : ℝ} (hK : K ≠ 0) (x y : ℝ) : (K * x) / (K * y) = x / y := mul_div_mul_left x y hK

theorem waterViscosityU_eq (τ cP K : ℝ) (hK : K ≠ 0) :
    waterViscosityU (τ * K) cP K = waterViscosity τ * cP := by
  simp only [waterViscosityU, waterViscosity, NumReal.npow_eq_pow, NumReal.dec_eq, NumReal.rpow_def, toUnitless_def,
    Int.cast_ofNat, Nat.cast_ofNat, Nat.cast_one, Int.cast_neg]
  have h : ∀ A B C e : ℝ, (A * (20 * K - (τ * K - e * K)) - B / K * (τ * K - e * K - 20 * K) ^ 2) / (τ * K - e * K + C * K)
      = (A * (20 * 1 - (τ - e * 1)) - B / 1 * (τ - e * 1 - 20 * 1) ^ 2) / (τ - e * 1 + C * 1) := by
    intro A B C e
    have h1 : A * (20 * K - (τ * K - e * K)) - B / K * (τ * K - e * K - 20 * K) ^ 2
        = K * (A * (20 * 1 - (τ - e * 1)) - B / 1 * (τ - e * 1 - 20 * 1) ^ 2) := by field_simp
    have h2 : τ * K - e * K + C * K = K * (τ - e * 1 + C * 1) := by ring
    rw [h1, h2, cancel_div hK]
  rw [h]
  ring

theorem waterDiffusivityU_eq (τ K m s : ℝ) (hK : K ≠ 0) :
    waterDiffusivityU (τ * K) K m s = waterDiffusivity τ * (m ^ 2 / s) := by
  simp only [waterDiffusivityU, waterDiffusivity, NumReal.npow_eq_pow, NumReal.dec_eq, NumReal.rpow_def,
    Int.cast_ofNat, Nat.cast_ofNat, Nat.cast_one, Int.cast_neg]
  have : ∀ a : ℝ, τ * K / (a * K) = τ / (a * 1) := by
    intro a; rw [mul_comm τ K, mul_comm a K, cancel_div hK, mul_one]
  rw [this]
  ring

theorem waterDiffusivityErrU_eq (τ e0 e1 K m s : ℝ) (hK : K ≠ 0) :
    waterDiffusivityErrU (τ * K) e0 e1 K m s = waterDiffusivityErr τ e0 e1 * (m ^ 2 / s) := by
  simp only [waterDiffusivityErrU, waterDiffusivityErr, NumReal.npow_eq_pow, NumReal.dec_eq, NumReal.rpow_def,
    Int.cast_ofNat, Nat.cast_ofNat, Nat.cast_one, Int.cast_neg]
  have : ∀ a b : ℝ, τ * K / (a * K + e1 * (b * K)) = τ / (a * 1 + e1 * (b * 1)) := by
    intro a b
    rw [show τ * K = K * τ by ring, show a * K + e1 * (b * K) = K * (a * 1 + e1 * (b * 1)) by ring, cancel_div hK]
  rw [this]
  ring

/-- without perturbation the err_mult variant is the plain correlation -/
theorem waterDiffusivityErr_zero (T : ℝ) : waterDiffusivityErr T 0 0 = waterDiffusivity T := by
  simp only [waterDiffusivityErr, waterDiffusivity, NumReal.npow_eq_pow, NumReal.dec_eq, NumReal.rpow_def,
    Int.cast_ofNat, Nat.cast_ofNat, Nat.cast_one, Int.cast_neg]
  norm_num

theorem waterPermittivityU_eq (τ p K bar : ℝ) (hK : K ≠ 0) (hb : bar ≠ 0) :
    waterPermittivityU (τ * K) (p * bar) bar K = waterPermittivity τ p := by
  simp only [waterPermittivityU, waterPermittivity, NumReal.npow_eq_pow, NumReal.dec_eq, NumReal.exp_def, NumReal.log_def, toUnitless_def,
    Int.cast_ofNat, Nat.cast_ofNat, Nat.cast_one, Int.cast_neg]
  have e1 : ∀ a b : ℝ, a / K * (τ * K) + b / K ^ 2 * (τ * K) ^ 2 = a / 1 * τ + b / 1 ^ 2 * τ ^ 2 := by
    intro a b; field_simp
  have e2 : ∀ a b : ℝ, a * K / (b * K + τ * K) = a * 1 / (b * 1 + τ) := by
    intro a b
    rw [show a * K = K * (a * 1) by ring, show b * K + τ * K = K * (b * 1 + τ) by ring, cancel_div hK]
  have e3 : ∀ a b c d : ℝ, (a * bar + b * K * bar / (τ * K) + c / K * bar * (τ * K) + p * bar) / (a * bar + b * K * bar / (τ * K) + c / K * bar * (τ * K) + d * bar)
      = (a * 1 + b * 1 * 1 / τ + c / 1 * 1 * τ + p) / (a * 1 + b * 1 * 1 / τ + c / 1 * 1 * τ + d * 1) := by
    intro a b c d
    have hx : b * K * bar / (τ * K) = bar * (b * 1 * 1 / τ) := by
      rw [show b * K * bar = K * (bar * b) by ring, show τ * K = K * τ by ring, cancel_div hK]; ring
    have hy : c / K * bar * (τ * K) = bar * (c / 1 * 1 * τ) := by field_simp
    rw [hx, hy, show a * bar + bar * (b * 1 * 1 / τ) + bar * (c / 1 * 1 * τ) + p * bar = bar * (a * 1 + b * 1 * 1 / τ + c / 1 * 1 * τ + p) by ring,
      show a * bar + bar * (b * 1 * 1 / τ) + bar * (c / 1 * 1 * τ) + d * bar = bar * (a * 1 + b * 1 * 1 / τ + c / 1 * 1 * τ + d * 1) by ring, cancel_div hb]
  rw [e1, e2, e3]

theorem henryHAtTDefaultU_eq (τ H θ K : ℝ) (hK : K ≠ 0) :
    henryHAtTDefaultU (τ * K) H (θ * K) K = henryHAtTDefault τ H θ := by
  simp only [henryHAtTDefaultU, henryHAtTDefault, NumReal.dec_eq, NumReal.exp_def, toUnitless_def,
    Int.cast_ofNat, Nat.cast_ofNat, Nat.cast_one, Int.cast_neg]
  congr 2
  by_cases hT : τ = 0
  · subst hT; simp; field_simp
  · field_simp

theorem henryHAtTU_eq (τ H θ τ0 K : ℝ) (hK : K ≠ 0) :
    henryHAtTU (τ * K) H (θ * K) (τ0 * K) K = henryHAtT τ H θ τ0 := by
  simp only [henryHAtTU, henryHAtT, NumReal.exp_def, toUnitless_def, Nat.cast_one]
  congr 2
  have h1 : 1 / (τ * K) = (1 / τ) / K := by rw [div_div]
  have h2 : 1 / (τ0 * K) = (1 / τ0) / K := by rw [div_div]
  rw [h1, h2, ← sub_div]
  field_simp

theorem nernstPotentialU_eq (a b z τ C mol J K x : ℝ) (hK : K ≠ 0) (hmol : mol ≠ 0) (hx : x ≠ 0) :
    nernstPotentialU (a * x) (b * x) z (τ * K) C J K mol = nernstPotential a b z τ * (J / C) := by
  simp only [nernstPotentialU, nernstPotential, NumReal.dec_eq, NumReal.log_def, toUnitless_def,
    Int.cast_ofNat, Nat.cast_ofNat, Nat.cast_one, Int.cast_neg]
  rw [mul_div_mul_right _ _ hx]
  by_cases hC : C = 0
  · subst hC; simp
  by_cases hz : z = 0
  · subst hz; simp
  field_simp

theorem mobilityU_eq (δ z τ J K C d : ℝ) (hK : K ≠ 0) :
    mobilityU (δ * d) z (τ * K) C J K = mobility δ z τ * (d * C / J) := by
  simp only [mobilityU, mobility, NumReal.dec_eq, Int.cast_ofNat, Nat.cast_ofNat, Nat.cast_one, Int.cast_neg]
  by_cases hJ : J = 0
  · subst hJ; simp
  by_cases hT : τ = 0
  · subst hT; simp
  field_simp

/-! ## range predicates -/
theorem waterDensityWarns_iff (T : ℝ) : waterDensityWarns T = true ↔ (T < 273.15 ∨ 313.15 < T) := by
  simp only [waterDensityWarns, PyFn.warnGate, PyFn.anyS, Bool.true_and, NumReal.npow_eq_pow, NumReal.dec_eq, Int.cast_ofNat, Nat.cast_ofNat, Nat.cast_one, Int.cast_neg,
    Bool.or_eq_true, decide_eq_true_eq, Nat.cast_zero]
  constructor
  · rintro (h | h)
    · left; linarith
    · right; linarith
  · rintro (h | h)
    · left; linarith
    · right; linarith

theorem waterViscosityWarns_iff (T : ℝ) : waterViscosityWarns T = true ↔ (T < 273.15 ∨ 373.15 < T) := by
  simp only [waterViscosityWarns, PyFn.warnGate, PyFn.anyS, Bool.true_and, NumReal.npow_eq_pow, NumReal.dec_eq, Int.cast_ofNat, Nat.cast_ofNat, Nat.cast_one, Int.cast_neg,
    Bool.or_eq_true, decide_eq_true_eq, Nat.cast_zero]
  constructor
  · rintro (h | h)
    · left; linarith
    · right; linarith
  · rintro (h | h)
    · left; linarith
    · right; linarith

theorem waterDiffusivityWarns_iff (T : ℝ) : waterDiffusivityWarns T = true ↔ (T < 273.15 ∨ 373.15 < T) := by
  simp only [waterDiffusivityWarns, PyFn.warnGate, PyFn.anyS, Bool.true_and, NumReal.npow_eq_pow, NumReal.dec_eq, Int.cast_ofNat, Nat.cast_ofNat, Nat.cast_one, Int.cast_neg,
    Bool.or_eq_true, decide_eq_true_eq, Nat.cast_zero]
  constructor
  · rintro (h | h)
    · left; linarith
    · right; linarith
  · rintro (h | h)
    · left; linarith
    · right; linarith

/-- as coded: temperature outside 0-350 °C, or (inside and) above 70 °C with P > 2000 bar; the 5000-bar branch is dead -/
theorem waterPermittivityWarns_iff (T P : ℝ) :
    waterPermittivityWarns T P = true ↔ (T < 273.15 ∨ 623.15 < T ∨ (343.15 < T ∧ 2000 < P)) := by
  simp only [waterPermittivityWarns, PyFn.warnGate, PyFn.anyS, Bool.true_and, NumReal.npow_eq_pow, NumReal.dec_eq, Int.cast_ofNat, Nat.cast_ofNat, Nat.cast_one, Int.cast_neg,
    Bool.or_eq_true, Bool.and_eq_true, Bool.not_eq_true', decide_eq_true_eq, decide_eq_false_iff_not, Nat.cast_zero, not_or, not_lt]
  constructor
  · rintro ((h | h) | h)
    · rcases h with h | h
      · left; linarith
      · right; left; linarith
    · obtain ⟨⟨_, h2⟩, h3⟩ := h
      right; right; exact ⟨by linarith, by linarith⟩
    · obtain ⟨⟨⟨_, _⟩, h3⟩, h4⟩ := h
      exfalso; linarith
  · rintro (h | h | ⟨h1, h2⟩)
    · left; left; left; linarith
    · left; left; right; linarith
    · by_cases hh : 623.15 < T
      · left; left; right; linarith
      · left; right
        have hh := not_lt.mp hh
        refine ⟨⟨?_, by linarith⟩, by linarith⟩
        rw [Bool.or_eq_false_iff, decide_eq_false_iff_not, decide_eq_false_iff_not]
        exact ⟨by linarith, by linarith⟩

theorem sulfuricWarns_iff (w T : ℝ) :
    sulfuricTWarns w T = true ↔ (T < 273.15 ∨ 323.15 < T ∨ w < 0.1 ∨ 0.9 < w) := by
  simp only [sulfuricTWarns, PyFn.warnGate, PyFn.anyS, Bool.true_and, NumReal.npow_eq_pow, NumReal.dec_eq, Int.cast_ofNat, Nat.cast_ofNat, Nat.cast_one, Int.cast_neg,
    Bool.or_eq_true, decide_eq_true_eq, Nat.cast_zero]
  constructor
  · rintro ((h | h) | (h | h))
    · left; linarith
    · right; left; linarith
    · right; right; left; linarith
    · right; right; right; linarith
  · rintro (h | h | h | h)
    · left; left; linarith
    · left; right; linarith
    · right; left; linarith
    · right; right; linarith

/-! ## water density: closed form, anchors, maximum -/
/-- closed form of the translated density -/
theorem waterDensity_eq (T : ℝ) : waterDensity T =
    999.97495 * (1 - ((T - 273.15 - 3.983035) ^ 2 * (T - 273.15 + 301.797)) / (522528.9 * (T - 273.15 + 69.34881))) := by
  simp only [waterDensity, NumReal.npow_eq_pow, NumReal.dec_eq, Int.cast_ofNat, Nat.cast_ofNat, Nat.cast_one, Int.cast_neg]
  norm_num
  ring_nf

theorem anchor_density_0 : |waterDensity (273.15 + 0 : ℝ) - 999.8395| < 0.004 := by
  rw [waterDensity_eq, abs_lt]; constructor <;> norm_num
theorem anchor_density_4 : |waterDensity (273.15 + 4 : ℝ) - 999.9720| < 0.003 := by
  rw [waterDensity_eq, abs_lt]; constructor <;> norm_num
theorem anchor_density_25 : |waterDensity (273.15 + 25 : ℝ) - 997.0479| < 0.0009 := by
  rw [waterDensity_eq, abs_lt]; constructor <;> norm_num
theorem anchor_density_40 : |waterDensity (273.15 + 40 : ℝ) - 992.2| < 0.02 := by
  rw [waterDensity_eq, abs_lt]; constructor <;> norm_num

theorem waterDensity_at_max : waterDensity (277.133035 : ℝ) = 999.97495 := by
  rw [waterDensity_eq]; norm_num

theorem waterDensity_le_max (T : ℝ) (h0 : 273.15 ≤ T) (h1 : T ≤ 313.15) :
    waterDensity T ≤ waterDensity 277.133035 ∧ (waterDensity T = waterDensity 277.133035 → T = 277.133035) := by
  rw [waterDensity_at_max, waterDensity_eq]
  have hd : 0 < 522528.9 * (T - 273.15 + 69.34881) := by nlinarith
  have hn : 0 ≤ (T - 273.15 - 3.983035) ^ 2 * (T - 273.15 + 301.797) := by
    apply mul_nonneg (sq_nonneg _); linarith
  have hq : 0 ≤ (T - 273.15 - 3.983035) ^ 2 * (T - 273.15 + 301.797) / (522528.9 * (T - 273.15 + 69.34881)) :=
    div_nonneg hn hd.le
  generalize hQ : (T - 273.15 - 3.983035) ^ 2 * (T - 273.15 + 301.797) / (522528.9 * (T - 273.15 + 69.34881)) = q at hq ⊢
  constructor
  · nlinarith
  · intro h
    have hq0 : q = 0 := by nlinarith
    rw [hq0, div_eq_zero_iff] at hQ
    rcases hQ with h2 | h2
    · rcases mul_eq_zero.mp h2 with h3 | h3
      · have := (pow_eq_zero_iff (n := 2) (by norm_num)).mp h3; linarith
      · linarith
    · linarith

/-! ## viscosity -/
/-- the exponent of Korson's equation, in t = T - 273.15 -/
noncomputable def viscExponent (T : ℝ) : ℝ :=
  (1.1709 * (20 - (T - 273.15)) - 0.001827 * ((T - 273.15) - 20) ^ 2) / ((T - 273.15) + 89.93)

theorem waterViscosity_eq (T : ℝ) : waterViscosity T = 1.002 * (10 : ℝ) ^ viscExponent T := by
  simp only [waterViscosity, viscExponent, NumReal.npow_eq_pow, NumReal.dec_eq, NumReal.rpow_def,
    Int.cast_ofNat, Nat.cast_ofNat, Nat.cast_one, Int.cast_neg]
  norm_num

theorem anchor_viscosity_20 : waterViscosity (293.15 : ℝ) = 1.002 := by
  rw [waterViscosity_eq]
  have : viscExponent 293.15 = 0 := by unfold viscExponent; norm_num
  rw [this]; norm_num

theorem viscExponent_strictAnti {T1 T2 : ℝ} (h0 : 273.15 ≤ T1) (h12 : T1 < T2) (h2 : T2 ≤ 373.15) :
    viscExponent T2 < viscExponent T1 := by
  unfold viscExponent
  have d1 : 0 < (T1 - 273.15) + 89.93 := by linarith
  have d2 : 0 < (T2 - 273.15) + 89.93 := by linarith
  rw [div_lt_div_iff₀ d2 d1]
  -- s = t - 20 ∈ [-20, 80]
  obtain ⟨s1, rfl⟩ : ∃ s1, T1 = s1 + 293.15 := ⟨T1 - 293.15, by ring⟩
  obtain ⟨s2, rfl⟩ : ∃ s2, T2 = s2 + 293.15 := ⟨T2 - 293.15, by ring⟩
  have a1 : -20 ≤ s1 := by linarith
  have a2 : s2 ≤ 80 := by linarith
  have a3 : s1 < s2 := by linarith
  have key : 0 < (s2 - s1) * (1.1709 * 109.93 + 0.001827 * (s1 * s2) + 0.001827 * 109.93 * (s1 + s2)) := by
    apply mul_pos (by linarith)
    have b1 : -1600 ≤ s1 * s2 := by nlinarith
    nlinarith
  nlinarith [key]

theorem waterViscosity_strictAnti {T1 T2 : ℝ} (h0 : 273.15 ≤ T1) (h12 : T1 < T2) (h2 : T2 ≤ 373.15) :
    waterViscosity T2 < waterViscosity T1 := by
  rw [waterViscosity_eq, waterViscosity_eq]
  have := viscExponent_strictAnti h0 h12 h2
  have h10 : (1 : ℝ) < 10 := by norm_num
  have := (Real.rpow_lt_rpow_left_iff h10).mpr this
  linarith



/-! ## permittivity, Henry, Nernst, mobility -/
theorem waterPermittivity_1000 (T : ℝ) :
    waterPermittivity T 1000 = 342.79 * Real.exp (-0.0050866 * T + 9.469e-7 * T ^ 2) := by
  simp only [waterPermittivity, NumReal.npow_eq_pow, NumReal.dec_eq, NumReal.exp_def, NumReal.log_def,
    Int.cast_ofNat, Nat.cast_ofNat, Nat.cast_one, Int.cast_neg]
  norm_num

theorem waterPermittivity_1000_strictAnti {T1 T2 : ℝ} (_h0 : 273.15 ≤ T1) (h12 : T1 < T2) (h2 : T2 ≤ 623.15) :
    waterPermittivity T2 1000 < waterPermittivity T1 1000 := by
  rw [waterPermittivity_1000, waterPermittivity_1000]
  have : -0.0050866 * T2 + 9.469e-7 * T2 ^ 2 < -0.0050866 * T1 + 9.469e-7 * T1 ^ 2 := by
    have : 0 < (T2 - T1) * (0.0050866 - 9.469e-7 * (T1 + T2)) := by
      apply mul_pos (by linarith); norm_num; linarith
    nlinarith
  have := Real.exp_lt_exp.mpr this
  linarith

/-! Henry -/
theorem henryHAtT_eq (T H θ T0 : ℝ) : henryHAtT T H θ T0 = H * Real.exp (θ * (1 / T - 1 / T0)) := by
  simp only [henryHAtT, NumReal.exp_def, Nat.cast_one]

theorem henryHAtTDefault_eq (T H θ : ℝ) : henryHAtTDefault T H θ = henryHAtT T H θ 298.15 := by
  simp only [henryHAtTDefault, henryHAtT, NumReal.dec_eq, NumReal.exp_def, Int.cast_ofNat, Nat.cast_ofNat, Nat.cast_one]
  norm_num

theorem Henry.call_eq (h : Henry ℝ) (T : ℝ) :
    h.call T = h.Hcp * Real.exp (h.Tderiv * (1 / T - 1 / (h.T0.getD 298.15))) := by
  obtain ⟨H, θ, T0⟩ := h
  cases T0 with
  | none => simp only [Henry.call, henryHAtTDefault_eq, henryHAtT_eq, Option.getD_none]
  | some t0 => simp only [Henry.call, henryHAtT_eq, Option.getD_some]

theorem Henry.call_ne_zero (h : Henry ℝ) (T : ℝ) (hH : h.Hcp ≠ 0) : h.call T ≠ 0 := by
  rw [Henry.call_eq]; exact mul_ne_zero hH (Real.exp_pos _).ne'

theorem Henry.getP_getC (h : Henry ℝ) (T P : ℝ) (hH : h.Hcp ≠ 0) : h.getP T (h.getC T P) = P := by
  unfold Henry.getP Henry.getC
  exact mul_div_cancel_right₀ P (h.call_ne_zero T hH)

theorem Henry.getC_getP (h : Henry ℝ) (T c : ℝ) (hH : h.Hcp ≠ 0) : h.getC T (h.getP T c) = c := by
  unfold Henry.getP Henry.getC
  exact div_mul_cancel₀ c (h.call_ne_zero T hH)

/-- van 't Hoff: ln(H(T)/H(T0)) = Tderiv (1/T - 1/T0) and H(T0) = Hcp -/
theorem Henry.vant_hoff (h : Henry ℝ) (T : ℝ) (hH : 0 < h.Hcp) :
    Real.log (h.call T / h.Hcp) = h.Tderiv * (1 / T - 1 / (h.T0.getD 298.15)) := by
  rw [Henry.call_eq, mul_div_cancel_left₀ _ hH.ne', Real.log_exp]

theorem Henry.at_T0 (h : Henry ℝ) : h.call (h.T0.getD 298.15) = h.Hcp := by
  rw [Henry.call_eq]; simp

/-- a Henry object whose `Tderiv`, `T0` are quantities in the unit `K`, called with a temperature in that unit and the units object:
    the plain object's value (in particular the instance's reference temperature is used) -/
theorem Henry.callU_inUnit (h : Henry ℝ) (τ K : ℝ) (hK : K ≠ 0) : (h.inUnit K).callU (τ * K) K = h.call τ := by
  obtain ⟨H, θ, T0⟩ := h
  cases T0 with
  | none => simp only [Henry.callU, Henry.call, Henry.inUnit, Option.map_none, henryHAtTDefaultU_eq τ H θ K hK]
  | some t0 => simp only [Henry.callU, Henry.call, Henry.inUnit, Option.map_some, henryHAtTU_eq τ H θ t0 K hK]

/-! Nernst -/
theorem nernst_eq (a b z T : ℝ) : nernstPotential a b z T = (8.3144598 * T) / (z * 96485.33289) * Real.log (a / b) := by
  simp only [nernstPotential, NumReal.dec_eq, NumReal.log_def, Int.cast_ofNat]
  norm_num

theorem nernstC_eq (a b z T F R : ℝ) : nernstPotentialC a b z T F R = (R * T) / (z * F) * Real.log (a / b) := by
  simp only [nernstPotentialC, NumReal.log_def]

theorem nernst_antisymm (a b z T : ℝ) : nernstPotential b a z T = - nernstPotential a b z T := by
  rw [nernst_eq, nernst_eq, ← inv_div a b, Real.log_inv]; ring

theorem nernst_equal_conc (a z T : ℝ) (ha : a ≠ 0) : nernstPotential a a z T = 0 := by
  rw [nernst_eq, div_self ha, Real.log_one, mul_zero]

/-! mobility -/
theorem mobility_eq (D z T : ℝ) : mobility D z T = D * z * 1.60217662e-19 / (1.38064852e-23 * T) := by
  simp only [mobility, NumReal.dec_eq, Int.cast_ofNat]
  norm_num

theorem mobilityC_eq (D z T kB e : ℝ) : mobilityC D z T kB e = D * z * e / (kB * T) := by
  simp only [mobilityC]

/-- Einstein relation: μ kB T = D z e -/
theorem mobility_einstein (D z T kB e : ℝ) (hk : kB ≠ 0) (hT : T ≠ 0) : mobilityC D z T kB e * (kB * T) = D * z * e := by
  rw [mobilityC_eq]; field_simp

/-! ## sulfuric acid, density_from_concentration, Schumpe -/
/-! sulfuric acid -/
theorem sulfuricTU_eq (w τ K m kg : ℝ) (hK : K ≠ 0) : sulfuricTU w (τ * K) K kg m = sulfuricT w τ := by
  simp only [sulfuricTU, sulfuricT, NumReal.dec_eq, Int.cast_ofNat, Nat.cast_one, toUnitless_def]
  field_simp

theorem sulfuricUnitU_eq (w T K m kg : ℝ) : sulfuricUnitU w T K kg m = kg / m ^ 3 := by
  simp only [sulfuricUnitU, NumReal.npow_eq_pow]

theorem sulfuricAcidDensityU_eq (w τ K m kg : ℝ) (hK : K ≠ 0) :
    sulfuricAcidDensityU w (τ * K) K kg m = sulfuricAcidDensity w τ * (kg / m ^ 3) := by
  unfold sulfuricAcidDensityU sulfuricAcidDensity
  rw [sulfuricTU_eq w τ K m kg hK, sulfuricUnitU_eq w (τ * K) K m kg]

/-- power-sum specification of the hand model -/
theorem rowSum_eq (wi t : ℝ) (row : List ℝ) (j : Nat) :
    rowSum wi t row j = wi * ((row.zipIdx j).map (fun p => p.1 * t ^ p.2)).sum := by
  induction row generalizing j with
  | nil => simp [rowSum]
  | cons d r ih => simp only [rowSum, ih, NumReal.npow_eq_pow, List.zipIdx_cons, List.map_cons, List.sum_cons]; ring

/-! dfc -/
theorem dfcIter_ok {rhoCb : ℝ → ℝ} {conc M atol : ℝ} {maxiter : Nat} :
    ∀ (fuel : Nat) (rho : ℝ) (idx : Nat) (r : ℝ), dfcIter rhoCb conc M atol maxiter fuel rho idx = .ok r →
      ∃ prev : ℝ, r = rhoCb (conc * M / prev) ∧ |r - prev| ≤ atol := by
  intro fuel
  induction fuel with
  | zero => intro rho idx r h; simp [dfcIter] at h
  | succ n ih =>
    intro rho idx r h
    simp only [dfcIter] at h
    split at h
    · simp at h
    · split at h
      · exact ih _ _ _ h
      · rename_i hlt
        injection h with h
        refine ⟨rho, h.symm, ?_⟩
        have : pyAbs (rhoCb (conc * M / rho) - rho) = |rhoCb (conc * M / rho) - rho| := by
          unfold pyAbs
          split
          · rename_i hneg; rw [abs_of_neg]; simpa using hneg
          · rename_i hneg; rw [abs_of_nonneg]; simpa using hneg
        rw [this, h] at hlt
        exact not_lt.mp hlt

/-! lg -/
theorem lgTerms_scale (M : ℝ) (hM : M ≠ 0) (gas : String) (l : List (String × ℝ)) :
    lgTerms M gas (l.map fun p => (p.1, p.2 * M)) = lgTerms 1 gas l := by
  induction l with
  | nil => rfl
  | cons p r ih =>
    obtain ⟨k, v⟩ := p
    have key : ∀ pg pk : ℝ, (pg / M + pk / M) * (v * M) = (pg / 1 + pk / 1) * v := by
      intro pg pk; field_simp
    simp only [List.map_cons, lgTerms, ih, key]

theorem anchor_sulfuric_doc : (1396 : Rat) ≤ sulfuricAcidDensity (1/2 : Rat) 293 ∧ sulfuricAcidDensity (1/2 : Rat) 293 < 1397 := by decide +kernel
theorem anchor_sulfuric_test : (10637 : Rat) / 10 < sulfuricAcidDensity (1/10 : Rat) 298 ∧ sulfuricAcidDensity (1/10 : Rat) 298 < 10639 / 10 := by decide +kernel



/-! ## L2: the quantity algebra over ℝ -/
noncomputable instance : BEq ℝ := ⟨fun a b => decide (a = b)⟩
theorem beq_real (a b : ℝ) : (a == b) = decide (a = b) := rfl

theorem UVL.add_def (a b : UV ℝ) : a + b = UV.addLike (· + ·) a b := rfl
theorem UVL.sub_def (a b : UV ℝ) : a - b = UV.addLike (· - ·) a b := rfl
theorem UVL.mul_def (a b : UV ℝ) : a * b = UV.mul a b := rfl
theorem UVL.div_def (a b : UV ℝ) : a / b = UV.div a b := rfl
theorem UVL.neg_def (a : UV ℝ) : -a = UV.neg a := rfl
theorem UVL.nat_def (n : Nat) : ((n : Nat) : UV ℝ) = UV.num (n : ℝ) := rfl
theorem UVL.tu_def (x : UV ℝ) : HasToUnitless.toUnitless x = (UV.toUnitless x : UV ℝ) := rfl
theorem UVL.exp_def (x : UV ℝ) : HasExp.exp x = UV.transc Real.exp x := rfl
theorem UVL.log_def (x : UV ℝ) : HasLog.log x = UV.transc Real.log x := rfl
theorem UVL.rpow_def (x y : UV ℝ) : HasRPow.rpow x y = UV.rpow x y := rfl
theorem UVL.dec_def (m : Int) (k : Nat) : (Num.dec m k : UV ℝ) = UV.num (Num.dec m k : ℝ) := by
  unfold Num.dec Num.ofInt; split <;> rfl
theorem UVrawL.add_def (a b : UVraw ℝ) : a + b = UV.addLike (· + ·) a b := rfl
theorem UVrawL.sub_def (a b : UVraw ℝ) : a - b = UV.addLike (· - ·) a b := rfl
theorem UVrawL.mul_def (a b : UVraw ℝ) : a * b = UV.mul a b := rfl
theorem UVrawL.div_def (a b : UVraw ℝ) : a / b = UV.div a b := rfl
theorem UVrawL.neg_def (a : UVraw ℝ) : -a = UV.neg a := rfl
theorem UVrawL.nat_def (n : Nat) : ((n : Nat) : UVraw ℝ) = UV.num (n : ℝ) := rfl
theorem UVrawL.tu_def (x : UVraw ℝ) : HasToUnitless.toUnitless x = (x : UV ℝ) := rfl
theorem UVrawL.exp_def (x : UVraw ℝ) : HasExp.exp x = UV.transc Real.exp x := rfl
theorem UVrawL.log_def (x : UVraw ℝ) : HasLog.log x = UV.transc Real.log x := rfl
theorem UVrawL.rpow_def (x y : UVraw ℝ) : HasRPow.rpow x y = UV.rpow x y := rfl
theorem UVrawL.dec_def (m : Int) (k : Nat) : (Num.dec m k : UVraw ℝ) = UV.num (Num.dec m k : ℝ) := by
  unfold Num.dec Num.ofInt; split <;> rfl
theorem UVmL.add_def (a b : UVm ℝ) : a + b = UV.addLike (· + ·) a b := rfl
theorem UVmL.sub_def (a b : UVm ℝ) : a - b = UV.addLike (· - ·) a b := rfl
theorem UVmL.mul_def (a b : UVm ℝ) : a * b = UV.mul a b := rfl
theorem UVmL.div_def (a b : UVm ℝ) : a / b = UV.div a b := rfl
theorem UVmL.neg_def (a : UVm ℝ) : -a = UV.neg a := rfl
theorem UVmL.nat_def (n : Nat) : ((n : Nat) : UVm ℝ) = UV.num (n : ℝ) := rfl
theorem UVmL.tu_def (x : UVm ℝ) : HasToUnitless.toUnitless x = (UV.toUnitless x : UV ℝ) := rfl
theorem UVmL.log_def (x : UVm ℝ) : HasLog.log x = UV.mathFn Real.log x := rfl
theorem UVmL.dec_def (m : Int) (k : Nat) : (Num.dec m k : UVm ℝ) = UV.num (Num.dec m k : ℝ) := by
  unfold Num.dec Num.ofInt; split <;> rfl
theorem UVmrawL.add_def (a b : UVmraw ℝ) : a + b = UV.addLike (· + ·) a b := rfl
theorem UVmrawL.sub_def (a b : UVmraw ℝ) : a - b = UV.addLike (· - ·) a b := rfl
theorem UVmrawL.mul_def (a b : UVmraw ℝ) : a * b = UV.mul a b := rfl
theorem UVmrawL.div_def (a b : UVmraw ℝ) : a / b = UV.div a b := rfl
theorem UVmrawL.neg_def (a : UVmraw ℝ) : -a = UV.neg a := rfl
theorem UVmrawL.nat_def (n : Nat) : ((n : Nat) : UVmraw ℝ) = UV.num (n : ℝ) := rfl
theorem UVmrawL.tu_def (x : UVmraw ℝ) : HasToUnitless.toUnitless x = (x : UV ℝ) := rfl
theorem UVmrawL.log_def (x : UVmraw ℝ) : HasLog.log x = UV.mathFn Real.log x := rfl
theorem UVmrawL.dec_def (m : Int) (k : Nat) : (Num.dec m k : UVmraw ℝ) = UV.num (Num.dec m k : ℝ) := by
  unfold Num.dec Num.ofInt; split <;> rfl

theorem dimsZero_sub_self (d : Units.Dims) : dimsZero (Units.Dims.sub d d) = true := by
  induction d with
  | nil => rfl
  | cons a r ih =>
    simp only [dimsZero, Units.Dims.sub, List.zipWith_cons_cons, List.all_cons, sub_self, Bool.and_eq_true] at ih ⊢
    exact ⟨by decide, ih⟩

def Tdim' : Units.Dims := [0, 0, 0, 0, 1, 0, 0]

theorem dz1 : dimsZero (Units.Dims.add Tdim' (Units.Dims.smul (-1) Tdim')) = true := by decide

theorem henryDefaultU_L2 (τ f H θ g k : ℝ) :
    henryHAtTDefaultU (α := UV ℝ) (UV.mk τ f Tdim') (UV.num H) (UV.mk θ g Tdim') (UV.mk 1 k Tdim')
      = UV.num (H * Real.exp (θ * (1 / τ - (1 / (298.15 * 1)) * ((1 / k) / (1 / f))) * (g * (1 / f)))) := by
  simp only [henryHAtTDefaultU, UV.mk, UVL.add_def, UVL.sub_def, UVL.mul_def, UVL.div_def, UVL.nat_def, UVL.tu_def, UVL.exp_def, UVL.dec_def,
    UV.div, UV.mul, UV.addLike, UV.toUnitless, UV.transc, NumReal.dec_eq, beq_self_eq_true, if_true, dz1]
  norm_num

def Pdim : Units.Dims := [-1, 1, -1, 0, 0, 0, 0]
theorem dz2 : (Tdim' == Units.Dims.add (Units.Dims.smul (-1) Tdim') (Units.Dims.add Tdim' Tdim')) = true := by decide

theorem sulfuricTU_L2 (w x f k m g : ℝ) (Ld Md : Units.Dims) :
    sulfuricTU (α := UV ℝ) (UV.num w) (UV.mk x f Tdim') (UV.mk 1 k Tdim') (UV.mk 1 g Md) (UV.mk 1 m Ld)
      = UV.num ((x - 273.15 * 1 * (k / f)) / 1 * (f / k)) := by
  simp only [sulfuricTU, UV.mk, UVL.add_def, UVL.sub_def, UVL.mul_def, UVL.div_def, UVL.nat_def, UVL.tu_def, UVL.dec_def,
    UV.div, UV.mul, UV.addLike, UV.toUnitless, NumReal.dec_eq, NumReal.npow_eq_pow, beq_self_eq_true, if_true, dimsZero_sub_self]
  norm_num

theorem viscU_L2 (x f c k : ℝ) (hf : f ≠ 0) (hk : k ≠ 0) :
    waterViscosityU (α := UV ℝ) (UV.mk x f Tdim') (UV.mk 1 c Pdim) (UV.mk 1 k Tdim') = UV.mk (waterViscosity (x * f / k)) c Pdim := by
  obtain ⟨s, rfl⟩ : ∃ s, x = s * (k / f) := ⟨x * f / k, by field_simp⟩
  have hs : s * (k / f) * f / k = s := by field_simp
  rw [hs]
  simp only [waterViscosityU, UV.mk, UVL.add_def, UVL.sub_def, UVL.mul_def, UVL.div_def, UVL.nat_def, UVL.tu_def, UVL.dec_def, UVL.rpow_def,
    UV.div, UV.mul, UV.addLike, UV.toUnitless, UV.rpow, NumReal.dec_eq, NumReal.npow_eq_pow, Num.npow, beq_self_eq_true, if_true, dimsZero_sub_self, dz2,
    Int.cast_ofNat, Nat.cast_ofNat, Nat.cast_one, NumReal.rpow_def]
  refine congrArg (fun m => UV.qty ⟨m, ⟨c, Pdim⟩⟩) ?_
  rw [waterViscosity_eq, viscExponent]
  have hr : k / f ≠ 0 := div_ne_zero hk hf
  have hN : 11709 / 10 ^ 4 * (20 * 1 - (s * (k / f) - 27315 / 10 ^ 2 * 1 * (k / f)) * (f / k)) -
      1827 / 10 ^ 6 / 1 * (1 * (s * (k / f) - 27315 / 10 ^ 2 * 1 * (k / f) - 20 * 1 * (k / f)) *
        (s * (k / f) - 27315 / 10 ^ 2 * 1 * (k / f) - 20 * 1 * (k / f))) * (1 / k * (f * f) / k)
      = 1.1709 * (20 - (s - 273.15)) - 1827e-6 * (s - 273.15 - 20) ^ 2 := by
    field_simp
    ring
  have hD : s * (k / f) - 27315 / 10 ^ 2 * 1 * (k / f) + 8993 / 10 ^ 2 * 1 * (k / f) = (k / f) * (s - 273.15 + 89.93) := by ring
  have hE : ∀ N D : ℝ, N / (k / f * D) * (k / f) = N / D := by
    intro N D; rw [div_mul_eq_mul_div, mul_comm N, mul_div_mul_left _ _ hr]
  rw [hN, hD, hE]
  norm_num

theorem nernstCU_L2 (a x b y z τ k F R : ℝ) (d Td : Units.Dims) :
    nernstPotentialCU (α := UVm ℝ) (UV.mk a x d) (UV.mk b y d) (UV.num z) (UV.mk τ k Td) (UV.num F) (UV.num R)
      = UV.mk (R * τ / (z * F) * Real.log (a / b * (x / y))) k Td := by
  simp only [nernstPotentialCU, UV.mk, HDiv.hDiv, Div.div, HMul.hMul, Mul.mul, UV.div, UV.mul, HasToUnitless.toUnitless, UV.toUnitless,
    dimsZero_sub_self, if_true, HasLog.log, UV.mathFn]
  rfl

theorem UV.si_mk (m f : ℝ) (d : Units.Dims) : (UV.mk m f d).si = some (m * f, d) := rfl

theorem nernstCU_L2_si (a x b y z τ k F R : ℝ) (d Td : Units.Dims) :
    UV.si (nernstPotentialCU (α := UVm ℝ) (UV.mk a x d) (UV.mk b y d) (UV.num z) (UV.mk τ k Td) (UV.num F) (UV.num R))
      = some (R * (τ * k) / (z * F) * Real.log ((a * x) / (b * y)), Td) := by
  rw [nernstCU_L2, UV.si_mk, div_mul_div_comm]
  congr 2
  ring

/-- the pre-repair text (`to_unitless` removed) -/
theorem nernstCU_raw_L2 (a x b y z τ k F R : ℝ) (d Td : Units.Dims) :
    nernstPotentialCU (α := UVmraw ℝ) (UV.mk a x d) (UV.mk b y d) (UV.num z) (UV.mk τ k Td) (UV.num F) (UV.num R)
      = UV.mk (R * τ / (z * F) * Real.log (a / b)) k Td := by
  simp only [nernstPotentialCU, UV.mk, HDiv.hDiv, Div.div, HMul.hMul, Mul.mul, UV.div, UV.mul, HasToUnitless.toUnitless, id,
    HasLog.log, UV.mathFn]
  rfl

def cdim : Units.Dims := [-3, 0, 0, 0, 0, 0, 1]

theorem nernst_raw_witness :
    UV.si (nernstPotentialCU (α := UVmraw ℝ) (UV.mk 145 1 cdim) (UV.mk 0.015 1000 cdim) (UV.num 1) (UV.mk 310 1 Tdim') (UV.num 96485.3399) (UV.num 8.314472))
    ≠ UV.si (nernstPotentialCU (α := UVmraw ℝ) (UV.mk 0.145 1000 cdim) (UV.mk 0.015 1000 cdim) (UV.num 1) (UV.mk 310 1 Tdim') (UV.num 96485.3399) (UV.num 8.314472)) := by
  rw [nernstCU_raw_L2, nernstCU_raw_L2, UV.si_mk, UV.si_mk]
  intro h
  have h1 := (Prod.mk.inj (Option.some.inj h)).1
  have hlog : Real.log (145 / 0.015) = Real.log (0.145 / 0.015) := by
    have hc : (8.314472 * 310 / (1 * 96485.3399) : ℝ) ≠ 0 := by norm_num
    have := mul_right_cancel₀ (one_ne_zero) h1
    exact mul_left_cancel₀ hc this
  have := Real.log_injOn_pos (by norm_num : (145 / 0.015 : ℝ) ∈ Set.Ioi 0) (by norm_num : (0.145 / 0.015 : ℝ) ∈ Set.Ioi 0) hlog
  norm_num at this


/-! raw witnesses over ℚ: the same generated text with `to_unitless` doing nothing; `exp` / `**` are arbitrary (never reached) -/
/-- the "must be dimensionless" refusal does not depend on the function applied: it is raised before -/
theorem UV.transc_err {α : Type} [BEq α] [NatCast α] (f g : α → α) (q : Units.Quantity α)
    (h : (dimsZero q.unit.dims && q.unit.factor == ((1 : Nat) : α)) = false) :
    UV.transc f (.qty q) = .err "ValueError" ∧ UV.transc g (.qty q) = .err "ValueError" := by
  simp [UV.transc, h]

/-- placeholder for `exp` / `**` on ℚ, used ONLY to instantiate the generated texts at `UVraw ℚ` in the two witnesses below, where the
    dimension check refuses before the function is applied (`UV.transc_err`: the refusal is the same for every function) -/
def ratPlaceholder : Rat → Rat := fun _ => 0

theorem henry_raw_witness :
    (letI : HasExp Rat := ⟨ratPlaceholder⟩
     UV.si (henryHAtTDefaultU (α := UVraw Rat) (UV.mk 300000 (1/1000) Tdim') (UV.num (12/10000)) (UV.mk 1800 1 Tdim') (UV.mk 1 1 Tdim'))) = none := by
  decide +kernel

theorem visc_raw_witness :
    (letI : HasRPow Rat := ⟨fun x _ => ratPlaceholder x⟩
     UV.si (waterViscosityU (α := UVraw Rat) (UV.mk 300000 (1/1000) Tdim') (UV.mk 1 (1/1000) Pdim) (UV.mk 1 1 Tdim'))) = none := by
  decide +kernel

theorem sulfuric_raw_witness :
    UV.si (sulfuricAcidDensityUVraw (1/2 : Rat) (UV.mk 300000 (1/1000) Tdim') (UV.mk 1 1 Tdim') (UV.mk 1 1 [0,1,0,0,0,0,0]) (UV.mk 1 1 [1,0,0,0,0,0,0]))
      ≠ UV.si (sulfuricAcidDensityUVraw (1/2 : Rat) (UV.mk 300 1 Tdim') (UV.mk 1 1 Tdim') (UV.mk 1 1 [0,1,0,0,0,0,0]) (UV.mk 1 1 [1,0,0,0,0,0,0])) := by
  decide +kernel

theorem sulfuric_L2_example :
    UV.si (sulfuricAcidDensityUV (1/2 : Rat) (UV.mk 300000 (1/1000) Tdim') (UV.mk 1 1 Tdim') (UV.mk 1 1 [0,1,0,0,0,0,0]) (UV.mk 1 1 [1,0,0,0,0,0,0]))
      = UV.si (sulfuricAcidDensityUV (1/2 : Rat) (UV.mk 300 1 Tdim') (UV.mk 1 1 Tdim') (UV.mk 1 1 [0,1,0,0,0,0,0]) (UV.mk 1 1 [1,0,0,0,0,0,0])) := by
  decide +kernel


/-! ## density_from_concentration: first-convergence characterisation; mobility in the quantity algebra -/


/-- the iterates of `density_from_concentration`: ρ₀ = start value, ρₙ₊₁ = rho_cb(conc·M/ρₙ) -/
noncomputable def dfcSeq (rhoCb : ℝ → ℝ) (conc M rho0 : ℝ) : Nat → ℝ
  | 0 => rho0
  | n + 1 => rhoCb (conc * M / dfcSeq rhoCb conc M rho0 n)

theorem pyAbs_eq_abs (x : ℝ) : pyAbs x = |x| := by
  unfold pyAbs
  split
  · rename_i h; rw [abs_of_neg]; simpa using h
  · rename_i h; rw [abs_of_nonneg]; simpa using h

theorem dfcIter_first_convergence {rhoCb : ℝ → ℝ} {conc M atol rho0 : ℝ} {maxiter n : Nat}
    (hn : n ≤ maxiter)
    (hbefore : ∀ m, 1 ≤ m → m < n → atol < |dfcSeq rhoCb conc M rho0 m - dfcSeq rhoCb conc M rho0 (m - 1)|)
    (hat : |dfcSeq rhoCb conc M rho0 n - dfcSeq rhoCb conc M rho0 (n - 1)| ≤ atol) :
    ∀ d i fuel, i + d + 1 = n → d + 1 ≤ fuel →
      dfcIter rhoCb conc M atol maxiter fuel (dfcSeq rhoCb conc M rho0 i) i = .ok (dfcSeq rhoCb conc M rho0 n) := by
  intro d
  induction d with
  | zero =>
    intro i fuel hi hf
    obtain ⟨f, rfl⟩ : ∃ f, fuel = f + 1 := ⟨fuel - 1, by omega⟩
    have hin : i + 1 = n := by omega
    simp only [dfcIter, pyAbs_eq_abs]
    rw [if_neg (by omega)]
    have : dfcSeq rhoCb conc M rho0 (i + 1) = rhoCb (conc * M / dfcSeq rhoCb conc M rho0 i) := rfl
    rw [← this, hin]
    have h2 : n - 1 = i := by omega
    rw [h2] at hat
    rw [if_neg (not_lt.mpr hat)]
  | succ d ih =>
    intro i fuel hi hf
    obtain ⟨f, rfl⟩ : ∃ f, fuel = f + 1 := ⟨fuel - 1, by omega⟩
    simp only [dfcIter, pyAbs_eq_abs]
    rw [if_neg (by omega)]
    have hs : dfcSeq rhoCb conc M rho0 (i + 1) = rhoCb (conc * M / dfcSeq rhoCb conc M rho0 i) := rfl
    rw [← hs]
    have hb := hbefore (i + 1) (by omega) (by omega)
    rw [show i + 1 - 1 = i by omega] at hb
    rw [if_pos hb]
    exact ih (i + 1) f (by omega) (by omega)


theorem mobilityU_L2 (δ f z τ k c j kk : ℝ) (Dd Cd Jd Kd Td : Units.Dims) :
    UV.si (mobilityU (α := UV ℝ) (UV.mk δ f Dd) (UV.num z) (UV.mk τ k Td) (UV.mk 1 c Cd) (UV.mk 1 j Jd) (UV.mk 1 kk Kd))
      = some (mobilityU (δ * f) z (τ * k) c j kk,
              Units.Dims.sub (Units.Dims.add Dd Cd) (Units.Dims.add (Units.Dims.sub Jd Kd) Td)) := by
  simp only [mobilityU, UV.mk, UVL.mul_def, UVL.div_def, UVL.dec_def, UV.div, UV.mul, UV.si, NumReal.dec_eq]
  congr 2
  rw [div_mul_div_comm]
  congr 1 <;> ring


/-! ## round 10: permittivity range check in unit mode, viscosity monotone link, nernst with a units object / quantity constants (L2) -/


theorem waterPermittivityUWarns_eq (τ p K bar : ℝ) (hK : 0 < K) (hb : 0 < bar) :
    waterPermittivityUWarns (τ * K) (p * bar) bar K = waterPermittivityWarns τ p := by
  rw [Bool.eq_iff_iff, waterPermittivityWarns_iff]
  simp only [waterPermittivityUWarns, PyFn.warnGate, PyFn.anyS, Bool.true_and, NumReal.npow_eq_pow, NumReal.dec_eq, Int.cast_ofNat, Nat.cast_ofNat,
    Nat.cast_one, Int.cast_neg, Bool.or_eq_true, Bool.and_eq_true, Bool.not_eq_true', decide_eq_true_eq, decide_eq_false_iff_not, Nat.cast_zero,
    not_or, not_lt, Bool.or_eq_false_iff]
  have e1 : τ * K < 27315 / 10 ^ 2 * K ↔ τ < 273.15 := by
    rw [mul_lt_mul_iff_of_pos_right hK]; norm_num
  have e2 : τ * K > 27315 / 10 ^ 2 * K + 350 * K ↔ 623.15 < τ := by
    rw [show (27315 / 10 ^ 2 * K + 350 * K : ℝ) = (623.15 : ℝ) * K by ring, gt_iff_lt, mul_lt_mul_iff_of_pos_right hK]
  have e3 : τ * K > 27315 / 10 ^ 2 * K + 70 * K ↔ 343.15 < τ := by
    rw [show (27315 / 10 ^ 2 * K + 70 * K : ℝ) = (343.15 : ℝ) * K by ring, gt_iff_lt, mul_lt_mul_iff_of_pos_right hK]
  have e4 : p * bar > 2000 * bar ↔ 2000 < p := by rw [gt_iff_lt, mul_lt_mul_iff_of_pos_right hb]
  have e5 : p * bar > 5000 * bar ↔ 5000 < p := by rw [gt_iff_lt, mul_lt_mul_iff_of_pos_right hb]
  simp only [e1, e2, e3, e4, e5]
  constructor
  · rintro ((h | h) | h)
    · rcases h with h | h
      · left; exact h
      · right; left; exact h
    · obtain ⟨⟨_, h2⟩, h3⟩ := h
      right; right; exact ⟨h2, h3⟩
    · obtain ⟨⟨⟨_, _⟩, h3⟩, h4⟩ := h
      exfalso; nlinarith
  · rintro (h | h | ⟨h1, h2⟩)
    · left; left; left; exact h
    · left; left; right; exact h
    · by_cases hh : 623.15 < τ
      · left; left; right; exact hh
      · by_cases h0 : τ < 273.15
        · left; left; left; exact h0
        · have h0' := not_lt.mp h0
          have hh' := not_lt.mp hh
          left; right; exact ⟨⟨⟨by nlinarith, by nlinarith⟩, h1⟩, h2⟩

/-- monotone link between the rational exponent of Korson's equation and the viscosity itself -/
theorem waterViscosity_between {T lo hi : ℝ} (h1 : lo < viscExponent T) (h2 : viscExponent T < hi) :
    1.002 * (10 : ℝ) ^ lo < waterViscosity T ∧ waterViscosity T < 1.002 * (10 : ℝ) ^ hi := by
  rw [waterViscosity_eq]
  have h10 : (1 : ℝ) < 10 := by norm_num
  have a := (Real.rpow_lt_rpow_left_iff h10).mpr h1
  have b := (Real.rpow_lt_rpow_left_iff h10).mpr h2
  constructor <;> nlinarith


theorem nernstU_L2_raw (a x b y z τ k c j kk mo : ℝ) (d Td Cd Jd Kd Md : Units.Dims) :
    nernstPotentialU (α := UVm ℝ) (UV.mk a x d) (UV.mk b y d) (UV.num z) (UV.mk τ k Td)
            (UV.mk 1 c Cd) (UV.mk 1 j Jd) (UV.mk 1 kk Kd) (UV.mk 1 mo Md)
      = UV.mk ((Num.dec 83144598 7 * (1 / 1 / 1) * τ) / (z * (Num.dec 9648533289 5 * (1 / 1))) * Real.log (a / b * (x / y)))
              ((j / kk / mo * k) / (c / mo))
              (Units.Dims.sub (Units.Dims.add (Units.Dims.sub (Units.Dims.sub Jd Kd) Md) Td) (Units.Dims.sub Cd Md)) := by
  simp only [nernstPotentialU, UV.mk, HDiv.hDiv, Div.div, HMul.hMul, Mul.mul, UV.div, UV.mul, HasToUnitless.toUnitless, UV.toUnitless,
    dimsZero_sub_self, if_true, HasLog.log, UV.mathFn]
  rfl

theorem nernstU_L2 (a x b y z τ k c j kk mo : ℝ) (d Td Cd Jd Kd Md : Units.Dims) :
    UV.si (nernstPotentialU (α := UVm ℝ) (UV.mk a x d) (UV.mk b y d) (UV.num z) (UV.mk τ k Td)
            (UV.mk 1 c Cd) (UV.mk 1 j Jd) (UV.mk 1 kk Kd) (UV.mk 1 mo Md))
      = some (nernstPotentialU (a * x) (b * y) z (τ * k) c j kk mo,
              Units.Dims.sub (Units.Dims.add (Units.Dims.sub (Units.Dims.sub Jd Kd) Md) Td) (Units.Dims.sub Cd Md)) := by
  rw [nernstU_L2_raw, UV.si_mk]
  congr 2
  simp only [nernstPotentialU, NumReal.dec_eq, NumReal.log_def, toUnitless_def]
  rw [div_mul_div_comm a b x y]
  generalize j / kk / mo = u
  generalize c / mo = v
  generalize Real.log (a * x / (b * y)) = L
  rw [mul_comm _ L, mul_comm _ L, mul_assoc, div_mul_div_comm]
  congr 1
  congr 1 <;> ring

theorem nernstCU_qconst_L2_raw (a x b y z τ k fF rR : ℝ) (d Td Fd Rd : Units.Dims) :
    nernstPotentialCU (α := UVm ℝ) (UV.mk a x d) (UV.mk b y d) (UV.num z) (UV.mk τ k Td) (UV.mk 1 fF Fd) (UV.mk 1 rR Rd)
      = UV.mk ((1 * τ) / (z * 1) * Real.log (a / b * (x / y))) (rR * k / fF) (Units.Dims.sub (Units.Dims.add Rd Td) Fd) := by
  simp only [nernstPotentialCU, UV.mk, HDiv.hDiv, Div.div, HMul.hMul, Mul.mul, UV.div, UV.mul, HasToUnitless.toUnitless, UV.toUnitless,
    dimsZero_sub_self, if_true, HasLog.log, UV.mathFn]
  rfl

theorem nernstCU_qconst_L2 (a x b y z τ k fF rR : ℝ) (d Td Fd Rd : Units.Dims) :
    UV.si (nernstPotentialCU (α := UVm ℝ) (UV.mk a x d) (UV.mk b y d) (UV.num z) (UV.mk τ k Td) (UV.mk 1 fF Fd) (UV.mk 1 rR Rd))
      = some (nernstPotentialC (a * x) (b * y) z (τ * k) fF rR, Units.Dims.sub (Units.Dims.add Rd Td) Fd) := by
  rw [nernstCU_qconst_L2_raw, UV.si_mk, nernstC_eq, div_mul_div_comm a b x y]
  congr 2
  generalize Real.log (a * x / (b * y)) = L
  rw [mul_comm _ L, mul_comm _ L, mul_assoc, div_mul_div_comm]
  congr 1
  congr 1 <;> ring


/-! ## round 11: L2 for Henry with explicit T0, water density, water self-diffusion -/


theorem henryT0U_L2_raw (τ f H θ g τ0 f0 k : ℝ) :
    henryHAtTU (α := UV ℝ) (UV.mk τ f Tdim') (UV.num H) (UV.mk θ g Tdim') (UV.mk τ0 f0 Tdim') (UV.mk 1 k Tdim')
      = UV.num (H * Real.exp (θ * (1 / τ - (1 / τ0) * ((1 / f0) / (1 / f))) * (g * (1 / f)))) := by
  simp only [henryHAtTU, UV.mk, UVL.add_def, UVL.sub_def, UVL.mul_def, UVL.div_def, UVL.nat_def, UVL.tu_def, UVL.exp_def, UVL.dec_def,
    UV.div, UV.mul, UV.addLike, UV.toUnitless, UV.transc, NumReal.dec_eq, beq_self_eq_true, if_true, dz1]
  norm_num

theorem henryT0U_L2 (τ f H θ g τ0 f0 k : ℝ) (hf : f ≠ 0) (hf0 : f0 ≠ 0) :
    henryHAtTU (α := UV ℝ) (UV.mk τ f Tdim') (UV.num H) (UV.mk θ g Tdim') (UV.mk τ0 f0 Tdim') (UV.mk 1 k Tdim')
      = UV.num (henryHAtT (τ * f) H (θ * g) (τ0 * f0)) := by
  rw [henryT0U_L2_raw, henryHAtT_eq]
  congr 3
  by_cases hτ : τ = 0
  · subst hτ
    by_cases h0 : τ0 = 0
    · subst h0; simp
    · simp; field_simp
  · by_cases h0 : τ0 = 0
    · subst h0; simp; field_simp
    · field_simp


theorem waterDensityU_L2 (x f k g m : ℝ) (Md Ld : Units.Dims) (hf : f ≠ 0) (hk : k ≠ 0) :
    UV.si (waterDensityU (α := UV ℝ) (UV.mk x f Tdim') (UV.mk 1 k Tdim') (UV.mk 1 g Md) (UV.mk 1 m Ld))
      = some (waterDensity (x * f / k) * (g / m ^ 3),
              (Md.sub ((Ld.add Ld).add Ld)).add (((Tdim'.add Tdim').add Tdim').sub ((Tdim'.add Tdim').add Tdim'))) := by
  obtain ⟨s, rfl⟩ : ∃ s, x = s * (k / f) := ⟨x * f / k, by field_simp⟩
  have hs : s * (k / f) * f / k = s := by field_simp
  rw [hs]
  simp only [waterDensityU, UV.mk, UVL.add_def, UVL.sub_def, UVL.mul_def, UVL.div_def, UVL.nat_def, UVL.neg_def, UVL.dec_def,
    UV.div, UV.mul, UV.neg, UV.addLike, NumReal.dec_eq, Num.npow, beq_self_eq_true, if_true, dimsZero_sub_self,
    Int.cast_ofNat, Nat.cast_ofNat, Nat.cast_one, UV.si]
  congr 2
  rw [waterDensity_eq]
  have hr : k / f ≠ 0 := div_ne_zero hk hf
  generalize hrdef : k / f = r at hr ⊢
  have hF : f * f * f / (k * k * f) = 1 / (r * r) := by
    rw [← hrdef]; field_simp
  rw [hF]
  have h0 : s * r - 27315 / 10 ^ 2 * 1 * r + -(3983035 / 10 ^ 6) * 1 * r = r * (s - 273.15 - 3.983035) := by ring
  have h1 : s * r - 27315 / 10 ^ 2 * 1 * r + 301797 / 10 ^ 3 * 1 * r = r * (s - 273.15 + 301.797) := by ring
  have h3 : s * r - 27315 / 10 ^ 2 * 1 * r + 6934881 / 10 ^ 5 * 1 * r = r * (s - 273.15 + 69.34881) := by ring
  rw [h0, h1, h3]
  generalize s - 273.15 - 3.983035 = u0
  generalize s - 273.15 + 301.797 = u1
  generalize s - 273.15 + 69.34881 = u3
  have hq : 1 * (r * u0) * (r * u0) * (r * u1) / (5225289 / 10 ^ 1 * 1 * 1 * (r * u3)) = (r * r) * (u0 ^ 2 * u1 / (522528.9 * u3)) := by
    rw [show 1 * (r * u0) * (r * u0) * (r * u1) = r * ((r * r) * (u0 ^ 2 * u1)) by ring,
      show (5225289 / 10 ^ 1 * 1 * 1 * (r * u3) : ℝ) = r * (522528.9 * u3) by ring, mul_div_mul_left _ _ hr, mul_div_assoc]
  rw [hq]
  generalize u0 ^ 2 * u1 / (522528.9 * u3) = q
  field_simp
  ring


theorem waterDiffusivityU_L2 (x f k m sc : ℝ) (Ld Sd : Units.Dims) (hf : 0 < f) (hk : 0 < k)
    (hbase : 215.05 ≤ x * f / k) :
    UV.si (waterDiffusivityU (α := UV ℝ) (UV.mk x f Tdim') (UV.mk 1 k Tdim') (UV.mk 1 m Ld) (UV.mk 1 sc Sd))
      = some (waterDiffusivity (x * f / k) * (m ^ 2 / sc),
              ((Ld.add Ld).add (Units.Dims.smul (-1) Sd)).add (Tdim'.sub Tdim')) := by
  simp only [waterDiffusivityU, waterDiffusivity, UV.mk, UVL.add_def, UVL.sub_def, UVL.mul_def, UVL.div_def, UVL.nat_def, UVL.neg_def, UVL.dec_def,
    UVL.rpow_def, UV.div, UV.mul, UV.neg, UV.addLike, UV.rpow, NumReal.dec_eq, Num.npow, NumReal.npow_eq_pow, beq_self_eq_true, if_true,
    dimsZero_sub_self, Int.cast_ofNat, Nat.cast_ofNat, Nat.cast_one, NumReal.rpow_def, UV.si]
  congr 2
  have hr : 0 < f / k := div_pos hf hk
  have hb : 0 ≤ x / (21505 / 10 ^ 2 * 1) - 1 / (f / k) := by
    have h1 : x / (21505 / 10 ^ 2 * 1) - 1 / (f / k) = (x * f / k - 215.05) / (215.05 * (f / k)) := by
      field_simp; ring
    rw [h1]
    apply div_nonneg (by linarith) (by positivity)
  have key : (x / (21505 / 10 ^ 2 * 1) - 1 / (f / k)) ^ (2063 / 10 ^ 3 : ℝ) * (f / k) ^ (2063 / 10 ^ 3 : ℝ)
      = (x * f / k / (21505 / 10 ^ 2 * 1) - 1) ^ (2063 / 10 ^ 3 : ℝ) := by
    rw [← Real.mul_rpow hb hr.le]
    congr 1
    field_simp
  calc _ = 1635 / 10 ^ 11 * (1 * 1 * 1) * (1 / (1 * 1)) * (m * m * (1 / sc)) *
        ((x / (21505 / 10 ^ 2 * 1) - 1 / (f / k)) ^ (2063 / 10 ^ 3 : ℝ) * (f / k) ^ (2063 / 10 ^ 3 : ℝ)) := by ring
    _ = _ := by rw [key]; ring

end ChemModel.PhysProps
