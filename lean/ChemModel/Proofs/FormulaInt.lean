/-
C01: what the model of `int()` (`pyInt`) accepts, constructively: surrounding ASCII whitespace, digit groups joined by single
underscores — with the decimal value of the digits.
-/
import ChemModel.Proofs.FormulaCharge

set_option linter.constructorNameAsVariable false

namespace ChemModel.Formula

/-- digit groups joined by single underscores -/
def joinUnders : List (List Char) → List Char
  | [] => []
  | [g] => g
  | g :: gs => g ++ '_' :: joinUnders gs

theorem dropSpaces_append_spaces (w x : List Char) (hw : ∀ c ∈ w, isPySpace c = true) :
    dropSpaces (w ++ x) = dropSpaces x := by
  induction w with
  | nil => rfl
  | cons c r ih =>
    simp only [List.cons_append, dropSpaces, hw c (by simp), if_true]
    exact ih (fun d hd => hw d (by simp [hd]))

theorem takeDigits_group (g r : List Char) (hg : ∀ c ∈ g, c.isDigit = true) :
    takeDigits (g ++ '_' :: r) = (g, '_' :: r) :=
  takeDigits_append g _ hg (by intro c hc; simp at hc; subst hc; decide)

theorem intDigits_join : ∀ (gs : List (List Char)) (fuel : Nat), gs ≠ [] → gs.length ≤ fuel →
    (∀ g ∈ gs, g ≠ [] ∧ ∀ c ∈ g, c.isDigit = true) → intDigits fuel (joinUnders gs) = some gs.flatten := by
  intro gs
  induction gs with
  | nil => intro fuel h; exact absurd rfl h
  | cons g gs ih =>
    intro fuel _ hf hall
    obtain ⟨hne, hd⟩ := hall g (by simp)
    cases fuel with
    | zero => simp at hf
    | succ f =>
      cases gs with
      | nil =>
        have ht : takeDigits g = (g, []) := by
          have := takeDigits_append g [] hd (by intro c hc; simp at hc)
          simpa using this
        simp [joinUnders, intDigits, ht, hne]
      | cons g2 gs2 =>
        have ht := takeDigits_group g (joinUnders (g2 :: gs2)) hd
        have ih' := ih f (by simp) (by simp at hf ⊢; omega) (fun x hx => hall x (by simp [hx]))
        simp only [joinUnders] at ih' ⊢
        simp [intDigits, ht, hne, ih']

theorem joinUnders_head (gs : List (List Char)) (h : gs ≠ []) (hall : ∀ g ∈ gs, g ≠ [] ∧ ∀ c ∈ g, c.isDigit = true) :
    (∃ c r, joinUnders gs = c :: r ∧ c.isDigit = true) ∧ (∃ c r, (joinUnders gs).reverse = c :: r ∧ c.isDigit = true) := by
  induction gs with
  | nil => exact absurd rfl h
  | cons g gs ih =>
    obtain ⟨hne, hd⟩ := hall g (by simp)
    cases gs with
    | nil =>
      simp only [joinUnders]
      constructor
      · cases g with
        | nil => exact absurd rfl hne
        | cons c r => exact ⟨c, r, rfl, hd c (by simp)⟩
      · cases hr : g.reverse with
        | nil => simp at hr; exact absurd hr hne
        | cons c r =>
          have hm : c ∈ g := by
            have : c ∈ g.reverse := by rw [hr]; simp
            simpa using this
          exact ⟨c, r, rfl, hd c hm⟩
    | cons g2 gs2 =>
      obtain ⟨_, c, r, hr, hc⟩ := ih (by simp) (fun x hx => hall x (by simp [hx]))
      simp only [joinUnders] at hr ⊢
      constructor
      · cases g with
        | nil => exact absurd rfl hne
        | cons a b => exact ⟨a, _, rfl, hd a (by simp)⟩
      · exact ⟨c, r ++ '_' :: g.reverse, by simp [List.reverse_append, hr], hc⟩

/-- **What `int()` accepts on the charge number (model):** optional ASCII whitespace, non-empty ASCII digit groups joined by
    single underscores, optional ASCII whitespace — read as the decimal value of the digits (`" 3"`, `"3 "`, `"1_0"`, `"007"`). -/
theorem pyInt_of_groups (w1 w2 : List Char) (gs : List (List Char)) (hw1 : ∀ c ∈ w1, isPySpace c = true)
    (hw2 : ∀ c ∈ w2, isPySpace c = true) (hgs : gs ≠ []) (hall : ∀ g ∈ gs, g ≠ [] ∧ ∀ c ∈ g, c.isDigit = true) :
    pyInt (w1 ++ (joinUnders gs ++ w2)) = some (digitsVal gs.flatten) := by
  obtain ⟨⟨c1, r1, h1, hc1⟩, ⟨c2, r2, h2, hc2⟩⟩ := joinUnders_head gs hgs hall
  have hstrip : stripPy (w1 ++ (joinUnders gs ++ w2)) = joinUnders gs := by
    unfold stripPy
    rw [dropSpaces_append_spaces w1 _ hw1, h1, List.cons_append]
    have : dropSpaces (c1 :: (r1 ++ w2)) = c1 :: (r1 ++ w2) := by simp [dropSpaces, isDigit_notPySpace c1 hc1]
    rw [this]
    have hrev : (c1 :: (r1 ++ w2)).reverse = w2.reverse ++ (joinUnders gs).reverse := by
      rw [h1]; simp
    rw [hrev, dropSpaces_append_spaces _ _ (fun c hc => hw2 c (by simpa using hc)), h2]
    have : dropSpaces (c2 :: r2) = c2 :: r2 := by simp [dropSpaces, isDigit_notPySpace c2 hc2]
    rw [this, ← h2, List.reverse_reverse, h1]
  have hlen : gs.length ≤ (w1 ++ (joinUnders gs ++ w2)).length + 1 := by
    have : ∀ l : List (List Char), (∀ g ∈ l, g ≠ []) → l.length ≤ (joinUnders l).length + 1 := by
      intro l
      induction l with
      | nil => intro _; simp
      | cons g l ih =>
        intro hl
        have hg : 1 ≤ g.length := List.length_pos_iff.mpr (hl g (by simp))
        have := ih (fun x hx => hl x (by simp [hx]))
        cases l with
        | nil => simp [joinUnders]
        | cons g2 l2 => simp only [joinUnders, List.length_cons, List.length_append] at this ⊢; omega
    have := this gs (fun g hg => (hall g hg).1)
    simp only [List.length_append]; omega
  rw [pyInt, hstrip, intDigits_join gs _ hgs hlen hall]; rfl

end ChemModel.Formula
