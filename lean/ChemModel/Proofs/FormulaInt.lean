/-
C01: what the model of `int()` (`pyInt`) accepts, constructively: surrounding ASCII whitespace, digit groups joined by single
underscores — with the decimal value of the digits.
-/
import ChemModel.Proofs.FormulaCharge

set_option linter.constructorNameAsVariable false

namespace ChemModel.Formula

theorem dropSpaces_append_spaces (w x : List Char) (hw : ∀ c ∈ w, isPySpace c = true) :
    dropSpaces (w ++ x) = dropSpaces x := by
  induction w with
  | nil => rfl
  | cons c r ih =>
    simp only [List.cons_append, dropSpaces, hw c (by simp), if_true]
    exact ih (fun d hd => hw d (by simp [hd]))

theorem takeDigits_group (g r : List Char) (hg : ∀ c ∈ g, c.isDigit = true) :
    takeDigits (g ++ '_' :: r) = (g, '_' :: r) :=
  takeDigits_append g _ hg (by intro c hc; simp at hc; subst hc; decide)

theorem intDigits_join : ∀ (gs : List (List Char)) (fuel : Nat), gs ≠ [] → gs.length ≤ fuel →
    (∀ g ∈ gs, g ≠ [] ∧ ∀ c ∈ g, c.isDigit = true) → intDigits fuel (joinUnders gs) = some gs.flatten := by
  intro gs
  induction gs with
  | nil => intro fuel h; exact absurd rfl h
  | cons g gs ih =>
    intro fuel _ hf hall
    obtain ⟨hne, hd⟩ := hall g (by simp)
    cases fuel with
    | zero => simp at hf
    | succ f =>
      cases gs with
      | nil =>
        have ht : takeDigits g = (g, []) := by
          have := takeDigits_append g [] hd (by intro c hc; simp at hc)
          simpa using this
        simp [joinUnders, intDigits, ht, hne]
      | cons g2 gs2 =>
        have ht := takeDigits_group g (joinUnders (g2 :: gs2)) hd
        have ih' := ih f (by simp) (by simp at hf ⊢; omega) (fun x hx => hall x (by simp [hx]))
        simp only [joinUnders] at ih' ⊢
        simp [intDigits, ht, hne, ih']

theorem joinUnders_head (gs : List (List Char)) (h : gs ≠ []) (hall : ∀ g ∈ gs, g ≠ [] ∧ ∀ c ∈ g, c.isDigit = true) :
    (∃ c r, joinUnders gs = c :: r ∧ c.isDigit = true) ∧ (∃ c r, (joinUnders gs).reverse = c :: r ∧ c.isDigit = true) := by
  induction gs with
  | nil => exact absurd rfl h
  | cons g gs ih =>
    obtain ⟨hne, hd⟩ := hall g (by simp)
    cases gs with
    | nil =>
      simp only [joinUnders]
      constructor
      · cases g with
        | nil => exact absurd rfl hne
        | cons c r => exact ⟨c, r, rfl, hd c (by simp)⟩
      · cases hr : g.reverse with
        | nil => simp at hr; exact absurd hr hne
        | cons c r =>
          have hm : c ∈ g := by
            have : c ∈ g.reverse := by rw [hr]; simp
            simpa using this
          exact ⟨c, r, rfl, hd c hm⟩
    | cons g2 gs2 =>
      obtain ⟨_, c, r, hr, hc⟩ := ih (by simp) (fun x hx => hall x (by simp [hx]))
      simp only [joinUnders] at hr ⊢
      constructor
      · cases g with
        | nil => exact absurd rfl hne
        | cons a b => exact ⟨a, _, rfl, hd a (by simp)⟩
      · exact ⟨c, r ++ '_' :: g.reverse, by simp [List.reverse_append, hr], hc⟩

/-- **What `int()` accepts on the charge number (model):** optional ASCII whitespace, non-empty ASCII digit groups joined by
    single underscores, optional ASCII whitespace — read as the decimal value of the digits (`" 3"`, `"3 "`, `"1_0"`, `"007"`). -/
theorem pyInt_of_groups (w1 w2 : List Char) (gs : List (List Char)) (hw1 : ∀ c ∈ w1, isPySpace c = true)
    (hw2 : ∀ c ∈ w2, isPySpace c = true) (hgs : gs ≠ []) (hall : ∀ g ∈ gs, g ≠ [] ∧ ∀ c ∈ g, c.isDigit = true) :
    pyInt (w1 ++ (joinUnders gs ++ w2)) = some (digitsVal gs.flatten) := by
  obtain ⟨⟨c1, r1, h1, hc1⟩, ⟨c2, r2, h2, hc2⟩⟩ := joinUnders_head gs hgs hall
  have hstrip : stripPy (w1 ++ (joinUnders gs ++ w2)) = joinUnders gs := by
    unfold stripPy
    rw [dropSpaces_append_spaces w1 _ hw1, h1, List.cons_append]
    have : dropSpaces (c1 :: (r1 ++ w2)) = c1 :: (r1 ++ w2) := by simp [dropSpaces, isDigit_notPySpace c1 hc1]
    rw [this]
    have hrev : (c1 :: (r1 ++ w2)).reverse = w2.reverse ++ (joinUnders gs).reverse := by
      rw [h1]; simp
    rw [hrev, dropSpaces_append_spaces _ _ (fun c hc => hw2 c (by simpa using hc)), h2]
    have : dropSpaces (c2 :: r2) = c2 :: r2 := by simp [dropSpaces, isDigit_notPySpace c2 hc2]
    rw [this, ← h2, List.reverse_reverse, h1]
  have hlen : gs.length ≤ (w1 ++ (joinUnders gs ++ w2)).length + 1 := by
    have : ∀ l : List (List Char), (∀ g ∈ l, g ≠ []) → l.length ≤ (joinUnders l).length + 1 := by
      intro l
      induction l with
      | nil => intro _; simp
      | cons g l ih =>
        intro hl
        have hg : 1 ≤ g.length := List.length_pos_iff.mpr (hl g (by simp))
        have := ih (fun x hx => hl x (by simp [hx]))
        cases l with
        | nil => simp [joinUnders]
        | cons g2 l2 => simp only [joinUnders, List.length_cons, List.length_append] at this ⊢; omega
    have := this gs (fun g hg => (hall g hg).1)
    simp only [List.length_append]; omega
  rw [pyInt, hstrip, intDigits_join gs _ hgs hlen hall]; rfl

end ChemModel.Formula

namespace ChemModel.Formula

/-- refusing direction: whatever `intDigits` accepts is a non-empty list of non-empty digit groups joined by single underscores -/
theorem intDigits_groups : ∀ (fuel : Nat) (t ds : List Char), intDigits fuel t = some ds →
    ∃ gs : List (List Char), gs ≠ [] ∧ (∀ g ∈ gs, g ≠ [] ∧ ∀ c ∈ g, c.isDigit = true) ∧ t = joinUnders gs ∧ ds = gs.flatten := by
  intro fuel
  induction fuel with
  | zero => intro t ds h; simp [intDigits] at h
  | succ f ih =>
    intro t ds h
    obtain ⟨h1, hd1⟩ := takeDigits_spec t
    simp only [intDigits] at h
    split at h
    · simp at h
    · rename_i hne
      split at h
      · rename_i heq
        simp at h
        refine ⟨[(takeDigits t).1], by simp, ?_, ?_, ?_⟩
        · intro g hg; simp at hg; subst hg; exact ⟨hne, hd1⟩
        · rw [heq, List.append_nil] at h1; simpa [joinUnders] using h1
        · simp [← h]
      · rename_i r' heq
        cases hr : intDigits f r' with
        | none => rw [hr] at h; simp at h
        | some ds' =>
          rw [hr] at h
          simp at h
          obtain ⟨gs', hne', hall', ht', hds'⟩ := ih r' ds' hr
          refine ⟨(takeDigits t).1 :: gs', by simp, ?_, ?_, ?_⟩
          · intro g hg
            rcases List.mem_cons.mp hg with e | e
            · subst e; exact ⟨hne, hd1⟩
            · exact hall' g e
          · cases gs' with
            | nil => exact absurd rfl hne'
            | cons g2 gs2 =>
              simp only [joinUnders]
              rw [← ht', ← heq]; exact h1
          · rw [← h, hds']; simp
      · simp at h

/-- **`int()` on the charge number (model), exact characterisation.** `pyInt s = some n` iff `s` is optional ASCII whitespace,
    non-empty ASCII digit groups joined by SINGLE underscores, optional ASCII whitespace, and `n` is the decimal value of all the
    digits. So ` 3`, `3 `, `1_0`, `007` are read; `1__0`, `_1`, `1_`, `1 0`, the empty / blank string and anything with another
    character are refused. -/
theorem pyInt_iff (s : List Char) (n : Nat) :
    pyInt s = some n ↔
      ∃ (w1 w2 : List Char) (gs : List (List Char)),
        (∀ c ∈ w1, isPySpace c = true) ∧ (∀ c ∈ w2, isPySpace c = true) ∧ gs ≠ [] ∧
        (∀ g ∈ gs, g ≠ [] ∧ ∀ c ∈ g, c.isDigit = true) ∧ s = w1 ++ (joinUnders gs ++ w2) ∧ n = digitsVal gs.flatten := by
  constructor
  · intro h
    simp only [pyInt, Option.map_eq_some_iff] at h
    obtain ⟨ds, hds, hn⟩ := h
    obtain ⟨w1, w2, hs, a1, a2⟩ := stripPy_spec s
    obtain ⟨gs, hne, hall, ht, hfl⟩ := intDigits_groups _ _ _ hds
    exact ⟨w1, w2, gs, a1, a2, hne, hall, by rw [← ht]; exact hs, by rw [← hn, hfl]⟩
  · rintro ⟨w1, w2, gs, a1, a2, hne, hall, hs, hn⟩
    rw [hs, hn]
    exact pyInt_of_groups w1 w2 gs a1 a2 hne hall

end ChemModel.Formula

namespace ChemModel.Formula

theorem IntText.ne_nil {rest : List Char} {n : Nat} (h : IntText rest n) : rest ≠ [] := by
  obtain ⟨w1, w2, gs, _, _, hne, hall, hs, _⟩ := h
  obtain ⟨⟨c, r, hj, _⟩, _⟩ := joinUnders_head gs hne hall
  rw [hs, hj]; simp

/-- `_get_charge` characterised purely syntactically (no reference to the `int()` model) -/
theorem getCharge_ok_iff_text (s : List Char) (q : Int) :
    getCharge s = .ok q ↔
      (s = ['+'] ∧ q = 1) ∨ (s = ['-'] ∧ q = -1) ∨
      (∃ rest n, IntText rest n ∧ ((s = '+' :: rest ∧ q = (n : Int)) ∨ (s = '-' :: rest ∧ q = -(n : Int)))) := by
  rw [getCharge_ok_iff]
  constructor
  · rintro (h | h | ⟨rest, n, _, hp, h⟩)
    · exact Or.inl h
    · exact Or.inr (Or.inl h)
    · exact Or.inr (Or.inr ⟨rest, n, (pyInt_iff rest n).mp hp, h⟩)
  · rintro (h | h | ⟨rest, n, ht, h⟩)
    · exact Or.inl h
    · exact Or.inr (Or.inl h)
    · exact Or.inr (Or.inr ⟨rest, n, ht.ne_nil, (pyInt_iff rest n).mpr ht, h⟩)

end ChemModel.Formula
