/-
C01 helper lemmas, rejection direction (continued): consequences of `Acc` and the rejection of
sign characters, unbalanced brackets and non-symbol capitalised tokens.
-/
import ChemModel.Proofs.FormulaReject

set_option linter.constructorNameAsVariable false

namespace ChemModel.Formula
open ChemModel.Gen

/-! ### generic character facts -/

theorem alpha_ne {c d : Char} (hc : c.isAlpha = true) (hd : d.isAlpha = false) : c ≠ d := by
  intro e; subst e; rw [hc] at hd; exact absurd hd (by decide)

theorem ws_ne {c d : Char} (hc : isWs c = true) (hd : isWs d = false) : c ≠ d := by
  intro e; subst e; rw [hc] at hd; exact absurd hd (by decide)

theorem mark_ne {c d : Char} (hc : isMark c = true) (hd : isMark d = false) : c ≠ d := by
  intro e; subst e; rw [hc] at hd; exact absurd hd (by decide)

/-- a class of characters that avoids a given finite set of "special" characters -/
structure Avoids (P : Char → Prop) : Prop where
  ws : ∀ c, isWs c = true → P c
  alpha : ∀ c, c.isAlpha = true → P c
  digit : ∀ c, c.isDigit = true → P c
  mark : ∀ c, isMark c = true → P c
  dot : P '.'
  atc : P '@'

theorem avoids_ne (d : Char) (h1 : isWs d = false) (h2 : d.isAlpha = false) (h3 : d.isDigit = false)
    (h4 : isMark d = false) (h5 : d ≠ '.') (h6 : d ≠ '@') : Avoids (fun c => c ≠ d) :=
  ⟨fun _ hc => ws_ne hc h1, fun _ hc => alpha_ne hc h2, fun _ hc => isDigit_ne hc h3, fun _ hc => mark_ne hc h4,
   fun e => h5 e.symm, fun e => h6 e.symm⟩

/-! ### (i) no sign characters -/

structure SignFree (c : Char) : Prop where
  plus : c ≠ '+'
  minus : c ≠ '-'
  slash : c ≠ '/'

theorem signFree_avoids : Avoids SignFree :=
  let a := avoids_ne '+' (by decide) (by decide) (by decide) (by decide) (by decide) (by decide)
  let b := avoids_ne '-' (by decide) (by decide) (by decide) (by decide) (by decide) (by decide)
  let c := avoids_ne '/' (by decide) (by decide) (by decide) (by decide) (by decide) (by decide)
  ⟨fun x h => ⟨a.ws x h, b.ws x h, c.ws x h⟩, fun x h => ⟨a.alpha x h, b.alpha x h, c.alpha x h⟩,
   fun x h => ⟨a.digit x h, b.digit x h, c.digit x h⟩, fun x h => ⟨a.mark x h, b.mark x h, c.mark x h⟩,
   ⟨a.dot, b.dot, c.dot⟩, ⟨a.atc, b.atc, c.atc⟩⟩

theorem Acc.signFree_all {s : List Char} (h : Acc s) : ∀ c ∈ s, SignFree c := by
  have A := signFree_avoids
  induction h with
  | nil => intro c hc; simp at hc
  | ws c r hc _ ih => intro d hd; rcases List.mem_cons.mp hd with e | e; subst e; exact A.ws _ hc; exact ih d e
  | sym z r h1 h2 _ ih =>
    intro d hd; rcases List.mem_append.mp hd with e | e
    · exact A.alpha d ((symOK h1 h2).alpha d e)
    · exact ih d e
  | digit c r hc _ ih => intro d hd; rcases List.mem_cons.mp hd with e | e; subst e; exact A.digit _ hc; exact ih d e
  | dot r _ ih => intro d hd; rcases List.mem_cons.mp hd with e | e; subst e; exact A.dot; exact ih d e
  | state st r _ ih =>
    intro d hd; rcases List.mem_append.mp hd with e | e
    · have key : ∀ s : St, ∀ c ∈ s.text, c ≠ '+' ∧ c ≠ '-' ∧ c ≠ '/' := by intro s; cases s <;> decide
      exact ⟨(key st d e).1, (key st d e).2.1, (key st d e).2.2⟩
    · exact ih d e
  | mark c r hc _ ih => intro d hd; rcases List.mem_cons.mp hd with e | e; subst e; exact A.mark _ hc; exact ih d e
  | cage r _ ih => intro d hd; rcases List.mem_cons.mp hd with e | e; subst e; exact A.atc; exact ih d e
  | grp b u r _ _ ih1 ih2 =>
    intro d hd
    have hb : SignFree b.op ∧ SignFree b.cl := by cases b <;> exact ⟨⟨by decide, by decide, by decide⟩, ⟨by decide, by decide, by decide⟩⟩
    rcases List.mem_cons.mp hd with e | e
    · subst e; exact hb.1
    · rcases List.mem_append.mp e with e | e
      · exact ih1 d e
      · rcases List.mem_cons.mp e with e | e
        · subst e; exact hb.2
        · exact ih2 d e

/-! ### (ii) balanced brackets -/

def isCloserB (c : Char) : Bool := c == ')' || c == ']' || c == '}'

/-- bracket scan with a stack of expected closing brackets -/
def balScan : List Char → List Char → Bool
  | st, [] => st.isEmpty
  | st, c :: r =>
    match closer c with
    | some cl => balScan (cl :: st) r
    | none =>
      if isCloserB c then
        match st with
        | x :: st' => x == c && balScan st' r
        | [] => false
      else balScan st r

/-- brackets `( ) [ ] { }` of the text are balanced and properly nested -/
def balanced (s : List Char) : Bool := balScan [] s

def Plain (c : Char) : Prop := closer c = none ∧ isCloserB c = false

theorem plain_of_ne {c : Char} (h1 : c ≠ '(') (h2 : c ≠ '[') (h3 : c ≠ '{') (h4 : c ≠ ')') (h5 : c ≠ ']') (h6 : c ≠ '}') :
    Plain c := by
  constructor
  · unfold closer; split <;> simp_all
  · simp [isCloserB, h4, h5, h6]

theorem plain_avoids : Avoids Plain := by
  have a1 := avoids_ne '(' (by decide) (by decide) (by decide) (by decide) (by decide) (by decide)
  have a2 := avoids_ne '[' (by decide) (by decide) (by decide) (by decide) (by decide) (by decide)
  have a3 := avoids_ne '{' (by decide) (by decide) (by decide) (by decide) (by decide) (by decide)
  have a4 := avoids_ne ')' (by decide) (by decide) (by decide) (by decide) (by decide) (by decide)
  have a5 := avoids_ne ']' (by decide) (by decide) (by decide) (by decide) (by decide) (by decide)
  have a6 := avoids_ne '}' (by decide) (by decide) (by decide) (by decide) (by decide) (by decide)
  exact ⟨fun x h => plain_of_ne (a1.ws x h) (a2.ws x h) (a3.ws x h) (a4.ws x h) (a5.ws x h) (a6.ws x h),
    fun x h => plain_of_ne (a1.alpha x h) (a2.alpha x h) (a3.alpha x h) (a4.alpha x h) (a5.alpha x h) (a6.alpha x h),
    fun x h => plain_of_ne (a1.digit x h) (a2.digit x h) (a3.digit x h) (a4.digit x h) (a5.digit x h) (a6.digit x h),
    fun x h => plain_of_ne (a1.mark x h) (a2.mark x h) (a3.mark x h) (a4.mark x h) (a5.mark x h) (a6.mark x h),
    plain_of_ne a1.dot a2.dot a3.dot a4.dot a5.dot a6.dot, plain_of_ne a1.atc a2.atc a3.atc a4.atc a5.atc a6.atc⟩

theorem balScan_plain (st : List Char) (c : Char) (r : List Char) (h : Plain c) : balScan st (c :: r) = balScan st r := by
  simp [balScan, h.1, h.2]

theorem balScan_plains (st : List Char) (w r : List Char) (h : ∀ c ∈ w, Plain c) : balScan st (w ++ r) = balScan st r := by
  induction w with
  | nil => rfl
  | cons c w' ih =>
    rw [List.cons_append, balScan_plain st c _ (h c (by simp))]
    exact ih (fun d hd => h d (by simp [hd]))

theorem Acc.balScan_eq {u : List Char} (h : Acc u) : ∀ (st r : List Char), balScan st (u ++ r) = balScan st r := by
  have A := plain_avoids
  induction h with
  | nil => intro st r; rfl
  | ws c x hc _ ih => intro st r; rw [List.cons_append, balScan_plain _ _ _ (A.ws c hc)]; exact ih st r
  | sym z x h1 h2 _ ih =>
    intro st r
    rw [List.append_assoc, balScan_plains _ _ _ (fun c hc => A.alpha c ((symOK h1 h2).alpha c hc))]; exact ih st r
  | digit c x hc _ ih => intro st r; rw [List.cons_append, balScan_plain _ _ _ (A.digit c hc)]; exact ih st r
  | dot x _ ih => intro st r; rw [List.cons_append, balScan_plain _ _ _ A.dot]; exact ih st r
  | state s x _ ih =>
    intro st r
    have key : ∀ (s : St) (st y : List Char), balScan st (s.text ++ y) = balScan st y := by
      intro s st y; cases s <;> simp [St.text, balScan, closer, isCloserB]
    rw [List.append_assoc, key]; exact ih st r
  | mark c x hc _ ih => intro st r; rw [List.cons_append, balScan_plain _ _ _ (A.mark c hc)]; exact ih st r
  | cage x _ ih => intro st r; rw [List.cons_append, balScan_plain _ _ _ A.atc]; exact ih st r
  | grp b u x _ _ ih1 ih2 =>
    intro st r
    have e : (b.op :: (u ++ b.cl :: x)) ++ r = b.op :: (u ++ (b.cl :: (x ++ r))) := by simp
    have h1 : balScan st (b.op :: (u ++ (b.cl :: (x ++ r)))) = balScan (b.cl :: st) (u ++ (b.cl :: (x ++ r))) := by
      cases b <;> simp [balScan, closer, Br.op, Br.cl]
    have h2 : balScan (b.cl :: st) (b.cl :: (x ++ r)) = balScan st (x ++ r) := by
      cases b <;> simp [balScan, closer, isCloserB, Br.cl]
    rw [e, h1, ih1, h2]; exact ih2 st r

theorem Acc.balanced_true {s : List Char} (h : Acc s) : balanced s = true := by
  have := h.balScan_eq [] []
  simpa [balanced, balScan] using this

/-! ### (iii) capitalised tokens -/

/-- scan for maximal tokens `[A-Z][a-z]*`; each must be an element symbol. `cur` = token being read. -/
def capScan : Option (List Char) → List Char → Bool
  | none, [] => true
  | some t, [] => (symIndex t).isSome
  | none, c :: r => if c.isUpper then capScan (some [c]) r else capScan none r
  | some t, c :: r =>
    if c.isLower then capScan (some (t ++ [c])) r
    else (symIndex t).isSome && (if c.isUpper then capScan (some [c]) r else capScan none r)

/-- every maximal capitalised token `[A-Z][a-z]*` of the text is one of the element symbols -/
def capTokensOK (s : List Char) : Bool := capScan none s

theorem table_tail_lower : ∀ i < 118, (symChars (i + 1)).tail.all Char.isLower = true := by decide +kernel

theorem capScan_skip (c : Char) (r : List Char) (h : c.isUpper = false) : capScan none (c :: r) = capScan none r := by
  simp [capScan, h]

theorem capScan_skips (w r : List Char) (h : ∀ c ∈ w, c.isUpper = false) : capScan none (w ++ r) = capScan none r := by
  induction w with
  | nil => rfl
  | cons c w' ih => rw [List.cons_append, capScan_skip c _ (h c (by simp))]; exact ih (fun d hd => h d (by simp [hd]))

theorem capScan_some_notLower (t x : List Char) (hx : NotLower x) :
    capScan (some t) x = ((symIndex t).isSome && capScan none x) := by
  cases x with
  | nil => simp [capScan]
  | cons c x' =>
    have hc : c.isLower = false := hx c rfl
    by_cases hu : c.isUpper = true <;> simp [capScan, hc, hu]

theorem capScan_sym {z : Nat} (h1 : 1 ≤ z) (h2 : z ≤ 118) (x : List Char) (hx : NotLower x) :
    capScan none (symChars z ++ x) = capScan none x := by
  have hs := symOK h1 h2
  obtain ⟨i, rfl⟩ : ∃ i, z = i + 1 := ⟨z - 1, by omega⟩
  have htl := table_tail_lower i (by omega)
  have hidx : (symIndex (symChars (i + 1))).isSome = true := by rw [hs.idx]; rfl
  generalize symChars (i + 1) = s at *
  cases s with
  | nil => have := hs.len; simp at this
  | cons a s1 =>
    have ha : a.isUpper = true := hs.upper a rfl
    cases s1 with
    | nil => simp [capScan, ha, capScan_some_notLower [a] x hx, hidx]
    | cons b s2 =>
      cases s2 with
      | nil =>
        have hb : b.isLower = true := by simpa using htl
        simp [capScan, ha, hb, capScan_some_notLower [a, b] x hx, hidx]
      | cons _ _ => have := hs.len; simp at this

theorem notUpper_of_ne_alpha {c : Char} (h : c.isAlpha = false) : c.isUpper = false := by
  simp [Char.isAlpha] at h; exact h.1

theorem ws_notAlpha {c : Char} (h : isWs c = true) : c.isAlpha = false := by
  simp [isWs] at h; rcases h with ((h | h) | h) | h <;> subst h <;> decide

theorem mark_notAlpha {c : Char} (h : isMark c = true) : c.isAlpha = false := by
  rcases isMark_cases h with e | e <;> subst e <;> decide

theorem digit_notAlpha {c : Char} (h : c.isDigit = true) : c.isAlpha = false := by
  cases ha : c.isAlpha with
  | false => rfl
  | true => have := (isUpper_alpha_facts c ha).1; rw [h] at this; exact absurd this (by decide)

theorem notLower_of_ne_alpha {c : Char} (h : c.isAlpha = false) : c.isLower = false := by
  simp [Char.isAlpha] at h; exact h.2

/-- accepted text never starts with a lowercase letter -/
theorem Acc.notLower_app {u : List Char} (h : Acc u) (r : List Char) (hr : NotLower r) : NotLower (u ++ r) := by
  cases h with
  | nil => simpa using hr
  | ws c x hc _ => intro d hd; simp at hd; subst hd; exact notLower_of_ne_alpha (ws_notAlpha hc)
  | sym z x h1 h2 _ =>
    intro d hd
    have hs := symOK h1 h2
    generalize symChars z = s at *
    cases s with
    | nil => have := hs.len; simp at this
    | cons a s1 => simp at hd; subst hd; exact isUpper_notLower _ (hs.upper _ rfl)
  | digit c x hc _ => intro d hd; simp at hd; subst hd; exact isDigit_notLower _ hc
  | dot x _ => intro d hd; simp at hd; subst hd; decide
  | state s x _ => intro d hd; cases s <;> (simp [St.text] at hd; subst hd; decide)
  | mark c x hc _ => intro d hd; simp at hd; subst hd; exact notLower_of_ne_alpha (mark_notAlpha hc)
  | cage x _ => intro d hd; simp at hd; subst hd; decide
  | grp b u x _ _ => intro d hd; simp at hd; subst hd; cases b <;> decide

theorem Acc.capScan_eq {u : List Char} (h : Acc u) : ∀ r, NotLower r → capScan none (u ++ r) = capScan none r := by
  induction h with
  | nil => intro r _; rfl
  | ws c x hc _ ih => intro r hr; rw [List.cons_append, capScan_skip _ _ (notUpper_of_ne_alpha (ws_notAlpha hc))]; exact ih r hr
  | sym z x h1 h2 hx ih =>
    intro r hr
    rw [List.append_assoc, capScan_sym h1 h2 _ (hx.notLower_app r hr)]; exact ih r hr
  | digit c x hc _ ih => intro r hr; rw [List.cons_append, capScan_skip _ _ (notUpper_of_ne_alpha (digit_notAlpha hc))]; exact ih r hr
  | dot x _ ih => intro r hr; rw [List.cons_append, capScan_skip _ _ (by decide)]; exact ih r hr
  | state s x _ ih =>
    intro r hr
    have key : ∀ s : St, ∀ c ∈ s.text, c.isUpper = false := by intro s; cases s <;> decide
    rw [List.append_assoc, capScan_skips _ _ (key s)]; exact ih r hr
  | mark c x hc _ ih => intro r hr; rw [List.cons_append, capScan_skip _ _ (notUpper_of_ne_alpha (mark_notAlpha hc))]; exact ih r hr
  | cage x _ ih => intro r hr; rw [List.cons_append, capScan_skip _ _ (by decide)]; exact ih r hr
  | grp b u x _ hx ih1 ih2 =>
    intro r hr
    have e : (b.op :: (u ++ b.cl :: x)) ++ r = b.op :: (u ++ (b.cl :: (x ++ r))) := by simp
    have hcl : NotLower (b.cl :: (x ++ r)) := by intro d hd; simp at hd; subst hd; cases b <;> decide
    rw [e, capScan_skip _ _ (by cases b <;> decide), ih1 _ hcl, capScan_skip _ _ (by cases b <;> decide)]
    exact ih2 r hr

theorem Acc.capTokensOK_true {s : List Char} (h : Acc s) : capTokensOK s = true := by
  have := h.capScan_eq [] (by intro c hc; simp at hc)
  simpa [capTokensOK, capScan] using this

/-! ### rejection by the stoichiometry parser -/

theorem parseStoich_cases (s : List Char) : (∃ c, parseStoich s = .ok c) ∨ parseStoich s = .error .parse := by
  simp only [parseStoich]
  split
  · exact Or.inl ⟨_, rfl⟩
  · split
    · split
      · exact Or.inl ⟨_, rfl⟩
      · exact Or.inr rfl
    · exact Or.inr rfl

theorem parseStoich_reject (s : List Char) (hne : s ≠ ['e']) (hbad : ¬ Acc s) : parseStoich s = .error .parse := by
  rcases parseStoich_cases s with ⟨c, hc⟩ | h
  · rcases parseStoich_sound s c hc with e | a
    · exact absurd e hne
    · exact absurd a hbad
  · exact h

end ChemModel.Formula
