/-
Helper lemmas for C17: derivatives of the closed forms generated from `chempy/kinetics/integrated.py`
(`Gen/FnIntegrated.lean`), instantiated at ℝ.  The property theorems are in `Props/C17.lean`.
-/
import ChemModel.Gen.FnIntegrated
import ChemModel.Proofs.NumReal
import Mathlib.Tactic.Linarith
import Mathlib.Tactic.LinearCombination
import Mathlib.Analysis.ODE.ExistUnique

set_option linter.unusedSimpArgs false
set_option linter.unusedTactic false

namespace ChemModel.Integrated
open ChemModel ChemModel.Gen

/-- `exp` of a function that is linear in the variable: `d/ds exp (g s) = c · exp (g t)` when `g s = c·s`
(the generated exponents come as `((-a) * b) * s`, `(-s) * c`, `((-a) * s) * b`, ... — `ring` proves `hg`). -/
theorem hasDerivAt_exp_lin {g : ℝ → ℝ} (c t : ℝ) (hg : ∀ s, g s = c * s) :
    HasDerivAt (fun s => Real.exp (g s)) (c * Real.exp (g t)) t := by
  have hgf : g = fun s => c * s := funext hg
  subst hgf
  have h1 : HasDerivAt (fun s : ℝ => c * s) c t := by
    simpa using (hasDerivAt_id t).const_mul c
  exact h1.exp.congr_deriv (by ring)

/-! ### normal forms

Every proof below is about a hand-written NORMAL FORM of the closed form (`…NF`, `binaryRevWith`, `cstrWith`: explicit real
expressions).  The generated function is tied to its normal form by an `…_eq_nf` lemma that is proved SEMANTICALLY: unfold the
generated text (all `let`-bound temporaries disappear by zeta-reduction) and normalise both sides as commutative-ring expressions
(`ring_nf`, which also normalises inside the arguments of `exp`, `√`, `tanh`, `artanh`, `^`).  A behaviour-preserving rewrite of the
Python (a new temporary, a common sub-expression, re-associated or commuted products, `a - b` vs `-b + a`) therefore leaves every
proof intact; an algebraic change makes `ring_nf` end in two different normal forms and the lemma fails. -/

/-- closes `generated = normal form` after both sides have been unfolded -/
macro "nf_close" : tactic => `(tactic| first | done | rfl | (ring_nf; done) | (ring_nf; rfl) | (field_simp; ring_nf; done))

noncomputable def dimerizationNF (t kf c t0 : ℝ) : ℝ := 1 / (1 / c + 2 * kf * (t - t0))

noncomputable def pseudoIrrevNF (t kf prod major minor : ℝ) : ℝ := prod + minor * (1 - Real.exp (-major * kf * t))

noncomputable def pseudoRevNF (t kf kb prod major minor : ℝ) : ℝ :=
  prod + (-kb * prod + kf * major * minor + (kb * prod - kf * major * minor) * Real.exp (-t * (kb + kf * major))) / (kb + kf * major)

noncomputable def binaryIrrevNF (t kf prod major minor : ℝ) : ℝ :=
  prod + major * (1 - Real.exp (-kf * (major - minor) * t)) / (major / minor - Real.exp (-kf * t * (major - minor)))

noncomputable def unaryIrrevCstrNF (t k r p fr fp fv : ℝ) : ℝ × ℝ :=
  (fr * fv * (1 / (fv + k)) + 1 / (fv + k) * (fv * r + k * r - fr * fv) * Real.exp (-t * (fv + k)),
   -(1 / (fv + k)) * (fv * r + k * r - fr * fv) * Real.exp (-fv * t) * (-1 + Real.exp (-k * t))
     + 1 / (fv + k) * Real.exp (-fv * t) * (-fp * fv - fp * k + fv * p + k * p - fr * k)
     + 1 / (fv + k) * (fp * (fv + k) + fr * k))

theorem dimerization_eq_nf (t kf c t0 : ℝ) : dimerizationIrrev t kf c t0 = dimerizationNF t kf c t0 := by
  simp only [dimerizationIrrev, dimerizationNF, NumReal.npow_eq_pow, Nat.cast_one, Nat.cast_ofNat]
  nf_close

theorem pseudoIrrev_eq_nf (t kf prod major minor : ℝ) : pseudoIrrev t kf prod major minor = pseudoIrrevNF t kf prod major minor := by
  simp only [pseudoIrrev, pseudoIrrevNF, NumReal.exp_def, NumReal.npow_eq_pow, Nat.cast_one, Nat.cast_ofNat]
  nf_close

theorem pseudoRev_eq_nf (t kf kb prod major minor : ℝ) :
    pseudoRev t kf kb prod major minor = pseudoRevNF t kf kb prod major minor := by
  simp only [pseudoRev, pseudoRevNF, NumReal.exp_def, NumReal.npow_eq_pow, Nat.cast_one, Nat.cast_ofNat]
  nf_close

theorem binaryIrrev_eq_nf (t kf prod major minor : ℝ) : binaryIrrev t kf prod major minor = binaryIrrevNF t kf prod major minor := by
  simp only [binaryIrrev, binaryIrrevNF, NumReal.exp_def, NumReal.npow_eq_pow, Nat.cast_one, Nat.cast_ofNat]
  nf_close

theorem unaryIrrevCstr_eq_nf (t k r p fr fp fv : ℝ) : unaryIrrevCstr t k r p fr fp fv = unaryIrrevCstrNF t k r p fr fp fv := by
  simp only [unaryIrrevCstr, unaryIrrevCstrNF, NumReal.exp_def, NumReal.npow_eq_pow, Nat.cast_one, Nat.cast_ofNat]
  nf_close

/-! ### dimerization_irrev -/

theorem dimerization_hasDerivAt (t kf c t0 : ℝ) (hden : 1 / c + 2 * kf * (t - t0) ≠ 0) :
    HasDerivAt (fun s => dimerizationIrrev s kf c t0) (-2 * kf * (dimerizationIrrev t kf c t0) ^ 2) t := by
  simp only [dimerization_eq_nf]
  simp only [dimerizationNF]
  have h1 : HasDerivAt (fun s : ℝ => 1 / c + 2 * kf * (s - t0)) (2 * kf) t := by
    simpa using (((hasDerivAt_id t).sub_const t0).const_mul (2 * kf)).const_add (1 / c)
  have h2 := (hasDerivAt_const t (1 : ℝ)).div h1 hden
  refine h2.congr_deriv ?_
  field_simp
  ring

/-! ### pseudo_irrev -/

theorem pseudoIrrev_hasDerivAt (t kf prod major minor : ℝ) :
    HasDerivAt (fun s => pseudoIrrev s kf prod major minor)
      (kf * major * (minor - (pseudoIrrev t kf prod major minor - prod))) t := by
  simp only [pseudoIrrev_eq_nf]
  simp only [pseudoIrrevNF]
  have hE := hasDerivAt_exp_lin (g := fun s => -major * kf * s) (-major * kf) t (fun s => by ring)
  exact (((hE.const_sub 1).const_mul minor).const_add prod).congr_deriv (by ring)

/-! ### pseudo_rev -/

theorem pseudoRev_hasDerivAt (t kf kb prod major minor : ℝ) (hl : kb + kf * major ≠ 0) :
    HasDerivAt (fun s => pseudoRev s kf kb prod major minor)
      (kf * major * (minor - (pseudoRev t kf kb prod major minor - prod)) - kb * pseudoRev t kf kb prod major minor) t := by
  simp only [pseudoRev_eq_nf]
  simp only [pseudoRevNF]
  have hE := hasDerivAt_exp_lin (g := fun s => -s * (kb + kf * major)) (-(kb + kf * major)) t (fun s => by ring)
  have h := (((hE.const_mul (kb * prod - kf * major * minor)).const_add (-kb * prod + kf * major * minor)).div_const
    (kb + kf * major)).const_add prod
  refine h.congr_deriv ?_
  field_simp
  ring

/-! ### binary_irrev -/

theorem binaryIrrev_hasDerivAt (t kf prod major minor : ℝ) (hminor : minor ≠ 0)
    (hden : major / minor - Real.exp (-kf * t * (major - minor)) ≠ 0) :
    HasDerivAt (fun s => binaryIrrev s kf prod major minor)
      (kf * (major - (binaryIrrev t kf prod major minor - prod)) * (minor - (binaryIrrev t kf prod major minor - prod))) t := by
  simp only [binaryIrrev_eq_nf]
  simp only [binaryIrrevNF]
  have hE1 := hasDerivAt_exp_lin (g := fun s => -kf * (major - minor) * s) (-kf * (major - minor)) t (fun s => by ring)
  have hE2 := hasDerivAt_exp_lin (g := fun s => -kf * s * (major - minor)) (-kf * (major - minor)) t (fun s => by ring)
  have h := ((((hE1.const_sub 1).const_mul major).div (hE2.const_sub (major / minor)) hden)).const_add prod
  refine h.congr_deriv ?_
  have he : -kf * (major - minor) * t = -kf * t * (major - minor) := by ring
  simp only [he]
  generalize hE : Real.exp (-kf * t * (major - minor)) = E at hden ⊢
  have hden' : major - minor * E ≠ 0 := by
    intro h0
    apply hden
    field_simp
    linarith
  field_simp
  ring

/-- for `0 < minor < major`, `0 < kf`, `0 ≤ t` the denominator of `binary_irrev` does not vanish -/
theorem binaryIrrev_den_ne (t kf major minor : ℝ) (hkf : 0 < kf) (hminor : 0 < minor) (hlt : minor < major) (ht : 0 ≤ t) :
    major / minor - Real.exp (-kf * t * (major - minor)) ≠ 0 := by
  have h1 : 1 < major / minor := by rw [one_lt_div hminor]; exact hlt
  have h2 : Real.exp (-kf * t * (major - minor)) ≤ 1 := by
    rw [Real.exp_le_one_iff]
    have : 0 ≤ kf * t * (major - minor) := mul_nonneg (mul_nonneg hkf.le ht) (by linarith)
    linarith
  linarith

/-- for `0 < major < minor` (the "minor" reactant in excess), `0 < kf`, `0 ≤ t` the denominator does not vanish either -/
theorem binaryIrrev_den_ne_minor_excess (t kf major minor : ℝ) (hkf : 0 < kf) (hmajor : 0 < major) (hlt : major < minor)
    (ht : 0 ≤ t) : major / minor - Real.exp (-kf * t * (major - minor)) ≠ 0 := by
  have hminor : 0 < minor := lt_trans hmajor hlt
  have h1 : major / minor < 1 := by rw [div_lt_one hminor]; exact hlt
  have h2 : 1 ≤ Real.exp (-kf * t * (major - minor)) := by
    rw [Real.one_le_exp_iff]
    have : 0 ≤ kf * t * (minor - major) := mul_nonneg (mul_nonneg hkf.le ht) (by linarith)
    nlinarith
  linarith

/-! ### unary_irrev_cstr -/

theorem unaryIrrevCstr_fst_hasDerivAt (t k r p fr fp fv : ℝ) (hk : fv + k ≠ 0) :
    HasDerivAt (fun s => (unaryIrrevCstr s k r p fr fp fv).1)
      (-k * (unaryIrrevCstr t k r p fr fp fv).1 + fv * (fr - (unaryIrrevCstr t k r p fr fp fv).1)) t := by
  simp only [unaryIrrevCstr_eq_nf]
  simp only [unaryIrrevCstrNF]
  have hE := hasDerivAt_exp_lin (g := fun s => -s * (fv + k)) (-(fv + k)) t (fun s => by ring)
  have h := (hE.const_mul (1 / (fv + k) * (fv * r + k * r - fr * fv))).const_add (fr * fv * (1 / (fv + k)))
  refine h.congr_deriv ?_
  field_simp
  ring

theorem unaryIrrevCstr_snd_hasDerivAt (t k r p fr fp fv : ℝ) (hk : fv + k ≠ 0) :
    HasDerivAt (fun s => (unaryIrrevCstr s k r p fr fp fv).2)
      (k * (unaryIrrevCstr t k r p fr fp fv).1 + fv * (fp - (unaryIrrevCstr t k r p fr fp fv).2)) t := by
  simp only [unaryIrrevCstr_eq_nf]
  simp only [unaryIrrevCstrNF]
  have hEv := hasDerivAt_exp_lin (g := fun s => -fv * s) (-fv) t (fun s => by ring)
  have hEk := hasDerivAt_exp_lin (g := fun s => -k * s) (-k) t (fun s => by ring)
  have h1 := (hEv.const_mul (-(1 / (fv + k)) * (fv * r + k * r - fr * fv))).mul (hEk.const_add (-1))
  have h2 := (hEv.const_mul (1 / (fv + k))).mul_const (-fp * fv - fp * k + fv * p + k * p - fr * k)
  have h := (h1.add h2).add_const (1 / (fv + k) * (fp * (fv + k) + fr * k))
  refine h.congr_deriv ?_
  have hsplit : Real.exp (-t * (fv + k)) = Real.exp (-fv * t) * Real.exp (-k * t) := by
    rw [← Real.exp_add]; congr 1; ring
  simp only [hsplit]
  field_simp
  ring

/-! ### binary_rev -/

/-- discriminant under the square root of `binary_rev` -/
noncomputable def binaryRevDisc (kf kb prod major minor : ℝ) : ℝ :=
  -4 * kf * (prod ^ 2 * kf + prod * (major * kf) + prod * (minor * kf) + minor * (major * kf))
    + (-(2 * prod * kf) + (-kb - major * kf - minor * kf)) ^ 2

/-- `binary_rev` with the value `s` of the square root `x5` as a parameter -/
noncomputable def binaryRevWith (s t kf kb X Y Z : ℝ) : ℝ :=
  ((-(2 * X * kf) + (-kb - Y * kf - Z * kf)) * (-kb - Y * kf - Z * kf - s) + s * (-kb - Y * kf - Z * kf - s)
      + (-kb - Y * kf - Z * kf + s) * Real.exp (-t * s) * (2 * X * kf + (kb + Y * kf + Z * kf + s)))
    / (2 * kf * (kb + Y * kf + Z * kf + s + (-kb - Y * kf - Z * kf + s) * Real.exp (-t * s)))

theorem binaryRev_eq_with (t kf kb X Y Z : ℝ) :
    binaryRev t kf kb X Y Z = binaryRevWith (Real.sqrt (binaryRevDisc kf kb X Y Z)) t kf kb X Y Z := by
  simp only [binaryRev, binaryRevWith, binaryRevDisc, NumReal.exp_def, NumReal.sqrt_def, NumReal.npow_eq_pow, Nat.cast_ofNat, Nat.cast_one]
  nf_close

set_option maxRecDepth 20000 in
theorem binaryRevWith_hasDerivAt (t kf kb X Y Z s : ℝ) (hkf : kf ≠ 0)
    (hs2 : s ^ 2 = binaryRevDisc kf kb X Y Z)
    (hden : kb + Y * kf + Z * kf + s + (-kb - Y * kf - Z * kf + s) * Real.exp (-t * s) ≠ 0) :
    HasDerivAt (fun τ => binaryRevWith s τ kf kb X Y Z)
      (kf * (Y - (binaryRevWith s t kf kb X Y Z - X)) * (Z - (binaryRevWith s t kf kb X Y Z - X))
        - kb * binaryRevWith s t kf kb X Y Z) t := by
  unfold binaryRevWith
  have hE := hasDerivAt_exp_lin (g := fun τ => -τ * s) (-s) t (fun τ => by ring)
  have hN := ((hE.const_mul (-kb - Y * kf - Z * kf + s)).mul_const (2 * X * kf + (kb + Y * kf + Z * kf + s))).const_add
    ((-(2 * X * kf) + (-kb - Y * kf - Z * kf)) * (-kb - Y * kf - Z * kf - s) + s * (-kb - Y * kf - Z * kf - s))
  have hD := ((hE.const_mul (-kb - Y * kf - Z * kf + s)).const_add (kb + Y * kf + Z * kf + s)).const_mul (2 * kf)
  have hden2 : 2 * kf * (kb + Y * kf + Z * kf + s + (-kb - Y * kf - Z * kf + s) * Real.exp (-t * s)) ≠ 0 :=
    mul_ne_zero (mul_ne_zero two_ne_zero hkf) hden
  have h := hN.div hD hden2
  refine h.congr_deriv ?_
  generalize Real.exp (-t * s) = E at hden hden2 ⊢
  unfold binaryRevDisc at hs2
  generalize hd : kb + Y * kf + Z * kf + s + (-kb - Y * kf - Z * kf + s) * E = d at hden hden2 ⊢
  field_simp
  subst hd
  linear_combination (-(kb + Y * kf + Z * kf + s + (-kb - Y * kf - Z * kf + s) * E) ^ 2) * hs2

theorem binaryRevDisc_eq (kf kb X Y Z : ℝ) :
    binaryRevDisc kf kb X Y Z = kf ^ 2 * (Y - Z) ^ 2 + 2 * kb * kf * (Y + Z + 2 * X) + kb ^ 2 := by
  unfold binaryRevDisc; ring

theorem binaryRevDisc_pos (kf kb X Y Z : ℝ) (hkf : 0 < kf) (hkb : 0 < kb) (hX : 0 ≤ X) (hY : 0 ≤ Y) (hZ : 0 ≤ Z) :
    0 < binaryRevDisc kf kb X Y Z := by
  rw [binaryRevDisc_eq]
  have h1 : 0 ≤ kf ^ 2 * (Y - Z) ^ 2 := by positivity
  have h2 : 0 ≤ 2 * kb * kf * (Y + Z + 2 * X) := by positivity
  have h3 : 0 < kb ^ 2 := by positivity
  linarith

/-- the denominator of `binary_rev` is positive for `t ≥ 0` -/
theorem binaryRev_den_ne (t kf kb Y Z s : ℝ) (hu : 0 < kb + Y * kf + Z * kf) (hs : 0 < s) (ht : 0 ≤ t) :
    kb + Y * kf + Z * kf + s + (-kb - Y * kf - Z * kf + s) * Real.exp (-t * s) ≠ 0 := by
  have he0 : 0 < Real.exp (-t * s) := Real.exp_pos _
  have he1 : Real.exp (-t * s) ≤ 1 := by
    rw [Real.exp_le_one_iff]
    have : 0 ≤ t * s := mul_nonneg ht hs.le
    linarith
  generalize Real.exp (-t * s) = e at he0 he1
  have h1 : 0 ≤ (kb + Y * kf + Z * kf) * (1 - e) := mul_nonneg hu.le (by linarith)
  have h2 : 0 < s * (1 + e) := mul_pos hs (by linarith)
  intro h
  nlinarith

theorem binaryRevWith_init (kf kb X Y Z s : ℝ) (hkf : kf ≠ 0) (hs : s ≠ 0) : binaryRevWith s 0 kf kb X Y Z = X := by
  unfold binaryRevWith
  simp only [neg_zero, zero_mul, Real.exp_zero, mul_one]
  have h2 : kb + Y * kf + Z * kf + s + (-kb - Y * kf - Z * kf + s) = 2 * s := by ring
  rw [h2]
  field_simp
  ring

/-! ### binary_irrev_cstr -/

/-- the argument of `atanh` in `binary_irrev_cstr` -/
noncomputable def cstrArg (k r fr fv : ℝ) : ℝ :=
  (-fv ^ ((3:ℝ) * 1 / 2) * √(fv + fr * (8 * k)) - 4 * k * r * (√fv * √(fv + fr * (8 * k)))) / (fv ^ 2 + fv * (fr * (8 * k)))

/-- `binary_irrev_cstr` with the constants `x7 = c`, `x1 = a` (= √fv), `x4 = b` (= √(fv + 8·k·fr)) as parameters -/
noncomputable def cstrWith (c a b t k r p fr fp fv n : ℝ) : ℝ × ℝ :=
  (1 / k * (-fv + a * b * Real.tanh (t * (a * b / 2) - c)) / 4,
   1 / k * (fv * n + (8 * k * p + r * (4 * k * n) - fr * (4 * k * n) - fp * (8 * k)) * Real.exp (-(fv * t))
        - a * n * b * Real.tanh (a * b / 2 * (t - 2 * c / (a * b)))
        + fr * (4 * k * n) + fp * (8 * k)) / 8)

theorem binaryIrrevCstr_eq_with (t k r p fr fp fv n : ℝ) :
    binaryIrrevCstr t k r p fr fp fv n
      = cstrWith (Real.artanh (cstrArg k r fr fv)) (√fv) (√(fv + fr * (8 * k))) t k r p fr fp fv n := by
  simp only [binaryIrrevCstr, cstrWith, cstrArg, NumReal.exp_def, NumReal.sqrt_def, NumReal.tanh_def, NumReal.atanh_def,
    NumReal.rpow_def, NumReal.npow_eq_pow, Nat.cast_ofNat, Nat.cast_one]
  nf_close

theorem cstrWith_fst_hasDerivAt (c a b t k r p fr fp fv n : ℝ) (hk : k ≠ 0) (ha : a ^ 2 = fv) (hb : b ^ 2 = fv + fr * (8 * k)) :
    HasDerivAt (fun s => (cstrWith c a b s k r p fr fp fv n).1)
      (fv * fr - fv * (cstrWith c a b t k r p fr fp fv n).1 - 2 * k * (cstrWith c a b t k r p fr fp fv n).1 ^ 2) t := by
  simp only [cstrWith]
  have hlin : HasDerivAt (fun s : ℝ => s * (a * b / 2) - c) (a * b / 2) t := by
    simpa using ((hasDerivAt_id t).mul_const (a * b / 2)).sub_const c
  have h := ((((hlin.tanh).const_mul (a * b)).const_add (-fv)).const_mul (1 / k)).div_const 4
  refine h.congr_deriv ?_
  generalize Real.tanh (t * (a * b / 2) - c) = T
  subst ha
  obtain rfl : fr = (b ^ 2 - a ^ 2) / (8 * k) := by field_simp; linarith
  field_simp
  ring

theorem cstrWith_snd_hasDerivAt (c a b t k r p fr fp fv n : ℝ) (hk : k ≠ 0) (ha0 : a ≠ 0) (hb0 : b ≠ 0)
    (ha : a ^ 2 = fv) (hb : b ^ 2 = fv + fr * (8 * k)) :
    HasDerivAt (fun s => (cstrWith c a b s k r p fr fp fv n).2)
      (fv * fp + n * k * (cstrWith c a b t k r p fr fp fv n).1 ^ 2 - fv * (cstrWith c a b t k r p fr fp fv n).2) t := by
  simp only [cstrWith]
  have hEn := hasDerivAt_exp_lin (g := fun s => -(fv * s)) (-fv) t (fun s => by ring)
  have hlin : HasDerivAt (fun s : ℝ => a * b / 2 * (s - 2 * c / (a * b))) (a * b / 2) t := by
    simpa using ((hasDerivAt_id t).sub_const (2 * c / (a * b))).const_mul (a * b / 2)
  have hT := hlin.tanh
  have hG := ((((hEn.const_mul (8 * k * p + r * (4 * k * n) - fr * (4 * k * n) - fp * (8 * k))).const_add (fv * n)).sub
    (hT.const_mul (a * n * b))).add_const (fr * (4 * k * n))).add_const (fp * (8 * k))
  have h := (hG.const_mul (1 / k)).div_const 8
  refine h.congr_deriv ?_
  have harg : a * b / 2 * (t - 2 * c / (a * b)) = t * (a * b / 2) - c := by field_simp
  try simp only [Pi.add_apply, Pi.sub_apply, Pi.mul_apply]
  rw [harg]
  generalize Real.exp (-(fv * t)) = E
  generalize Real.tanh (t * (a * b / 2) - c) = T
  subst ha
  obtain rfl : fr = (b ^ 2 - a ^ 2) / (8 * k) := by field_simp; linarith
  field_simp
  ring

theorem rpow_three_halves (x : ℝ) (hx : 0 ≤ x) : x ^ ((3:ℝ) * 1 / 2) = x * √x := by
  have h : (3:ℝ) * 1 / 2 = 1 + 1 / 2 := by norm_num
  rw [h, Real.rpow_add' hx (by norm_num), Real.rpow_one, ← Real.sqrt_eq_rpow]

/-- the `atanh` argument is `−(fv + 4·k·r) / (√fv · √(fv + 8·k·fr))` -/
theorem cstrArg_eq (k r fr fv : ℝ) (hfv : 0 < fv) (hrad : 0 < fv + fr * (8 * k)) :
    cstrArg k r fr fv = -(fv + 4 * k * r) / (√fv * √(fv + fr * (8 * k))) := by
  unfold cstrArg
  rw [rpow_three_halves fv hfv.le]
  have ha2 : √fv ^ 2 = fv := Real.sq_sqrt hfv.le
  have hb2 : √(fv + fr * (8 * k)) ^ 2 = fv + fr * (8 * k) := Real.sq_sqrt hrad.le
  have ha0 : 0 < √fv := Real.sqrt_pos.mpr hfv
  have hb0 : 0 < √(fv + fr * (8 * k)) := Real.sqrt_pos.mpr hrad
  generalize √fv = a at *
  generalize √(fv + fr * (8 * k)) = b at *
  have hden : fv ^ 2 + fv * (fr * (8 * k)) = a ^ 2 * b ^ 2 := by rw [ha2, hb2]; ring
  rw [hden]
  subst ha2
  field_simp
  ring

/-- EXACT domain of the closed form: the `atanh` argument lies in (−1, 1) iff the initial concentration `r` is below
the steady state, i.e. `2·k·r² + fv·r < fv·fr` -/
theorem cstrArg_mem_Ioo_iff (k r fr fv : ℝ) (hk : 0 < k) (hr : 0 ≤ r) (hfv : 0 < fv) (hfr : 0 ≤ fr) :
    cstrArg k r fr fv ∈ Set.Ioo (-1) 1 ↔ 2 * k * r ^ 2 + fv * r < fv * fr := by
  have hrad : 0 < fv + fr * (8 * k) := by positivity
  rw [cstrArg_eq k r fr fv hfv hrad]
  have ha2 : √fv ^ 2 = fv := Real.sq_sqrt hfv.le
  have hb2 : √(fv + fr * (8 * k)) ^ 2 = fv + fr * (8 * k) := Real.sq_sqrt hrad.le
  have ha0 : 0 < √fv := Real.sqrt_pos.mpr hfv
  have hb0 : 0 < √(fv + fr * (8 * k)) := Real.sqrt_pos.mpr hrad
  generalize √fv = a at *
  generalize √(fv + fr * (8 * k)) = b at *
  have hab : 0 < a * b := mul_pos ha0 hb0
  have hnum : 0 < fv + 4 * k * r := by positivity
  have hsq : (a * b) ^ 2 = fv * (fv + fr * (8 * k)) := by rw [mul_pow, ha2, hb2]
  rw [Set.mem_Ioo, neg_div, neg_lt_neg_iff, div_lt_one hab]
  constructor
  · rintro ⟨h1, -⟩
    have : (fv + 4 * k * r) ^ 2 < (a * b) ^ 2 := by
      apply pow_lt_pow_left₀ h1 hnum.le; norm_num
    rw [hsq] at this
    nlinarith
  · intro h
    refine ⟨?_, ?_⟩
    · by_contra hcon
      have hcon := not_lt.mp hcon
      have : (a * b) ^ 2 ≤ (fv + 4 * k * r) ^ 2 := pow_le_pow_left₀ hab.le hcon 2
      rw [hsq] at this
      nlinarith
    · have : 0 < (fv + 4 * k * r) / (a * b) := div_pos hnum hab
      linarith

theorem cstrWith_init (a b k r p fr fp fv n : ℝ) (hk : k ≠ 0) (ha0 : a ≠ 0) (hb0 : b ≠ 0)
    (x : ℝ) (hx : x ∈ Set.Ioo (-1 : ℝ) 1) (hxe : x = -(fv + 4 * k * r) / (a * b)) :
    cstrWith (Real.artanh x) a b 0 k r p fr fp fv n = (r, p) := by
  have harg : a * b / 2 * (0 - 2 * Real.artanh x / (a * b)) = -Real.artanh x := by field_simp; ring
  simp only [cstrWith]
  rw [harg]
  simp only [zero_mul, zero_sub, mul_zero, neg_zero, Real.exp_zero, mul_one, Real.tanh_neg, Real.tanh_artanh hx]
  subst hxe
  refine Prod.ext ?_ ?_ <;> simp only <;> field_simp <;> ring

/-! ### specification of the closed form ABOVE the steady state (coth branch)

`binary_irrev_cstr` is only defined for `r` below the steady state (known finding).  The solution there is the same expression with
`coth = 1/tanh` in place of `tanh` and `artanh(1/arg)` in place of `artanh(arg)`; it is what the sympy backend evaluates through complex
arithmetic.  `cstrAbove` is that specification (hand-written; a target for a repair of the finding, NOT generated from the source). -/

noncomputable def cstrAbove (c a b t k r p fr fp fv n : ℝ) : ℝ × ℝ :=
  (1 / k * (-fv + a * b * (1 / Real.tanh (t * (a * b / 2) - c))) / 4,
   1 / k * (fv * n + (8 * k * p + r * (4 * k * n) - fr * (4 * k * n) - fp * (8 * k)) * Real.exp (-(fv * t))
        - a * n * b * (1 / Real.tanh (t * (a * b / 2) - c))
        + fr * (4 * k * n) + fp * (8 * k)) / 8)

theorem tanh_pos_of_pos {x : ℝ} (hx : 0 < x) : 0 < Real.tanh x := by
  rw [Real.tanh_eq_sinh_div_cosh]
  exact div_pos (Real.sinh_pos_iff.mpr hx) (Real.cosh_pos x)

/-- `d/ds coth(s·m − c) = (1 − coth²)·m` wherever `tanh ≠ 0` -/
theorem hasDerivAt_coth_lin (m c t : ℝ) (h0 : Real.tanh (t * m - c) ≠ 0) :
    HasDerivAt (fun s => 1 / Real.tanh (s * m - c)) ((1 - (1 / Real.tanh (t * m - c)) ^ 2) * m) t := by
  have hlin : HasDerivAt (fun s : ℝ => s * m - c) m t := by
    simpa using ((hasDerivAt_id t).mul_const m).sub_const c
  have h := (hasDerivAt_const t (1 : ℝ)).div hlin.tanh h0
  refine h.congr_deriv ?_
  field_simp
  ring

theorem cstrAbove_fst_hasDerivAt (c a b t k r p fr fp fv n : ℝ) (hk : k ≠ 0) (ha : a ^ 2 = fv) (hb : b ^ 2 = fv + fr * (8 * k))
    (h0 : Real.tanh (t * (a * b / 2) - c) ≠ 0) :
    HasDerivAt (fun s => (cstrAbove c a b s k r p fr fp fv n).1)
      (fv * fr - fv * (cstrAbove c a b t k r p fr fp fv n).1 - 2 * k * (cstrAbove c a b t k r p fr fp fv n).1 ^ 2) t := by
  simp only [cstrAbove]
  have hC := hasDerivAt_coth_lin (a * b / 2) c t h0
  have h := ((((hC.const_mul (a * b)).const_add (-fv)).const_mul (1 / k))).div_const 4
  refine h.congr_deriv ?_
  generalize 1 / Real.tanh (t * (a * b / 2) - c) = T
  subst ha
  obtain rfl : fr = (b ^ 2 - a ^ 2) / (8 * k) := by field_simp; linarith
  field_simp
  ring

theorem cstrAbove_snd_hasDerivAt (c a b t k r p fr fp fv n : ℝ) (hk : k ≠ 0) (ha : a ^ 2 = fv) (hb : b ^ 2 = fv + fr * (8 * k))
    (h0 : Real.tanh (t * (a * b / 2) - c) ≠ 0) :
    HasDerivAt (fun s => (cstrAbove c a b s k r p fr fp fv n).2)
      (fv * fp + n * k * (cstrAbove c a b t k r p fr fp fv n).1 ^ 2 - fv * (cstrAbove c a b t k r p fr fp fv n).2) t := by
  simp only [cstrAbove]
  have hEn := hasDerivAt_exp_lin (g := fun s => -(fv * s)) (-fv) t (fun s => by ring)
  have hC := hasDerivAt_coth_lin (a * b / 2) c t h0
  have hG := ((((hEn.const_mul (8 * k * p + r * (4 * k * n) - fr * (4 * k * n) - fp * (8 * k))).const_add (fv * n)).sub
    (hC.const_mul (a * n * b))).add_const (fr * (4 * k * n))).add_const (fp * (8 * k))
  have h := (hG.const_mul (1 / k)).div_const 8
  refine h.congr_deriv ?_
  try simp only [Pi.add_apply, Pi.sub_apply, Pi.mul_apply]
  generalize Real.exp (-(fv * t)) = E
  generalize 1 / Real.tanh (t * (a * b / 2) - c) = T
  subst ha
  obtain rfl : fr = (b ^ 2 - a ^ 2) / (8 * k) := by field_simp; linarith
  field_simp
  ring

theorem cstrAbove_init (a b k r p fr fp fv n : ℝ) (hk : k ≠ 0) (ha0 : a ≠ 0) (hb0 : b ≠ 0) (hq : fv + 4 * k * r ≠ 0)
    (x : ℝ) (hx : x ∈ Set.Ioo (-1 : ℝ) 1) (hxe : x = -(a * b) / (fv + 4 * k * r)) :
    cstrAbove (Real.artanh x) a b 0 k r p fr fp fv n = (r, p) := by
  simp only [cstrAbove, zero_mul, zero_sub, mul_zero, neg_zero, Real.exp_zero, mul_one, Real.tanh_neg, Real.tanh_artanh hx]
  subst hxe
  refine Prod.ext ?_ ?_ <;> simp only <;> field_simp <;> ring

/-- above the steady state `x = −√fv·√(fv+8k·fr)/(fv+4kr)` lies in (−1, 0) -/
theorem cstrAbove_arg_mem (k r fr fv : ℝ) (hk : 0 < k) (hr : 0 ≤ r) (hfv : 0 < fv) (hfr : 0 ≤ fr)
    (habove : fv * fr < 2 * k * r ^ 2 + fv * r) :
    -(√fv * √(fv + fr * (8 * k))) / (fv + 4 * k * r) ∈ Set.Ioo (-1 : ℝ) 0 := by
  have hrad : 0 < fv + fr * (8 * k) := by positivity
  have ha2 : √fv ^ 2 = fv := Real.sq_sqrt hfv.le
  have hb2 : √(fv + fr * (8 * k)) ^ 2 = fv + fr * (8 * k) := Real.sq_sqrt hrad.le
  have ha0 : 0 < √fv := Real.sqrt_pos.mpr hfv
  have hb0 : 0 < √(fv + fr * (8 * k)) := Real.sqrt_pos.mpr hrad
  generalize √fv = a at *
  generalize √(fv + fr * (8 * k)) = b at *
  have hab : 0 < a * b := mul_pos ha0 hb0
  have hq : 0 < fv + 4 * k * r := by positivity
  have hsq : (a * b) ^ 2 = fv * (fv + fr * (8 * k)) := by rw [mul_pow, ha2, hb2]
  have hlt : a * b < fv + 4 * k * r := by
    by_contra hcon
    have hcon := not_lt.mp hcon
    have : (fv + 4 * k * r) ^ 2 ≤ (a * b) ^ 2 := pow_le_pow_left₀ hq.le hcon 2
    rw [hsq] at this
    nlinarith
  constructor
  · rw [neg_div, neg_lt_neg_iff, div_lt_one hq]; exact hlt
  · rw [neg_div, neg_lt_zero]; exact div_pos hab hq

/-- the specification above the steady state with its integration constant `artanh(1/arg)`, `1/arg = −√fv·√(fv+8k·fr)/(fv+4kr)` -/
noncomputable def binaryIrrevCstrAbove (t k r p fr fp fv n : ℝ) : ℝ × ℝ :=
  cstrAbove (Real.artanh (-(√fv * √(fv + fr * (8 * k))) / (fv + 4 * k * r))) (√fv) (√(fv + fr * (8 * k))) t k r p fr fp fv n

/-- for `t ≥ 0` the `tanh` in the denominator of the coth branch is positive -/
theorem cstrAbove_tanh_ne (t k r fr fv : ℝ) (hk : 0 < k) (hr : 0 ≤ r) (hfv : 0 < fv) (hfr : 0 ≤ fr)
    (habove : fv * fr < 2 * k * r ^ 2 + fv * r) (ht : 0 ≤ t) :
    Real.tanh (t * (√fv * √(fv + fr * (8 * k)) / 2)
      - Real.artanh (-(√fv * √(fv + fr * (8 * k))) / (fv + 4 * k * r))) ≠ 0 := by
  have hc := Real.artanh_neg (cstrAbove_arg_mem k r fr fv hk hr hfv hfr habove)
  have hab : 0 ≤ √fv * √(fv + fr * (8 * k)) / 2 := by positivity
  have := mul_nonneg ht hab
  exact (tanh_pos_of_pos (by linarith)).ne'

/-! ### uniqueness for the linear rate equations -/

/-- an affine right-hand side `y ↦ c·y + e` is Lipschitz -/
theorem lipschitz_affine (c e : ℝ) : LipschitzWith (Real.nnabs c) (fun y : ℝ => c * y + e) := by
  refine LipschitzWith.of_dist_le_mul fun x y => ?_
  rw [Real.dist_eq, Real.dist_eq, show c * x + e - (c * y + e) = c * (x - y) by ring, abs_mul]
  simp

/-- two global solutions of `y' = c·y + e` with the same value at 0 coincide -/
theorem affine_ode_unique (c e : ℝ) (f g : ℝ → ℝ) (hf : ∀ t, HasDerivAt f (c * f t + e) t) (hg : ∀ t, HasDerivAt g (c * g t + e) t)
    (h0 : f 0 = g 0) : f = g :=
  ODE_solution_unique_univ (v := fun _ z => c * z + e) (s := fun _ => Set.univ) (K := Real.nnabs c) (t₀ := 0)
    (fun _ => (lipschitz_affine c e).lipschitzOnWith) (fun t => ⟨hf t, trivial⟩) (fun t => ⟨hg t, trivial⟩) h0

section Uniqueness
open Set
/-- two global solutions of `y' = c·y + e t` (time-dependent inhomogeneity) with the same value at 0 coincide -/
theorem affine_ode_unique' (c : ℝ) (e : ℝ → ℝ) (f g : ℝ → ℝ) (hf : ∀ t, HasDerivAt f (c * f t + e t) t)
    (hg : ∀ t, HasDerivAt g (c * g t + e t) t) (h0 : f 0 = g 0) : f = g :=
  ODE_solution_unique_univ (v := fun t z => c * z + e t) (s := fun _ => Set.univ) (K := Real.nnabs c) (t₀ := 0)
    (fun t => (lipschitz_affine c (e t)).lipschitzOnWith) (fun t => ⟨hf t, trivial⟩) (fun t => ⟨hg t, trivial⟩) h0

/-- the quadratic right-hand side `z ↦ α z² + β z + γ` is Lipschitz on `[-M, M]` -/
theorem lipschitzOn_quadratic (α β γ M : ℝ) (hM : 0 ≤ M) :
    LipschitzOnWith (Real.nnabs (|α| * (2 * M) + |β|)) (fun z : ℝ => α * z ^ 2 + β * z + γ) (Icc (-M) M) := by
  refine LipschitzOnWith.of_dist_le_mul fun x hx y hy => ?_
  have hK : 0 ≤ |α| * (2 * M) + |β| := add_nonneg (mul_nonneg (abs_nonneg α) (by linarith)) (abs_nonneg β)
  rw [Real.dist_eq, Real.dist_eq, Real.coe_nnabs, abs_of_nonneg hK]
  have h1 : α * x ^ 2 + β * x + γ - (α * y ^ 2 + β * y + γ) = (α * (x + y) + β) * (x - y) := by ring
  rw [h1, abs_mul]
  refine mul_le_mul_of_nonneg_right ?_ (abs_nonneg _)
  have hxy : |x + y| ≤ 2 * M := by
    rw [abs_le]; constructor <;> linarith [hx.1, hx.2, hy.1, hy.2]
  calc |α * (x + y) + β| ≤ |α * (x + y)| + |β| := abs_add_le _ _
    _ = |α| * |x + y| + |β| := by rw [abs_mul]
    _ ≤ |α| * (2 * M) + |β| := by gcongr

/-- two solutions of `y' = α y² + β y + γ` on `[a, b]` with the same value at `a` coincide on `[a, b]` -/
theorem quadratic_ode_unique (α β γ a b : ℝ) (f g : ℝ → ℝ)
    (hf : ∀ t ∈ Icc a b, HasDerivAt f (α * f t ^ 2 + β * f t + γ) t)
    (hg : ∀ t ∈ Icc a b, HasDerivAt g (α * g t ^ 2 + β * g t + γ) t) (h0 : f a = g a) :
    EqOn f g (Icc a b) := by
  have hfc : ContinuousOn f (Icc a b) := fun t ht => (hf t ht).continuousAt.continuousWithinAt
  have hgc : ContinuousOn g (Icc a b) := fun t ht => (hg t ht).continuousAt.continuousWithinAt
  obtain ⟨Mf, hMf⟩ := isCompact_Icc.exists_bound_of_continuousOn hfc
  obtain ⟨Mg, hMg⟩ := isCompact_Icc.exists_bound_of_continuousOn hgc
  set M := max (max Mf Mg) 0 with hM
  have hM0 : 0 ≤ M := le_max_right _ _
  have hfs : ∀ t ∈ Ico a b, f t ∈ Icc (-M) M := fun t ht => by
    have := hMf t (Ico_subset_Icc_self ht)
    rw [Real.norm_eq_abs, abs_le] at this
    have h2 : Mf ≤ M := le_trans (le_max_left _ _) (le_max_left _ _)
    exact ⟨by linarith [this.1], by linarith [this.2]⟩
  have hgs : ∀ t ∈ Ico a b, g t ∈ Icc (-M) M := fun t ht => by
    have := hMg t (Ico_subset_Icc_self ht)
    rw [Real.norm_eq_abs, abs_le] at this
    have h2 : Mg ≤ M := le_trans (le_max_right _ _) (le_max_left _ _)
    exact ⟨by linarith [this.1], by linarith [this.2]⟩
  exact ODE_solution_unique_of_mem_Icc_right (v := fun _ z => α * z ^ 2 + β * z + γ) (s := fun _ => Icc (-M) M)
    (fun _ _ => lipschitzOn_quadratic α β γ M hM0) hfc
    (fun t ht => (hf t (Ico_subset_Icc_self ht)).hasDerivWithinAt) hfs hgc
    (fun t ht => (hg t (Ico_subset_Icc_self ht)).hasDerivWithinAt) hgs h0
/-- interval version: two solutions of `y' = c·y + e t` on `[a, b]` with the same value at `a` coincide on `[a, b]` -/
theorem affine_ode_unique_on (c : ℝ) (e : ℝ → ℝ) (a b : ℝ) (f g : ℝ → ℝ)
    (hf : ∀ t ∈ Icc a b, HasDerivAt f (c * f t + e t) t) (hg : ∀ t ∈ Icc a b, HasDerivAt g (c * g t + e t) t) (h0 : f a = g a) :
    EqOn f g (Icc a b) :=
  ODE_solution_unique (v := fun t z => c * z + e t) (K := Real.nnabs c) (fun t => lipschitz_affine c (e t))
    (fun t ht => (hf t ht).continuousAt.continuousWithinAt) (fun t ht => (hf t (Ico_subset_Icc_self ht)).hasDerivWithinAt)
    (fun t ht => (hg t ht).continuousAt.continuousWithinAt) (fun t ht => (hg t (Ico_subset_Icc_self ht)).hasDerivWithinAt) h0
end Uniqueness

end ChemModel.Integrated
